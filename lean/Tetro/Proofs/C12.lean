import Tetro.Model.Timer
import Tetro.Spec.Timer
/-
C12 – the timer counts, overflows and reloads as the DMG timer.

Code model `Model.Timer` (timer.go after commit 73224bd, function for function) against the
documentation-shaped `Spec.Timer` (continuous falling-edge detector, relative two-cycle reload
phase, interrupt = "TIMA wrapped in this cycle").

ALPHABET.  The refinement is stated per MACHINE CYCLE: `Option Write` = at most one write to
DIV/TIMA/TMA/TAC followed by `EndMachineCycle`.  That is everything a guest can do (one bus access
per machine cycle), and it is forced by the pinned unit tests: `testTIMA` does
`WriteTAC(enable); Reset()` on a fresh timer with counter bit 3/5/7/9 set and NO tick in between and
requires TIMA to stay 00, while a continuous detector sees the signal rise at the TAC write and fall
at the DIV write.  The code therefore detects write-caused edges relative to `lastEdgeSet` (the level
at the last tick) and tick-caused edges by comparing the level just before/after `counter += 4`.
With at most one write per cycle this IS the continuous detector (`lastEdgeSet` = level at the
start of the cycle = level before the write): that equality is the content of `step_ok`.
For schedules with several writes inside one cycle (only a harness can produce them) the theorems
below cover DIV/TMA/TAC (`c12_regs_free`, `c12_div`); TIMA and the IRQ are then tied to the code by
the correspondence run only (and deliberately do not follow the continuous specification).

An overflow caused by a write in cycle k behaves as one detected at the tick ending cycle k
(`increment(2)` then one decrement at that tick = `increment(1)` at the tick).

Theorems (all without `sorry`; axioms checked by bin/check):
  c12_refines              observation sequences of Model and Spec agree, every legal start state,
                           every guest schedule
  c12_regs_free, c12_div, c12_div_write_clears, c12_div_free_running
  c12_one_irq, c12_irq_count
  c12_reload_relative, c12_after_reload_writes
  c12_rate, c12_rate_events, c12_periods
  c12_inv_init, c12_inv_after_tick, c12_inv_harness_reset   (which states are legal starts)
  c12_selected_bit         the mask table selects bits 9/3/5/7
Helper lemmas are `private` (`step_ok` is the simulation step).
-/
namespace Tetro.C12
open Tetro.Timer (Write Obs Call)

/-- invariant of the code model at machine-cycle boundaries (after `EndMachineCycle`) -/
structure MInv (t : Model.Timer.T) : Prop where
  counter_lt : t.counter < 65536
  tac_lt : t.tac < 256
  tima_lt : t.tima < 256
  tma_lt : t.tma < 256
  delay_le : t.reloadDelay ≤ 1
  no_irq : t.interrupt = false
  edge : t.lastEdgeSet = Model.Timer.edgeSet t
  zero : t.reloadDelay = 1 → t.tima = 0

def ByteW : Option Write → Prop
  | none => True
  | some .div => True
  | some (.tima v) => v < 256
  | some (.tma v) => v < 256
  | some (.tac v) => v < 256

def abs (t : Model.Timer.T) : Spec.Timer.St :=
  { sys := t.counter, tac := t.tac, tima := t.tima, tma := t.tma,
    overflowed := decide (t.reloadDelay = 1), reloaded := t.reloading }

private theorem edgeSet_eq (t : Model.Timer.T) :
    Model.Timer.edgeSet t = Spec.Timer.signal t.counter t.tac := by
  unfold Model.Timer.edgeSet Model.Timer.counterBitSet Spec.Timer.signal Spec.Timer.selectedBit
  have h : t.tac % 4 = 0 ∨ t.tac % 4 = 1 ∨ t.tac % 4 = 2 ∨ t.tac % 4 = 3 := by omega
  rcases h with h | h | h | h <;>
    (rw [Bool.eq_iff_iff]; simp [h, Nat.testBit_eq_decide_div_mod_eq])

/-- the code's mask table `counterBitMasks` (bits 9, 3, 5, 7 indexed by `tac & 3`) selects the bit
    the documentation names, and the code's mask test is a test of that bit -/
theorem c12_selected_bit (t : Model.Timer.T) :
    Model.Timer.maskBit t.tac = Spec.Timer.selectedBit t.tac ∧
    Model.Timer.counterBitSet t = t.counter.testBit (Model.Timer.maskBit t.tac) := by
  unfold Model.Timer.maskBit Model.Timer.counterBitSet Spec.Timer.selectedBit
  have h : t.tac % 4 = 0 ∨ t.tac % 4 = 1 ∨ t.tac % 4 = 2 ∨ t.tac % 4 = 3 := by omega
  rcases h with h | h | h | h <;>
    (refine ⟨by simp [h], ?_⟩; rw [Bool.eq_iff_iff]; simp [h, Nat.testBit_eq_decide_div_mod_eq])

/-! ### `EndMachineCycle`, field by field -/
section tick
open Model.Timer
variable (u : Model.Timer.T)

/-- the tick-caused falling edge as the code computes it -/
def tickFalls (u : Model.Timer.T) : Bool :=
  Spec.Timer.signal u.counter u.tac && !Spec.Timer.signal ((u.counter + 4) % 65536) u.tac

/-- TIMA after the reload block -/
def loadedTima (u : Model.Timer.T) : Nat := if u.reloadDelay = 1 then u.tma else u.tima

private theorem reloadStep_advance :
    reloadStep (advance u) =
      { counter := (u.counter + 4) % 65536, tac := u.tac, tima := loadedTima u, tma := u.tma,
        lastEdgeSet := u.lastEdgeSet, reloadDelay := u.reloadDelay - 1,
        reloading := decide (u.reloadDelay = 1), interrupt := u.interrupt } := by
  unfold reloadStep advance loadedTima
  by_cases h0 : u.reloadDelay = 0
  · simp [h0]
  · by_cases h1 : u.reloadDelay = 1
    · simp [h1]
    · have h2 : u.reloadDelay > 0 := by omega
      have h3 : ¬ (u.reloadDelay - 1 = 0) := by omega
      simp [h1, h2, h3]

private theorem endCyclePre_eq :
    endCyclePre u =
      { counter := (u.counter + 4) % 65536, tac := u.tac,
        tima := if tickFalls u then (loadedTima u + 1) % 256 else loadedTima u,
        tma := u.tma,
        lastEdgeSet := Spec.Timer.signal ((u.counter + 4) % 65536) u.tac,
        reloadDelay := if tickFalls u ∧ (loadedTima u + 1) % 256 = 0 then 1 else u.reloadDelay - 1,
        reloading := decide (u.reloadDelay = 1),
        interrupt := u.interrupt || (tickFalls u && decide ((loadedTima u + 1) % 256 = 0)) } := by
  unfold endCyclePre
  rw [reloadStep_advance]
  unfold tickEdge increment
  simp only [edgeSet_eq]
  unfold tickFalls
  cases Spec.Timer.signal u.counter u.tac <;>
    cases Spec.Timer.signal ((u.counter + 4) % 65536) u.tac <;> simp
  by_cases h : (loadedTima u + 1) % 256 = 0 <;> simp [h]

end tick

/-! ### the write handlers -/
section writes
open Model.Timer

private theorem checkFallingEdge_eq (x : Model.Timer.T) :
    checkFallingEdge x =
      { counter := x.counter, tac := x.tac,
        tima := if x.lastEdgeSet && !Spec.Timer.signal x.counter x.tac then (x.tima + 1) % 256 else x.tima,
        tma := x.tma,
        lastEdgeSet := x.lastEdgeSet && Spec.Timer.signal x.counter x.tac,
        reloadDelay :=
          if (x.lastEdgeSet && !Spec.Timer.signal x.counter x.tac) = true ∧ (x.tima + 1) % 256 = 0 then 2
          else x.reloadDelay,
        reloading := x.reloading,
        interrupt := x.interrupt ||
          ((x.lastEdgeSet && !Spec.Timer.signal x.counter x.tac) && decide ((x.tima + 1) % 256 = 0)) } := by
  rcases x with ⟨c, tac, tima, tma, les, rd, rl, irq⟩
  unfold checkFallingEdge increment
  simp only [edgeSet_eq]
  by_cases h : (tima + 1) % 256 = 0 <;>
    cases les <;> rcases Bool.eq_false_or_eq_true (Spec.Timer.signal c tac) with h0 | h0 <;> simp [h, h0]

end writes

section step
open Model.Timer
set_option linter.unusedSimpArgs false

private theorem wrap_iff (x : Nat) (h : x < 256) : decide ((x + 1) % 256 = 0) = (x == 255) := by
  rw [Bool.eq_iff_iff]; simp; omega

private theorem wrap_iff' (x : Nat) (h : x < 256) : ((x + 1) % 256 = 0) = (x = 255) := by
  apply propext; omega

private theorem beq_dec (x y : Nat) : (x == y) = decide (x = y) := by
  rw [Bool.eq_iff_iff]; simp

/-- every definition of the specification, for unfolding -/
local macro "spec_defs" : tactic => `(tactic|
  simp only [Spec.Timer.cycle, Spec.Timer.cycleObs, Spec.Timer.overflows, Spec.Timer.timaEnd,
      Spec.Timer.timaLoaded, Spec.Timer.timaMid, Spec.Timer.reloads, Spec.Timer.countEdge,
      Spec.Timer.writeEdge, Spec.Timer.cancels, Spec.Timer.timaAfterWrite, Spec.Timer.tmaAfterWrite,
      Spec.Timer.tacAfterWrite, Spec.Timer.sysAfterWrite, Spec.Timer.sysNext, Spec.Timer.falls,
      Spec.Timer.bump, Spec.Timer.readDIV, Spec.Timer.readTAC, abs])

local macro "model_defs" : tactic => `(tactic|
  simp only [cycle, cycleObs, applyOpt, applyWrite, writeDIV, reset, writeTAC, writeTIMA, writeTMA,
      checkFallingEdge_eq, endCycle, endCycleIrq, endCyclePre_eq, tickFalls, loadedTima,
      readDIV, readTIMA, readTMA, readTAC, Bool.not_false, Bool.not_true, Bool.false_eq_true,
      ↓reduceIte])

/-- one machine cycle of the model is matched by one cycle of the specification -/
def StepOK (t : Model.Timer.T) (w : Option Write) : Prop :=
  MInv (Model.Timer.cycle t w) ∧
  abs (Model.Timer.cycle t w) = Spec.Timer.cycle (abs t) w ∧
  Model.Timer.cycleObs t w = Spec.Timer.cycleObs (abs t) w

private theorem step_none (t : Model.Timer.T) (h : MInv t) : StepOK t none := by
  obtain ⟨h1, h2, h3, h4, h5, h6, h7, h8⟩ := h
  rcases t with ⟨c, tac, tima, tma, les, rd, rl, irq⟩
  simp only at h1 h2 h3 h4 h5 h6 h7 h8
  rw [edgeSet_eq] at h7
  simp only at h7
  subst h6 h7
  have hrd : rd = 0 ∨ rd = 1 := by omega
  have w3' := wrap_iff' tima h3
  have w4' := wrap_iff' tma h4
  unfold StepOK
  model_defs
  spec_defs
  refine ⟨⟨?_, ?_, ?_, ?_, ?_, ?_, ?_, ?_⟩, ?_, ?_⟩
  case refine_1 => simp only []; omega
  case refine_2 => simp only []; omega
  case refine_7 => simp only [edgeSet_eq]
  case refine_6 => rfl
  all_goals
    rcases hrd with rfl | rfl <;>
    rcases Bool.eq_false_or_eq_true (Spec.Timer.signal c tac) with h0 | h0 <;>
    rcases Bool.eq_false_or_eq_true (Spec.Timer.signal ((c + 4) % 65536) tac) with h2 | h2 <;>
    simp [h0, h2, w3', w4', beq_dec] <;> (repeat' split) <;> (try simp_all) <;> (try omega)

private theorem step_div (t : Model.Timer.T) (h : MInv t) : StepOK t (some .div) := by
  obtain ⟨h1, h2, h3, h4, h5, h6, h7, h8⟩ := h
  rcases t with ⟨c, tac, tima, tma, les, rd, rl, irq⟩
  simp only at h1 h2 h3 h4 h5 h6 h7 h8
  rw [edgeSet_eq] at h7
  simp only at h7
  subst h6 h7
  have hrd : rd = 0 ∨ rd = 1 := by omega
  have w3' := wrap_iff' tima h3
  have w4' := wrap_iff' tma h4
  unfold StepOK
  model_defs
  spec_defs
  refine ⟨⟨?_, ?_, ?_, ?_, ?_, ?_, ?_, ?_⟩, ?_, ?_⟩
  case refine_1 => simp only []; omega
  case refine_2 => simp only []; omega
  case refine_7 => simp only [edgeSet_eq]
  case refine_6 => rfl
  all_goals
    rcases hrd with rfl | rfl <;>
    rcases Bool.eq_false_or_eq_true (Spec.Timer.signal c tac) with h0 | h0 <;>
    rcases Bool.eq_false_or_eq_true (Spec.Timer.signal 0 tac) with h1' | h1' <;>
    rcases Bool.eq_false_or_eq_true (Spec.Timer.signal 4 tac) with h2 | h2 <;>
    simp [h0, h1', h2, w3', w4', beq_dec] <;> (repeat' split) <;> (try simp_all) <;> (try omega)

private theorem step_tima (t : Model.Timer.T) (h : MInv t) (v : Nat) (hw : v < 256) :
    StepOK t (some (.tima v)) := by
  obtain ⟨h1, h2, h3, h4, h5, h6, h7, h8⟩ := h
  rcases t with ⟨c, tac, tima, tma, les, rd, rl, irq⟩
  simp only at h1 h2 h3 h4 h5 h6 h7 h8
  rw [edgeSet_eq] at h7
  simp only at h7
  subst h6 h7
  have hrd : rd = 0 ∨ rd = 1 := by omega
  have w3' := wrap_iff' tima h3
  have w4' := wrap_iff' tma h4
  unfold StepOK
  cases rl
  all_goals
    model_defs
    spec_defs
    refine ⟨⟨?_, ?_, ?_, ?_, ?_, ?_, ?_, ?_⟩, ?_, ?_⟩
    case refine_1 => simp only []; omega
    case refine_2 => simp only []; omega
    case refine_7 => simp only [edgeSet_eq]
    case refine_6 => rfl
    all_goals
      rcases hrd with rfl | rfl <;>
      rcases Bool.eq_false_or_eq_true (Spec.Timer.signal c tac) with h0 | h0 <;>
      rcases Bool.eq_false_or_eq_true (Spec.Timer.signal ((c + 4) % 65536) tac) with h2 | h2 <;>
      simp [h0, h2, w3', w4', beq_dec] <;> (repeat' split) <;> (try simp_all) <;> (try omega)

private theorem step_tma (t : Model.Timer.T) (h : MInv t) (v : Nat) (hw : v < 256) :
    StepOK t (some (.tma v)) := by
  obtain ⟨h1, h2, h3, h4, h5, h6, h7, h8⟩ := h
  rcases t with ⟨c, tac, tima, tma, les, rd, rl, irq⟩
  simp only at h1 h2 h3 h4 h5 h6 h7 h8
  rw [edgeSet_eq] at h7
  simp only at h7
  subst h6 h7
  have hrd : rd = 0 ∨ rd = 1 := by omega
  have w3' := wrap_iff' tima h3
  have w4' := wrap_iff' tma h4
  unfold StepOK
  cases rl
  all_goals
    model_defs
    spec_defs
    refine ⟨⟨?_, ?_, ?_, ?_, ?_, ?_, ?_, ?_⟩, ?_, ?_⟩
    case refine_1 => simp only []; omega
    case refine_2 => simp only []; omega
    case refine_7 => simp only [edgeSet_eq]
    case refine_6 => rfl
    all_goals
      rcases hrd with rfl | rfl <;>
      rcases Bool.eq_false_or_eq_true (Spec.Timer.signal c tac) with h0 | h0 <;>
      rcases Bool.eq_false_or_eq_true (Spec.Timer.signal ((c + 4) % 65536) tac) with h2 | h2 <;>
      simp [h0, h2, w3', w4', beq_dec] <;> (repeat' split) <;> (try simp_all) <;> (try omega)

private theorem step_tac (t : Model.Timer.T) (h : MInv t) (v : Nat) (hw : v < 256) :
    StepOK t (some (.tac v)) := by
  obtain ⟨h1, h2, h3, h4, h5, h6, h7, h8⟩ := h
  rcases t with ⟨c, tac, tima, tma, les, rd, rl, irq⟩
  simp only at h1 h2 h3 h4 h5 h6 h7 h8
  rw [edgeSet_eq] at h7
  simp only at h7
  subst h6 h7
  have hrd : rd = 0 ∨ rd = 1 := by omega
  have w3' := wrap_iff' tima h3
  have w4' := wrap_iff' tma h4
  unfold StepOK
  model_defs
  spec_defs
  refine ⟨⟨?_, ?_, ?_, ?_, ?_, ?_, ?_, ?_⟩, ?_, ?_⟩
  case refine_1 => simp only []; omega
  case refine_2 => simp only []; omega
  case refine_7 => simp only [edgeSet_eq]
  case refine_6 => rfl
  all_goals
    rcases hrd with rfl | rfl <;>
    rcases Bool.eq_false_or_eq_true (Spec.Timer.signal c tac) with h0 | h0 <;>
    rcases Bool.eq_false_or_eq_true (Spec.Timer.signal c v) with h1' | h1' <;>
    rcases Bool.eq_false_or_eq_true (Spec.Timer.signal ((c + 4) % 65536) v) with h2 | h2 <;>
    simp [h0, h1', h2, w3', w4', beq_dec] <;> (repeat' split) <;> (try simp_all) <;> (try omega)

private theorem step_ok (t : Model.Timer.T) (h : MInv t) (w : Option Write) (hw : ByteW w) : StepOK t w := by
  cases w with
  | none => exact step_none t h
  | some w =>
    cases w with
    | div => exact step_div t h
    | tima v => exact step_tima t h v hw
    | tma v => exact step_tma t h v hw
    | tac v => exact step_tac t h v hw

end step

/-! ### C12 main theorem: refinement -/

def Bytes (ws : List (Option Write)) : Prop := ∀ w ∈ ws, ByteW w

/-- the simulation relation is preserved along any guest schedule -/
private theorem run_ok (t : Model.Timer.T) (h : MInv t) (ws : List (Option Write)) (hws : Bytes ws) :
    MInv (Model.Timer.run t ws) ∧ abs (Model.Timer.run t ws) = Spec.Timer.run (abs t) ws := by
  induction ws generalizing t with
  | nil => exact ⟨h, rfl⟩
  | cons w ws ih =>
    obtain ⟨hi, ha, _⟩ := step_ok t h w (hws w (List.mem_cons_self ..))
    have := ih (Model.Timer.cycle t w) hi (fun x hx => hws x (List.mem_cons_of_mem _ hx))
    simp only [Model.Timer.run, Spec.Timer.run, List.foldl_cons] at *
    rw [← ha]; exact this

/-- C12 (main).  From EVERY cycle-boundary state of the code model (any counter phase, any register
    values, any reload phase) and for EVERY guest schedule – a list of machine cycles, each with at
    most one write to DIV/TIMA/TMA/TAC (byte values) – the sequence of observations
    (DIV, TIMA, TMA, TAC reads and the interrupt request of each cycle) produced by the model of
    timer.go equals the one produced by the documentation-shaped specification. -/
theorem c12_refines (t : Model.Timer.T) (h : MInv t) (ws : List (Option Write)) (hws : Bytes ws) :
    Model.Timer.observe t ws = Spec.Timer.observe (abs t) ws := by
  induction ws generalizing t with
  | nil => rfl
  | cons w ws ih =>
    obtain ⟨hi, ha, ho⟩ := step_ok t h w (hws w (List.mem_cons_self ..))
    simp only [Model.Timer.observe, Spec.Timer.observe]
    rw [ho, ih _ hi (fun x hx => hws x (List.mem_cons_of_mem _ hx)), ha]

/-- the power-on state of `timer.New()` with the counter set to any value is a legal start -/
theorem c12_inv_init (c : Nat) (hc : c < 65536) : MInv (Model.Timer.setCounter Model.Timer.init c) := by
  refine ⟨hc, ?_, ?_, ?_, ?_, rfl, ?_, ?_⟩ <;>
    simp [Model.Timer.setCounter, Model.Timer.init, Model.Timer.edgeSet]

/-- `EndMachineCycle` re-establishes the invariant from any mid-cycle state with in-range fields
    in which no write-caused overflow is pending (`reloadDelay ≤ 1`) -/
theorem c12_inv_after_tick (u : Model.Timer.T) (_h1 : u.counter < 65536) (h2 : u.tac < 256)
    (h3 : u.tima < 256) (h4 : u.tma < 256) (h5 : u.reloadDelay ≤ 1) :
    MInv (Model.Timer.endCycle u) := by
  simp only [Model.Timer.endCycle, endCyclePre_eq, loadedTima]
  refine ⟨?_, ?_, ?_, ?_, ?_, ?_, ?_, ?_⟩
  case refine_7 => simp only [edgeSet_eq]
  all_goals simp only []
  all_goals (repeat' split) <;> (try simp_all) <;> (try omega)

/-- the start states of the correspondence harness (`reset c tima tma tac`) are legal starts -/
theorem c12_inv_harness_reset (c a m k : Nat) (hc : c < 65536) (ha : a < 256) (hm : m < 256) (hk : k < 256) :
    MInv (Model.Timer.endCycle (Model.Timer.setCounter
      (Model.Timer.writeTMA (Model.Timer.writeTIMA (Model.Timer.writeTAC Model.Timer.init k) a) m) c)) := by
  apply c12_inv_after_tick <;>
    simp [Model.Timer.setCounter, Model.Timer.writeTMA, Model.Timer.writeTIMA, Model.Timer.writeTAC,
      Model.Timer.init, checkFallingEdge_eq] <;> omega

/-- non-vacuity of `c12_refines`: the fresh timer, a schedule with an overflow, a reload and writes -/
example : MInv Model.Timer.init := c12_inv_init 0xabcc (by decide)
example : Bytes [some (.tac 5), some (.tima 0xff), none, some .div, some (.tma 7), none] := by
  intro w hw; simp at hw; rcases hw with rfl | rfl | rfl | rfl | rfl | rfl <;> simp [ByteW]
example : (Model.Timer.observe Model.Timer.init
    [some (.tac 5), some (.tima 0xff), some (.tma 0x42), none, none, none]).map (fun o => (o.tima, o.irq))
    = [(1, false), (0xff, false), (0xff, false), (0xff, false), (0, true), (0x42, false)] := by decide

/-! ### DIV, TMA, TAC: for ANY order of single calls (several writes per cycle included) -/

private theorem call_regs (t : Model.Timer.T) (c : Call) :
    (Model.Timer.call t c).counter = Spec.Timer.sysEvent t.counter c ∧
    (Model.Timer.call t c).tma = Spec.Timer.tmaEvent t.tma c ∧
    (Model.Timer.call t c).tac = Spec.Timer.tacEvent t.tac c := by
  cases c with
  | tick =>
    simp [Model.Timer.call, Model.Timer.endCycle, endCyclePre_eq, Spec.Timer.sysEvent, Spec.Timer.sysNext,
      Spec.Timer.tmaEvent, Spec.Timer.tacEvent]
  | write w =>
    cases w <;>
    simp only [Model.Timer.call, Model.Timer.applyWrite, Model.Timer.writeDIV, Model.Timer.reset,
      Model.Timer.writeTAC, Model.Timer.writeTIMA, Model.Timer.writeTMA, checkFallingEdge_eq,
      Spec.Timer.sysEvent, Spec.Timer.tmaEvent, Spec.Timer.tacEvent] <;>
    (repeat' split) <;> simp

/-- C12 (registers, free shape).  After ANY sequence of API calls – ticks and writes in any order,
    any number of writes between two ticks – the internal counter, TMA and TAC of the code model are
    the folds of the obvious per-event functions: the counter advances by 4 (mod 2^16) per tick and
    is cleared by every DIV write; TMA and TAC hold the last value written.  (This is what the
    correspondence compares after every call, also outside guest-shaped schedules.) -/
theorem c12_regs_free (t : Model.Timer.T) (cs : List Call) :
    (Model.Timer.runCalls t cs).counter = cs.foldl Spec.Timer.sysEvent t.counter ∧
    Model.Timer.readTMA (Model.Timer.runCalls t cs) = cs.foldl Spec.Timer.tmaEvent t.tma ∧
    Model.Timer.readTAC (Model.Timer.runCalls t cs) = cs.foldl Spec.Timer.tacEvent t.tac % 8 + 0xf8 := by
  induction cs generalizing t with
  | nil => exact ⟨rfl, rfl, rfl⟩
  | cons c cs ih =>
    obtain ⟨h1, h2, h3⟩ := call_regs t c
    have := ih (Model.Timer.call t c)
    simp only [Model.Timer.runCalls, List.foldl_cons, Model.Timer.readTMA, Model.Timer.readTAC] at *
    rw [h1, h2, h3] at this
    exact this

/-- C12 (DIV).  DIV is the upper byte of a 16-bit counter that advances by 4 per machine cycle and is
    cleared by any DIV write, for any interleaving of calls. -/
theorem c12_div (t : Model.Timer.T) (cs : List Call) :
    Model.Timer.readDIV (Model.Timer.runCalls t cs) = cs.foldl Spec.Timer.sysEvent t.counter / 256 := by
  simp only [Model.Timer.readDIV, (c12_regs_free t cs).1]

/-- a DIV write makes DIV read 00 at once, whatever value is written and whatever the state -/
theorem c12_div_write_clears (t : Model.Timer.T) :
    Model.Timer.readDIV (Model.Timer.applyWrite t .div) = 0 := by
  simp [Model.Timer.readDIV, Model.Timer.applyWrite, Model.Timer.writeDIV, Model.Timer.reset,
    checkFallingEdge_eq]

private theorem sys_ticks (c n : Nat) :
    (List.replicate n Call.tick).foldl Spec.Timer.sysEvent c = (c + 4 * n) % 65536 ∨
    (n = 0 ∧ (List.replicate n Call.tick).foldl Spec.Timer.sysEvent c = c) := by
  induction n generalizing c with
  | zero => right; exact ⟨rfl, rfl⟩
  | succ n ih =>
    left
    simp only [List.replicate_succ, List.foldl_cons, Spec.Timer.sysEvent, Spec.Timer.sysNext]
    rcases ih ((c + 4) % 65536) with h | ⟨h0, h⟩
    · rw [h]; omega
    · subst h0; rw [h]

/-- free-running closed form: after `n` ticks DIV is the upper byte of `(counter + 4n) mod 2^16` -/
theorem c12_div_free_running (t : Model.Timer.T) (ht : t.counter < 65536) (n : Nat) :
    Model.Timer.readDIV (Model.Timer.runCalls t (List.replicate n Call.tick)) =
      Spec.Timer.sysAfter t.counter n / 256 := by
  rw [c12_div]
  rcases sys_ticks t.counter n with h | ⟨h0, h⟩
  · rw [h]; rfl
  · subst h0; rw [h]; simp [Spec.Timer.sysAfter]; omega

example : Model.Timer.readDIV (Model.Timer.runCalls Model.Timer.init
    [.tick, .write (.tac 5), .write .div, .tick, .write (.tima 3)]) = 0 := by decide
example : Model.Timer.readDIV (Model.Timer.runCalls Model.Timer.init (List.replicate 13 .tick)) = 0xac := by
  decide

/-! ### interrupt requests and the relative reload phase -/

/-- C12 (one IRQ per overflow).  In every machine cycle from every legal state: the timer interrupt
    is requested in this cycle exactly when TIMA wraps FF→00 in this cycle (at the write-caused or
    the counter-caused falling edge, `Spec.overflows`); when it is requested TIMA reads 00 afterwards
    and the reload is still pending (so the request is never later than the reload); when it is not
    requested no reload is pending; and nothing stays latched, so the same overflow cannot be
    reported again by a later cycle. -/
theorem c12_one_irq (t : Model.Timer.T) (h : MInv t) (w : Option Write) (hw : ByteW w) :
    (Model.Timer.cycleObs t w).irq = Spec.Timer.overflows (abs t) w ∧
    ((Model.Timer.cycleObs t w).irq = true →
        (Model.Timer.cycleObs t w).tima = 0 ∧ (Model.Timer.cycle t w).reloadDelay = 1) ∧
    ((Model.Timer.cycleObs t w).irq = false → (Model.Timer.cycle t w).reloadDelay = 0) ∧
    (Model.Timer.cycle t w).interrupt = false := by
  obtain ⟨hi, ha, ho⟩ := step_ok t h w hw
  have hov : decide ((Model.Timer.cycle t w).reloadDelay = 1) = Spec.Timer.overflows (abs t) w := by
    have := congrArg Spec.Timer.St.overflowed ha
    simpa [abs, Spec.Timer.cycle] using this
  have hirq : (Model.Timer.cycleObs t w).irq = Spec.Timer.overflows (abs t) w := by
    rw [ho]; rfl
  refine ⟨hirq, ?_, ?_, hi.no_irq⟩
  · intro h1
    rw [hirq] at h1
    rw [h1] at hov
    have hd : (Model.Timer.cycle t w).reloadDelay = 1 := by simpa using hov
    exact ⟨hi.zero hd, hd⟩
  · intro h0
    rw [hirq] at h0
    rw [h0] at hov
    have hd : ¬ (Model.Timer.cycle t w).reloadDelay = 1 := by simpa using hov
    have := hi.delay_le
    omega

/-- the number of interrupt requests in any guest schedule equals the number of cycles in which
    TIMA wraps according to the specification -/
theorem c12_irq_count (t : Model.Timer.T) (h : MInv t) (ws : List (Option Write)) (hws : Bytes ws) :
    ((Model.Timer.observe t ws).filter (fun o => o.irq)).length =
      ((Spec.Timer.observe (abs t) ws).filter (fun o => o.irq)).length := by
  rw [c12_refines t h ws hws]

private theorem falls_self (x : Bool) : Spec.Timer.falls x x = false := by cases x <;> rfl

/-- C12 (relative reload).  If the interrupt is requested in a cycle (TIMA wrapped), then TIMA reads
    00 after that cycle, and in the NEXT cycle – whatever the counter value, and also when that
    cycle writes DIV, TMA or TAC –
    * unless the cycle contains a TIMA write that is not ignored, TIMA is reloaded at its end from
      TMA (the value TMA has after that cycle's write), plus one if the signal falls at that very
      tick, and the following cycle is the "just reloaded" cycle;
    * if it contains such a TIMA write of `v`, the reload is cancelled: TIMA is `v` (plus one if the
      signal falls at the tick) and the following cycle is not a "just reloaded" cycle. -/
theorem c12_reload_relative (t : Model.Timer.T) (h : MInv t) (w1 w2 : Option Write)
    (hw1 : ByteW w1) (hw2 : ByteW w2) (hirq : (Model.Timer.cycleObs t w1).irq = true) :
    (Model.Timer.cycleObs t w1).tima = 0 ∧
    (Spec.Timer.cancels (abs (Model.Timer.cycle t w1)) w2 = false →
      (Model.Timer.cycleObs (Model.Timer.cycle t w1) w2).tima =
        Spec.Timer.bump (Spec.Timer.countEdge (abs (Model.Timer.cycle t w1)) w2)
          (Model.Timer.cycleObs (Model.Timer.cycle t w1) w2).tma ∧
      (Model.Timer.cycle (Model.Timer.cycle t w1) w2).reloading = true) ∧
    (∀ v, w2 = some (.tima v) → (Model.Timer.cycle t w1).reloading = false →
      (Model.Timer.cycleObs (Model.Timer.cycle t w1) w2).tima =
        Spec.Timer.bump (Spec.Timer.countEdge (abs (Model.Timer.cycle t w1)) w2) v ∧
      (Model.Timer.cycle (Model.Timer.cycle t w1) w2).reloading = false) := by
  obtain ⟨_, h1, _, _⟩ := c12_one_irq t h w1 hw1
  obtain ⟨hz, hd⟩ := h1 hirq
  obtain ⟨hi, _, _⟩ := step_ok t h w1 hw1
  obtain ⟨_, ha2, ho2⟩ := step_ok _ hi w2 hw2
  have hov : (abs (Model.Timer.cycle t w1)).overflowed = true := by simp [abs, hd]
  have hrl : (Model.Timer.cycle (Model.Timer.cycle t w1) w2).reloading =
      Spec.Timer.reloads (abs (Model.Timer.cycle t w1)) w2 := by
    have := congrArg Spec.Timer.St.reloaded ha2
    simpa [abs, Spec.Timer.cycle] using this
  refine ⟨hz, ?_, ?_⟩
  · intro hc
    rw [ho2, hrl]
    simp [Spec.Timer.cycleObs, Spec.Timer.cycle, Spec.Timer.timaEnd, Spec.Timer.timaLoaded,
      Spec.Timer.reloads, hov, hc]
  · intro v hv hr
    subst hv
    rw [ho2, hrl]
    have hr' : (abs (Model.Timer.cycle t w1)).reloaded = false := by simpa [abs] using hr
    simp [Spec.Timer.cycleObs, Spec.Timer.cycle, Spec.Timer.timaEnd, Spec.Timer.timaLoaded,
      Spec.Timer.reloads, Spec.Timer.cancels, Spec.Timer.timaMid, Spec.Timer.writeEdge,
      Spec.Timer.timaAfterWrite, Spec.Timer.sysAfterWrite, Spec.Timer.tacAfterWrite, hov, hr',
      falls_self, Spec.Timer.bump]

/-- C12 (the cycle after a reload).  In the cycle after TIMA was reloaded (and no new overflow is
    pending) a TIMA write is ignored and a TMA write also loads TIMA; in both cases the counter-caused
    edge of that cycle still counts. -/
theorem c12_after_reload_writes (t : Model.Timer.T) (h : MInv t) (hr : t.reloading = true)
    (hd : t.reloadDelay = 0) (v : Nat) (hv : v < 256) :
    (Model.Timer.cycleObs t (some (.tima v))).tima =
        Spec.Timer.bump (Spec.Timer.countEdge (abs t) none) t.tima ∧
    (Model.Timer.cycleObs t (some (.tma v))).tima =
        Spec.Timer.bump (Spec.Timer.countEdge (abs t) none) v := by
  obtain ⟨_, _, ho1⟩ := step_ok t h (some (.tima v)) hv
  obtain ⟨_, _, ho2⟩ := step_ok t h (some (.tma v)) hv
  have hr' : (abs t).reloaded = true := by simpa [abs] using hr
  have hov : (abs t).overflowed = false := by simp [abs, hd]
  rw [ho1, ho2]
  constructor <;>
  simp [Spec.Timer.cycleObs, Spec.Timer.cycle, Spec.Timer.timaEnd, Spec.Timer.timaLoaded,
      Spec.Timer.reloads, Spec.Timer.cancels, Spec.Timer.timaMid, Spec.Timer.writeEdge,
      Spec.Timer.countEdge, Spec.Timer.timaAfterWrite, Spec.Timer.sysAfterWrite,
      Spec.Timer.tacAfterWrite, hov, hr', falls_self, Spec.Timer.bump] <;> rfl

/-- non-vacuity of the three theorems above: a legal state one tick before an overflow; the request
    comes with the wrap, a DIV write in the 00 cycle does not disturb the reload from TMA, and the
    cycle after that is a "just reloaded" cycle with no reload pending -/
def exBeforeOverflow : Model.Timer.T :=
  { Model.Timer.init with counter := 0x000c, tac := 5, tima := 0xff, tma := 0x42, lastEdgeSet := true }

example : MInv exBeforeOverflow :=
  ⟨by decide, by decide, by decide, by decide, by decide, rfl, by decide, by decide⟩
example : (Model.Timer.cycleObs exBeforeOverflow none).irq = true ∧
    (Model.Timer.cycleObs exBeforeOverflow none).tima = 0 ∧
    Spec.Timer.cancels (abs (Model.Timer.cycle exBeforeOverflow none)) (some .div) = false ∧
    (Model.Timer.cycleObs (Model.Timer.cycle exBeforeOverflow none) (some .div)).tima = 0x42 ∧
    (Model.Timer.cycleObs (Model.Timer.cycle exBeforeOverflow none) (some (.tima 0x77))).tima = 0x77 := by
  decide
example : (Model.Timer.run exBeforeOverflow [none, none]).reloading = true ∧
    (Model.Timer.run exBeforeOverflow [none, none]).reloadDelay = 0 ∧
    (Model.Timer.cycleObs (Model.Timer.run exBeforeOverflow [none, none]) (some (.tima 0x77))).tima = 0x42 ∧
    (Model.Timer.cycleObs (Model.Timer.run exBeforeOverflow [none, none]) (some (.tma 0x77))).tima = 0x77 := by
  decide

/-! ### rate -/

private theorem signal_dm (c tac : Nat) :
    Spec.Timer.signal c tac =
      ((tac / 4 % 2 == 1) &&
        (match tac % 4 with
         | 0 => c / 512 % 2 == 1
         | 1 => c / 8 % 2 == 1
         | 2 => c / 32 % 2 == 1
         | _ => c / 128 % 2 == 1)) := by
  have := edgeSet_eq ⟨c, tac, 0, 0, false, 0, false, false⟩
  simp only [Model.Timer.edgeSet, Model.Timer.counterBitSet] at this
  exact this.symm

private theorem edges_rec (c tac n : Nat) (hen : tac / 4 % 2 = 1) :
    Spec.Timer.fallingEdges c tac (n + 1) =
      (if Spec.Timer.falls (Spec.Timer.signal c tac) (Spec.Timer.signal ((c + 4) % 65536) tac) then 1 else 0)
        + Spec.Timer.fallingEdges ((c + 4) % 65536) tac n := by
  have h : tac % 4 = 0 ∨ tac % 4 = 1 ∨ tac % 4 = 2 ∨ tac % 4 = 3 := by omega
  rcases h with h | h | h | h <;>
    simp [Spec.Timer.fallingEdges, Spec.Timer.period, Spec.Timer.selectedBit, Spec.Timer.falls,
      signal_dm, h, hen] <;>
    split <;> omega

private theorem edges_zero (c tac : Nat) : Spec.Timer.fallingEdges c tac 0 = 0 := by
  have h : tac % 4 = 0 ∨ tac % 4 = 1 ∨ tac % 4 = 2 ∨ tac % 4 = 3 := by omega
  rcases h with h | h | h | h <;>
    simp [Spec.Timer.fallingEdges, Spec.Timer.period, Spec.Timer.selectedBit, h] <;> omega

private theorem spec_rate (n : Nat) : ∀ (s : Spec.Timer.St), s.overflowed = false → s.tac / 4 % 2 = 1 →
    s.tima + Spec.Timer.fallingEdges s.sys s.tac n < 256 →
    (Spec.Timer.run s (List.replicate n none)).tima = s.tima + Spec.Timer.fallingEdges s.sys s.tac n ∧
    (∀ o ∈ Spec.Timer.observe s (List.replicate n none), o.irq = false) := by
  induction n with
  | zero => intro s _ _ _; simp [Spec.Timer.run, Spec.Timer.observe, edges_zero]
  | succ n ih =>
    intro s hov hen hno
    rw [edges_rec s.sys s.tac n hen] at hno ⊢
    have hwe : Spec.Timer.writeEdge s none = false := by simp [Spec.Timer.writeEdge, Spec.Timer.sysAfterWrite,
      Spec.Timer.tacAfterWrite, falls_self]
    have hce : Spec.Timer.countEdge s none =
        Spec.Timer.falls (Spec.Timer.signal s.sys s.tac) (Spec.Timer.signal ((s.sys + 4) % 65536) s.tac) := by
      simp [Spec.Timer.countEdge, Spec.Timer.sysAfterWrite, Spec.Timer.tacAfterWrite, Spec.Timer.sysNext]
    have hrl : Spec.Timer.reloads s none = false := by simp [Spec.Timer.reloads, hov]
    have htl : Spec.Timer.timaLoaded s none = s.tima := by
      simp [Spec.Timer.timaLoaded, hrl, Spec.Timer.timaMid, hwe, Spec.Timer.bump, Spec.Timer.timaAfterWrite]
    have hsys : (Spec.Timer.cycle s none).sys = (s.sys + 4) % 65536 := by
      simp [Spec.Timer.cycle, Spec.Timer.sysAfterWrite, Spec.Timer.sysNext]
    have htac : (Spec.Timer.cycle s none).tac = s.tac := by simp [Spec.Timer.cycle, Spec.Timer.tacAfterWrite]
    have htima : (Spec.Timer.cycle s none).tima = Spec.Timer.bump (Spec.Timer.countEdge s none) s.tima := by
      simp [Spec.Timer.cycle, Spec.Timer.timaEnd, htl]
    have hovf : Spec.Timer.overflows s none = false := by
      simp only [Spec.Timer.overflows, hwe, htl, hce, Bool.false_and, Bool.false_or]
      cases hf : Spec.Timer.falls (Spec.Timer.signal s.sys s.tac) (Spec.Timer.signal ((s.sys + 4) % 65536) s.tac)
      · simp
      · simp only [hf, if_true] at hno
        simp; omega
    have hov' : (Spec.Timer.cycle s none).overflowed = false := by simp [Spec.Timer.cycle, hovf]
    have hstep : (Spec.Timer.cycle s none).tima =
        s.tima + (if Spec.Timer.falls (Spec.Timer.signal s.sys s.tac)
          (Spec.Timer.signal ((s.sys + 4) % 65536) s.tac) = true then 1 else 0) := by
      rw [htima, hce]
      cases hf : Spec.Timer.falls (Spec.Timer.signal s.sys s.tac) (Spec.Timer.signal ((s.sys + 4) % 65536) s.tac)
      · simp [Spec.Timer.bump]
      · simp only [hf, if_true] at hno
        simp [Spec.Timer.bump]; omega
    have := ih (Spec.Timer.cycle s none) hov' (by rw [htac]; exact hen)
      (by rw [hsys, htac, hstep]; omega)
    obtain ⟨i1, i2⟩ := this
    rw [hsys, htac, hstep] at i1
    refine ⟨?_, ?_⟩
    · simp only [List.replicate_succ, Spec.Timer.run, List.foldl_cons] at i1 ⊢
      rw [i1]; omega
    · intro o ho
      simp only [List.replicate_succ, Spec.Timer.observe, List.mem_cons] at ho
      rcases ho with rfl | ho
      · simp [Spec.Timer.cycleObs, hovf]
      · exact i2 o ho

/-- C12 (rate, closed form).  Timer enabled, no reload pending, no writes: as long as TIMA does not
    overflow, after `n` machine cycles TIMA has advanced by exactly the number of falling edges of
    the selected counter bit, `⌊(counter mod P + 4n) / P⌋` with `P` = 1024/16/64/256 clocks for TAC
    = 00/01/10/11 (whatever the counter phase, also across the 2^16 wrap), and no interrupt is
    requested in those cycles. -/
theorem c12_rate (t : Model.Timer.T) (h : MInv t) (hen : t.tac / 4 % 2 = 1) (hd : t.reloadDelay = 0)
    (n : Nat) (hno : t.tima + Spec.Timer.fallingEdges t.counter t.tac n < 256) :
    Model.Timer.readTIMA (Model.Timer.run t (List.replicate n none)) =
      t.tima + Spec.Timer.fallingEdges t.counter t.tac n ∧
    (∀ o ∈ Model.Timer.observe t (List.replicate n none), o.irq = false) := by
  have hb : Bytes (List.replicate n (none : Option Write)) := by
    intro w hw; rw [(List.mem_replicate.mp hw).2]; trivial
  obtain ⟨_, ha⟩ := run_ok t h _ hb
  have hs := spec_rate n (abs t) (by simp [abs, hd]) hen hno
  rw [c12_refines t h _ hb]
  refine ⟨?_, hs.2⟩
  have := congrArg Spec.Timer.St.tima ha
  simp only [abs] at this hs
  rw [Model.Timer.readTIMA, this]
  exact hs.1

/-- the period constants of the closed form -/
theorem c12_periods :
    Spec.Timer.period 0 = 1024 ∧ Spec.Timer.period 1 = 16 ∧ Spec.Timer.period 2 = 64 ∧
    Spec.Timer.period 3 = 256 ∧ ∀ tac, Spec.Timer.period tac = Spec.Timer.period (tac % 4) := by
  refine ⟨by decide, by decide, by decide, by decide, ?_⟩
  intro tac
  simp [Spec.Timer.period, Spec.Timer.selectedBit]

/-- the guard of the `increment(1)` call in `EndMachineCycle`, literally as the code evaluates it:
    `edgeSetBefore && !edgeSet` with `edgeSet` read after `counter += 4` and the reload block -/
def codeTickIncrements (t : Model.Timer.T) : Bool :=
  Model.Timer.edgeSet t && !Model.Timer.edgeSet (Model.Timer.reloadStep (Model.Timer.advance t))

private theorem codeTick_eq (t : Model.Timer.T) : codeTickIncrements t = tickFalls t := by
  unfold codeTickIncrements tickFalls
  rw [reloadStep_advance]
  simp only [edgeSet_eq]

/-- number of times `EndMachineCycle` takes its `increment(1)` branch in `n` consecutive ticks -/
def incEvents (t : Model.Timer.T) : Nat → Nat
  | 0 => 0
  | n + 1 => (if codeTickIncrements t then 1 else 0) + incEvents (Model.Timer.endCycle t) n

/-- C12 (rate, events).  Timer enabled, no writes, ANY TIMA/TMA and reload phase (overflows
    allowed): in `n` consecutive ticks the code increments TIMA exactly
    `⌊(counter mod P + 4n) / P⌋` times – once per falling edge of the selected bit. -/
theorem c12_rate_events (t : Model.Timer.T) (hen : t.tac / 4 % 2 = 1) (n : Nat) :
    incEvents t n = Spec.Timer.fallingEdges t.counter t.tac n := by
  induction n generalizing t with
  | zero => simp [incEvents, edges_zero]
  | succ n ih =>
    have hc : (Model.Timer.endCycle t).counter = (t.counter + 4) % 65536 := by
      simp [Model.Timer.endCycle, endCyclePre_eq]
    have htac : (Model.Timer.endCycle t).tac = t.tac := by simp [Model.Timer.endCycle, endCyclePre_eq]
    rw [incEvents, ih _ (by rw [htac]; exact hen), hc, htac, edges_rec _ _ _ hen, codeTick_eq]
    simp [tickFalls, Spec.Timer.falls]

example : incEvents { Model.Timer.init with tac := 5, counter := 0xfff0 } 8 = 2 := by decide

example : MInv { Model.Timer.init with tac := 5, tima := 0xf0, counter := 0xfff0 } ∧
    (5 : Nat) / 4 % 2 = 1 ∧ 0xf0 + Spec.Timer.fallingEdges 0xfff0 5 40 < 256 ∧
    Spec.Timer.fallingEdges 0xfff0 5 40 = 10 := by
  refine ⟨⟨by decide, by decide, by decide, by decide, by decide, rfl, by decide, by decide⟩,
    by decide, by decide, by decide⟩

end Tetro.C12
