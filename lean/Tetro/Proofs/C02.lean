import Tetro.Lemmas.SpecTables
import Tetro.Proofs.C01Tables
/-
C02 – every instruction occupies exactly its documented number of machine cycles.

Three layers:
* `c02_schedule_length` / `c02_table_length` – the documented schedule of every instruction has exactly
  `cyclesOf i true` entries and the early-finish entry of a conditional one is (not taken, taken) =
  (`cyclesOf i false`, `cyclesOf i true`) with the flag test of its condition code;
* `c02_run` – `ExecuteMachineCycle` (model `cycle`) started at a fetch boundary stays inside the fetched
  schedule for exactly `n-1` further cycles and is at a boundary after `n`, where `n` is decided exactly
  as `isFinished` does (early test evaluated on the registers of cycle `e`); the state then is the
  in-order run of the first `n` micro-operations;
* `c02_cycles` – the same in documented terms: `n = cyclesOf i taken`, `taken` read from the flags at the
  fetch boundary.
All over the flat bus with the documented tables `specTables`; `c01_tables : Tables.gen = specTables`
transfers every statement to the tables regenerated from dispatch.go (`…_gen`).
-/
namespace Tetro.C02
open Tetro.Model.Cpu Tetro.Spec.Isa Tetro.Exec

/-- The documented schedule has the documented length, per instruction.  (`LD (HL),(HL)` is not an
    instruction: its encoding 0x76 is HALT, `decode` never produces it.) -/
theorem c02_schedule_length (i : Instr) (h : i ≠ .ld .hlm .hlm) :
    (micro i).length = cyclesOf i true ∧
    (∀ c e l, earlyOf i = some (c, e, l) →
        e = cyclesOf i false ∧ l = cyclesOf i true ∧ ∃ cc, condOf i = some cc ∧ c = notMet cc) ∧
    (earlyOf i = none → condOf i = none ∧ cyclesOf i false = cyclesOf i true) :=
  ⟨micro_length i h, fun c e l he => earlyOf_cycles i c e l he, earlyOf_none i⟩

example : (Instr.callCC .nz) ≠ .ld .hlm .hlm := by decide

/-- The opcode-indexed form over the documented tables: entry length = documented cycle count (taken),
    early-finish entry = (flag test of the condition, not-taken count, taken count). -/
theorem c02_table_length (op : Nat) (hop : op < 256) :
    (∀ i, decode op = some i →
        (specTables.normal.getD op []).length = cyclesOf i true ∧
        (match condOf i with
         | some cc => specTables.earlyOf op = some (notMet cc, cyclesOf i false, cyclesOf i true)
         | none => specTables.earlyOf op = none ∧ cyclesOf i false = cyclesOf i true)) ∧
    (specTables.prefixed.getD op []).length = cyclesOf (decodeCB op) true ∧
    condOf (decodeCB op) = none := by
  refine ⟨fun i hi => ?_, ?_, ?_⟩
  · have hne : i ≠ .ld .hlm .hlm := fun e => decode_ne_ldhlhl ⟨op, hop⟩ (e ▸ hi)
    rw [spec_normal op hop, spec_earlyOf op hop, hi]
    refine ⟨micro_length i hne, ?_⟩
    cases i <;> simp [condOf, earlyOf, cyclesOf]
  · rw [spec_prefixed op hop]; exact micro_length _ (decodeCB_ne_ldhlhl op)
  · unfold decodeCB; dsimp only; split <;> rfl

/-- the same for the tables regenerated from dispatch.go -/
theorem c02_table_length_gen (op : Nat) (hop : op < 256) :
    (∀ i, decode op = some i →
        (Tables.gen.normal.getD op []).length = cyclesOf i true ∧
        (match condOf i with
         | some cc => Tables.gen.earlyOf op = some (notMet cc, cyclesOf i false, cyclesOf i true)
         | none => Tables.gen.earlyOf op = none ∧ cyclesOf i false = cyclesOf i true)) ∧
    (Tables.gen.prefixed.getD op []).length = cyclesOf (decodeCB op) true ∧
    condOf (decodeCB op) = none := by
  rw [C01.c01_tables]; exact c02_table_length op hop

/-! ### execution -/

/-- From a fetch boundary the CPU runs the fetched schedule one micro-operation per machine cycle:
    with `n` decided as `isFinished` does, it is NOT at a boundary after 1 … n-1 cycles, it IS at a
    boundary after `n`, and the state then is the in-order run of the first `n` micro-operations on the
    state the fetch left. -/
theorem c02_run (c : Cpu) (m : Flat) (h : AtFetch c m)
    (hops : MicroOp.fatal ∉ (fetch specTables c c.regs m).cpu.ops) :
    let f := fetch specTables c c.regs m
    let n := match f.cpu.early with
      | none => f.cpu.ops.length
      | some e => if e.1.holds (runList (f.cpu.ops.take e.2.1) f.cpu.regs f.bus).1 then e.2.1
                  else f.cpu.ops.length
    0 < n ∧ n ≤ f.cpu.ops.length ∧
    (∀ k, 0 < k → k < n → (cycles specTables k c m).1.isFinished = false) ∧
    (cycles specTables n c m).1.isFinished = true ∧
    (cycles specTables n c m).1.crashed = false ∧
    (cycles specTables n c m).1.regs = (runList (f.cpu.ops.take n) f.cpu.regs f.bus).1 ∧
    (cycles specTables n c m).2 = (runList (f.cpu.ops.take n) f.cpu.regs f.bus).2 := by
  intro f n
  cases hi : instrAt c.regs.pc m with
  | none => exact absurd (by rw [fetch_undefined c c.regs m hi]; simp) hops
  | some i =>
    obtain ⟨hL, hE, hne⟩ := fetch_spec_loaded c m i h hi
    have hn : next specTables c m = { cpu := f.cpu, bus := f.bus, halted := false } :=
      next_fetch' specTables c m h
    have hlen : n = lenOf f.cpu f.bus := by
      show (match f.cpu.early with | none => _ | some e => _) = _
      cases he : f.cpu.early with
      | none => rw [lenOf_none _ _ he]
      | some e => rw [lenOf_some _ _ e he, (hE e he).2.2]
    have hr := run_loaded specTables c m h.boundary f.cpu f.bus hn hL hE hne
    rw [← hlen] at hr
    obtain ⟨ha, hb, hfin, hcr, _⟩ := hr
    refine ⟨?_, ?_, fun k h0 hk => (ha k h0 hk).2, hfin, hcr, ?_, ?_⟩
    · rw [hlen]; exact lenOf_pos _ _ hE hne
    · rw [hlen]; exact lenOf_le _ _ hE
    · rw [hb]; rfl
    · rw [hb]; rfl

example : AtFetch Cpu.init (⟨fun _ => 0, false, 0, 0⟩ : Flat) := by
  refine ⟨?_, ?_, ?_, ?_, ?_, ?_⟩ <;> decide
example : MicroOp.fatal ∉ (fetch specTables Cpu.init Cpu.init.regs
    (⟨fun _ => 0, false, 0, 0⟩ : Flat)).cpu.ops := by decide

/-! ### in documented terms -/

private theorem cond_prefix_f (i : Instr) (e : Cond × Nat × Nat) (h : earlyOf i = some e)
    (r : Regs) (m : Flat) : (runList ((micro i).take e.2.1) r m).1.f = r.f := by
  cases i <;> simp [earlyOf] at h <;> subst h <;> simp [micro, MicroOp.run]

private theorem notMet_holds (cc : CC) (r r' : Regs) (m : Flat) (hf : r.f = r'.f) :
    (notMet cc).holds r = !cc.holds (abs r' m) := by
  cases cc <;> simp [notMet, Cond.holds, CC.holds, abs, Regs.zf, Regs.cf, hf]

/-- The length the model decides for the fetched instruction is the documented one, the outcome of the
    condition being read from the flags at the fetch boundary (the operand fetches that precede the
    test do not touch Z or C). -/
private theorem lenOf_fetch (c : Cpu) (m : Flat) (i : Instr) (hi : instrAt c.regs.pc m = some i) :
    lenOf (fetch specTables c c.regs m).cpu (fetch specTables c c.regs m).bus =
      cyclesOf i ((condOf i).all fun cc => cc.holds (abs c.regs m)) := by
  rw [fetch_spec c c.regs m i hi]
  cases he : earlyOf i with
  | none =>
    rw [lenOf_none _ _ rfl]
    have := earlyOf_none i he
    simp [this.1, micro_length i (instrAt_ne_ldhlhl _ _ _ hi)]
  | some e =>
    rw [lenOf_some _ _ e rfl]
    obtain ⟨cnd, e1, l⟩ := e
    obtain ⟨h1, h2, cc, hcc, hcnd⟩ := earlyOf_cycles i cnd e1 l he
    have hf := cond_prefix_f i (cnd, e1, l) he (fetchRegs c.regs (decide (m.read c.regs.pc = 0xcb)))
      { m with ime := m.ime || c.regs.eiPending }
    have hf' : (runList ((micro i).take e1) (fetchRegs c.regs (decide (m.read c.regs.pc = 0xcb)))
      { m with ime := m.ime || c.regs.eiPending }).1.f = c.regs.f := by rw [hf]; rfl
    dsimp only
    have hall : ((some cc).all fun cc => cc.holds (abs c.regs m)) = cc.holds (abs c.regs m) := rfl
    rw [hcnd, notMet_holds cc _ c.regs m hf', hcc, h1, h2, hall]
    cases cc.holds (abs c.regs m) <;> simp

/-- C02.  At a fetch boundary, if the opcode byte(s) at PC decode to `i`, the instruction occupies exactly
    `cyclesOf i taken` machine cycles, where `taken` is the outcome of its condition on the flags at the
    boundary (true for unconditional instructions): the CPU is inside the instruction after
    1 … n-1 cycles, at the next boundary after n, alive, and has run exactly the first `n`
    micro-operations of the documented schedule. -/
theorem c02_cycles (c : Cpu) (m : Flat) (i : Instr) (h : AtFetch c m)
    (hi : instrAt c.regs.pc m = some i) :
    let taken := (condOf i).all fun cc => cc.holds (abs c.regs m)
    let n := cyclesOf i taken
    let r0 := fetchRegs c.regs (decide (m.read c.regs.pc = 0xcb))
    let m0 : Flat := { m with ime := m.ime || c.regs.eiPending }
    0 < n ∧
    (∀ k, 0 < k → k < n → (cycles specTables k c m).1.isFinished = false) ∧
    (cycles specTables n c m).1.isFinished = true ∧
    (cycles specTables n c m).1.crashed = false ∧
    (cycles specTables n c m).1.regs.exited = false ∧
    (cycles specTables n c m).1.regs = (runList ((micro i).take n) r0 m0).1 ∧
    (cycles specTables n c m).2 = (runList ((micro i).take n) r0 m0).2 := by
  intro taken n r0 m0
  obtain ⟨hL, hE, hne⟩ := fetch_spec_loaded c m i h hi
  have hn := next_fetch' specTables c m h
  have hr := run_loaded specTables c m h.boundary _ _ hn hL hE hne
  have hpos := lenOf_pos _ (fetch specTables c c.regs m).bus hE hne
  rw [lenOf_fetch c m i hi] at hr hpos
  obtain ⟨ha, hb, hfin, hcr, hex⟩ := hr
  refine ⟨hpos, fun k h0 hk => (ha k h0 hk).2, hfin, hcr, hex, ?_, ?_⟩
  · rw [hb, fetch_spec c c.regs m i hi]; rfl
  · rw [hb, fetch_spec c c.regs m i hi]; rfl

/-- the same for the tables regenerated from dispatch.go -/
theorem c02_cycles_gen (c : Cpu) (m : Flat) (i : Instr) (h : AtFetch c m)
    (hi : instrAt c.regs.pc m = some i) :
    let taken := (condOf i).all fun cc => cc.holds (abs c.regs m)
    let n := cyclesOf i taken
    let r0 := fetchRegs c.regs (decide (m.read c.regs.pc = 0xcb))
    let m0 : Flat := { m with ime := m.ime || c.regs.eiPending }
    0 < n ∧
    (∀ k, 0 < k → k < n → (cycles Tables.gen k c m).1.isFinished = false) ∧
    (cycles Tables.gen n c m).1.isFinished = true ∧
    (cycles Tables.gen n c m).1.crashed = false ∧
    (cycles Tables.gen n c m).1.regs.exited = false ∧
    (cycles Tables.gen n c m).1.regs = (runList ((micro i).take n) r0 m0).1 ∧
    (cycles Tables.gen n c m).2 = (runList ((micro i).take n) r0 m0).2 := by
  rw [C01.c01_tables]; exact c02_cycles c m i h hi

/-- non-vacuity: RET NZ (0xC0) at 0x0100 with Z clear (taken, 5 cycles) and with Z set (2 cycles) -/
example : instrAt Cpu.init.regs.pc (⟨fun _ => 0xc0, false, 0, 0⟩ : Flat) =
    some (.retCC .nz) := by decide
example : cyclesOf (.retCC .nz) ((condOf (.retCC .nz)).all fun cc =>
    cc.holds (abs { Regs.init with f := 0x00 } (⟨fun _ => 0xc0, false, 0, 0⟩ : Flat))) = 5 := by
  decide
example : cyclesOf (.retCC .nz) ((condOf (.retCC .nz)).all fun cc =>
    cc.holds (abs { Regs.init with f := 0x80 } (⟨fun _ => 0xc0, false, 0, 0⟩ : Flat))) = 2 := by
  decide

/-- The conditional families in plain numbers: JR cc 3/2, JP cc 4/3, CALL cc 6/3, RET cc 5/2;
    CB-prefixed (HL) operations 4, BIT n,(HL) 3, CALL 6, JR 3 (the examples of the property text). -/
theorem c02_documented_examples (cc : CC) (op : Rot) (n : Nat) :
    cyclesOf (.jrCC cc) true = 3 ∧ cyclesOf (.jrCC cc) false = 2 ∧
    cyclesOf (.jpCC cc) true = 4 ∧ cyclesOf (.jpCC cc) false = 3 ∧
    cyclesOf (.callCC cc) true = 6 ∧ cyclesOf (.callCC cc) false = 3 ∧
    cyclesOf (.retCC cc) true = 5 ∧ cyclesOf (.retCC cc) false = 2 ∧
    cyclesOf .call true = 6 ∧ cyclesOf .jr true = 3 ∧
    cyclesOf (.rot op .hlm) true = 4 ∧ cyclesOf (.res n .hlm) true = 4 ∧ cyclesOf (.set n .hlm) true = 4 ∧
    cyclesOf (.bit n .hlm) true = 3 := by
  simp [cyclesOf]

/-! ### the same statements for the tables regenerated from dispatch.go (`c01_tables : Tables.gen = specTables`) -/

theorem c02_run_gen (c : Cpu) (m : Flat) (h : AtFetch c m)
    (hops : MicroOp.fatal ∉ (fetch Tables.gen c c.regs m).cpu.ops) :
    let f := fetch Tables.gen c c.regs m
    let n := match f.cpu.early with
      | none => f.cpu.ops.length
      | some e => if e.1.holds (runList (f.cpu.ops.take e.2.1) f.cpu.regs f.bus).1 then e.2.1
                  else f.cpu.ops.length
    0 < n ∧ n ≤ f.cpu.ops.length ∧
    (∀ k, 0 < k → k < n → (cycles Tables.gen k c m).1.isFinished = false) ∧
    (cycles Tables.gen n c m).1.isFinished = true ∧
    (cycles Tables.gen n c m).1.crashed = false ∧
    (cycles Tables.gen n c m).1.regs = (runList (f.cpu.ops.take n) f.cpu.regs f.bus).1 ∧
    (cycles Tables.gen n c m).2 = (runList (f.cpu.ops.take n) f.cpu.regs f.bus).2 := by
  rw [C01.c01_tables]; exact c02_run c m h (by rw [← C01.c01_tables]; exact hops)

end Tetro.C02
