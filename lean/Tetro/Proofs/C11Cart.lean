import Tetro.Model.Cart
import Tetro.Lemmas.CartWF
/-
C11 (cartridge part) – no cartridge image and no guest access can crash the cartridge code.

The model (`Model/Cart.lean`) returns `none` wherever the Go code can panic (slice index out of
range, `%` by a zero divisor, the explicit panics of `newMBC`/`prepareROM`).  Here:
* `c11_construct_total` : for EVERY image (any length, any bytes) construction either fails or
  yields a well-formed controller;
* `c11_cart_no_crash`   : from a well-formed controller, EVERY sequence of bus writes (any 16-bit
  address, any value) and machine-cycle ticks runs without a crash, ends well-formed, and a read of
  ANY address succeeds.
-/
namespace Tetro.C11Cart
open Tetro.Model.Cart Tetro.CartWF

/-- C11 (cartridge, run time): from a well-formed controller EVERY sequence of writes (any address,
    any value) and ticks runs to completion without a crash, the final state is well-formed, and a
    read of ANY address in it succeeds.  (Reads do not change the state, so this covers every read
    at every point of every history.) -/
theorem c11_cart_no_crash (c : Mbc) (h : WellFormed c) (ops : List Op) :
    ∃ c', run c ops = some c' ∧ WellFormed c' ∧ ∀ a : Nat, (busRead c' a).isSome := by
  induction ops generalizing c with
  | nil => exact ⟨c, rfl, h, fun a => read_ok h a⟩
  | cons op ops ih =>
    obtain ⟨c1, e1, w1⟩ := step_ok h op
    obtain ⟨c', e', w', r'⟩ := ih c1 w1
    exact ⟨c', by simp [run, e1, e'], w', r'⟩

/-- C11 (cartridge, construction): for EVERY byte string (length and contents arbitrary, no size
    bound), `newMBC` either fails (the constructor panics: no emulator is built) or yields a
    well-formed controller.  (MBC1 images with 256 or more banks fail in `newMBC1`: `updateBanks`
    divides by `uint8(len(rom)) = 0`; MBC2, MBC3 and – since /repo commit 37f8d8a – MBC5 reduce bank
    numbers with an `int` modulo by `len(rom)`, which is never zero.) -/
theorem c11_construct_total (img : Image) :
    construct img = none ∨ ∃ c, construct img = some c ∧ WellFormed c := by
  unfold construct
  split
  · exact Or.inl rfl
  · cases hp : prepareROM (img.byte 0x0148) img with
    | none => exact Or.inl rfl
    | some n =>
      obtain ⟨hlen, h2, _⟩ := prepareROM_spec hp
      simp only [Option.bind_some]
      have hq := prepareRAM_range (img.byte 0x0147) (img.byte 0x0149)
      generalize prepareRAM (img.byte 0x0147) (img.byte 0x0149) = q at hq
      unfold selectMbc
      simp only
      repeat' split
      · exact Or.inr ⟨_, rfl, by show 0x8000 ≤ img.len; omega⟩
      · -- MBC1: `newMBC1` runs `updateBanks`, which divides by `uint8(len(rom))`
        by_cases hr : 0 < n % 256
        · have hq' : 0 < q % 256 := by rcases hq with h|h|h|h <;> subst h <;> decide
          have hk : (0 : Nat) < q := by rcases hq with h|h|h|h <;> subst h <;> decide
          obtain ⟨m', e, w, _⟩ := mbc1_update
            (m := { rom := pagesOf img, romLen := n, ram := freshRam, ramLen := q, ramEnabled := false,
                    bank1 := 1, bank2 := 0, mode1 := false, romBank0 := 0, romBank1 := 0, ramBank := 0 })
            hr hq' hk
          refine Or.inr ⟨.mbc1 m', ?_, w⟩
          simp [Mbc1.new, e]
        · refine Or.inl ?_
          have hz : n % 256 = 0 := by omega
          simp [Mbc1.new, Mbc1.updateBanks, Mbc1.newRomBank0, mod?, hz]
      · exact Or.inr ⟨_, rfl, by show 0 < n ∧ 1 < n; omega⟩
      · refine Or.inr ⟨_, rfl, ?_⟩
        show 0 < n ∧ 1 < n ∧ 0 < q
        rcases hq with h|h|h|h <;> subst h <;> omega
      · refine Or.inr ⟨_, rfl, ?_⟩
        show 0 < n ∧ 1 < n ∧ 0 < q % 256 ∧ 0 < q
        rcases hq with h|h|h|h <;> subst h <;> omega
      · exact Or.inl rfl

/-- non-vacuity of `c11_construct_total`/`c11_cart_no_crash`: a 64 KiB MBC1 image with 32 KiB
    RAM is constructed, is well-formed, and a history that selects out-of-range banks runs -/
example : ∃ c, construct { len := 0x10000, byte := fun i =>
      if i = 0x147 then 0x03 else if i = 0x148 then 0x01 else if i = 0x149 then 0x03 else i % 251 } = some c
    ∧ WellFormed c
    ∧ (run c [.write 0x0000 0x0a, .write 0x6000 0x01, .write 0x4000 0x03, .write 0x2000 0x1f,
              .write 0xa123 0x55]).isSome := by
  refine ⟨_, rfl, ?_, ?_⟩
  · simp [WellFormed, prepareRAM]
  · rfl

/-! ### the MBC5 code before /repo commit 37f8d8a -/

/-- the ROM-bank arms of `(*mbc5).Write` as they were before commit 37f8d8a:
    `m.romBank %= uint16(len(m.rom))` – the divisor is truncated to 16 bits -/
def oldMbc5Write (m : Mbc5) (addr v : Nat) : Option Mbc5 :=
  if 0x2000 ≤ addr ∧ addr < 0x3000 then
    (mod? (((m.romBank &&& 0xff00) + v) % 65536) (m.romLen % 65536)).bind fun b => some { m with romBank := b }
  else if 0x3000 ≤ addr ∧ addr < 0x4000 then
    (mod? ((((v <<< 8) % 65536) + (m.romBank &&& 0x00ff)) % 65536) (m.romLen % 65536)).bind fun b =>
      some { m with romBank := b }
  else Mbc5.write m addr v

/-- a 65536-bank image (ROM size byte 0x0F, 1 GiB) with an MBC5 type byte -/
def bigMbc5 : Image :=
  { len := 65536 * 0x4000, byte := fun i => if i = 0x147 then 0x19 else if i = 0x148 then 0x0f else 0 }

/-- The defect this file found in the OLD code (kept as a regression fact): the 1 GiB image is accepted
    by `newMBC`, and with the old bank-select arms the first write to 2000-2FFF crashed
    (`%= uint16(65536)` divides by zero); with the current code the same write succeeds. -/
theorem c11_old_mbc5_65536_banks_crash :
    ∃ m, construct bigMbc5 = some (.mbc5 m) ∧ oldMbc5Write m 0x2000 0x01 = none ∧
      (Mbc5.write m 0x2000 0x01).isSome := by
  refine ⟨_, rfl, ?_, ?_⟩ <;> rfl

end Tetro.C11Cart
