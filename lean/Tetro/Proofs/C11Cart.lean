import Tetro.Model.Cart
import Tetro.Lemmas.CartWF
/-
C11 (cartridge part) – no cartridge image and no guest access can crash the cartridge code.

The model (`Model/Cart.lean`) returns `none` wherever the Go code can panic (slice index out of
range, `%` by a zero divisor, the explicit panics of `newMBC`/`prepareROM`).  Here:
* `c11_construct_total_partial` : for EVERY image shorter than 1 GiB (any length, any bytes)
  construction either fails or yields a well-formed controller (the unrestricted statement is FALSE
  for the code: `c11_mbc5_65536_banks_crash`);
* `c11_cart_no_crash`   : from a well-formed controller, EVERY sequence of bus writes (any 16-bit
  address, any value) and machine-cycle ticks runs without a crash, ends well-formed, and a read of
  ANY address succeeds.
-/
namespace Tetro.C11Cart
open Tetro.Model.Cart Tetro.CartWF

/-- C11 (cartridge, run time): from a well-formed controller EVERY sequence of writes (any address,
    any value) and ticks runs to completion without a crash, the final state is well-formed, and a
    read of ANY address in it succeeds.  (Reads do not change the state, so this covers every read
    at every point of every history.) -/
theorem c11_cart_no_crash (c : Mbc) (h : WellFormed c) (ops : List Op) :
    ∃ c', run c ops = some c' ∧ WellFormed c' ∧ ∀ a : Nat, (busRead c' a).isSome := by
  induction ops generalizing c with
  | nil => exact ⟨c, rfl, h, fun a => read_ok h a⟩
  | cons op ops ih =>
    obtain ⟨c1, e1, w1⟩ := step_ok h op
    obtain ⟨c', e', w', r'⟩ := ih c1 w1
    exact ⟨c', by simp [run, e1, e'], w', r'⟩

/- Full statement (FALSE for the code as it is, see `c11_mbc5_65536_banks_crash`):
     theorem c11_construct_total (img : Image) :
       construct img = none ∨ ∃ c, construct img = some c ∧ WellFormed c
   What is missing: an MBC5 image that declares 65536 or more banks (header ROM size 0x0F..0x3D,
   i.e. an image of at least 1 GiB) is accepted by `newMBC`, but `uint16(len(m.rom))` is then 0 and
   the first ROM-bank write divides by zero.  The proved part covers every image shorter than
   1 GiB (all cartridge sizes that exist: the largest MBC5 cartridge is 8 MiB). -/
/-- C11 (cartridge, construction): for EVERY byte string shorter than 1 GiB (length and contents
    arbitrary), `newMBC` either fails (the constructor panics: no emulator is built) or yields a
    well-formed controller. -/
theorem c11_construct_total_partial (img : Image) (hsmall : img.len < 0x40000000) :
    construct img = none ∨ ∃ c, construct img = some c ∧ WellFormed c := by
  unfold construct
  split
  · exact Or.inl rfl
  · cases hp : prepareROM (img.byte 0x0148) img with
    | none => exact Or.inl rfl
    | some n =>
      obtain ⟨hlen, h2, _⟩ := prepareROM_spec hp
      simp only [Option.bind_some]
      have hq := prepareRAM_range (img.byte 0x0147) (img.byte 0x0149)
      generalize prepareRAM (img.byte 0x0147) (img.byte 0x0149) = q at hq
      unfold selectMbc
      simp only
      repeat' split
      · exact Or.inr ⟨_, rfl, by show 0x8000 ≤ img.len; omega⟩
      · -- MBC1: `newMBC1` runs `updateBanks`, which divides by `uint8(len(rom))`
        by_cases hr : 0 < n % 256
        · have hq' : 0 < q % 256 := by rcases hq with h|h|h|h <;> subst h <;> decide
          have hk : (0 : Nat) < q := by rcases hq with h|h|h|h <;> subst h <;> decide
          obtain ⟨m', e, w, _⟩ := mbc1_update
            (m := { rom := pagesOf img, romLen := n, ram := freshRam, ramLen := q, ramEnabled := false,
                    bank1 := 1, bank2 := 0, mode1 := false, romBank0 := 0, romBank1 := 0, ramBank := 0 })
            hr hq' hk
          refine Or.inr ⟨.mbc1 m', ?_, w⟩
          simp [Mbc1.new, e]
        · refine Or.inl ?_
          have hz : n % 256 = 0 := by omega
          simp [Mbc1.new, Mbc1.updateBanks, Mbc1.newRomBank0, mod?, hz]
      · exact Or.inr ⟨_, rfl, by show 0 < n ∧ 1 < n; omega⟩
      · refine Or.inr ⟨_, rfl, ?_⟩
        show 0 < n ∧ 1 < n ∧ 0 < q
        rcases hq with h|h|h|h <;> subst h <;> omega
      · refine Or.inr ⟨_, rfl, ?_⟩
        show 0 < n % 65536 ∧ 1 < n ∧ 0 < q % 256 ∧ 0 < q
        rcases hq with h|h|h|h <;> subst h <;> omega
      · exact Or.inl rfl

/-- non-vacuity of `c11_construct_total_partial`/`c11_cart_no_crash`: a 64 KiB MBC1 image with 32 KiB
    RAM is constructed, is well-formed, and a history that selects out-of-range banks runs -/
example : ∃ c, construct { len := 0x10000, byte := fun i =>
      if i = 0x147 then 0x03 else if i = 0x148 then 0x01 else if i = 0x149 then 0x03 else i % 251 } = some c
    ∧ WellFormed c
    ∧ (run c [.write 0x0000 0x0a, .write 0x6000 0x01, .write 0x4000 0x03, .write 0x2000 0x1f,
              .write 0xa123 0x55]).isSome := by
  refine ⟨_, rfl, ?_, ?_⟩
  · simp [WellFormed, prepareRAM]
  · rfl

/-- a 65536-bank image (ROM size byte 0x0F) with an MBC5 type byte -/
def bigMbc5 : Image :=
  { len := 65536 * 0x4000, byte := fun i => if i = 0x147 then 0x19 else if i = 0x148 then 0x0f else 0 }

/-- The defect behind the `_partial`: a 1 GiB MBC5 image with ROM size byte 0x0F is ACCEPTED by
    `newMBC`, and the first write to the ROM-bank register then crashes (`%= uint16(65536)` is a
    division by zero). -/
theorem c11_mbc5_65536_banks_crash :
    ∃ c, construct bigMbc5 = some c ∧ run c [.write 0x2000 0x01] = none := by
  refine ⟨_, rfl, ?_⟩
  rfl

end Tetro.C11Cart
