import Tetro.Lemmas.BusFrame
import Tetro.Lemmas.Bits
import Tetro.Spec.BusSpec
/-
C06 – address space and I/O registers read back as on a DMG.

Statements are about the machine bus model `Model.Machine` behind the DOCUMENTED decoder arm lists
`expectedReadArms/expectedWriteArms` (= the arms regenerated from mapper.go, by `c06_arms`, Proofs/C06Decode,
re-checked on every run; = the region / register-table description of the memory map for all 65 536
addresses, by `c06_route_read/write`, Proofs/C06Route).  `peek R s a` is the value `Mapper.Read(a)` returns in
state `s`; `busWrite W s a v` is `Mapper.Write(a, v)` (`none` = Go panic).
Out of scope (other properties): the cartridge windows (C08/C09) and FF10–FF3F (C18; the APU is a stub in
the bus model).
-/
namespace Tetro.C06
open Tetro.Model.Decoder Tetro.Model.Machine Tetro.Model Tetro.BusRoute Tetro.BusBasic Tetro.BusFrame Tetro.Spec.BusSpec

/-! ### byte-level facts (kernel evaluation over all bytes) -/

private theorem b_ff : ∀ v < 256, v &&& 0xff = ((v &&& 0xff) ||| 0x00) &&& 0xff := by decide +kernel
private theorem b_id : ∀ v < 256, v &&& 0xff = v := by decide +kernel
private theorem b_zero : ∀ v < 256, 0 &&& 0xff = ((v &&& 0x00) ||| 0x00) &&& 0xff := by decide +kernel
private theorem b_ones : ∀ v < 256, 0xff &&& 0xff = ((v &&& 0x00) ||| 0xff) &&& 0xff := by decide +kernel
private theorem b_if : ∀ v < 256, (0xe0 + v % 32) &&& 0xff = ((v &&& 0x1f) ||| 0xe0) &&& 0xff := by
  decide +kernel
private theorem b_tac : ∀ v < 256, (v % 8 + 0xf8) &&& 0xff = ((v &&& 0x07) ||| 0xf8) &&& 0xff := by
  decide +kernel
private theorem b_lcdc : ∀ v < 256, (if v.testBit 7 = true then 128 else 0) + v % 128 = v := by decide +kernel
private theorem b_pal : ∀ v < 256, palRead (palWrite v) = v := by decide +kernel
private theorem b_opal : ∀ v < 256, ∀ c0 : Nat,
    objPalRead { c0 := c0, c1 := (v >>> 2) &&& 0x03, c2 := (v >>> 4) &&& 0x03, c3 := (v >>> 6) &&& 0x03 } &&& 0xfc
      = ((v &&& 0xfc) ||| 0x00) &&& 0xfc := by
  intro v hv c0
  have : ∀ v < 256, ((((v >>> 6) &&& 0x03) <<< 6) % 256 + (((v >>> 4) &&& 0x03) <<< 4) % 256
      + (((v >>> 2) &&& 0x03) <<< 2) % 256) % 256 &&& 0xfc = ((v &&& 0xfc) ||| 0x00) &&& 0xfc := by decide +kernel
  exact this v hv
private theorem b_stat : ∀ v < 256, ∀ c : Bool, ∀ m < 4,
    ((128 + (if v.testBit 6 = true then 64 else 0) + (if v.testBit 5 = true then 32 else 0)
      + (if v.testBit 4 = true then 16 else 0) + (if v.testBit 3 = true then 8 else 0)
      + (if c = true then 4 else 0) + m) % 256) &&& 0xf8 = ((v &&& 0x78) ||| 0x80) &&& 0xf8 := by decide +kernel
private theorem b_j2 : ∀ a < 256, ∀ b < 16, (a ||| b) &&& 0xf0 = a &&& 0xf0 := by decide +kernel
private theorem b_j3 : ∀ v < 256, ((v &&& 0x30) ||| 0xc0) < 256 := by decide +kernel

/-! ### ordinary memory -/

private theorem wr_vram (s : Machine) (a v : Nat) (h1 : 0x8000 ≤ a) (h2 : a < 0xa000) :
    ∃ s', busWrite W s a v = some s' ∧ peek R s' a = some v := by
  have hi : Oam.sub16 a 0x8000 < 0x2000 := by rw [sub16_eq h1 (by omega)]; omega
  refine ⟨{ s with vram := s.vram.set (Oam.sub16 a 0x8000) v hi }, ?_, ?_⟩
  · simp only [busWrite, rW_vram h1 h2, writeH, stv_eq hi, Option.map_some]
  · simp only [peek, rR_vram h1 h2, readVal, ldv_set_self]

private theorem wr_wram (s : Machine) (a v : Nat) (h1 : 0xc000 ≤ a) (h2 : a < 0xe000) :
    ∃ s', busWrite W s a v = some s' ∧ peek R s' a = some v := by
  have hi : Oam.sub16 a 0xc000 < 0x2000 := by rw [sub16_eq h1 (by omega)]; omega
  refine ⟨{ s with wram := s.wram.set (Oam.sub16 a 0xc000) v hi }, ?_, ?_⟩
  · simp only [busWrite, rW_wram h1 h2, writeH, stv_eq hi, Option.map_some]
  · simp only [peek, rR_wram h1 h2, readVal, ldv_set_self]

private theorem wr_echo (s : Machine) (a v : Nat) (h1 : 0xe000 ≤ a) (h2 : a < 0xfe00) :
    ∃ s', busWrite W s a v = some s' ∧ peek R s' a = some v := by
  have hi : Oam.sub16 a 0xe000 < 0x2000 := by rw [sub16_eq h1 (by omega)]; omega
  refine ⟨{ s with wram := s.wram.set (Oam.sub16 a 0xe000) v hi }, ?_, ?_⟩
  · simp only [busWrite, rW_echo h1 h2, writeH, stv_eq hi, Option.map_some]
  · simp only [peek, rR_echo h1 h2, readVal, ldv_set_self]

private theorem wr_hram (s : Machine) (a v : Nat) (h1 : 0xff80 ≤ a) (h2 : a < 0xffff) :
    ∃ s', busWrite W s a v = some s' ∧ peek R s' a = some v := by
  have hi : Oam.sub16 a 0xff80 < 0x8f := by rw [sub16_eq h1 (by omega)]; omega
  refine ⟨{ s with hram := s.hram.set (Oam.sub16 a 0xff80) v hi }, ?_, ?_⟩
  · simp only [busWrite, rW_hram h1 h2, writeH, stv_eq hi, Option.map_some]
  · simp only [peek, rR_hram h1 h2, readVal, ldv_set_self]

private theorem wr_ie (s : Machine) (v : Nat) :
    ∃ s', busWrite W s 0xffff v = some s' ∧ peek R s' 0xffff = some v :=
  ⟨{ s with intr := s.intr.writeIE v }, by
    simp only [busWrite, rW_ie, writeH], by
    simp only [peek, rR_ie, readVal, Intr.readIE, Intr.writeIE]⟩

/-- a read of an echo address returns what its work-RAM address returns, in every state -/
theorem c06_echo_read (s : Machine) (a : Nat) : peek R s a = peek R s (canon a) := by
  by_cases h : 0xe000 ≤ a ∧ a < 0xfe00
  · have hc : canon a = a - 0x2000 := by simp only [canon, if_pos h]
    have h1 : Oam.sub16 a 0xe000 = a - 0xe000 := sub16_eq h.1 (by omega)
    have h2 : Oam.sub16 (a - 0x2000) 0xc000 = a - 0xe000 := by
      rw [sub16_eq (by omega) (by omega)]; omega
    rw [hc]
    unfold peek
    rw [rR_echo h.1 h.2, rR_wram (a := a - 0x2000) (by omega) (by omega)]
    simp only [readVal]
    rw [h1, h2]
  · have hc : canon a = a := by simp only [canon, if_neg h]
    rw [hc]

/-! ### OAM -/

private theorem toNat8 {v : Nat} (h : v < 256) : (BitVec.ofNat 8 v).toNat = v := by
  rw [BitVec.toNat_ofNat]; exact Nat.mod_eq_of_lt (by omega)

private theorem wr_oam (s : Machine) (a v : Nat) (h1 : 0xfe00 ≤ a) (h2 : a < 0xfea0) (hv : v < 256)
    (hd : s.oam.dmaRunning = false) :
    ∃ s', busWrite W s a v = some s' ∧ peek R s' a = some v := by
  have ht := toNat16 (a := a) (by omega)
  have hi : a - 0xfe00 < 160 := by omega
  have hidx : Oam.sub16 a 0xfe00 = a - 0xfe00 := sub16_eq h1 (by omega)
  have hw : Oam.cpuWrite s.oam (BitVec.ofNat 16 a) (BitVec.ofNat 8 v)
      = some { Oam.writeFlags s.oam with oam := s.oam.oam.set (a - 0xfe00) (BitVec.ofNat 8 v) hi } := by
    simp only [Oam.cpuWrite, ht, if_pos h2, Oam.writeFlags_oam, hidx, Oam.st_eq hi, Option.map_some]
  refine ⟨_, by simp only [busWrite, rW_oam h1 (by omega), writeH, hw, Option.map_some]; rfl, ?_⟩
  simp only [peek, rR_oam h1 (by omega), readVal]
  rw [oam_read_val _ a h1 (by omega)]
  have hd' : (Oam.writeFlags s.oam).dmaRunning = false := by
    unfold Oam.writeFlags; split
    · split <;> exact hd
    · exact hd
  simp only [hd', Bool.false_eq_true, if_false, dif_pos hi, Vector.getElem_set_self, toNat8 hv]

private theorem wr_unusable (s : Machine) (a v : Nat) (h1 : 0xfea0 ≤ a) (h2 : a < 0xff00)
    (hd : s.oam.dmaRunning = false) :
    ∃ s', busWrite W s a v = some s' ∧ peek R s' a = some 0 := by
  have ht := toNat16 (a := a) (by omega)
  have hw : Oam.cpuWrite s.oam (BitVec.ofNat 16 a) (BitVec.ofNat 8 v) = some (Oam.writeFlags s.oam) := by
    simp only [Oam.cpuWrite, ht, if_neg (show ¬ a < 0xfea0 by omega)]
  refine ⟨_, by simp only [busWrite, rW_oam (by omega) h2, writeH, hw, Option.map_some]; rfl, ?_⟩
  simp only [peek, rR_oam (by omega) h2, readVal]
  rw [oam_read_val _ a (by omega) h2]
  have hd' : (Oam.writeFlags s.oam).dmaRunning = false := by
    unfold Oam.writeFlags; split
    · split <;> exact hd
    · exact hd
  simp only [hd', Bool.false_eq_true, if_false, dif_neg (show ¬ a - 0xfe00 < 160 by omega)]

/-! ### registers: write `v`, read back (one lemma per register; `Rule.holds` = the table's statement) -/

/-- what the specification's rule for address `a` says about writing `v` in state `s` and reading `a` back -/
def ReadsBack (s : Machine) (a v : Nat) : Prop :=
  ∃ s' r, busWrite W s a v = some s' ∧ peek R s' a = some r ∧ (ruleOf a).holds v r

private theorem joyp_read_hi (c : Joyp.Ctl) :
    (Joyp.read c).toNat &&& 0xf0 = ((c.joyp.toNat &&& 0x30) ||| 0xc0) &&& 0xf0 := by
  obtain ⟨n, hn⟩ : ∃ n : BitVec 8, Joyp.read c = (c.joyp &&& 0x30) ||| (n &&& 0x0f) ||| 0xc0 := ⟨_, rfl⟩
  rw [hn]
  simp only [BitVec.toNat_or, BitVec.toNat_and]
  have e : (0x30 : BitVec 8).toNat = 0x30 := by decide
  have e2 : (0x0f : BitVec 8).toNat = 0x0f := by decide
  have e3 : (0xc0 : BitVec 8).toNat = 0xc0 := by decide
  rw [e, e2, e3, Nat.or_assoc, Nat.or_comm (n.toNat &&& 0x0f), ← Nat.or_assoc]
  have hj : c.joyp.toNat < 256 := c.joyp.isLt
  exact b_j2 _ (b_j3 _ hj) _ (by have := Nat.and_le_right (n := n.toNat) (m := 0x0f); omega)

private theorem rb_joyp (s : Machine) (v : Nat) (hv : v < 256) : ReadsBack s 0xff00 v := by
  refine ⟨{ s with joyp := Joyp.write s.joyp (BitVec.ofNat 8 v) }, _, by simp only [busWrite, rW_joyp, writeH],
    by simp only [peek, rR_joyp, readVal]; rfl, ?_⟩
  rw [show ruleOf 0xff00 = reg 0x30 0xc0 from by decide +kernel]
  show _ &&& 0xf0 = ((v &&& 0x30) ||| 0xc0) &&& 0xf0
  rw [joyp_read_hi]
  simp only [Joyp.write, toNat8 hv]

private theorem rb_sb (s : Machine) (v : Nat) (hv : v < 256) : ReadsBack s 0xff01 v := by
  refine ⟨{ s with serial := Serial.writeSB s.serial (BitVec.ofNat 8 v) }, _,
    by simp only [busWrite, rW_sb, writeH], by simp only [peek, rR_sb, readVal]; rfl, ?_⟩
  rw [show ruleOf 0xff01 = reg 0x00 0xff from by decide +kernel]
  exact b_ones v hv

private theorem rb_sc (s : Machine) (v : Nat) (hv : v < 256) : ReadsBack s 0xff02 v := by
  refine ⟨s, _, by simp only [busWrite, rW_sc, writeH], by simp only [peek, rR_sc, readVal]; rfl, ?_⟩
  rw [show ruleOf 0xff02 = reg 0x00 0xff from by decide +kernel]
  exact b_ones v hv

private theorem rb_div (s : Machine) (v : Nat) (hv : v < 256) : ReadsBack s 0xff04 v := by
  refine ⟨{ s with timer := Timer.writeDIV s.timer }, _,
    by simp only [busWrite, rW_div, writeH], by simp only [peek, rR_div, readVal]; rfl, ?_⟩
  rw [show ruleOf 0xff04 = { writable := 0, forced := 0, care := 0xff } from by decide +kernel]
  have : Timer.readDIV (Timer.writeDIV s.timer) = 0 := by
    simp only [Timer.readDIV, Timer.writeDIV, Timer.reset, (cfe_fields _).1]
  show Timer.readDIV (Timer.writeDIV s.timer) &&& 0xff = _
  rw [this]
  exact b_zero v hv

private theorem rb_tima (s : Machine) (v : Nat) (hv : v < 256) (hr : s.timer.reloading = false) :
    ReadsBack s 0xff05 v := by
  refine ⟨{ s with timer := Timer.writeTIMA s.timer v }, _,
    by simp only [busWrite, rW_tima, writeH], by simp only [peek, rR_tima, readVal]; rfl, ?_⟩
  rw [show ruleOf 0xff05 = reg 0xff 0x00 from by decide +kernel]
  have : Timer.readTIMA (Timer.writeTIMA s.timer v) = v := by
    simp only [Timer.readTIMA, Timer.writeTIMA, hr, Bool.not_false, if_true]
  show Timer.readTIMA (Timer.writeTIMA s.timer v) &&& 0xff = _
  rw [this]
  exact b_ff v hv

private theorem rb_tma (s : Machine) (v : Nat) (hv : v < 256) : ReadsBack s 0xff06 v := by
  refine ⟨{ s with timer := Timer.writeTMA s.timer v }, _,
    by simp only [busWrite, rW_tma, writeH], by simp only [peek, rR_tma, readVal]; rfl, ?_⟩
  rw [show ruleOf 0xff06 = reg 0xff 0x00 from by decide +kernel]
  have : Timer.readTMA (Timer.writeTMA s.timer v) = v := by
    simp only [Timer.readTMA, Timer.writeTMA]; split <;> rfl
  show Timer.readTMA (Timer.writeTMA s.timer v) &&& 0xff = _
  rw [this]
  exact b_ff v hv

private theorem rb_tac (s : Machine) (v : Nat) (hv : v < 256) : ReadsBack s 0xff07 v := by
  refine ⟨{ s with timer := Timer.writeTAC s.timer v }, _,
    by simp only [busWrite, rW_tac, writeH], by simp only [peek, rR_tac, readVal]; rfl, ?_⟩
  rw [show ruleOf 0xff07 = reg 0x07 0xf8 from by decide +kernel]
  have : Timer.readTAC (Timer.writeTAC s.timer v) = v % 8 + 0xf8 := by
    simp only [Timer.readTAC, Timer.writeTAC, (cfe_fields _).2.1]
  show Timer.readTAC (Timer.writeTAC s.timer v) &&& 0xff = _
  rw [this]
  exact b_tac v hv

private theorem rb_if (s : Machine) (v : Nat) (hv : v < 256) : ReadsBack s 0xff0f v := by
  refine ⟨{ s with intr := s.intr.writeIF v }, _,
    by simp only [busWrite, rW_ifl, writeH], by simp only [peek, rR_ifl, readVal]; rfl, ?_⟩
  rw [show ruleOf 0xff0f = reg 0x1f 0xe0 from by decide +kernel]
  exact b_if v hv

/-- after `WriteLCDC(v)` the LCD is on exactly when bit 7 of `v` is set -/
private theorem lcdc_enabled (p : Lcd.Ppu) (v : Nat) : (Lcd.wLCDC p v).enabled = v.testBit 7 := by
  simp only [Lcd.wLCDC, Lcd.lcdcSwitch, Lcd.enable, Lcd.disable]
  cases h1 : v.testBit 7 <;> cases h2 : p.enabled <;> simp [h2]

private theorem rb_lcdc (s : Machine) (v : Nat) (hv : v < 256) : ReadsBack s 0xff40 v := by
  refine ⟨{ s with ppu := Lcd.wLCDC s.ppu v, oam := oamAfterLcdc s.ppu (v.testBit 7) s.oam }, _,
    by simp only [busWrite, rW_lcdc, writeH], by simp only [peek, rR_lcdc, readVal]; rfl, ?_⟩
  rw [show ruleOf 0xff40 = reg 0xff 0x00 from by decide +kernel]
  have : Lcd.readLCDC (Lcd.wLCDC s.ppu v) = v := by
    have hl : (Lcd.wLCDC s.ppu v).lcdcLow = v % 128 := rfl
    simp only [Lcd.readLCDC, lcdc_enabled, hl]
    exact b_lcdc v hv
  show Lcd.readLCDC (Lcd.wLCDC s.ppu v) &&& 0xff = _
  rw [this]
  exact b_ff v hv

private theorem rb_stat (s : Machine) (v : Nat) (hv : v < 256) (hm : s.ppu.mode < 4) : ReadsBack s 0xff41 v := by
  refine ⟨{ s with ppu := Lcd.wSTAT s.ppu v }, _,
    by simp only [busWrite, rW_stat, writeH], by simp only [peek, rR_stat, readVal]; rfl, ?_⟩
  rw [show ruleOf 0xff41 = reg 0x78 0x80 from by decide +kernel]
  show Lcd.readSTAT (Lcd.wSTAT s.ppu v) &&& 0xf8 = ((v &&& 0x78) ||| 0x80) &&& 0xf8
  simp only [Lcd.readSTAT, Lcd.wSTAT]
  exact b_stat v hv s.ppu.coincidence s.ppu.mode hm

private theorem rb_scy (s : Machine) (v : Nat) (hv : v < 256) : ReadsBack s 0xff42 v := by
  refine ⟨{ s with regs := { s.regs with scy := v } }, _,
    by simp only [busWrite, rW_scy, writeH], by simp only [peek, rR_scy, readVal]; rfl, ?_⟩
  rw [show ruleOf 0xff42 = reg 0xff 0x00 from by decide +kernel]
  exact b_ff v hv

private theorem rb_scx (s : Machine) (v : Nat) (hv : v < 256) : ReadsBack s 0xff43 v := by
  refine ⟨{ s with regs := { s.regs with scx := v } }, _,
    by simp only [busWrite, rW_scx, writeH], by simp only [peek, rR_scx, readVal]; rfl, ?_⟩
  rw [show ruleOf 0xff43 = reg 0xff 0x00 from by decide +kernel]
  exact b_ff v hv

private theorem rb_ly (s : Machine) (v : Nat) : ReadsBack s 0xff44 v := by
  refine ⟨{ s with ppu := Lcd.wLY s.ppu v }, _,
    by simp only [busWrite, rW_ly, writeH], by simp only [peek, rR_ly, readVal]; rfl, ?_⟩
  rw [show ruleOf 0xff44 = { writable := 0, forced := 0, care := 0 } from by decide +kernel]
  show _ &&& 0 = _ &&& 0
  simp only [Nat.and_zero]

private theorem rb_lyc (s : Machine) (v : Nat) (hv : v < 256) : ReadsBack s 0xff45 v := by
  refine ⟨{ s with ppu := Lcd.wLYC s.ppu v }, _,
    by simp only [busWrite, rW_lyc, writeH], by simp only [peek, rR_lyc, readVal]; rfl, ?_⟩
  rw [show ruleOf 0xff45 = reg 0xff 0x00 from by decide +kernel]
  show (v % 256) &&& 0xff = _
  rw [Nat.mod_eq_of_lt hv]
  exact b_ff v hv

private theorem rb_dma (s : Machine) (v : Nat) (hv : v < 256) : ReadsBack s 0xff46 v := by
  refine ⟨{ s with oam := Oam.writeDMA s.oam (BitVec.ofNat 8 v) }, _,
    by simp only [busWrite, rW_dma, writeH], by simp only [peek, rR_dma, readVal]; rfl, ?_⟩
  rw [show ruleOf 0xff46 = reg 0xff 0x00 from by decide +kernel]
  show (Oam.readDMA (Oam.writeDMA s.oam (BitVec.ofNat 8 v))).toNat &&& 0xff = _
  have : Oam.readDMA (Oam.writeDMA s.oam (BitVec.ofNat 8 v)) = BitVec.ofNat 8 v := rfl
  rw [this, toNat8 hv]
  exact b_ff v hv

private theorem rb_bgp (s : Machine) (v : Nat) (hv : v < 256) : ReadsBack s 0xff47 v := by
  refine ⟨{ s with regs := { s.regs with bgp := palWrite v } }, _,
    by simp only [busWrite, rW_bgp, writeH], by simp only [peek, rR_bgp, readVal]; rfl, ?_⟩
  rw [show ruleOf 0xff47 = reg 0xff 0x00 from by decide +kernel]
  show palRead (palWrite v) &&& 0xff = _
  rw [b_pal v hv]
  exact b_ff v hv

private theorem rb_obp0 (s : Machine) (v : Nat) (hv : v < 256) : ReadsBack s 0xff48 v := by
  refine ⟨{ s with regs := { s.regs with obp0 := objPalWrite s.regs.obp0 v } }, _,
    by simp only [busWrite, rW_obp0, writeH], by simp only [peek, rR_obp0, readVal]; rfl, ?_⟩
  rw [show ruleOf 0xff48 = reg 0xfc 0x00 from by decide +kernel]
  exact b_opal v hv s.regs.obp0.c0

private theorem rb_obp1 (s : Machine) (v : Nat) (hv : v < 256) : ReadsBack s 0xff49 v := by
  refine ⟨{ s with regs := { s.regs with obp1 := objPalWrite s.regs.obp1 v } }, _,
    by simp only [busWrite, rW_obp1, writeH], by simp only [peek, rR_obp1, readVal]; rfl, ?_⟩
  rw [show ruleOf 0xff49 = reg 0xfc 0x00 from by decide +kernel]
  exact b_opal v hv s.regs.obp1.c0

private theorem rb_wy (s : Machine) (v : Nat) (hv : v < 256) : ReadsBack s 0xff4a v := by
  refine ⟨{ s with regs := { s.regs with wy := v } }, _,
    by simp only [busWrite, rW_wy, writeH], by simp only [peek, rR_wy, readVal]; rfl, ?_⟩
  rw [show ruleOf 0xff4a = reg 0xff 0x00 from by decide +kernel]
  exact b_ff v hv

private theorem rb_wx (s : Machine) (v : Nat) (hv : v < 256) : ReadsBack s 0xff4b v := by
  refine ⟨{ s with regs := { s.regs with wx := v } }, _,
    by simp only [busWrite, rW_wx, writeH], by simp only [peek, rR_wx, readVal]; rfl, ?_⟩
  rw [show ruleOf 0xff4b = reg 0xff 0x00 from by decide +kernel]
  exact b_ff v hv

/-! ### every address in scope -/

private theorem io_cases : ∀ k < 128,
    0xff00 + k = 0xff00 ∨ 0xff00 + k = 0xff01 ∨ 0xff00 + k = 0xff02 ∨ 0xff00 + k = 0xff04 ∨ 0xff00 + k = 0xff05
    ∨ 0xff00 + k = 0xff06 ∨ 0xff00 + k = 0xff07 ∨ 0xff00 + k = 0xff0f ∨ 0xff00 + k = 0xff40 ∨ 0xff00 + k = 0xff41
    ∨ 0xff00 + k = 0xff42 ∨ 0xff00 + k = 0xff43 ∨ 0xff00 + k = 0xff44 ∨ 0xff00 + k = 0xff45 ∨ 0xff00 + k = 0xff46
    ∨ 0xff00 + k = 0xff47 ∨ 0xff00 + k = 0xff48 ∨ 0xff00 + k = 0xff49 ∨ 0xff00 + k = 0xff4a ∨ 0xff00 + k = 0xff4b
    ∨ unmappedAddr (0xff00 + k) ∨ apuAddr (0xff00 + k) := by decide +kernel

private theorem unmapped_facts : ∀ k < 128, unmappedAddr (0xff00 + k) →
    route R (0xff00 + k) = .ff ∧ route W (0xff00 + k) = .ignore
    ∧ ruleOf (0xff00 + k) = { writable := 0x00, forced := 0xff, care := 0xff } := by decide +kernel

/-- preconditions on the state for the read-back at `a`: no OAM transfer running (OAM), outside the TIMA
    reload cycle (TIMA), a PPU mode in 0..3 (STAT; every reachable state has it) -/
def Ready (s : Machine) (a : Nat) : Prop :=
  (0xfe00 ≤ a ∧ a < 0xff00 → s.oam.dmaRunning = false) ∧ (a = 0xff05 → s.timer.reloading = false)
  ∧ (a = 0xff41 → s.ppu.mode < 4)

private theorem plain_rule {a : Nat} (h : plainAddr a) :
    ruleOf a = { writable := 0xff, forced := 0x00, care := 0xff } := by
  simp only [ruleOf, if_pos h]

private theorem plain_holds {a v : Nat} (h : plainAddr a) (hv : v < 256) : (ruleOf a).holds v v := by
  rw [plain_rule h]; exact b_ff v hv

/-- MASTER read-back lemma: for EVERY address in scope, writing `v` and reading the address back gives what
    the documentation-shaped rule of that address says -/
theorem c06_readback_all (s : Machine) (a v : Nat) (ha : inScope a) (hv : v < 256) (hr : Ready s a) :
    ReadsBack s a v := by
  obtain ⟨hlt, hnc, hna⟩ := ha
  simp only [cartAddr, apuAddr] at hnc hna
  by_cases c1 : a < 0xa000
  · obtain ⟨s', hw, hp⟩ := wr_vram s a v (by omega) c1
    exact ⟨s', v, hw, hp, plain_holds (by simp only [plainAddr]; omega) hv⟩
  by_cases c2 : a < 0xe000
  · obtain ⟨s', hw, hp⟩ := wr_wram s a v (by omega) c2
    exact ⟨s', v, hw, hp, plain_holds (by simp only [plainAddr]; omega) hv⟩
  by_cases c3 : a < 0xfe00
  · obtain ⟨s', hw, hp⟩ := wr_echo s a v (by omega) c3
    exact ⟨s', v, hw, hp, plain_holds (by simp only [plainAddr]; omega) hv⟩
  by_cases c4 : a < 0xfea0
  · obtain ⟨s', hw, hp⟩ := wr_oam s a v (by omega) c4 hv (hr.1 (by omega))
    exact ⟨s', v, hw, hp, plain_holds (by simp only [plainAddr]; omega) hv⟩
  by_cases c5 : a < 0xff00
  · obtain ⟨s', hw, hp⟩ := wr_unusable s a v (by omega) c5 (hr.1 (by omega))
    refine ⟨s', 0, hw, hp, ?_⟩
    have : ruleOf a = { writable := 0x00, forced := 0x00, care := 0xff } := by
      simp only [ruleOf, if_neg (show ¬ plainAddr a by simp only [plainAddr]; omega),
        if_pos (show 0xfea0 ≤ a ∧ a < 0xff00 by omega)]
    rw [this]; exact b_zero v hv
  by_cases c6 : a < 0xff80
  · obtain ⟨k, rfl⟩ : ∃ k, a = 0xff00 + k := ⟨a - 0xff00, by omega⟩
    have hk : k < 128 := by omega
    rcases io_cases k hk with e | e | e | e | e | e | e | e | e | e | e | e | e | e | e | e | e | e | e | e | e | e
    · rw [e]; exact rb_joyp s v hv
    · rw [e]; exact rb_sb s v hv
    · rw [e]; exact rb_sc s v hv
    · rw [e]; exact rb_div s v hv
    · rw [e]; exact rb_tima s v hv (hr.2.1 e)
    · rw [e]; exact rb_tma s v hv
    · rw [e]; exact rb_tac s v hv
    · rw [e]; exact rb_if s v hv
    · rw [e]; exact rb_lcdc s v hv
    · rw [e]; exact rb_stat s v hv (hr.2.2 e)
    · rw [e]; exact rb_scy s v hv
    · rw [e]; exact rb_scx s v hv
    · rw [e]; exact rb_ly s v
    · rw [e]; exact rb_lyc s v hv
    · rw [e]; exact rb_dma s v hv
    · rw [e]; exact rb_bgp s v hv
    · rw [e]; exact rb_obp0 s v hv
    · rw [e]; exact rb_obp1 s v hv
    · rw [e]; exact rb_wy s v hv
    · rw [e]; exact rb_wx s v hv
    · obtain ⟨h1, h2, h3⟩ := unmapped_facts k hk e
      refine ⟨s, 0xff, by simp only [busWrite, h2, writeH], by simp only [peek, h1, readVal], ?_⟩
      rw [h3]; exact b_ones v hv
    · simp only [apuAddr] at e; omega
  by_cases c7 : a < 0xffff
  · obtain ⟨s', hw, hp⟩ := wr_hram s a v (by omega) c7
    exact ⟨s', v, hw, hp, plain_holds (by simp only [plainAddr]; omega) hv⟩
  · have e : a = 0xffff := by omega
    rw [e]
    obtain ⟨s', hw, hp⟩ := wr_ie s v
    exact ⟨s', v, hw, hp, plain_holds (by decide) hv⟩

/-! ### the statements of the property, one by one -/

/-- ordinary memory (video RAM, work RAM, OAM without a running transfer, high RAM, IE): a byte written is the
    byte read, in EVERY machine state (LCD on or off: this emulator never blocks VRAM/OAM) -/
theorem c06_plain (s : Machine) (a v : Nat) (ha : a < 0x10000) (hp : plainAddr a) (hv : v < 256)
    (hd : 0xfe00 ≤ a ∧ a < 0xff00 → s.oam.dmaRunning = false) :
    ∃ s', busWrite W s a v = some s' ∧ peek R s' a = some v := by
  have hin : inScope a := by
    simp only [plainAddr] at hp; simp only [inScope, cartAddr, apuAddr]; omega
  have hr : Ready s a := by
    simp only [plainAddr] at hp
    exact ⟨hd, fun e => by omega, fun e => by omega⟩
  obtain ⟨s', r, hw, hpk, hh⟩ := c06_readback_all s a v hin hv hr
  refine ⟨s', hw, ?_⟩
  rw [plain_rule hp] at hh
  have e : r &&& 0xff = v := by
    have := b_ff v hv; simp only [Rule.holds, Rule.readBack] at hh; rw [hh, ← this]; exact b_id v hv
  -- the value read is the stored byte itself
  simp only [plainAddr] at hp
  by_cases c1 : a < 0xa000
  · obtain ⟨s2, hw2, hp2⟩ := wr_vram s a v (by omega) c1
    rw [hw] at hw2; cases hw2; exact hp2
  by_cases c2 : a < 0xe000
  · obtain ⟨s2, hw2, hp2⟩ := wr_wram s a v (by omega) c2
    rw [hw] at hw2; cases hw2; exact hp2
  by_cases c3 : a < 0xfe00
  · obtain ⟨s2, hw2, hp2⟩ := wr_echo s a v (by omega) c3
    rw [hw] at hw2; cases hw2; exact hp2
  by_cases c4 : a < 0xfea0
  · obtain ⟨s2, hw2, hp2⟩ := wr_oam s a v (by omega) c4 hv (hd (by omega))
    rw [hw] at hw2; cases hw2; exact hp2
  by_cases c7 : a < 0xffff
  · obtain ⟨s2, hw2, hp2⟩ := wr_hram s a v (by omega) c7
    rw [hw] at hw2; cases hw2; exact hp2
  · have e : a = 0xffff := by omega
    subst e
    obtain ⟨s2, hw2, hp2⟩ := wr_ie s v
    rw [hw] at hw2; cases hw2; exact hp2

/-- E000–FDFF mirrors C000–DDFF in both directions: a write through either address is read through both -/
theorem c06_echo (s : Machine) (a v : Nat) (h1 : 0xc000 ≤ a) (h2 : a < 0xde00) :
    (∃ s', busWrite W s a v = some s' ∧ peek R s' a = some v ∧ peek R s' (a + 0x2000) = some v)
    ∧ (∃ s', busWrite W s (a + 0x2000) v = some s' ∧ peek R s' a = some v ∧ peek R s' (a + 0x2000) = some v) := by
  have hc : canon (a + 0x2000) = a := by
    simp only [canon, if_pos (show 0xe000 ≤ a + 0x2000 ∧ a + 0x2000 < 0xfe00 by omega)]; omega
  constructor
  · obtain ⟨s', hw, hp⟩ := wr_wram s a v h1 (by omega)
    exact ⟨s', hw, hp, by rw [c06_echo_read, hc]; exact hp⟩
  · obtain ⟨s', hw, hp⟩ := wr_echo s (a + 0x2000) v (by omega) (by omega)
    exact ⟨s', hw, by rw [c06_echo_read, hc] at hp; exact hp, hp⟩

/-- FEA0–FEFF reads 00 while OAM is accessible, whatever is written there -/
theorem c06_unusable (s : Machine) (a : Nat) (h1 : 0xfea0 ≤ a) (h2 : a < 0xff00) (hd : s.oam.dmaRunning = false) :
    peek R s a = some 0 ∧ ∀ v, ∃ s', busWrite W s a v = some s' ∧ peek R s' a = some 0 := by
  refine ⟨?_, fun v => wr_unusable s a v h1 h2 hd⟩
  simp only [peek, rR_oam (by omega) h2, readVal]
  rw [oam_read_val _ a (by omega) h2]
  simp only [hd, Bool.false_eq_true, if_false, dif_neg (show ¬ a - 0xfe00 < 160 by omega)]

/-- an unmapped I/O address reads FF and a write to it changes nothing at all -/
theorem c06_unmapped (s : Machine) (a v : Nat) (h : unmappedAddr a) :
    peek R s a = some 0xff ∧ busWrite W s a v = some s := by
  obtain ⟨k, rfl⟩ : ∃ k, a = 0xff00 + k := ⟨a - 0xff00, by have := h.1; omega⟩
  have hk : k < 128 := by have := h.2.1; omega
  obtain ⟨h1, h2, _⟩ := unmapped_facts k hk h
  exact ⟨by simp only [peek, h1, readVal], by simp only [busWrite, h2, writeH]⟩

private theorem regTable_facts : ∀ e ∈ regTable,
    inScope e.1 ∧ ruleOf e.1 = e.2 ∧ e.2.care = e.2.writable ||| e.2.forced
    ∧ ∀ v < 256, ((v &&& e.2.writable) ||| e.2.forced) &&& e.2.care = (v &&& e.2.writable) ||| e.2.forced := by
  decide +kernel

private theorem m8 (a b c d : Bool) :
    (128 + (if a = true then 64 else 0) + (if b = true then 32 else 0) + (if c = true then 16 else 0)
      + (if d = true then 8 else 0)) % 8 = 0 := by
  cases a <;> cases b <;> cases c <;> cases d <;> rfl

private theorem m8key (x y c m : Nat) (hx : x % 8 = 0) (hy : y % 8 = 0) :
    ((x + c + m) % 256) % 8 = ((y + c + m) % 256) % 8 := by omega

/-- every register of the table reads back `(v AND writable) OR forced` on its specified bits
    (IF E0, TAC F8, STAT 80 with bits 0-2 left to the PPU, JOYP C0 with the low nibble left to the keys, …) -/
theorem c06_reg_readback (s : Machine) (v : Nat) (hv : v < 256) :
    ∀ e ∈ regTable, Ready s e.1 →
      ∃ s' r, busWrite W s e.1 v = some s' ∧ peek R s' e.1 = some r
        ∧ r &&& (e.2.writable ||| e.2.forced) = (v &&& e.2.writable) ||| e.2.forced := by
  intro e he hr
  have hin := regTable_facts e he
  obtain ⟨s', r, hw, hp, hh⟩ := c06_readback_all s e.1 v hin.1 hv hr
  refine ⟨s', r, hw, hp, ?_⟩
  rw [hin.2.1] at hh
  simp only [Rule.holds, Rule.readBack] at hh
  rw [← hin.2.2.1, hh]
  exact hin.2.2.2 v hv

/-- the read-only bits of STAT (mode, coincidence) are not touched by a write to STAT -/
theorem c06_stat_readonly (s : Machine) (v : Nat) :
    ∃ s' r r0, busWrite W s 0xff41 v = some s' ∧ peek R s' 0xff41 = some r ∧ peek R s 0xff41 = some r0
      ∧ r % 8 = r0 % 8 := by
  refine ⟨{ s with ppu := Lcd.wSTAT s.ppu v }, _, _, by simp only [busWrite, rW_stat, writeH],
    by simp only [peek, rR_stat, readVal]; rfl, by simp only [peek, rR_stat, readVal]; rfl, ?_⟩
  simp only [Lcd.readSTAT, Lcd.wSTAT]
  exact m8key _ _ _ _ (m8 _ _ _ _) (m8 _ _ _ _)

/-- writes never set DIV or LY to the written value: what is read afterwards does not depend on `v`,
    and DIV reads 00 -/
theorem c06_div_ly (s : Machine) (v1 v2 : Nat) :
    (∃ s1 s2, busWrite W s 0xff04 v1 = some s1 ∧ busWrite W s 0xff04 v2 = some s2
        ∧ peek R s1 0xff04 = some 0 ∧ peek R s2 0xff04 = some 0)
    ∧ (∃ s1 s2, busWrite W s 0xff44 v1 = some s1 ∧ busWrite W s 0xff44 v2 = some s2
        ∧ peek R s1 0xff44 = peek R s2 0xff44) := by
  constructor
  · have : Timer.readDIV (Timer.writeDIV s.timer) = 0 := by
      simp only [Timer.readDIV, Timer.writeDIV, Timer.reset, (cfe_fields _).1]
    exact ⟨{ s with timer := Timer.writeDIV s.timer }, { s with timer := Timer.writeDIV s.timer },
      by simp only [busWrite, rW_div, writeH], by simp only [busWrite, rW_div, writeH],
      by simp only [peek, rR_div, readVal, this], by simp only [peek, rR_div, readVal, this]⟩
  · exact ⟨{ s with ppu := Lcd.wLY s.ppu v1 }, { s with ppu := Lcd.wLY s.ppu v2 },
      by simp only [busWrite, rW_ly, writeH], by simp only [busWrite, rW_ly, writeH],
      by simp only [peek, rR_ly, readVal]; rfl⟩

/-- FF46 reads back the last value written, for every value (incl. E0–FF, where the transfer source is mirrored) -/
theorem c06_dma_readback (s : Machine) (v : Nat) (hv : v < 256) :
    ∃ s', busWrite W s 0xff46 v = some s' ∧ peek R s' 0xff46 = some v := by
  refine ⟨{ s with oam := Oam.writeDMA s.oam (BitVec.ofNat 8 v) }, by simp only [busWrite, rW_dma, writeH], ?_⟩
  simp only [peek, rR_dma, readVal]
  have : Oam.readDMA (Oam.writeDMA s.oam (BitVec.ofNat 8 v)) = BitVec.ofNat 8 v := rfl
  rw [this, toNat8 hv]

/-! ### no access in scope panics; a read changes nothing that can be read -/

private theorem reg_peek_total : ∀ k < 128, ¬ apuAddr (0xff00 + k) → ∀ s : Machine,
    ∃ r, readVal (route R (0xff00 + k)) s (0xff00 + k) = some r := by
  intro k hk hna s
  rcases io_cases k hk with e | e | e | e | e | e | e | e | e | e | e | e | e | e | e | e | e | e | e | e | e | e
  · rw [e, rR_joyp]; exact ⟨_, rfl⟩
  · rw [e, rR_sb]; exact ⟨_, rfl⟩
  · rw [e, rR_sc]; exact ⟨_, rfl⟩
  · rw [e, rR_div]; exact ⟨_, rfl⟩
  · rw [e, rR_tima]; exact ⟨_, rfl⟩
  · rw [e, rR_tma]; exact ⟨_, rfl⟩
  · rw [e, rR_tac]; exact ⟨_, rfl⟩
  · rw [e, rR_ifl]; exact ⟨_, rfl⟩
  · rw [e, rR_lcdc]; exact ⟨_, rfl⟩
  · rw [e, rR_stat]; exact ⟨_, rfl⟩
  · rw [e, rR_scy]; exact ⟨_, rfl⟩
  · rw [e, rR_scx]; exact ⟨_, rfl⟩
  · rw [e, rR_ly]; exact ⟨_, rfl⟩
  · rw [e, rR_lyc]; exact ⟨_, rfl⟩
  · rw [e, rR_dma]; exact ⟨_, rfl⟩
  · rw [e, rR_bgp]; exact ⟨_, rfl⟩
  · rw [e, rR_obp0]; exact ⟨_, rfl⟩
  · rw [e, rR_obp1]; exact ⟨_, rfl⟩
  · rw [e, rR_wy]; exact ⟨_, rfl⟩
  · rw [e, rR_wx]; exact ⟨_, rfl⟩
  · rw [(unmapped_facts k hk e).1]; exact ⟨_, rfl⟩
  · exact absurd e hna

/-- a read of an address in scope never panics -/
theorem c06_read_total (s : Machine) (b : Nat) (hb : inScope b) : ∃ r, peek R s b = some r := by
  obtain ⟨hlt, hnc, hna⟩ := hb
  simp only [cartAddr] at hnc
  unfold peek
  by_cases c1 : b < 0xa000
  · rw [rR_vram (by omega) c1]; simp only [readVal]
    rw [sub16_eq (by omega) hlt, ldv_eq (by omega)]; exact ⟨_, rfl⟩
  by_cases c2 : b < 0xe000
  · rw [rR_wram (by omega) c2]; simp only [readVal]
    rw [sub16_eq (by omega) hlt, ldv_eq (by omega)]; exact ⟨_, rfl⟩
  by_cases c3 : b < 0xfe00
  · rw [rR_echo (by omega) c3]; simp only [readVal]
    rw [sub16_eq (by omega) hlt, ldv_eq (by omega)]; exact ⟨_, rfl⟩
  by_cases c5 : b < 0xff00
  · rw [rR_oam (by omega) c5]; simp only [readVal]
    rw [oam_read_val _ b (by omega) c5]; exact ⟨_, rfl⟩
  by_cases c6 : b < 0xff80
  · obtain ⟨k, rfl⟩ : ∃ k, b = 0xff00 + k := ⟨b - 0xff00, by omega⟩
    exact reg_peek_total k (by omega) hna s
  by_cases c7 : b < 0xffff
  · rw [rR_hram (by omega) c7]; simp only [readVal]
    rw [sub16_eq (by omega) hlt, ldv_eq (by omega)]; exact ⟨_, rfl⟩
  · have e : b = 0xffff := by omega
    rw [e, rR_ie]; exact ⟨_, rfl⟩

/-- what a bus write preserves: the TIMA reload flag, "PPU mode in 0..3", and (except for FF46) the DMA flag -/
private theorem write_inv (s s' : Machine) (a v : Nat) (ha : a < 65536) (hw : busWrite W s a v = some s') :
    s'.timer.reloading = s.timer.reloading ∧ (s.ppu.mode < 4 → s'.ppu.mode < 4)
    ∧ (a ≠ 0xff46 → s'.oam.dmaRunning = s.oam.dmaRunning) := by
  have hra := range_write ha
  unfold busWrite at hw
  generalize route W a = wa at hw hra
  cases wa <;> simp only [writeH, ApuStub.write, Option.map_eq_some_iff, Option.some.injEq] at hw
  case panic | unknown | ff => cases hw
  case mbc | vram | wram | echo | hram => obtain ⟨_, _, rfl⟩ := hw; exact ⟨rfl, id, fun _ => rfl⟩
  case oam =>
    obtain ⟨o, ho, rfl⟩ := hw
    refine ⟨rfl, id, fun _ => ?_⟩
    have hsh := Oam.cpuWrite_shape ho
    by_cases hlo : (BitVec.ofNat 16 a).toNat < 0xfea0
    · obtain ⟨hi, e⟩ := hsh.1 hlo
      show o.dmaRunning = _
      rw [e]; exact (writeFlags_dma _).1
    · show o.dmaRunning = _
      rw [hsh.2 (by omega)]; exact (writeFlags_dma _).1
  case div | tac =>
    subst hw
    exact ⟨by simp only [Timer.writeDIV, Timer.reset, Timer.writeTAC, (cfe_fields _).2.2.2], id, fun _ => rfl⟩
  case tima | tma =>
    subst hw
    refine ⟨?_, id, fun _ => rfl⟩
    simp only [Timer.writeTIMA, Timer.writeTMA]; split <;> rfl
  case lcdc =>
    subst hw
    refine ⟨rfl, fun hm => ?_, fun _ => (lcdc_oam _ _ _).1⟩
    simp only [Lcd.wLCDC, Lcd.lcdcSwitch, Lcd.enable, Lcd.disable]
    split
    · exact (by decide : (2 : Nat) < 4)
    · split
      · exact (by decide : (0 : Nat) < 4)
      · exact hm
  case dma => subst hw; exact ⟨rfl, id, fun h => absurd (rng_dma hra) h⟩
  all_goals (first | (obtain ⟨_, _, rfl⟩ := hw) | subst hw)
  all_goals exact ⟨rfl, id, fun _ => rfl⟩

/-- a write to an address in scope never panics (outside the TIMA reload cycle, PPU mode in 0..3) -/
theorem c06_write_total (s : Machine) (a v : Nat) (ha : inScope a) (hv : v < 256)
    (hrel : s.timer.reloading = false) (hm : s.ppu.mode < 4) : ∃ s', busWrite W s a v = some s' := by
  by_cases ho : 0xfe00 ≤ a ∧ a < 0xff00
  · have ht := toNat16 (a := a) (by omega)
    unfold busWrite
    rw [rW_oam ho.1 ho.2]
    simp only [writeH, Oam.cpuWrite, ht]
    by_cases hlo : a < 0xfea0
    · have hi : Oam.sub16 a 0xfe00 < 160 := by rw [sub16_eq ho.1 (by omega)]; omega
      simp only [if_pos hlo, Oam.st_eq hi, Option.map_some]; exact ⟨_, rfl⟩
    · simp only [if_neg hlo, Option.map_some]; exact ⟨_, rfl⟩
  · obtain ⟨s', _, hw, _⟩ := c06_readback_all s a v ha hv ⟨fun h => absurd h ho, fun _ => hrel, fun _ => hm⟩
    exact ⟨s', hw⟩

/-! ### the history form -/

private theorem canon_cases (b : Nat) :
    (0xe000 ≤ b ∧ b < 0xfe00 ∧ canon b = b - 0x2000) ∨ (¬ (0xe000 ≤ b ∧ b < 0xfe00) ∧ canon b = b) := by
  by_cases h : 0xe000 ≤ b ∧ b < 0xfe00
  · exact Or.inl ⟨h.1, h.2, by simp only [canon, if_pos h]⟩
  · exact Or.inr ⟨h, by simp only [canon, if_neg h]⟩

private theorem canon_scope {b : Nat} (hb : inScope b) : inScope (canon b) := by
  simp only [inScope, cartAddr, apuAddr] at hb ⊢
  rcases canon_cases b with ⟨h1, h2, e⟩ | ⟨h, e⟩ <;> rw [e] <;> omega

private theorem rule_canon (a : Nat) : ruleOf (canon a) = ruleOf a := by
  rcases canon_cases a with ⟨h1, h2, e⟩ | ⟨h, e⟩
  · rw [e, plain_rule (by simp only [plainAddr]; omega), plain_rule (by simp only [plainAddr]; omega)]
  · rw [e]

/-- what the start state reads at each cell -/
def initOf (s : Machine) (c : Nat) : Nat := (peek R s c).getD 0

/-- the reads of the model meet the expectations of the specification, one by one -/
def Agrees : List Nat → List Expect → Prop
  | [], [] => True
  | x :: xs, e :: es => e.holds x ∧ Agrees xs es
  | _, _ => False

/-- the simulation relation between the abstract map and a machine state -/
structure Rel (init : Nat → Nat) (x : Abs) (s : Machine) : Prop where
  rel : s.timer.reloading = false
  mode : s.ppu.mode < 4
  dma : x.dma = false → s.oam.dmaRunning = false
  cells : ∀ b, inScope b → ∃ r, peek R s b = some r ∧ (expect init x b).holds r

private theorem rel_start (s : Machine) (h1 : s.timer.reloading = false) (h2 : s.ppu.mode < 4)
    (h3 : s.oam.dmaRunning = false) : Rel (initOf s) Abs.start s := by
  refine ⟨h1, h2, fun _ => h3, fun b hb => ?_⟩
  obtain ⟨r, hr⟩ := c06_read_total s b hb
  refine ⟨r, hr, ?_⟩
  have : expect (initOf s) Abs.start b = .exact (initOf s (canon b)) := by
    simp only [expect, Abs.start, Bool.false_eq_true, false_and, if_false, cellExpect]
  rw [this]
  show r = initOf s (canon b)
  simp only [initOf, ← c06_echo_read, hr, Option.getD_some]

private theorem rel_read (init : Nat → Nat) (x : Abs) (s : Machine) (a : Nat) (h : Rel init x s) (ha : inScope a) :
    ∃ r s', busRead R s a = some (r, s') ∧ (expect init x a).holds r ∧ Rel init x s' := by
  obtain ⟨r, hr, hh⟩ := h.cells a ha
  refine ⟨r, readEff (route R a) s a, ?_, hh, ?_⟩
  · unfold busRead; unfold peek at hr; rw [hr]; rfl
  · have hk := fun b hb => read_keeps s (route R a) a b hb
    have hk0 := hk 0 (by omega)
    refine ⟨by rw [hk0.2.1]; exact h.rel, by rw [hk0.2.2.1]; exact h.mode,
      fun hx => by rw [hk0.2.2.2]; exact h.dma hx, fun b hb => ?_⟩
    rw [(hk b hb.1).1]
    exact h.cells b hb

private theorem rel_write (init : Nat → Nat) (x : Abs) (s : Machine) (a v : Nat) (h : Rel init x s) (ha : inScope a)
    (hv : v < 256) : ∃ s', busWrite W s a v = some s' ∧ Rel init (x.write a v) s' := by
  obtain ⟨s', hw⟩ := c06_write_total s a v ha hv h.rel h.mode
  have hinv := write_inv s s' a v ha.1 hw
  have hna : ¬ apuAddr a := ha.2.2
  refine ⟨s', hw, ⟨by rw [hinv.1]; exact h.rel, hinv.2.1 h.mode, fun hx => ?_, fun b hb => ?_⟩⟩
  · -- no transfer was started, now or before
    simp only [Abs.write, Bool.or_eq_false_iff, decide_eq_false_iff_not] at hx
    rw [hinv.2.2 hx.2]; exact h.dma hx.1
  · obtain ⟨r', hr'⟩ := c06_read_total s' b hb
    by_cases hA : (x.write a v).dma = true ∧ 0xfe00 ≤ b ∧ b < 0xff00
    · exact ⟨r', hr', by simp only [expect, if_pos hA]; trivial⟩
    · have hE : expect init (x.write a v) b
          = cellExpect init (canon b) (if canon b = canon a then .written v
              else if footprint a (canon b) then .unknown else x.cell (canon b)) := by
        unfold expect
        rw [if_neg hA]
        rfl
      rw [hE]
      by_cases hB1 : canon b = canon a
      · -- the written cell itself (through either of its addresses)
        rw [if_pos hB1]
        have hpk : peek R s' b = peek R s' a := by rw [c06_echo_read s' b, c06_echo_read s' a, hB1]
        have hready : Ready s a := by
          refine ⟨fun ho => ?_, fun _ => h.rel, fun _ => h.mode⟩
          have hbo : 0xfe00 ≤ b ∧ b < 0xff00 := by
            rcases canon_cases b with ⟨_, _, e1⟩ | ⟨_, e1⟩ <;> rcases canon_cases a with ⟨_, _, e2⟩ | ⟨_, e2⟩ <;> omega
          have hd : (x.write a v).dma = false := by
            cases hdd : (x.write a v).dma
            · rfl
            · exact absurd ⟨hdd, hbo⟩ hA
          simp only [Abs.write, Bool.or_eq_false_iff] at hd
          exact h.dma hd.1
        obtain ⟨s2, r, hw2, hp2, hh⟩ := c06_readback_all s a v ha hv hready
        rw [hw] at hw2; cases hw2
        refine ⟨r, by rw [hpk]; exact hp2, ?_⟩
        show (ruleOf (canon b)).holds v r
        rw [hB1, rule_canon]; exact hh
      · rw [if_neg hB1]
        by_cases hB2 : footprint a (canon b)
        · rw [if_pos hB2]; exact ⟨r', hr', trivial⟩
        · -- untouched: same expectation as before, and the frame lemma says it reads the same
          rw [if_neg hB2]
          have hcb := canon_scope hb
          have hfr : peek R s' b = peek R s b := by
            rw [c06_echo_read s' b, c06_echo_read s b]
            exact frame s s' a v (canon b) ha.1 hcb.1 hna hw hB2
          obtain ⟨r, hr, hh⟩ := h.cells b hb
          refine ⟨r, by rw [hfr]; exact hr, ?_⟩
          have hAold : ¬ (x.dma = true ∧ 0xfe00 ≤ b ∧ b < 0xff00) := by
            intro hc
            apply hA
            refine ⟨?_, hc.2⟩
            simp only [Abs.write, hc.1, Bool.true_or]
          simp only [expect, if_neg hAold] at hh
          exact hh

/-- per-operation simulation, by induction over the history -/
private theorem refines_aux (init : Nat → Nat) : ∀ (ops : List BusOp) (x : Abs) (s : Machine), Rel init x s →
    (∀ op ∈ ops, admissible op) →
    ∃ outs s', runOps R W s ops = some (outs, s') ∧ Agrees outs (reads init x ops) := by
  intro ops
  induction ops with
  | nil => intro x s _ _; exact ⟨[], s, rfl, trivial⟩
  | cons op ops ih =>
    intro x s h hall
    have hop := hall op (List.mem_cons_self ..)
    have hrest : ∀ o ∈ ops, admissible o := fun o ho => hall o (List.mem_cons_of_mem _ ho)
    cases op with
    | rd a =>
      obtain ⟨r, s1, hrd, hh, h1⟩ := rel_read init x s a h hop
      obtain ⟨outs, s2, hrun, hag⟩ := ih x s1 h1 hrest
      refine ⟨r :: outs, s2, ?_, ?_⟩
      · simp only [runOps, hrd, Option.bind_some, hrun, Option.map_some]
      · exact ⟨hh, hag⟩
    | wr a v =>
      obtain ⟨s1, hwr, h1⟩ := rel_write init x s a v h hop.1 hop.2
      obtain ⟨outs, s2, hrun, hag⟩ := ih (x.write a v) s1 h1 hrest
      refine ⟨outs, s2, ?_, hag⟩
      simp only [runOps, hwr, Option.bind_some, hrun]

/-- C06, history form.  For EVERY machine state with no OAM transfer running, outside the TIMA reload cycle and
    with a PPU mode in 0..3 (LCD on or off), and EVERY sequence of bus reads and writes to addresses outside
    the cartridge windows and FF10–FF3F (no clock ticks in between): no access panics, and every value read is
    the one the abstract map of the specification allows – the last value written to the cell behind the
    address (through either of its echo addresses), masked by the rule of the address; the start value if the
    cell was never written; anything if a later write had the cell in its documented footprint (C07), or for
    OAM once a transfer was started. -/
theorem c06_refines (s : Machine) (ops : List BusOp) (h1 : s.timer.reloading = false) (h2 : s.ppu.mode < 4)
    (h3 : s.oam.dmaRunning = false) (hops : ∀ op ∈ ops, admissible op) :
    ∃ outs s', runOps R W s ops = some (outs, s') ∧ Agrees outs (reads (initOf s) Abs.start ops) :=
  refines_aux (initOf s) ops Abs.start s (rel_start s h1 h2 h3) hops

/-! ### non-vacuity: a concrete machine and history meet the hypotheses, and the specification says
    something non-trivial about it -/

/-- the machine right after power-on with an all-zero 32 KiB ROM-only cartridge -/
def demo : Machine := powerOn (.none { rom := fun _ _ => 0, imgLen := 0x8000 }) false

/-- write WRAM, read it through the echo; write IF, read it; write STAT and OBP0, read them; touch DIV -/
def demoOps : List BusOp :=
  [.wr 0xc000 0x12, .rd 0xe000, .wr 0xff0f 0xff, .rd 0xff0f, .wr 0xff41 0xff, .rd 0xff41, .wr 0xff48 0xff,
   .rd 0xff48, .wr 0xff05 0x77, .wr 0xff04 0x55, .rd 0xff05, .rd 0xff04, .rd 0xff80]

example : demo.timer.reloading = false ∧ demo.ppu.mode < 4 ∧ demo.oam.dmaRunning = false
    ∧ (∀ op ∈ demoOps, admissible op) := by
  refine ⟨rfl, by decide, rfl, by decide⟩

/-- what the specification expects of the reads of that history: the echo read returns 12; IF reads
    (FF AND 1F) OR E0 on all bits; STAT (FF AND 78) OR 80 on bits 3-7; OBP0 on bits 2-7; TIMA is unspecified
    after the DIV write (falling edge); DIV reads 00; an untouched HRAM cell reads its start value -/
example : reads (fun c => c % 251) Abs.start demoOps =
    [.rule ⟨0xff, 0x00, 0xff⟩ 0x12, .rule (reg 0x1f 0xe0) 0xff, .rule (reg 0x78 0x80) 0xff, .rule (reg 0xfc 0x00) 0xff,
     .any, .rule ⟨0x00, 0x00, 0xff⟩ 0x55, .exact (0xff80 % 251)] := by
  decide +kernel

example : plainAddr 0xfe10 ∧ (0xfe00 ≤ 0xfe10 ∧ 0xfe10 < 0xff00 → demo.oam.dmaRunning = false) :=
  ⟨by decide, fun _ => rfl⟩
example : unmappedAddr 0xff03 ∧ unmappedAddr 0xff4d ∧ unmappedAddr 0xff7f ∧ ¬ unmappedAddr 0xff0f := by decide
example : ∀ e ∈ regTable, Ready demo e.1 := by
  intro e _
  exact ⟨fun _ => rfl, fun _ => rfl, fun _ => by decide⟩

end Tetro.C06
