import Tetro.Lemmas.BusBasic
import Tetro.Lemmas.Bits
import Tetro.Spec.BusSpec
/-
C06 – address space and I/O registers read back as on a DMG.

Statements are about the machine bus model `Model.Machine` behind the DOCUMENTED decoder arm lists
`expectedReadArms/expectedWriteArms` (= the arms regenerated from mapper.go, by `c06_arms`, Proofs/C06Decode,
re-checked on every run; = the region / register-table description of the memory map for all 65 536
addresses, by `c06_route_read/write`, Proofs/C06Route).  `peek R s a` is the value `Mapper.Read(a)` returns in
state `s`; `busWrite W s a v` is `Mapper.Write(a, v)` (`none` = Go panic).
Out of scope (other properties): the cartridge windows (C08/C09) and FF10–FF3F (C18; the APU is a stub in
the bus model).
-/
namespace Tetro.C06
open Tetro.Model.Decoder Tetro.Model.Machine Tetro.Model Tetro.BusRoute Tetro.BusBasic Tetro.Spec.BusSpec

/-! ### byte-level facts (kernel evaluation over all bytes) -/

private theorem b_ff : ∀ v < 256, v &&& 0xff = ((v &&& 0xff) ||| 0x00) &&& 0xff := by decide +kernel
private theorem b_id : ∀ v < 256, v &&& 0xff = v := by decide +kernel
private theorem b_zero : ∀ v < 256, 0 &&& 0xff = ((v &&& 0x00) ||| 0x00) &&& 0xff := by decide +kernel
private theorem b_ones : ∀ v < 256, 0xff &&& 0xff = ((v &&& 0x00) ||| 0xff) &&& 0xff := by decide +kernel
private theorem b_if : ∀ v < 256, (0xe0 + v % 32) &&& 0xff = ((v &&& 0x1f) ||| 0xe0) &&& 0xff := by
  decide +kernel
private theorem b_tac : ∀ v < 256, (v % 8 + 0xf8) &&& 0xff = ((v &&& 0x07) ||| 0xf8) &&& 0xff := by
  decide +kernel
private theorem b_lcdc : ∀ v < 256, (if v.testBit 7 = true then 128 else 0) + v % 128 = v := by decide +kernel
private theorem b_pal : ∀ v < 256, palRead (palWrite v) = v := by decide +kernel
private theorem b_opal : ∀ v < 256, ∀ c0 : Nat,
    objPalRead { c0 := c0, c1 := (v >>> 2) &&& 0x03, c2 := (v >>> 4) &&& 0x03, c3 := (v >>> 6) &&& 0x03 } &&& 0xfc
      = ((v &&& 0xfc) ||| 0x00) &&& 0xfc := by
  intro v hv c0
  have : ∀ v < 256, ((((v >>> 6) &&& 0x03) <<< 6) % 256 + (((v >>> 4) &&& 0x03) <<< 4) % 256
      + (((v >>> 2) &&& 0x03) <<< 2) % 256) % 256 &&& 0xfc = ((v &&& 0xfc) ||| 0x00) &&& 0xfc := by decide +kernel
  exact this v hv
private theorem b_stat : ∀ v < 256, ∀ c : Bool, ∀ m < 4,
    ((128 + (if v.testBit 6 = true then 64 else 0) + (if v.testBit 5 = true then 32 else 0)
      + (if v.testBit 4 = true then 16 else 0) + (if v.testBit 3 = true then 8 else 0)
      + (if c = true then 4 else 0) + m) % 256) &&& 0xf8 = ((v &&& 0x78) ||| 0x80) &&& 0xf8 := by decide +kernel
private theorem b_j2 : ∀ a < 256, ∀ b < 16, (a ||| b) &&& 0xf0 = a &&& 0xf0 := by decide +kernel
private theorem b_j3 : ∀ v < 256, ((v &&& 0x30) ||| 0xc0) < 256 := by decide +kernel

/-! ### ordinary memory -/

private theorem wr_vram (s : Machine) (a v : Nat) (h1 : 0x8000 ≤ a) (h2 : a < 0xa000) :
    ∃ s', busWrite W s a v = some s' ∧ peek R s' a = some v := by
  have hi : Oam.sub16 a 0x8000 < 0x2000 := by rw [sub16_eq h1 (by omega)]; omega
  refine ⟨{ s with vram := s.vram.set (Oam.sub16 a 0x8000) v hi }, ?_, ?_⟩
  · simp only [busWrite, rW_vram h1 h2, writeH, stv_eq hi, Option.map_some]
  · simp only [peek, rR_vram h1 h2, readVal, ldv_set_self]

private theorem wr_wram (s : Machine) (a v : Nat) (h1 : 0xc000 ≤ a) (h2 : a < 0xe000) :
    ∃ s', busWrite W s a v = some s' ∧ peek R s' a = some v := by
  have hi : Oam.sub16 a 0xc000 < 0x2000 := by rw [sub16_eq h1 (by omega)]; omega
  refine ⟨{ s with wram := s.wram.set (Oam.sub16 a 0xc000) v hi }, ?_, ?_⟩
  · simp only [busWrite, rW_wram h1 h2, writeH, stv_eq hi, Option.map_some]
  · simp only [peek, rR_wram h1 h2, readVal, ldv_set_self]

private theorem wr_echo (s : Machine) (a v : Nat) (h1 : 0xe000 ≤ a) (h2 : a < 0xfe00) :
    ∃ s', busWrite W s a v = some s' ∧ peek R s' a = some v := by
  have hi : Oam.sub16 a 0xe000 < 0x2000 := by rw [sub16_eq h1 (by omega)]; omega
  refine ⟨{ s with wram := s.wram.set (Oam.sub16 a 0xe000) v hi }, ?_, ?_⟩
  · simp only [busWrite, rW_echo h1 h2, writeH, stv_eq hi, Option.map_some]
  · simp only [peek, rR_echo h1 h2, readVal, ldv_set_self]

private theorem wr_hram (s : Machine) (a v : Nat) (h1 : 0xff80 ≤ a) (h2 : a < 0xffff) :
    ∃ s', busWrite W s a v = some s' ∧ peek R s' a = some v := by
  have hi : Oam.sub16 a 0xff80 < 0x8f := by rw [sub16_eq h1 (by omega)]; omega
  refine ⟨{ s with hram := s.hram.set (Oam.sub16 a 0xff80) v hi }, ?_, ?_⟩
  · simp only [busWrite, rW_hram h1 h2, writeH, stv_eq hi, Option.map_some]
  · simp only [peek, rR_hram h1 h2, readVal, ldv_set_self]

private theorem wr_ie (s : Machine) (v : Nat) :
    ∃ s', busWrite W s 0xffff v = some s' ∧ peek R s' 0xffff = some v :=
  ⟨{ s with intr := s.intr.writeIE v }, by
    simp only [busWrite, rW_ie, writeH], by
    simp only [peek, rR_ie, readVal, Intr.readIE, Intr.writeIE]⟩

/-- a read of an echo address returns what its work-RAM address returns, in every state -/
theorem peek_canon (s : Machine) (a : Nat) : peek R s a = peek R s (canon a) := by
  by_cases h : 0xe000 ≤ a ∧ a < 0xfe00
  · have hc : canon a = a - 0x2000 := by simp only [canon, if_pos h]
    have h1 : Oam.sub16 a 0xe000 = a - 0xe000 := sub16_eq h.1 (by omega)
    have h2 : Oam.sub16 (a - 0x2000) 0xc000 = a - 0xe000 := by
      rw [sub16_eq (by omega) (by omega)]; omega
    rw [hc]
    unfold peek
    rw [rR_echo h.1 h.2, rR_wram (a := a - 0x2000) (by omega) (by omega)]
    simp only [readVal]
    rw [h1, h2]
  · have hc : canon a = a := by simp only [canon, if_neg h]
    rw [hc]

/-! ### OAM -/

private theorem toNat16 {a : Nat} (h : a < 65536) : (BitVec.ofNat 16 a).toNat = a := by
  rw [BitVec.toNat_ofNat]; exact Nat.mod_eq_of_lt (by omega)
private theorem toNat8 {v : Nat} (h : v < 256) : (BitVec.ofNat 8 v).toNat = v := by
  rw [BitVec.toNat_ofNat]; exact Nat.mod_eq_of_lt (by omega)

/-- the value part of `oam.Read` -/
theorem oam_read_val (o : Oam.Oam) (a : Nat) (h1 : 0xfe00 ≤ a) (h2 : a < 0xff00) :
    (Oam.cpuRead o (BitVec.ofNat 16 a)).map (fun p => p.2.toNat)
      = some (if o.dmaRunning then 0xff
              else if h : a - 0xfe00 < 160 then (o.oam[a - 0xfe00]).toNat else 0) := by
  have ht := toNat16 (a := a) (by omega)
  obtain ⟨p, hp, hv⟩ := Oam.cpuRead_value (s := o) (a := BitVec.ofNat 16 a) (by omega) (by omega)
  rw [hp, Option.map_some, hv]
  simp only [ht]
  split
  · rfl
  · split <;> rfl

private theorem wr_oam (s : Machine) (a v : Nat) (h1 : 0xfe00 ≤ a) (h2 : a < 0xfea0) (hv : v < 256)
    (hd : s.oam.dmaRunning = false) :
    ∃ s', busWrite W s a v = some s' ∧ peek R s' a = some v := by
  have ht := toNat16 (a := a) (by omega)
  have hi : a - 0xfe00 < 160 := by omega
  have hidx : Oam.sub16 a 0xfe00 = a - 0xfe00 := sub16_eq h1 (by omega)
  have hw : Oam.cpuWrite s.oam (BitVec.ofNat 16 a) (BitVec.ofNat 8 v)
      = some { Oam.writeFlags s.oam with oam := s.oam.oam.set (a - 0xfe00) (BitVec.ofNat 8 v) hi } := by
    simp only [Oam.cpuWrite, ht, if_pos h2, Oam.writeFlags_oam, hidx, Oam.st_eq hi, Option.map_some]
  refine ⟨_, by simp only [busWrite, rW_oam h1 (by omega), writeH, hw, Option.map_some]; rfl, ?_⟩
  simp only [peek, rR_oam h1 (by omega), readVal]
  rw [oam_read_val _ a h1 (by omega)]
  have hd' : (Oam.writeFlags s.oam).dmaRunning = false := by
    unfold Oam.writeFlags; split
    · split <;> exact hd
    · exact hd
  simp only [hd', Bool.false_eq_true, if_false, dif_pos hi, Vector.getElem_set_self, toNat8 hv]

private theorem wr_unusable (s : Machine) (a v : Nat) (h1 : 0xfea0 ≤ a) (h2 : a < 0xff00)
    (hd : s.oam.dmaRunning = false) :
    ∃ s', busWrite W s a v = some s' ∧ peek R s' a = some 0 := by
  have ht := toNat16 (a := a) (by omega)
  have hw : Oam.cpuWrite s.oam (BitVec.ofNat 16 a) (BitVec.ofNat 8 v) = some (Oam.writeFlags s.oam) := by
    simp only [Oam.cpuWrite, ht, if_neg (show ¬ a < 0xfea0 by omega)]
  refine ⟨_, by simp only [busWrite, rW_oam (by omega) h2, writeH, hw, Option.map_some]; rfl, ?_⟩
  simp only [peek, rR_oam (by omega) h2, readVal]
  rw [oam_read_val _ a (by omega) h2]
  have hd' : (Oam.writeFlags s.oam).dmaRunning = false := by
    unfold Oam.writeFlags; split
    · split <;> exact hd
    · exact hd
  simp only [hd', Bool.false_eq_true, if_false, dif_neg (show ¬ a - 0xfe00 < 160 by omega)]

/-! ### registers: write `v`, read back (one lemma per register; `Rule.holds` = the table's statement) -/

/-- what the specification's rule for address `a` says about writing `v` in state `s` and reading `a` back -/
def ReadsBack (s : Machine) (a v : Nat) : Prop :=
  ∃ s' r, busWrite W s a v = some s' ∧ peek R s' a = some r ∧ (ruleOf a).holds v r

private theorem joyp_read_hi (c : Joyp.Ctl) :
    (Joyp.read c).toNat &&& 0xf0 = ((c.joyp.toNat &&& 0x30) ||| 0xc0) &&& 0xf0 := by
  obtain ⟨n, hn⟩ : ∃ n : BitVec 8, Joyp.read c = (c.joyp &&& 0x30) ||| (n &&& 0x0f) ||| 0xc0 := ⟨_, rfl⟩
  rw [hn]
  simp only [BitVec.toNat_or, BitVec.toNat_and]
  have e : (0x30 : BitVec 8).toNat = 0x30 := by decide
  have e2 : (0x0f : BitVec 8).toNat = 0x0f := by decide
  have e3 : (0xc0 : BitVec 8).toNat = 0xc0 := by decide
  rw [e, e2, e3, Nat.or_assoc, Nat.or_comm (n.toNat &&& 0x0f), ← Nat.or_assoc]
  have hj : c.joyp.toNat < 256 := c.joyp.isLt
  exact b_j2 _ (b_j3 _ hj) _ (by have := Nat.and_le_right (n := n.toNat) (m := 0x0f); omega)

private theorem rb_joyp (s : Machine) (v : Nat) (hv : v < 256) : ReadsBack s 0xff00 v := by
  refine ⟨{ s with joyp := Joyp.write s.joyp (BitVec.ofNat 8 v) }, _, by simp only [busWrite, rW_joyp, writeH],
    by simp only [peek, rR_joyp, readVal]; rfl, ?_⟩
  rw [show ruleOf 0xff00 = reg 0x30 0xc0 from by decide +kernel]
  show _ &&& 0xf0 = ((v &&& 0x30) ||| 0xc0) &&& 0xf0
  rw [joyp_read_hi]
  simp only [Joyp.write, toNat8 hv]

private theorem rb_sb (s : Machine) (v : Nat) (hv : v < 256) : ReadsBack s 0xff01 v := by
  refine ⟨{ s with serial := Serial.writeSB s.serial (BitVec.ofNat 8 v) }, _,
    by simp only [busWrite, rW_sb, writeH], by simp only [peek, rR_sb, readVal]; rfl, ?_⟩
  rw [show ruleOf 0xff01 = reg 0x00 0xff from by decide +kernel]
  exact b_ones v hv

private theorem rb_sc (s : Machine) (v : Nat) (hv : v < 256) : ReadsBack s 0xff02 v := by
  refine ⟨s, _, by simp only [busWrite, rW_sc, writeH], by simp only [peek, rR_sc, readVal]; rfl, ?_⟩
  rw [show ruleOf 0xff02 = reg 0x00 0xff from by decide +kernel]
  exact b_ones v hv

/-- `checkFallingEdge` (hence `WriteDIV`, `WriteTAC`) leaves DIV's counter, TAC, TMA and the reload flag alone -/
theorem cfe_fields (t : Timer.T) :
    (Timer.checkFallingEdge t).counter = t.counter ∧ (Timer.checkFallingEdge t).tac = t.tac
    ∧ (Timer.checkFallingEdge t).tma = t.tma ∧ (Timer.checkFallingEdge t).reloading = t.reloading := by
  unfold Timer.checkFallingEdge Timer.increment
  split
  · split <;> exact ⟨rfl, rfl, rfl, rfl⟩
  · exact ⟨rfl, rfl, rfl, rfl⟩

private theorem rb_div (s : Machine) (v : Nat) (hv : v < 256) : ReadsBack s 0xff04 v := by
  refine ⟨{ s with timer := Timer.writeDIV s.timer }, _,
    by simp only [busWrite, rW_div, writeH], by simp only [peek, rR_div, readVal]; rfl, ?_⟩
  rw [show ruleOf 0xff04 = { writable := 0, forced := 0, care := 0xff } from by decide +kernel]
  have : Timer.readDIV (Timer.writeDIV s.timer) = 0 := by
    simp only [Timer.readDIV, Timer.writeDIV, Timer.reset, (cfe_fields _).1]
  show Timer.readDIV (Timer.writeDIV s.timer) &&& 0xff = _
  rw [this]
  exact b_zero v hv

private theorem rb_tima (s : Machine) (v : Nat) (hv : v < 256) (hr : s.timer.reloading = false) :
    ReadsBack s 0xff05 v := by
  refine ⟨{ s with timer := Timer.writeTIMA s.timer v }, _,
    by simp only [busWrite, rW_tima, writeH], by simp only [peek, rR_tima, readVal]; rfl, ?_⟩
  rw [show ruleOf 0xff05 = reg 0xff 0x00 from by decide +kernel]
  have : Timer.readTIMA (Timer.writeTIMA s.timer v) = v := by
    simp only [Timer.readTIMA, Timer.writeTIMA, hr, Bool.not_false, if_true]
  show Timer.readTIMA (Timer.writeTIMA s.timer v) &&& 0xff = _
  rw [this]
  exact b_ff v hv

private theorem rb_tma (s : Machine) (v : Nat) (hv : v < 256) : ReadsBack s 0xff06 v := by
  refine ⟨{ s with timer := Timer.writeTMA s.timer v }, _,
    by simp only [busWrite, rW_tma, writeH], by simp only [peek, rR_tma, readVal]; rfl, ?_⟩
  rw [show ruleOf 0xff06 = reg 0xff 0x00 from by decide +kernel]
  have : Timer.readTMA (Timer.writeTMA s.timer v) = v := by
    simp only [Timer.readTMA, Timer.writeTMA]; split <;> rfl
  show Timer.readTMA (Timer.writeTMA s.timer v) &&& 0xff = _
  rw [this]
  exact b_ff v hv

private theorem rb_tac (s : Machine) (v : Nat) (hv : v < 256) : ReadsBack s 0xff07 v := by
  refine ⟨{ s with timer := Timer.writeTAC s.timer v }, _,
    by simp only [busWrite, rW_tac, writeH], by simp only [peek, rR_tac, readVal]; rfl, ?_⟩
  rw [show ruleOf 0xff07 = reg 0x07 0xf8 from by decide +kernel]
  have : Timer.readTAC (Timer.writeTAC s.timer v) = v % 8 + 0xf8 := by
    simp only [Timer.readTAC, Timer.writeTAC, (cfe_fields _).2.1]
  show Timer.readTAC (Timer.writeTAC s.timer v) &&& 0xff = _
  rw [this]
  exact b_tac v hv

private theorem rb_if (s : Machine) (v : Nat) (hv : v < 256) : ReadsBack s 0xff0f v := by
  refine ⟨{ s with intr := s.intr.writeIF v }, _,
    by simp only [busWrite, rW_ifl, writeH], by simp only [peek, rR_ifl, readVal]; rfl, ?_⟩
  rw [show ruleOf 0xff0f = reg 0x1f 0xe0 from by decide +kernel]
  exact b_if v hv

/-- after `WriteLCDC(v)` the LCD is on exactly when bit 7 of `v` is set -/
theorem lcdc_enabled (p : Lcd.Ppu) (v : Nat) : (Lcd.wLCDC p v).enabled = v.testBit 7 := by
  simp only [Lcd.wLCDC, Lcd.lcdcSwitch, Lcd.enable, Lcd.disable]
  cases h1 : v.testBit 7 <;> cases h2 : p.enabled <;> simp [h2]

private theorem rb_lcdc (s : Machine) (v : Nat) (hv : v < 256) : ReadsBack s 0xff40 v := by
  refine ⟨{ s with ppu := Lcd.wLCDC s.ppu v, oam := oamAfterLcdc s.ppu (v.testBit 7) s.oam }, _,
    by simp only [busWrite, rW_lcdc, writeH], by simp only [peek, rR_lcdc, readVal]; rfl, ?_⟩
  rw [show ruleOf 0xff40 = reg 0xff 0x00 from by decide +kernel]
  have : Lcd.readLCDC (Lcd.wLCDC s.ppu v) = v := by
    have hl : (Lcd.wLCDC s.ppu v).lcdcLow = v % 128 := rfl
    simp only [Lcd.readLCDC, lcdc_enabled, hl]
    exact b_lcdc v hv
  show Lcd.readLCDC (Lcd.wLCDC s.ppu v) &&& 0xff = _
  rw [this]
  exact b_ff v hv

private theorem rb_stat (s : Machine) (v : Nat) (hv : v < 256) (hm : s.ppu.mode < 4) : ReadsBack s 0xff41 v := by
  refine ⟨{ s with ppu := Lcd.wSTAT s.ppu v }, _,
    by simp only [busWrite, rW_stat, writeH], by simp only [peek, rR_stat, readVal]; rfl, ?_⟩
  rw [show ruleOf 0xff41 = reg 0x78 0x80 from by decide +kernel]
  show Lcd.readSTAT (Lcd.wSTAT s.ppu v) &&& 0xf8 = ((v &&& 0x78) ||| 0x80) &&& 0xf8
  simp only [Lcd.readSTAT, Lcd.wSTAT]
  exact b_stat v hv s.ppu.coincidence s.ppu.mode hm

private theorem rb_scy (s : Machine) (v : Nat) (hv : v < 256) : ReadsBack s 0xff42 v := by
  refine ⟨{ s with regs := { s.regs with scy := v } }, _,
    by simp only [busWrite, rW_scy, writeH], by simp only [peek, rR_scy, readVal]; rfl, ?_⟩
  rw [show ruleOf 0xff42 = reg 0xff 0x00 from by decide +kernel]
  exact b_ff v hv

private theorem rb_scx (s : Machine) (v : Nat) (hv : v < 256) : ReadsBack s 0xff43 v := by
  refine ⟨{ s with regs := { s.regs with scx := v } }, _,
    by simp only [busWrite, rW_scx, writeH], by simp only [peek, rR_scx, readVal]; rfl, ?_⟩
  rw [show ruleOf 0xff43 = reg 0xff 0x00 from by decide +kernel]
  exact b_ff v hv

private theorem rb_ly (s : Machine) (v : Nat) : ReadsBack s 0xff44 v := by
  refine ⟨{ s with ppu := Lcd.wLY s.ppu v }, _,
    by simp only [busWrite, rW_ly, writeH], by simp only [peek, rR_ly, readVal]; rfl, ?_⟩
  rw [show ruleOf 0xff44 = { writable := 0, forced := 0, care := 0 } from by decide +kernel]
  show _ &&& 0 = _ &&& 0
  simp only [Nat.and_zero]

private theorem rb_lyc (s : Machine) (v : Nat) (hv : v < 256) : ReadsBack s 0xff45 v := by
  refine ⟨{ s with ppu := Lcd.wLYC s.ppu v }, _,
    by simp only [busWrite, rW_lyc, writeH], by simp only [peek, rR_lyc, readVal]; rfl, ?_⟩
  rw [show ruleOf 0xff45 = reg 0xff 0x00 from by decide +kernel]
  show (v % 256) &&& 0xff = _
  rw [Nat.mod_eq_of_lt hv]
  exact b_ff v hv

private theorem rb_dma (s : Machine) (v : Nat) (hv : v < 256) : ReadsBack s 0xff46 v := by
  refine ⟨{ s with oam := Oam.writeDMA s.oam (BitVec.ofNat 8 v) }, _,
    by simp only [busWrite, rW_dma, writeH], by simp only [peek, rR_dma, readVal]; rfl, ?_⟩
  rw [show ruleOf 0xff46 = reg 0xff 0x00 from by decide +kernel]
  show (Oam.readDMA (Oam.writeDMA s.oam (BitVec.ofNat 8 v))).toNat &&& 0xff = _
  have : Oam.readDMA (Oam.writeDMA s.oam (BitVec.ofNat 8 v)) = BitVec.ofNat 8 v := rfl
  rw [this, toNat8 hv]
  exact b_ff v hv

private theorem rb_bgp (s : Machine) (v : Nat) (hv : v < 256) : ReadsBack s 0xff47 v := by
  refine ⟨{ s with regs := { s.regs with bgp := palWrite v } }, _,
    by simp only [busWrite, rW_bgp, writeH], by simp only [peek, rR_bgp, readVal]; rfl, ?_⟩
  rw [show ruleOf 0xff47 = reg 0xff 0x00 from by decide +kernel]
  show palRead (palWrite v) &&& 0xff = _
  rw [b_pal v hv]
  exact b_ff v hv

private theorem rb_obp0 (s : Machine) (v : Nat) (hv : v < 256) : ReadsBack s 0xff48 v := by
  refine ⟨{ s with regs := { s.regs with obp0 := objPalWrite s.regs.obp0 v } }, _,
    by simp only [busWrite, rW_obp0, writeH], by simp only [peek, rR_obp0, readVal]; rfl, ?_⟩
  rw [show ruleOf 0xff48 = reg 0xfc 0x00 from by decide +kernel]
  exact b_opal v hv s.regs.obp0.c0

private theorem rb_obp1 (s : Machine) (v : Nat) (hv : v < 256) : ReadsBack s 0xff49 v := by
  refine ⟨{ s with regs := { s.regs with obp1 := objPalWrite s.regs.obp1 v } }, _,
    by simp only [busWrite, rW_obp1, writeH], by simp only [peek, rR_obp1, readVal]; rfl, ?_⟩
  rw [show ruleOf 0xff49 = reg 0xfc 0x00 from by decide +kernel]
  exact b_opal v hv s.regs.obp1.c0

private theorem rb_wy (s : Machine) (v : Nat) (hv : v < 256) : ReadsBack s 0xff4a v := by
  refine ⟨{ s with regs := { s.regs with wy := v } }, _,
    by simp only [busWrite, rW_wy, writeH], by simp only [peek, rR_wy, readVal]; rfl, ?_⟩
  rw [show ruleOf 0xff4a = reg 0xff 0x00 from by decide +kernel]
  exact b_ff v hv

private theorem rb_wx (s : Machine) (v : Nat) (hv : v < 256) : ReadsBack s 0xff4b v := by
  refine ⟨{ s with regs := { s.regs with wx := v } }, _,
    by simp only [busWrite, rW_wx, writeH], by simp only [peek, rR_wx, readVal]; rfl, ?_⟩
  rw [show ruleOf 0xff4b = reg 0xff 0x00 from by decide +kernel]
  exact b_ff v hv

/-! ### every address in scope -/

private theorem io_cases : ∀ k < 128,
    0xff00 + k = 0xff00 ∨ 0xff00 + k = 0xff01 ∨ 0xff00 + k = 0xff02 ∨ 0xff00 + k = 0xff04 ∨ 0xff00 + k = 0xff05
    ∨ 0xff00 + k = 0xff06 ∨ 0xff00 + k = 0xff07 ∨ 0xff00 + k = 0xff0f ∨ 0xff00 + k = 0xff40 ∨ 0xff00 + k = 0xff41
    ∨ 0xff00 + k = 0xff42 ∨ 0xff00 + k = 0xff43 ∨ 0xff00 + k = 0xff44 ∨ 0xff00 + k = 0xff45 ∨ 0xff00 + k = 0xff46
    ∨ 0xff00 + k = 0xff47 ∨ 0xff00 + k = 0xff48 ∨ 0xff00 + k = 0xff49 ∨ 0xff00 + k = 0xff4a ∨ 0xff00 + k = 0xff4b
    ∨ unmappedAddr (0xff00 + k) ∨ apuAddr (0xff00 + k) := by decide +kernel

private theorem unmapped_facts : ∀ k < 128, unmappedAddr (0xff00 + k) →
    route R (0xff00 + k) = .ff ∧ route W (0xff00 + k) = .ignore
    ∧ ruleOf (0xff00 + k) = { writable := 0x00, forced := 0xff, care := 0xff } := by decide +kernel

/-- preconditions on the state for the read-back at `a`: no OAM transfer running (OAM), outside the TIMA
    reload cycle (TIMA), a PPU mode in 0..3 (STAT; every reachable state has it) -/
def Ready (s : Machine) (a : Nat) : Prop :=
  (0xfe00 ≤ a ∧ a < 0xff00 → s.oam.dmaRunning = false) ∧ (a = 0xff05 → s.timer.reloading = false)
  ∧ (a = 0xff41 → s.ppu.mode < 4)

private theorem plain_rule {a : Nat} (h : plainAddr a) :
    ruleOf a = { writable := 0xff, forced := 0x00, care := 0xff } := by
  simp only [ruleOf, if_pos h]

private theorem plain_holds {a v : Nat} (h : plainAddr a) (hv : v < 256) : (ruleOf a).holds v v := by
  rw [plain_rule h]; exact b_ff v hv

/-- MASTER read-back lemma: for EVERY address in scope, writing `v` and reading the address back gives what
    the documentation-shaped rule of that address says -/
theorem readback_all (s : Machine) (a v : Nat) (ha : inScope a) (hv : v < 256) (hr : Ready s a) :
    ReadsBack s a v := by
  obtain ⟨hlt, hnc, hna⟩ := ha
  simp only [cartAddr, apuAddr] at hnc hna
  by_cases c1 : a < 0xa000
  · obtain ⟨s', hw, hp⟩ := wr_vram s a v (by omega) c1
    exact ⟨s', v, hw, hp, plain_holds (by simp only [plainAddr]; omega) hv⟩
  by_cases c2 : a < 0xe000
  · obtain ⟨s', hw, hp⟩ := wr_wram s a v (by omega) c2
    exact ⟨s', v, hw, hp, plain_holds (by simp only [plainAddr]; omega) hv⟩
  by_cases c3 : a < 0xfe00
  · obtain ⟨s', hw, hp⟩ := wr_echo s a v (by omega) c3
    exact ⟨s', v, hw, hp, plain_holds (by simp only [plainAddr]; omega) hv⟩
  by_cases c4 : a < 0xfea0
  · obtain ⟨s', hw, hp⟩ := wr_oam s a v (by omega) c4 hv (hr.1 (by omega))
    exact ⟨s', v, hw, hp, plain_holds (by simp only [plainAddr]; omega) hv⟩
  by_cases c5 : a < 0xff00
  · obtain ⟨s', hw, hp⟩ := wr_unusable s a v (by omega) c5 (hr.1 (by omega))
    refine ⟨s', 0, hw, hp, ?_⟩
    have : ruleOf a = { writable := 0x00, forced := 0x00, care := 0xff } := by
      simp only [ruleOf, if_neg (show ¬ plainAddr a by simp only [plainAddr]; omega),
        if_pos (show 0xfea0 ≤ a ∧ a < 0xff00 by omega)]
    rw [this]; exact b_zero v hv
  by_cases c6 : a < 0xff80
  · obtain ⟨k, rfl⟩ : ∃ k, a = 0xff00 + k := ⟨a - 0xff00, by omega⟩
    have hk : k < 128 := by omega
    rcases io_cases k hk with e | e | e | e | e | e | e | e | e | e | e | e | e | e | e | e | e | e | e | e | e | e
    · rw [e]; exact rb_joyp s v hv
    · rw [e]; exact rb_sb s v hv
    · rw [e]; exact rb_sc s v hv
    · rw [e]; exact rb_div s v hv
    · rw [e]; exact rb_tima s v hv (hr.2.1 e)
    · rw [e]; exact rb_tma s v hv
    · rw [e]; exact rb_tac s v hv
    · rw [e]; exact rb_if s v hv
    · rw [e]; exact rb_lcdc s v hv
    · rw [e]; exact rb_stat s v hv (hr.2.2 e)
    · rw [e]; exact rb_scy s v hv
    · rw [e]; exact rb_scx s v hv
    · rw [e]; exact rb_ly s v
    · rw [e]; exact rb_lyc s v hv
    · rw [e]; exact rb_dma s v hv
    · rw [e]; exact rb_bgp s v hv
    · rw [e]; exact rb_obp0 s v hv
    · rw [e]; exact rb_obp1 s v hv
    · rw [e]; exact rb_wy s v hv
    · rw [e]; exact rb_wx s v hv
    · obtain ⟨h1, h2, h3⟩ := unmapped_facts k hk e
      refine ⟨s, 0xff, by simp only [busWrite, h2, writeH], by simp only [peek, h1, readVal], ?_⟩
      rw [h3]; exact b_ones v hv
    · simp only [apuAddr] at e; omega
  by_cases c7 : a < 0xffff
  · obtain ⟨s', hw, hp⟩ := wr_hram s a v (by omega) c7
    exact ⟨s', v, hw, hp, plain_holds (by simp only [plainAddr]; omega) hv⟩
  · have e : a = 0xffff := by omega
    rw [e]
    obtain ⟨s', hw, hp⟩ := wr_ie s v
    exact ⟨s', v, hw, hp, plain_holds (by decide) hv⟩

end Tetro.C06
