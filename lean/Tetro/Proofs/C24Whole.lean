import Tetro.Model.Whole
import Tetro.Proofs.C24
import Tetro.Proofs.C25
/-
C24 / C25 instantiated with the whole-machine model (`Model.Whole`).

The generic theorems of Proofs/C24.lean and Proofs/C25.lean speak about ANY state type and step function.  Here the
state is the whole machine, a frame is 17 556 machine cycles preceded by the button events of that frame, and an
emulator process is a family of such machines.  Because the model is a pure function these are instantiations, not
new arguments; what ties them to the Go program is (a) the regenerated facts of C24/C25 (no mutable package-level
state, no non-deterministic imports, the known goroutine sites) and (b) the whole-machine co-simulation (mode prog,
with decoy machines in the same process) and the `multi` comparisons (again / sub-process / pair / conc / after).
-/
namespace Tetro.C24Whole
open Tetro.Model Tetro.Model.Whole

/-- the inputs of one frame: the button events applied before it (button number, pressed) -/
abbrev FrameInput := List (Nat × Bool)

/-- one emulated frame: the button events of the frame, then 17 556 machine cycles -/
def frameStep (inp : FrameInput) (w : Whole) : Whole :=
  Whole.frame (inp.foldl (fun acc e => acc.button e.1 e.2) w)

/-- **C24 on the whole machine.**  Two runs of the same constructed machine with input schedules that agree on the
    first n frames end in the same machine state (registers, memory, cartridge RAM, serial log, frame buffer,
    emitted samples are all fields of `Whole`). -/
theorem c24_whole (img : Cart.Image) (wr au : Bool) (w0 : Whole) (_hc : Whole.construct img wr au = some w0)
    (inp inp' : Nat → FrameInput) (n : Nat) (h : ∀ k, k < n → inp k = inp' k) :
    Tetro.C24.runFrames frameStep inp n 0 w0 = Tetro.C24.runFrames frameStep inp' n 0 w0 :=
  Tetro.C24.c24_function_of_inputs frameStep inp inp' n w0 h

/-- construction itself is a function of the image and the configuration -/
theorem c24_whole_construct (img : Cart.Image) (wr au : Bool) (w w' : Whole)
    (h : Whole.construct img wr au = some w) (h' : Whole.construct img wr au = some w') : w = w' := by
  rw [h] at h'; exact Option.some.inj h'

/-- **C25 on the whole machine.**  A process holding a family of machines, stepped one machine cycle at a time in
    ANY interleaving: machine i ends exactly where it ends alone after as many cycles as the schedule gave it. -/
theorem c25_whole (sched : List Nat) (ws : Nat → Whole) (i : Nat) :
    Tetro.C25.runSchedule (fun _ => Whole.cycle) sched ws i = Whole.run (sched.count i) (ws i) := by
  rw [Tetro.C25.c25_any_interleaving]
  generalize sched.count i = n
  generalize ws i = w
  induction n generalizing w with
  | zero => rfl
  | succ k ih => simp only [Tetro.C25.iter]; rw [ih]; rfl

/-- stepping another machine never changes this one -/
theorem c25_whole_frame (i j : Nat) (h : j ≠ i) (ws : Nat → Whole) :
    Tetro.C25.stepAt Whole.cycle i ws j = ws j := Tetro.C25.c25_frame Whole.cycle i j h ws

end Tetro.C24Whole
