import Tetro.Lemmas.ApuClk
import Tetro.Lemmas.ApuStatus
/-
How a status bit can fall during one clock (C19): the triple (enabled, lengthEnable, length) of each
channel is changed only by `tickLength` (on length clocks) and – channel 1 – by `tickSweep`.
-/
namespace Tetro.Model.Apu

def Square.lt (s : Square) : Bool × Bool × Nat := (s.enabled, s.lengthEnable, s.length)
def Wave.lt (w : Wave) : Bool × Bool × Nat := (w.enabled, w.lengthEnable, w.length)
def Noise.lt (n : Noise) : Bool × Bool × Nat := (n.enabled, n.lengthEnable, n.length)

/-- the fields the sweep unit's overflow check reads -/
def Square.swp (s : Square) : Bool × Bool × Nat × Nat × Nat × Nat :=
  (s.sweepEnabled, s.sweepIncrease, s.sweepShift, s.shadowFrequency, s.sweepTimer, s.sweepPeriod)

namespace Square
theorem lt_tickTimer (s : Square) : s.tickTimer.lt = s.lt := by frame_tac [tickTimer, lt]
theorem lt_tickVolumeEnvelope (s : Square) : s.tickVolumeEnvelope.lt = s.lt := by frame_tac [tickVolumeEnvelope, lt]
theorem swp_tickTimer (s : Square) : s.tickTimer.swp = s.swp := by frame_tac [tickTimer, swp]
theorem swp_tickVolumeEnvelope (s : Square) : s.tickVolumeEnvelope.swp = s.swp := by frame_tac [tickVolumeEnvelope, swp]
theorem swp_tickLength (s : Square) : s.tickLength.swp = s.swp := by frame_tac [tickLength, swp]
theorem lt_tickLength_congr (s t : Square) (h : s.lt = t.lt) : s.tickLength.lt = t.tickLength.lt := by
  simp only [lt, Prod.mk.injEq] at h
  simp only [tickLength, lt, h.1, h.2.1, h.2.2]
  repeat' split
  all_goals (first | rfl | simp only [h.1, h.2.1, h.2.2])
/-- `tickSweep` touches the length fields never and the status bit only downwards -/
theorem lt_tickSweep (s : Square) : s.tickSweep.lt.2 = s.lt.2 := by
  have := lenPair_tickSweep s
  simp only [lenPair, Prod.mk.injEq] at this
  simp only [lt, this.1, this.2]
end Square

namespace Wave
theorem lt_tickTimer (w : Wave) : w.tickTimer.lt = w.lt := by frame_tac [tickTimer, lt]
theorem lt_tickLength_congr (s t : Wave) (h : s.lt = t.lt) : s.tickLength.lt = t.tickLength.lt := by
  simp only [lt, Prod.mk.injEq] at h
  simp only [tickLength, lt, h.1, h.2.1, h.2.2]
  repeat' split
  all_goals (first | rfl | simp only [h.1, h.2.1, h.2.2])
end Wave

namespace Noise
theorem lt_tickTimer (n : Noise) : n.tickTimer.lt = n.lt := by frame_tac [tickTimer, lt]
theorem lt_tickVolumeEnvelope (n : Noise) : n.tickVolumeEnvelope.lt = n.lt := by frame_tac [tickVolumeEnvelope, lt]
theorem lt_tickLength_congr (s t : Noise) (h : s.lt = t.lt) : s.tickLength.lt = t.tickLength.lt := by
  simp only [lt, Prod.mk.injEq] at h
  simp only [tickLength, lt, h.1, h.2.1, h.2.2]
  repeat' split
  all_goals (first | rfl | simp only [h.1, h.2.1, h.2.2])
end Noise

namespace Apu

/-- (enabled, lengthEnable, length) of channels 2, 3, 4 -/
def lts (a : Apu) : (Bool × Bool × Nat) × (Bool × Bool × Nat) × (Bool × Bool × Nat) := (a.ch2.lt, a.ch3.lt, a.ch4.lt)
def ltsClocked (a : Apu) : (Bool × Bool × Nat) × (Bool × Bool × Nat) × (Bool × Bool × Nat) :=
  (a.ch2.tickLength.lt, a.ch3.tickLength.lt, a.ch4.tickLength.lt)

theorem ltsClocked_congr (a b : Apu) (h : a.lts = b.lts) : a.ltsClocked = b.ltsClocked := by
  simp only [lts, Prod.mk.injEq] at h
  unfold ltsClocked
  rw [Square.lt_tickLength_congr _ _ h.1, Wave.lt_tickLength_congr _ _ h.2.1, Noise.lt_tickLength_congr _ _ h.2.2]

theorem lts_tickTimer (a : Apu) : a.tickTimer.lts = a.lts := by
  simp only [tickTimer, lts]
  repeat' split
  all_goals simp only [Square.lt_tickTimer, Wave.lt_tickTimer, Noise.lt_tickTimer]
theorem lts_lenPart (a : Apu) : a.lenPart.lts = if a.frameSeqTicks % 2 = 0 then a.ltsClocked else a.lts := by
  unfold lenPart; split <;> rfl
theorem lts_envPart (a : Apu) : a.envPart.lts = a.lts := by
  unfold envPart; split
  · simp only [lts, Square.lt_tickVolumeEnvelope, Noise.lt_tickVolumeEnvelope]
  · rfl
theorem lts_sweepPart (a : Apu) : a.sweepPart.lts = a.lts := by unfold sweepPart; split <;> rfl
theorem lts_incFs (a : Apu) : a.incFs.lts = a.lts := rfl
theorem lts_incTicks (a : Apu) : a.incTicks.lts = a.lts := rfl
theorem lts_wrapFs (a : Apu) : a.wrapFs.lts = a.lts := by unfold wrapFs; split <;> rfl
theorem lts_takeSample (a : Apu) : a.takeSample.lts = a.lts := by
  simp only [takeSample, lts]; repeat' split
  all_goals rfl
theorem lts_samplerPart (a : Apu) : a.samplerPart.lts = a.lts := by
  unfold samplerPart; split
  · exact lts_takeSample a
  · rfl
theorem lts_frameSeqPart (a : Apu) :
    a.frameSeqPart.lts = if a.ticks % 8192 = 0 ∧ a.frameSeqTicks % 2 = 0 then a.ltsClocked else a.lts := by
  unfold frameSeqPart; rw [frameSeqPeriod_eq]
  by_cases c : a.ticks % 8192 = 0
  · rw [if_pos c]; unfold tickFrameSequencer
    rw [lts_wrapFs, lts_incFs, lts_sweepPart, lts_envPart, lts_lenPart]
    by_cases d : a.frameSeqTicks % 2 = 0
    · rw [if_pos d, if_pos ⟨c, d⟩]
    · rw [if_neg d, if_neg (fun x => d x.2)]
  · rw [if_neg c, if_neg (fun x => c x.1)]

/-- channels 2, 3, 4 after one clock: `tickLength` on length clocks, nothing else -/
theorem lts_tickClock (a : Apu) :
    a.tickClock.lts = if a.ticks % 8192 = 0 ∧ a.frameSeqTicks % 2 = 0 then a.ltsClocked else a.lts := by
  unfold tickClock
  rw [lts_incTicks, lts_samplerPart, lts_frameSeqPart, ltsClocked_congr _ _ (lts_tickTimer a), lts_tickTimer]
  have e : a.tickTimer.clk = a.clk := clk_tickTimer a
  simp only [clk, Prod.mk.injEq] at e
  rw [e.1, e.2]

/-! channel 1: the same plus the sweep clock -/

/-- uint64 `frameSeqTicks - 2` is a multiple of 4: the frame-sequencer steps 2 and 6 -/
def SweepStep (fs : Nat) : Prop := sub64 fs 2 % 4 = 0

theorem ch1_tickTimer (a : Apu) : a.tickTimer.ch1.lt = a.ch1.lt ∧ a.tickTimer.ch1.swp = a.ch1.swp := by
  simp only [tickTimer]; split
  · exact ⟨Square.lt_tickTimer _, Square.swp_tickTimer _⟩
  · exact ⟨rfl, rfl⟩

/-- channel 1 after the frame-sequencer part of a clock, as a function of the channel before it -/
def ch1Seq (s : Square) (fs : Nat) : Square :=
  let s1 := if fs % 2 = 0 then s.tickLength else s
  let s2 := if sub64 fs 7 % 8 = 0 then s1.tickVolumeEnvelope else s1
  if sub64 fs 2 % 4 = 0 then s2.tickSweep else s2

theorem wrapFs_ch1 (b : Apu) : b.wrapFs.ch1 = b.ch1 := by unfold wrapFs; split <;> rfl
theorem incFs_ch1 (b : Apu) : b.incFs.ch1 = b.ch1 := rfl

theorem ch1_tickFrameSequencer (a : Apu) : a.tickFrameSequencer.wrapFs.ch1 = ch1Seq a.ch1 a.frameSeqTicks := by
  rw [wrapFs_ch1]; unfold tickFrameSequencer
  rw [incFs_ch1]
  have hl : a.lenPart.ch1 = (if a.frameSeqTicks % 2 = 0 then a.ch1.tickLength else a.ch1) ∧ a.lenPart.frameSeqTicks = a.frameSeqTicks := by
    unfold lenPart; split <;> exact ⟨rfl, rfl⟩
  have he : ∀ b : Apu, b.envPart.ch1 = (if sub64 b.frameSeqTicks 7 % 8 = 0 then b.ch1.tickVolumeEnvelope else b.ch1) ∧
      b.envPart.frameSeqTicks = b.frameSeqTicks := by
    intro b; unfold envPart; split <;> exact ⟨rfl, rfl⟩
  have hs : ∀ b : Apu, b.sweepPart.ch1 = (if sub64 b.frameSeqTicks 2 % 4 = 0 then b.ch1.tickSweep else b.ch1) := by
    intro b; unfold sweepPart; split <;> rfl
  rw [hs, (he _).1, (he _).2, hl.1, hl.2]
  rfl

theorem ch1_tickClock (a : Apu) :
    a.tickClock.ch1 = if a.ticks % 8192 = 0 then ch1Seq a.tickTimer.ch1 a.frameSeqTicks else a.tickTimer.ch1 := by
  have e : a.tickClock.ch1 = a.tickTimer.frameSeqPart.ch1 := by
    unfold tickClock
    have e1 : ∀ b : Apu, b.incTicks.ch1 = b.ch1 := fun _ => rfl
    have e2 : ∀ b : Apu, b.samplerPart.ch1 = b.ch1 := by
      intro b; simp only [samplerPart, takeSample]; repeat' split
      all_goals rfl
    rw [e1, e2]
  rw [e]
  have hc : a.tickTimer.clk = a.clk := clk_tickTimer a
  simp only [clk, Prod.mk.injEq] at hc
  unfold frameSeqPart; rw [frameSeqPeriod_eq, hc.1]
  by_cases c : a.ticks % 8192 = 0
  · rw [if_pos c, if_pos c, ch1_tickFrameSequencer, hc.2]
  · rw [if_neg c, if_neg c]

end Apu
end Tetro.Model.Apu
