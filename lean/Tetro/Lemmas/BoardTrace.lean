import Tetro.Proofs.C17Whole
/-
Projection layer, helpers.  What a machine cycle of the whole-machine model (`Model/Whole.lean`) does to ONE
component of the machine record, in the component's own vocabulary:

  `cycle_fold`       (any bus) a projection of the bus state that reads / triggers / `Corrupt()` / IME and IF updates
                     leave alone and on which a write acts by `f` is, after `ExecuteMachineCycle`, the fold of `f`
                     over the ghost write log of the cycle (`Lemmas/GhostBus.lean`);
  `cpu_part_fold`    the same for a projection `π` of the machine record that does not look at the OAM unit or at
                     IF/IE/IME (`Frame π`), in terms of `cpuWrites w`;
  `end_cycle_shape`  the machine record at the end of a cycle the machine survives: the record after the CPU's part
                     with the LCD state stepped by `Lcd.tick`, the three requests raised in IF, the cartridge's clock
                     ticked, the timer stepped by `Timer.endCycle` (and SOME OAM unit);
  `board_write_timer`, `board_write_cart`, `board_write_joyp` : which bus writes reach the timer / the cartridge /
                     the joypad register, for all 65 536 addresses (companions of `board_write_oam/ppu`).
-/
namespace Tetro.BoardTrace
open Tetro.Model Tetro.Model.Decoder Tetro.Model.Machine Tetro.Model.Whole
open Tetro.BusRoute Tetro.WholeProofs Tetro.BoardOam Tetro.GhostBus Tetro.C17Whole Tetro.WholeNoCrash

/-! ### the CPU's part of a cycle, as a fold over its bus writes -/

section fold
variable {M : Type} [Cpu.Bus M] {X : Type} (π : M → X) (f : X → Cpu.Word × Cpu.Byte → X)
  (hr : ∀ m a, π (Cpu.Bus.read m a).2 = π m) (hw : ∀ m a v, π (Cpu.Bus.write m a v) = f (π m) (a, v))
  (ht : ∀ m a, π (Cpu.Bus.trigger m a) = π m) (hc : ∀ m, π (Cpu.Bus.corrupt m) = π m)
  (hi : ∀ m v, π (Cpu.Bus.setIme m v) = π m) (hf : ∀ m k, π (Cpu.Bus.clearIf m k) = π m)

include hr hw ht hc hi hf in
/-- a projection of the bus state that only writes change, after `ExecuteMachineCycle`: the fold of the write
    action over the ghost write log of the cycle, in order -/
theorem cycle_fold (t : Cpu.Tables) (c : Cpu.Cpu) (m : M) :
    π (Cpu.cycle t c m).2 = (Cpu.cycle t c ({ bus := m, wr := [] } : Ghost M)).2.wr.foldl f (π m) := by
  have key := Tetro.CpuBusInv.cycle_preserves (fun g : Ghost M => π g.bus = g.wr.foldl f (π m))
    (by intro g a hg
        show π (Cpu.Bus.read g.bus a).2 = g.wr.foldl f (π m)
        rw [hr]; exact hg)
    (by intro g a v hg
        show π (Cpu.Bus.write g.bus a v) = (g.wr ++ [(a, v)]).foldl f (π m)
        rw [hw, List.foldl_append, ← hg]; rfl)
    (by intro g a hg
        show π (Cpu.Bus.trigger g.bus a) = g.wr.foldl f (π m)
        rw [ht]; exact hg)
    (by intro g hg
        show π (Cpu.Bus.corrupt g.bus) = g.wr.foldl f (π m)
        rw [hc]; exact hg)
    (by intro g v hg
        show π (Cpu.Bus.setIme g.bus v) = g.wr.foldl f (π m)
        rw [hi]; exact hg)
    (by intro g k hg
        show π (Cpu.Bus.clearIf g.bus k) = g.wr.foldl f (π m)
        rw [hf]; exact hg)
    t c ({ bus := m, wr := [] } : Ghost M) rfl
  rw [(cycle_ghost t c ({ bus := m, wr := [] } : Ghost M)).2] at key
  exact key
end fold

/-- a projection of the machine record that does not look at the OAM unit or at the interrupt registers -/
structure Frame {X : Type} (π : Machine → X) : Prop where
  oam  : ∀ m o, π { m with oam := o } = π m
  intr : ∀ m i, π { m with intr := i } = π m

theorem frame_read {X : Type} (π : Machine → X) (hπ : Frame π) (b : Board) (a : Nat) : π (b.read a).2.m = π b.m := by
  rcases board_read_m b a with e | ⟨p, _, e⟩
  · rw [e]
  · rw [e]; exact hπ.oam _ _

theorem frame_corrupt {X : Type} (π : Machine → X) (hπ : Frame π) (b : Board) : π b.corrupt.m = π b.m := by
  rcases board_corrupt_m b with e | e | ⟨o, _, e⟩
  · rw [e]
  · rw [e]
  · rw [e]; exact hπ.oam _ _

/-- **the CPU's part of a cycle on one component**: `π` of the machine record after `cpu.ExecuteMachineCycle` is
    the fold of the component's write action over the bus writes of the cycle (`cpuWrites w`), in order -/
theorem cpu_part_fold {X : Type} (π : Machine → X) (hπ : Frame π) (f : X → Cpu.Word × Cpu.Byte → X)
    (hw : ∀ (b : Board) (a : Cpu.Word) (v : Cpu.Byte), π (b.write a.toNat v.toNat).m = f (π b.m) (a, v))
    (w : Whole) (hs : w.stopped = false) :
    π (afterCpu w).2.m = (cpuWrites w).foldl f (π w.b.m) := by
  have h := cycle_fold (M := Board) (fun b => π b.m) f
    (fun b a => frame_read π hπ b a.toNat) hw
    (fun b a => hπ.oam _ _) (fun b => frame_corrupt π hπ b)
    (fun b v => hπ.intr _ _) (fun b k => hπ.intr _ _) Cpu.Tables.gen w.cpu w.b
  unfold cpuWrites
  rw [hs]
  exact h

/-! ### which bus writes reach the timer, the cartridge, the joypad -/

/-- the timer after `Mapper.Write(a, v)` -/
def timerAfterWrite (t : Timer.T) (a v : Nat) : Timer.T :=
  if a = 0xFF04 then Timer.writeDIV t
  else if a = 0xFF05 then Timer.writeTIMA t v
  else if a = 0xFF06 then Timer.writeTMA t v
  else if a = 0xFF07 then Timer.writeTAC t v
  else t

/-- the joypad register after `Mapper.Write(a, v)` -/
def joypAfterWrite (j : Joyp.Ctl) (a v : Nat) : Joyp.Ctl :=
  if a = 0xFF00 then Joyp.write j (BitVec.ofNat 8 v) else j

/-- the cartridge after `Mapper.Write(a, v)` (unchanged if the controller's handler panics: the board then sets
    `crashed`) -/
def cartAfterWrite (c : Cart.Mbc) (a v : Nat) : Cart.Mbc := ((Cart.busWrite c a v).getD c)

private theorem gen_write (a : Nat) : wH a = route expectedWriteArms a := by
  unfold wH; rw [Tetro.C06.c06_arms.2]

private theorem sound_range {a : Nat} (h : soundAddr a = true) : 0xFF10 ≤ a ∧ a < 0xFF40 := by
  unfold soundAddr at h
  simp only [Bool.or_eq_true, Bool.and_eq_true, decide_eq_true_eq] at h
  omega

private theorem getD_map {α : Type} (x : Option α) (f : α → Machine) (m : Machine) (P : Machine → Prop)
    (hm : P m) (hf : ∀ y, P (f y)) : P ((x.map f).getD m) := by
  cases x
  · exact hm
  · exact hf _

private theorem cartAddr_iff (a : Nat) : Cart.cartAddr a = true ↔ (a < 0x8000 ∨ (0xa000 ≤ a ∧ a < 0xc000)) := by
  unfold Cart.cartAddr
  simp only [Bool.or_eq_true, Bool.and_eq_true, decide_eq_true_eq]

private theorem ignore_not_reg (a : Nat) (h : route expectedWriteArms a = .ignore) :
    a ≠ 0xFF00 ∧ a ≠ 0xFF04 ∧ a ≠ 0xFF05 ∧ a ≠ 0xFF06 ∧ a ≠ 0xFF07 := by
  refine ⟨?_, ?_, ?_, ?_, ?_⟩ <;> (intro e; subst e; revert h; decide)

private theorem writeH_parts (h : H) (m : Machine) (a v : Nat) (hh : route expectedWriteArms a = h)
    (hr : inRange false h a = true) :
    ((writeH h m a v).getD m).timer = timerAfterWrite m.timer a v ∧
    ((writeH h m a v).getD m).joyp = joypAfterWrite m.joyp a v ∧
    ((writeH h m a v).getD m).cart = cartAfterWrite m.cart a v := by
  have hcart : ¬ (a < 0x8000 ∨ (0xa000 ≤ a ∧ a < 0xc000)) → cartAfterWrite m.cart a v = m.cart := by
    intro hn
    unfold cartAfterWrite Cart.busWrite
    rw [if_neg (by rw [cartAddr_iff]; exact hn)]
    rfl
  cases h <;> simp only [inRange, Bool.or_eq_true, Bool.and_eq_true, decide_eq_true_eq, beq_iff_eq,
    Bool.true_and, Bool.false_eq_true, Bool.not_false] at hr
  case mbc =>
    have e1 : timerAfterWrite m.timer a v = m.timer := by
      unfold timerAfterWrite
      rw [if_neg (by omega), if_neg (by omega), if_neg (by omega), if_neg (by omega)]
    have e2 : joypAfterWrite m.joyp a v = m.joyp := by unfold joypAfterWrite; rw [if_neg (by omega)]
    have e3 : cartAfterWrite m.cart a v = (m.cart.write a v).getD m.cart := by
      unfold cartAfterWrite Cart.busWrite
      rw [if_pos (by rw [cartAddr_iff]; exact hr)]
    rw [e1, e2, e3]
    simp only [writeH]
    cases m.cart.write a v <;> exact ⟨rfl, rfl, rfl⟩
  case div => subst hr; exact ⟨rfl, rfl, (hcart (by omega)).symm⟩
  case tima => subst hr; exact ⟨rfl, rfl, (hcart (by omega)).symm⟩
  case tma => subst hr; exact ⟨rfl, rfl, (hcart (by omega)).symm⟩
  case tac => subst hr; exact ⟨rfl, rfl, (hcart (by omega)).symm⟩
  case joyp => subst hr; exact ⟨rfl, rfl, (hcart (by omega)).symm⟩
  case ignore =>
    obtain ⟨n0, n4, n5, n6, n7⟩ := ignore_not_reg a hh
    have e1 : timerAfterWrite m.timer a v = m.timer := by
      unfold timerAfterWrite
      rw [if_neg n4, if_neg n5, if_neg n6, if_neg n7]
    have e2 : joypAfterWrite m.joyp a v = m.joyp := by unfold joypAfterWrite; rw [if_neg n0]
    rw [e1, e2, hcart (by omega)]
    exact ⟨rfl, rfl, rfl⟩
  all_goals first
    | (exfalso; simp at hr; done)
    | (have e1 : timerAfterWrite m.timer a v = m.timer := by
         unfold timerAfterWrite
         rw [if_neg (by omega), if_neg (by omega), if_neg (by omega), if_neg (by omega)]
       have e2 : joypAfterWrite m.joyp a v = m.joyp := by unfold joypAfterWrite; rw [if_neg (by omega)]
       rw [e1, e2, hcart (by omega)]
       simp only [writeH]
       first
         | exact getD_map _ _ m (fun x => x.timer = m.timer ∧ x.joyp = m.joyp ∧ x.cart = m.cart) ⟨rfl, rfl, rfl⟩
             (fun _ => ⟨rfl, rfl, rfl⟩)
         | exact ⟨rfl, rfl, rfl⟩)

private theorem board_write_parts (b : Board) (a v : Nat) (ha : a < 65536) :
    (b.write a v).m.timer = timerAfterWrite b.m.timer a v ∧
    (b.write a v).m.joyp = joypAfterWrite b.m.joyp a v ∧
    (b.write a v).m.cart = cartAfterWrite b.m.cart a v := by
  rw [board_write_m b a v ha]
  cases hs : soundAddr a
  · simp only [Bool.false_eq_true, if_false]
    exact writeH_parts _ b.m a v rfl (range_write ha)
  · have := sound_range hs
    simp only [if_true]
    refine ⟨?_, ?_, ?_⟩
    · unfold timerAfterWrite
      rw [if_neg (by omega), if_neg (by omega), if_neg (by omega), if_neg (by omega)]
    · unfold joypAfterWrite; rw [if_neg (by omega)]
    · unfold cartAfterWrite Cart.busWrite
      rw [if_neg (by rw [cartAddr_iff]; omega)]
      rfl

/-- **which bus writes reach the timer**: FF04 (`Reset`), FF05, FF06, FF07, for every board state -/
theorem board_write_timer (b : Board) (a v : Nat) (ha : a < 65536) :
    (b.write a v).m.timer = timerAfterWrite b.m.timer a v := (board_write_parts b a v ha).1

/-- **which bus writes reach the joypad register**: FF00 -/
theorem board_write_joyp (b : Board) (a v : Nat) (ha : a < 65536) :
    (b.write a v).m.joyp = joypAfterWrite b.m.joyp a v := (board_write_parts b a v ha).2.1

/-- **which bus writes reach the cartridge**: 0000–7FFF and A000–BFFF (`Cart.busWrite`) -/
theorem board_write_cart (b : Board) (a v : Nat) (ha : a < 65536) :
    (b.write a v).m.cart = cartAfterWrite b.m.cart a v := (board_write_parts b a v ha).2.2

/-! ### the four calls after the CPU's -/

/-- `ppu.EndMachineCycle` on the machine record -/
theorem ppuTick_shape (m m' : Machine) (h : ppuTick m = some m') :
    ∃ r, Lcd.tick m.ppu = some r ∧
      m' = { m with ppu := r.p, intr := (m.intr.request r.vbl 0).request r.stat 1,
                    oam := if m.ppu.enabled then oamAfterTick m.ppu m.oam else m.oam } := by
  unfold ppuTick at h
  rw [Option.map_eq_some_iff] at h
  obtain ⟨r, hr, e⟩ := h
  exact ⟨r, hr, e.symm⟩

/-- `mapper.EndMachineCycle` on the machine record: the DMA engine steps (its bus read has no effect outside the
    OAM unit), the cartridge's clock ticks -/
theorem endMachineCycle_shape (arms : List Arm) (m m' : Machine) (h : endMachineCycle arms m = some m') :
    ∃ o, m' = { m with oam := o, cart := m.cart.tick } := by
  unfold endMachineCycle at h
  rw [Option.map_eq_some_iff] at h
  obtain ⟨m1, h1, rfl⟩ := h
  unfold Machine.tickDMA at h1
  split at h1
  · rw [Option.map_eq_some_iff] at h1
    obtain ⟨o, _, rfl⟩ := h1
    exact ⟨o, rfl⟩
  · rename_i a _
    rw [Option.bind_eq_some_iff] at h1
    obtain ⟨r, hr, h1⟩ := h1
    unfold busRead at hr
    rw [Option.map_eq_some_iff] at hr
    obtain ⟨v, _, rfl⟩ := hr
    rw [Option.map_eq_some_iff] at h1
    obtain ⟨o, _, rfl⟩ := h1
    refine ⟨o, ?_⟩
    show ({ readEff (route arms a) m a with oam := o, cart := (readEff (route arms a) m a).cart.tick } : Machine) = _
    unfold readEff
    split
    · split <;> rfl
    · rfl

/-- a machine that is running after a cycle was running before it, its CPU part did not stop it and no step of
    the cycle panicked -/
theorem running_before (w : Whole) (h : w.cycle.stopped = false) :
    w.stopped = false ∧ cpuStopped w = false ∧ w.cycle.b.crashed = false := by
  have hs : w.stopped = false := by
    cases hs : w.stopped
    · rfl
    · rw [whole_cycle_stopped w hs, hs] at h; cases h
  have hc : cpuStopped w = false := by
    cases hc : cpuStopped w
    · rfl
    · have e := whole_cycle_order w hs
      rw [hc] at e
      simp only [if_true] at e
      have : w.cycle.stopped = cpuStopped w := by
        rw [e]; unfold Whole.stopped cpuStopped
        cases (afterCpu w).2.dead <;> cases (afterCpu w).1.crashed <;> cases (afterCpu w).1.regs.exited <;> rfl
      rw [this, hc] at h; cases h
  refine ⟨hs, hc, ?_⟩
  unfold Whole.stopped Board.dead at h
  cases hcr : w.cycle.b.crashed
  · rfl
  · rw [hcr] at h; simp at h

/-- **the end of a machine cycle, on the machine record.**  If the machine is running after the cycle, its machine
    record is the record after the CPU's part with: the LCD state stepped by `Lcd.tick` (which did not panic), the
    VBlank / STAT / timer requests of this cycle raised in IF, the cartridge's clock ticked, the timer stepped by
    `Timer.endCycle` – and some OAM unit (DMA engine, OAM-bug window: Proofs/C17Whole.lean). -/
theorem end_cycle_shape (w : Whole) (h : w.cycle.stopped = false) :
    ∃ r o, Lcd.tick (afterCpu w).2.m.ppu = some r ∧
      w.cycle.b.m = { (afterCpu w).2.m with
        ppu := r.p,
        intr := (((afterCpu w).2.m.intr.request r.vbl 0).request r.stat 1).request
                  (Timer.endCycleIrq (afterCpu w).2.m.timer) 2,
        oam := o,
        cart := (afterCpu w).2.m.cart.tick,
        timer := Timer.endCycle (afterCpu w).2.m.timer } := by
  obtain ⟨hs, hc, hok⟩ := running_before w h
  have e := whole_cycle_steps w hs hc hok
  rw [e] at hok ⊢
  generalize (afterCpu w).2 = b0 at hok ⊢
  -- peel the steps off from the last
  have h3 : b0.ppuStep.dmaStep.crashed = false := by
    have : b0.ppuStep.dmaStep.apuStep.timerStep.crashed = b0.ppuStep.dmaStep.crashed := by
      rw [whole_step_apu]; rfl
    rw [← this]; exact hok
  have em : b0.ppuStep.dmaStep.apuStep.timerStep.m = timerTick b0.ppuStep.dmaStep.m := by
    rw [whole_step_apu]; rfl
  show ∃ r o, _ ∧ b0.ppuStep.dmaStep.apuStep.timerStep.m = _
  rw [em]
  rw [whole_step_dma] at h3 ⊢
  cases hd : endMachineCycle Serial.genReadArms b0.ppuStep.m with
  | none => rw [hd] at h3; cases h3
  | some m2 =>
    rw [hd] at h3
    have h1 : b0.ppuStep.crashed = false := h3
    show ∃ r o, _ ∧ timerTick m2 = _
    obtain ⟨o, rfl⟩ := endMachineCycle_shape _ _ _ hd
    rw [whole_step_ppu] at h1 hd ⊢
    cases hr : Render.tick (sceneOf b0.m) (syncPix b0.m.ppu b0.pix) with
    | none => rw [hr] at h1; cases h1
    | some px =>
      cases hp : ppuTick b0.m with
      | none => rw [hr, hp] at h1; cases h1
      | some m1 =>
        obtain ⟨r, hr1, rfl⟩ := ppuTick_shape _ _ hp
        exact ⟨r, o, hr1, rfl⟩

/-! ### the APU on the board -/

theorem board_read_apu (b : Board) (a : Nat) : (b.read a).2.apu = b.apu := by
  unfold Board.read Board.read?
  cases apuAddr? (rH a) a with
  | some ad => simp only []; cases b.apu.read ad <;> rfl
  | none => simp only []; cases readVal (rH a) b.m a <;> rfl

theorem board_corrupt_apu (b : Board) : b.corrupt.apu = b.apu := by
  unfold Board.corrupt
  split
  · rfl
  · cases Oam.corruptStep b.m.oam <;> rfl

/-- **which bus writes reach the APU**: the sound registers and wave RAM (FF10–FF14, FF16–FF1E, FF20–FF26,
    FF30–FF3F), each under its own address -/
theorem board_write_apu (b : Board) (a v : Nat) (ha : a < 65536) :
    (b.write a v).apu = if soundAddr a then b.apu.write a v else b.apu := by
  unfold Board.write Board.write?
  rw [(whole_apu_addresses a ha).2]
  cases soundAddr a
  · simp only [Bool.false_eq_true, if_false]
    cases writeH (wH a) b.m a v <;> rfl
  · rfl

private theorem ppuStep_apu (b : Board) : b.ppuStep.apu = b.apu := by
  rw [whole_step_ppu]
  cases Render.tick (sceneOf b.m) (syncPix b.m.ppu b.pix) with
  | none => rfl
  | some p => cases ppuTick b.m <;> rfl

private theorem dmaStep_apu (b : Board) : b.dmaStep.apu = b.apu := by
  rw [whole_step_dma]
  cases endMachineCycle Serial.genReadArms b.m <;> rfl

/-- **the end of a machine cycle, on the APU**: one `audio.EndMachineCycle` -/
theorem end_cycle_apu (w : Whole) (h : w.cycle.stopped = false) :
    w.cycle.b.apu = (afterCpu w).2.apu.endMachineCycle := by
  obtain ⟨hs, hc, hok⟩ := running_before w h
  rw [whole_cycle_steps w hs hc hok]
  show (afterCpu w).2.ppuStep.dmaStep.apuStep.timerStep.apu = _
  have e : (afterCpu w).2.ppuStep.dmaStep.apuStep.timerStep.apu = (afterCpu w).2.ppuStep.dmaStep.apuStep.apu := rfl
  rw [e, whole_step_apu]
  show (afterCpu w).2.ppuStep.dmaStep.apu.endMachineCycle = _
  rw [dmaStep_apu, ppuStep_apu]

/-- a fold that ignores the elements a partial map drops is the fold over the mapped list -/
theorem fold_filterMap {α β X : Type} (g : α → Option β) (f : X → α → X) (s : X → β → X)
    (h : ∀ x a, f x a = match g a with | some b => s x b | none => x) (wr : List α) (x : X) :
    wr.foldl f x = (wr.filterMap g).foldl s x := by
  induction wr generalizing x with
  | nil => rfl
  | cons a wr ih =>
    rw [List.foldl_cons, ih, List.filterMap_cons, h]
    cases g a <;> rfl

/-! ### runs -/

theorem run_add (a b : Nat) (w : Whole) : Whole.run (a + b) w = Whole.run b (Whole.run a w) := by
  induction a generalizing w with
  | zero => rw [Nat.zero_add]; rfl
  | succ a ih =>
    rw [Nat.add_right_comm]
    exact ih w.cycle

/-- a machine that is running after `n` cycles was running all the way -/
theorem running_prefix (k n : Nat) (hk : k ≤ n) (w : Whole) (h : (Whole.run n w).stopped = false) :
    (Whole.run k w).stopped = false := by
  obtain ⟨d, rfl⟩ : ∃ d, n = k + d := ⟨n - k, by omega⟩
  rw [run_add] at h
  clear hk
  generalize Whole.run k w = x at h
  induction d generalizing x with
  | zero => exact h
  | succ d ih => exact (running_before x (ih x.cycle h)).1

/-- a constructed machine stops only by `os.Exit` on an undefined opcode -/
theorem constructed_running (img : Cart.Image) (wr au : Bool) (w0 : Whole)
    (hc : Whole.construct img wr au = some w0) (n : Nat) :
    (Whole.run n w0).stopped = (Whole.run n w0).cpu.regs.exited := by
  obtain ⟨h1, h2⟩ := c11_whole_never_panics img wr au w0 hc n
  unfold Whole.stopped
  rw [h1, h2]
  rfl


theorem cart_run_append (c : Cart.Mbc) (a b : List Cart.Op) :
    Cart.run c (a ++ b) = (Cart.run c a).bind fun c' => Cart.run c' b := by
  induction a generalizing c with
  | nil => rfl
  | cons op a ih =>
    simp only [List.cons_append, Cart.run]
    cases Cart.step c op with
    | none => rfl
    | some c1 => exact ih c1


end Tetro.BoardTrace
