import Tetro.Lemmas.Countdown
/-
Kernel-runnable checkers (structural recursion, Bool valued) with their soundness lemmas, used for
the noise-generator facts of C21: "the orbit does not return before step p" and "p holds for all
l < n".  The heavy `decide +kernel` evaluations live in separate small modules so that lake
checks them in parallel.
-/
namespace Tetro.C21
open Tetro.Countdown

/-- `noReturn f s k x`: none of x, f x, …, f^(k-1) x equals s (structural recursion: the kernel can run it) -/
def noReturn (f : Nat → Nat) (s : Nat) : Nat → Nat → Bool
  | 0, _ => true
  | k + 1, x => x != s && noReturn f s k (f x)

theorem noReturn_spec (f : Nat → Nat) (s : Nat) (k : Nat) : ∀ x, noReturn f s k x = true →
    ∀ j, j < k → iter f j x ≠ s := by
  induction k with
  | zero => intro x _ j hj; omega
  | succ k ih =>
    intro x h j hj
    simp only [noReturn, Bool.and_eq_true, bne_iff_ne, ne_eq] at h
    cases j with
    | zero => exact h.1
    | succ i => exact ih (f x) h.2 i (by omega)

/-- minimal period: f^p s = s and f^k s ≠ s for 0 < k < p -/
def MinimalPeriod (f : Nat → Nat) (s p : Nat) : Prop :=
  0 < p ∧ iter f p s = s ∧ ∀ k, 0 < k → k < p → iter f k s ≠ s

theorem minimalPeriod_of_check (f : Nat → Nat) (s p : Nat) (h1 : iter f (p + 1) s = s)
    (h2 : noReturn f s p (f s) = true) : MinimalPeriod f s (p + 1) := by
  refine ⟨by omega, h1, fun k hk hkp => ?_⟩
  cases k with
  | zero => omega
  | succ i => exact noReturn_spec f s p (f s) h2 i (by omega)

/-- `allBelow p n`: p holds for every l < n (Bool, structural recursion: the kernel can run it) -/
def allBelow (p : Nat → Bool) : Nat → Bool
  | 0 => true
  | n + 1 => p n && allBelow p n

theorem allBelow_spec (p : Nat → Bool) (n : Nat) (h : allBelow p n = true) : ∀ l, l < n → p l = true := by
  induction n with
  | zero => intro l hl; omega
  | succ k ih =>
    simp only [allBelow, Bool.and_eq_true] at h
    intro l hl
    by_cases e : l = k
    · rw [e]; exact h.1
    · exact ih h.2 l (by omega)

end Tetro.C21
