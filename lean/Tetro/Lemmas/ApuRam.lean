import Tetro.Lemmas.ApuView
/-
Frame lemmas for wave RAM: the 16 bytes `ch3.waveram` are changed only by `Wave.writeRam` (a bus
write to FF30–FF3F) and by `Wave.trigHead` (a trigger of channel 3, the DMG corruption quirk).
Used by C18 (`c18_wave_persist`).
-/
namespace Tetro.Model.Apu

namespace Wave
theorem ram_tickTimer (w : Wave) : w.tickTimer.waveram = w.waveram := by frame_tac [tickTimer]
theorem ram_tickLength (w : Wave) : w.tickLength.waveram = w.waveram := by frame_tac [tickLength]
theorem ram_extraLenClock (w : Wave) (fs : Nat) (le t : Bool) : (w.extraLenClock fs le t).waveram = w.waveram := by
  frame_tac [extraLenClock]
/-- NR34 without the trigger bit leaves wave RAM alone -/
theorem ram_writeNR34 (w : Wave) (fs v : Nat) (h : trigOf v = false) : (w.writeNR34 fs v).waveram = w.waveram := by
  simp only [writeNR34, trigPart, h, setLE]
  show ((w.setFreqHi v).extraLenClock fs (leOf v) false).waveram = _
  rw [ram_extraLenClock]; rfl
end Wave

namespace Apu

def ram (a : Apu) : WaveRam := a.ch3.waveram

theorem ram_tickTimer (a : Apu) : a.tickTimer.ram = a.ram := by
  simp only [tickTimer, ram]; split
  · exact Wave.ram_tickTimer _
  · rfl
theorem ram_lenPart (a : Apu) : a.lenPart.ram = a.ram := by
  unfold lenPart; split
  · exact Wave.ram_tickLength _
  · rfl
theorem ram_envPart (a : Apu) : a.envPart.ram = a.ram := by unfold envPart; split <;> rfl
theorem ram_sweepPart (a : Apu) : a.sweepPart.ram = a.ram := by unfold sweepPart; split <;> rfl
theorem ram_incFs (a : Apu) : a.incFs.ram = a.ram := rfl
theorem ram_incTicks (a : Apu) : a.incTicks.ram = a.ram := rfl
theorem ram_clearTriggered (a : Apu) : a.clearTriggered.ram = a.ram := rfl
theorem ram_setOn (a : Apu) (b : Bool) : (a.setOn b).ram = a.ram := rfl
theorem ram_clearDuties (a : Apu) : a.clearDuties.ram = a.ram := rfl
theorem ram_wrapFs (a : Apu) : a.wrapFs.ram = a.ram := by unfold wrapFs; split <;> rfl
theorem ram_frameSeqPart (a : Apu) : a.frameSeqPart.ram = a.ram := by
  unfold frameSeqPart; split
  · rw [ram_wrapFs]; unfold tickFrameSequencer
    rw [ram_incFs, ram_sweepPart, ram_envPart, ram_lenPart]
  · rfl
theorem ram_takeSample (a : Apu) : a.takeSample.ram = a.ram := by
  unfold takeSample; repeat' split
  all_goals rfl
theorem ram_samplerPart (a : Apu) : a.samplerPart.ram = a.ram := by
  unfold samplerPart; split
  · exact ram_takeSample a
  · rfl
theorem ram_tickClock (a : Apu) : a.tickClock.ram = a.ram := by
  unfold tickClock
  rw [ram_incTicks, ram_samplerPart, ram_frameSeqPart, ram_tickTimer]
theorem ram_endMachineCycle (a : Apu) : a.endMachineCycle.ram = a.ram := by
  unfold endMachineCycle
  rw [ram_clearTriggered, ram_tickClock, ram_tickClock, ram_tickClock, ram_tickClock]

theorem ram_writeNR34 (a : Apu) (v : Nat) (h : trigOf v = false) : (a.writeNR34 v).ram = a.ram := by
  unfold writeNR34; split
  · rfl
  · exact Wave.ram_writeNR34 _ _ _ h

theorem ram_powerOff (a : Apu) : a.powerOff.ram = a.ram := by
  unfold powerOff
  have e50 : ∀ b : Apu, (b.writeNR50 0).ram = b.ram := fun b => by unfold writeNR50; split <;> rfl
  have e51 : ∀ b : Apu, (b.writeNR51 0).ram = b.ram := fun b => by unfold writeNR51; split <;> rfl
  have e42 : ∀ b : Apu, (b.writeNR42 0).ram = b.ram := fun b => by unfold writeNR42; split <;> rfl
  have e43 : ∀ b : Apu, (b.writeNR43 0).ram = b.ram := fun b => by unfold writeNR43; split <;> rfl
  have e44 : ∀ b : Apu, (b.writeNR44 0).ram = b.ram := fun b => by unfold writeNR44; split <;> rfl
  have e30 : ∀ b : Apu, (b.writeNR30 0).ram = b.ram := fun b => by unfold writeNR30; split <;> rfl
  have e32 : ∀ b : Apu, (b.writeNR32 0).ram = b.ram := fun b => by unfold writeNR32; split <;> rfl
  have e33 : ∀ b : Apu, (b.writeNR33 0).ram = b.ram := fun b => by unfold writeNR33; split <;> rfl
  have e10 : ∀ b : Apu, (b.writeNR10 0).ram = b.ram := fun b => by unfold writeNR10; split <;> rfl
  have e12 : ∀ b : Apu, (b.writeNR12 0).ram = b.ram := fun b => by unfold writeNR12; split <;> rfl
  have e13 : ∀ b : Apu, (b.writeNR13 0).ram = b.ram := fun b => by unfold writeNR13; split <;> rfl
  have e14 : ∀ b : Apu, (b.writeNR14 0).ram = b.ram := fun b => by unfold writeNR14; split <;> rfl
  have e22 : ∀ b : Apu, (b.writeNR22 0).ram = b.ram := fun b => by unfold writeNR22; split <;> rfl
  have e23 : ∀ b : Apu, (b.writeNR23 0).ram = b.ram := fun b => by unfold writeNR23; split <;> rfl
  have e24 : ∀ b : Apu, (b.writeNR24 0).ram = b.ram := fun b => by unfold writeNR24; split <;> rfl
  rw [ram_setOn, ram_clearDuties, e51, e50, e44, e43, e42, ram_writeNR34 _ 0 (by decide), e33, e32, e30, e24, e23, e22, e14, e13, e12, e10,
    ram_setOn]

theorem ram_writeNR52 (a : Apu) (v : Nat) : (a.writeNR52 v).ram = a.ram := by
  unfold writeNR52; split
  · exact ram_powerOff a
  · unfold powerOn; split <;> rfl

/-- a bus write outside FF30–FF3F that is not a channel-3 trigger keeps wave RAM -/
theorem ram_writeB (a : Apu) (addr v : Nat) (hram : ¬(0xFF30 ≤ addr ∧ addr < 0xFF40))
    (htrig : ¬(addr = 0xFF1E ∧ trigOf v = true)) : (a.writeB addr v).ram = a.ram := by
  rcases addr_cases addr with e|e|e|e|e|e|e|e|e|e|e|e|e|e|e|e|e|e|e|e|e|⟨hn, h52⟩
  all_goals (try (subst e))
  all_goals (try rw_writeB)
  all_goals first
    | exact ram_writeNR52 a v
    | (apply ram_writeNR34
       cases h : trigOf v
       · rfl
       · exact absurd ⟨rfl, h⟩ htrig)
    | (rw [writeB_other _ _ _ hn h52]; repeat' split
       all_goals (first | rfl | omega))
    | (simp only [writeNR10, writeNR11, writeNR12, writeNR13, writeNR14, writeNR21, writeNR22, writeNR23, writeNR24,
        writeNR30, writeNR31, writeNR32, writeNR33, writeNR41, writeNR42, writeNR43, writeNR44, writeNR50,
        writeNR51]
       repeat' split
       all_goals rfl)

end Apu
end Tetro.Model.Apu
