import Tetro.Proofs.C06Route
/-
Address ranges of the decoder handlers (helper for Proofs/C06.lean and Proofs/C07.lean): for each of the
65 536 addresses the handler the documented arm lists route it to is one whose address range contains it
(kernel evaluation; independent of the regenerated facts, so it is built once).
-/
namespace Tetro.BusRoute
open Tetro.Model.Decoder Tetro.Spec.MemMap

/-- the addresses a handler may be reached from -/
def inRange (rd : Bool) : H → Nat → Bool
  | .mbc, a => a < 0x8000 || (0xa000 ≤ a && a < 0xc000)
  | .vram, a => 0x8000 ≤ a && a < 0xa000
  | .wram, a => 0xc000 ≤ a && a < 0xe000
  | .echo, a => 0xe000 ≤ a && a < 0xfe00
  | .oam, a => 0xfe00 ≤ a && a < 0xff00
  | .joyp, a => a == 0xff00
  | .sb, a => a == 0xff01
  | .sc, a => a == 0xff02
  | .div, a => a == 0xff04
  | .tima, a => a == 0xff05
  | .tma, a => a == 0xff06
  | .tac, a => a == 0xff07
  | .ifl, a => a == 0xff0f
  | .ff, a => rd && ((0xff00 ≤ a && a < 0xff10) || (0xff4c ≤ a && a < 0xff80) || (0xff10 ≤ a && a < 0xff40))
  | .ignore, a => !rd && ((0xff00 ≤ a && a < 0xff10) || (0xff4c ≤ a && a < 0xff80) || (0xff10 ≤ a && a < 0xff40))
  | .lcdc, a => a == 0xff40
  | .stat, a => a == 0xff41
  | .scy, a => a == 0xff42
  | .scx, a => a == 0xff43
  | .ly, a => a == 0xff44
  | .lyc, a => a == 0xff45
  | .dma, a => a == 0xff46
  | .bgp, a => a == 0xff47
  | .obp0, a => a == 0xff48
  | .obp1, a => a == 0xff49
  | .wy, a => a == 0xff4a
  | .wx, a => a == 0xff4b
  | .hram, a => 0xff80 ≤ a && a < 0xffff
  | .ie, a => a == 0xffff
  | .panic, _ => false
  | .unknown, _ => false
  | _, a => 0xff10 ≤ a && a < 0xff40        -- the sound registers and wave RAM

theorem range_read_aux : ∀ hi < 256, ∀ lo < 256,
    inRange true (regionOf .ff (hi * 256 + lo)) (hi * 256 + lo) = true := by decide +kernel

theorem range_write_aux : ∀ hi < 256, ∀ lo < 256,
    inRange false (regionOf .ignore (hi * 256 + lo)) (hi * 256 + lo) = true := by decide +kernel

theorem split16 {a : Nat} (h : a < 65536) : a / 256 < 256 ∧ a % 256 < 256 ∧ a / 256 * 256 + a % 256 = a := by
  omega

theorem route_read {a : Nat} (h : a < 65536) : route expectedReadArms a = regionOf .ff a := by
  obtain ⟨h1, h2, h3⟩ := split16 h
  have := Tetro.C06.c06_route_read _ h1 _ h2
  rwa [h3] at this

theorem route_write {a : Nat} (h : a < 65536) : route expectedWriteArms a = regionOf .ignore a := by
  obtain ⟨h1, h2, h3⟩ := split16 h
  have := Tetro.C06.c06_route_write _ h1 _ h2
  rwa [h3] at this

theorem range_read {a : Nat} (h : a < 65536) : inRange true (route expectedReadArms a) a = true := by
  obtain ⟨h1, h2, h3⟩ := split16 h
  have := range_read_aux _ h1 _ h2
  rw [h3] at this
  rwa [route_read h]

theorem range_write {a : Nat} (h : a < 65536) : inRange false (route expectedWriteArms a) a = true := by
  obtain ⟨h1, h2, h3⟩ := split16 h
  have := range_write_aux _ h1 _ h2
  rw [h3] at this
  rwa [route_write h]

end Tetro.BusRoute
