import Tetro.Lemmas.BusBasic
import Tetro.Spec.BusSpec
/-
The frame lemma behind C07 (and the history theorem of C06): a bus write changes what an address `b` reads
only if `b` is in the documented footprint of the written address.  Case analysis on the write handler and
the read handler; different components are independent by construction (record update of one field), the
same-component cases use the small lemmas below.
-/
namespace Tetro.BusFrame
open Tetro.Model.Decoder Tetro.Model.Machine Tetro.Model Tetro.BusRoute Tetro.BusBasic Tetro.Spec.BusSpec

theorem toNat16 {a : Nat} (h : a < 65536) : (BitVec.ofNat 16 a).toNat = a := by
  rw [BitVec.toNat_ofNat]; exact Nat.mod_eq_of_lt (by omega)

/-! ### OAM: the value of a CPU read depends on the bytes and the DMA flag only -/

theorem oam_read_val (o : Oam.Oam) (a : Nat) (h1 : 0xfe00 ≤ a) (h2 : a < 0xff00) :
    (Oam.cpuRead o (BitVec.ofNat 16 a)).map (fun p => p.2.toNat)
      = some (if o.dmaRunning then 0xff
              else if h : a - 0xfe00 < 160 then (o.oam[a - 0xfe00]).toNat else 0) := by
  have ht := toNat16 (a := a) (by omega)
  obtain ⟨p, hp, hv⟩ := Oam.cpuRead_value (s := o) (a := BitVec.ofNat 16 a) (by omega) (by omega)
  rw [hp, Option.map_some, hv]
  simp only [ht]
  split
  · rfl
  · split <;> rfl

theorem oam_val_congr (o1 o2 : Oam.Oam) (a : Nat) (h1 : 0xfe00 ≤ a) (h2 : a < 0xff00)
    (hd : o1.dmaRunning = o2.dmaRunning) (ho : o1.oam = o2.oam) :
    (Oam.cpuRead o1 (BitVec.ofNat 16 a)).map (fun p => p.2.toNat)
      = (Oam.cpuRead o2 (BitVec.ofNat 16 a)).map (fun p => p.2.toNat) := by
  rw [oam_read_val o1 a h1 h2, oam_read_val o2 a h1 h2, hd, ho]

theorem writeFlags_dma (o : Oam.Oam) :
    (Oam.writeFlags o).dmaRunning = o.dmaRunning ∧ (Oam.writeFlags o).dma = o.dma := by
  unfold Oam.writeFlags; split
  · split <;> exact ⟨rfl, rfl⟩
  · exact ⟨rfl, rfl⟩

theorem lcdc_oam (p : Lcd.Ppu) (on : Bool) (o : Oam.Oam) :
    (oamAfterLcdc p on o).dmaRunning = o.dmaRunning ∧ (oamAfterLcdc p on o).oam = o.oam
    ∧ (oamAfterLcdc p on o).dma = o.dma := by
  unfold oamAfterLcdc; split
  · exact ⟨rfl, rfl, rfl⟩
  · split <;> exact ⟨rfl, rfl, rfl⟩

theorem lcdc_lyc (p : Lcd.Ppu) (v : Nat) : (Lcd.wLCDC p v).lyc = p.lyc := by
  simp only [Lcd.wLCDC, Lcd.lcdcSwitch]
  split
  · rfl
  · split <;> rfl

/-! ### timer -/

theorem cfe_fields (t : Timer.T) :
    (Timer.checkFallingEdge t).counter = t.counter ∧ (Timer.checkFallingEdge t).tac = t.tac
    ∧ (Timer.checkFallingEdge t).tma = t.tma ∧ (Timer.checkFallingEdge t).reloading = t.reloading := by
  unfold Timer.checkFallingEdge Timer.increment
  split
  · split <;> exact ⟨rfl, rfl, rfl, rfl⟩
  · exact ⟨rfl, rfl, rfl, rfl⟩

/-! ### echo mirror -/

theorem not_mirror {a b : Nat} (h : mirrorOf a ≠ some b) :
    (0xc000 ≤ a ∧ a < 0xde00 → b ≠ a + 0x2000) ∧ (0xe000 ≤ a ∧ a < 0xfe00 → b ≠ a - 0x2000) := by
  constructor
  · intro hr hb; apply h; simp only [mirrorOf, if_pos hr, hb]
  · intro hr hb; apply h
    simp only [mirrorOf, if_neg (show ¬ (0xc000 ≤ a ∧ a < 0xde00) by omega), if_pos hr, hb]

/-! ### cartridge: a RAM-window write leaves the ROM windows alone -/

theorem cart_ram_write_rom (c c' : Cart.Mbc) (a v b : Nat) (h1 : 0xa000 ≤ a) (h2 : a < 0xc000) (hb : b < 0x8000)
    (hw : c.write a v = some c') : c'.read b = c.read b := by
  have n1 : ¬ a < 0x2000 := by omega
  have n2 : ¬ a < 0x3000 := by omega
  have n3 : ¬ a < 0x4000 := by omega
  have n4 : ¬ a < 0x6000 := by omega
  have n5 : ¬ a < 0x8000 := by omega
  have n6 : ¬ a < 0xa000 := by omega
  cases c with
  | none m =>
    simp only [Cart.Mbc.write, Cart.NoMbc.write, Option.map_some, Option.some.injEq] at hw
    subst hw; rfl
  | mbc1 m =>
    simp only [Cart.Mbc.write, Cart.Mbc1.write, if_neg n1, if_neg n3, if_neg n4, if_neg n5, if_neg n6, if_pos h2] at hw
    split at hw
    · cases hbs : Cart.bankSet? m.ram m.ramLen m.ramBank (a - 0xa000) v with
      | none => simp [hbs] at hw
      | some r =>
        simp only [hbs, Option.bind_some, Option.map_some, Option.some.injEq] at hw
        subst hw
        simp only [Cart.Mbc.read, Cart.Mbc1.read]
        by_cases hb4 : b < 0x4000 <;> simp only [hb4, hb, if_true, if_false]
    · simp only [Option.map_some, Option.some.injEq] at hw
      subst hw; rfl
  | mbc2 m =>
    simp only [Cart.Mbc.write, Cart.Mbc2.write, if_neg n3, if_neg n6, if_pos h2] at hw
    split at hw
    · cases hbs : Cart.cellSet? m.ram ((a - 0xa000) % 0x0200) (v ||| 0xf0) with
      | none => simp [hbs] at hw
      | some r =>
        simp only [hbs, Option.bind_some, Option.map_some, Option.some.injEq] at hw
        subst hw
        simp only [Cart.Mbc.read, Cart.Mbc2.read]
        by_cases hb4 : b < 0x4000 <;> simp only [hb4, hb, if_true, if_false]
    · simp only [Option.map_some, Option.some.injEq] at hw
      subst hw; rfl
  | mbc3 m =>
    simp only [Cart.Mbc.write, Cart.Mbc3.write, if_neg n1, if_neg n3, if_neg n4, if_neg n5, if_neg n6, if_pos h2] at hw
    split at hw
    · split at hw
      · simp only [Option.map_some, Option.some.injEq] at hw
        subst hw
        simp only [Cart.Mbc.read, Cart.Mbc3.read]
        by_cases hb4 : b < 0x4000 <;> simp only [hb4, hb, if_true, if_false]
      · cases hmod : Cart.mod? m.ramBank m.ramLen with
        | none => simp [hmod] at hw
        | some k =>
          cases hbs : Cart.bankSet? m.ram m.ramLen k (a - 0xa000) v with
          | none => simp [hmod, hbs] at hw
          | some r =>
            simp only [hmod, hbs, Option.bind_some, Option.map_some, Option.some.injEq] at hw
            subst hw
            simp only [Cart.Mbc.read, Cart.Mbc3.read]
            by_cases hb4 : b < 0x4000 <;> simp only [hb4, hb, if_true, if_false]
    · simp only [Option.map_some, Option.some.injEq] at hw
      subst hw; rfl
  | mbc5 m =>
    simp only [Cart.Mbc.write, Cart.Mbc5.write, if_neg n1, if_neg n2, if_neg n3, if_neg n4, if_neg n6, if_pos h2] at hw
    split at hw
    · cases hbs : Cart.bankSet? m.ram m.ramLen m.ramBank (a - 0xa000) v with
      | none => simp [hbs] at hw
      | some r =>
        simp only [hbs, Option.bind_some, Option.map_some, Option.some.injEq] at hw
        subst hw
        simp only [Cart.Mbc.read, Cart.Mbc5.read]
        by_cases hb4 : b < 0x4000 <;> simp only [hb4, hb, if_true, if_false]
    · simp only [Option.map_some, Option.some.injEq] at hw
      subst hw; rfl

/-! ### handlers of the sound unit -/

def isApuH : H → Bool
  | .nr10 | .nr11 | .nr12 | .nr13 | .nr14 | .nr21 | .nr22 | .nr23 | .nr24 | .nr30 | .nr31 | .nr32 | .nr33 | .nr34
  | .nr41 | .nr42 | .nr43 | .nr44 | .nr50 | .nr51 | .nr52 | .wave => true
  | _ => false

theorem apu_of_range {rd : Bool} {h : H} {a : Nat} (hr : inRange rd h a = true) (hh : isApuH h = true) :
    0xff10 ≤ a ∧ a < 0xff40 := by
  cases h <;> simp [isApuH] at hh <;> simpa [inRange] using hr

/-! ### a record update of one field only matters to the handlers that read that field -/

theorem fld_vram (s : Machine) (r : Vector Nat 0x2000) (rb : H) (b : Nat)
    (h : rb = .vram → ldv r (Oam.sub16 b 0x8000) = ldv s.vram (Oam.sub16 b 0x8000)) :
    readVal rb { s with vram := r } b = readVal rb s b := by
  cases rb <;> simp only [readVal] <;> exact h rfl

theorem fld_wram (s : Machine) (r : Vector Nat 0x2000) (rb : H) (b : Nat)
    (h1 : rb = .wram → ldv r (Oam.sub16 b 0xc000) = ldv s.wram (Oam.sub16 b 0xc000))
    (h2 : rb = .echo → ldv r (Oam.sub16 b 0xe000) = ldv s.wram (Oam.sub16 b 0xe000)) :
    readVal rb { s with wram := r } b = readVal rb s b := by
  cases rb <;> simp only [readVal]
  · exact h1 rfl
  · exact h2 rfl

theorem fld_hram (s : Machine) (r : Vector Nat 0x8f) (rb : H) (b : Nat)
    (h : rb = .hram → ldv r (Oam.sub16 b 0xff80) = ldv s.hram (Oam.sub16 b 0xff80)) :
    readVal rb { s with hram := r } b = readVal rb s b := by
  cases rb <;> simp only [readVal] <;> exact h rfl

theorem fld_oam (s : Machine) (o : Oam.Oam) (rb : H) (b : Nat)
    (h1 : rb = .oam → (Oam.cpuRead o (BitVec.ofNat 16 b)).map (fun p => p.2.toNat)
                      = (Oam.cpuRead s.oam (BitVec.ofNat 16 b)).map (fun p => p.2.toNat))
    (h2 : rb = .dma → o.dma = s.oam.dma) :
    readVal rb { s with oam := o } b = readVal rb s b := by
  cases rb <;> first | rfl | exact h1 rfl | skip
  simp only [readVal, Oam.readDMA, h2 rfl]

theorem fld_joyp (s : Machine) (c : Joyp.Ctl) (rb : H) (b : Nat) (h : rb ≠ .joyp) :
    readVal rb { s with joyp := c } b = readVal rb s b := by
  cases rb <;> first | rfl | exact absurd rfl h

theorem fld_serial (s : Machine) (c : Serial.Serial) (rb : H) (b : Nat) :
    readVal rb { s with serial := c } b = readVal rb s b := by
  cases rb <;> rfl

theorem fld_timer (s : Machine) (t : Timer.T) (rb : H) (b : Nat)
    (h1 : rb = .div → Timer.readDIV t = Timer.readDIV s.timer)
    (h2 : rb = .tima → Timer.readTIMA t = Timer.readTIMA s.timer)
    (h3 : rb = .tma → Timer.readTMA t = Timer.readTMA s.timer)
    (h4 : rb = .tac → Timer.readTAC t = Timer.readTAC s.timer) :
    readVal rb { s with timer := t } b = readVal rb s b := by
  cases rb <;> simp only [readVal] <;>
    first | (rw [h1 rfl]) | (rw [h2 rfl]) | (rw [h3 rfl]) | (rw [h4 rfl])

theorem fld_intr (s : Machine) (i : Intr) (rb : H) (b : Nat)
    (h1 : rb = .ifl → i.ifl = s.intr.ifl) (h2 : rb = .ie → i.ie = s.intr.ie) :
    readVal rb { s with intr := i } b = readVal rb s b := by
  cases rb <;> simp only [readVal, Intr.readIF, Intr.readIE] <;> first | (rw [h1 rfl]) | (rw [h2 rfl])

theorem fld_ppu (s : Machine) (p : Lcd.Ppu) (rb : H) (b : Nat)
    (h1 : rb = .lcdc → Lcd.readLCDC p = Lcd.readLCDC s.ppu)
    (h2 : rb = .stat → Lcd.readSTAT p = Lcd.readSTAT s.ppu)
    (h3 : rb = .ly → Lcd.readLY p = Lcd.readLY s.ppu)
    (h4 : rb = .lyc → p.lyc = s.ppu.lyc) :
    readVal rb { s with ppu := p } b = readVal rb s b := by
  cases rb <;> simp only [readVal] <;>
    first | (rw [h1 rfl]) | (rw [h2 rfl]) | (rw [h3 rfl]) | (rw [h4 rfl])

theorem fld_cart (s : Machine) (c : Cart.Mbc) (rb : H) (b : Nat)
    (h : rb = .mbc → c.read b = s.cart.read b) :
    readVal rb { s with cart := c } b = readVal rb s b := by
  cases rb <;> first | rfl | exact h rfl

theorem fld_regs (s : Machine) (g : PpuRegs) (rb : H) (b : Nat)
    (h1 : rb = .scy → g.scy = s.regs.scy) (h2 : rb = .scx → g.scx = s.regs.scx)
    (h3 : rb = .bgp → g.bgp = s.regs.bgp) (h4 : rb = .obp0 → g.obp0 = s.regs.obp0)
    (h5 : rb = .obp1 → g.obp1 = s.regs.obp1) (h6 : rb = .wy → g.wy = s.regs.wy)
    (h7 : rb = .wx → g.wx = s.regs.wx) :
    readVal rb { s with regs := g } b = readVal rb s b := by
  cases rb <;> simp only [readVal] <;>
    first | (rw [h1 rfl]) | (rw [h2 rfl]) | (rw [h3 rfl]) | (rw [h4 rfl]) | (rw [h5 rfl]) | (rw [h6 rfl]) | (rw [h7 rfl])

/-! ### the address range of each handler -/

theorem rng_vram {rd : Bool} {b : Nat} (hr : inRange rd .vram b = true) : 0x8000 ≤ b ∧ b < 0xa000 := by
  simpa [inRange] using hr
theorem rng_wram {rd : Bool} {b : Nat} (hr : inRange rd .wram b = true) : 0xc000 ≤ b ∧ b < 0xe000 := by
  simpa [inRange] using hr
theorem rng_echo {rd : Bool} {b : Nat} (hr : inRange rd .echo b = true) : 0xe000 ≤ b ∧ b < 0xfe00 := by
  simpa [inRange] using hr
theorem rng_oam {rd : Bool} {b : Nat} (hr : inRange rd .oam b = true) : 0xfe00 ≤ b ∧ b < 0xff00 := by
  simpa [inRange] using hr
theorem rng_hram {rd : Bool} {b : Nat} (hr : inRange rd .hram b = true) : 0xff80 ≤ b ∧ b < 0xffff := by
  simpa [inRange] using hr
theorem rng_mbc {rd : Bool} {b : Nat} (hr : inRange rd .mbc b = true) : b < 0x8000 ∨ (0xa000 ≤ b ∧ b < 0xc000) := by
  simpa [inRange] using hr
theorem rng_joyp {rd : Bool} {b : Nat} (hr : inRange rd .joyp b = true) : b = 0xff00 := by
  simpa [inRange] using hr
theorem rng_sb {rd : Bool} {b : Nat} (hr : inRange rd .sb b = true) : b = 0xff01 := by
  simpa [inRange] using hr
theorem rng_sc {rd : Bool} {b : Nat} (hr : inRange rd .sc b = true) : b = 0xff02 := by
  simpa [inRange] using hr
theorem rng_div {rd : Bool} {b : Nat} (hr : inRange rd .div b = true) : b = 0xff04 := by
  simpa [inRange] using hr
theorem rng_tima {rd : Bool} {b : Nat} (hr : inRange rd .tima b = true) : b = 0xff05 := by
  simpa [inRange] using hr
theorem rng_tma {rd : Bool} {b : Nat} (hr : inRange rd .tma b = true) : b = 0xff06 := by
  simpa [inRange] using hr
theorem rng_tac {rd : Bool} {b : Nat} (hr : inRange rd .tac b = true) : b = 0xff07 := by
  simpa [inRange] using hr
theorem rng_ifl {rd : Bool} {b : Nat} (hr : inRange rd .ifl b = true) : b = 0xff0f := by
  simpa [inRange] using hr
theorem rng_ie {rd : Bool} {b : Nat} (hr : inRange rd .ie b = true) : b = 0xffff := by
  simpa [inRange] using hr
theorem rng_lcdc {rd : Bool} {b : Nat} (hr : inRange rd .lcdc b = true) : b = 0xff40 := by
  simpa [inRange] using hr
theorem rng_stat {rd : Bool} {b : Nat} (hr : inRange rd .stat b = true) : b = 0xff41 := by
  simpa [inRange] using hr
theorem rng_scy {rd : Bool} {b : Nat} (hr : inRange rd .scy b = true) : b = 0xff42 := by
  simpa [inRange] using hr
theorem rng_scx {rd : Bool} {b : Nat} (hr : inRange rd .scx b = true) : b = 0xff43 := by
  simpa [inRange] using hr
theorem rng_ly {rd : Bool} {b : Nat} (hr : inRange rd .ly b = true) : b = 0xff44 := by
  simpa [inRange] using hr
theorem rng_lyc {rd : Bool} {b : Nat} (hr : inRange rd .lyc b = true) : b = 0xff45 := by
  simpa [inRange] using hr
theorem rng_dma {rd : Bool} {b : Nat} (hr : inRange rd .dma b = true) : b = 0xff46 := by
  simpa [inRange] using hr
theorem rng_bgp {rd : Bool} {b : Nat} (hr : inRange rd .bgp b = true) : b = 0xff47 := by
  simpa [inRange] using hr
theorem rng_obp0 {rd : Bool} {b : Nat} (hr : inRange rd .obp0 b = true) : b = 0xff48 := by
  simpa [inRange] using hr
theorem rng_obp1 {rd : Bool} {b : Nat} (hr : inRange rd .obp1 b = true) : b = 0xff49 := by
  simpa [inRange] using hr
theorem rng_wy {rd : Bool} {b : Nat} (hr : inRange rd .wy b = true) : b = 0xff4a := by
  simpa [inRange] using hr
theorem rng_wx {rd : Bool} {b : Nat} (hr : inRange rd .wx b = true) : b = 0xff4b := by
  simpa [inRange] using hr

theorem idx_ne {a b k : Nat} (h1 : k ≤ a) (h2 : k ≤ b) (h : b ≠ a) : a - k ≠ b - k := by omega
theorem idx_ne_we {a b : Nat} (ha : 0xc000 ≤ a ∧ a < 0xe000) (hb : 0xe000 ≤ b ∧ b < 0xfe00)
    (h : 0xc000 ≤ a ∧ a < 0xde00 → b ≠ a + 0x2000) : a - 0xc000 ≠ b - 0xe000 := by omega
theorem idx_ne_ew {a b : Nat} (ha : 0xe000 ≤ a ∧ a < 0xfe00) (hb : 0xc000 ≤ b ∧ b < 0xe000)
    (h : 0xe000 ≤ a ∧ a < 0xfe00 → b ≠ a - 0x2000) : a - 0xe000 ≠ b - 0xc000 := by omega

/-! ### the frame lemma -/

/-- the frame lemma with the hypothesis on the HANDLER: the written address is not routed to a sound-unit handler
    (this includes the unused addresses FF15, FF1F, FF27–FF2F inside the sound block) -/
theorem frame_h (s s' : Machine) (a v b : Nat) (ha : a < 65536) (hb : b < 65536) (hnh : isApuH (route W a) = false)
    (hw : busWrite W s a v = some s') (hf : ¬ footprint a b) : peek R s' b = peek R s b := by
  have hra := range_write ha
  have hrb := range_read hb
  unfold busWrite at hw
  unfold peek
  have hne : b ≠ a := fun h => hf (Or.inl h)
  have hmir := not_mirror (a := a) (b := b) (fun h => hf (Or.inr (Or.inl h)))
  have hcart : ¬ (a < 0x8000 ∧ cartAddr b) := fun h => hf (Or.inr (Or.inr (Or.inl h)))
  have hram : ¬ (0xa000 ≤ a ∧ a < 0xc000 ∧ 0xa000 ≤ b ∧ b < 0xc000) :=
    fun h => hf (Or.inr (Or.inr (Or.inr (Or.inl h))))
  have hside : ¬ sideEffect a b := fun h => hf (Or.inr (Or.inr (Or.inr (Or.inr h))))
  simp only [sideEffect, apuAddr] at hside
  simp only [cartAddr] at hcart
  clear hf
  have hs_div : ¬ (a = 0xff04 ∧ b = 0xff05) := fun h => hside (Or.inl h)
  have hs_tac : ¬ (a = 0xff07 ∧ b = 0xff05) := fun h => hside (Or.inr (Or.inl h))
  have hs_tma : ¬ (a = 0xff06 ∧ b = 0xff05) := fun h => hside (Or.inr (Or.inr (Or.inl h)))
  have hs_lcdc : ¬ (a = 0xff40 ∧ (b = 0xff41 ∨ b = 0xff44)) := fun h => hside (Or.inr (Or.inr (Or.inr (Or.inl h))))
  have hs_dma : ¬ (a = 0xff46 ∧ 0xfe00 ≤ b ∧ b < 0xff00) :=
    fun h => hside (Or.inr (Or.inr (Or.inr (Or.inr (Or.inl h)))))
  clear hside
  generalize route W a = wa at hw hra hnh
  generalize route R b = rb at hrb
  have hapu : ¬ isApuH wa = true := by rw [hnh]; exact Bool.false_ne_true
  cases wa
  case nr10 | nr11 | nr12 | nr13 | nr14 | nr21 | nr22 | nr23 | nr24 | nr30 | nr31 | nr32 | nr33 | nr34 | nr41 | nr42
      | nr43 | nr44 | nr50 | nr51 | nr52 | wave => exact absurd rfl hapu
  case panic | unknown | ff => simp [inRange] at hra
  case ignore | sc =>
    simp only [writeH, Option.some.injEq] at hw
    subst hw; rfl
  case vram =>
    have r := rng_vram hra
    have hi : a - 0x8000 < 0x2000 := by omega
    simp only [writeH, sub16_eq r.1 ha, stv_eq hi, Option.map_some, Option.some.injEq] at hw
    subst hw
    refine fld_vram _ _ _ _ fun e => ?_
    subst e
    have rb' := rng_vram hrb
    rw [sub16_eq rb'.1 hb]
    exact ldv_set_ne _ (idx_ne r.1 rb'.1 hne)
  case wram =>
    have r := rng_wram hra
    have hi : a - 0xc000 < 0x2000 := by omega
    simp only [writeH, sub16_eq r.1 ha, stv_eq hi, Option.map_some, Option.some.injEq] at hw
    subst hw
    refine fld_wram _ _ _ _ (fun e => ?_) (fun e => ?_)
    · subst e
      have rb' := rng_wram hrb
      rw [sub16_eq rb'.1 hb]
      exact ldv_set_ne _ (idx_ne r.1 rb'.1 hne)
    · subst e
      have rb' := rng_echo hrb
      rw [sub16_eq rb'.1 hb]
      exact ldv_set_ne _ (idx_ne_we r rb' hmir.1)
  case echo =>
    have r := rng_echo hra
    have hi : a - 0xe000 < 0x2000 := by omega
    simp only [writeH, sub16_eq r.1 ha, stv_eq hi, Option.map_some, Option.some.injEq] at hw
    subst hw
    refine fld_wram _ _ _ _ (fun e => ?_) (fun e => ?_)
    · subst e
      have rb' := rng_wram hrb
      rw [sub16_eq rb'.1 hb]
      exact ldv_set_ne _ (idx_ne_ew r rb' hmir.2)
    · subst e
      have rb' := rng_echo hrb
      rw [sub16_eq rb'.1 hb]
      exact ldv_set_ne _ (idx_ne r.1 rb'.1 hne)
  case hram =>
    have r := rng_hram hra
    have hi : a - 0xff80 < 0x8f := by omega
    simp only [writeH, sub16_eq r.1 ha, stv_eq hi, Option.map_some, Option.some.injEq] at hw
    subst hw
    refine fld_hram _ _ _ _ fun e => ?_
    subst e
    have rb' := rng_hram hrb
    rw [sub16_eq rb'.1 hb]
    exact ldv_set_ne _ (idx_ne r.1 rb'.1 hne)
  case mbc =>
    simp only [writeH, Option.map_eq_some_iff] at hw
    obtain ⟨c, hc, rfl⟩ := hw
    refine fld_cart _ _ _ _ fun e => ?_
    subst e
    have r := rng_mbc hra
    have rb' := rng_mbc hrb
    rcases r with r | r
    · exact absurd ⟨r, rb'⟩ hcart
    · rcases rb' with rb' | rb'
      · exact cart_ram_write_rom _ _ a v b r.1 r.2 rb' hc
      · exact absurd ⟨r.1, r.2, rb'.1, rb'.2⟩ hram
  case oam =>
    have r := rng_oam hra
    simp only [writeH, Option.map_eq_some_iff] at hw
    obtain ⟨o, ho, rfl⟩ := hw
    have hsh := Oam.cpuWrite_shape ho
    rw [toNat16 ha] at hsh
    have hdm : o.dmaRunning = s.oam.dmaRunning ∧ o.dma = s.oam.dma := by
      by_cases hlo : a < 0xfea0
      · obtain ⟨hi, e⟩ := hsh.1 hlo
        rw [e]; exact writeFlags_dma _
      · rw [hsh.2 (by omega)]; exact writeFlags_dma _
    refine fld_oam _ _ _ _ (fun e => ?_) (fun _ => hdm.2)
    subst e
    have rb' := rng_oam hrb
    rw [oam_read_val _ b rb'.1 rb'.2, oam_read_val _ b rb'.1 rb'.2, hdm.1]
    by_cases hlo : a < 0xfea0
    · obtain ⟨hi, e⟩ := hsh.1 hlo
      have hidx : Oam.sub16 a 0xfe00 = a - 0xfe00 := sub16_eq r.1 ha
      by_cases hbl : b - 0xfe00 < 160
      · have : o.oam[b - 0xfe00] = s.oam.oam[b - 0xfe00] := by
          rw [e]
          show (s.oam.oam.set (Oam.sub16 a 0xfe00) (BitVec.ofNat 8 v) hi)[b - 0xfe00] = _
          exact Vector.getElem_set_ne _ _ (by rw [hidx]; exact idx_ne r.1 rb'.1 hne)
        simp only [dif_pos hbl, this]
      · simp only [dif_neg hbl]
    · have : o.oam = s.oam.oam := by rw [hsh.2 (by omega)]; exact Oam.writeFlags_oam _
      rw [this]
  case joyp =>
    simp only [writeH, Option.some.injEq] at hw
    subst hw
    refine fld_joyp _ _ _ _ fun e => ?_
    subst e
    exact hne ((rng_joyp hrb).trans (rng_joyp hra).symm)
  case sb =>
    simp only [writeH, Option.some.injEq] at hw
    subst hw
    exact fld_serial _ _ _ _
  case div =>
    simp only [writeH, Option.some.injEq] at hw
    subst hw
    refine fld_timer _ _ _ _ (fun e => by subst e; exact absurd ((rng_div hrb).trans (rng_div hra).symm) hne)
      (fun e => by subst e; exact absurd ⟨rng_div hra, rng_tima hrb⟩ hs_div) (fun _ => ?_) (fun _ => ?_)
    · simp only [Timer.readTMA, Timer.writeDIV, Timer.reset, (cfe_fields _).2.2.1]
    · simp only [Timer.readTAC, Timer.writeDIV, Timer.reset, (cfe_fields _).2.1]
  case tima =>
    simp only [writeH, Option.some.injEq] at hw
    subst hw
    refine fld_timer _ _ _ _ (fun _ => ?_) (fun e => by subst e; exact absurd ((rng_tima hrb).trans (rng_tima hra).symm) hne) (fun _ => ?_) (fun _ => ?_) <;>
      (simp only [Timer.readDIV, Timer.readTMA, Timer.readTAC, Timer.writeTIMA]; split <;> rfl)
  case tma =>
    simp only [writeH, Option.some.injEq] at hw
    subst hw
    refine fld_timer _ _ _ _ (fun _ => ?_)
      (fun e => by subst e; exact absurd ⟨rng_tma hra, rng_tima hrb⟩ hs_tma) (fun e => by subst e; exact absurd ((rng_tma hrb).trans (rng_tma hra).symm) hne) (fun _ => ?_) <;>
      (simp only [Timer.readDIV, Timer.readTAC, Timer.writeTMA]; split <;> rfl)
  case tac =>
    simp only [writeH, Option.some.injEq] at hw
    subst hw
    refine fld_timer _ _ _ _ (fun _ => ?_)
      (fun e => by subst e; exact absurd ⟨rng_tac hra, rng_tima hrb⟩ hs_tac) (fun _ => ?_) (fun e => by subst e; exact absurd ((rng_tac hrb).trans (rng_tac hra).symm) hne)
    · simp only [Timer.readDIV, Timer.writeTAC, (cfe_fields _).1]
    · simp only [Timer.readTMA, Timer.writeTAC, (cfe_fields _).2.2.1]
  case ifl =>
    simp only [writeH, Option.some.injEq] at hw
    subst hw
    exact fld_intr _ _ _ _ (fun e => by subst e; exact absurd ((rng_ifl hrb).trans (rng_ifl hra).symm) hne) (fun _ => rfl)
  case ie =>
    simp only [writeH, Option.some.injEq] at hw
    subst hw
    exact fld_intr _ _ _ _ (fun _ => rfl) (fun e => by subst e; exact absurd ((rng_ie hrb).trans (rng_ie hra).symm) hne)
  case lcdc =>
    simp only [writeH, Option.some.injEq] at hw
    subst hw
    have hl := lcdc_oam s.ppu (v.testBit 7) s.oam
    refine (fld_oam { s with ppu := Lcd.wLCDC s.ppu v } _ rb b (fun e => ?_) (fun _ => hl.2.2)).trans
      (fld_ppu _ _ _ _ (fun e => by subst e; exact absurd ((rng_lcdc hrb).trans (rng_lcdc hra).symm) hne)
        (fun e => by subst e; exact absurd ⟨rng_lcdc hra, Or.inl (rng_stat hrb)⟩ hs_lcdc)
        (fun e => by subst e; exact absurd ⟨rng_lcdc hra, Or.inr (rng_ly hrb)⟩ hs_lcdc)
        (fun _ => lcdc_lyc _ _))
    subst e
    have rb' := rng_oam hrb
    exact oam_val_congr _ _ b rb'.1 rb'.2 hl.1 hl.2.1
  case stat =>
    simp only [writeH, Option.some.injEq] at hw
    subst hw
    exact fld_ppu _ _ _ _ (fun _ => rfl) (fun e => by subst e; exact absurd ((rng_stat hrb).trans (rng_stat hra).symm) hne) (fun _ => rfl) (fun _ => rfl)
  case ly =>
    simp only [writeH, Option.some.injEq] at hw
    subst hw
    exact fld_ppu _ _ _ _ (fun _ => rfl) (fun _ => rfl) (fun e => by subst e; exact absurd ((rng_ly hrb).trans (rng_ly hra).symm) hne) (fun _ => rfl)
  case lyc =>
    simp only [writeH, Option.some.injEq] at hw
    subst hw
    exact fld_ppu _ _ _ _ (fun _ => rfl) (fun _ => rfl) (fun _ => rfl) (fun e => by subst e; exact absurd ((rng_lyc hrb).trans (rng_lyc hra).symm) hne)
  case dma =>
    simp only [writeH, Option.some.injEq] at hw
    subst hw
    exact fld_oam _ _ _ _
      (fun e => by subst e; exact absurd ⟨rng_dma hra, rng_oam hrb⟩ hs_dma) (fun e => by subst e; exact absurd ((rng_dma hrb).trans (rng_dma hra).symm) hne)
  case scy =>
    simp only [writeH, Option.some.injEq] at hw
    subst hw
    exact fld_regs _ _ _ _ (fun e => by subst e; exact absurd ((rng_scy hrb).trans (rng_scy hra).symm) hne) (fun _ => rfl) (fun _ => rfl) (fun _ => rfl) (fun _ => rfl) (fun _ => rfl) (fun _ => rfl)
  case scx =>
    simp only [writeH, Option.some.injEq] at hw
    subst hw
    exact fld_regs _ _ _ _ (fun _ => rfl) (fun e => by subst e; exact absurd ((rng_scx hrb).trans (rng_scx hra).symm) hne) (fun _ => rfl) (fun _ => rfl) (fun _ => rfl) (fun _ => rfl) (fun _ => rfl)
  case bgp =>
    simp only [writeH, Option.some.injEq] at hw
    subst hw
    exact fld_regs _ _ _ _ (fun _ => rfl) (fun _ => rfl) (fun e => by subst e; exact absurd ((rng_bgp hrb).trans (rng_bgp hra).symm) hne) (fun _ => rfl) (fun _ => rfl) (fun _ => rfl) (fun _ => rfl)
  case obp0 =>
    simp only [writeH, Option.some.injEq] at hw
    subst hw
    exact fld_regs _ _ _ _ (fun _ => rfl) (fun _ => rfl) (fun _ => rfl) (fun e => by subst e; exact absurd ((rng_obp0 hrb).trans (rng_obp0 hra).symm) hne) (fun _ => rfl) (fun _ => rfl) (fun _ => rfl)
  case obp1 =>
    simp only [writeH, Option.some.injEq] at hw
    subst hw
    exact fld_regs _ _ _ _ (fun _ => rfl) (fun _ => rfl) (fun _ => rfl) (fun _ => rfl) (fun e => by subst e; exact absurd ((rng_obp1 hrb).trans (rng_obp1 hra).symm) hne) (fun _ => rfl) (fun _ => rfl)
  case wy =>
    simp only [writeH, Option.some.injEq] at hw
    subst hw
    exact fld_regs _ _ _ _ (fun _ => rfl) (fun _ => rfl) (fun _ => rfl) (fun _ => rfl) (fun _ => rfl) (fun e => by subst e; exact absurd ((rng_wy hrb).trans (rng_wy hra).symm) hne) (fun _ => rfl)
  case wx =>
    simp only [writeH, Option.some.injEq] at hw
    subst hw
    exact fld_regs _ _ _ _ (fun _ => rfl) (fun _ => rfl) (fun _ => rfl) (fun _ => rfl) (fun _ => rfl) (fun _ => rfl) (fun e => by subst e; exact absurd ((rng_wx hrb).trans (rng_wx hra).symm) hne)

theorem frame (s s' : Machine) (a v b : Nat) (ha : a < 65536) (hb : b < 65536) (hna : ¬ apuAddr a)
    (hw : busWrite W s a v = some s') (hf : ¬ footprint a b) : peek R s' b = peek R s b := by
  refine frame_h s s' a v b ha hb ?_ hw hf
  cases h : isApuH (route W a)
  · rfl
  · exact absurd (apu_of_range (range_write ha) h) (by simpa only [apuAddr] using hna)

/-- the machine after a read reads the same everywhere (only the OAM-bug flag may have been set) -/
theorem read_keeps (s : Machine) (h : H) (a b : Nat) (hb : b < 65536) :
    peek R (readEff h s a) b = peek R s b
    ∧ (readEff h s a).timer = s.timer ∧ (readEff h s a).ppu = s.ppu
    ∧ (readEff h s a).oam.dmaRunning = s.oam.dmaRunning := by
  by_cases hh : h = .oam
  · subst hh
    simp only [readEff]
    cases hc : Oam.cpuRead s.oam (BitVec.ofNat 16 a) with
    | none => exact ⟨rfl, rfl, rfl, rfl⟩
    | some p =>
      have hsh := Oam.cpuRead_shape hc
      have hfl : p.1.dmaRunning = s.oam.dmaRunning ∧ p.1.oam = s.oam.oam ∧ p.1.dma = s.oam.dma := by
        rcases hsh with e | ⟨_, _, e⟩ <;> rw [e] <;> exact ⟨rfl, rfl, rfl⟩
      refine ⟨?_, rfl, rfl, hfl.1⟩
      unfold peek
      have hrb := range_read hb
      generalize route R b = rb at hrb
      refine fld_oam _ _ _ _ (fun e => ?_) (fun _ => hfl.2.2)
      subst e
      have r := rng_oam hrb
      exact oam_val_congr _ _ b r.1 r.2 hfl.1 hfl.2.1
  · have : readEff h s a = s := by cases h <;> first | rfl | exact absurd rfl hh
    rw [this]; exact ⟨rfl, rfl, rfl, rfl⟩

end Tetro.BusFrame
