import Tetro.Spec.Apu
import Tetro.Lemmas.LfsrCheck
/- kernel evaluation of the whole orbit of the documented 15-bit noise generator (C21) -/
namespace Tetro.C21
open Tetro.Spec.Apu Tetro.Countdown

theorem lfsr15_minimal : MinimalPeriod lfsr15 0x7fff 32767 :=
  minimalPeriod_of_check lfsr15 0x7fff 32766 (by decide +kernel) (by decide +kernel)

theorem lfsr7_minimal : MinimalPeriod lfsr7 0x7f 127 :=
  minimalPeriod_of_check lfsr7 0x7f 126 (by decide +kernel) (by decide +kernel)

end Tetro.C21
