import Tetro.Lemmas.ApuStatus
import Tetro.Lemmas.ApuView
/-
Status-bit lemmas for register writes (C19): no write other than an NRx4 write with the trigger
bit set switches a channel on; an NRx4 write touches only its own channel.
-/
namespace Tetro.Model.Apu

namespace Square
theorem en_writeNR10 (s : Square) (v : Nat) : (s.writeNR10 v).enabled = true → s.enabled = true := by status_tac [writeNR10]
theorem en_writeNRx2 (s : Square) (v : Nat) : (s.writeNRx2 v).enabled = true → s.enabled = true := by status_tac [writeNRx2]
theorem en_extraLenClock (s : Square) (fs : Nat) (le t : Bool) : (s.extraLenClock fs le t).enabled = true → s.enabled = true := by
  status_tac [extraLenClock]
end Square
namespace Wave
theorem en_writeNR30 (w : Wave) (v : Nat) : (w.writeNR30 v).enabled = true → w.enabled = true := by status_tac [writeNR30]
theorem en_extraLenClock (w : Wave) (fs : Nat) (le t : Bool) : (w.extraLenClock fs le t).enabled = true → w.enabled = true := by
  status_tac [extraLenClock]
theorem en_writeRam (w : Wave) (i v : Nat) : (w.writeRam i v).enabled = w.enabled := by
  simp only [writeRam]; repeat' split
  all_goals rfl
end Wave
namespace Noise
theorem en_writeNR42 (n : Noise) (v : Nat) : (n.writeNR42 v).enabled = true → n.enabled = true := by status_tac [writeNR42]
theorem en_extraLenClock (n : Noise) (fs : Nat) (le t : Bool) : (n.extraLenClock fs le t).enabled = true → n.enabled = true := by
  status_tac [extraLenClock]
end Noise

namespace Apu
theorem st_writeNR10 (a : Apu) (v : Nat) : StatusLe (a.writeNR10 v).status a.status := by
  unfold writeNR10; split
  · exact StatusLe.refl _
  · exact ⟨Square.en_writeNR10 _ _, id, id, id⟩
theorem st_writeNR11 (a : Apu) (v : Nat) : StatusLe (a.writeNR11 v).status a.status := ⟨id, id, id, id⟩
theorem st_writeNR12 (a : Apu) (v : Nat) : StatusLe (a.writeNR12 v).status a.status := by
  unfold writeNR12; split
  · exact StatusLe.refl _
  · exact ⟨Square.en_writeNRx2 _ _, id, id, id⟩
theorem st_writeNR13 (a : Apu) (v : Nat) : StatusLe (a.writeNR13 v).status a.status := by
  unfold writeNR13; split
  · exact StatusLe.refl _
  · exact ⟨id, id, id, id⟩
theorem st_writeNR21 (a : Apu) (v : Nat) : StatusLe (a.writeNR21 v).status a.status := ⟨id, id, id, id⟩
theorem st_writeNR22 (a : Apu) (v : Nat) : StatusLe (a.writeNR22 v).status a.status := by
  unfold writeNR22; split
  · exact StatusLe.refl _
  · exact ⟨id, Square.en_writeNRx2 _ _, id, id⟩
theorem st_writeNR23 (a : Apu) (v : Nat) : StatusLe (a.writeNR23 v).status a.status := by
  unfold writeNR23; split
  · exact StatusLe.refl _
  · exact ⟨id, id, id, id⟩
theorem st_writeNR30 (a : Apu) (v : Nat) : StatusLe (a.writeNR30 v).status a.status := by
  unfold writeNR30; split
  · exact StatusLe.refl _
  · exact ⟨id, id, Wave.en_writeNR30 _ _, id⟩
theorem st_writeNR31 (a : Apu) (v : Nat) : StatusLe (a.writeNR31 v).status a.status := ⟨id, id, id, id⟩
theorem st_writeNR32 (a : Apu) (v : Nat) : StatusLe (a.writeNR32 v).status a.status := by
  unfold writeNR32; split
  · exact StatusLe.refl _
  · exact ⟨id, id, id, id⟩
theorem st_writeNR33 (a : Apu) (v : Nat) : StatusLe (a.writeNR33 v).status a.status := by
  unfold writeNR33; split
  · exact StatusLe.refl _
  · exact ⟨id, id, id, id⟩
theorem st_writeNR41 (a : Apu) (v : Nat) : StatusLe (a.writeNR41 v).status a.status := ⟨id, id, id, id⟩
theorem st_writeNR42 (a : Apu) (v : Nat) : StatusLe (a.writeNR42 v).status a.status := by
  unfold writeNR42; split
  · exact StatusLe.refl _
  · exact ⟨id, id, id, Noise.en_writeNR42 _ _⟩
theorem st_writeNR43 (a : Apu) (v : Nat) : StatusLe (a.writeNR43 v).status a.status := by
  unfold writeNR43; split
  · exact StatusLe.refl _
  · exact ⟨id, id, id, id⟩
theorem st_writeNR50 (a : Apu) (v : Nat) : StatusLe (a.writeNR50 v).status a.status := by
  unfold writeNR50; split
  · exact StatusLe.refl _
  · exact ⟨id, id, id, id⟩
theorem st_writeNR51 (a : Apu) (v : Nat) : StatusLe (a.writeNR51 v).status a.status := by
  unfold writeNR51; split
  · exact StatusLe.refl _
  · exact ⟨id, id, id, id⟩
theorem st_writeNR52 (a : Apu) (v : Nat) : StatusLe (a.writeNR52 v).status a.status := by
  unfold writeNR52; split
  · rw [powerOff_status]; exact ⟨fun h => Bool.noConfusion h, fun h => Bool.noConfusion h, fun h => Bool.noConfusion h, fun h => Bool.noConfusion h⟩
  · unfold powerOn; split
    · exact ⟨id, id, id, id⟩
    · exact ⟨id, id, id, id⟩
theorem st_writeWaveRAM (a : Apu) (i v : Nat) : StatusLe (a.writeWaveRAM i v).status a.status := by
  refine ⟨id, id, ?_, id⟩
  show (a.ch3.writeRam i v).enabled = true → a.ch3.enabled = true
  rw [Wave.en_writeRam]; exact id

/-- an NRx4 write leaves the other three channels alone -/
theorem others_writeNR14 (a : Apu) (v : Nat) : (a.writeNR14 v).ch2 = a.ch2 ∧ (a.writeNR14 v).ch3 = a.ch3 ∧ (a.writeNR14 v).ch4 = a.ch4 := by
  unfold writeNR14; split <;> exact ⟨rfl, rfl, rfl⟩
theorem others_writeNR24 (a : Apu) (v : Nat) : (a.writeNR24 v).ch1 = a.ch1 ∧ (a.writeNR24 v).ch3 = a.ch3 ∧ (a.writeNR24 v).ch4 = a.ch4 := by
  unfold writeNR24; split <;> exact ⟨rfl, rfl, rfl⟩
theorem others_writeNR34 (a : Apu) (v : Nat) : (a.writeNR34 v).ch1 = a.ch1 ∧ (a.writeNR34 v).ch2 = a.ch2 ∧ (a.writeNR34 v).ch4 = a.ch4 := by
  unfold writeNR34; split <;> exact ⟨rfl, rfl, rfl⟩
theorem others_writeNR44 (a : Apu) (v : Nat) : (a.writeNR44 v).ch1 = a.ch1 ∧ (a.writeNR44 v).ch2 = a.ch2 ∧ (a.writeNR44 v).ch3 = a.ch3 := by
  unfold writeNR44; split <;> exact ⟨rfl, rfl, rfl⟩

/-- every bus write: a channel can be switched ON only by a write to its own NRx4 -/
theorem status_writeB (a : Apu) (addr v : Nat) :
    (addr ≠ 0xFF14 → (a.writeB addr v).ch1.enabled = true → a.ch1.enabled = true) ∧
    (addr ≠ 0xFF19 → (a.writeB addr v).ch2.enabled = true → a.ch2.enabled = true) ∧
    (addr ≠ 0xFF1E → (a.writeB addr v).ch3.enabled = true → a.ch3.enabled = true) ∧
    (addr ≠ 0xFF23 → (a.writeB addr v).ch4.enabled = true → a.ch4.enabled = true) := by
  have key : ∀ b : Apu, StatusLe b.status a.status →
      (addr ≠ 0xFF14 → b.ch1.enabled = true → a.ch1.enabled = true) ∧ (addr ≠ 0xFF19 → b.ch2.enabled = true → a.ch2.enabled = true) ∧
      (addr ≠ 0xFF1E → b.ch3.enabled = true → a.ch3.enabled = true) ∧ (addr ≠ 0xFF23 → b.ch4.enabled = true → a.ch4.enabled = true) :=
    fun b h => ⟨fun _ => h.1, fun _ => h.2.1, fun _ => h.2.2.1, fun _ => h.2.2.2⟩
  rcases addr_cases addr with e|e|e|e|e|e|e|e|e|e|e|e|e|e|e|e|e|e|e|e|e|⟨hn, h52⟩
  · subst e; rw [writeB_FF10]; exact key _ (st_writeNR10 a v)
  · subst e; rw [writeB_FF11]; exact key _ (st_writeNR11 a v)
  · subst e; rw [writeB_FF12]; exact key _ (st_writeNR12 a v)
  · subst e; rw [writeB_FF13]; exact key _ (st_writeNR13 a v)
  · subst e; rw [writeB_FF14]
    obtain ⟨o2, o3, o4⟩ := others_writeNR14 a v
    exact ⟨fun h => absurd rfl h, fun _ => by rw [o2]; exact id, fun _ => by rw [o3]; exact id, fun _ => by rw [o4]; exact id⟩
  · subst e; rw [writeB_FF16]; exact key _ (st_writeNR21 a v)
  · subst e; rw [writeB_FF17]; exact key _ (st_writeNR22 a v)
  · subst e; rw [writeB_FF18]; exact key _ (st_writeNR23 a v)
  · subst e; rw [writeB_FF19]
    obtain ⟨o1, o3, o4⟩ := others_writeNR24 a v
    exact ⟨fun _ => by rw [o1]; exact id, fun h => absurd rfl h, fun _ => by rw [o3]; exact id, fun _ => by rw [o4]; exact id⟩
  · subst e; rw [writeB_FF1A]; exact key _ (st_writeNR30 a v)
  · subst e; rw [writeB_FF1B]; exact key _ (st_writeNR31 a v)
  · subst e; rw [writeB_FF1C]; exact key _ (st_writeNR32 a v)
  · subst e; rw [writeB_FF1D]; exact key _ (st_writeNR33 a v)
  · subst e; rw [writeB_FF1E]
    obtain ⟨o1, o2, o4⟩ := others_writeNR34 a v
    exact ⟨fun _ => by rw [o1]; exact id, fun _ => by rw [o2]; exact id, fun h => absurd rfl h, fun _ => by rw [o4]; exact id⟩
  · subst e; rw [writeB_FF20]; exact key _ (st_writeNR41 a v)
  · subst e; rw [writeB_FF21]; exact key _ (st_writeNR42 a v)
  · subst e; rw [writeB_FF22]; exact key _ (st_writeNR43 a v)
  · subst e; rw [writeB_FF23]
    obtain ⟨o1, o2, o3⟩ := others_writeNR44 a v
    exact ⟨fun _ => by rw [o1]; exact id, fun _ => by rw [o2]; exact id, fun _ => by rw [o3]; exact id, fun h => absurd rfl h⟩
  · subst e; rw [writeB_FF24]; exact key _ (st_writeNR50 a v)
  · subst e; rw [writeB_FF25]; exact key _ (st_writeNR51 a v)
  · subst e; rw [writeB_FF26]; exact key _ (st_writeNR52 a v)
  · rw [writeB_other _ _ _ hn h52]
    repeat' split
    all_goals first | exact key _ (StatusLe.refl _) | exact key _ (st_writeWaveRAM a _ v)

/-! which writes can change which status bit at all -/

theorem eq_writeNR10 (a : Apu) (v : Nat) : (a.writeNR10 v).ch2.enabled = a.ch2.enabled ∧ (a.writeNR10 v).ch3.enabled = a.ch3.enabled ∧ (a.writeNR10 v).ch4.enabled = a.ch4.enabled := by
  unfold writeNR10; split <;> exact ⟨rfl, rfl, rfl⟩
theorem eq_writeNR11 (a : Apu) (v : Nat) : (a.writeNR11 v).ch1.enabled = a.ch1.enabled ∧ (a.writeNR11 v).ch2.enabled = a.ch2.enabled ∧ (a.writeNR11 v).ch3.enabled = a.ch3.enabled ∧ (a.writeNR11 v).ch4.enabled = a.ch4.enabled := ⟨rfl, rfl, rfl, rfl⟩
theorem eq_writeNR12 (a : Apu) (v : Nat) : (a.writeNR12 v).ch2.enabled = a.ch2.enabled ∧ (a.writeNR12 v).ch3.enabled = a.ch3.enabled ∧ (a.writeNR12 v).ch4.enabled = a.ch4.enabled := by
  unfold writeNR12; split <;> exact ⟨rfl, rfl, rfl⟩
theorem eq_writeNR13 (a : Apu) (v : Nat) : (a.writeNR13 v).ch1.enabled = a.ch1.enabled ∧ (a.writeNR13 v).ch2.enabled = a.ch2.enabled ∧ (a.writeNR13 v).ch3.enabled = a.ch3.enabled ∧ (a.writeNR13 v).ch4.enabled = a.ch4.enabled := by
  unfold writeNR13; split <;> exact ⟨rfl, rfl, rfl, rfl⟩
theorem eq_writeNR14 (a : Apu) (v : Nat) : (a.writeNR14 v).ch2.enabled = a.ch2.enabled ∧ (a.writeNR14 v).ch3.enabled = a.ch3.enabled ∧ (a.writeNR14 v).ch4.enabled = a.ch4.enabled := by
  unfold writeNR14; split <;> exact ⟨rfl, rfl, rfl⟩
theorem eq_writeNR21 (a : Apu) (v : Nat) : (a.writeNR21 v).ch1.enabled = a.ch1.enabled ∧ (a.writeNR21 v).ch2.enabled = a.ch2.enabled ∧ (a.writeNR21 v).ch3.enabled = a.ch3.enabled ∧ (a.writeNR21 v).ch4.enabled = a.ch4.enabled := ⟨rfl, rfl, rfl, rfl⟩
theorem eq_writeNR22 (a : Apu) (v : Nat) : (a.writeNR22 v).ch1.enabled = a.ch1.enabled ∧ (a.writeNR22 v).ch3.enabled = a.ch3.enabled ∧ (a.writeNR22 v).ch4.enabled = a.ch4.enabled := by
  unfold writeNR22; split <;> exact ⟨rfl, rfl, rfl⟩
theorem eq_writeNR23 (a : Apu) (v : Nat) : (a.writeNR23 v).ch1.enabled = a.ch1.enabled ∧ (a.writeNR23 v).ch2.enabled = a.ch2.enabled ∧ (a.writeNR23 v).ch3.enabled = a.ch3.enabled ∧ (a.writeNR23 v).ch4.enabled = a.ch4.enabled := by
  unfold writeNR23; split <;> exact ⟨rfl, rfl, rfl, rfl⟩
theorem eq_writeNR24 (a : Apu) (v : Nat) : (a.writeNR24 v).ch1.enabled = a.ch1.enabled ∧ (a.writeNR24 v).ch3.enabled = a.ch3.enabled ∧ (a.writeNR24 v).ch4.enabled = a.ch4.enabled := by
  unfold writeNR24; split <;> exact ⟨rfl, rfl, rfl⟩
theorem eq_writeNR30 (a : Apu) (v : Nat) : (a.writeNR30 v).ch1.enabled = a.ch1.enabled ∧ (a.writeNR30 v).ch2.enabled = a.ch2.enabled ∧ (a.writeNR30 v).ch4.enabled = a.ch4.enabled := by
  unfold writeNR30; split <;> exact ⟨rfl, rfl, rfl⟩
theorem eq_writeNR31 (a : Apu) (v : Nat) : (a.writeNR31 v).ch1.enabled = a.ch1.enabled ∧ (a.writeNR31 v).ch2.enabled = a.ch2.enabled ∧ (a.writeNR31 v).ch3.enabled = a.ch3.enabled ∧ (a.writeNR31 v).ch4.enabled = a.ch4.enabled := ⟨rfl, rfl, rfl, rfl⟩
theorem eq_writeNR32 (a : Apu) (v : Nat) : (a.writeNR32 v).ch1.enabled = a.ch1.enabled ∧ (a.writeNR32 v).ch2.enabled = a.ch2.enabled ∧ (a.writeNR32 v).ch3.enabled = a.ch3.enabled ∧ (a.writeNR32 v).ch4.enabled = a.ch4.enabled := by
  unfold writeNR32; split <;> exact ⟨rfl, rfl, rfl, rfl⟩
theorem eq_writeNR33 (a : Apu) (v : Nat) : (a.writeNR33 v).ch1.enabled = a.ch1.enabled ∧ (a.writeNR33 v).ch2.enabled = a.ch2.enabled ∧ (a.writeNR33 v).ch3.enabled = a.ch3.enabled ∧ (a.writeNR33 v).ch4.enabled = a.ch4.enabled := by
  unfold writeNR33; split <;> exact ⟨rfl, rfl, rfl, rfl⟩
theorem eq_writeNR34 (a : Apu) (v : Nat) : (a.writeNR34 v).ch1.enabled = a.ch1.enabled ∧ (a.writeNR34 v).ch2.enabled = a.ch2.enabled ∧ (a.writeNR34 v).ch4.enabled = a.ch4.enabled := by
  unfold writeNR34; split <;> exact ⟨rfl, rfl, rfl⟩
theorem eq_writeNR41 (a : Apu) (v : Nat) : (a.writeNR41 v).ch1.enabled = a.ch1.enabled ∧ (a.writeNR41 v).ch2.enabled = a.ch2.enabled ∧ (a.writeNR41 v).ch3.enabled = a.ch3.enabled ∧ (a.writeNR41 v).ch4.enabled = a.ch4.enabled := ⟨rfl, rfl, rfl, rfl⟩
theorem eq_writeNR42 (a : Apu) (v : Nat) : (a.writeNR42 v).ch1.enabled = a.ch1.enabled ∧ (a.writeNR42 v).ch2.enabled = a.ch2.enabled ∧ (a.writeNR42 v).ch3.enabled = a.ch3.enabled := by
  unfold writeNR42; split <;> exact ⟨rfl, rfl, rfl⟩
theorem eq_writeNR43 (a : Apu) (v : Nat) : (a.writeNR43 v).ch1.enabled = a.ch1.enabled ∧ (a.writeNR43 v).ch2.enabled = a.ch2.enabled ∧ (a.writeNR43 v).ch3.enabled = a.ch3.enabled ∧ (a.writeNR43 v).ch4.enabled = a.ch4.enabled := by
  unfold writeNR43; split <;> exact ⟨rfl, rfl, rfl, rfl⟩
theorem eq_writeNR44 (a : Apu) (v : Nat) : (a.writeNR44 v).ch1.enabled = a.ch1.enabled ∧ (a.writeNR44 v).ch2.enabled = a.ch2.enabled ∧ (a.writeNR44 v).ch3.enabled = a.ch3.enabled := by
  unfold writeNR44; split <;> exact ⟨rfl, rfl, rfl⟩
theorem eq_writeNR50 (a : Apu) (v : Nat) : (a.writeNR50 v).ch1.enabled = a.ch1.enabled ∧ (a.writeNR50 v).ch2.enabled = a.ch2.enabled ∧ (a.writeNR50 v).ch3.enabled = a.ch3.enabled ∧ (a.writeNR50 v).ch4.enabled = a.ch4.enabled := by
  unfold writeNR50; split <;> exact ⟨rfl, rfl, rfl, rfl⟩
theorem eq_writeNR51 (a : Apu) (v : Nat) : (a.writeNR51 v).ch1.enabled = a.ch1.enabled ∧ (a.writeNR51 v).ch2.enabled = a.ch2.enabled ∧ (a.writeNR51 v).ch3.enabled = a.ch3.enabled ∧ (a.writeNR51 v).ch4.enabled = a.ch4.enabled := by
  unfold writeNR51; split <;> exact ⟨rfl, rfl, rfl, rfl⟩
theorem eq_writeWaveRAM (a : Apu) (i v : Nat) : (a.writeWaveRAM i v).ch1.enabled = a.ch1.enabled ∧
    (a.writeWaveRAM i v).ch2.enabled = a.ch2.enabled ∧ (a.writeWaveRAM i v).ch3.enabled = a.ch3.enabled ∧
    (a.writeWaveRAM i v).ch4.enabled = a.ch4.enabled := ⟨rfl, rfl, Wave.en_writeRam _ _ _, rfl⟩

/-- a status bit can be CHANGED only by a write to the channel's own NRx0/NRx2/NRx4 or to NR52 -/
theorem status_writeB_eq (a : Apu) (addr v : Nat) :
    (addr ≠ 0xFF10 → addr ≠ 0xFF12 → addr ≠ 0xFF14 → addr ≠ 0xFF26 → (a.writeB addr v).ch1.enabled = a.ch1.enabled) ∧
    (addr ≠ 0xFF17 → addr ≠ 0xFF19 → addr ≠ 0xFF26 → (a.writeB addr v).ch2.enabled = a.ch2.enabled) ∧
    (addr ≠ 0xFF1A → addr ≠ 0xFF1E → addr ≠ 0xFF26 → (a.writeB addr v).ch3.enabled = a.ch3.enabled) ∧
    (addr ≠ 0xFF21 → addr ≠ 0xFF23 → addr ≠ 0xFF26 → (a.writeB addr v).ch4.enabled = a.ch4.enabled) := by
  rcases addr_cases addr with e|e|e|e|e|e|e|e|e|e|e|e|e|e|e|e|e|e|e|e|e|⟨hn, h52⟩
  · subst e; rw [writeB_FF10]; obtain ⟨q2, q3, q4⟩ := eq_writeNR10 a v
    exact ⟨fun h _ _ _ => absurd rfl h, fun _ _ _ => q2, fun _ _ _ => q3, fun _ _ _ => q4⟩
  · subst e; rw [writeB_FF11]; obtain ⟨q1, q2, q3, q4⟩ := eq_writeNR11 a v
    exact ⟨fun _ _ _ _ => q1, fun _ _ _ => q2, fun _ _ _ => q3, fun _ _ _ => q4⟩
  · subst e; rw [writeB_FF12]; obtain ⟨q2, q3, q4⟩ := eq_writeNR12 a v
    exact ⟨fun _ h _ _ => absurd rfl h, fun _ _ _ => q2, fun _ _ _ => q3, fun _ _ _ => q4⟩
  · subst e; rw [writeB_FF13]; obtain ⟨q1, q2, q3, q4⟩ := eq_writeNR13 a v
    exact ⟨fun _ _ _ _ => q1, fun _ _ _ => q2, fun _ _ _ => q3, fun _ _ _ => q4⟩
  · subst e; rw [writeB_FF14]; obtain ⟨q2, q3, q4⟩ := eq_writeNR14 a v
    exact ⟨fun _ _ h _ => absurd rfl h, fun _ _ _ => q2, fun _ _ _ => q3, fun _ _ _ => q4⟩
  · subst e; rw [writeB_FF16]; obtain ⟨q1, q2, q3, q4⟩ := eq_writeNR21 a v
    exact ⟨fun _ _ _ _ => q1, fun _ _ _ => q2, fun _ _ _ => q3, fun _ _ _ => q4⟩
  · subst e; rw [writeB_FF17]; obtain ⟨q1, q3, q4⟩ := eq_writeNR22 a v
    exact ⟨fun _ _ _ _ => q1, fun h _ _ => absurd rfl h, fun _ _ _ => q3, fun _ _ _ => q4⟩
  · subst e; rw [writeB_FF18]; obtain ⟨q1, q2, q3, q4⟩ := eq_writeNR23 a v
    exact ⟨fun _ _ _ _ => q1, fun _ _ _ => q2, fun _ _ _ => q3, fun _ _ _ => q4⟩
  · subst e; rw [writeB_FF19]; obtain ⟨q1, q3, q4⟩ := eq_writeNR24 a v
    exact ⟨fun _ _ _ _ => q1, fun _ h _ => absurd rfl h, fun _ _ _ => q3, fun _ _ _ => q4⟩
  · subst e; rw [writeB_FF1A]; obtain ⟨q1, q2, q4⟩ := eq_writeNR30 a v
    exact ⟨fun _ _ _ _ => q1, fun _ _ _ => q2, fun h _ _ => absurd rfl h, fun _ _ _ => q4⟩
  · subst e; rw [writeB_FF1B]; obtain ⟨q1, q2, q3, q4⟩ := eq_writeNR31 a v
    exact ⟨fun _ _ _ _ => q1, fun _ _ _ => q2, fun _ _ _ => q3, fun _ _ _ => q4⟩
  · subst e; rw [writeB_FF1C]; obtain ⟨q1, q2, q3, q4⟩ := eq_writeNR32 a v
    exact ⟨fun _ _ _ _ => q1, fun _ _ _ => q2, fun _ _ _ => q3, fun _ _ _ => q4⟩
  · subst e; rw [writeB_FF1D]; obtain ⟨q1, q2, q3, q4⟩ := eq_writeNR33 a v
    exact ⟨fun _ _ _ _ => q1, fun _ _ _ => q2, fun _ _ _ => q3, fun _ _ _ => q4⟩
  · subst e; rw [writeB_FF1E]; obtain ⟨q1, q2, q4⟩ := eq_writeNR34 a v
    exact ⟨fun _ _ _ _ => q1, fun _ _ _ => q2, fun _ h _ => absurd rfl h, fun _ _ _ => q4⟩
  · subst e; rw [writeB_FF20]; obtain ⟨q1, q2, q3, q4⟩ := eq_writeNR41 a v
    exact ⟨fun _ _ _ _ => q1, fun _ _ _ => q2, fun _ _ _ => q3, fun _ _ _ => q4⟩
  · subst e; rw [writeB_FF21]; obtain ⟨q1, q2, q3⟩ := eq_writeNR42 a v
    exact ⟨fun _ _ _ _ => q1, fun _ _ _ => q2, fun _ _ _ => q3, fun h _ _ => absurd rfl h⟩
  · subst e; rw [writeB_FF22]; obtain ⟨q1, q2, q3, q4⟩ := eq_writeNR43 a v
    exact ⟨fun _ _ _ _ => q1, fun _ _ _ => q2, fun _ _ _ => q3, fun _ _ _ => q4⟩
  · subst e; rw [writeB_FF23]; obtain ⟨q1, q2, q3⟩ := eq_writeNR44 a v
    exact ⟨fun _ _ _ _ => q1, fun _ _ _ => q2, fun _ _ _ => q3, fun _ h _ => absurd rfl h⟩
  · subst e; rw [writeB_FF24]; obtain ⟨q1, q2, q3, q4⟩ := eq_writeNR50 a v
    exact ⟨fun _ _ _ _ => q1, fun _ _ _ => q2, fun _ _ _ => q3, fun _ _ _ => q4⟩
  · subst e; rw [writeB_FF25]; obtain ⟨q1, q2, q3, q4⟩ := eq_writeNR51 a v
    exact ⟨fun _ _ _ _ => q1, fun _ _ _ => q2, fun _ _ _ => q3, fun _ _ _ => q4⟩
  · subst e
    exact ⟨fun _ _ _ h => absurd rfl h, fun _ _ h => absurd rfl h, fun _ _ h => absurd rfl h, fun _ _ h => absurd rfl h⟩
  · rw [writeB_other _ _ _ hn h52]
    repeat' split
    · exact ⟨fun _ _ _ _ => rfl, fun _ _ _ => rfl, fun _ _ _ => rfl, fun _ _ _ => rfl⟩
    · obtain ⟨q1, q2, q3, q4⟩ := eq_writeWaveRAM a (addr - 0xFF30) v
      exact ⟨fun _ _ _ _ => q1, fun _ _ _ => q2, fun _ _ _ => q3, fun _ _ _ => q4⟩
    · exact ⟨fun _ _ _ _ => rfl, fun _ _ _ => rfl, fun _ _ _ => rfl, fun _ _ _ => rfl⟩

end Apu
end Tetro.Model.Apu
