import Tetro.Lemmas.CpuBasic
/-
C01 per instruction family: DAA CPL SCF CCF NOP STOP HALT DI EI.
DAA: for each of the 8 (N,H,C) combinations, all 256 accumulator values by kernel evaluation
(the model adjusts the low digit first, the spec the high digit first).
-/
set_option linter.unusedSimpArgs false
set_option linter.constructorNameAsVariable false
namespace Tetro.C01
open Tetro.Model.Cpu Tetro.Spec.Isa

theorem holds_nop : Holds .nop := by
  intro r m _
  c01_simp
theorem holds_stop : Holds .stop := by
  intro r m _
  c01_simp
theorem holds_di : Holds .di := by
  intro r m _
  c01_simp
theorem holds_ei : Holds .ei := by
  intro r m _
  c01_simp
theorem holds_cpl : Holds .cpl := by
  intro r m _
  c01_simp
theorem holds_scf : Holds .scf := by
  intro r m _
  c01_simp
theorem holds_ccf : Holds .ccf := by
  intro r m _
  c01_simp
theorem holds_halt : Holds .halt := by
  intro r m _
  c01_simp [haltF]
  split
  · simp
  · split <;> simp

theorem ite_setCf (c : Prop) [Decidable c] (r1 : Regs) :
    (if c then r1.setCf true else r1) = { r1 with f := if c then setFlag cFlag true r1.f else r1.f } := by
  split <;> rfl
/-- `daaF` with the conditional carry update pushed into the F field (same function) -/
theorem daaF_eq (r : Regs) : daaF r =
    if r.nf then
      let a1 := if r.hf then r.a - 0x06 else r.a
      let a2 := if r.cf then a1 - 0x60 else a1
      ({ r with a := a2 }.setZf (a2 == 0)).setHf false
    else
      let a := r.a
      let a1 := if r.hf || decide (a.toNat % 16 > 9) then a + 0x06 else a
      let adj := r.cf || decide (a.toNat / 16 > 9) || decide (a1.toNat / 16 > 9)
      let a2 := if adj then a1 + 0x60 else a1
      ({ r with a := a2, f := if adj then setFlag cFlag true r.f else r.f }.setZf (a2 == 0)).setHf false := by
  unfold daaF
  split
  · rfl
  · dsimp only
    rw [ite_setCf]

theorem holds_daa : Holds .daa := by
  intro r m _
  rcases Bool.eq_false_or_eq_true (fn r.f) with hn | hn <;>
  rcases Bool.eq_false_or_eq_true (fh r.f) with hh | hh <;>
  rcases Bool.eq_false_or_eq_true (fc r.f) with hc | hc <;>
  c01_simp [daaF_eq, daaExec, hn, hh, hc, apply_ite fz, apply_ite fn, apply_ite fh, apply_ite fc] <;>
  (repeat' apply And.intro) <;>
  (generalize r.a = a; revert a; apply Tetro.forall_bv8; decide +kernel)

end Tetro.C01
