import Tetro.Lemmas.CpuBasic
/-
Rotates/shifts and single-bit operations of the model against the integer formulas of the spec:
one byte (and the carry) at a time by kernel evaluation.
-/
set_option linter.unusedSimpArgs false
namespace Tetro.C01
open Tetro.Model.Cpu Tetro.Spec.Isa

theorem rotCore_eq (op : Rot) (cin : Bool) (v : Byte) : rotCore (rotM op) cin v = rotExec op cin v := by
  cases op <;> cases cin <;> (revert v; apply Tetro.forall_bv8; decide +kernel)

theorem rotCore_rlc (cin : Bool) (v : Byte) : rotCore .rlc cin v = rotExec .rlc cin v := rotCore_eq .rlc cin v
theorem rotCore_rrc (cin : Bool) (v : Byte) : rotCore .rrc cin v = rotExec .rrc cin v := rotCore_eq .rrc cin v
theorem rotCore_rl (cin : Bool) (v : Byte) : rotCore .rl cin v = rotExec .rl cin v := rotCore_eq .rl cin v
theorem rotCore_rr (cin : Bool) (v : Byte) : rotCore .rr cin v = rotExec .rr cin v := rotCore_eq .rr cin v

theorem lt8_cases {n : Nat} (hn : n < 8) : n = 0 ∨ n = 1 ∨ n = 2 ∨ n = 3 ∨ n = 4 ∨ n = 5 ∨ n = 6 ∨ n = 7 := by
  omega

theorem bit_eq (n : Nat) (hn : n < 8) (v : Byte) :
    (v &&& bitMask n == 0#8) = decide (v.toNat / 2 ^ n % 2 = 0) := by
  rcases lt8_cases hn with rfl | rfl | rfl | rfl | rfl | rfl | rfl | rfl <;>
    (revert v; apply Tetro.forall_bv8; decide +kernel)

theorem res_eq (n : Nat) (hn : n < 8) (v : Byte) :
    v &&& ~~~bitMask n = BitVec.ofNat 8 (v.toNat - v.toNat / 2 ^ n % 2 * 2 ^ n) := by
  rcases lt8_cases hn with rfl | rfl | rfl | rfl | rfl | rfl | rfl | rfl <;>
    (revert v; apply Tetro.forall_bv8; decide +kernel)

theorem set_eq (n : Nat) (hn : n < 8) (v : Byte) :
    v ||| bitMask n = BitVec.ofNat 8 (v.toNat + (1 - v.toNat / 2 ^ n % 2) * 2 ^ n) := by
  rcases lt8_cases hn with rfl | rfl | rfl | rfl | rfl | rfl | rfl | rfl <;>
    (revert v; apply Tetro.forall_bv8; decide +kernel)

end Tetro.C01
