import Tetro.Lemmas.ApuView
/-
Frame lemmas for the waveform generators of channels 2 and 4 (C21): inside `Audio.tickClock` the
generator fields (timer, duty index / LFSR, frequency / NR43 fields, `triggered`) are touched only
by the channel's own `tickTimer`, which runs once per clock unless the channel was triggered in
this machine cycle.
-/
namespace Tetro.Model.Apu

def Square.gen (s : Square) : Nat × Nat × Nat × Bool := (s.timer, s.dutyIndex, s.frequency, s.triggered)
def Noise.gen (n : Noise) : Nat × Nat × Nat × Nat × Nat × Bool :=
  (n.timer, n.lfsr, n.divisor, n.shift, n.lfsrWidth, n.triggered)

namespace Square
theorem gen_tickLength (s : Square) : s.tickLength.gen = s.gen := by frame_tac [tickLength, gen]
theorem gen_tickVolumeEnvelope (s : Square) : s.tickVolumeEnvelope.gen = s.gen := by frame_tac [tickVolumeEnvelope, gen]
theorem gen_tickTimer_congr (s t : Square) (h : s.gen = t.gen) : s.tickTimer.gen = t.tickTimer.gen := by
  simp only [gen, Prod.mk.injEq] at h
  simp only [tickTimer, gen, period, h.1, h.2.1, h.2.2.1, h.2.2.2]
  split <;> rfl
theorem triggered_tickTimer (s : Square) : s.tickTimer.triggered = s.triggered := by
  unfold tickTimer; split <;> rfl
end Square

namespace Noise
theorem gen_tickLength (n : Noise) : n.tickLength.gen = n.gen := by frame_tac [tickLength, gen]
theorem gen_tickVolumeEnvelope (n : Noise) : n.tickVolumeEnvelope.gen = n.gen := by frame_tac [tickVolumeEnvelope, gen]
theorem gen_tickTimer_congr (s t : Noise) (h : s.gen = t.gen) : s.tickTimer.gen = t.tickTimer.gen := by
  simp only [gen, Prod.mk.injEq] at h
  simp only [tickTimer, gen, period, h.1, h.2.1, h.2.2.1, h.2.2.2.1, h.2.2.2.2.1, h.2.2.2.2.2]
  split <;> rfl
theorem triggered_tickTimer (n : Noise) : n.tickTimer.triggered = n.triggered := by
  unfold tickTimer; split <;> rfl
end Noise

namespace Apu

def gens (a : Apu) : (Nat × Nat × Nat × Bool) × (Nat × Nat × Nat × Nat × Nat × Bool) := (a.ch2.gen, a.ch4.gen)

theorem gens_lenPart (a : Apu) : a.lenPart.gens = a.gens := by
  unfold lenPart; split
  · simp only [gens, Square.gen_tickLength, Noise.gen_tickLength]
  · rfl
theorem gens_envPart (a : Apu) : a.envPart.gens = a.gens := by
  unfold envPart; split
  · simp only [gens, Square.gen_tickVolumeEnvelope, Noise.gen_tickVolumeEnvelope]
  · rfl
theorem gens_sweepPart (a : Apu) : a.sweepPart.gens = a.gens := by unfold sweepPart; split <;> rfl
theorem gens_incFs (a : Apu) : a.incFs.gens = a.gens := rfl
theorem gens_incTicks (a : Apu) : a.incTicks.gens = a.gens := rfl
theorem gens_wrapFs (a : Apu) : a.wrapFs.gens = a.gens := by unfold wrapFs; split <;> rfl
theorem gens_takeSample (a : Apu) : a.takeSample.gens = a.gens := by
  simp only [takeSample, gens]; repeat' split
  all_goals rfl
theorem gens_samplerPart (a : Apu) : a.samplerPart.gens = a.gens := by
  unfold samplerPart; split
  · exact gens_takeSample a
  · rfl
theorem gens_frameSeqPart (a : Apu) : a.frameSeqPart.gens = a.gens := by
  unfold frameSeqPart; split
  · rw [gens_wrapFs]; unfold tickFrameSequencer
    rw [gens_incFs, gens_sweepPart, gens_envPart, gens_lenPart]
  · rfl
theorem gens_tickTimer (a : Apu) :
    a.tickTimer.gens = ((if !a.ch2.triggered then a.ch2.tickTimer else a.ch2).gen,
                        (if !a.ch4.triggered then a.ch4.tickTimer else a.ch4).gen) := rfl

/-- channels 2 and 4 after one clock: exactly their own `tickTimer` (skipped in the machine cycle of a trigger) -/
theorem gens_tickClock (a : Apu) :
    a.tickClock.gens = ((if !a.ch2.triggered then a.ch2.tickTimer else a.ch2).gen,
                        (if !a.ch4.triggered then a.ch4.tickTimer else a.ch4).gen) := by
  unfold tickClock
  rw [gens_incTicks, gens_samplerPart, gens_frameSeqPart, gens_tickTimer]

end Apu
end Tetro.Model.Apu
