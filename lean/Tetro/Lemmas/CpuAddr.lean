import Tetro.Model.CpuExec
/-
Address-guarded version of `CpuBusInv.run_preserves`: every bus address a micro-operation puts on the bus (read,
write, OAM-bug trigger) is a function of the registers it starts from (`within A μ r` checks them all against a
predicate `A`), so a bus predicate that the bus operations preserve AT ADDRESSES SATISFYING `A` is preserved by
the micro-operation.  Used for the very first machine cycle after power-on (Proofs/WholeNoCrash.lean), where the
power-on register values keep the first sub-instruction of every opcode away from OAM.
-/
namespace Tetro.CpuAddr
open Tetro.Model.Cpu

/-- every bus address the micro-operation uses on registers `r` satisfies `A`
    (`handleInterrupt`, never the first sub-instruction of an opcode row, is excluded) -/
def within (A : Word → Bool) (μ : MicroOp) (r : Regs) : Bool :=
  match μ with
  | .readParamA => A r.pc
  | .readParamB => A r.pc
  | .ldRM _ => A r.hl
  | .ldMR _ => A r.hl
  | .bitM _ => A r.hl
  | .alu _ .m => A r.hl
  | .loadA i => A (i.addr r)
  | .storeA i => A (i.addr r)
  | .loadAHLI => A r.hl
  | .loadAHLD => A r.hl
  | .storeAHLI => A r.hl
  | .storeAHLD => A r.hl
  | .writeLowSP => A r.u16
  | .writeHighSP => A (r.u16 + 1)
  | .incM => A r.hl
  | .decM => A r.hl
  | .rotM _ => A r.hl
  | .resM _ => A r.hl
  | .setM _ => A r.hl
  | .inc16 k => A (r.get16 k)
  | .dec16 k => A (r.get16 k)
  | .pop _ => A r.sp
  | .popF => A r.sp
  | .push _ => A r.sp && A (r.sp - 1)
  | .handleInterrupt => false
  | _ => true

theorem set_sp (r : Regs) (k : R8) (v : Byte) : (r.set k v).sp = r.sp := by cases k <;> rfl

section
variable {M : Type} [Bus M] (A : Word → Bool) (P : M → Prop)
  (hr : ∀ m a, A a = true → P m → P (Bus.read m a).2) (hw : ∀ m a v, A a = true → P m → P (Bus.write m a v))
  (ht : ∀ m a, A a = true → P m → P (Bus.trigger m a)) (hi : ∀ m v, P m → P (Bus.setIme m v))

include hr hw ht hi in
theorem run_preserves_within (μ : MicroOp) (r : Regs) (m : M) (hA : within A μ r = true) (hp : P m) :
    P (μ.run r m).2 := by
  cases μ
  case readParamA => exact hr _ _ hA hp
  case readParamB => exact hr _ _ hA hp
  case ldRM dst => exact hr _ _ hA hp
  case ldMR s => exact hw _ _ _ hA hp
  case bitM n => exact hr _ _ hA hp
  case alu op s =>
    cases s
    · exact hp
    · exact hr _ _ hA hp
    · exact hp
  case loadA i => exact hr _ _ hA hp
  case storeA i => exact hw _ _ _ hA hp
  case loadAHLI => exact ht _ _ hA (hr _ _ hA hp)
  case loadAHLD => exact ht _ _ hA (hr _ _ hA hp)
  case storeAHLI => exact ht _ _ hA (hw _ _ _ hA hp)
  case storeAHLD => exact ht _ _ hA (hw _ _ _ hA hp)
  case writeLowSP => exact hw _ _ _ hA hp
  case writeHighSP => exact hw _ _ _ hA hp
  case incM => exact hw _ _ _ hA hp
  case decM => exact hw _ _ _ hA hp
  case rotM op => exact hw _ _ _ hA hp
  case resM n => exact hw _ _ _ hA hp
  case setM n => exact hw _ _ _ hA hp
  case inc16 k => cases k <;> exact ht _ _ hA hp
  case dec16 k => cases k <;> exact ht _ _ hA hp
  case pop k =>
    show P (Bus.trigger (Bus.read m r.sp).2 (r.set k (Bus.read m r.sp).1).sp)
    rw [set_sp]
    exact ht _ _ hA (hr _ _ hA hp)
  case popF => exact ht _ _ hA (hr _ _ hA hp)
  case push k =>
    simp only [within, Bool.and_eq_true] at hA
    exact hw _ _ _ hA.2 (ht _ _ hA.1 hp)
  case handleInterrupt => cases hA
  case reti => exact hi _ _ hp
  case di => exact hi _ _ hp
  all_goals exact hp
end

end Tetro.CpuAddr
