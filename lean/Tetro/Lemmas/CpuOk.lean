import Tetro.Model.CpuExec
/-
The CPU-side "never panics" invariant, generic over the bus.

`ExecuteMachineCycle` (model `Cpu.cycle`) has exactly one Go panic of its own: `stepSub` indexes the current
sub-instruction list with the cycle index (`c.ops[c.cycle]`).  `CpuOk c` says: no panic so far, the cycle index is
at most the LAST cycle of the instruction in flight (`lastOf`: the length of the list, or the "last" entry of the
early-finish record of a conditional instruction), and that last cycle is inside the list.  Since `isFinished` is
true at `cycle = lastOf`, the index is strictly below the length whenever `stepSub` runs.

`TablesOk t` is what the dispatch tables must satisfy for a freshly loaded instruction to satisfy the invariant:
every row of the two opcode tables and the three interrupt sequences is non-empty and the "last" entry of every
early-finish record is a positive index inside its row.  (`Proofs/WholeNoCrash.lean` proves it for the tables
regenerated from dispatch.go through `c01_tables`.)

`cycle_ok`: for ANY bus, any tables with `TablesOk`, `CpuOk` is preserved by a machine cycle.
-/
namespace Tetro.CpuOk
open Tetro.Model.Cpu

/-- the last cycle of the instruction in flight, as `isFinished` sees it -/
def lastOf (c : Cpu) : Nat :=
  match c.early with
  | none => c.ops.length
  | some e => e.2.2

/-- the CPU invariant: no sub-instruction index panic so far, and none possible in the next cycle -/
structure CpuOk (c : Cpu) : Prop where
  alive : c.crashed = false
  idx   : c.cycle ≤ lastOf c
  last  : lastOf c ≤ c.ops.length

/-- is the early-finish record of opcode `op` a positive index inside its row -/
def earlyInside (t : Tables) (op : Nat) : Bool :=
  match t.earlyOf op with
  | none => true
  | some e => decide (0 < e.2.2) && decide (e.2.2 ≤ (t.normal.getD op []).length)

/-- what the tables must satisfy -/
structure TablesOk (t : Tables) : Prop where
  normal    : ∀ op < 256, 0 < (t.normal.getD op []).length
  prefixed  : ∀ op < 256, 0 < (t.prefixed.getD op []).length
  early     : ∀ op < 256, earlyInside t op = true
  veryShort : 0 < t.veryShort.length
  short     : 0 < t.short.length
  long      : 0 < t.long.length

theorem init_ok : CpuOk Cpu.init := ⟨rfl, Nat.le_refl _, Nat.le_refl _⟩

/-- a CPU that is not at an instruction boundary is strictly before its last cycle -/
theorem not_finished_lt (c : Cpu) (h : CpuOk c) (hf : c.isFinished = false) : c.cycle < lastOf c := by
  have hi := h.idx
  unfold Cpu.isFinished at hf
  unfold lastOf at hi ⊢
  cases he : c.early with
  | none =>
    rw [he] at hf hi
    simp only [beq_eq_false_iff_ne, ne_eq] at hf
    simp only [] at hi ⊢
    omega
  | some e =>
    rw [he] at hf hi
    simp only [Bool.or_eq_false_iff, beq_eq_false_iff_ne, ne_eq] at hf
    simp only [] at hi ⊢
    omega

variable {M : Type} [Bus M]

/-- running the sub-instruction of a cycle strictly before the last one does not panic and keeps the invariant -/
theorem stepSub_ok (c : Cpu) (m : M) (h : CpuOk c) (hlt : c.cycle < lastOf c) : CpuOk (stepSub c m).1 := by
  have hlen : c.cycle < c.ops.length := Nat.lt_of_lt_of_le hlt h.last
  unfold stepSub
  rw [List.getElem?_eq_getElem hlen]
  exact ⟨h.alive, hlt, h.last⟩

/-- a freshly loaded instruction: index 0, last cycle positive and inside the list -/
structure Fresh (c : Cpu) : Prop where
  ok  : CpuOk c
  pos : c.cycle < lastOf c

/-- the shape of a loaded instruction's early-finish record -/
def EarlyIn (e : Option (Cond × Nat × Nat)) (n : Nat) : Prop :=
  match e with
  | none => True
  | some x => 0 < x.2.2 ∧ x.2.2 ≤ n

theorem early_in (t : Tables) (op : Nat) (h : earlyInside t op = true) :
    EarlyIn (t.earlyOf op) (t.normal.getD op []).length := by
  unfold earlyInside at h
  unfold EarlyIn
  cases hE : t.earlyOf op with
  | none => trivial
  | some e =>
    rw [hE] at h
    simp only [Bool.and_eq_true, decide_eq_true_eq] at h
    exact h

theorem fresh_of (c : Cpu) (r : Regs) (ops : List MicroOp) (e : Option (Cond × Nat × Nat)) (h : c.crashed = false)
    (hn : 0 < ops.length) (he : EarlyIn e ops.length) :
    Fresh { c with regs := r, ops := ops, cycle := 0, early := e } := by
  cases e with
  | none => exact ⟨⟨h, Nat.zero_le _, Nat.le_refl _⟩, hn⟩
  | some x => exact ⟨⟨h, Nat.zero_le _, he.2⟩, he.1⟩

theorem fetch_fresh (t : Tables) (ht : TablesOk t) (c : Cpu) (r : Regs) (m : M) (h : c.crashed = false) :
    Fresh (fetch t c r m).cpu := by
  unfold fetch
  generalize (if r.eiPending then Bus.setIme m true else m) = m1
  simp only []
  split
  · exact fresh_of c _ _ none h (ht.prefixed _ (BitVec.isLt _)) trivial
  · exact fresh_of c _ _ _ h (ht.normal _ (BitVec.isLt _)) (early_in t _ (ht.early _ (BitVec.isLt _)))

theorem fetch_not_halted (t : Tables) (c : Cpu) (r : Regs) (m : M) : (fetch t c r m).halted = false := by
  unfold fetch
  generalize (if r.eiPending then Bus.setIme m true else m) = m1
  simp only []
  split <;> rfl

/-- `next`: either the CPU stays halted/stopped (unchanged), or a non-empty sequence is loaded at index 0 -/
theorem next_ok (t : Tables) (ht : TablesOk t) (c : Cpu) (m : M) (h : CpuOk c) :
    ((next t c m).halted = true → (next t c m).cpu = c) ∧
    ((next t c m).halted = false → Fresh (next t c m).cpu) := by
  unfold next
  simp only []
  cases hci : (checkInterrupts t c.regs m).2 with
  | some seq =>
    simp only []
    refine ⟨fun x => (by cases x), fun _ => ?_⟩
    have hseq : 0 < seq.length := by
      unfold checkInterrupts at hci
      split at hci
      · split at hci
        · split at hci
          · cases hci; exact ht.long
          · cases hci; exact ht.short
        · split at hci
          · cases hci; exact ht.veryShort
          · cases hci
      · cases hci
    exact ⟨⟨h.alive, Nat.zero_le _, Nat.le_refl _⟩, hseq⟩
  | none =>
    simp only []
    split
    · exact ⟨fun _ => rfl, fun x => (by cases x)⟩
    · refine ⟨fun x => ?_, fun _ => fetch_fresh t ht c c.regs m h.alive⟩
      have : (fetch t c c.regs m).halted = false := fetch_not_halted t c c.regs m
      rw [this] at x; cases x

/-- **the CPU never panics.**  For any bus and any tables with non-empty rows and proper early-finish records,
    a machine cycle keeps the CPU invariant – in particular `crashed = false`. -/
theorem cycle_ok (t : Tables) (ht : TablesOk t) (c : Cpu) (m : M) (h : CpuOk c) : CpuOk (cycle t c m).1 := by
  unfold cycle
  split
  · exact h
  · cases hf : c.isFinished
    · simp only [Bool.false_eq_true, if_false]
      exact stepSub_ok c m h (not_finished_lt c h hf)
    · simp only [if_true]
      obtain ⟨h1, h2⟩ := next_ok t ht c m h
      cases hh : (next t c m).halted
      · simp only [Bool.false_eq_true, if_false]
        obtain ⟨ok, pos⟩ := h2 hh
        exact stepSub_ok _ _ ok pos
      · simp only [if_true]
        rw [h1 hh]; exact h

theorem cycles_ok (t : Tables) (ht : TablesOk t) (n : Nat) (c : Cpu) (m : M) (h : CpuOk c) :
    CpuOk (cycles t n c m).1 := by
  induction n generalizing c m with
  | zero => exact h
  | succ n ih => exact ih _ _ (cycle_ok t ht c m h)

end Tetro.CpuOk
