import Tetro.Lemmas.BoardTrace
import Tetro.Proofs.C23
/-
Projection layer, helpers for the SERIAL unit (C23 on the whole machine).

  `board_write_serial`  which bus writes reach the serial unit: a board write acts on `m.serial` exactly as
                        `Serial.busWrite` (the function `C23.c23_log` speaks about) by the documented decoder arms –
                        for every board state, all 65 536 addresses, every value;
  `cycle_serial`        a whole machine cycle of a machine that satisfies the invariant of reachable states acts on
                        the serial unit by the CPU's bus writes of the cycle (`cpuWrites w`) and by nothing else –
                        also in the cycle in which the emulator exits (`os.Exit` on an undefined opcode happens
                        inside `cpu.ExecuteMachineCycle`; the four end-of-cycle calls never touch the serial unit).
-/
namespace Tetro.BoardSerial
open Tetro.Model Tetro.Model.Decoder Tetro.Model.Machine Tetro.Model.Whole
open Tetro.BusRoute Tetro.WholeProofs Tetro.BoardOam Tetro.BoardTrace Tetro.GhostBus Tetro.C17Whole
open Tetro.WholeNoCrash

private theorem getD_map {α : Type} (x : Option α) (f : α → Machine) (m : Machine) (P : Machine → Prop)
    (hm : P m) (hf : ∀ y, P (f y)) : P ((x.map f).getD m) := by
  cases x
  · exact hm
  · exact hf _

private theorem sound_range {a : Nat} (h : soundAddr a = true) : 0xFF10 ≤ a ∧ a < 0xFF40 := by
  unfold soundAddr at h
  simp only [Bool.or_eq_true, Bool.and_eq_true, decide_eq_true_eq] at h
  omega

/-- the handler `h` of the `Write` switch acts on the serial unit only when it is `WriteSB` -/
private theorem writeH_serial (h : H) (m : Machine) (a v : Nat) :
    ((writeH h m a v).getD m).serial =
      if h = .sb then Serial.writeSB m.serial (BitVec.ofNat 8 v) else m.serial := by
  cases h
  case sb => rfl
  all_goals
    (simp only [writeH, reduceCtorEq, if_false]
     first
       | exact getD_map _ _ m (fun x => x.serial = m.serial) rfl (fun _ => rfl)
       | rfl)

private theorem sb_not_sound {a : Nat} (hs : soundAddr a = true) : route expectedWriteArms a ≠ .sb := by
  intro e
  have ha := sound_range hs
  have hr := range_write (a := a) (by omega)
  rw [e] at hr
  simp only [inRange, beq_iff_eq] at hr
  omega

/-- **which bus writes reach the serial unit**: a board write acts on it as `Serial.busWrite` by the documented
    write arms (i.e. `WriteSB` at the one address routed to the handler `sb`, nothing elsewhere) -/
theorem board_write_serial (b : Board) (a v : Nat) (ha : a < 65536) :
    (b.write a v).m.serial = Serial.busWrite expectedWriteArms b.m.serial a (BitVec.ofNat 8 v) := by
  rw [board_write_m b a v ha]
  unfold Serial.busWrite
  cases hs : soundAddr a
  · simp only [Bool.false_eq_true, if_false]
    exact writeH_serial _ b.m a v
  · simp only [if_true]
    rw [if_neg (sb_not_sound hs)]

private theorem frame_serial : Frame (fun m : Machine => m.serial) := ⟨fun _ _ => rfl, fun _ _ => rfl⟩

/-- a bus write as the serial unit's history sees it: the address as a number, the byte -/
def busWriteOf (p : Cpu.Word × Cpu.Byte) : Nat × BitVec 8 := (p.1.toNat, p.2)

/-- **serial, the CPU's part of a cycle**: the serial unit after `cpu.ExecuteMachineCycle` is the unit before it
    with ALL bus writes of the cycle routed through `Serial.busWrite`, in order -/
theorem cpu_serial (w : Whole) (hs : w.stopped = false) :
    (afterCpu w).2.m.serial =
      Tetro.C23.runWrites expectedWriteArms w.b.m.serial ((cpuWrites w).map busWriteOf) := by
  rw [cpu_part_fold (fun m => m.serial) frame_serial
    (fun s p => Serial.busWrite expectedWriteArms s p.1.toNat p.2)
    (fun b a v => by
      rw [board_write_serial b a.toNat v.toNat a.isLt, BitVec.ofNat_toNat, BitVec.setWidth_eq]) w hs]
  unfold Tetro.C23.runWrites
  rw [List.foldl_map]
  rfl

private theorem guard_serial (f : Board → Board) (hf : ∀ b, (f b).m.serial = b.m.serial) (b : Board) :
    (Board.guard f b).m.serial = b.m.serial := by
  unfold Board.guard
  split
  · rfl
  · exact hf b

private theorem ppuStep_serial (b : Board) : b.ppuStep.m.serial = b.m.serial := by
  rw [whole_step_ppu]
  cases Render.tick (sceneOf b.m) (syncPix b.m.ppu b.pix) with
  | none => rfl
  | some p =>
    cases hp : ppuTick b.m with
    | none => rfl
    | some m' =>
      obtain ⟨r, _, rfl⟩ := ppuTick_shape _ _ hp
      rfl

private theorem dmaStep_serial (b : Board) : b.dmaStep.m.serial = b.m.serial := by
  rw [whole_step_dma]
  cases hd : endMachineCycle Serial.genReadArms b.m with
  | none => rfl
  | some m' =>
    obtain ⟨o, rfl⟩ := endMachineCycle_shape _ _ _ hd
    rfl

private theorem apuStep_serial (b : Board) : b.apuStep.m.serial = b.m.serial := by rw [apuStep_m]

private theorem timerStep_serial (b : Board) : b.timerStep.m.serial = b.m.serial := rfl

/-- the four calls after the CPU's never touch the serial unit (whether or not one of them panics) -/
theorem endCycle_serial (b : Board) :
    (Board.guard Board.timerStep (Board.guard Board.apuStep
      (Board.guard Board.dmaStep (Board.guard Board.ppuStep b)))).m.serial = b.m.serial := by
  rw [guard_serial _ timerStep_serial, guard_serial _ apuStep_serial, guard_serial _ dmaStep_serial,
    guard_serial _ ppuStep_serial]

/-- **serial, one machine cycle – EVERY state**: running or stopped, whether or not the cycle stops the emulator
    (undefined opcode, Go panic), the serial unit after the cycle is the unit before it with the CPU's bus writes of
    this cycle routed through `Serial.busWrite`, in order; nothing else in the cycle touches it -/
theorem cycle_serial (w : Whole) :
    w.cycle.b.m.serial =
      Tetro.C23.runWrites expectedWriteArms w.b.m.serial ((cpuWrites w).map busWriteOf) := by
  cases hs : w.stopped
  · rw [← cpu_serial w hs, whole_cycle_order w hs]
    split
    · rfl
    · exact endCycle_serial _
  · rw [whole_cycle_stopped w hs]
    unfold cpuWrites
    rw [hs]
    rfl

end Tetro.BoardSerial
