import Tetro.Model.Apu
/-
The wave channel's `lastAccessed` index (the only wave-RAM index a register READ can use while the channel
runs) stays below 16: no register write moves it and a machine cycle only sets it to `nextPos / 2`.
Hence no read of FF10–FF3F panics (`read_some`).  Used by Proofs/WholeSafe.lean.
-/
namespace Tetro.ApuLa
open Tetro.Model.Apu

theorem w_extraLenClock (w : Wave) (fs : Nat) (le t : Bool) :
    (w.extraLenClock fs le t).lastAccessed = w.lastAccessed := by unfold Wave.extraLenClock; split <;> rfl
theorem w_trigLenClock (w : Wave) (fs : Nat) (le : Bool) :
    (w.trigLenClock fs le).lastAccessed = w.lastAccessed := by unfold Wave.trigLenClock; split <;> rfl
theorem w_trigHead (w : Wave) : w.trigHead.lastAccessed = w.lastAccessed := by
  unfold Wave.trigHead; repeat' split
  all_goals rfl
theorem w_trigger (w : Wave) : w.trigger.lastAccessed = w.lastAccessed := by
  unfold Wave.trigger
  show (Wave.trigBody w.trigHead).lastAccessed = _
  unfold Wave.trigBody
  exact w_trigHead w
theorem w_trigPart (w : Wave) (fs : Nat) (le t : Bool) : (w.trigPart fs le t).lastAccessed = w.lastAccessed := by
  unfold Wave.trigPart; split
  · rw [w_trigLenClock, w_trigger]
  · rfl
theorem w_writeNR34 (w : Wave) (fs v : Nat) : (w.writeNR34 fs v).lastAccessed = w.lastAccessed := by
  unfold Wave.writeNR34 Wave.setLE
  show (Wave.trigPart _ _ _ _).lastAccessed = _
  rw [w_trigPart, w_extraLenClock]; rfl
theorem w_writeRam (w : Wave) (i v : Nat) : (w.writeRam i v).lastAccessed = w.lastAccessed := by
  unfold Wave.writeRam; repeat' split
  all_goals rfl
theorem w_tickTimer (w : Wave) (h : w.lastAccessed < 16) : w.tickTimer.lastAccessed < 16 := by
  unfold Wave.tickTimer Wave.nextPos inc8
  repeat' split
  all_goals first | exact h | (simp only []; omega)
theorem w_tickLength (w : Wave) : w.tickLength.lastAccessed = w.lastAccessed := by
  unfold Wave.tickLength; repeat' split
  all_goals rfl

def la (a : Apu) : Nat := a.ch3.lastAccessed

open Apu

theorem la_writeNR10 (a : Apu) (v : Nat) : la (a.writeNR10 v) = la a := by unfold writeNR10; (try split) <;> rfl
theorem la_writeNR11 (a : Apu) (v : Nat) : la (a.writeNR11 v) = la a := by unfold writeNR11; (try split) <;> rfl
theorem la_writeNR12 (a : Apu) (v : Nat) : la (a.writeNR12 v) = la a := by unfold writeNR12; (try split) <;> rfl
theorem la_writeNR13 (a : Apu) (v : Nat) : la (a.writeNR13 v) = la a := by unfold writeNR13; (try split) <;> rfl
theorem la_writeNR14 (a : Apu) (v : Nat) : la (a.writeNR14 v) = la a := by unfold writeNR14; (try split) <;> rfl
theorem la_writeNR21 (a : Apu) (v : Nat) : la (a.writeNR21 v) = la a := by unfold writeNR21; (try split) <;> rfl
theorem la_writeNR22 (a : Apu) (v : Nat) : la (a.writeNR22 v) = la a := by unfold writeNR22; (try split) <;> rfl
theorem la_writeNR23 (a : Apu) (v : Nat) : la (a.writeNR23 v) = la a := by unfold writeNR23; (try split) <;> rfl
theorem la_writeNR24 (a : Apu) (v : Nat) : la (a.writeNR24 v) = la a := by unfold writeNR24; (try split) <;> rfl
theorem la_writeNR41 (a : Apu) (v : Nat) : la (a.writeNR41 v) = la a := by unfold writeNR41; (try split) <;> rfl
theorem la_writeNR42 (a : Apu) (v : Nat) : la (a.writeNR42 v) = la a := by unfold writeNR42; (try split) <;> rfl
theorem la_writeNR43 (a : Apu) (v : Nat) : la (a.writeNR43 v) = la a := by unfold writeNR43; (try split) <;> rfl
theorem la_writeNR44 (a : Apu) (v : Nat) : la (a.writeNR44 v) = la a := by unfold writeNR44; (try split) <;> rfl
theorem la_writeNR50 (a : Apu) (v : Nat) : la (a.writeNR50 v) = la a := by unfold writeNR50; (try split) <;> rfl
theorem la_writeNR51 (a : Apu) (v : Nat) : la (a.writeNR51 v) = la a := by unfold writeNR51; (try split) <;> rfl
theorem la_writeNR30 (a : Apu) (v : Nat) : la (a.writeNR30 v) = la a := by unfold writeNR30; split <;> rfl
theorem la_writeNR31 (a : Apu) (v : Nat) : la (a.writeNR31 v) = la a := rfl
theorem la_writeNR32 (a : Apu) (v : Nat) : la (a.writeNR32 v) = la a := by unfold writeNR32; split <;> rfl
theorem la_writeNR33 (a : Apu) (v : Nat) : la (a.writeNR33 v) = la a := by unfold writeNR33; split <;> rfl
theorem la_writeNR34 (a : Apu) (v : Nat) : la (a.writeNR34 v) = la a := by
  unfold writeNR34; split
  · rfl
  · exact w_writeNR34 _ _ _
theorem la_setOn (a : Apu) (b : Bool) : la (a.setOn b) = la a := rfl
theorem la_clearDuties (a : Apu) : la a.clearDuties = la a := rfl
theorem la_powerOff (a : Apu) : la a.powerOff = la a := by
  unfold powerOff
  rw [la_setOn, la_clearDuties, la_writeNR51, la_writeNR50, la_writeNR44, la_writeNR43, la_writeNR42, la_writeNR34,
    la_writeNR33, la_writeNR32, la_writeNR30, la_writeNR24, la_writeNR23, la_writeNR22, la_writeNR14, la_writeNR13,
    la_writeNR12, la_writeNR10, la_setOn]
theorem la_writeNR52 (a : Apu) (v : Nat) : la (a.writeNR52 v) = la a := by
  unfold writeNR52; split
  · exact la_powerOff a
  · unfold powerOn; split <;> rfl
theorem la_writeWaveRAM (a : Apu) (i v : Nat) : la (a.writeWaveRAM i v) = la a := w_writeRam _ _ _

/-- no register write moves the wave channel's last-accessed index -/
theorem la_write (a : Apu) (ad v : Nat) : la (a.write ad v) = la a := by
  unfold Apu.write writeB
  simp only [apply_ite la, la_writeNR10, la_writeNR11, la_writeNR12, la_writeNR13, la_writeNR14, la_writeNR21,
    la_writeNR22, la_writeNR23, la_writeNR24, la_writeNR30, la_writeNR31, la_writeNR32, la_writeNR33, la_writeNR34,
    la_writeNR41, la_writeNR42, la_writeNR43, la_writeNR44, la_writeNR50, la_writeNR51, la_writeNR52,
    la_writeWaveRAM, ite_self]

theorem la_tickTimer (a : Apu) (h : la a < 16) : la a.tickTimer < 16 := by
  unfold Apu.tickTimer la
  simp only []
  split
  · exact w_tickTimer _ h
  · exact h
theorem la_lenPart (a : Apu) : la a.lenPart = la a := by
  unfold lenPart; split
  · exact w_tickLength _
  · rfl
theorem la_envPart (a : Apu) : la a.envPart = la a := by unfold envPart; split <;> rfl
theorem la_sweepPart (a : Apu) : la a.sweepPart = la a := by unfold sweepPart; split <;> rfl
theorem la_frameSeqPart (a : Apu) : la a.frameSeqPart = la a := by
  unfold frameSeqPart; split
  · have e1 : ∀ b : Apu, la b.wrapFs = la b := fun b => by unfold wrapFs; split <;> rfl
    have e2 : ∀ b : Apu, la b.incFs = la b := fun _ => rfl
    rw [e1]; unfold tickFrameSequencer
    rw [e2, la_sweepPart, la_envPart, la_lenPart]
  · rfl
theorem la_samplerPart (a : Apu) : la a.samplerPart = la a := by
  unfold samplerPart; split
  · unfold takeSample; repeat' split
    all_goals rfl
  · rfl
theorem la_tickClock (a : Apu) (h : la a < 16) : la a.tickClock < 16 := by
  have e : ∀ b : Apu, la b.incTicks = la b := fun _ => rfl
  unfold tickClock
  rw [e, la_samplerPart, la_frameSeqPart]
  exact la_tickTimer a h

/-- a machine cycle keeps the index below 16 (it only ever becomes `nextPos / 2`) -/
theorem la_cycle (a : Apu) (h : la a < 16) : la a.endMachineCycle < 16 := by
  have e : ∀ b : Apu, la b.clearTriggered = la b := fun _ => rfl
  unfold endMachineCycle
  rw [e]
  exact la_tickClock _ (la_tickClock _ (la_tickClock _ (la_tickClock _ h)))

theorem w_readRam_some (w : Wave) (i : Nat) (h : w.lastAccessed < 16) (hi : i < 16) : ∃ v, w.readRam i = some v := by
  unfold Wave.readRam
  repeat' split
  all_goals first | exact ⟨_, rfl⟩ | (exfalso; omega)

/-- with the index below 16 no read of a sound register or wave-RAM byte panics -/
theorem read_some (a : Apu) (ad : Nat) (h : la a < 16) (hhi : ad < 0xFF40) : ∃ v, a.read ad = some v := by
  rw [← Option.isSome_iff_exists]
  by_cases hw : 0xFF30 ≤ ad
  · obtain ⟨v, hv⟩ := w_readRam_some a.ch3 (ad - 0xFF30) h (by omega)
    have e : a.read ad = a.ch3.readRam (ad - 0xFF30) := by
      unfold Apu.read
      repeat (rw [if_neg (by omega)])
      rw [if_pos hhi]
    rw [e, hv]; rfl
  · unfold Apu.read
    simp only [apply_ite Option.isSome, Option.isSome_some]
    have : ad < 0xFF30 := by omega
    simp only [this, if_true, ite_self]

end Tetro.ApuLa
