/-
Small helpers for byte-level reasoning.  Universally quantified statements over one byte
are discharged by kernel evaluation over all 256 values (`decide +kernel`, no axioms).
-/
namespace Tetro

theorem forall_bv8 {p : BitVec 8 → Prop} (h : ∀ n : Fin 256, p (BitVec.ofFin n)) : ∀ x, p x :=
  fun x => by simpa using h x.toFin

theorem forall_bv4 {p : BitVec 4 → Prop} (h : ∀ n : Fin 16, p (BitVec.ofFin n)) : ∀ x, p x :=
  fun x => by simpa using h x.toFin

end Tetro
