import Tetro.Proofs.C08
import Tetro.Proofs.C09
/-
Which controller state `newMBC` (`Cart.construct`) builds, per cartridge type – the start states the `c09_refines_*`
theorems of Proofs/C09.lean are stated for.

  `construct_shape`   for every image the loader accepts: the bank count `n` is a power of two ≥ 2 with
                      `img.len = n · 4000h`, and the controller is `.none …` / `.mbc1 m0` with `Mbc1.new … = some m0`
                      / `.mbc2 (Mbc2.new …)` / `.mbc3 (Mbc3.new …)` / `.mbc5 (Mbc5.new …)` over the page copy of the
                      image, fresh RAM and the RAM bank count `ramBanks img` (`prepareRAM`);
  `mbc1_new_small`    an MBC1 that `newMBC1` accepts has fewer than 256 ROM banks (with 256·k banks `updateBanks`
                      divides by `uint8(len(rom)) = 0`), so for MBC1 the size hypothesis of `c09_refines_mbc1` is a
                      consequence of successful construction;
  `c09_image`         C09 for EVERY image the loader accepts (the C09 counterpart of `C08.c08_image`).
-/
namespace Tetro.CartConstruct
open Tetro.Model Tetro.Model.Cart Tetro.Spec.Cart Tetro.CartSim Tetro.CartWF Tetro.C08

/-- the number of 8 KiB RAM banks `prepareRAM` allocates for the image (from header bytes 0147, 0149) -/
def ramBanks (img : Image) : Nat := prepareRAM (img.byte 0x0147) (img.byte 0x0149)

/-- the number of 16 KiB ROM banks of the image -/
def romBanks (img : Image) : Nat := img.len / 0x4000

theorem ramBanks_range (img : Image) : 0 < ramBanks img ∧ ramBanks img < 256 := by
  unfold ramBanks
  rcases prepareRAM_range (img.byte 0x0147) (img.byte 0x0149) with h | h | h | h <;> rw [h] <;> decide

/-- the controller `newMBC` builds, by controller family -/
def Built (img : Image) (c : Mbc) : Ctrl → Prop
  | .rom  => c = .none { rom := pagesOf img, imgLen := img.len }
  | .mbc1 => ∃ m0, Mbc1.new (pagesOf img) (romBanks img) freshRam (ramBanks img) = some m0 ∧ c = .mbc1 m0
  | .mbc2 => c = .mbc2 (Mbc2.new (pagesOf img) (romBanks img))
  | .mbc3 => c = .mbc3 (Mbc3.new (pagesOf img) (romBanks img) freshRam (ramBanks img))
  | .mbc5 => c = .mbc5 (Mbc5.new (pagesOf img) (romBanks img) freshRam (ramBanks img))

/-- **what `newMBC` builds.**  For every image the loader accepts: the cartridge type is one of the supported ones,
    the ROM bank count is a power of two (≥ 2) that matches the image length, and the controller is the `new` state
    of its family over the page copy of the image, RAM filled with FF and `ramBanks img` RAM banks. -/
theorem construct_shape (img : Image) (c : Mbc) (hc : construct img = some c) :
    ∃ kind, ctrlOf (img.byte 0x0147) = some kind ∧ Built img c kind ∧
      img.len = romBanks img * 0x4000 ∧ ∃ j, romBanks img = 2 ^ (j + 1) := by
  unfold construct at hc
  split at hc
  · cases hc
  · cases hp : prepareROM (img.byte 0x0148) img with
    | none => rw [hp] at hc; cases hc
    | some n =>
      rw [hp] at hc
      obtain ⟨hlen, h2, j, hj⟩ := prepareROM_spec hp
      have hn : romBanks img = n := by unfold romBanks; omega
      simp only [Option.bind_some] at hc
      unfold selectMbc at hc
      simp only at hc
      unfold ctrlOf
      split at hc
      · rename_i ht
        injection hc with hc
        exact ⟨.rom, by rw [if_pos ht], hc.symm, by rw [hn]; exact hlen, j, by rw [hn]; exact hj⟩
      · split at hc
        · rename_i ht0 ht
          rw [Option.map_eq_some_iff] at hc
          obtain ⟨m0, e0, rfl⟩ := hc
          exact ⟨.mbc1, by rw [if_neg ht0, if_pos ht], ⟨m0, by rw [hn]; exact e0, rfl⟩,
            by rw [hn]; exact hlen, j, by rw [hn]; exact hj⟩
        · split at hc
          · rename_i ht0 ht1 ht
            injection hc with hc
            exact ⟨.mbc2, by rw [if_neg ht0, if_neg ht1, if_pos ht], by show c = _; rw [hn]; exact hc.symm,
              by rw [hn]; exact hlen, j, by rw [hn]; exact hj⟩
          · split at hc
            · rename_i ht0 ht1 ht2 ht
              injection hc with hc
              exact ⟨.mbc3, by rw [if_neg ht0, if_neg ht1, if_neg ht2, if_pos ht],
                by show c = _; rw [hn]; exact hc.symm, by rw [hn]; exact hlen, j, by rw [hn]; exact hj⟩
            · split at hc
              · rename_i ht0 ht1 ht2 ht3 ht
                injection hc with hc
                exact ⟨.mbc5, by rw [if_neg ht0, if_neg ht1, if_neg ht2, if_neg ht3, if_pos ht],
                  by show c = _; rw [hn]; exact hc.symm, by rw [hn]; exact hlen, j, by rw [hn]; exact hj⟩
              · cases hc

/-- `newMBC1` accepts a power-of-two bank count only below 256 -/
theorem mbc1_new_small {rom : Rom} {n q : Nat} {ram : Ram} {m0 : Mbc1} (h : Mbc1.new rom n ram q = some m0)
    (j : Nat) (hj : n = 2 ^ (j + 1)) : 0 < n ∧ n < 256 := by
  have hmod : n % 256 ≠ 0 := by
    intro hz
    unfold Mbc1.new Mbc1.updateBanks at h
    simp only [Mbc1.newRomBank0, Bool.false_eq_true, if_false, Option.bind_some] at h
    unfold mod? at h
    rw [if_pos hz] at h
    cases h
  have hpos : 0 < n := by rw [hj]; exact Nat.two_pow_pos _
  refine ⟨hpos, ?_⟩
  by_cases hlt : j + 1 < 8
  · have : 2 ^ (j + 1) ≤ 2 ^ 7 := Nat.pow_le_pow_right (by decide) (by omega)
    omega
  · exfalso
    apply hmod
    obtain ⟨d, hd⟩ : ∃ d, j + 1 = 8 + d := ⟨j + 1 - 8, by omega⟩
    rw [hj, hd, Nat.pow_add]
    exact Nat.mul_mod_right _ _

private theorem size5_of_pow {k : Nat} (hk : 1 ≤ k ∧ k ≤ 9) : Size5 (2 ^ k) := by
  have : k = 1 ∨ k = 2 ∨ k = 3 ∨ k = 4 ∨ k = 5 ∨ k = 6 ∨ k = 7 ∨ k = 8 ∨ k = 9 := by omega
  rcases this with h|h|h|h|h|h|h|h|h <;> subst h <;> simp [Size5]

private theorem pow_le {j b : Nat} (h : 2 ^ (j + 1) ≤ 2 ^ b) : j + 1 ≤ b := by
  by_cases hjb : j + 1 ≤ b
  · exact hjb
  · have : 2 ^ (b + 1) ≤ 2 ^ (j + 1) := Nat.pow_le_pow_right (by decide) (by omega)
    have : 2 ^ (b + 1) = 2 * 2 ^ b := by rw [Nat.pow_succ]; omega
    have : 0 < 2 ^ b := Nat.two_pow_pos b
    omega

/-- a power-of-two bank count up to 512 is one of the sizes `c09_refines_mbc5` covers -/
theorem size5_of_le {n : Nat} (j : Nat) (hj : n = 2 ^ (j + 1)) (hle : n ≤ 512) : Size5 n := by
  rw [hj]
  exact size5_of_pow ⟨by omega, pow_le (b := 9) (by rw [← hj]; exact hle)⟩

/-! ### the documented window read and dump, per controller family -/

/-- what a read of `a` in A000–BFFF returns after the history `h`, by the documentation (`Spec/Cart.lean`): external
    RAM gated / banked / retained (`ramRead`: FF when disabled or absent), the 512 half-bytes of an MBC2
    (`mbc2Read`), and – MBC3 while a clock register is selected – that clock register (`Rtc.read` of the clock after
    the clock events of the history; its VALUE is the subject of C10: `c10_whole_clock_read`) -/
def windowRead (kind : Ctrl) (q : Nat) (h : Hist) (a : Nat) : Nat :=
  match kind with
  | .mbc2 => mbc2Read h a
  | .mbc3 =>
    match clockSelected h with
    | some sel => Rtc.read (RtcSim.after (clockEvents h)) sel
    | none => ramRead .mbc3 q h a
  | k => ramRead k q h a

/-- what `DumpRAM` shows after the history `h`: nothing for a ROM-only cartridge, the 512 entries of an MBC2 (low
    nibbles = the stored half-bytes), all banks' abstract contents otherwise -/
def DumpSpec (kind : Ctrl) (q : Nat) (h : Hist) (d : List Nat) : Prop :=
  match kind with
  | .rom => d = []
  | .mbc2 => d.length = 512 ∧ ∀ o, o < 512 → (d[o]?).map (· % 16) = some (nibble h o)
  | k => d = ramDump k q h

/-- **C09 for every image `newMBC` accepts.**  After EVERY history of bus writes and machine cycles the controller
    has not panicked, a read of A000–BFFF returns the documented value for the image's controller family and RAM
    size, and the RAM dump shows the abstract contents.  The only size hypothesis is the documented MBC5 maximum
    (512 banks); for MBC1 the bound is a consequence of successful construction. -/
theorem c09_image (img : Image) (c : Mbc) (hc : construct img = some c) (kind : Ctrl)
    (hkind : ctrlOf (img.byte 0x0147) = some kind) (hdoc : kind = .mbc5 → romBanks img ≤ 512) (ops : List Op) :
    ∃ c', run c ops = some c' ∧
      (∀ a, Tetro.C09.InWindow a → busRead c' a = some (windowRead kind (ramBanks img) (hist ops) a)) ∧
      DumpSpec kind (ramBanks img) (hist ops) c'.dump := by
  obtain ⟨kind', hk', hb, _, j, hj⟩ := construct_shape img c hc
  rw [hkind] at hk'
  injection hk' with hk'
  subst hk'
  have hq := ramBanks_range img
  have hn1 : 1 < romBanks img := by
    rw [hj]
    have : 2 ^ 1 ≤ 2 ^ (j + 1) := Nat.pow_le_pow_right (by decide) (by omega)
    omega
  cases kind with
  | rom =>
    rw [show c = _ from hb]
    obtain ⟨c', e, r, d⟩ := Tetro.C09.c09_refines_none { rom := pagesOf img, imgLen := img.len } ops
    refine ⟨c', e, fun a ha => ?_, d⟩
    rw [r a ha]
    rfl
  | mbc1 =>
    obtain ⟨m0, e0, rfl⟩ := hb
    obtain ⟨m0', c', e0', e, r, d⟩ := Tetro.C09.c09_refines_mbc1 (pagesOf img) (romBanks img)
      (mbc1_new_small e0 j hj) (ramBanks img) hq ops
    rw [e0] at e0'
    injection e0' with e0'
    subst e0'
    exact ⟨c', e, r, d⟩
  | mbc2 =>
    rw [show c = _ from hb]
    obtain ⟨c', e, r, d⟩ := Tetro.C09.c09_refines_mbc2 (pagesOf img) (romBanks img) hn1 ops
    exact ⟨c', e, r, d⟩
  | mbc3 =>
    rw [show c = _ from hb]
    obtain ⟨c', e, r, d⟩ := Tetro.C09.c09_refines_mbc3 (pagesOf img) (romBanks img) hn1 (ramBanks img) hq.1 ops
    exact ⟨c', e, r, d⟩
  | mbc5 =>
    rw [show c = _ from hb]
    obtain ⟨c', e, r, d⟩ := Tetro.C09.c09_refines_mbc5 (pagesOf img) (romBanks img)
      (size5_of_le j hj (hdoc rfl)) (ramBanks img) hq ops
    exact ⟨c', e, r, d⟩

end Tetro.CartConstruct
