import Tetro.Spec.IsaMachine
import Tetro.Proofs.C01
import Tetro.Proofs.C02
import Tetro.Proofs.C04
import Tetro.Proofs.C05
/-
Glue between the cycle-level theorems (C02/C04/C05, stated with `Tetro.Exec.runList` and the model's
`pendingSource`/`fetchRegs`) and the instruction-level machine of `Spec/IsaMachine.lean` (stated with
`stepInstr`, `prioritySource`, `ackIF`, `dispatchTo`).  Everything here is a helper for
`Proofs/C01Program.lean`.
-/
namespace Tetro.Glue
open Tetro.Model.Cpu Tetro.Spec.Isa Tetro.Exec

/-! ### the two `runList`s -/

theorem runList_eq (ops : List MicroOp) (r : Regs) (m : Flat) :
    C01.runList ops r m = Exec.runList ops r m := by
  induction ops generalizing r m with
  | nil => rfl
  | cons x xs ih => exact ih _ _

/-! ### priority and acknowledge -/

theorem prioritySource_model : ∀ p : Byte,
    pendingSource p = none ∨ pendingSource p = some (prioritySource p) := by
  apply Tetro.forall_bv8; decide +kernel

theorem prioritySource_eq (p : Byte) (k : Nat) (h : pendingSource p = some k) : prioritySource p = k := by
  rcases prioritySource_model p with h' | h'
  · rw [h'] at h; cases h
  · rw [h'] at h; exact Option.some.inj h

theorem ackIF_model : ∀ x : Byte,
    x &&& ~~~((1 : Byte) <<< 0) = ackIF x 0 ∧ x &&& ~~~((1 : Byte) <<< 1) = ackIF x 1 ∧
    x &&& ~~~((1 : Byte) <<< 2) = ackIF x 2 ∧ x &&& ~~~((1 : Byte) <<< 3) = ackIF x 3 ∧
    x &&& ~~~((1 : Byte) <<< 4) = ackIF x 4 := by
  apply Tetro.forall_bv8; decide +kernel

theorem ackIF_eq (x : Byte) (k : Nat) (hk : k < 5) : x &&& ~~~((1 : Byte) <<< k) = ackIF x k := by
  obtain ⟨h0, h1, h2, h3, h4⟩ := ackIF_model x
  match k, hk with
  | 0, _ => exact h0
  | 1, _ => exact h1
  | 2, _ => exact h2
  | 3, _ => exact h3
  | 4, _ => exact h4

theorem pending_abs (r : Regs) (m : Flat) : pending (abs r m) = pendingBits m := rfl

/-! ### the dispatch -/

/-- the architectural view of the state `c04_dispatch`/`c05_wake_ime1` describe is `dispatchTo` -/
theorem abs_dispatch (r : Regs) (m : Flat) (k : Nat) (hk : k < 5) :
    abs { r with halted := false, pc := BitVec.ofNat 16 (0x40 + 8 * k), sp := r.sp - 2,
                 m8a := lo8 r.pc, m8b := hi8 r.pc }
      ((({ m with ime := false, ifl := m.ifl &&& ~~~((1 : Byte) <<< k) } : Flat).write
          (r.sp - 1) (hi8 r.pc)).write (r.sp - 2) (lo8 r.pc)) =
    dispatchTo (abs r m) k := by
  rw [ackIF_eq _ k hk, C01.hi8_eq, C01.lo8_eq]
  rfl

theorem regs_halted_false (r : Regs) (h : r.halted = false) : { r with halted := false } = r := by
  cases r; simp_all

/-! ### the instruction case -/

theorem nextInstr_abs (r : Regs) (m : Flat) : nextInstr (abs r m) = instrAt r.pc m := rfl

theorem flat_ime_or_false (m : Flat) : ({ m with ime := m.ime || false } : Flat) = m := by
  cases m; simp

/-- a pending EI takes effect: the spec's promotion is the model's `eiPending := false`, `ime ||= eiPending` -/
theorem promote_abs (r : Regs) (m : Flat) :
    (if (abs r m).eiPending then
        { abs r m with eiPending := false, bus := { (abs r m).bus with ime := true } }
      else abs r m) =
    abs { r with eiPending := false } { m with ime := m.ime || r.eiPending } := by
  obtain ⟨mem, ime, ie, ifl⟩ := m
  cases r with
  | mk a b c d e f h l sp pc u8a u8b m8a m8b halted haltbug stopped ei mooneye exited =>
    cases ei <;> cases ime <;> rfl

/-- the state the spec executes on is the architectural view of what the model's fetch leaves -/
theorem abs_fetchRegs (r : Regs) (m : Flat) (cb : Bool) :
    abs (fetchRegs r cb) m =
      { abs { r with eiPending := false } m with
        pc := if cb then (if r.haltbug then r.pc + 1 else r.pc + 2)
              else (if r.haltbug then r.pc else r.pc + 1),
        haltbug := false } := by
  cases cb <;> cases hb : r.haltbug <;> simp [abs, fetchRegs, hb, Regs.zf, Regs.nf, Regs.hf, Regs.cf]

/-- `stepInstr` on the architectural view: decode at PC, execute on the state the fetch leaves -/
theorem stepInstr_abs (r : Regs) (m : Flat) :
    stepInstr (abs r m) =
      (instrAt r.pc m).map fun i =>
        exec i (abs (fetchRegs r (decide (m.read r.pc = 0xcb))) { m with ime := m.ime || r.eiPending }) := by
  unfold stepInstr
  simp only [promote_abs]
  unfold instrAt
  by_cases hcb : m.read r.pc = 0xcb
  · have h1 : (abs { r with eiPending := false } { m with ime := m.ime || r.eiPending }).rd
        (abs { r with eiPending := false } { m with ime := m.ime || r.eiPending }).pc = 0xcb := hcb
    rw [if_pos h1, if_pos hcb, decide_eq_true hcb, abs_fetchRegs]
    rfl
  · have h1 : ¬ (abs { r with eiPending := false } { m with ime := m.ime || r.eiPending }).rd
        (abs { r with eiPending := false } { m with ime := m.ime || r.eiPending }).pc = 0xcb := hcb
    rw [if_neg h1, if_neg hcb, decide_eq_false hcb, abs_fetchRegs]
    show (match decode (m.read r.pc).toNat with
      | some i => some (exec i _)
      | none => none) = _
    cases decode (m.read r.pc).toNat <;> rfl

theorem takenOf_abs (i : Instr) (s : St) : takenOf i s = (condOf i).all fun cc => cc.holds s := by
  unfold takenOf; cases condOf i <;> rfl

theorem instrAt_wf (pc : Word) (m : Flat) (i : Instr) (h : instrAt pc m = some i) : C01.WellFormed i := by
  unfold instrAt at h
  split at h
  · cases h; exact C01.c01_decodeCB_wf _ (byte_lt _)
  · exact C01.c01_decode_wf _ (byte_lt _) i h

theorem notMet_holds (cc : CC) (r r' : Regs) (m : Flat) (hf : r.f = r'.f) :
    (notMet cc).holds r = !cc.holds (abs r' m) := by
  cases cc <;> simp [notMet, Cond.holds, CC.holds, abs, Regs.zf, Regs.cf, hf]

/-- the micro-operations C02 says were run are the ones C01 speaks about -/
theorem take_effective (i : Instr) (hne : i ≠ .ld .hlm .hlm) (r0 r : Regs) (m : Flat) (hf : r0.f = r.f) :
    (micro i).take (cyclesOf i ((condOf i).all fun cc => cc.holds (abs r m))) = C01.effective i r0 := by
  unfold C01.effective
  cases he : earlyOf i with
  | none =>
    obtain ⟨hc, _⟩ := earlyOf_none i he
    simp only [hc, Option.all_none]
    rw [← micro_length i hne, List.take_length]
  | some e =>
    obtain ⟨cnd, e1, l⟩ := e
    obtain ⟨h1, h2, cc, hcc, hcnd⟩ := earlyOf_cycles i cnd e1 l he
    have hall : ((some cc).all fun cc => cc.holds (abs r m)) = cc.holds (abs r m) := rfl
    simp only [hcc, hall, hcnd, notMet_holds cc r0 r m hf, h1]
    cases cc.holds (abs r m)
    · simp
    · simp [← micro_length i hne]

/-! ### the branches of `specStep` -/

theorem specStep_dispatch (s : St) (h : pending s ≠ 0 ∧ s.bus.ime = true) :
    specStep s = (dispatchTo s (prioritySource (pending s)), .dispatch (prioritySource (pending s)),
      if s.halted then 6 else 5) := by
  unfold specStep; rw [if_pos h]

theorem specStep_wake (s : St) (h : ¬(pending s ≠ 0 ∧ s.bus.ime = true)) (hh : s.halted = true)
    (hp : ¬ pending s = 0) : specStep s = ({ s with halted := false }, .wake, 1) := by
  unfold specStep; rw [if_neg h, if_pos hh, if_pos hp]

theorem specStep_idle (s : St) (h : ¬(pending s ≠ 0 ∧ s.bus.ime = true)) (hh : s.halted = true)
    (hp : pending s = 0) : specStep s = (s, .idle, 1) := by
  unfold specStep; rw [if_neg h, if_pos hh, if_neg (fun hn => hn hp)]

theorem specStep_stopped (s : St) (h : ¬(pending s ≠ 0 ∧ s.bus.ime = true)) (hh : s.halted = false)
    (hs : s.stopped = true) : specStep s = (s, .idle, 1) := by
  unfold specStep; rw [if_neg h, if_neg (by simp [hh]), if_pos hs]

theorem specStep_instr (s : St) (h : ¬(pending s ≠ 0 ∧ s.bus.ime = true)) (hh : s.halted = false)
    (hs : s.stopped = false) : specStep s = instrStep s := by
  unfold specStep; rw [if_neg h, if_neg (by simp [hh]), if_neg (by simp [hs])]

theorem stepInstr_none_iff (s : St) : stepInstr s = none ↔ nextInstr s = none := by
  unfold stepInstr nextInstr
  have hrd : ∀ a, (if s.eiPending then { s with eiPending := false, bus := { s.bus with ime := true } } else s).rd a
      = s.rd a := by
    intro a; split <;> rfl
  have hpc : (if s.eiPending then { s with eiPending := false, bus := { s.bus with ime := true } } else s).pc
      = s.pc := by
    split <;> rfl
  simp only [hrd, hpc]
  split
  · simp
  · cases decode (s.rd s.pc).toNat <;> simp

theorem instrStep_undefined_iff (s : St) : (instrStep s).2.1 = .undefined ↔ nextInstr s = none := by
  unfold instrStep
  cases hn : nextInstr s with
  | none => simp
  | some i =>
    cases hs : stepInstr s with
    | none => rw [(stepInstr_none_iff s).mp hs] at hn; cases hn
    | some s' => simp

theorem instrStep_abs_none (r : Regs) (m : Flat) (h : instrAt r.pc m = none) :
    instrStep (abs r m) = (abs r m, .undefined, 1) := by
  unfold instrStep; rw [nextInstr_abs, h]

theorem instrStep_abs_some (r : Regs) (m : Flat) (i : Instr) (h : instrAt r.pc m = some i) :
    instrStep (abs r m) =
      (exec i (abs (fetchRegs r (decide (m.read r.pc = 0xcb))) { m with ime := m.ime || r.eiPending }),
       .instr i, cyclesOf i (takenOf i (abs r m))) := by
  unfold instrStep; rw [nextInstr_abs, stepInstr_abs, h]; rfl

theorem specTables_fsafe : C01.TablesFSafe specTables = true := by
  rw [← C01.c01_tables]; exact C01.c01_tables_fsafe

theorem flow_runList (ops : List MicroOp) (h : ops.all C01.FSafe = true) (r : Regs) (m : Flat)
    (hf : C01.FLow r) : C01.FLow (Exec.runList ops r m).1 := by
  induction ops generalizing r m with
  | nil => exact hf
  | cons x xs ih =>
    simp only [List.all_cons, Bool.and_eq_true] at h
    exact ih h.2 _ _ (C01.flow_micro x h.1 r m hf)

theorem all_take {α : Type} (p : α → Bool) (l : List α) (n : Nat) (h : l.all p = true) :
    (l.take n).all p = true := by
  rw [List.all_eq_true] at h ⊢
  exact fun x hx => h x (List.mem_of_mem_take hx)

theorem micro_fsafe (c : Cpu) (m : Flat) (i : Instr) (hf : C01.FLow c.regs)
    (hi : instrAt c.regs.pc m = some i) : (micro i).all C01.FSafe = true := by
  have h := (C01.fetch_inv specTables specTables_fsafe c c.regs m hf).2
  rwa [fetch_spec c c.regs m i hi] at h

end Tetro.Glue
