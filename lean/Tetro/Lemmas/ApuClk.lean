import Tetro.Lemmas.ApuView
/-
Frame lemmas for the two counters of audio.go (C19): the clock counter `ticks` and the
frame-sequencer step counter `frameSeqTicks`, and for the length fields of the four channels
under the clocking functions that do not concern them.
-/
namespace Tetro.Model.Apu

def Apu.clk (a : Apu) : Nat × Nat := (a.ticks, a.frameSeqTicks)

/-- the length-counter fields of a channel -/
def Square.lenPair (s : Square) : Bool × Nat := (s.lengthEnable, s.length)
def Wave.lenPair (w : Wave) : Bool × Nat := (w.lengthEnable, w.length)
def Noise.lenPair (n : Noise) : Bool × Nat := (n.lengthEnable, n.length)

namespace Square
theorem lenPair_tickTimer (s : Square) : s.tickTimer.lenPair = s.lenPair := by frame_tac [tickTimer, lenPair]
theorem lenPair_tickVolumeEnvelope (s : Square) : s.tickVolumeEnvelope.lenPair = s.lenPair := by
  frame_tac [tickVolumeEnvelope, lenPair]
theorem lenPair_calcState (s : Square) : s.calcState.lenPair = s.lenPair := rfl
theorem lenPair_storeFreq (s : Square) (f : Nat) : (s.storeFreq f).lenPair = s.lenPair := rfl
theorem lenPair_sweepStep (s : Square) : s.sweepStep.lenPair = s.lenPair := by
  unfold sweepStep; split
  · rw [lenPair_calcState, lenPair_storeFreq, lenPair_calcState]
  · rw [lenPair_calcState]
theorem lenPair_tickSweep (s : Square) : s.tickSweep.lenPair = s.lenPair := by
  unfold tickSweep; repeat' split
  · rfl
  · rfl
  · rw [lenPair_sweepStep]; rfl
  · rfl
/-- the length result of `tickLength` depends on the length fields only -/
theorem lenPair_tickLength_congr (s t : Square) (h : s.lenPair = t.lenPair) : s.tickLength.lenPair = t.tickLength.lenPair := by
  simp only [lenPair, Prod.mk.injEq] at h
  simp only [tickLength, lenPair, h.1, h.2]
  repeat' split
  all_goals (first | rfl | simp only [h.1, h.2])
end Square

namespace Wave
theorem lenPair_tickTimer (w : Wave) : w.tickTimer.lenPair = w.lenPair := by frame_tac [tickTimer, lenPair]
theorem lenPair_tickLength_congr (s t : Wave) (h : s.lenPair = t.lenPair) : s.tickLength.lenPair = t.tickLength.lenPair := by
  simp only [lenPair, Prod.mk.injEq] at h
  simp only [tickLength, lenPair, h.1, h.2]
  repeat' split
  all_goals (first | rfl | simp only [h.1, h.2])
end Wave

namespace Noise
theorem lenPair_tickTimer (n : Noise) : n.tickTimer.lenPair = n.lenPair := by frame_tac [tickTimer, lenPair]
theorem lenPair_tickVolumeEnvelope (n : Noise) : n.tickVolumeEnvelope.lenPair = n.lenPair := by
  frame_tac [tickVolumeEnvelope, lenPair]
theorem lenPair_tickLength_congr (s t : Noise) (h : s.lenPair = t.lenPair) : s.tickLength.lenPair = t.tickLength.lenPair := by
  simp only [lenPair, Prod.mk.injEq] at h
  simp only [tickLength, lenPair, h.1, h.2]
  repeat' split
  all_goals (first | rfl | simp only [h.1, h.2])
end Noise

namespace Apu

theorem clk_tickTimer (a : Apu) : a.tickTimer.clk = a.clk := rfl
theorem clk_lenPart (a : Apu) : a.lenPart.clk = a.clk := by frame_tac [lenPart, clk]
theorem clk_envPart (a : Apu) : a.envPart.clk = a.clk := by frame_tac [envPart, clk]
theorem clk_sweepPart (a : Apu) : a.sweepPart.clk = a.clk := by frame_tac [sweepPart, clk]
theorem clk_takeSample (a : Apu) : a.takeSample.clk = a.clk := by
  simp only [takeSample, clk]; repeat' split
  all_goals rfl
theorem clk_samplerPart (a : Apu) : a.samplerPart.clk = a.clk := by
  unfold samplerPart; split
  · exact clk_takeSample a
  · rfl

theorem clk_incFs (a : Apu) : a.incFs.clk = (a.clk.1, (a.clk.2 + 1) % two64) := rfl
theorem clk_incTicks (a : Apu) : a.incTicks.clk = ((a.clk.1 + 1) % two64, a.clk.2) := rfl
theorem clk_wrapFs (a : Apu) : a.wrapFs.clk = (a.clk.1, if a.clk.2 ≥ 512 then 0 else a.clk.2) := by
  unfold wrapFs
  by_cases w : a.frameSeqTicks ≥ 512
  · rw [if_pos w]; show _ = (a.ticks, if a.frameSeqTicks ≥ 512 then 0 else a.frameSeqTicks); rw [if_pos w]; rfl
  · rw [if_neg w]; show _ = (a.ticks, if a.frameSeqTicks ≥ 512 then 0 else a.frameSeqTicks); rw [if_neg w]; rfl
theorem clk_tickFrameSequencer (a : Apu) : a.tickFrameSequencer.clk = (a.clk.1, (a.clk.2 + 1) % two64) := by
  unfold tickFrameSequencer
  rw [clk_incFs, clk_sweepPart, clk_envPart, clk_lenPart]
theorem frameSeqPeriod_eq : frameSeqPeriod = 8192 := by decide
theorem clk_frameSeqPart (a : Apu) :
    a.frameSeqPart.clk = (a.clk.1, if a.clk.1 % 8192 = 0 then (if (a.clk.2 + 1) % two64 ≥ 512 then 0 else (a.clk.2 + 1) % two64) else a.clk.2) := by
  unfold frameSeqPart; rw [frameSeqPeriod_eq]
  by_cases c : a.ticks % 8192 = 0
  · have c' : a.clk.1 % 8192 = 0 := c
    rw [if_pos c, if_pos c', clk_wrapFs, clk_tickFrameSequencer]
  · have c' : ¬ a.clk.1 % 8192 = 0 := c
    rw [if_neg c, if_neg c']

/-- the two counters after one clock -/
theorem clk_tickClock (a : Apu) :
    a.tickClock.clk = ((a.clk.1 + 1) % two64,
      if a.clk.1 % 8192 = 0 then (if (a.clk.2 + 1) % two64 ≥ 512 then 0 else (a.clk.2 + 1) % two64) else a.clk.2) := by
  unfold tickClock
  rw [clk_incTicks, clk_samplerPart, clk_frameSeqPart, clk_tickTimer]

/-- the length fields of the four channels -/
def lens (a : Apu) : (Bool × Nat) × (Bool × Nat) × (Bool × Nat) × (Bool × Nat) :=
  (a.ch1.lenPair, a.ch2.lenPair, a.ch3.lenPair, a.ch4.lenPair)
/-- … after one length clock -/
def lensClocked (a : Apu) : (Bool × Nat) × (Bool × Nat) × (Bool × Nat) × (Bool × Nat) :=
  (a.ch1.tickLength.lenPair, a.ch2.tickLength.lenPair, a.ch3.tickLength.lenPair, a.ch4.tickLength.lenPair)

theorem lensClocked_congr (a b : Apu) (h : a.lens = b.lens) : a.lensClocked = b.lensClocked := by
  simp only [lens, Prod.mk.injEq] at h
  unfold lensClocked
  rw [Square.lenPair_tickLength_congr _ _ h.1, Square.lenPair_tickLength_congr _ _ h.2.1,
      Wave.lenPair_tickLength_congr _ _ h.2.2.1, Noise.lenPair_tickLength_congr _ _ h.2.2.2]

theorem lens_tickTimer (a : Apu) : a.tickTimer.lens = a.lens := by
  simp only [tickTimer, lens]
  repeat' split
  all_goals simp only [Square.lenPair_tickTimer, Wave.lenPair_tickTimer, Noise.lenPair_tickTimer]
theorem lens_lenPart (a : Apu) : a.lenPart.lens = if a.frameSeqTicks % 2 = 0 then a.lensClocked else a.lens := by
  unfold lenPart; split <;> rfl
theorem lens_envPart (a : Apu) : a.envPart.lens = a.lens := by
  unfold envPart; split
  · simp only [lens, Square.lenPair_tickVolumeEnvelope, Noise.lenPair_tickVolumeEnvelope]
  · rfl
theorem lens_sweepPart (a : Apu) : a.sweepPart.lens = a.lens := by
  unfold sweepPart; split
  · simp only [lens, Square.lenPair_tickSweep]
  · rfl
theorem lens_incFs (a : Apu) : a.incFs.lens = a.lens := rfl
theorem lens_incTicks (a : Apu) : a.incTicks.lens = a.lens := rfl
theorem lens_wrapFs (a : Apu) : a.wrapFs.lens = a.lens := by unfold wrapFs; split <;> rfl
theorem lens_takeSample (a : Apu) : a.takeSample.lens = a.lens := by
  simp only [takeSample, lens]; repeat' split
  all_goals rfl
theorem lens_samplerPart (a : Apu) : a.samplerPart.lens = a.lens := by
  unfold samplerPart; split
  · exact lens_takeSample a
  · rfl
theorem lens_frameSeqPart (a : Apu) :
    a.frameSeqPart.lens = if a.ticks % 8192 = 0 ∧ a.frameSeqTicks % 2 = 0 then a.lensClocked else a.lens := by
  unfold frameSeqPart; rw [frameSeqPeriod_eq]
  by_cases c : a.ticks % 8192 = 0
  · rw [if_pos c]; unfold tickFrameSequencer
    rw [lens_wrapFs, lens_incFs, lens_sweepPart, lens_envPart, lens_lenPart]
    by_cases d : a.frameSeqTicks % 2 = 0
    · rw [if_pos d, if_pos ⟨c, d⟩]
    · rw [if_neg d, if_neg (fun x => d x.2)]
  · rw [if_neg c, if_neg (fun x => c x.1)]

/-- the length fields of the four channels after one clock: `tickLength` applied exactly when the
    clock counter is a multiple of 8192 and the step counter is even -/
theorem lens_tickClock (a : Apu) :
    a.tickClock.lens = if a.ticks % 8192 = 0 ∧ a.frameSeqTicks % 2 = 0 then a.lensClocked else a.lens := by
  unfold tickClock
  rw [lens_incTicks, lens_samplerPart, lens_frameSeqPart, lensClocked_congr _ _ (lens_tickTimer a), lens_tickTimer]
  have e : a.tickTimer.clk = a.clk := clk_tickTimer a
  simp only [clk, Prod.mk.injEq] at e
  rw [e.1, e.2]

end Apu
end Tetro.Model.Apu
