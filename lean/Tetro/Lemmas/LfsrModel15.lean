import Tetro.Model.ApuNoise
import Tetro.Spec.Apu
import Tetro.Lemmas.LfsrCheck
/- the code's LFSR step in 15-bit mode against the documented generator, all 32768 register values (C21) -/
namespace Tetro.C21
open Tetro.Model.Apu Tetro.Spec.Apu

theorem lfsr_model15 : (∀ l, l < 32768 → lfsrStep 0 l = lfsr15 l ∧ lfsr15 l < 32768) ∧ lfsrStep 0 0xffff = 0x7fff := by
  refine ⟨fun l hl => ?_, by decide +kernel⟩
  have := allBelow_spec (fun l => Nat.beq (lfsrStep 0 l) (lfsr15 l) && Nat.blt (lfsr15 l) 32768) 32768 (by decide +kernel) l hl
  simp only [Bool.and_eq_true] at this
  exact ⟨Nat.eq_of_beq_eq_true this.1, Nat.blt_eq.mp this.2⟩

end Tetro.C21
