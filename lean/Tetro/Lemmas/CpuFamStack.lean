import Tetro.Lemmas.CpuBasic
/-
C01 per instruction family: PUSH/POP, jumps, calls, returns, RST.
-/
set_option linter.unusedSimpArgs false
set_option linter.constructorNameAsVariable false
namespace Tetro.C01
open Tetro.Model.Cpu Tetro.Spec.Isa

theorem holds_push (rp : Rp2) : Holds (.push rp) := by
  intro r m hf
  cases rp
  case af =>
    have h := f_eq_fByte r.f hf
    c01_simp [St.fByte]
    exact congrArg _ h
  all_goals c01_simp

theorem holds_pop (rp : Rp2) : Holds (.pop rp) := by
  intro r m _
  cases rp <;> c01_simp

theorem holds_jp : Holds .jp := by
  intro r m _
  c01_simp
theorem holds_jpHL : Holds .jpHL := by
  intro r m _
  c01_simp
theorem holds_jr : Holds .jr := by
  intro r m _
  c01_simp
theorem holds_call : Holds .call := by
  intro r m _
  c01_simp
theorem holds_ret : Holds .ret := by
  intro r m _
  c01_simp
theorem holds_reti : Holds .reti := by
  intro r m _
  c01_simp
theorem holds_rst (t : Nat) : Holds (.rst t) := by
  intro r m _
  c01_simp

end Tetro.C01
