import Tetro.Lemmas.CpuBasic
/-
C01 per instruction family: 8-bit and 16-bit loads.
-/
set_option linter.unusedSimpArgs false
set_option linter.constructorNameAsVariable false
namespace Tetro.C01
open Tetro.Model.Cpu Tetro.Spec.Isa

theorem holds_ld (dst src : Loc) (hw : WellFormed (.ld dst src)) : Holds (.ld dst src) := by
  intro r m _
  cases dst with
  | r d => cases src with
    | r s => cases d <;> cases s <;> c01_simp
    | hlm => cases d <;> c01_simp
  | hlm => cases src with
    | r s => cases s <;> c01_simp
    | hlm => exact absurd hw (by simp [WellFormed])

theorem holds_ldN (dst : Loc) : Holds (.ldN dst) := by
  intro r m _
  cases dst with
  | r d => cases d <;> c01_simp
  | hlm => c01_simp

theorem holds_ldRpNN (rp : Rp) : Holds (.ldRpNN rp) := by
  intro r m _
  cases rp <;> c01_simp

theorem holds_ldNNSP : Holds .ldNNSP := by
  intro r m _
  c01_simp

theorem holds_ldSPHL : Holds .ldSPHL := by
  intro r m _
  c01_simp

theorem holds_ldAInd (i : Spec.Isa.Ind) : Holds (.ldAInd i) := by
  intro r m _
  cases i <;> c01_simp

theorem holds_ldIndA (i : Spec.Isa.Ind) : Holds (.ldIndA i) := by
  intro r m _
  cases i <;> c01_simp

end Tetro.C01
