import Tetro.Model.Cart
import Tetro.Lemmas.CartBits
/-
Well-formedness of cartridge controller states and the one-step lemmas shared by the proofs of
C08, C09 and C11 (cartridge part): inside the bounds every checked operation of the model succeeds.
-/
namespace Tetro.CartWF
open Tetro.Model.Cart

/-- bank indices within the slices, divisors non-zero -/
def WellFormed : Mbc → Prop
  | .none m => 0x8000 ≤ m.imgLen
  | .mbc1 m => 0 < m.romLen % 256 ∧ 0 < m.ramLen % 256 ∧ m.romBank0 < m.romLen ∧ m.romBank1 < m.romLen ∧
               m.ramBank < m.ramLen
  | .mbc2 m => 0 < m.romLen ∧ m.romBank < m.romLen
  | .mbc3 m => 0 < m.romLen ∧ m.romBank < m.romLen ∧ 0 < m.ramLen
  | .mbc5 m => 0 < m.romLen ∧ m.romBank < m.romLen ∧ 0 < m.ramLen % 256 ∧ m.ramBank < m.ramLen

/-! #### checked operations succeed inside their bounds -/

theorem mod?_pos {a n : Nat} (h : 0 < n) : mod? a n = some (a % n) := by
  unfold mod?; split <;> first | omega | rfl

theorem page?_ok {rom : Rom} {len b o : Nat} (hb : b < len) (ho : o < 0x4000) :
    page? rom len b o = some (rom b o) := by
  unfold page?; simp [hb, ho]

theorem bank?_ok {ram : Ram} {len b o : Nat} (hb : b < len) (ho : o < 0x2000) :
    bank? ram len b o = some (ram b o) := by
  unfold bank?; simp [hb, ho]

theorem bankSet?_ok {ram : Ram} {len b o v : Nat} (hb : b < len) (ho : o < 0x2000) :
    bankSet? ram len b o v = some (setRam ram b o v) := by
  unfold bankSet?; simp [hb, ho]

/-! #### MBC1 -/

theorem mbc1_update {m : Mbc1} (hr : 0 < m.romLen % 256) (hq : 0 < m.ramLen % 256)
    (hk : m.ramBank < m.ramLen) :
    ∃ m', Mbc1.updateBanks m = some m' ∧ WellFormed (.mbc1 m') ∧ m'.romLen = m.romLen ∧ m'.ramLen = m.ramLen := by
  have hlt : ∀ x, x % (m.romLen % 256) < m.romLen := fun x =>
    Nat.lt_of_lt_of_le (Nat.mod_lt _ hr) (Nat.mod_le _ _)
  have hlt2 : ∀ x, x % (m.ramLen % 256) < m.ramLen := fun x =>
    Nat.lt_of_lt_of_le (Nat.mod_lt _ hq) (Nat.mod_le _ _)
  have hrl : 0 < m.romLen := by omega
  have hql : 0 < m.ramLen := by omega
  unfold Mbc1.updateBanks Mbc1.newRomBank0 Mbc1.newRamBank
  simp only [mod?_pos hr, mod?_pos hq]
  cases m.mode1 <;> cases m.ramEnabled <;>
    simp [WellFormed, hr, hq, hlt, hlt2, hk, hrl, hql]

theorem mbc1_write {m : Mbc1} (h : WellFormed (.mbc1 m)) (a v : Nat) :
    ∃ m', Mbc1.write m a v = some m' ∧ WellFormed (.mbc1 m') := by
  obtain ⟨hr, hq, h0, h1, hk⟩ := h
  unfold Mbc1.write
  repeat' split
  · obtain ⟨m', e, w, _⟩ := mbc1_update (m := { m with ramEnabled := enableBit v }) hr hq hk
    exact ⟨m', e, w⟩
  · obtain ⟨m', e, w, _⟩ := mbc1_update (m := { m with bank1 := Mbc1.bank1Of v }) hr hq hk
    exact ⟨m', e, w⟩
  · obtain ⟨m', e, w, _⟩ := mbc1_update (m := { m with bank2 := v &&& 0x03 }) hr hq hk
    exact ⟨m', e, w⟩
  · obtain ⟨m', e, w, _⟩ := mbc1_update (m := { m with mode1 := (v &&& 0x01) != 0 }) hr hq hk
    exact ⟨m', e, w⟩
  · exact ⟨m, rfl, hr, hq, h0, h1, hk⟩
  · rw [bankSet?_ok hk (by omega)]
    exact ⟨_, rfl, hr, hq, h0, h1, hk⟩
  · exact ⟨m, rfl, hr, hq, h0, h1, hk⟩
  · exact ⟨m, rfl, hr, hq, h0, h1, hk⟩

theorem mbc1_read {m : Mbc1} (h : WellFormed (.mbc1 m)) (a : Nat) : (Mbc1.read m a).isSome := by
  obtain ⟨hr, hq, h0, h1, hk⟩ := h
  unfold Mbc1.read
  repeat' split
  · rw [page?_ok h0 (by omega)]; rfl
  · rw [page?_ok h1 (by omega)]; rfl
  · rfl
  · rw [bank?_ok hk (by omega)]; rfl
  · rfl
  · rfl

/-! #### MBC2 -/

theorem cell?_ok {ram : Nat → Nat} {o : Nat} (ho : o < 512) : cell? ram o = some (ram o) := by
  unfold cell?; simp [ho]

theorem cellSet?_ok {ram : Nat → Nat} {o v : Nat} (ho : o < 512) :
    cellSet? ram o v = some (setCell ram o v) := by
  unfold cellSet?; simp [ho]

theorem mbc2_write {m : Mbc2} (h : WellFormed (.mbc2 m)) (a v : Nat) :
    ∃ m', Mbc2.write m a v = some m' ∧ WellFormed (.mbc2 m') := by
  obtain ⟨hr, hb⟩ := h
  unfold Mbc2.write
  repeat' split
  · exact ⟨_, rfl, hr, hb⟩
  · rw [mod?_pos hr]
    refine ⟨_, rfl, hr, ?_⟩
    exact Nat.lt_of_le_of_lt (Nat.mod_le _ _) (Nat.mod_lt _ hr)
  · exact ⟨_, rfl, hr, hb⟩
  · rw [cellSet?_ok (Nat.mod_lt _ (by decide))]
    exact ⟨_, rfl, hr, hb⟩
  · exact ⟨_, rfl, hr, hb⟩
  · exact ⟨_, rfl, hr, hb⟩

theorem mbc2_read {m : Mbc2} (h : WellFormed (.mbc2 m)) (a : Nat) : (Mbc2.read m a).isSome := by
  obtain ⟨hr, hb⟩ := h
  unfold Mbc2.read
  repeat' split
  · rw [page?_ok hr (by omega)]; rfl
  · rw [page?_ok hb (by omega)]; rfl
  · rfl
  · rw [cell?_ok (Nat.mod_lt _ (by decide))]; rfl
  · rfl
  · rfl

/-! #### MBC3 -/

theorem mbc3_write {m : Mbc3} (h : WellFormed (.mbc3 m)) (a v : Nat) :
    ∃ m', Mbc3.write m a v = some m' ∧ WellFormed (.mbc3 m') := by
  obtain ⟨hr, hb, hq⟩ := h
  unfold Mbc3.write
  repeat' split
  · exact ⟨_, rfl, hr, hb, hq⟩
  · rw [mod?_pos hr]
    refine ⟨_, rfl, hr, ?_, hq⟩
    exact Nat.lt_of_le_of_lt (Nat.mod_le _ _) (Nat.mod_lt _ hr)
  · exact ⟨_, rfl, hr, hb, hq⟩
  · exact ⟨_, rfl, hr, hb, hq⟩
  · exact ⟨_, rfl, hr, hb, hq⟩
  · exact ⟨_, rfl, hr, hb, hq⟩
  · exact ⟨_, rfl, hr, hb, hq⟩
  · rw [mod?_pos hq]
    simp only [Option.bind_some]
    rw [bankSet?_ok (Nat.mod_lt _ hq) (by omega)]
    exact ⟨_, rfl, hr, hb, hq⟩
  · exact ⟨_, rfl, hr, hb, hq⟩
  · exact ⟨_, rfl, hr, hb, hq⟩

theorem mbc3_read {m : Mbc3} (h : WellFormed (.mbc3 m)) (a : Nat) : (Mbc3.read m a).isSome := by
  obtain ⟨hr, hb, hq⟩ := h
  unfold Mbc3.read
  repeat' split
  · rw [page?_ok hr (by omega)]; rfl
  · rw [page?_ok hb (by omega)]; rfl
  · rfl
  · rfl
  · rw [mod?_pos hq]
    simp only [Option.bind_some]
    rw [bank?_ok (Nat.mod_lt _ hq) (by omega)]; rfl
  · rfl
  · rfl

/-! #### MBC5 -/

theorem mbc5_write {m : Mbc5} (h : WellFormed (.mbc5 m)) (a v : Nat) :
    ∃ m', Mbc5.write m a v = some m' ∧ WellFormed (.mbc5 m') := by
  obtain ⟨hr, hb, hq, hk⟩ := h
  have hlt : ∀ x, x % m.romLen % 65536 < m.romLen := fun x =>
    Nat.lt_of_le_of_lt (Nat.mod_le _ _) (Nat.mod_lt _ hr)
  have hlt2 : ∀ x, x % (m.ramLen % 256) < m.ramLen := fun x =>
    Nat.lt_of_lt_of_le (Nat.mod_lt _ hq) (Nat.mod_le _ _)
  unfold Mbc5.write
  repeat' split
  · exact ⟨_, rfl, hr, hb, hq, hk⟩
  · rw [mod?_pos hr]; exact ⟨_, rfl, hr, hlt _, hq, hk⟩
  · rw [mod?_pos hr]; exact ⟨_, rfl, hr, hlt _, hq, hk⟩
  · rw [mod?_pos hq]; exact ⟨_, rfl, hr, hb, hq, hlt2 _⟩
  · exact ⟨_, rfl, hr, hb, hq, hk⟩
  · rw [bankSet?_ok hk (by omega)]; exact ⟨_, rfl, hr, hb, hq, hk⟩
  · exact ⟨_, rfl, hr, hb, hq, hk⟩
  · exact ⟨_, rfl, hr, hb, hq, hk⟩

theorem mbc5_read {m : Mbc5} (h : WellFormed (.mbc5 m)) (a : Nat) : (Mbc5.read m a).isSome := by
  obtain ⟨hr, hb, hq, hk⟩ := h
  have hrl : 0 < m.romLen := hr
  unfold Mbc5.read
  repeat' split
  · rw [page?_ok hrl (by omega)]; rfl
  · rw [page?_ok hb (by omega)]; rfl
  · rfl
  · rw [bank?_ok hk (by omega)]; rfl
  · rfl
  · rfl

/-! #### the interface -/

/-- a controller write from a well-formed state succeeds and keeps the state well-formed -/
theorem write_ok {c : Mbc} (h : WellFormed c) (a v : Nat) :
    ∃ c', Mbc.write c a v = some c' ∧ WellFormed c' := by
  cases c with
  | none m => exact ⟨.none m, rfl, h⟩
  | mbc1 m => obtain ⟨m', e, w⟩ := mbc1_write h a v; exact ⟨.mbc1 m', by simp [Mbc.write, e], w⟩
  | mbc2 m => obtain ⟨m', e, w⟩ := mbc2_write h a v; exact ⟨.mbc2 m', by simp [Mbc.write, e], w⟩
  | mbc3 m => obtain ⟨m', e, w⟩ := mbc3_write h a v; exact ⟨.mbc3 m', by simp [Mbc.write, e], w⟩
  | mbc5 m => obtain ⟨m', e, w⟩ := mbc5_write h a v; exact ⟨.mbc5 m', by simp [Mbc.write, e], w⟩

/-- a read of any address from a well-formed state succeeds -/
theorem read_ok {c : Mbc} (h : WellFormed c) (a : Nat) : (busRead c a).isSome := by
  cases c with
  | none m =>
    have h' : 0x8000 ≤ m.imgLen := h
    simp only [busRead, Mbc.read, NoMbc.read]
    repeat' split
    · rfl
    · omega
    · rfl
  | mbc1 m => exact mbc1_read h a
  | mbc2 m => exact mbc2_read h a
  | mbc3 m => exact mbc3_read h a
  | mbc5 m => exact mbc5_read h a

theorem tick_wf {c : Mbc} (h : WellFormed c) : WellFormed c.tick := by
  cases c <;> exact h

theorem step_ok {c : Mbc} (h : WellFormed c) (op : Op) : ∃ c', step c op = some c' ∧ WellFormed c' := by
  cases op with
  | tick => exact ⟨_, rfl, tick_wf h⟩
  | write a v =>
    simp only [step, busWrite]
    split
    · exact write_ok h _ _
    · exact ⟨c, rfl, h⟩

/-! #### construction -/

theorem declared_ge2 {k n : Nat} (h : declaredPages k = some n) : 2 ≤ n ∧ ∃ j, n = 2 ^ (j + 1) := by
  unfold declaredPages at h
  split at h
  · injection h with h
    rw [Nat.shiftLeft_eq] at h
    have : 0 < 2 ^ k := Nat.two_pow_pos k
    refine ⟨by omega, k, ?_⟩
    rw [Nat.pow_succ]; omega
  · cases h

theorem prepareROM_spec {k : Nat} {img : Image} {n : Nat} (h : prepareROM k img = some n) :
    img.len = n * 0x4000 ∧ 2 ≤ n ∧ ∃ j, n = 2 ^ (j + 1) := by
  unfold prepareROM at h
  split at h
  · cases h
  · split at h
    · injection h with h
      rename_i hm hd
      obtain ⟨h2, hj⟩ := declared_ge2 hd
      subst h
      exact ⟨by omega, h2, hj⟩
    · cases h

theorem prepareRAM_range (t s : Nat) :
    prepareRAM t s = 1 ∨ prepareRAM t s = 4 ∨ prepareRAM t s = 8 ∨ prepareRAM t s = 16 := by
  unfold prepareRAM
  repeat' split
  all_goals simp

end Tetro.CartWF
