import Tetro.Lemmas.BusRoute
import Tetro.Lemmas.Oam
import Tetro.Model.Machine
/-
Helper lemmas about `Model.Machine` shared by Proofs/C06.lean and Proofs/C07.lean: checked arrays,
handler-from-range facts for the documented arm lists, byte-level facts (kernel evaluation over all bytes).
-/
namespace Tetro.BusBasic
open Tetro.Model.Decoder Tetro.Model.Machine Tetro.Model Tetro.BusRoute

abbrev R := expectedReadArms
abbrev W := expectedWriteArms

/-! ### checked arrays -/

theorem ldv_eq {n : Nat} {m : Vector Nat n} {i : Nat} (h : i < n) : ldv m i = some m[i] := by simp [ldv, h]
theorem stv_eq {n : Nat} {m : Vector Nat n} {i v : Nat} (h : i < n) : stv m i v = some (m.set i v h) := by
  simp [stv, h]

theorem ldv_set_self {n : Nat} {m : Vector Nat n} {i v : Nat} (h : i < n) : ldv (m.set i v h) i = some v := by
  simp [ldv, h]

theorem ldv_set_ne {n : Nat} {m : Vector Nat n} {i j v : Nat} (h : i < n) (hij : i ≠ j) :
    ldv (m.set i v h) j = ldv m j := by
  unfold ldv
  by_cases hj : j < n
  · simp [hj, Vector.getElem_set_ne, hij]
  · simp [hj]

theorem sub16_eq {a b : Nat} (h1 : b ≤ a) (h2 : a < 65536) : Oam.sub16 a b = a - b := by
  simp only [Oam.sub16]; omega

/-! ### the handler of an address, from its range -/

theorem h_vram {rd : Bool} {h : H} {a : Nat} (hr : inRange rd h a = true) (h1 : 0x8000 ≤ a) (h2 : a < 0xa000) : h = .vram := by
  cases h <;> simp [inRange] at hr ⊢ <;> omega
theorem h_wram {rd : Bool} {h : H} {a : Nat} (hr : inRange rd h a = true) (h1 : 0xc000 ≤ a) (h2 : a < 0xe000) : h = .wram := by
  cases h <;> simp [inRange] at hr ⊢ <;> omega
theorem h_echo {rd : Bool} {h : H} {a : Nat} (hr : inRange rd h a = true) (h1 : 0xe000 ≤ a) (h2 : a < 0xfe00) : h = .echo := by
  cases h <;> simp [inRange] at hr ⊢ <;> omega
theorem h_oam {rd : Bool} {h : H} {a : Nat} (hr : inRange rd h a = true) (h1 : 0xfe00 ≤ a) (h2 : a < 0xff00) : h = .oam := by
  cases h <;> simp [inRange] at hr ⊢ <;> omega
theorem h_hram {rd : Bool} {h : H} {a : Nat} (hr : inRange rd h a = true) (h1 : 0xff80 ≤ a) (h2 : a < 0xffff) : h = .hram := by
  cases h <;> simp [inRange] at hr ⊢ <;> omega
theorem h_mbc {rd : Bool} {h : H} {a : Nat} (hr : inRange rd h a = true) (h1 : a < 0x8000 ∨ (0xa000 ≤ a ∧ a < 0xc000)) :
    h = .mbc := by
  cases h <;> simp [inRange] at hr ⊢ <;> omega

theorem rR_vram {a : Nat} (h1 : 0x8000 ≤ a) (h2 : a < 0xa000) : route R a = .vram :=
  h_vram (range_read (by omega)) h1 h2
theorem rW_vram {a : Nat} (h1 : 0x8000 ≤ a) (h2 : a < 0xa000) : route W a = .vram :=
  h_vram (range_write (by omega)) h1 h2
theorem rR_wram {a : Nat} (h1 : 0xc000 ≤ a) (h2 : a < 0xe000) : route R a = .wram :=
  h_wram (range_read (by omega)) h1 h2
theorem rW_wram {a : Nat} (h1 : 0xc000 ≤ a) (h2 : a < 0xe000) : route W a = .wram :=
  h_wram (range_write (by omega)) h1 h2
theorem rR_echo {a : Nat} (h1 : 0xe000 ≤ a) (h2 : a < 0xfe00) : route R a = .echo :=
  h_echo (range_read (by omega)) h1 h2
theorem rW_echo {a : Nat} (h1 : 0xe000 ≤ a) (h2 : a < 0xfe00) : route W a = .echo :=
  h_echo (range_write (by omega)) h1 h2
theorem rR_oam {a : Nat} (h1 : 0xfe00 ≤ a) (h2 : a < 0xff00) : route R a = .oam :=
  h_oam (range_read (by omega)) h1 h2
theorem rW_oam {a : Nat} (h1 : 0xfe00 ≤ a) (h2 : a < 0xff00) : route W a = .oam :=
  h_oam (range_write (by omega)) h1 h2
theorem rR_hram {a : Nat} (h1 : 0xff80 ≤ a) (h2 : a < 0xffff) : route R a = .hram :=
  h_hram (range_read (by omega)) h1 h2
theorem rW_hram {a : Nat} (h1 : 0xff80 ≤ a) (h2 : a < 0xffff) : route W a = .hram :=
  h_hram (range_write (by omega)) h1 h2
theorem rR_mbc {a : Nat} (h1 : a < 0x8000 ∨ (0xa000 ≤ a ∧ a < 0xc000)) : route R a = .mbc :=
  h_mbc (range_read (by omega)) h1
theorem rW_mbc {a : Nat} (h1 : a < 0x8000 ∨ (0xa000 ≤ a ∧ a < 0xc000)) : route W a = .mbc :=
  h_mbc (range_write (by omega)) h1

/-- an I/O address that is neither an implemented register nor a sound address is unmapped -/
theorem rR_ff {a : Nat} (h1 : 0xff00 ≤ a) (h2 : a < 0xff80) (h3 : ¬ (0xff10 ≤ a ∧ a < 0xff40))
    (h4 : a ≠ 0xff00 ∧ a ≠ 0xff01 ∧ a ≠ 0xff02 ∧ a ≠ 0xff04 ∧ a ≠ 0xff05 ∧ a ≠ 0xff06 ∧ a ≠ 0xff07 ∧ a ≠ 0xff0f)
    (h5 : ¬ (0xff40 ≤ a ∧ a ≤ 0xff4b)) : route R a = .ff := by
  have hr := range_read (a := a) (by omega)
  generalize route R a = h at hr
  cases h <;> simp [inRange] at hr ⊢ <;> omega

theorem rW_ignore {a : Nat} (h1 : 0xff00 ≤ a) (h2 : a < 0xff80) (h3 : ¬ (0xff10 ≤ a ∧ a < 0xff40))
    (h4 : a ≠ 0xff00 ∧ a ≠ 0xff01 ∧ a ≠ 0xff02 ∧ a ≠ 0xff04 ∧ a ≠ 0xff05 ∧ a ≠ 0xff06 ∧ a ≠ 0xff07 ∧ a ≠ 0xff0f)
    (h5 : ¬ (0xff40 ≤ a ∧ a ≤ 0xff4b)) : route W a = .ignore := by
  have hr := range_write (a := a) (by omega)
  generalize route W a = h at hr
  cases h <;> simp [inRange] at hr ⊢ <;> omega


/-! ### the handler of each implemented register -/

theorem rR_joyp : route R 0xff00 = .joyp := by decide +kernel
theorem rW_joyp : route W 0xff00 = .joyp := by decide +kernel
theorem rR_sb : route R 0xff01 = .sb := by decide +kernel
theorem rW_sb : route W 0xff01 = .sb := by decide +kernel
theorem rR_sc : route R 0xff02 = .sc := by decide +kernel
theorem rW_sc : route W 0xff02 = .sc := by decide +kernel
theorem rR_div : route R 0xff04 = .div := by decide +kernel
theorem rW_div : route W 0xff04 = .div := by decide +kernel
theorem rR_tima : route R 0xff05 = .tima := by decide +kernel
theorem rW_tima : route W 0xff05 = .tima := by decide +kernel
theorem rR_tma : route R 0xff06 = .tma := by decide +kernel
theorem rW_tma : route W 0xff06 = .tma := by decide +kernel
theorem rR_tac : route R 0xff07 = .tac := by decide +kernel
theorem rW_tac : route W 0xff07 = .tac := by decide +kernel
theorem rR_ifl : route R 0xff0f = .ifl := by decide +kernel
theorem rW_ifl : route W 0xff0f = .ifl := by decide +kernel
theorem rR_lcdc : route R 0xff40 = .lcdc := by decide +kernel
theorem rW_lcdc : route W 0xff40 = .lcdc := by decide +kernel
theorem rR_stat : route R 0xff41 = .stat := by decide +kernel
theorem rW_stat : route W 0xff41 = .stat := by decide +kernel
theorem rR_scy : route R 0xff42 = .scy := by decide +kernel
theorem rW_scy : route W 0xff42 = .scy := by decide +kernel
theorem rR_scx : route R 0xff43 = .scx := by decide +kernel
theorem rW_scx : route W 0xff43 = .scx := by decide +kernel
theorem rR_ly : route R 0xff44 = .ly := by decide +kernel
theorem rW_ly : route W 0xff44 = .ly := by decide +kernel
theorem rR_lyc : route R 0xff45 = .lyc := by decide +kernel
theorem rW_lyc : route W 0xff45 = .lyc := by decide +kernel
theorem rR_dma : route R 0xff46 = .dma := by decide +kernel
theorem rW_dma : route W 0xff46 = .dma := by decide +kernel
theorem rR_bgp : route R 0xff47 = .bgp := by decide +kernel
theorem rW_bgp : route W 0xff47 = .bgp := by decide +kernel
theorem rR_obp0 : route R 0xff48 = .obp0 := by decide +kernel
theorem rW_obp0 : route W 0xff48 = .obp0 := by decide +kernel
theorem rR_obp1 : route R 0xff49 = .obp1 := by decide +kernel
theorem rW_obp1 : route W 0xff49 = .obp1 := by decide +kernel
theorem rR_wy : route R 0xff4a = .wy := by decide +kernel
theorem rW_wy : route W 0xff4a = .wy := by decide +kernel
theorem rR_wx : route R 0xff4b = .wx := by decide +kernel
theorem rW_wx : route W 0xff4b = .wx := by decide +kernel
theorem rR_ie : route R 0xffff = .ie := by decide +kernel
theorem rW_ie : route W 0xffff = .ie := by decide +kernel

end Tetro.BusBasic
