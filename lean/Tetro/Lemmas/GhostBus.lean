import Tetro.Model.CpuExec
/-
A GHOST write log for ANY bus.  `Ghost M` wraps a bus state of type `M` with a list of the (address, value)
pairs the CPU model wrote through `Bus.write`, in order.  All nine operations are delegated to the wrapped bus
unchanged; `write` additionally appends to the list.  The CPU model (`MicroOp.run`, `fetch`, `next`, `stepSub`,
`cycle`) is generic in the bus, so running it on `Ghost M` is running the SAME code on an instrumented bus:

  `cycle_ghost` : the CPU state and the wrapped bus after a cycle on `Ghost M` are exactly the CPU state and the
                  bus after the cycle on `M` – the instrumentation observes, it does not interfere;
  `cycle_wr_prefix` : the log only grows;
  `cycle_wr_addrs`  : what a cycle appends are the write addresses of the ONE micro-operation it executes, given by
                  the explicit tag function `writeAddrs` (micro-operation, registers, IME).

Used by Proofs/C17Whole.lean to say "the CPU wrote address a in this machine cycle" without re-describing which
micro-operation writes where (compare `Model/LogBus.lean`, which does the same for the flat bus of the ISA
theorems and logs reads too).
-/
namespace Tetro.GhostBus
open Tetro.Model.Cpu

structure Ghost (M : Type) where
  bus : M
  wr  : List (Word × Byte)

variable {M : Type} [Bus M]

instance : Bus (Ghost M) where
  read g a := ((Bus.read g.bus a).1, { bus := (Bus.read g.bus a).2, wr := g.wr })
  write g a v := { bus := Bus.write g.bus a v, wr := g.wr ++ [(a, v)] }
  trigger g a := { bus := Bus.trigger g.bus a, wr := g.wr }
  corrupt g := { bus := Bus.corrupt g.bus, wr := g.wr }
  ime g := Bus.ime g.bus
  setIme g v := { bus := Bus.setIme g.bus v, wr := g.wr }
  ie g := Bus.ie g.bus
  iflag g := Bus.iflag g.bus
  clearIf g k := { bus := Bus.clearIf g.bus k, wr := g.wr }

/-- same first component, and the wrapped bus of the second is the second -/
def Sim {α : Type} (x : α × Ghost M) (y : α × M) : Prop := x.1 = y.1 ∧ x.2.bus = y.2

theorem ghost_ime (g : Ghost M) : Bus.ime g = Bus.ime g.bus := rfl
theorem ghost_pending (g : Ghost M) : pendingBits g = pendingBits g.bus := rfl

theorem handleInterrupt_ghost (r : Regs) (g : Ghost M) : Sim (handleInterruptF r g) (handleInterruptF r g.bus) := by
  unfold handleInterruptF
  rw [ghost_ime]
  cases Bus.ime g.bus
  · exact ⟨rfl, rfl⟩
  · simp only [if_true]
    have e : pendingBits (Bus.setIme g false) = pendingBits (Bus.setIme g.bus false) := rfl
    rw [e]
    cases pendingSource (pendingBits (Bus.setIme g.bus false)) <;> exact ⟨rfl, rfl⟩

/-- a micro-operation on the instrumented bus computes the same registers and the same bus state -/
theorem run_ghost (μ : MicroOp) (r : Regs) (g : Ghost M) : Sim (μ.run r g) (μ.run r g.bus) := by
  cases μ
  case handleInterrupt => exact handleInterrupt_ghost r g
  case alu op s => cases s <;> exact ⟨rfl, rfl⟩
  case inc16 k => cases k <;> exact ⟨rfl, rfl⟩
  case dec16 k => cases k <;> exact ⟨rfl, rfl⟩
  all_goals exact ⟨rfl, rfl⟩

theorem stepSub_ghost (c : Cpu) (g : Ghost M) : Sim (stepSub c g) (stepSub c g.bus) := by
  unfold stepSub
  cases c.ops[c.cycle]? with
  | none => exact ⟨rfl, rfl⟩
  | some μ =>
    obtain ⟨h1, h2⟩ := run_ghost μ c.regs g
    simp only []
    constructor
    · show ({ c with regs := (μ.run c.regs g).1, cycle := c.cycle + 1 } : Cpu) = _
      rw [h1]
    · show Bus.corrupt (μ.run c.regs g).2.bus = _
      rw [h2]

theorem checkInterrupts_ghost (t : Tables) (r : Regs) (g : Ghost M) :
    checkInterrupts t r g = checkInterrupts t r g.bus := rfl

theorem fetch_ghost (t : Tables) (c : Cpu) (r : Regs) (g : Ghost M) :
    (fetch t c r g).cpu = (fetch t c r g.bus).cpu ∧ (fetch t c r g).bus.bus = (fetch t c r g.bus).bus ∧
    (fetch t c r g).halted = (fetch t c r g.bus).halted ∧ (fetch t c r g).bus.wr = g.wr := by
  unfold fetch
  cases r.eiPending
  · simp only [Bool.false_eq_true, if_false]
    have e : (Bus.read g r.pc).1 = (Bus.read g.bus r.pc).1 := rfl
    rw [e]
    split <;> exact ⟨rfl, rfl, rfl, rfl⟩
  · simp only [if_true]
    have e : (Bus.read (Bus.setIme g true) r.pc).1 = (Bus.read (Bus.setIme g.bus true) r.pc).1 := rfl
    rw [e]
    split <;> exact ⟨rfl, rfl, rfl, rfl⟩

theorem next_ghost (t : Tables) (c : Cpu) (g : Ghost M) :
    (next t c g).cpu = (next t c g.bus).cpu ∧ (next t c g).bus.bus = (next t c g.bus).bus ∧
    (next t c g).halted = (next t c g.bus).halted ∧ (next t c g).bus.wr = g.wr := by
  unfold next
  rw [checkInterrupts_ghost]
  simp only []
  cases (checkInterrupts t c.regs g.bus).2 with
  | some seq => exact ⟨rfl, rfl, rfl, rfl⟩
  | none =>
    simp only []
    split
    · exact ⟨rfl, rfl, rfl, rfl⟩
    · exact fetch_ghost t c c.regs g

/-- **the instrumentation does not interfere**: `ExecuteMachineCycle` on the instrumented bus computes the same
    CPU state and the same bus state as on the bus itself -/
theorem cycle_ghost (t : Tables) (c : Cpu) (g : Ghost M) : Sim (cycle t c g) (cycle t c g.bus) := by
  unfold cycle
  split
  · exact ⟨rfl, rfl⟩
  · split
    · obtain ⟨h1, h2, h3, _⟩ := next_ghost t c g
      simp only []
      rw [h3]
      split
      · exact ⟨h1, h2⟩
      · have := stepSub_ghost (next t c g).cpu (next t c g).bus
        rw [h1, h2] at this
        rw [h1]
        exact this
    · exact stepSub_ghost c g

/-! ### the log only grows -/

theorem run_wr_prefix (μ : MicroOp) (r : Regs) (g : Ghost M) : ∃ l, (μ.run r g).2.wr = g.wr ++ l := by
  cases μ
  case handleInterrupt =>
    show ∃ l, (handleInterruptF r g).2.wr = g.wr ++ l
    unfold handleInterruptF
    split
    · simp only []
      split <;> exact ⟨_, by
        show (_ ++ [_]) ++ [_] = _
        rw [List.append_assoc]; rfl⟩
    · exact ⟨[], (List.append_nil _).symm⟩
  case alu op s => cases s <;> exact ⟨[], (List.append_nil _).symm⟩
  case inc16 k => cases k <;> exact ⟨[], (List.append_nil _).symm⟩
  case dec16 k => cases k <;> exact ⟨[], (List.append_nil _).symm⟩
  all_goals first
    | exact ⟨[], (List.append_nil _).symm⟩
    | exact ⟨[_], rfl⟩

theorem stepSub_wr_prefix (c : Cpu) (g : Ghost M) : ∃ l, (stepSub c g).2.wr = g.wr ++ l := by
  unfold stepSub
  cases c.ops[c.cycle]? with
  | none => exact ⟨[], (List.append_nil _).symm⟩
  | some μ => exact run_wr_prefix μ c.regs g

theorem cycle_wr_prefix (t : Tables) (c : Cpu) (g : Ghost M) : ∃ l, (cycle t c g).2.wr = g.wr ++ l := by
  unfold cycle
  split
  · exact ⟨[], (List.append_nil _).symm⟩
  · split
    · obtain ⟨_, _, _, h4⟩ := next_ghost t c g
      simp only []
      split
      · exact ⟨[], by rw [h4, List.append_nil]⟩
      · obtain ⟨l, hl⟩ := stepSub_wr_prefix (next t c g).cpu (next t c g).bus
        exact ⟨l, by rw [hl, h4]⟩
    · exact stepSub_wr_prefix c g

/-! ### what the log holds: the write addresses of the ONE micro-operation executed in the cycle -/

/-- the addresses a micro-operation writes, as a function of the registers it starts from (and, for the interrupt
    dispatch, of IME).  Hand-written tag function; `run_wr_addrs` proves it is what `MicroOp.run` does. -/
def writeAddrs (μ : MicroOp) (r : Regs) (ime : Bool) : List Word :=
  match μ with
  | .ldMR _ => [r.hl]
  | .storeA i => [i.addr r]
  | .storeAHLI => [r.hl]
  | .storeAHLD => [r.hl]
  | .writeLowSP => [r.u16]
  | .writeHighSP => [r.u16 + 1]
  | .incM => [r.hl]
  | .decM => [r.hl]
  | .rotM _ => [r.hl]
  | .resM _ => [r.hl]
  | .setM _ => [r.hl]
  | .push _ => [r.sp - 1]
  | .handleInterrupt => if ime then [r.sp - 1, r.sp - 1 - 1] else []
  | _ => []

private theorem map_snoc (l : List (Word × Byte)) (a : Word) (v : Byte) :
    (l ++ [(a, v)]).map (·.1) = l.map (·.1) ++ [a] := by
  rw [List.map_append]; rfl

theorem handleInterrupt_wr_addrs (r : Regs) (g : Ghost M) :
    (handleInterruptF r g).2.wr.map (·.1) =
      g.wr.map (·.1) ++ (if Bus.ime g.bus then [r.sp - 1, r.sp - 1 - 1] else []) := by
  unfold handleInterruptF
  rw [ghost_ime]
  cases Bus.ime g.bus
  · exact (List.append_nil _).symm
  · simp only [if_true]
    have e : pendingBits (Bus.setIme g false) = pendingBits (Bus.setIme g.bus false) := rfl
    rw [e]
    cases pendingSource (pendingBits (Bus.setIme g.bus false)) <;>
      (show List.map _ ((g.wr ++ [_]) ++ [_]) = _
       rw [map_snoc, map_snoc, List.append_assoc]
       rfl)

/-- a micro-operation appends to the log exactly the addresses `writeAddrs` lists -/
theorem run_wr_addrs (μ : MicroOp) (r : Regs) (g : Ghost M) :
    (μ.run r g).2.wr.map (·.1) = g.wr.map (·.1) ++ writeAddrs μ r (Bus.ime g.bus) := by
  cases μ
  case handleInterrupt => exact handleInterrupt_wr_addrs r g
  case alu op s => cases s <;> exact (List.append_nil _).symm
  case inc16 k => cases k <;> exact (List.append_nil _).symm
  case dec16 k => cases k <;> exact (List.append_nil _).symm
  all_goals first
    | exact (List.append_nil _).symm
    | exact map_snoc _ _ _

/-- the write addresses of the sub-instruction of the current cycle -/
def subWriteAddrs (c : Cpu) (m : M) : List Word :=
  match c.ops[c.cycle]? with
  | none => []
  | some μ => writeAddrs μ c.regs (Bus.ime m)

/-- the write addresses of one machine cycle: those of the one micro-operation it executes (instruction fetch and
    interrupt checks write nothing) -/
def cycleWriteAddrs (t : Tables) (c : Cpu) (m : M) : List Word :=
  if c.crashed || c.regs.exited then []
  else if c.isFinished then
    (if (next t c m).halted then [] else subWriteAddrs (next t c m).cpu (next t c m).bus)
  else subWriteAddrs c m

theorem stepSub_wr_addrs (c : Cpu) (g : Ghost M) :
    (stepSub c g).2.wr.map (·.1) = g.wr.map (·.1) ++ subWriteAddrs c g.bus := by
  unfold stepSub subWriteAddrs
  cases c.ops[c.cycle]? with
  | none => exact (List.append_nil _).symm
  | some μ => exact run_wr_addrs μ c.regs g

/-- **what the ghost log holds after a machine cycle** -/
theorem cycle_wr_addrs (t : Tables) (c : Cpu) (g : Ghost M) :
    (cycle t c g).2.wr.map (·.1) = g.wr.map (·.1) ++ cycleWriteAddrs t c g.bus := by
  unfold cycle cycleWriteAddrs
  split
  · exact (List.append_nil _).symm
  · split
    · obtain ⟨h1, h2, h3, h4⟩ := next_ghost t c g
      simp only []
      rw [h3]
      split
      · rw [h4]; exact (List.append_nil _).symm
      · rw [stepSub_wr_addrs, h4, h1, h2]
    · exact stepSub_wr_addrs c g

end Tetro.GhostBus
