import Tetro.Model.Render
import Tetro.Spec.Render
/-
Helper lemmas for C15 (pixel level): each layer of the code model equals the corresponding layer of the
documentation-shaped specification.  The property statements themselves are in Proofs/C15.lean.
-/
namespace Tetro.C15
open Tetro.Model.Render Tetro.Spec.Render

/-! ### bits -/
theorem mask80 : ∀ v : Fin 256, decide (v.val &&& 0x80 > 0) = v.val.testBit 7 := by decide +kernel
theorem mask40 : ∀ v : Fin 256, decide (v.val &&& 0x40 > 0) = v.val.testBit 6 := by decide +kernel
theorem mask20 : ∀ v : Fin 256, decide (v.val &&& 0x20 > 0) = v.val.testBit 5 := by decide +kernel
theorem mask10 : ∀ v : Fin 256, decide (v.val &&& 0x10 > 0) = v.val.testBit 4 := by decide +kernel
theorem mask08 : ∀ v : Fin 256, decide (v.val &&& 0x08 > 0) = v.val.testBit 3 := by decide +kernel
theorem mask04 : ∀ v : Fin 256, decide (v.val &&& 0x04 > 0) = v.val.testBit 2 := by decide +kernel
theorem mask02 : ∀ v : Fin 256, decide (v.val &&& 0x02 > 0) = v.val.testBit 1 := by decide +kernel
theorem mask01 : ∀ v : Fin 256, decide (v.val &&& 0x01 > 0) = v.val.testBit 0 := by decide +kernel

theorem enabled_eq (s : Scene) : enabled s = lcdcBit s 7 := mask80 _
theorem highWindowMap_eq (s : Scene) : highWindowMap s = lcdcBit s 6 := mask40 _
theorem windowEnabled_eq (s : Scene) : windowEnabled s = lcdcBit s 5 := mask20 _
theorem lowTileData_eq (s : Scene) : lowTileData s = lcdcBit s 4 := mask10 _
theorem highBgMap_eq (s : Scene) : highBgMap s = lcdcBit s 3 := mask08 _
theorem spritesEnabled_eq (s : Scene) : spritesEnabled s = lcdcBit s 1 := mask02 _
theorem bgEnabled_eq (s : Scene) : bgEnabled s = lcdcBit s 0 := mask01 _

/-- `a & patterns[ox] > 0` is bit 7-ox -/
theorem pattern_bit : ∀ (a : Fin 256) (ox : Fin 8),
    (patternAt ox.val).bind (fun p => some (decide (a.val &&& p > 0))) = some (a.val.testBit (7 - ox.val)) := by
  decide +kernel

theorem planePixel_eq (a b : Bool) : planePixel a b = a.toNat + 2 * b.toNat := by
  cases a <;> cases b <;> rfl

theorem tileColour_le (s : Scene) (base col row : Nat) : tileColour s base col row ≤ 3 := by
  unfold tileColour
  have h1 := Bool.toNat_le ((vbyte s (base + 2 * row)).testBit (7 - col))
  have h2 := Bool.toNat_le ((vbyte s (base + 2 * row + 1)).testBit (7 - col))
  omega

/-! ### tile fetch -/
theorem readTile_eq (s : Scene) (n ox oy : Nat) (hn : n < 512) (hx : ox < 8) (hy : oy < 8) :
    readTilePixel s (n : Int) ox oy = some (tileColour s (16 * n) ox oy) := by
  unfold readTilePixel vramAt mul8
  have e1 : ((n : Int) * 16 + ((oy * 2 % 256 : Nat) : Int)).toNat = 16 * n + 2 * oy := by omega
  have e2 : ((n : Int) * 16 + ((oy * 2 % 256 : Nat) : Int) + 1).toNat = 16 * n + 2 * oy + 1 := by omega
  have c1 : 0 ≤ (n : Int) * 16 + ((oy * 2 % 256 : Nat) : Int) ∧
      (n : Int) * 16 + ((oy * 2 % 256 : Nat) : Int) < 0x2000 := by omega
  have c2 : 0 ≤ (n : Int) * 16 + ((oy * 2 % 256 : Nat) : Int) + 1 ∧
      (n : Int) * 16 + ((oy * 2 % 256 : Nat) : Int) + 1 < 0x2000 := by omega
  simp only [if_pos c1, if_pos c2, e1, e2, Option.bind_some]
  have pa := pattern_bit (s.vram (16 * n + 2 * oy)) ⟨ox, hx⟩
  have pb := pattern_bit (s.vram (16 * n + 2 * oy + 1)) ⟨ox, hx⟩
  simp only [] at pa pb
  cases hp : patternAt ox with
  | none => simp [hp] at pa
  | some p =>
    simp only [hp, Option.bind_some, Option.some.injEq] at pa pb ⊢
    rw [pa, pb, planePixel_eq]
    rfl

/-- the addressing mode: Go `tileNumber*16` is the documented tile data offset, and it stays inside VRAM -/
theorem tileNumberOf_eq (s : Scene) (b : Fin 256) :
    ∃ n : Nat, tileNumberOf s b.val = (n : Int) ∧ n < 384 ∧ 16 * n = bgTileBase s b.val := by
  unfold tileNumberOf bgTileBase int8
  rw [lowTileData_eq]
  cases lcdcBit s 4
  · by_cases h : b.val < 128
    · refine ⟨256 + b.val, ?_, by omega, ?_⟩
      · have : b.val % 256 < 128 := by omega
        simp only [this, if_true]; simp; omega
      · simp [h]; omega
    · refine ⟨b.val, ?_, by omega, ?_⟩
      · have : ¬ b.val % 256 < 128 := by omega
        simp only [this, if_false]; simp; omega
      · simp [h]; omega
  · exact ⟨b.val, by simp, by omega, by simp⟩

/-! ### tile map -/
theorem mapPixel_eq (s : Scene) (sel : Bool) (px py : Nat) (hx : px < 256) (hy : py < 256) :
    mapPixel s (if sel then 0x1c00 else 0x1800) px py = some (mapColour s sel px py) := by
  unfold mapPixel vramAt
  have hidx : (((if sel then 0x1c00 else 0x1800) + (32 * (py / 8) + px / 8) % 65536) % 65536 : Nat)
      = mapBase sel + 32 * (py / 8) + px / 8 := by
    unfold mapBase; cases sel <;> simp <;> omega
  have hlt : mapBase sel + 32 * (py / 8) + px / 8 < 0x2000 := by
    unfold mapBase; cases sel <;> simp <;> omega
  simp only [hidx]
  have c : 0 ≤ ((mapBase sel + 32 * (py / 8) + px / 8 : Nat) : Int) ∧
      ((mapBase sel + 32 * (py / 8) + px / 8 : Nat) : Int) < 0x2000 := by omega
  simp only [if_pos c, Option.bind_some, Int.toNat_natCast]
  obtain ⟨n, hn, hlt', hbase⟩ := tileNumberOf_eq s (s.vram (mapBase sel + 32 * (py / 8) + px / 8))
  rw [hn, readTile_eq s n _ _ (by omega) (Nat.mod_lt _ (by omega)) (Nat.mod_lt _ (by omega))]
  unfold mapColour vbyte
  rw [hbase]

/-! ### background and window -/
theorem findBackground_eq (s : Scene) (x y : Nat) :
    findBackgroundPixel s x y = some (bgColour s x y) := by
  unfold findBackgroundPixel bgColour add8
  rw [highBgMap_eq]
  exact mapPixel_eq s _ _ _ (Nat.mod_lt _ (by omega)) (Nat.mod_lt _ (by omega))

theorem windowHit_eq (s : Scene) (x y : Nat) (hw : lcdcBit s 5 = true → 7 ≤ s.wx.val) :
    windowHit s x y = windowCovers s x y := by
  unfold windowHit windowCovers sub8
  rw [windowEnabled_eq]
  cases h5 : lcdcBit s 5
  · simp
  · have := hw h5
    have e : (s.wx.val + 256 - 7 % 256) % 256 = s.wx.val - 7 := by omega
    simp only [e, Bool.true_and]
    congr 1
    congr 1
    simp only [decide_eq_decide]
    omega

theorem findWindow_eq (s : Scene) (x y : Nat) (hx : x < 256) (hy : y < 256)
    (h : windowCovers s x y = true) (h7 : 7 ≤ s.wx.val) :
    findWindowPixel s (sub8 x (sub8 s.wx.val 7)) (sub8 y s.wy.val) = some (windowColour s x y) := by
  unfold windowCovers at h
  simp only [Bool.and_eq_true, decide_eq_true_eq] at h
  obtain ⟨⟨⟨⟨_, h166⟩, _⟩, hxw⟩, hyw⟩ := h
  have ex : sub8 x (sub8 s.wx.val 7) = ((x : Int) - ((s.wx.val : Int) - 7)).toNat := by
    unfold sub8; omega
  have ey : sub8 y s.wy.val = y - s.wy.val := by unfold sub8; omega
  unfold findWindowPixel windowColour
  rw [highWindowMap_eq, ex, ey]
  exact mapPixel_eq s _ _ _ (by omega) (by omega)

theorem bgWin_eq (s : Scene) (x y : Nat) (hx : x < 256) (hy : y < 256)
    (h0 : lcdcBit s 0 = true) (hw : lcdcBit s 5 = true → 7 ≤ s.wx.val) :
    bgWinPixel s x y = some (bgWinColour s x y) := by
  unfold bgWinPixel bgWinColour
  rw [windowHit_eq s x y hw, bgEnabled_eq, h0]
  cases hc : windowCovers s x y
  · simp [findBackground_eq]
  · have h5 : lcdcBit s 5 = true := by
      unfold windowCovers at hc; simp only [Bool.and_eq_true] at hc; exact hc.1.1.1.1
    simp [findWindow_eq s x y hx hy hc (hw h5)]

/-! ### palettes -/
theorem bgShade_eq (s : Scene) (c : Nat) (hc : c ≤ 3) :
    bgShade s c = some (shade s.bgp.val c) := by
  have key : ∀ v : Fin 256, ∀ c : Fin 4,
      ([v.val &&& 3, (v.val >>> 2) &&& 3, (v.val >>> 4) &&& 3, (v.val >>> 6) &&& 3][c.val]?).bind greyAt
        = some ((v.val >>> (2 * c.val)) % 4) := by decide +kernel
  exact key s.bgp ⟨c, by omega⟩

theorem objShade_eq (s : Scene) (acc : ObjAcc) (h1 : 1 ≤ acc.pixel) (h3 : acc.pixel ≤ 3) :
    objShade s acc = some (shade (if acc.pal1 then s.obp1.val else s.obp0.val) acc.pixel) := by
  have k1 : ∀ v : Fin 256, ((obpColour v)[1]?).bind greyAt = some ((v.val >>> (2 * 1)) % 4) := by decide +kernel
  have k2 : ∀ v : Fin 256, ((obpColour v)[2]?).bind greyAt = some ((v.val >>> (2 * 2)) % 4) := by decide +kernel
  have k3 : ∀ v : Fin 256, ((obpColour v)[3]?).bind greyAt = some ((v.val >>> (2 * 3)) % 4) := by decide +kernel
  unfold objShade shade
  have hc : acc.pixel = 1 ∨ acc.pixel = 2 ∨ acc.pixel = 3 := by omega
  rcases hc with h | h | h <;> rw [h] <;> cases acc.pal1 <;> simp only [Bool.false_eq_true, if_false, if_true]
  · exact k1 _
  · exact k1 _
  · exact k2 _
  · exact k2 _
  · exact k3 _
  · exact k3 _

/-! ### objects -/

/-- `checkOverlappingSprite` decides exactly "screen line ly meets an 8-line object whose Y byte is Y",
    for every Y byte – in particular for Y in 1..15 (object clipped by the top edge) -/
theorem overlapTest_eq (Y : Fin 256) (ly : Nat) :
    overlapTest Y.val ly = (decide ((Y.val : Int) - 16 ≤ (ly : Int)) && decide ((ly : Int) < (Y.val : Int) - 16 + 8)) := by
  unfold overlapTest
  congr 1 <;> simp only [decide_eq_decide] <;> omega

theorem overlaps_onLine (s : Scene) (ly i : Nat) (h8 : lcdcBit s 2 = false) :
    modelOverlaps s ly i = onLine s (obj s i) ly := by
  unfold modelOverlaps onLine objHeight obj
  rw [h8, Nat.mul_comm i 4, overlapTest_eq]
  rfl

/-- object i shows an opaque pixel at (x,y): the predicate whose first witness in OAM order the code draws -/
def hit (s : Scene) (x y : Nat) (i : Nat) : Bool :=
  (inColumns (obj s i) x && objColour s (obj s i) x y != 0) && onLine s (obj s i) y

/-- what the object loop leaves in its three locals when it stops at object i -/
def accOf (s : Scene) (x y : Nat) (i : Nat) : ObjAcc :=
  { pixel := objColour s (obj s i) x y, behind := (obj s i).attr.testBit 7, pal1 := (obj s i).attr.testBit 4 }

theorem oamAt_eq (s : Scene) (off : Nat) (h : off < 160) : oamAt s off = some (s.oam off).val := by
  unfold oamAt; exact if_pos h

theorem objCandidate_eq (s : Scene) (i x y : Nat) (hi : i < 40) (hx : x < 160) (hy : y < 144)
    (h8 : lcdcBit s 2 = false) (hcol : inColumns (obj s i) x = true) (hline : onLine s (obj s i) y = true) :
    objCandidate s i x y (obj s i).x = some (accOf s x y i) := by
  unfold inColumns at hcol
  unfold onLine objHeight at hline
  rw [h8] at hline
  simp only [Bool.and_eq_true, decide_eq_true_eq, Bool.false_eq_true, if_false] at hcol hline
  unfold objCandidate
  rw [oamAt_eq s (i * 4) (by omega), Option.bind_some, oamAt_eq s (i * 4 + 2) (by omega), Option.bind_some,
    oamAt_eq s (i * 4 + 3) (by omega), Option.bind_some]
  unfold objCandidateBody
  rw [mask80, mask40, mask20, mask10]
  have eY : (s.oam (i * 4)).val = (obj s i).y := by unfold obj; rw [Nat.mul_comm]
  have eT : (s.oam (i * 4 + 2)).val = (obj s i).tile := by unfold obj; rw [Nat.mul_comm]
  have eA : (s.oam (i * 4 + 3)).val = (obj s i).attr := by unfold obj; rw [Nat.mul_comm]
  have bx : (obj s i).x < 256 := by unfold obj; exact (s.oam _).isLt
  have bY : (obj s i).y < 256 := by unfold obj; exact (s.oam _).isLt
  have bT : (obj s i).tile < 256 := by unfold obj; exact (s.oam _).isLt
  rw [eY, eT, eA]
  have ecol : sub8 x (obj s i).x % 8 = ((x : Int) - (((obj s i).x : Int) - 8)).toNat := by
    unfold sub8; omega
  have erow : sub8 y (obj s i).y % 8 = ((y : Int) - (((obj s i).y : Int) - 16)).toNat := by
    unfold sub8; omega
  have ecol8 : ((x : Int) - (((obj s i).x : Int) - 8)).toNat < 8 := by omega
  have erow8 : ((y : Int) - (((obj s i).y : Int) - 16)).toNat < 8 := by omega
  have f7 : ∀ k, k < 8 → sub8 7 k = 7 - k := by intro k hk; unfold sub8; omega
  rw [ecol, erow]
  dsimp only
  rw [f7 _ ecol8, f7 _ erow8]
  rw [readTile_eq s (obj s i).tile _ _ (by omega)
      (by split <;> omega) (by split <;> omega)]
  simp only [Option.bind_some]
  unfold accOf objColour objHeight
  rw [h8]
  simp

theorem objLoop_spec (s : Scene) (x y : Nat) (hx : x < 160) (hy : y < 144) (h8 : lcdcBit s 2 = false) :
    ∀ (l : List Nat), (∀ i ∈ l, i < 40) → ∀ acc : ObjAcc, acc.pixel = 0 →
      ∃ r, objLoop s (modelOverlaps s y) x y l acc = some r ∧
        (match l.find? (hit s x y) with
         | some i => r = accOf s x y i
         | none => r.pixel = 0) := by
  intro l
  induction l with
  | nil => intro _ acc h; exact ⟨acc, rfl, by simpa using h⟩
  | cons i rest ih =>
    intro hl acc hacc
    have hi : i < 40 := hl i (by simp)
    have hrest : ∀ j ∈ rest, j < 40 := fun j hj => hl j (by simp [hj])
    unfold objLoop
    rw [overlaps_onLine s y i h8, List.find?_cons]
    have eX : oamAt s (i * 4 + 1) = some (obj s i).x := by
      rw [oamAt_eq s _ (by omega)]; unfold obj; rw [Nat.mul_comm]
    cases hline : onLine s (obj s i) y
    · -- not on the line: skipped
      have hh : hit s x y i = false := by unfold hit; simp [hline]
      simp only [hh, Bool.not_false, if_true]
      exact ih hrest acc hacc
    · simp only [Bool.not_true, Bool.false_eq_true, if_false, eX]
      have bx : (obj s i).x < 256 := by unfold obj; exact (s.oam _).isLt
      by_cases hcol : inColumns (obj s i) x = true
      · have hc : add8 x 8 ≥ (obj s i).x ∧ x < (obj s i).x := by
          unfold inColumns at hcol
          simp only [Bool.and_eq_true, decide_eq_true_eq] at hcol
          unfold add8; omega
        rw [if_pos hc, objCandidate_eq s i x y hi hx hy h8 hcol hline]
        by_cases hp : (accOf s x y i).pixel > 0
        · have hh : hit s x y i = true := by
            unfold hit; unfold accOf at hp
            simp only [hcol, hline, Bool.true_and, Bool.and_true, bne_iff_ne, ne_eq]
            simp only [] at hp; omega
          simp only [hp, if_true, hh]
          exact ⟨_, rfl, rfl⟩
        · have hh : hit s x y i = false := by
            unfold hit; unfold accOf at hp
            simp only [] at hp
            have : objColour s (obj s i) x y = 0 := by omega
            simp [this]
          simp only [hp, if_false, hh]
          exact ih hrest _ (by omega)
      · have hc : ¬ (add8 x 8 ≥ (obj s i).x ∧ x < (obj s i).x) := by
          unfold inColumns at hcol
          simp only [Bool.and_eq_true, decide_eq_true_eq] at hcol
          unfold add8; omega
        have hh : hit s x y i = false := by
          unfold hit
          have : inColumns (obj s i) x = false := by simpa using hcol
          simp [this]
        rw [if_neg hc]
        simp only [hh]
        exact ih hrest acc hacc

/-! ### the documented selection and priority collapse to "first hit in OAM order" under the restrictions -/
theorem best_mem (s : Scene) : ∀ (l : List Nat) (j : Nat), best s l = some j → j ∈ l := by
  intro l
  induction l with
  | nil => intro j h; simp [best] at h
  | cons i rest ih =>
    intro j h
    unfold best at h
    cases hb : best s rest with
    | none => simp [hb] at h; simp [h]
    | some k =>
      simp only [hb] at h
      split at h
      · simp at h; subst h; exact List.mem_cons_of_mem _ (ih k hb)
      · simp at h; simp [h]

theorem best_sorted (s : Scene) : ∀ (l : List Nat),
    List.Pairwise (fun i j => beats s j i = false) l → best s l = l.head? := by
  intro l
  induction l with
  | nil => intro _; rfl
  | cons i rest ih =>
    intro hp
    unfold best
    cases hb : best s rest with
    | none => rfl
    | some k =>
      have hk := best_mem s rest k hb
      have := (List.pairwise_cons.mp hp).1 k hk
      simp [this]

theorem topObject_eq (s : Scene) (x y : Nat) (h10 : atMostTen s y) (hsort : orderedByX s y) :
    topObject s x y = (List.range 40).find? (hit s x y) := by
  unfold topObject lineObjects
  rw [List.take_of_length_le h10, List.filter_filter]
  rw [best_sorted, List.head?_filter]
  · rfl
  · rw [List.pairwise_filter]
    refine List.Pairwise.imp_of_mem ?_ List.pairwise_lt_range
    intro a b ha hb hab pa pb
    have hb40 : b < 40 := List.mem_range.mp hb
    simp only [Bool.and_eq_true] at pa pb
    have := hsort a b hab hb40 pa.2 pb.2
    unfold beats
    simp only [Bool.or_eq_false_iff, Bool.and_eq_false_iff, decide_eq_false_iff_not]
    omega

/-! ### no panic, for EVERY scene (no restriction): all indices of the pixel pipeline are in range -/

theorem objCandidateBody_some (s : Scene) (x y X Y T A : Nat) (hT : T < 256) :
    ∃ r, objCandidateBody s x y X Y T A = some r ∧ r.pixel ≤ 3 := by
  unfold objCandidateBody
  dsimp only
  have hx8 : (if decide (A &&& 0x20 > 0) = true then sub8 7 (sub8 x X % 8) else sub8 x X % 8) < 8 := by
    split <;> (unfold sub8; omega)
  have hy8 : (if decide (A &&& 0x40 > 0) = true then sub8 7 (sub8 y Y % 8) else sub8 y Y % 8) < 8 := by
    split <;> (unfold sub8; omega)
  rw [readTile_eq s T _ _ (by omega) hx8 hy8]
  exact ⟨_, rfl, tileColour_le _ _ _ _⟩

theorem objCandidate_some (s : Scene) (i x y X : Nat) (hi : i < 40) :
    ∃ r, objCandidate s i x y X = some r ∧ r.pixel ≤ 3 := by
  unfold objCandidate
  rw [oamAt_eq s (i * 4) (by omega), Option.bind_some, oamAt_eq s (i * 4 + 2) (by omega), Option.bind_some,
    oamAt_eq s (i * 4 + 3) (by omega), Option.bind_some]
  exact objCandidateBody_some s x y X _ _ _ (s.oam _).isLt

theorem objLoop_some (s : Scene) (ov : Nat → Bool) (x y : Nat) :
    ∀ (l : List Nat), (∀ i ∈ l, i < 40) → ∀ acc : ObjAcc, acc.pixel ≤ 3 →
      ∃ r, objLoop s ov x y l acc = some r ∧ r.pixel ≤ 3 := by
  intro l
  induction l with
  | nil => intro _ acc h; exact ⟨acc, rfl, h⟩
  | cons i rest ih =>
    intro hl acc hacc
    have hi : i < 40 := hl i (by simp)
    have hrest : ∀ j ∈ rest, j < 40 := fun j hj => hl j (by simp [hj])
    unfold objLoop
    rw [oamAt_eq s (i * 4 + 1) (by omega)]
    cases ov i
    · simp only [Bool.not_false, if_true]; exact ih hrest acc hacc
    · simp only [Bool.not_true, Bool.false_eq_true, if_false]
      split
      · obtain ⟨r, hr, hr3⟩ := objCandidate_some s i x y (s.oam (i * 4 + 1)).val hi
        rw [hr]
        simp only []
        split
        · exact ⟨r, rfl, hr3⟩
        · exact ih hrest r hr3
      · exact ih hrest acc hacc

theorem objLoop_congr (s : Scene) (ov ov' : Nat → Bool) (x y : Nat) :
    ∀ (l : List Nat), (∀ i ∈ l, ov i = ov' i) → ∀ acc : ObjAcc,
      objLoop s ov x y l acc = objLoop s ov' x y l acc := by
  intro l
  induction l with
  | nil => intro _ acc; rfl
  | cons i rest ih =>
    intro hl acc
    have hi : ov i = ov' i := hl i (by simp)
    have hrest : ∀ j ∈ rest, ov j = ov' j := fun j hj => hl j (by simp [hj])
    unfold objLoop
    rw [hi]
    cases ov' i
    · simp only [Bool.not_false, if_true]; exact ih hrest acc
    · simp only [Bool.not_true, Bool.false_eq_true, if_false]
      cases oamAt s (i * 4 + 1) with
      | none => rfl
      | some X =>
        simp only []
        split
        · cases objCandidate s i x y X with
          | none => rfl
          | some r => simp only []; split; rfl; exact ih hrest r
        · exact ih hrest acc

theorem pixelWith_congr (s : Scene) (ov ov' : Nat → Bool) (x y : Nat) (h : ∀ i, i < 40 → ov i = ov' i) :
    pixelWith s ov x y = pixelWith s ov' x y := by
  unfold pixelWith
  rw [objLoop_congr s ov ov' x y (List.range 40) (fun i hi => h i (List.mem_range.mp hi))]

theorem objShade_some (s : Scene) (acc : ObjAcc) (h3 : acc.pixel ≤ 3) : ∃ v, objShade s acc = some v := by
  have key : ∀ v : Fin 256, ∀ c : Fin 4,
      (([0, (v.val >>> 2) &&& 3, (v.val >>> 4) &&& 3, (v.val >>> 6) &&& 3][c.val]?).bind
        (fun k => if k < 4 then some k else none)).isSome = true := by decide +kernel
  have := key (if acc.pal1 then s.obp1 else s.obp0) ⟨acc.pixel, by omega⟩
  exact Option.isSome_iff_exists.mp this

theorem bgWinPixel_some (s : Scene) (x y : Nat) : ∃ c, bgWinPixel s x y = some c ∧ c ≤ 3 := by
  unfold bgWinPixel
  split
  · unfold findWindowPixel
    rw [mapPixel_eq s _ _ _ (by unfold sub8; omega) (by unfold sub8; omega)]
    exact ⟨_, rfl, tileColour_le _ _ _ _⟩
  · split
    · rw [findBackground_eq]; exact ⟨_, rfl, tileColour_le _ _ _ _⟩
    · exact ⟨0, rfl, by omega⟩

/-- `renderPixel` never panics, whatever the registers, VRAM, OAM and `spriteOverlaps` contain -/
theorem pixelWith_some (s : Scene) (ov : Nat → Bool) (x y : Nat) : ∃ v, pixelWith s ov x y = some v := by
  unfold pixelWith
  have hacc : ∃ acc, (if spritesEnabled s then objLoop s ov x y (List.range 40) {} else some {}) = some acc
      ∧ acc.pixel ≤ 3 := by
    split
    · exact objLoop_some s ov x y (List.range 40) (fun i hi => List.mem_range.mp hi) {} (by simp)
    · exact ⟨{}, rfl, by simp⟩
  obtain ⟨acc, hacc, h3⟩ := hacc
  rw [hacc, Option.bind_some]
  split
  · exact objShade_some s acc h3
  · obtain ⟨c, hc, hc3⟩ := bgWinPixel_some s x y
    rw [hc, Option.bind_some]
    split
    · exact objShade_some s acc h3
    · exact ⟨_, bgShade_eq s c hc3⟩

end Tetro.C15
