import Tetro.Spec.IsaSchedule
/-
Definitions used by the statement of C01 (`Tetro.Proofs.C01`): running a list of micro-operations on the
flat bus, the micro-operations that actually run for a conditional instruction, the "low nibble of F is
clear" invariant, and the side condition `WellFormed` that excludes the constructor arguments which
`decode`/`decodeCB` never produce.
-/
namespace Tetro.C01
open Tetro.Model.Cpu Tetro.Spec.Isa

/-- run a list of micro-operations in order (what the CPU does in consecutive machine cycles) -/
def runList : List MicroOp → Regs → Flat → Regs × Flat
  | [], r, m => (r, m)
  | μ :: μs, r, m => let s := μ.run r m; runList μs s.1 s.2

/-- the micro-operations that actually run: conditional instructions stop after `early` cycles when the
    not-met test holds on the flags at that moment, otherwise run all `last` -/
def effective (i : Instr) (r : Regs) : List MicroOp :=
  match earlyOf i with
  | some (c, early, _) => if c.holds r then (micro i).take early else micro i
  | none => micro i

/-- F has its low nibble clear -/
def FLow (r : Regs) : Prop := r.f &&& 0x0f = 0

instance (r : Regs) : Decidable (FLow r) := by unfold FLow; infer_instance

/-- the constructor arguments that `decode`/`decodeCB` can produce: bit numbers 0..7, the eight RST
    targets, and no `LD (HL),(HL)` (that slot is HALT) -/
def WellFormed : Instr → Prop
  | .bit n _ | .res n _ | .set n _ => n < 8
  | .rst t => t < 64 ∧ t % 8 = 0
  | .ld .hlm .hlm => False
  | _ => True

instance : DecidablePred WellFormed := fun i => by
  unfold WellFormed; split <;> infer_instance

/-- the micro-operation does not use the F register as the destination cell of a generic byte helper
    (`ld8 f _`, `ldRM f`, `inc8 f`, `dec8 f`, `rot _ f`, `res _ f`, `set _ f`, `pop f` would store an
    arbitrary byte into F; dispatch.go uses none of them: POP AF goes through `popF`) -/
def FSafe : MicroOp → Bool
  | .ld8 dst _ | .ldRM dst | .inc8 dst | .dec8 dst | .rot _ dst | .res _ dst | .set _ dst | .pop dst =>
    dst != .f
  | _ => true

/-- every table entry is `FSafe` -/
def TablesFSafe (t : Tables) : Bool :=
  t.normal.all (·.all FSafe) && t.prefixed.all (·.all FSafe) &&
  t.veryShort.all FSafe && t.short.all FSafe && t.long.all FSafe

end Tetro.C01
