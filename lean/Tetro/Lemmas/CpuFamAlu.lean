import Tetro.Lemmas.CpuAlu
/-
C01 per instruction family: 8-bit ALU, INC/DEC, 16-bit arithmetic.
-/
set_option linter.unusedSimpArgs false
set_option linter.constructorNameAsVariable false
namespace Tetro.C01
open Tetro.Model.Cpu Tetro.Spec.Isa

theorem holds_alu (op : Alu) (src : Loc) : Holds (.alu op src) := by
  intro r m _
  cases src with
  | r s =>
    simp only [effective, earlyOf, micro, runList_cons, runList_nil, MicroOp.run, aluRun_abs, exec, St.getLoc,
      getR_abs s r m]
  | hlm =>
    simp only [effective, earlyOf, micro, runList_cons, runList_nil, MicroOp.run, aluRun_abs, exec, St.getLoc,
      readAt_flat]
    simp [abs, St.rd, St.hl, Regs.hl, mk16_eq]

theorem holds_aluN (op : Alu) : Holds (.aluN op) := by
  intro r m _
  simp only [effective, earlyOf, micro, runList_cons, runList_nil, MicroOp.run, aluRun_abs, exec, St.getLoc,
      readAt_flat]
  simp [abs, St.rd, imm8, zf_def, nf_def, hf_def, cf_def]

theorem inc_val (x : Byte) : x + 1#8 = BitVec.ofNat 8 (x.toNat + 1) := by bv_arith
theorem dec_val (x : Byte) : x - 1#8 = BitVec.ofNat 8 (x.toNat + 255) := by bv_arith
theorem inc_h (x : Byte) : hc8 x 1#8 = decide (x.toNat % 16 = 15) := by
  unfold hc8; bv_arith
theorem dec_h (x : Byte) : hc8Sub x 1#8 = decide (x.toNat % 16 = 0) := by
  unfold hc8Sub; bv_arith

theorem holds_inc (l : Loc) : Holds (.inc l) := by
  intro r m _
  cases l with
  | r k => cases k <;> c01_simp [inc, inc_val, inc_h] <;> rfl
  | hlm => c01_simp [inc, inc_val, inc_h] <;> rfl

theorem holds_dec (l : Loc) : Holds (.dec l) := by
  intro r m _
  cases l with
  | r k => cases k <;> c01_simp [dec, dec_val, dec_h] <;> rfl
  | hlm => c01_simp [dec, dec_val, dec_h] <;> rfl

theorem holds_inc16 (rp : Rp) : Holds (.inc16 rp) := by
  intro r m _
  cases rp <;> c01_simp

theorem holds_dec16 (rp : Rp) : Holds (.dec16 rp) := by
  intro r m _
  cases rp <;> c01_simp

end Tetro.C01
