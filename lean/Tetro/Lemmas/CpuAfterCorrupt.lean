import Tetro.Model.CpuExec
/-
`ExecuteMachineCycle` ends with `oam.Corrupt()`: on any bus, a property `Q` that holds of the bus after every
`Bus.corrupt` call holds after a machine cycle that STARTED in a state satisfying it – unless the CPU model's own
panic flag was set in this cycle (sub-instruction index out of range; excluded by `CpuOk`).  The cycles that do not
end with `Corrupt()` (CPU stopped or exited, HALT/STOP idling) do not touch the bus at all.
Used by Proofs/C17Whole.lean: no OAM-bug trigger is pending at a cycle boundary.
-/
namespace Tetro.CpuAfterCorrupt
open Tetro.Model.Cpu

variable {M : Type} [Bus M]

theorem fetch_not_halted (t : Tables) (c : Cpu) (r : Regs) (m : M) : (fetch t c r m).halted = false := by
  unfold fetch
  simp only []
  repeat' split
  all_goals rfl

theorem next_halted_bus (t : Tables) (c : Cpu) (m : M) (h : (next t c m).halted = true) : (next t c m).bus = m := by
  unfold next at h ⊢
  simp only [] at h ⊢
  split at h
  · cases h
  · split at h
    · rename_i hh
      rw [if_pos hh]
    · rw [fetch_not_halted] at h; cases h

theorem stepSub_after_corrupt (Q : M → Prop) (hQ : ∀ m, Q (Bus.corrupt m)) (c : Cpu) (m : M) :
    Q (stepSub c m).2 ∨ (stepSub c m).1.crashed = true := by
  unfold stepSub
  cases c.ops[c.cycle]? with
  | none => exact Or.inr rfl
  | some μ => exact Or.inl (hQ _)

theorem cycle_after_corrupt (Q : M → Prop) (hQ : ∀ m, Q (Bus.corrupt m)) (t : Tables) (c : Cpu) (m : M)
    (hm : Q m) : Q (cycle t c m).2 ∨ (cycle t c m).1.crashed = true := by
  unfold cycle
  split
  · exact Or.inl hm
  · split
    · simp only []
      split
      · rename_i hh
        rw [next_halted_bus t c m hh]
        exact Or.inl hm
      · exact stepSub_after_corrupt Q hQ _ _
    · exact stepSub_after_corrupt Q hQ _ _

end Tetro.CpuAfterCorrupt
