import Tetro.Lemmas.CpuDefs
import Tetro.Lemmas.Bits
/-
Basic rewriting facts for the C01 proofs: the flat bus instance, 16-bit pairing (`mk16/hi8/lo8` of the
model against `w16/hiB/loB` of the spec), sign extension, flag bits after `setFlag`.
One-byte facts are discharged by kernel evaluation over the 256 values.
-/
namespace Tetro.C01
open Tetro.Model.Cpu Tetro.Spec.Isa

/-! ### flat bus -/
@[simp] theorem bus_read (m : Flat) (a : Word) : (Bus.read m a : Byte × Flat) = (m.read a, m) := rfl
@[simp] theorem readAt_flat (m : Flat) (a : Word) : readAt m a = (m.read a, m) := rfl
@[simp] theorem bus_write (m : Flat) (a : Word) (v : Byte) : Bus.write m a v = m.write a v := rfl
@[simp] theorem bus_trigger (m : Flat) (a : Word) : Bus.trigger m a = m := rfl
@[simp] theorem bus_corrupt (m : Flat) : Bus.corrupt m = m := rfl
@[simp] theorem bus_ime (m : Flat) : Bus.ime m = m.ime := rfl
@[simp] theorem bus_setIme (m : Flat) (v : Bool) : Bus.setIme m v = { m with ime := v } := rfl
@[simp] theorem bus_ie (m : Flat) : Bus.ie m = m.ie := rfl
@[simp] theorem bus_iflag (m : Flat) : Bus.iflag m = m.ifl := rfl
@[simp] theorem bus_clearIf (m : Flat) (k : Nat) :
    Bus.clearIf m k = { m with ifl := m.ifl &&& ~~~((1 : Byte) <<< k) } := rfl
@[simp] theorem pendingBits_flat (m : Flat) : pendingBits m = m.ie &&& m.ifl &&& 0x1f := rfl

/-! ### 16-bit pairing: the model's bit-vector operations are the spec's integer formulas -/
theorem mk16_eq (hi lo : Byte) : mk16 hi lo = w16 hi lo := by
  apply BitVec.eq_of_toNat_eq
  simp only [mk16, w16, BitVec.toNat_append, BitVec.toNat_ofNat]
  have := hi.isLt; have := lo.isLt
  rw [Nat.shiftLeft_eq, Nat.mul_comm, ← Nat.two_pow_add_eq_or_of_lt (by omega)]
  omega
theorem hi8_eq (w : Word) : hi8 w = hiB w := by
  apply BitVec.eq_of_toNat_eq
  simp only [hi8, hiB, BitVec.extractLsb'_toNat, BitVec.toNat_ofNat, Nat.shiftRight_eq_div_pow]
theorem lo8_eq (w : Word) : lo8 w = loB w := by
  apply BitVec.eq_of_toNat_eq
  simp only [lo8, loB, BitVec.extractLsb'_toNat, BitVec.toNat_ofNat, Nat.shiftRight_eq_div_pow]
  have := w.isLt
  omega
@[simp] theorem hiB_w16 (a b : Byte) : hiB (w16 a b) = a := by
  apply BitVec.eq_of_toNat_eq
  simp only [w16, hiB, BitVec.toNat_ofNat]
  have := a.isLt; have := b.isLt
  omega
@[simp] theorem loB_w16 (a b : Byte) : loB (w16 a b) = b := by
  apply BitVec.eq_of_toNat_eq
  simp only [w16, loB, BitVec.toNat_ofNat]
  have := a.isLt; have := b.isLt
  omega
@[simp] theorem w16_hiB_loB (w : Word) : w16 (hiB w) (loB w) = w := by
  apply BitVec.eq_of_toNat_eq
  simp only [w16, loB, hiB, BitVec.toNat_ofNat]
  have := w.isLt
  omega
theorem sext_eq (b : Byte) : sext b = disp b := by
  apply BitVec.eq_of_toNat_eq
  simp only [sext, disp, BitVec.toNat_signExtend, BitVec.toNat_ofNat, BitVec.msb_eq_decide,
    BitVec.toNat_setWidth]
  have := b.isLt
  split <;> split <;> simp at * <;> omega
theorem zext_ff00 (b : Byte) :
    (0xff00 : Word) + b.zeroExtend 16 = BitVec.ofNat 16 (0xff00 + b.toNat) := by
  apply BitVec.eq_of_toNat_eq
  simp only [BitVec.toNat_add, BitVec.toNat_ofNat, BitVec.zeroExtend, BitVec.toNat_setWidth,
    BitVec.reduceToNat]
  have := b.isLt
  omega

theorem zext_ff00' (b : Byte) :
    (0xff00#16 : Word) + BitVec.setWidth 16 b = BitVec.ofNat 16 (0xff00 + b.toNat) := zext_ff00 b

/-! ### flag bits of a byte -/
def fz (f : Byte) : Bool := f &&& zFlag != 0
def fn (f : Byte) : Bool := f &&& nFlag != 0
def fh (f : Byte) : Bool := f &&& hFlag != 0
def fc (f : Byte) : Bool := f &&& cFlag != 0
theorem zf_def (r : Regs) : r.zf = fz r.f := rfl
theorem nf_def (r : Regs) : r.nf = fn r.f := rfl
theorem hf_def (r : Regs) : r.hf = fh r.f := rfl
theorem cf_def (r : Regs) : r.cf = fc r.f := rfl

@[simp] theorem fz_setZ (v : Bool) (f : Byte) : fz (setFlag zFlag v f) = v := by
  cases v <;> (revert f; apply Tetro.forall_bv8; decide +kernel)
@[simp] theorem fz_setN (v : Bool) (f : Byte) : fz (setFlag nFlag v f) = fz f := by
  cases v <;> (revert f; apply Tetro.forall_bv8; decide +kernel)
@[simp] theorem fz_setH (v : Bool) (f : Byte) : fz (setFlag hFlag v f) = fz f := by
  cases v <;> (revert f; apply Tetro.forall_bv8; decide +kernel)
@[simp] theorem fz_setC (v : Bool) (f : Byte) : fz (setFlag cFlag v f) = fz f := by
  cases v <;> (revert f; apply Tetro.forall_bv8; decide +kernel)
@[simp] theorem fn_setZ (v : Bool) (f : Byte) : fn (setFlag zFlag v f) = fn f := by
  cases v <;> (revert f; apply Tetro.forall_bv8; decide +kernel)
@[simp] theorem fn_setN (v : Bool) (f : Byte) : fn (setFlag nFlag v f) = v := by
  cases v <;> (revert f; apply Tetro.forall_bv8; decide +kernel)
@[simp] theorem fn_setH (v : Bool) (f : Byte) : fn (setFlag hFlag v f) = fn f := by
  cases v <;> (revert f; apply Tetro.forall_bv8; decide +kernel)
@[simp] theorem fn_setC (v : Bool) (f : Byte) : fn (setFlag cFlag v f) = fn f := by
  cases v <;> (revert f; apply Tetro.forall_bv8; decide +kernel)
@[simp] theorem fh_setZ (v : Bool) (f : Byte) : fh (setFlag zFlag v f) = fh f := by
  cases v <;> (revert f; apply Tetro.forall_bv8; decide +kernel)
@[simp] theorem fh_setN (v : Bool) (f : Byte) : fh (setFlag nFlag v f) = fh f := by
  cases v <;> (revert f; apply Tetro.forall_bv8; decide +kernel)
@[simp] theorem fh_setH (v : Bool) (f : Byte) : fh (setFlag hFlag v f) = v := by
  cases v <;> (revert f; apply Tetro.forall_bv8; decide +kernel)
@[simp] theorem fh_setC (v : Bool) (f : Byte) : fh (setFlag cFlag v f) = fh f := by
  cases v <;> (revert f; apply Tetro.forall_bv8; decide +kernel)
@[simp] theorem fc_setZ (v : Bool) (f : Byte) : fc (setFlag zFlag v f) = fc f := by
  cases v <;> (revert f; apply Tetro.forall_bv8; decide +kernel)
@[simp] theorem fc_setN (v : Bool) (f : Byte) : fc (setFlag nFlag v f) = fc f := by
  cases v <;> (revert f; apply Tetro.forall_bv8; decide +kernel)
@[simp] theorem fc_setH (v : Bool) (f : Byte) : fc (setFlag hFlag v f) = fc f := by
  cases v <;> (revert f; apply Tetro.forall_bv8; decide +kernel)
@[simp] theorem fc_setC (v : Bool) (f : Byte) : fc (setFlag cFlag v f) = v := by
  cases v <;> (revert f; apply Tetro.forall_bv8; decide +kernel)

/-! ### the low nibble of F -/
theorem low_setZ (v : Bool) (f : Byte) : f &&& 0x0f = 0 → setFlag zFlag v f &&& 0x0f = 0 := by
  cases v <;> (revert f; apply Tetro.forall_bv8; decide +kernel)
theorem low_setN (v : Bool) (f : Byte) : f &&& 0x0f = 0 → setFlag nFlag v f &&& 0x0f = 0 := by
  cases v <;> (revert f; apply Tetro.forall_bv8; decide +kernel)
theorem low_setH (v : Bool) (f : Byte) : f &&& 0x0f = 0 → setFlag hFlag v f &&& 0x0f = 0 := by
  cases v <;> (revert f; apply Tetro.forall_bv8; decide +kernel)
theorem low_setC (v : Bool) (f : Byte) : f &&& 0x0f = 0 → setFlag cFlag v f &&& 0x0f = 0 := by
  cases v <;> (revert f; apply Tetro.forall_bv8; decide +kernel)
theorem low_and_f0 (v : Byte) : (v &&& 0xf0) &&& 0x0f = 0 := by
  revert v; apply Tetro.forall_bv8; decide +kernel
/-- with the low nibble clear, F is the byte the documentation assembles from Z N H C -/
theorem f_eq_fByte (f : Byte) : f &&& 0x0f = 0 →
    f = BitVec.ofNat 8 ((if fz f then 128 else 0) + (if fn f then 64 else 0) + (if fh f then 32 else 0) +
      (if fc f then 16 else 0)) := by
  revert f; apply Tetro.forall_bv8; decide +kernel
@[simp] theorem fz_and_f0 (v : Byte) : fz (v &&& 240#8) = v[7] := by
  revert v; apply Tetro.forall_bv8; decide +kernel
@[simp] theorem fn_and_f0 (v : Byte) : fn (v &&& 240#8) = v[6] := by
  revert v; apply Tetro.forall_bv8; decide +kernel
@[simp] theorem fh_and_f0 (v : Byte) : fh (v &&& 240#8) = v[5] := by
  revert v; apply Tetro.forall_bv8; decide +kernel
@[simp] theorem fc_and_f0 (v : Byte) : fc (v &&& 240#8) = v[4] := by
  revert v; apply Tetro.forall_bv8; decide +kernel

/-! ### running lists -/
@[simp] theorem runList_nil (r : Regs) (m : Flat) : runList [] r m = (r, m) := rfl
@[simp] theorem runList_cons (μ : MicroOp) (μs : List MicroOp) (r : Regs) (m : Flat) :
    runList (μ :: μs) r m = runList μs (μ.run r m).1 (μ.run r m).2 := rfl

theorem St.ext' {x y : St} (h1 : x.a = y.a) (h2 : x.b = y.b) (h3 : x.c = y.c) (h4 : x.d = y.d)
    (h5 : x.e = y.e) (h6 : x.h = y.h) (h7 : x.l = y.l) (h8 : x.zf = y.zf) (h9 : x.nf = y.nf)
    (h10 : x.hf = y.hf) (h11 : x.cf = y.cf) (h12 : x.sp = y.sp) (h13 : x.pc = y.pc)
    (h14 : x.halted = y.halted) (h15 : x.haltbug = y.haltbug) (h16 : x.stopped = y.stopped)
    (h17 : x.eiPending = y.eiPending) (h18 : x.bus = y.bus) : x = y := by
  cases x; cases y; simp_all

/-! ### byte arithmetic: bit-vector operations as integer formulas -/
theorem add_val (a x : Byte) : a + x = BitVec.ofNat 8 (a.toNat + x.toNat) := by
  apply BitVec.eq_of_toNat_eq; simp
theorem sub_val (a x : Byte) : a - x = BitVec.ofNat 8 (a.toNat + 256 - x.toNat) := by
  apply BitVec.eq_of_toNat_eq; simp; have := a.isLt; have := x.isLt; omega
theorem beq0 (x : Byte) : (x == 0#8) = decide (x.toNat = 0) := by
  rw [Bool.eq_iff_iff]; simp [← BitVec.toNat_inj]
theorem beqff (x : Byte) : (x == 0xff#8) = decide (x.toNat = 255) := by
  rw [Bool.eq_iff_iff]; simp [← BitVec.toNat_inj]

/-- closes equalities of bit-vectors / of Boolean comparisons through `toNat` and `omega` -/
macro "bv_arith" : tactic => `(tactic| first
  | rfl
  | (apply BitVec.eq_of_toNat_eq; simp <;> omega)
  | (rw [Bool.eq_iff_iff]; simp [beq0, beqff] <;> omega))

theorem beq_toNat (x y : Byte) : (x == y) = decide (x.toNat = y.toNat) := by
  rw [Bool.eq_iff_iff]; simp [← BitVec.toNat_inj]

/-- split a conjunction of arithmetic facts and close every part -/
macro "bv_ariths" : tactic => `(tactic| (repeat' apply And.intro) <;> bv_arith)

/-- the statement proved for every instruction -/
def Holds (i : Instr) : Prop :=
  ∀ (r : Regs) (m : Flat), FLow r →
    abs (runList (effective i r) r m).1 (runList (effective i r) r m).2 = exec i (abs r m)

@[simp] theorem add_one_one (w : Word) : w + 1#16 + 1#16 = w + 2#16 := by
  rw [BitVec.add_assoc]; rfl
@[simp] theorem sub_one_one (w : Word) : w - 1#16 - 1#16 = w - 2#16 := by
  apply BitVec.eq_of_toNat_eq; simp; omega

/-- unfold the schedule, the micro-operations and the spec down to structure literals -/
macro "c01_simp" "[" ls:Lean.Parser.Tactic.simpLemma,* "]" : tactic => `(tactic|
  simp [Holds, micro, effective, earlyOf, regOf, rpM, MicroOp.run, Regs.get, Regs.set, Regs.get16, Regs.set16,
    abs, exec, St.setLoc, St.getLoc, St.setR, St.getR, St.setRp, St.getRp, St.rd, St.wr, St.hl, St.flags,
    Regs.hl, Regs.bc, Regs.de, Regs.u16, mk16_eq, hi8_eq, lo8_eq, sext_eq, zf_def, nf_def, hf_def, cf_def,
    Regs.setZf, Regs.setNf, Regs.setHf, Regs.setCf, imm8, imm16, indAddr, indAfter, Ind.addr, zext_ff00, zext_ff00',
    incSP, decSP, inc16F, dec16F, pushCell, push16, pop16, rstTo, $ls,*])
macro "c01_simp" : tactic => `(tactic| c01_simp [])

theorem getR_abs (k : Reg) (r : Regs) (m : Flat) : r.get (regOf k) = (abs r m).getR k := by
  cases k <;> rfl

end Tetro.C01
