import Tetro.Lemmas.ApuView
/-
Frame lemmas for the sampler side of the APU model (C20): the output attachment flags, the power
flag, the clock counter, the emitted sample list and the crash flag are touched only by
`takeSample` (out, crash), `incTicks` (ticks) and NR52 writes (power).
-/
namespace Tetro.Model.Apu

structure IoView where
  hasL : Bool
  hasR : Bool
  on : Bool
  ticks : Nat
  out : List (Nat × Nat)
  crash : Bool
deriving DecidableEq, Repr

def Apu.io (a : Apu) : IoView := ⟨a.hasL, a.hasR, a.control.on, a.ticks, a.out, a.crash⟩

namespace Apu

theorem io_tickTimer (a : Apu) : a.tickTimer.io = a.io := rfl
theorem io_lenPart (a : Apu) : a.lenPart.io = a.io := by unfold lenPart; split <;> rfl
theorem io_envPart (a : Apu) : a.envPart.io = a.io := by unfold envPart; split <;> rfl
theorem io_sweepPart (a : Apu) : a.sweepPart.io = a.io := by unfold sweepPart; split <;> rfl
theorem io_incFs (a : Apu) : a.incFs.io = a.io := rfl
theorem io_wrapFs (a : Apu) : a.wrapFs.io = a.io := by unfold wrapFs; split <;> rfl
theorem io_frameSeqPart (a : Apu) : a.frameSeqPart.io = a.io := by
  unfold frameSeqPart; split
  · rw [io_wrapFs]; unfold tickFrameSequencer; rw [io_incFs, io_sweepPart, io_envPart, io_lenPart]
  · rfl
theorem io_clearTriggered (a : Apu) : a.clearTriggered.io = a.io := rfl
theorem io_endMachineCycle (a : Apu) : a.endMachineCycle.io = a.tickClock.tickClock.tickClock.tickClock.io := by
  unfold endMachineCycle; exact io_clearTriggered _
theorem io_fields {a b : Apu} (h : a.io = b.io) :
    a.hasL = b.hasL ∧ a.hasR = b.hasR ∧ a.control.on = b.control.on ∧ a.ticks = b.ticks ∧ a.out = b.out ∧ a.crash = b.crash :=
  ⟨congrArg IoView.hasL h, congrArg IoView.hasR h, congrArg IoView.on h, congrArg IoView.ticks h, congrArg IoView.out h,
   congrArg IoView.crash h⟩

/-- attachment flags, crash flag and emitted samples: not touched by any register write -/
def att (a : Apu) : Bool × Bool × Bool × List (Nat × Nat) := (a.hasL, a.hasR, a.crash, a.out)

theorem att_writeNR10 (a : Apu) (v : Nat) : (a.writeNR10 v).att = a.att := by unfold writeNR10; split <;> rfl
theorem att_writeNR12 (a : Apu) (v : Nat) : (a.writeNR12 v).att = a.att := by unfold writeNR12; split <;> rfl
theorem att_writeNR13 (a : Apu) (v : Nat) : (a.writeNR13 v).att = a.att := by unfold writeNR13; split <;> rfl
theorem att_writeNR14 (a : Apu) (v : Nat) : (a.writeNR14 v).att = a.att := by unfold writeNR14; split <;> rfl
theorem att_writeNR22 (a : Apu) (v : Nat) : (a.writeNR22 v).att = a.att := by unfold writeNR22; split <;> rfl
theorem att_writeNR23 (a : Apu) (v : Nat) : (a.writeNR23 v).att = a.att := by unfold writeNR23; split <;> rfl
theorem att_writeNR24 (a : Apu) (v : Nat) : (a.writeNR24 v).att = a.att := by unfold writeNR24; split <;> rfl
theorem att_writeNR30 (a : Apu) (v : Nat) : (a.writeNR30 v).att = a.att := by unfold writeNR30; split <;> rfl
theorem att_writeNR32 (a : Apu) (v : Nat) : (a.writeNR32 v).att = a.att := by unfold writeNR32; split <;> rfl
theorem att_writeNR33 (a : Apu) (v : Nat) : (a.writeNR33 v).att = a.att := by unfold writeNR33; split <;> rfl
theorem att_writeNR34 (a : Apu) (v : Nat) : (a.writeNR34 v).att = a.att := by unfold writeNR34; split <;> rfl
theorem att_writeNR42 (a : Apu) (v : Nat) : (a.writeNR42 v).att = a.att := by unfold writeNR42; split <;> rfl
theorem att_writeNR43 (a : Apu) (v : Nat) : (a.writeNR43 v).att = a.att := by unfold writeNR43; split <;> rfl
theorem att_writeNR44 (a : Apu) (v : Nat) : (a.writeNR44 v).att = a.att := by unfold writeNR44; split <;> rfl
theorem att_writeNR50 (a : Apu) (v : Nat) : (a.writeNR50 v).att = a.att := by unfold writeNR50; split <;> rfl
theorem att_writeNR51 (a : Apu) (v : Nat) : (a.writeNR51 v).att = a.att := by unfold writeNR51; split <;> rfl
theorem att_writeNR11 (a : Apu) (v : Nat) : (a.writeNR11 v).att = a.att := rfl
theorem att_writeNR21 (a : Apu) (v : Nat) : (a.writeNR21 v).att = a.att := rfl
theorem att_writeNR31 (a : Apu) (v : Nat) : (a.writeNR31 v).att = a.att := rfl
theorem att_writeNR41 (a : Apu) (v : Nat) : (a.writeNR41 v).att = a.att := rfl
theorem att_setOn (a : Apu) (b : Bool) : (a.setOn b).att = a.att := rfl
theorem att_clearDuties (a : Apu) : a.clearDuties.att = a.att := rfl
theorem att_powerOff (a : Apu) : a.powerOff.att = a.att := by
  unfold powerOff
  rw [att_setOn, att_clearDuties, att_writeNR51, att_writeNR50, att_writeNR44, att_writeNR43, att_writeNR42, att_writeNR34,
    att_writeNR33, att_writeNR32, att_writeNR30, att_writeNR24, att_writeNR23, att_writeNR22, att_writeNR14, att_writeNR13,
    att_writeNR12, att_writeNR10, att_setOn]
theorem att_writeNR52 (a : Apu) (v : Nat) : (a.writeNR52 v).att = a.att := by
  unfold writeNR52; split
  · exact att_powerOff a
  · unfold powerOn; split <;> rfl
theorem att_writeWaveRAM (a : Apu) (i v : Nat) : (a.writeWaveRAM i v).att = a.att := rfl

theorem att_writeB (a : Apu) (addr v : Nat) : (a.writeB addr v).att = a.att := by
  rcases addr_cases addr with e|e|e|e|e|e|e|e|e|e|e|e|e|e|e|e|e|e|e|e|e|⟨hn, h52⟩
  · subst e; rw [writeB_FF10]; exact att_writeNR10 _ _
  · subst e; rw [writeB_FF11]; exact att_writeNR11 _ _
  · subst e; rw [writeB_FF12]; exact att_writeNR12 _ _
  · subst e; rw [writeB_FF13]; exact att_writeNR13 _ _
  · subst e; rw [writeB_FF14]; exact att_writeNR14 _ _
  · subst e; rw [writeB_FF16]; exact att_writeNR21 _ _
  · subst e; rw [writeB_FF17]; exact att_writeNR22 _ _
  · subst e; rw [writeB_FF18]; exact att_writeNR23 _ _
  · subst e; rw [writeB_FF19]; exact att_writeNR24 _ _
  · subst e; rw [writeB_FF1A]; exact att_writeNR30 _ _
  · subst e; rw [writeB_FF1B]; exact att_writeNR31 _ _
  · subst e; rw [writeB_FF1C]; exact att_writeNR32 _ _
  · subst e; rw [writeB_FF1D]; exact att_writeNR33 _ _
  · subst e; rw [writeB_FF1E]; exact att_writeNR34 _ _
  · subst e; rw [writeB_FF20]; exact att_writeNR41 _ _
  · subst e; rw [writeB_FF21]; exact att_writeNR42 _ _
  · subst e; rw [writeB_FF22]; exact att_writeNR43 _ _
  · subst e; rw [writeB_FF23]; exact att_writeNR44 _ _
  · subst e; rw [writeB_FF24]; exact att_writeNR50 _ _
  · subst e; rw [writeB_FF25]; exact att_writeNR51 _ _
  · subst e; rw [writeB_FF26]; exact att_writeNR52 _ _
  · rw [writeB_other _ _ _ hn h52]
    repeat' split
    all_goals first | rfl | exact att_writeWaveRAM _ _ _

end Apu
end Tetro.Model.Apu
