import Tetro.Spec.IsaSchedule
import Tetro.Lemmas.CpuExec
/-
Facts about the documented schedule (`micro`, `earlyOf`, `specTables`) needed to instantiate the generic
cycle lemmas of `Lemmas/CpuExec.lean`: table lookup = schedule of the decoded instruction, schedules are
non-empty and contain no `fatal`, the early-finish entries are proper, and what `fetch` loads.
-/
namespace Tetro.Exec
open Tetro.Model.Cpu Tetro.Spec.Isa

theorem spec_normal (op : Nat) (h : op < 256) :
    specTables.normal.getD op [] = match decode op with | some i => micro i | none => [.fatal] := by
  simp [specTables, List.getD_eq_getElem?_getD, h]
  cases decode op <;> rfl

theorem spec_prefixed (op : Nat) (h : op < 256) :
    specTables.prefixed.getD op [] = micro (decodeCB op) := by
  simp [specTables, List.getD_eq_getElem?_getD, h]

theorem spec_earlyOf_fin : ∀ op : Fin 256, specTables.earlyOf op.val = (decode op.val).bind earlyOf := by
  decide +kernel

theorem decode_ne_ldhlhl : ∀ op : Fin 256, decode op.val ≠ some (.ld .hlm .hlm) := by decide +kernel

theorem micro_length (i : Instr) (h : i ≠ .ld .hlm .hlm) : (micro i).length = cyclesOf i true := by
  unfold micro
  split <;> simp_all [cyclesOf]
  repeat' split
  all_goals rfl

theorem micro_ne_nil (i : Instr) : 0 < (micro i).length := by
  unfold micro
  repeat' split
  all_goals simp

theorem micro_noFatal (i : Instr) : MicroOp.fatal ∉ micro i := by
  unfold micro
  repeat' split
  all_goals simp

theorem earlyOf_ok (i : Instr) (e : Cond × Nat × Nat) (h : earlyOf i = some e) :
    0 < e.2.1 ∧ e.2.1 < e.2.2 ∧ e.2.2 = (micro i).length := by
  cases i <;> simp [earlyOf] at h <;> subst h <;> simp [micro]

theorem earlyOf_cycles (i : Instr) (c : Cond) (e l : Nat) (h : earlyOf i = some (c, e, l)) :
    e = cyclesOf i false ∧ l = cyclesOf i true ∧ ∃ cc, condOf i = some cc ∧ c = notMet cc := by
  cases i <;> simp [earlyOf] at h <;> obtain ⟨rfl, rfl, rfl⟩ := h <;> simp [cyclesOf, condOf]

theorem earlyOf_none (i : Instr) (h : earlyOf i = none) : condOf i = none ∧ cyclesOf i false = cyclesOf i true := by
  cases i <;> simp [earlyOf] at h <;> simp [cyclesOf, condOf]

theorem spec_earlyOf (op : Nat) (h : op < 256) : specTables.earlyOf op = (decode op).bind earlyOf :=
  spec_earlyOf_fin ⟨op, h⟩

theorem earlyOf_decodeCB (op : Nat) : earlyOf (decodeCB op) = none := by
  unfold decodeCB; dsimp only; split <;> rfl

theorem decodeCB_ne_ldhlhl (op : Nat) : decodeCB op ≠ .ld .hlm .hlm := by
  unfold decodeCB; dsimp only; split <;> simp

/-- the instruction whose opcode byte(s) are at `pc` (`none`: one of the 11 undefined opcodes) -/
def instrAt (pc : Word) (m : Flat) : Option Instr :=
  if m.read pc = 0xcb then some (decodeCB (m.read (pc + 1)).toNat) else decode (m.read pc).toNat

theorem instrAt_ne_ldhlhl (pc : Word) (m : Flat) (i : Instr) (h : instrAt pc m = some i) :
    i ≠ .ld .hlm .hlm := by
  unfold instrAt at h
  split at h
  · cases h; exact decodeCB_ne_ldhlhl _
  · intro e; subst e
    exact decode_ne_ldhlhl ⟨(m.read pc).toNat, (m.read pc).isLt⟩ h

theorem byte_lt (b : Byte) : b.toNat < 256 := b.isLt

/-- what `fetch` loads from the documented tables -/
theorem fetch_spec (c : Cpu) (r : Regs) (m : Flat) (i : Instr) (h : instrAt r.pc m = some i) :
    fetch specTables c r m =
      { cpu := { c with regs := fetchRegs r (decide (m.read r.pc = 0xcb)), ops := micro i, cycle := 0,
                        early := earlyOf i },
        bus := { m with ime := m.ime || r.eiPending }, halted := false } := by
  rw [fetch_flat]
  unfold instrAt at h
  by_cases hcb : m.read r.pc = 0xcb
  · rw [if_pos hcb] at h
    cases h
    rw [if_pos hcb, spec_prefixed _ (byte_lt _), earlyOf_decodeCB, decide_eq_true hcb]
  · rw [if_neg hcb] at h
    rw [if_neg hcb, spec_normal _ (byte_lt _), spec_earlyOf _ (byte_lt _), h, decide_eq_false hcb]
    rfl

/-- an undefined opcode loads the `fatal` schedule -/
theorem fetch_undefined (c : Cpu) (r : Regs) (m : Flat) (h : instrAt r.pc m = none) :
    (fetch specTables c r m).cpu.ops = [.fatal] := by
  rw [fetch_flat]
  unfold instrAt at h
  by_cases hcb : m.read r.pc = 0xcb
  · rw [if_pos hcb] at h; cases h
  · rw [if_neg hcb] at h
    rw [if_neg hcb, spec_normal _ (byte_lt _), h]

theorem fetch_spec_loaded (c : Cpu) (m : Flat) (i : Instr) (hc : AtFetch c m)
    (h : instrAt c.regs.pc m = some i) :
    Loaded (fetch specTables c c.regs m).cpu ∧ EarlyOk (fetch specTables c c.regs m).cpu ∧
    0 < (fetch specTables c c.regs m).cpu.ops.length := by
  rw [fetch_spec c c.regs m i h]
  refine ⟨⟨rfl, hc.2.1, hc.2.2.1, micro_noFatal i⟩, fun e he => earlyOf_ok i e he, micro_ne_nil i⟩

end Tetro.Exec
