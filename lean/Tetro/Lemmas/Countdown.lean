/-
Generic reload-countdown generator (C21).  All four sound channels clock their waveform by the
same mechanism: a timer that counts down once per clock; when it is found at 0 it is reloaded
with `P - 1` and the waveform phase advances by one step.  This file proves the closed form of
that mechanism for EVERY period `P > 0`, start timer `t` and phase type.  Core Lean only.
-/
namespace Tetro.Countdown

/-- `iter f n x = f (f (… x))`, n times -/
def iter {α : Type} (f : α → α) : Nat → α → α
  | 0, x => x
  | n + 1, x => iter f n (f x)

theorem iter_succ' {α : Type} (f : α → α) (n : Nat) (x : α) : iter f (n + 1) x = f (iter f n x) := by
  induction n generalizing x with
  | zero => rfl
  | succ k ih => show iter f (k + 1) (f x) = _; rw [ih]; rfl

theorem iter_add {α : Type} (f : α → α) (m n : Nat) (x : α) : iter f (m + n) x = iter f n (iter f m x) := by
  induction m generalizing x with
  | zero => simp [iter]
  | succ k ih => rw [Nat.add_right_comm]; show iter f (k + n) (f x) = _; rw [ih]; rfl

structure CD (α : Type) where
  timer : Nat
  phase : α

/-- one clock of the generator with period `P` -/
def step {α : Type} (P : Nat) (next : α → α) (s : CD α) : CD α :=
  if s.timer = 0 then ⟨P - 1, next s.phase⟩ else ⟨s.timer - 1, s.phase⟩

/-- `n` clocks -/
def run {α : Type} (P : Nat) (next : α → α) : Nat → CD α → CD α
  | 0, s => s
  | n + 1, s => run P next n (step P next s)

/-- number of waveform steps during the first `n` clocks when the timer starts at `t` -/
def stepsIn (P t n : Nat) : Nat := if n ≤ t then 0 else (n - t - 1) / P + 1

/-- **closed form**: the first step happens at clock `t + 1`, then one step every `P` clocks -/
theorem run_closed {α : Type} (P : Nat) (hP : 0 < P) (next : α → α) (n t : Nat) (ph : α) :
    run P next n ⟨t, ph⟩ =
      if n ≤ t then ⟨t - n, ph⟩ else ⟨P - 1 - (n - t - 1) % P, iter next ((n - t - 1) / P + 1) ph⟩ := by
  induction n generalizing t ph with
  | zero => simp [run]
  | succ n ih =>
    show run P next n (step P next ⟨t, ph⟩) = _
    cases t with
    | zero =>
      have hs : step P next ⟨0, ph⟩ = ⟨P - 1, next ph⟩ := by simp [step]
      rw [hs, ih]
      have h0 : ¬ (n + 1 ≤ 0) := by omega
      rw [if_neg h0]
      have e1 : n + 1 - 0 - 1 = n := by omega
      rw [e1]
      by_cases hn : n ≤ P - 1
      · rw [if_pos hn]
        have hlt : n < P := by omega
        rw [Nat.mod_eq_of_lt hlt, Nat.div_eq_of_lt hlt]
        rfl
      · rw [if_neg hn]
        have hge : P ≤ n := by omega
        have e2 : n - (P - 1) - 1 = n - P := by omega
        rw [e2, Nat.mod_eq_sub_mod hge, Nat.div_eq_sub_div hP hge]
        rfl
    | succ t' =>
      have hs : step P next ⟨t' + 1, ph⟩ = ⟨t', ph⟩ := by simp [step]
      rw [hs, ih]
      by_cases hn : n ≤ t'
      · have : n + 1 ≤ t' + 1 := by omega
        rw [if_pos hn, if_pos this]
        have : t' + 1 - (n + 1) = t' - n := by omega
        rw [this]
      · have : ¬ (n + 1 ≤ t' + 1) := by omega
        rw [if_neg hn, if_neg this]
        have : n + 1 - (t' + 1) - 1 = n - t' - 1 := by omega
        rw [this]

/-- the waveform has made exactly `stepsIn P t n` steps after `n` clocks -/
theorem run_phase {α : Type} (P : Nat) (hP : 0 < P) (next : α → α) (n t : Nat) (ph : α) :
    (run P next n ⟨t, ph⟩).phase = iter next (stepsIn P t n) ph := by
  rw [run_closed P hP]; unfold stepsIn; split <;> rfl

/-- **period**: once the first reload has happened, `P` more clocks give exactly one more
    waveform step and the same timer value -/
theorem run_period {α : Type} (P : Nat) (hP : 0 < P) (next : α → α) (n t : Nat) (ph : α) (h : t < n) :
    run P next (n + P) ⟨t, ph⟩ = ⟨(run P next n ⟨t, ph⟩).timer, next (run P next n ⟨t, ph⟩).phase⟩ := by
  rw [run_closed P hP, run_closed P hP]
  have h1 : ¬ (n ≤ t) := by omega
  have h2 : ¬ (n + P ≤ t) := by omega
  rw [if_neg h1, if_neg h2]
  have e : n + P - t - 1 = (n - t - 1) + P := by omega
  rw [e, Nat.add_mod_right, Nat.add_div_right _ hP, iter_succ']

/-- in steady state consecutive steps are exactly `P` clocks apart: between clock `n` and clock
    `n + k` with `k < P` at most one step happens … -/
theorem stepsIn_period (P : Nat) (hP : 0 < P) (t n : Nat) (h : t < n) : stepsIn P t (n + P) = stepsIn P t n + 1 := by
  unfold stepsIn
  have h1 : ¬ (n ≤ t) := by omega
  have h2 : ¬ (n + P ≤ t) := by omega
  rw [if_neg h1, if_neg h2]
  have e : n + P - t - 1 = (n - t - 1) + P := by omega
  rw [e, Nat.add_div_right _ hP]

/-- … and the steps happen exactly at the clocks `t + 1 + k·P` -/
theorem stepsIn_at (P : Nat) (hP : 0 < P) (t k : Nat) :
    stepsIn P t (t + k * P) = k ∧ stepsIn P t (t + 1 + k * P) = k + 1 := by
  unfold stepsIn
  constructor
  · cases k with
    | zero => simp
    | succ j =>
      have hpos : 0 < (j + 1) * P := Nat.mul_pos (by omega) hP
      have h1 : ¬ (t + (j + 1) * P ≤ t) := by omega
      rw [if_neg h1]
      have e : t + (j + 1) * P - t - 1 = j * P + (P - 1) := by
        rw [Nat.add_sub_cancel_left, Nat.succ_mul]; omega
      rw [e, Nat.add_comm (j * P), Nat.add_mul_div_right _ _ hP, Nat.div_eq_of_lt (by omega)]
      omega
  · have h1 : ¬ (t + 1 + k * P ≤ t) := by omega
    rw [if_neg h1]
    have e : t + 1 + k * P - t - 1 = k * P := by omega
    rw [e, Nat.mul_div_cancel _ hP]

end Tetro.Countdown
