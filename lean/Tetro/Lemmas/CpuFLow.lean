import Tetro.Lemmas.CpuBasic
/-
The low nibble of F: no micro-operation that dispatch.go can contain sets it (flag helpers only touch
bits 7..4, POP AF masks with 0xF0), hence it is clear in every reachable state.
-/
set_option linter.unusedSimpArgs false
set_option linter.constructorNameAsVariable false
namespace Tetro.C01
open Tetro.Model.Cpu Tetro.Spec.Isa

@[simp] theorem lowb_setZ (v : Bool) (f : Byte) : setFlag zFlag v f &&& 15#8 = f &&& 15#8 := by
  cases v <;> (revert f; apply Tetro.forall_bv8; decide +kernel)
@[simp] theorem lowb_setN (v : Bool) (f : Byte) : setFlag nFlag v f &&& 15#8 = f &&& 15#8 := by
  cases v <;> (revert f; apply Tetro.forall_bv8; decide +kernel)
@[simp] theorem lowb_setH (v : Bool) (f : Byte) : setFlag hFlag v f &&& 15#8 = f &&& 15#8 := by
  cases v <;> (revert f; apply Tetro.forall_bv8; decide +kernel)
@[simp] theorem lowb_setC (v : Bool) (f : Byte) : setFlag cFlag v f &&& 15#8 = f &&& 15#8 := by
  cases v <;> (revert f; apply Tetro.forall_bv8; decide +kernel)
@[simp] theorem lowb_f0 (v : Byte) : v &&& 240#8 &&& 15#8 = 0#8 := by
  revert v; apply Tetro.forall_bv8; decide +kernel

theorem set_f (r : Regs) (k : R8) (v : Byte) (hk : (k != .f) = true) : (r.set k v).f = r.f := by
  cases k <;> first | rfl | exact absurd hk (by decide)
@[simp] theorem set16_f (r : Regs) (k : R16) (w : Word) : (r.set16 k w).f = r.f := by
  cases k <;> rfl

@[simp] theorem aluRun_low (op : AluOp) (r : Regs) (v : Byte) : (aluRun op r v).f &&& 15#8 = r.f &&& 15#8 := by
  cases op <;> simp [aluRun, add, adc, sub, sbc, Tetro.Model.Cpu.and, Tetro.Model.Cpu.xor, Tetro.Model.Cpu.or, cp,
    Regs.setZf, Regs.setNf, Regs.setHf, Regs.setCf]

theorem lowF_micro (μ : MicroOp) (hs : FSafe μ = true) (r : Regs) (m : Flat) :
    (μ.run r m).1.f &&& 15#8 = r.f &&& 15#8 ∨ (μ.run r m).1.f &&& 15#8 = 0#8 := by
  cases μ <;> try (simp [MicroOp.run, set_f, FSafe, Regs.setZf, Regs.setNf, Regs.setHf, Regs.setCf, inc, dec, rotF, bitTest,
      pushCell, decSP, incSP, inc16F, dec16F, addHLF, addSPF, ldHLSPF, rstTo] at hs ⊢; done)
  case ld8 d s => have hk : (d != .f) = true := hs; simp [MicroOp.run, set_f _ _ _ hk]
  case ldRM d => have hk : (d != .f) = true := hs; simp [MicroOp.run, set_f _ _ _ hk]
  case alu op s => cases s <;> simp [MicroOp.run]
  case inc8 k => have hk : (k != .f) = true := hs; simp [MicroOp.run, inc, set_f _ _ _ hk, Regs.setZf, Regs.setNf, Regs.setHf]
  case dec8 k => have hk : (k != .f) = true := hs; simp [MicroOp.run, dec, set_f _ _ _ hk, Regs.setZf, Regs.setNf, Regs.setHf]
  case inc16 k => cases k <;> simp [MicroOp.run, incSP, inc16F]
  case dec16 k => cases k <;> simp [MicroOp.run, decSP, dec16F]
  case rot op k =>
    have hk : (k != .f) = true := hs
    simp [MicroOp.run, rotF, set_f _ _ _ hk, Regs.setZf, Regs.setNf, Regs.setHf, Regs.setCf]
  case res n k => have hk : (k != .f) = true := hs; simp [MicroOp.run, set_f _ _ _ hk]
  case set n k => have hk : (k != .f) = true := hs; simp [MicroOp.run, set_f _ _ _ hk]
  case pop k => have hk : (k != .f) = true := hs; simp [MicroOp.run, incSP, set_f _ _ _ hk]
  case daa =>
    left
    simp only [MicroOp.run, daaF]
    split
    · simp [Regs.setZf, Regs.setHf]
    · simp only [Regs.setZf, Regs.setHf, Regs.setCf, apply_ite Regs.f, lowb_setZ, lowb_setH]
      repeat' split
      all_goals simp
  case halt =>
    left
    simp only [MicroOp.run, haltF]
    split
    · rfl
    · split <;> rfl
  case handleInterrupt =>
    left
    simp only [MicroOp.run, handleInterruptF]
    split
    · split <;> rfl
    · rfl

theorem flow_micro (μ : MicroOp) (hs : FSafe μ = true) (r : Regs) (m : Flat) (hf : FLow r) :
    FLow (μ.run r m).1 := by
  have hf' : r.f &&& 15#8 = 0#8 := hf
  rcases lowF_micro μ hs r m with h | h
  · exact h.trans hf'
  · exact h

/-! ### reachable states -/

/-- invariant of the execution loop: F's low nibble clear, only safe micro-operations in flight -/
def CInv (c : Cpu) : Prop := FLow c.regs ∧ c.ops.all FSafe = true

theorem getD_all {l : List (List MicroOp)} (h : l.all (·.all FSafe) = true) (n : Nat) :
    (l.getD n []).all FSafe = true := by
  rw [List.getD_eq_getElem?_getD]
  cases hn : l[n]? with
  | none => rfl
  | some x =>
    have hx : x ∈ l := List.mem_of_getElem? hn
    exact (List.all_eq_true.mp h) x hx

theorem ci_regs (t : Tables) (r : Regs) (m : Flat) (hf : FLow r) : FLow (checkInterrupts t r m).1 := by
  unfold checkInterrupts
  split
  · split
    · split <;> exact hf
    · split <;> exact hf
  · exact hf

theorem ci_ops (t : Tables) (ht : TablesFSafe t = true) (r : Regs) (m : Flat) (seq : List MicroOp)
    (h : (checkInterrupts t r m).2 = some seq) : seq.all FSafe = true := by
  simp only [TablesFSafe, Bool.and_eq_true] at ht
  obtain ⟨⟨⟨⟨_, _⟩, h3⟩, h4⟩, h5⟩ := ht
  unfold checkInterrupts at h
  split at h
  · split at h
    · split at h
      · cases h; exact h5
      · cases h; exact h4
    · split at h
      · cases h; exact h3
      · cases h
  · cases h

theorem fetch_inv (t : Tables) (ht : TablesFSafe t = true) (c : Cpu) (r : Regs) (m : Flat) (hf : FLow r) :
    CInv (fetch t c r m).cpu := by
  simp only [TablesFSafe, Bool.and_eq_true] at ht
  obtain ⟨⟨⟨⟨h1, h2⟩, _⟩, _⟩, _⟩ := ht
  unfold fetch
  dsimp only
  split <;> split <;> first | exact ⟨hf, getD_all h2 _⟩ | exact ⟨hf, getD_all h1 _⟩

theorem next_inv (t : Tables) (ht : TablesFSafe t = true) (c : Cpu) (m : Flat) (hc : CInv c) :
    CInv (next t c m).cpu := by
  unfold next
  dsimp only
  split
  · next seq h => exact ⟨ci_regs t c.regs m hc.1, ci_ops t ht c.regs m seq h⟩
  · split
    · exact hc
    · exact fetch_inv t ht c c.regs m hc.1

theorem stepSub_inv (c : Cpu) (m : Flat) (hc : CInv c) : CInv (stepSub c m).1 := by
  obtain ⟨hf, ho⟩ := hc
  unfold stepSub
  cases hμ : c.ops[c.cycle]? with
  | none => exact ⟨hf, ho⟩
  | some μ =>
    have hx : μ ∈ c.ops := List.mem_of_getElem? hμ
    exact ⟨flow_micro μ ((List.all_eq_true.mp ho) μ hx) c.regs m hf, ho⟩

theorem cycle_inv (t : Tables) (ht : TablesFSafe t = true) (c : Cpu) (m : Flat) (hc : CInv c) :
    CInv (cycle t c m).1 := by
  unfold cycle
  split
  · exact hc
  · split
    · dsimp only
      split
      · exact next_inv t ht c m hc
      · exact stepSub_inv _ _ (next_inv t ht c m hc)
    · exact stepSub_inv c m hc

theorem cycles_inv (t : Tables) (ht : TablesFSafe t = true) (n : Nat) (c : Cpu) (m : Flat) (hc : CInv c) :
    CInv (cycles t n c m).1 := by
  induction n generalizing c m with
  | zero => exact hc
  | succ n ih => exact ih _ _ (cycle_inv t ht c m hc)

end Tetro.C01
