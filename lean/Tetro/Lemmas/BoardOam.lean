import Tetro.Proofs.Whole
import Tetro.Lemmas.BusRoute
import Tetro.Lemmas.Oam
/-
What each step of the whole-machine model (`Model/Whole.lean`) does to the OAM unit (`b.m.oam`) and to the LCD
timing state (`b.m.ppu`) – the two components C17 is about.  Every lemma holds for EVERY board state (a Go panic
leaves the machine record as it was and sets `crashed`).

  `board_write_oam`, `board_write_ppu` : a bus write reaches the OAM unit only at FE00–FEFF (`oam.Write`), FF40
        (`EnterMode2`/`ExitMode2` when LCDC bit 7 toggles) and FF46 (`WriteDMA`), and the LCD state only at FF40,
        FF41, FF44, FF45 – for all 65 536 addresses, by the decoder regenerated from mapper.go (`c06_arms`);
  `board_read_m`    : a bus read changes nothing but (at an address routed to `oam.Read`) the OAM unit;
  `board_ppuStep_m`, `board_dmaStep_m`, `ppuTick_cases`, `endMachineCycle_oam` : the per-cycle calls.
-/
namespace Tetro.BoardOam
open Tetro.Model Tetro.Model.Decoder Tetro.Model.Machine Tetro.Model.Whole Tetro.Model.Oam
open Tetro.BusRoute Tetro.WholeProofs

/-! ### writes -/

/-- the OAM unit after `Mapper.Write(a, v)` -/
def oamAfterWrite (m : Machine) (a v : Nat) : Oam :=
  if 0xFE00 ≤ a ∧ a < 0xFF00 then (cpuWrite m.oam (BitVec.ofNat 16 a) (BitVec.ofNat 8 v)).getD m.oam
  else if a = 0xFF40 then oamAfterLcdc m.ppu (v.testBit 7) m.oam
  else if a = 0xFF46 then writeDMA m.oam (BitVec.ofNat 8 v)
  else m.oam

/-- the LCD timing state after `Mapper.Write(a, v)` -/
def ppuAfterWrite (m : Machine) (a v : Nat) : Lcd.Ppu :=
  if a = 0xFF40 then Lcd.wLCDC m.ppu v
  else if a = 0xFF41 then Lcd.wSTAT m.ppu v
  else if a = 0xFF44 then Lcd.wLY m.ppu v
  else if a = 0xFF45 then Lcd.wLYC m.ppu v
  else m.ppu

private theorem getD_map {α : Type} (x : Option α) (f : α → Machine) (m : Machine) (P : Machine → Prop)
    (hm : P m) (hf : ∀ y, P (f y)) : P ((x.map f).getD m) := by
  cases x
  · exact hm
  · exact hf _

private theorem gen_write (a : Nat) : wH a = route expectedWriteArms a := by
  unfold wH; rw [Tetro.C06.c06_arms.2]
private theorem gen_read (a : Nat) : rH a = route expectedReadArms a := by
  unfold rH; rw [Tetro.C06.c06_arms.1]

private theorem sound_range {a : Nat} (h : soundAddr a = true) : 0xFF10 ≤ a ∧ a < 0xFF40 := by
  unfold soundAddr at h
  simp only [Bool.or_eq_true, Bool.and_eq_true, decide_eq_true_eq] at h
  omega

/-- the machine record after a board write: the handler's result, or unchanged (sound register / Go panic) -/
theorem board_write_m (b : Board) (a v : Nat) (ha : a < 65536) :
    (b.write a v).m =
      if soundAddr a then b.m else (writeH (route expectedWriteArms a) b.m a v).getD b.m := by
  unfold Board.write Board.write?
  rw [(whole_apu_addresses a ha).2]
  cases hs : soundAddr a
  · simp only [Bool.false_eq_true, if_false]
    rw [gen_write]
    cases writeH (route expectedWriteArms a) b.m a v <;> rfl
  · rfl

private theorem writeH_oam_ppu (h : H) (m : Machine) (a v : Nat) (hr : inRange false h a = true) :
    ((writeH h m a v).getD m).oam = oamAfterWrite m a v ∧ ((writeH h m a v).getD m).ppu = ppuAfterWrite m a v := by
  cases h <;> simp only [inRange, Bool.or_eq_true, Bool.and_eq_true, decide_eq_true_eq, beq_iff_eq,
    Bool.true_and, Bool.false_eq_true, Bool.not_false] at hr
  case oam =>
    have e1 : oamAfterWrite m a v = (cpuWrite m.oam (BitVec.ofNat 16 a) (BitVec.ofNat 8 v)).getD m.oam := by
      unfold oamAfterWrite; rw [if_pos hr]
    have e2 : ppuAfterWrite m a v = m.ppu := by
      unfold ppuAfterWrite
      rw [if_neg (by omega), if_neg (by omega), if_neg (by omega), if_neg (by omega)]
    rw [e1, e2]
    simp only [writeH]
    cases cpuWrite m.oam (BitVec.ofNat 16 a) (BitVec.ofNat 8 v) <;> exact ⟨rfl, rfl⟩
  case lcdc => subst hr; exact ⟨rfl, rfl⟩
  case stat => subst hr; exact ⟨rfl, rfl⟩
  case ly => subst hr; exact ⟨rfl, rfl⟩
  case lyc => subst hr; exact ⟨rfl, rfl⟩
  case dma => subst hr; exact ⟨rfl, rfl⟩
  all_goals first
    | (exfalso; simp at hr; done)
    | (have e1 : oamAfterWrite m a v = m.oam := by
         unfold oamAfterWrite; rw [if_neg (by omega), if_neg (by omega), if_neg (by omega)]
       have e2 : ppuAfterWrite m a v = m.ppu := by
         unfold ppuAfterWrite
         rw [if_neg (by omega), if_neg (by omega), if_neg (by omega), if_neg (by omega)]
       rw [e1, e2]
       simp only [writeH]
       first
         | exact getD_map _ _ m (fun x => x.oam = m.oam ∧ x.ppu = m.ppu) ⟨rfl, rfl⟩ (fun _ => ⟨rfl, rfl⟩)
         | exact ⟨rfl, rfl⟩)

/-- **which bus writes reach the OAM unit**, for every board state, address and value -/
theorem board_write_oam (b : Board) (a v : Nat) (ha : a < 65536) : (b.write a v).m.oam = oamAfterWrite b.m a v := by
  rw [board_write_m b a v ha]
  cases hs : soundAddr a
  · simp only [Bool.false_eq_true, if_false]
    exact (writeH_oam_ppu _ b.m a v (range_write ha)).1
  · have := sound_range hs
    simp only [if_true]
    unfold oamAfterWrite
    rw [if_neg (by omega), if_neg (by omega), if_neg (by omega)]

/-- **which bus writes reach the LCD timing state** -/
theorem board_write_ppu (b : Board) (a v : Nat) (ha : a < 65536) : (b.write a v).m.ppu = ppuAfterWrite b.m a v := by
  rw [board_write_m b a v ha]
  cases hs : soundAddr a
  · simp only [Bool.false_eq_true, if_false]
    exact (writeH_oam_ppu _ b.m a v (range_write ha)).2
  · have := sound_range hs
    simp only [if_true]
    unfold ppuAfterWrite
    rw [if_neg (by omega), if_neg (by omega), if_neg (by omega), if_neg (by omega)]

/-- `oam.Write` never panics at an address the decoder sends to it: FE00–FE9F stores the byte … -/
theorem cpuWrite_low (s : Oam) (a v : Nat) (h : 0xFE00 ≤ a ∧ a < 0xFEA0) :
    cpuWrite s (BitVec.ofNat 16 a) (BitVec.ofNat 8 v) =
      some { writeFlags s with oam := s.oam.set (a - 0xFE00) (BitVec.ofNat 8 v) (by omega) } := by
  have ht : (BitVec.ofNat 16 a).toNat = a := by rw [BitVec.toNat_ofNat]; omega
  unfold cpuWrite
  simp only [ht]
  rw [if_pos h.2]
  have hidx : sub16 a 0xfe00 = a - 0xFE00 := by simp only [sub16]; omega
  simp only [hidx]
  rw [st_eq (by omega), writeFlags_oam]
  rfl

/-- … FEA0–FEFF only updates the trigger flags -/
theorem cpuWrite_high (s : Oam) (a v : Nat) (h : 0xFEA0 ≤ a ∧ a < 0xFF00) :
    cpuWrite s (BitVec.ofNat 16 a) (BitVec.ofNat 8 v) = some (writeFlags s) := by
  have ht : (BitVec.ofNat 16 a).toNat = a := by rw [BitVec.toNat_ofNat]; omega
  unfold cpuWrite
  simp only [ht]
  rw [if_neg (by omega)]

/-- the OAM unit after `oam.Write` at an address the decoder sends to it, field by field -/
theorem cpuWrite_fields (s : Oam) (a v : Nat) (h : 0xFE00 ≤ a ∧ a < 0xFF00) :
    ∃ o, cpuWrite s (BitVec.ofNat 16 a) (BitVec.ofNat 8 v) = some o ∧
      o.corrupt = (writeFlags s).corrupt ∧ o.read = (writeFlags s).read ∧ o.write = (writeFlags s).write ∧
      o.doubleWrite = (writeFlags s).doubleWrite ∧ o.dmaRunning = (writeFlags s).dmaRunning ∧
      (∀ k (hk : k < 160), o.oam[k] =
        if a < 0xFEA0 ∧ k = a - 0xFE00 then BitVec.ofNat 8 v else s.oam[k]) := by
  by_cases h2 : a < 0xFEA0
  · refine ⟨_, cpuWrite_low s a v ⟨h.1, h2⟩, rfl, rfl, rfl, rfl, rfl, fun k hk => ?_⟩
    show (s.oam.set (a - 0xFE00) (BitVec.ofNat 8 v) (by omega))[k] = _
    rw [Vector.getElem_set]
    by_cases h3 : k = a - 0xFE00
    · rw [if_pos h3.symm, if_pos ⟨h2, h3⟩]
    · rw [if_neg (fun e => h3 e.symm), if_neg (fun e => h3 e.2)]
  · refine ⟨_, cpuWrite_high s a v ⟨by omega, h.2⟩, rfl, rfl, rfl, rfl, rfl, fun k hk => ?_⟩
    rw [if_neg (fun e => h2 e.1)]
    congr 1
    exact writeFlags_oam s

/-- the flag update at the top of `oam.Write`, field by field -/
theorem writeFlags_fields (s : Oam) :
    (writeFlags s).corrupt = s.corrupt ∧ (writeFlags s).read = s.read ∧ (writeFlags s).dmaRunning = s.dmaRunning ∧
    (s.corrupt = false → writeFlags s = s) ∧
    ((writeFlags s).doubleWrite = true → (writeFlags s).write = true ∨ s.doubleWrite = true ∧ (writeFlags s).write = s.write) := by
  unfold writeFlags
  split
  · rename_i hc
    split
    · rename_i hw
      refine ⟨rfl, rfl, rfl, ?_, ?_⟩
      · intro e; rw [hc] at e; cases e
      · intro _; exact Or.inl hw
    · refine ⟨rfl, rfl, rfl, ?_, ?_⟩
      · intro e; rw [hc] at e; cases e
      · intro _; exact Or.inl rfl
  · exact ⟨rfl, rfl, rfl, fun _ => rfl, fun e => Or.inr ⟨e, rfl⟩⟩

theorem apuStep_m (b : Board) : b.apuStep.m = b.m := by rw [whole_step_apu]

/-! ### reads -/

/-- a board read changes at most the OAM unit, and that only through `oam.Read` -/
theorem board_read_m (b : Board) (a : Nat) :
    (b.read a).2.m = b.m ∨
      ∃ p, cpuRead b.m.oam (BitVec.ofNat 16 a) = some p ∧ (b.read a).2.m = { b.m with oam := p.1 } := by
  unfold Board.read Board.read?
  cases apuAddr? (rH a) a with
  | some ad => simp only []; cases b.apu.read ad <;> exact Or.inl rfl
  | none =>
    simp only []
    cases hv : readVal (rH a) b.m a with
    | none => exact Or.inl rfl
    | some v =>
      simp only [Option.map_some]
      unfold readEff
      split
      · cases hp : cpuRead b.m.oam (BitVec.ofNat 16 a) with
        | none => exact Or.inl rfl
        | some p => exact Or.inr ⟨p, rfl, rfl⟩
      · exact Or.inl rfl

/-- a board read leaves the LCD state alone and the OAM unit as `oam.Read` leaves it: unchanged, or – window open
    and no transfer running – with the `read` trigger set -/
theorem board_read_oam (b : Board) (a : Nat) :
    (b.read a).2.m.ppu = b.m.ppu ∧
    ((b.read a).2.m.oam = b.m.oam ∨
      (b.m.oam.dmaRunning = false ∧ b.m.oam.corrupt = true ∧ (b.read a).2.m.oam = { b.m.oam with read := true })) := by
  rcases board_read_m b a with e | ⟨p, hp, e⟩
  · rw [e]; exact ⟨rfl, Or.inl rfl⟩
  · rw [e]
    refine ⟨rfl, ?_⟩
    rcases cpuRead_shape hp with e1 | ⟨h1, h2, e1⟩
    · exact Or.inl e1
    · exact Or.inr ⟨h1, h2, e1⟩

/-! ### OAM-bug hooks -/

theorem board_corrupt_m (b : Board) :
    b.corrupt = b ∨ b.corrupt = { b with crashed := true } ∨
      ∃ o, corruptStep b.m.oam = some o ∧ b.corrupt = b.setOam o := by
  unfold Board.corrupt
  split
  · exact Or.inl rfl
  · cases h : corruptStep b.m.oam with
    | none => exact Or.inr (Or.inl rfl)
    | some o => exact Or.inr (Or.inr ⟨o, rfl, rfl⟩)

/-! ### the per-cycle calls -/

/-- `ppu.EndMachineCycle` on the board: the machine record is the one `Machine.ppuTick` computes, or (Go panic)
    the old one -/
theorem board_ppuStep_m (b : Board) : b.ppuStep.m = b.m ∨ ppuTick b.m = some b.ppuStep.m := by
  rw [whole_step_ppu]
  cases Render.tick (sceneOf b.m) (syncPix b.m.ppu b.pix) with
  | none => exact Or.inl rfl
  | some p =>
    cases h : ppuTick b.m with
    | none => exact Or.inl rfl
    | some m' => exact Or.inr rfl

/-- `mapper.EndMachineCycle` on the board -/
theorem board_dmaStep_m (b : Board) :
    b.dmaStep.m = b.m ∨ endMachineCycle Serial.genReadArms b.m = some b.dmaStep.m := by
  rw [whole_step_dma]
  cases h : endMachineCycle Serial.genReadArms b.m with
  | none => exact Or.inl rfl
  | some m' => exact Or.inr rfl

/-- `Machine.ppuTick`, LCD off: only nothing happens; LCD on: `Lcd.tickOn` and `oamAfterTick` -/
theorem ppuTick_cases (m m' : Machine) (h : ppuTick m = some m') :
    (m.ppu.enabled = false ∧ m'.ppu = m.ppu ∧ m'.oam = m.oam) ∨
    (m.ppu.enabled = true ∧ m'.ppu = (Lcd.tickOn m.ppu).p ∧ m'.oam = oamAfterTick m.ppu m.oam) := by
  unfold ppuTick at h
  rw [Option.map_eq_some_iff] at h
  obtain ⟨r, hr, rfl⟩ := h
  unfold Lcd.tick at hr
  cases he : m.ppu.enabled
  · rw [he] at hr
    simp only [if_true, Option.some.injEq] at hr
    subst hr
    exact Or.inl ⟨rfl, rfl, by simp only [Bool.false_eq_true, if_false]⟩
  · rw [he] at hr
    simp only [Bool.true_eq_false, if_false] at hr
    split at hr
    · cases hr
    · simp only [Option.some.injEq] at hr
      subst hr
      exact Or.inr ⟨rfl, rfl, by simp only [if_true]⟩

/-- `ppu.EndMachineCycle` touches of the OAM unit only the window flag and the PPU's last-access address -/
theorem oamAfterTick_fields (p : Lcd.Ppu) (o : Oam) :
    (oamAfterTick p o).oam = o.oam ∧ (oamAfterTick p o).read = o.read ∧ (oamAfterTick p o).write = o.write ∧
    (oamAfterTick p o).doubleWrite = o.doubleWrite ∧ (oamAfterTick p o).dmaRunning = o.dmaRunning ∧
    (oamAfterTick p o).dmaCycle = o.dmaCycle ∧
    (oamAfterTick p o).corrupt = Lcd.swCorrupt p.mode p.ticks o.corrupt := by
  unfold oamAfterTick
  simp only []
  split <;> exact ⟨rfl, rfl, rfl, rfl, rfl, rfl, rfl⟩

private theorem readEff_running (h : H) (m : Machine) (a : Nat) (hrun : m.oam.dmaRunning = true) :
    readEff h m a = m := by
  unfold readEff
  split
  · simp only [cpuRead, hrun, if_true]
  · rfl

private theorem dmaReadAddr_some (o : Oam) (a : Nat) (h : dmaReadAddr o = some a) : o.dmaRunning = true := by
  unfold dmaReadAddr at h
  cases hr : o.dmaRunning
  · rw [hr] at h; cases h
  · rfl

/-- `mapper.EndMachineCycle`: the LCD state is untouched; the OAM unit is the one `oam.TickDMA` computes for SOME
    byte source (the bus read of the cycle goes through `Mapper.Read`, which – a transfer running – leaves the
    OAM unit alone) -/
theorem endMachineCycle_oam (arms : List Arm) (m m' : Machine) (h : endMachineCycle arms m = some m') :
    m'.ppu = m.ppu ∧ ∃ rd, Oam.tickDMA m.oam rd = some m'.oam := by
  unfold endMachineCycle at h
  rw [Option.map_eq_some_iff] at h
  obtain ⟨m1, h1, rfl⟩ := h
  show m1.ppu = m.ppu ∧ ∃ rd, Oam.tickDMA m.oam rd = some m1.oam
  unfold Machine.tickDMA at h1
  split at h1
  · rw [Option.map_eq_some_iff] at h1
    obtain ⟨o, ho, rfl⟩ := h1
    exact ⟨rfl, _, ho⟩
  · rename_i a ha
    have hrun := dmaReadAddr_some _ _ ha
    rw [Option.bind_eq_some_iff] at h1
    obtain ⟨r, hr, h1⟩ := h1
    unfold busRead at hr
    rw [Option.map_eq_some_iff] at hr
    obtain ⟨v, _, rfl⟩ := hr
    simp only [readEff_running _ _ _ hrun] at h1
    rw [Option.map_eq_some_iff] at h1
    obtain ⟨o, ho, rfl⟩ := h1
    exact ⟨rfl, _, ho⟩

end Tetro.BoardOam
