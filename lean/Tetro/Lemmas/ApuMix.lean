import Tetro.Lemmas.ApuView
/-
Range invariant of the APU model used by C20: the fields that enter the mixer stay inside their
hardware ranges (4-bit volumes, 3-bit master volumes, 4-bit wave sample buffer, byte-valued wave
RAM, duty pattern < 4, duty index < 8) – preserved by every register write with a byte value and
by every clocking function.
-/
namespace Tetro.Model.Apu

def SqMix (s : Square) : Prop := s.volume ≤ 15 ∧ s.initialVolume ≤ 15 ∧ s.duty < 4 ∧ s.dutyIndex < 8
def NsMix (n : Noise) : Prop := n.volume ≤ 15 ∧ n.initialVolume ≤ 15
def RamOk (r : WaveRam) : Prop := ∀ i, ramGet r i < 256
def WvMix (w : Wave) : Prop := w.sampleBuffer ≤ 15 ∧ RamOk w.waveram

/-- unfold, split all `if`s, close the range goals -/
macro "mix_tac" "[" ds:Lean.Parser.Tactic.simpLemma,* "]" : tactic =>
  `(tactic| (intro h; simp only [inc8, dec8, $ds,*] at h ⊢; repeat' split
             all_goals (first | exact h | omega | (dsimp only; omega))))

namespace Square
theorem mix_calcState (s : Square) : SqMix s → SqMix s.calcState := by mix_tac [SqMix, calcState]
theorem mix_trigBase (s : Square) : SqMix s → SqMix s.trigBase := by mix_tac [SqMix, trigBase]
theorem mix_sweepReload (s : Square) : SqMix s → SqMix s.sweepReload := by mix_tac [SqMix, sweepReload]
theorem mix_dacGate (s : Square) : SqMix s → SqMix s.dacGate := by mix_tac [SqMix, dacGate]
theorem mix_triggerSweep (s : Square) (h : SqMix s) : SqMix s.triggerSweep := by
  unfold triggerSweep; repeat' split
  · exact h
  · exact mix_calcState _ (mix_sweepReload _ h)
  · exact mix_sweepReload _ h
theorem mix_trigger (s : Square) (h : SqMix s) : SqMix s.trigger :=
  mix_dacGate _ (mix_triggerSweep _ (mix_trigBase _ h))
theorem mix_tickTimer (s : Square) : SqMix s → SqMix s.tickTimer := by
  intro h; obtain ⟨h1, h2, h3, h4⟩ := h
  unfold tickTimer; split
  · refine ⟨h1, h2, h3, ?_⟩
    show (if inc8 s.dutyIndex ≥ 8 then 0 else inc8 s.dutyIndex) < 8
    by_cases c : inc8 s.dutyIndex ≥ 8
    · rw [if_pos c]; omega
    · rw [if_neg c]; omega
  · exact ⟨h1, h2, h3, h4⟩
theorem mix_tickLength (s : Square) : SqMix s → SqMix s.tickLength := by mix_tac [SqMix, tickLength]
theorem mix_tickVolumeEnvelope (s : Square) : SqMix s → SqMix s.tickVolumeEnvelope := by
  mix_tac [SqMix, tickVolumeEnvelope]
theorem mix_storeFreq (s : Square) (f : Nat) : SqMix s → SqMix (s.storeFreq f) := by mix_tac [SqMix, storeFreq]
theorem mix_sweepStep (s : Square) (h : SqMix s) : SqMix s.sweepStep := by
  unfold sweepStep; split
  · exact mix_calcState _ (mix_storeFreq _ _ (mix_calcState _ h))
  · exact mix_calcState _ h
theorem mix_tickSweep (s : Square) (h : SqMix s) : SqMix s.tickSweep := by
  unfold tickSweep; repeat' split
  · exact h
  · exact h
  · exact mix_sweepStep _ h
  · exact h
theorem mix_writeNR10 (s : Square) (v : Nat) : SqMix s → SqMix (s.writeNR10 v) := by mix_tac [SqMix, writeNR10]
theorem mix_writeNRx2 (s : Square) (v : Nat) (hv : v < 256) : SqMix s → SqMix (s.writeNRx2 v) := by
  mix_tac [SqMix, writeNRx2]
theorem mix_writeNR13 (s : Square) (v : Nat) : SqMix s → SqMix (s.writeNR13 v) := by mix_tac [SqMix, writeNR13]
theorem mix_writeNR23 (s : Square) (v : Nat) : SqMix s → SqMix (s.writeNR23 v) := by mix_tac [SqMix, writeNR23]
theorem mix_setFreqHi (s : Square) (v : Nat) : SqMix s → SqMix (s.setFreqHi v) := by mix_tac [SqMix, setFreqHi]
theorem mix_extraLenClock (s : Square) (fs : Nat) (le t : Bool) : SqMix s → SqMix (s.extraLenClock fs le t) := by
  mix_tac [SqMix, extraLenClock]
theorem mix_trigLenClock (s : Square) (fs : Nat) (le : Bool) : SqMix s → SqMix (s.trigLenClock fs le) := by
  mix_tac [SqMix, trigLenClock]
theorem mix_trigPart (s : Square) (fs : Nat) (le t : Bool) (h : SqMix s) : SqMix (s.trigPart fs le t) := by
  unfold trigPart; split
  · exact mix_trigLenClock _ _ _ (mix_trigger _ h)
  · exact h
theorem mix_setLE (s : Square) (le : Bool) : SqMix s → SqMix (s.setLE le) := by mix_tac [SqMix, setLE]
theorem mix_writeNRx4 (s : Square) (fs v : Nat) (h : SqMix s) : SqMix (s.writeNRx4 fs v) :=
  mix_setLE _ _ (mix_trigPart _ _ _ _ (mix_extraLenClock _ _ _ _ (mix_setFreqHi _ _ h)))
end Square

theorem mix_sqWriteNRx1 (on : Bool) (s : Square) (v : Nat) (hv : v < 256) : SqMix s → SqMix (Apu.sqWriteNRx1 on s v) := by
  mix_tac [SqMix, Apu.sqWriteNRx1]

namespace Noise
theorem mix_trigger (n : Noise) : NsMix n → NsMix n.trigger := by mix_tac [NsMix, trigger]
theorem mix_tickTimer (n : Noise) : NsMix n → NsMix n.tickTimer := by mix_tac [NsMix, tickTimer]
theorem mix_tickLength (n : Noise) : NsMix n → NsMix n.tickLength := by mix_tac [NsMix, tickLength]
theorem mix_tickVolumeEnvelope (n : Noise) : NsMix n → NsMix n.tickVolumeEnvelope := by
  mix_tac [NsMix, tickVolumeEnvelope]
theorem mix_writeNR41 (n : Noise) (v : Nat) : NsMix n → NsMix (n.writeNR41 v) := by mix_tac [NsMix, writeNR41]
theorem mix_writeNR42 (n : Noise) (v : Nat) (hv : v < 256) : NsMix n → NsMix (n.writeNR42 v) := by
  mix_tac [NsMix, writeNR42]
theorem mix_writeNR43 (n : Noise) (v : Nat) : NsMix n → NsMix (n.writeNR43 v) := by mix_tac [NsMix, writeNR43]
theorem mix_extraLenClock (n : Noise) (fs : Nat) (le t : Bool) : NsMix n → NsMix (n.extraLenClock fs le t) := by
  mix_tac [NsMix, extraLenClock]
theorem mix_trigLenClock (n : Noise) (fs : Nat) (le : Bool) : NsMix n → NsMix (n.trigLenClock fs le) := by
  mix_tac [NsMix, trigLenClock]
theorem mix_trigPart (n : Noise) (fs : Nat) (le t : Bool) (h : NsMix n) : NsMix (n.trigPart fs le t) := by
  unfold trigPart; split
  · exact mix_trigLenClock _ _ _ (mix_trigger _ h)
  · exact h
theorem mix_setLE (n : Noise) (le : Bool) : NsMix n → NsMix (n.setLE le) := by mix_tac [NsMix, setLE]
theorem mix_writeNR44 (n : Noise) (fs v : Nat) (h : NsMix n) : NsMix (n.writeNR44 fs v) :=
  mix_setLE _ _ (mix_trigPart _ _ _ _ (mix_extraLenClock _ _ _ _ h))
end Noise

/-! wave RAM -/

theorem ramGet_ramSet (r : WaveRam) (i v j : Nat) :
    ramGet (ramSet r i v) j = if i = j ∧ i < 16 then v else ramGet r j := by
  unfold ramGet ramSet
  by_cases hi : i < 16
  · by_cases hj : j < 16
    · simp only [hi, hj, dite_true, and_true, Vector.getElem_set]
    · simp only [hi, hj, dite_true, dite_false, and_true]
      have : ¬ i = j := by omega
      rw [if_neg this]
  · simp only [hi, dite_false, and_false, if_false]

theorem ramOk_ramSet (r : WaveRam) (i v : Nat) (hv : v < 256) (h : RamOk r) : RamOk (ramSet r i v) := by
  intro j; rw [ramGet_ramSet]; split
  · exact hv
  · exact h j

theorem ramOk_ramCopy4 (r : WaveRam) (b : Nat) (h : RamOk r) : RamOk (ramCopy4 r b) := by
  unfold ramCopy4
  exact ramOk_ramSet _ _ _ (h _) (ramOk_ramSet _ _ _ (h _) (ramOk_ramSet _ _ _ (h _) (ramOk_ramSet _ _ _ (h _) h)))

theorem ramOk_corruptRam (r : WaveRam) (p : Nat) (h : RamOk r) : RamOk (corruptRam r p) := by
  unfold corruptRam; repeat' split
  · exact ramOk_ramSet _ _ _ (h _) h
  · exact ramOk_ramCopy4 _ _ h
  · exact ramOk_ramCopy4 _ _ h
  · exact ramOk_ramCopy4 _ _ h

theorem fetch_le (r : WaveRam) (p : Nat) (h : RamOk r) : Wave.fetch r p ≤ 15 := by
  unfold Wave.fetch; have := h (p / 2); split <;> omega

namespace Wave
theorem mix_trigHead (w : Wave) (h : WvMix w) : WvMix w.trigHead := by
  unfold trigHead; repeat' split
  · exact ⟨h.1, ramOk_corruptRam _ _ h.2⟩
  · exact h
  · exact h
theorem mix_trigBody (w : Wave) (h : WvMix w) : WvMix w.trigBody := h
theorem mix_trigger (w : Wave) (h : WvMix w) : WvMix w.trigger := mix_trigBody _ (mix_trigHead _ h)
theorem mix_tickTimer (w : Wave) (h : WvMix w) : WvMix w.tickTimer := by
  unfold tickTimer; repeat' split
  · exact h
  · exact ⟨fetch_le _ _ h.2, h.2⟩
  · exact ⟨h.1, h.2⟩
theorem mix_tickLength (w : Wave) (h : WvMix w) : WvMix w.tickLength := by
  unfold tickLength; repeat' split
  all_goals exact ⟨h.1, h.2⟩
theorem mix_writeNR30 (w : Wave) (v : Nat) (h : WvMix w) : WvMix (w.writeNR30 v) := h
theorem mix_writeNR31 (w : Wave) (v : Nat) (h : WvMix w) : WvMix (w.writeNR31 v) := h
theorem mix_writeNR32 (w : Wave) (v : Nat) (h : WvMix w) : WvMix (w.writeNR32 v) := h
theorem mix_writeNR33 (w : Wave) (v : Nat) (h : WvMix w) : WvMix (w.writeNR33 v) := h
theorem mix_setFreqHi (w : Wave) (v : Nat) (h : WvMix w) : WvMix (w.setFreqHi v) := h
theorem mix_extraLenClock (w : Wave) (fs : Nat) (le t : Bool) (h : WvMix w) : WvMix (w.extraLenClock fs le t) := by
  unfold extraLenClock; split
  all_goals exact ⟨h.1, h.2⟩
theorem mix_trigLenClock (w : Wave) (fs : Nat) (le : Bool) (h : WvMix w) : WvMix (w.trigLenClock fs le) := by
  unfold trigLenClock; split
  all_goals exact ⟨h.1, h.2⟩
theorem mix_trigPart (w : Wave) (fs : Nat) (le t : Bool) (h : WvMix w) : WvMix (w.trigPart fs le t) := by
  unfold trigPart; split
  · exact mix_trigLenClock _ _ _ (mix_trigger _ h)
  · exact h
theorem mix_setLE (w : Wave) (le : Bool) (h : WvMix w) : WvMix (w.setLE le) := h
theorem mix_writeNR34 (w : Wave) (fs v : Nat) (h : WvMix w) : WvMix (w.writeNR34 fs v) :=
  mix_setLE _ _ (mix_trigPart _ _ _ _ (mix_extraLenClock _ _ _ _ (mix_setFreqHi _ _ h)))
theorem mix_writeRam (w : Wave) (i v : Nat) (hv : v < 256) (h : WvMix w) : WvMix (w.writeRam i v) := by
  unfold writeRam; repeat' split
  · exact ⟨h.1, ramOk_ramSet _ _ _ hv h.2⟩
  · exact h
  · exact ⟨h.1, ramOk_ramSet _ _ _ hv h.2⟩
end Wave

/-- the range invariant of the whole APU -/
structure MixOk (a : Apu) : Prop where
  c1 : SqMix a.ch1
  c2 : SqMix a.ch2
  c3 : WvMix a.ch3
  c4 : NsMix a.ch4
  vl : a.control.volumeLeft ≤ 7
  vr : a.control.volumeRight ≤ 7

namespace Apu

theorem mix_tickTimer {a : Apu} (h : MixOk a) : MixOk a.tickTimer := by
  unfold tickTimer
  refine ⟨?_, ?_, ?_, ?_, h.vl, h.vr⟩
  · show SqMix (if _ then _ else _); split; exact Square.mix_tickTimer _ h.c1; exact h.c1
  · show SqMix (if _ then _ else _); split; exact Square.mix_tickTimer _ h.c2; exact h.c2
  · show WvMix (if _ then _ else _); split; exact Wave.mix_tickTimer _ h.c3; exact h.c3
  · show NsMix (if _ then _ else _); split; exact Noise.mix_tickTimer _ h.c4; exact h.c4

theorem mix_lenPart {a : Apu} (h : MixOk a) : MixOk a.lenPart := by
  unfold lenPart; split
  · exact ⟨Square.mix_tickLength _ h.c1, Square.mix_tickLength _ h.c2, Wave.mix_tickLength _ h.c3,
      Noise.mix_tickLength _ h.c4, h.vl, h.vr⟩
  · exact h

theorem mix_envPart {a : Apu} (h : MixOk a) : MixOk a.envPart := by
  unfold envPart; split
  · exact ⟨Square.mix_tickVolumeEnvelope _ h.c1, Square.mix_tickVolumeEnvelope _ h.c2, h.c3,
      Noise.mix_tickVolumeEnvelope _ h.c4, h.vl, h.vr⟩
  · exact h

theorem mix_sweepPart {a : Apu} (h : MixOk a) : MixOk a.sweepPart := by
  unfold sweepPart; split
  · exact ⟨Square.mix_tickSweep _ h.c1, h.c2, h.c3, h.c4, h.vl, h.vr⟩
  · exact h

theorem mix_incFs {a : Apu} (h : MixOk a) : MixOk a.incFs := ⟨h.c1, h.c2, h.c3, h.c4, h.vl, h.vr⟩
theorem mix_incTicks {a : Apu} (h : MixOk a) : MixOk a.incTicks := ⟨h.c1, h.c2, h.c3, h.c4, h.vl, h.vr⟩
theorem mix_wrapFs {a : Apu} (h : MixOk a) : MixOk a.wrapFs := by
  unfold wrapFs; split
  · exact ⟨h.c1, h.c2, h.c3, h.c4, h.vl, h.vr⟩
  · exact h
theorem mix_frameSeqPart {a : Apu} (h : MixOk a) : MixOk a.frameSeqPart := by
  unfold frameSeqPart; split
  · exact mix_wrapFs (mix_incFs (mix_sweepPart (mix_envPart (mix_lenPart h))))
  · exact h
theorem mix_takeSample {a : Apu} (h : MixOk a) : MixOk a.takeSample := by
  unfold takeSample; repeat' split
  all_goals exact ⟨h.c1, h.c2, h.c3, h.c4, h.vl, h.vr⟩
theorem mix_samplerPart {a : Apu} (h : MixOk a) : MixOk a.samplerPart := by
  unfold samplerPart; split
  · exact mix_takeSample h
  · exact h
theorem mix_tickClock {a : Apu} (h : MixOk a) : MixOk a.tickClock :=
  mix_incTicks (mix_samplerPart (mix_frameSeqPart (mix_tickTimer h)))
theorem mix_clearTriggered {a : Apu} (h : MixOk a) : MixOk a.clearTriggered := ⟨h.c1, h.c2, h.c3, h.c4, h.vl, h.vr⟩
theorem mix_endMachineCycle {a : Apu} (h : MixOk a) : MixOk a.endMachineCycle :=
  mix_clearTriggered (mix_tickClock (mix_tickClock (mix_tickClock (mix_tickClock h))))

/-! writes -/

private theorem ctl50 (c : Control) (v : Nat) : (ctlWriteNR50 c v).volumeLeft ≤ 7 ∧ (ctlWriteNR50 c v).volumeRight ≤ 7 := by
  simp only [ctlWriteNR50]; omega
private theorem ctl51 (c : Control) (v : Nat) :
    (ctlWriteNR51 c v).volumeLeft = c.volumeLeft ∧ (ctlWriteNR51 c v).volumeRight = c.volumeRight := ⟨rfl, rfl⟩

theorem mix_setOn {a : Apu} (b : Bool) (h : MixOk a) : MixOk (a.setOn b) := ⟨h.c1, h.c2, h.c3, h.c4, h.vl, h.vr⟩
theorem mix_clearDuties {a : Apu} (h : MixOk a) : MixOk a.clearDuties :=
  ⟨⟨h.c1.1, h.c1.2.1, by show 0 < 4; omega, h.c1.2.2.2⟩, ⟨h.c2.1, h.c2.2.1, by show 0 < 4; omega, h.c2.2.2.2⟩, h.c3, h.c4, h.vl, h.vr⟩

theorem mix_writeNR10 {a : Apu} (v : Nat) (h : MixOk a) : MixOk (a.writeNR10 v) := by
  unfold writeNR10; split
  · exact h
  · exact ⟨Square.mix_writeNR10 _ _ h.c1, h.c2, h.c3, h.c4, h.vl, h.vr⟩
theorem mix_writeNR11 {a : Apu} (v : Nat) (hv : v < 256) (h : MixOk a) : MixOk (a.writeNR11 v) :=
  ⟨mix_sqWriteNRx1 _ _ _ hv h.c1, h.c2, h.c3, h.c4, h.vl, h.vr⟩
theorem mix_writeNR12 {a : Apu} (v : Nat) (hv : v < 256) (h : MixOk a) : MixOk (a.writeNR12 v) := by
  unfold writeNR12; split
  · exact h
  · exact ⟨Square.mix_writeNRx2 _ _ hv h.c1, h.c2, h.c3, h.c4, h.vl, h.vr⟩
theorem mix_writeNR13 {a : Apu} (v : Nat) (h : MixOk a) : MixOk (a.writeNR13 v) := by
  unfold writeNR13; split
  · exact h
  · exact ⟨Square.mix_writeNR13 _ _ h.c1, h.c2, h.c3, h.c4, h.vl, h.vr⟩
theorem mix_writeNR14 {a : Apu} (v : Nat) (h : MixOk a) : MixOk (a.writeNR14 v) := by
  unfold writeNR14; split
  · exact h
  · exact ⟨Square.mix_writeNRx4 _ _ _ h.c1, h.c2, h.c3, h.c4, h.vl, h.vr⟩
theorem mix_writeNR21 {a : Apu} (v : Nat) (hv : v < 256) (h : MixOk a) : MixOk (a.writeNR21 v) :=
  ⟨h.c1, mix_sqWriteNRx1 _ _ _ hv h.c2, h.c3, h.c4, h.vl, h.vr⟩
theorem mix_writeNR22 {a : Apu} (v : Nat) (hv : v < 256) (h : MixOk a) : MixOk (a.writeNR22 v) := by
  unfold writeNR22; split
  · exact h
  · exact ⟨h.c1, Square.mix_writeNRx2 _ _ hv h.c2, h.c3, h.c4, h.vl, h.vr⟩
theorem mix_writeNR23 {a : Apu} (v : Nat) (h : MixOk a) : MixOk (a.writeNR23 v) := by
  unfold writeNR23; split
  · exact h
  · exact ⟨h.c1, Square.mix_writeNR23 _ _ h.c2, h.c3, h.c4, h.vl, h.vr⟩
theorem mix_writeNR24 {a : Apu} (v : Nat) (h : MixOk a) : MixOk (a.writeNR24 v) := by
  unfold writeNR24; split
  · exact h
  · exact ⟨h.c1, Square.mix_writeNRx4 _ _ _ h.c2, h.c3, h.c4, h.vl, h.vr⟩
theorem mix_writeNR30 {a : Apu} (v : Nat) (h : MixOk a) : MixOk (a.writeNR30 v) := by
  unfold writeNR30; split
  · exact h
  · exact ⟨h.c1, h.c2, Wave.mix_writeNR30 _ _ h.c3, h.c4, h.vl, h.vr⟩
theorem mix_writeNR31 {a : Apu} (v : Nat) (h : MixOk a) : MixOk (a.writeNR31 v) :=
  ⟨h.c1, h.c2, Wave.mix_writeNR31 _ _ h.c3, h.c4, h.vl, h.vr⟩
theorem mix_writeNR32 {a : Apu} (v : Nat) (h : MixOk a) : MixOk (a.writeNR32 v) := by
  unfold writeNR32; split
  · exact h
  · exact ⟨h.c1, h.c2, Wave.mix_writeNR32 _ _ h.c3, h.c4, h.vl, h.vr⟩
theorem mix_writeNR33 {a : Apu} (v : Nat) (h : MixOk a) : MixOk (a.writeNR33 v) := by
  unfold writeNR33; split
  · exact h
  · exact ⟨h.c1, h.c2, Wave.mix_writeNR33 _ _ h.c3, h.c4, h.vl, h.vr⟩
theorem mix_writeNR34 {a : Apu} (v : Nat) (h : MixOk a) : MixOk (a.writeNR34 v) := by
  unfold writeNR34; split
  · exact h
  · exact ⟨h.c1, h.c2, Wave.mix_writeNR34 _ _ _ h.c3, h.c4, h.vl, h.vr⟩
theorem mix_writeNR41 {a : Apu} (v : Nat) (h : MixOk a) : MixOk (a.writeNR41 v) :=
  ⟨h.c1, h.c2, h.c3, Noise.mix_writeNR41 _ _ h.c4, h.vl, h.vr⟩
theorem mix_writeNR42 {a : Apu} (v : Nat) (hv : v < 256) (h : MixOk a) : MixOk (a.writeNR42 v) := by
  unfold writeNR42; split
  · exact h
  · exact ⟨h.c1, h.c2, h.c3, Noise.mix_writeNR42 _ _ hv h.c4, h.vl, h.vr⟩
theorem mix_writeNR43 {a : Apu} (v : Nat) (h : MixOk a) : MixOk (a.writeNR43 v) := by
  unfold writeNR43; split
  · exact h
  · exact ⟨h.c1, h.c2, h.c3, Noise.mix_writeNR43 _ _ h.c4, h.vl, h.vr⟩
theorem mix_writeNR44 {a : Apu} (v : Nat) (h : MixOk a) : MixOk (a.writeNR44 v) := by
  unfold writeNR44; split
  · exact h
  · exact ⟨h.c1, h.c2, h.c3, Noise.mix_writeNR44 _ _ _ h.c4, h.vl, h.vr⟩
theorem mix_writeNR50 {a : Apu} (v : Nat) (h : MixOk a) : MixOk (a.writeNR50 v) := by
  unfold writeNR50; split
  · exact h
  · exact ⟨h.c1, h.c2, h.c3, h.c4, (ctl50 _ v).1, (ctl50 _ v).2⟩
theorem mix_writeNR51 {a : Apu} (v : Nat) (h : MixOk a) : MixOk (a.writeNR51 v) := by
  unfold writeNR51; split
  · exact h
  · exact ⟨h.c1, h.c2, h.c3, h.c4, h.vl, h.vr⟩

theorem mix_powerOff {a : Apu} (h : MixOk a) : MixOk a.powerOff := by
  unfold powerOff
  have d : (0 : Nat) < 256 := by decide
  have h0 := mix_setOn true h
  have h1 := mix_writeNR10 0 h0
  have h2 := mix_writeNR12 0 d h1
  have h3 := mix_writeNR13 0 h2
  have h4 := mix_writeNR14 0 h3
  have h5 := mix_writeNR22 0 d h4
  have h6 := mix_writeNR23 0 h5
  have h7 := mix_writeNR24 0 h6
  have h8 := mix_writeNR30 0 h7
  have h9 := mix_writeNR32 0 h8
  have h10 := mix_writeNR33 0 h9
  have h11 := mix_writeNR34 0 h10
  have h12 := mix_writeNR42 0 d h11
  have h13 := mix_writeNR43 0 h12
  have h14 := mix_writeNR44 0 h13
  have h15 := mix_writeNR50 0 h14
  have h16 := mix_writeNR51 0 h15
  exact mix_setOn false (mix_clearDuties h16)

theorem mix_powerOn {a : Apu} (h : MixOk a) : MixOk a.powerOn := by
  unfold powerOn; split
  · exact ⟨h.c1, h.c2, h.c3, h.c4, h.vl, h.vr⟩
  · exact mix_setOn _ h

theorem mix_writeNR52 {a : Apu} (v : Nat) (h : MixOk a) : MixOk (a.writeNR52 v) := by
  unfold writeNR52; split
  · exact mix_powerOff h
  · exact mix_powerOn h

theorem mix_writeWaveRAM {a : Apu} (i v : Nat) (hv : v < 256) (h : MixOk a) : MixOk (a.writeWaveRAM i v) :=
  ⟨h.c1, h.c2, Wave.mix_writeRam _ _ _ hv h.c3, h.c4, h.vl, h.vr⟩

/-- every bus write with a byte value keeps the range invariant -/
theorem mix_writeB {a : Apu} (addr v : Nat) (hv : v < 256) (h : MixOk a) : MixOk (a.writeB addr v) := by
  rcases addr_cases addr with e|e|e|e|e|e|e|e|e|e|e|e|e|e|e|e|e|e|e|e|e|⟨hn, h52⟩
  · subst e; rw [writeB_FF10]; exact mix_writeNR10 _ h
  · subst e; rw [writeB_FF11]; exact mix_writeNR11 _ hv h
  · subst e; rw [writeB_FF12]; exact mix_writeNR12 _ hv h
  · subst e; rw [writeB_FF13]; exact mix_writeNR13 _ h
  · subst e; rw [writeB_FF14]; exact mix_writeNR14 _ h
  · subst e; rw [writeB_FF16]; exact mix_writeNR21 _ hv h
  · subst e; rw [writeB_FF17]; exact mix_writeNR22 _ hv h
  · subst e; rw [writeB_FF18]; exact mix_writeNR23 _ h
  · subst e; rw [writeB_FF19]; exact mix_writeNR24 _ h
  · subst e; rw [writeB_FF1A]; exact mix_writeNR30 _ h
  · subst e; rw [writeB_FF1B]; exact mix_writeNR31 _ h
  · subst e; rw [writeB_FF1C]; exact mix_writeNR32 _ h
  · subst e; rw [writeB_FF1D]; exact mix_writeNR33 _ h
  · subst e; rw [writeB_FF1E]; exact mix_writeNR34 _ h
  · subst e; rw [writeB_FF20]; exact mix_writeNR41 _ h
  · subst e; rw [writeB_FF21]; exact mix_writeNR42 _ hv h
  · subst e; rw [writeB_FF22]; exact mix_writeNR43 _ h
  · subst e; rw [writeB_FF23]; exact mix_writeNR44 _ h
  · subst e; rw [writeB_FF24]; exact mix_writeNR50 _ h
  · subst e; rw [writeB_FF25]; exact mix_writeNR51 _ h
  · subst e; rw [writeB_FF26]; exact mix_writeNR52 _ h
  · rw [writeB_other _ _ _ hn h52]
    repeat' split
    all_goals first | exact h | exact mix_writeWaveRAM _ _ hv h

theorem mix_step {a : Apu} (op : Op) (h : MixOk a) : MixOk (a.step op) := by
  cases op with
  | write ad v => exact mix_writeB ad (v % 256) (Nat.mod_lt _ (by decide)) h
  | cycle => exact mix_endMachineCycle h

theorem mix_run {a : Apu} (ops : List Op) (h : MixOk a) : MixOk (a.run ops) := by
  induction ops generalizing a with
  | nil => exact h
  | cons op ops ih => exact ih (mix_step op h)

theorem ramOk_init : RamOk initWaveRam := by
  have key : ∀ i : Fin 16, initWaveRam[i.val] < 256 := by decide
  intro i; unfold ramGet; split
  · rename_i hi; exact key ⟨i, hi⟩
  · omega

theorem mix_new0 (hl hr : Bool) : MixOk (new0 hl hr) := by
  refine ⟨⟨?_, ?_, ?_, ?_⟩, ⟨?_, ?_, ?_, ?_⟩, ⟨?_, ramOk_init⟩, ⟨?_, ?_⟩, ?_, ?_⟩
  all_goals first | (show (0 : Nat) ≤ _; omega) | (show (0 : Nat) < _; omega)

theorem mix_new (hl hr : Bool) : MixOk (Apu.new hl hr) := by
  unfold Apu.new
  have h0 := mix_new0 hl hr
  have h1 := mix_writeNR10 0x80 h0
  have h2 := mix_writeNR11 0xbf (by decide) h1
  have h3 := mix_writeNR12 0xf3 (by decide) h2
  have h4 := mix_writeNR13 0xff h3
  have h5 := mix_writeNR14 0xbf h4
  have h6 := mix_writeNR21 0x3f (by decide) h5
  have h7 := mix_writeNR23 0xff h6
  have h8 := mix_writeNR24 0xbf h7
  have h9 := mix_writeNR30 0x7f h8
  have h10 := mix_writeNR31 0xff h9
  have h11 := mix_writeNR32 0x9f h10
  have h12 := mix_writeNR33 0xff h11
  have h13 := mix_writeNR34 0xbf h12
  have h14 := mix_writeNR41 0xff h13
  have h15 := mix_writeNR44 0xbf h14
  have h16 := mix_writeNR50 0x77 h15
  have h17 := mix_writeNR51 0xf3 h16
  exact mix_writeNR52 0xf1 h17

end Apu
end Tetro.Model.Apu
