import Tetro.Proofs.C20
import Tetro.Lemmas.ApuLa
/-
The APU-side "never panics" invariant.

The APU model has two sticky panic flags: `Apu.crash` (the `waveduty[duty][dutyIndex]` index of `takeSample`) and
`Wave.crash` (a wave-RAM index: the position fetch of `tickTimer`, and the index of a wave-RAM WRITE – the
last-accessed byte while the channel runs, `addr - 0xff30` otherwise).  A wave-RAM READ with a bad index is the
`none` of `Apu.read`.

`ApuOk a` = the range invariant of C20 (`MixOk`: duty < 4, dutyIndex < 8, …) ∧ both flags clear ∧ the wave
channel's last-accessed index < 16.  It is preserved by `Apu.write` (ANY address, ANY value), by
`Apu.endMachineCycle`, and `Apu.read` returns a value at ANY address; it holds after `audio.New`.
-/
namespace Tetro.ApuOk
open Tetro.Model.Apu Tetro.ApuLa

/-! ### the wave channel's flag -/

theorem w_extraLenClock (w : Wave) (fs : Nat) (le t : Bool) : (w.extraLenClock fs le t).crash = w.crash := by
  unfold Wave.extraLenClock; split <;> rfl
theorem w_trigLenClock (w : Wave) (fs : Nat) (le : Bool) : (w.trigLenClock fs le).crash = w.crash := by
  unfold Wave.trigLenClock; split <;> rfl
theorem w_trigHead (w : Wave) : w.trigHead.crash = w.crash := by
  unfold Wave.trigHead; repeat' split
  all_goals rfl
theorem w_trigger (w : Wave) : w.trigger.crash = w.crash := by
  unfold Wave.trigger
  show (Wave.trigBody w.trigHead).crash = _
  unfold Wave.trigBody
  exact w_trigHead w
theorem w_trigPart (w : Wave) (fs : Nat) (le t : Bool) : (w.trigPart fs le t).crash = w.crash := by
  unfold Wave.trigPart; split
  · rw [w_trigLenClock, w_trigger]
  · rfl
theorem w_writeNR34 (w : Wave) (fs v : Nat) : (w.writeNR34 fs v).crash = w.crash := by
  unfold Wave.writeNR34 Wave.setLE
  show (Wave.trigPart _ _ _ _).crash = _
  rw [w_trigPart, w_extraLenClock]; rfl
theorem w_tickLength (w : Wave) : w.tickLength.crash = w.crash := by
  unfold Wave.tickLength; repeat' split
  all_goals rfl

theorem nextPos_lt (p : Nat) : Wave.nextPos p / 2 < 16 := by
  unfold Wave.nextPos inc8; split <;> omega

/-- the position fetch of `tickTimer` is always inside wave RAM (`nextPos < 32`) -/
theorem w_tickTimer (w : Wave) : w.tickTimer.crash = w.crash := by
  unfold Wave.tickTimer
  repeat' split
  · rfl
  · show (w.crash || decide (16 ≤ Wave.nextPos w.position / 2)) = w.crash
    have := nextPos_lt w.position
    have e : decide (16 ≤ Wave.nextPos w.position / 2) = false := by
      rw [decide_eq_false_iff_not]; omega
    rw [e, Bool.or_false]
  · rfl

/-- a wave-RAM write with offset < 16 does not panic when the last-accessed index is < 16 -/
theorem w_writeRam (w : Wave) (i v : Nat) (hi : i < 16) (hla : w.lastAccessed < 16) :
    (w.writeRam i v).crash = w.crash := by
  unfold Wave.writeRam
  repeat' split
  · show (w.crash || decide (16 ≤ w.lastAccessed)) = w.crash
    have e : decide (16 ≤ w.lastAccessed) = false := by rw [decide_eq_false_iff_not]; omega
    rw [e, Bool.or_false]
  · rfl
  · show (w.crash || decide (16 ≤ i)) = w.crash
    have e : decide (16 ≤ i) = false := by rw [decide_eq_false_iff_not]; omega
    rw [e, Bool.or_false]

def wc (a : Apu) : Bool := a.ch3.crash

open Apu

theorem wc_writeNR10 (a : Apu) (v : Nat) : wc (a.writeNR10 v) = wc a := by unfold writeNR10; (try split) <;> rfl
theorem wc_writeNR11 (a : Apu) (v : Nat) : wc (a.writeNR11 v) = wc a := by unfold writeNR11; (try split) <;> rfl
theorem wc_writeNR12 (a : Apu) (v : Nat) : wc (a.writeNR12 v) = wc a := by unfold writeNR12; (try split) <;> rfl
theorem wc_writeNR13 (a : Apu) (v : Nat) : wc (a.writeNR13 v) = wc a := by unfold writeNR13; (try split) <;> rfl
theorem wc_writeNR14 (a : Apu) (v : Nat) : wc (a.writeNR14 v) = wc a := by unfold writeNR14; (try split) <;> rfl
theorem wc_writeNR21 (a : Apu) (v : Nat) : wc (a.writeNR21 v) = wc a := by unfold writeNR21; (try split) <;> rfl
theorem wc_writeNR22 (a : Apu) (v : Nat) : wc (a.writeNR22 v) = wc a := by unfold writeNR22; (try split) <;> rfl
theorem wc_writeNR23 (a : Apu) (v : Nat) : wc (a.writeNR23 v) = wc a := by unfold writeNR23; (try split) <;> rfl
theorem wc_writeNR24 (a : Apu) (v : Nat) : wc (a.writeNR24 v) = wc a := by unfold writeNR24; (try split) <;> rfl
theorem wc_writeNR41 (a : Apu) (v : Nat) : wc (a.writeNR41 v) = wc a := by unfold writeNR41; (try split) <;> rfl
theorem wc_writeNR42 (a : Apu) (v : Nat) : wc (a.writeNR42 v) = wc a := by unfold writeNR42; (try split) <;> rfl
theorem wc_writeNR43 (a : Apu) (v : Nat) : wc (a.writeNR43 v) = wc a := by unfold writeNR43; (try split) <;> rfl
theorem wc_writeNR44 (a : Apu) (v : Nat) : wc (a.writeNR44 v) = wc a := by unfold writeNR44; (try split) <;> rfl
theorem wc_writeNR50 (a : Apu) (v : Nat) : wc (a.writeNR50 v) = wc a := by unfold writeNR50; (try split) <;> rfl
theorem wc_writeNR51 (a : Apu) (v : Nat) : wc (a.writeNR51 v) = wc a := by unfold writeNR51; (try split) <;> rfl
theorem wc_writeNR30 (a : Apu) (v : Nat) : wc (a.writeNR30 v) = wc a := by unfold writeNR30; split <;> rfl
theorem wc_writeNR31 (a : Apu) (v : Nat) : wc (a.writeNR31 v) = wc a := rfl
theorem wc_writeNR32 (a : Apu) (v : Nat) : wc (a.writeNR32 v) = wc a := by unfold writeNR32; split <;> rfl
theorem wc_writeNR33 (a : Apu) (v : Nat) : wc (a.writeNR33 v) = wc a := by unfold writeNR33; split <;> rfl
theorem wc_writeNR34 (a : Apu) (v : Nat) : wc (a.writeNR34 v) = wc a := by
  unfold writeNR34; split
  · rfl
  · exact w_writeNR34 _ _ _
theorem wc_setOn (a : Apu) (b : Bool) : wc (a.setOn b) = wc a := rfl
theorem wc_clearDuties (a : Apu) : wc a.clearDuties = wc a := rfl
theorem wc_powerOff (a : Apu) : wc a.powerOff = wc a := by
  unfold powerOff
  rw [wc_setOn, wc_clearDuties, wc_writeNR51, wc_writeNR50, wc_writeNR44, wc_writeNR43, wc_writeNR42, wc_writeNR34,
    wc_writeNR33, wc_writeNR32, wc_writeNR30, wc_writeNR24, wc_writeNR23, wc_writeNR22, wc_writeNR14, wc_writeNR13,
    wc_writeNR12, wc_writeNR10, wc_setOn]
theorem wc_writeNR52 (a : Apu) (v : Nat) : wc (a.writeNR52 v) = wc a := by
  unfold writeNR52; split
  · exact wc_powerOff a
  · unfold powerOn; split <;> rfl
theorem wc_writeWaveRAM (a : Apu) (i v : Nat) (hi : i < 16) (hla : la a < 16) : wc (a.writeWaveRAM i v) = wc a :=
  w_writeRam _ _ _ hi hla

/-- no register or wave-RAM write, at any address with any value, sets the wave channel's panic flag when the
    last-accessed index is < 16 (the wave-RAM arm of the decoder only passes offsets 0–15) -/
theorem wc_writeB (a : Apu) (ad v : Nat) (hla : la a < 16) : wc (a.writeB ad v) = wc a := by
  unfold writeB
  simp only [apply_ite wc, wc_writeNR10, wc_writeNR11, wc_writeNR12, wc_writeNR13, wc_writeNR14, wc_writeNR21,
    wc_writeNR22, wc_writeNR23, wc_writeNR24, wc_writeNR30, wc_writeNR31, wc_writeNR32, wc_writeNR33, wc_writeNR34,
    wc_writeNR41, wc_writeNR42, wc_writeNR43, wc_writeNR44, wc_writeNR50, wc_writeNR51, wc_writeNR52]
  have e : (if ad < 0xFF30 then wc a else if ad < 0xFF40 then wc (a.writeWaveRAM (ad - 0xFF30) v) else wc a) = wc a := by
    split
    · rfl
    · split
      · exact wc_writeWaveRAM _ _ _ (by omega) hla
      · rfl
  rw [e]
  simp only [ite_self]

theorem wc_tickTimer (a : Apu) : wc a.tickTimer = wc a := by
  unfold Apu.tickTimer wc
  simp only []
  split
  · exact w_tickTimer _
  · rfl
theorem wc_lenPart (a : Apu) : wc a.lenPart = wc a := by
  unfold lenPart; split
  · exact w_tickLength _
  · rfl
theorem wc_envPart (a : Apu) : wc a.envPart = wc a := by unfold envPart; split <;> rfl
theorem wc_sweepPart (a : Apu) : wc a.sweepPart = wc a := by unfold sweepPart; split <;> rfl
theorem wc_frameSeqPart (a : Apu) : wc a.frameSeqPart = wc a := by
  unfold frameSeqPart; split
  · have e1 : ∀ b : Apu, wc b.wrapFs = wc b := fun b => by unfold wrapFs; split <;> rfl
    have e2 : ∀ b : Apu, wc b.incFs = wc b := fun _ => rfl
    rw [e1]; unfold tickFrameSequencer
    rw [e2, wc_sweepPart, wc_envPart, wc_lenPart]
  · rfl
theorem wc_samplerPart (a : Apu) : wc a.samplerPart = wc a := by
  unfold samplerPart; split
  · unfold takeSample; repeat' split
    all_goals rfl
  · rfl
theorem wc_tickClock (a : Apu) : wc a.tickClock = wc a := by
  have e : ∀ b : Apu, wc b.incTicks = wc b := fun _ => rfl
  unfold tickClock
  rw [e, wc_samplerPart, wc_frameSeqPart, wc_tickTimer]
theorem wc_cycle (a : Apu) : wc a.endMachineCycle = wc a := by
  have e : ∀ b : Apu, wc b.clearTriggered = wc b := fun _ => rfl
  unfold endMachineCycle
  rw [e, wc_tickClock, wc_tickClock, wc_tickClock, wc_tickClock]

/-! ### the mixer's flag -/

/-- with duty < 4 and dutyIndex < 8 (`MixOk`) `takeSample` does not hit the `waveduty` index panic -/
theorem crash_takeSample {a : Apu} (h : MixOk a) : a.takeSample.crash = a.crash := by
  obtain ⟨p, hp, _⟩ := Tetro.C20.c20_bound a h
  unfold takeSample
  split
  · rfl
  · rw [hp]

theorem crash_tickClock {a : Apu} (h : MixOk a) : a.tickClock.crash = a.crash := by
  have hb : MixOk a.tickTimer.frameSeqPart := mix_frameSeqPart (mix_tickTimer h)
  have hio : a.tickTimer.frameSeqPart.io = a.io := by rw [io_frameSeqPart, io_tickTimer]
  have e6 : a.tickTimer.frameSeqPart.crash = a.crash := congrArg IoView.crash hio
  show a.tickTimer.frameSeqPart.samplerPart.incTicks.crash = _
  show a.tickTimer.frameSeqPart.samplerPart.crash = _
  unfold samplerPart
  split
  · rw [crash_takeSample hb, e6]
  · exact e6

theorem crash_cycle {a : Apu} (h : MixOk a) : a.endMachineCycle.crash = a.crash := by
  have h1 := mix_tickClock h
  have h2 := mix_tickClock h1
  have h3 := mix_tickClock h2
  have e : a.endMachineCycle.crash = a.tickClock.tickClock.tickClock.tickClock.crash :=
    (Apu.io_fields (io_endMachineCycle a)).2.2.2.2.2
  rw [e, crash_tickClock h3, crash_tickClock h2, crash_tickClock h1, crash_tickClock h]

/-! ### the invariant -/

/-- the APU invariant: the ranges of C20, both panic flags clear, last-accessed wave index in range -/
structure ApuOk (a : Apu) : Prop where
  mix   : MixOk a
  alive : a.crash = false
  wave  : a.ch3.crash = false
  la    : a.ch3.lastAccessed < 16

theorem ApuOk.not_crashed {a : Apu} (h : ApuOk a) : a.crashed = false := by
  unfold Apu.crashed; rw [h.alive, h.wave]; rfl

/-- a bus write to the APU – ANY address, ANY value – keeps the invariant -/
theorem write_ok (a : Apu) (ad v : Nat) (h : ApuOk a) : ApuOk (a.write ad v) := by
  refine ⟨mix_writeB ad (v % 256) (Nat.mod_lt _ (by decide)) h.mix, ?_, ?_, ?_⟩
  · have e := att_writeB a ad (v % 256)
    have ec : (a.writeB ad (v % 256)).crash = a.crash := congrArg (fun x => x.2.2.1) e
    exact ec.trans h.alive
  · exact (wc_writeB a ad (v % 256) h.la).trans h.wave
  · show la (a.write ad v) < 16
    rw [la_write]; exact h.la

/-- `audio.EndMachineCycle` keeps the invariant -/
theorem cycle_ok (a : Apu) (h : ApuOk a) : ApuOk a.endMachineCycle :=
  ⟨mix_endMachineCycle h.mix, (crash_cycle h.mix).trans h.alive, (wc_cycle a).trans h.wave, la_cycle a h.la⟩

/-- a bus read from the APU – ANY address – returns a value -/
theorem read_ok (a : Apu) (ad : Nat) (h : ApuOk a) : ∃ v, a.read ad = some v := by
  by_cases hhi : ad < 0xFF40
  · exact read_some a ad h.la hhi
  · refine ⟨0xff, ?_⟩
    unfold Apu.read
    repeat (rw [if_neg (by omega)])

/-- the state after `audio.New` satisfies the invariant (outputs attached or not) -/
theorem new_ok (hl hr : Bool) : ApuOk (Apu.new hl hr) := by
  refine ⟨mix_new hl hr, ?_, ?_, ?_⟩ <;> cases hl <;> cases hr <;> decide

theorem step_ok (a : Apu) (op : Op) (h : ApuOk a) : ApuOk (a.step op) := by
  cases op with
  | write ad v => exact write_ok a ad v h
  | cycle => exact cycle_ok a h

/-- after ANY history of bus writes and machine cycles neither panic flag is set -/
theorem run_ok (ops : List Op) : ∀ (a : Apu), ApuOk a → ApuOk (a.run ops) := by
  induction ops with
  | nil => intro a h; exact h
  | cons op ops ih => intro a h; exact ih _ (step_ok a op h)

end Tetro.ApuOk
