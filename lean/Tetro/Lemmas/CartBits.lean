/-
Bit-level facts used by the cartridge proofs (C08–C11): masks as remainders, and small
finite facts discharged by kernel evaluation.
-/
namespace Tetro.CartBits

theorem and_01 (v : Nat) : v &&& 0x01 = v % 2 := Nat.and_two_pow_sub_one_eq_mod v 1
theorem and_03 (v : Nat) : v &&& 0x03 = v % 4 := Nat.and_two_pow_sub_one_eq_mod v 2
theorem and_0f (v : Nat) : v &&& 0x0f = v % 16 := Nat.and_two_pow_sub_one_eq_mod v 4
theorem and_1f (v : Nat) : v &&& 0x1f = v % 32 := Nat.and_two_pow_sub_one_eq_mod v 5
theorem and_3f (v : Nat) : v &&& 0x3f = v % 64 := Nat.and_two_pow_sub_one_eq_mod v 6
theorem and_7f (v : Nat) : v &&& 0x7f = v % 128 := Nat.and_two_pow_sub_one_eq_mod v 7
theorem and_ff (v : Nat) : v &&& 0xff = v % 256 := Nat.and_two_pow_sub_one_eq_mod v 8
theorem and_1ff (v : Nat) : v &&& 0x1ff = v % 512 := Nat.and_two_pow_sub_one_eq_mod v 9

theorem shl5 (v : Nat) : v <<< 5 = v * 32 := by simp [Nat.shiftLeft_eq]
theorem shl8 (v : Nat) : v <<< 8 = v * 256 := by simp [Nat.shiftLeft_eq]
theorem shr6 (v : Nat) : v >>> 6 = v / 64 := by simp [Nat.shiftRight_eq_div_pow]
theorem shr7 (v : Nat) : v >>> 7 = v / 128 := by simp [Nat.shiftRight_eq_div_pow]
theorem shr8 (v : Nat) : v >>> 8 = v / 256 := by simp [Nat.shiftRight_eq_div_pow]

/-- MBC1: `bank1 | bank2<<5` is a sum because the fields do not overlap -/
theorem or_bank12 : ∀ b1 < 32, ∀ b2 < 4, b1 ||| b2 * 32 = b2 * 32 + b1 := by decide +kernel

/-- MBC2 stores and reads `x | 0xf0` -/
theorem or_f0 : ∀ v < 256, v ||| 0xf0 = 0xf0 + v % 16 := by decide +kernel

/-- address bit 8 -/
theorem and_0100 (a : Nat) : a &&& 0x0100 = a / 256 % 2 * 256 := by
  apply Nat.eq_of_testBit_eq
  intro i
  have h100 : (0x0100 : Nat) = 2 ^ 8 := by decide
  rw [Nat.testBit_and, h100, Nat.testBit_two_pow, Nat.testBit_mul_two_pow]
  by_cases h : i = 8
  · subst h
    simp [Nat.testBit, Nat.shiftRight_eq_div_pow, Nat.one_and_eq_mod_two]
  · have : ¬ (8 = i) := fun e => h e.symm
    simp [this]
    intro h8
    apply Nat.testBit_lt_two_pow
    have h1 : 2 ^ 1 ≤ 2 ^ (i - 8) := Nat.pow_le_pow_right (by decide) (by omega)
    omega

/-- MBC5 (bank register below 512): high byte of the 16-bit register -/
theorem and_ff00_lt512 : ∀ x < 512, x &&& 0xff00 = x / 256 * 256 := by decide +kernel

end Tetro.CartBits
