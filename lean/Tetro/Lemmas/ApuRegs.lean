import Tetro.Lemmas.ApuView
import Tetro.Spec.Apu
/-
C18 helper lemmas: the simulation relation `R` between the code model and the abstract register
file of `Spec/Apu.lean`, and its preservation by every bus write and by machine cycles.
-/
namespace Tetro.C18
open Tetro.Model.Apu Tetro.Model.Apu.Apu Tetro.Spec.Apu

def swOf (r0 : Nat) : SweepView := ⟨r0 / 16 % 8, decide (r0 / 8 % 2 = 0), r0 % 8⟩
def sqOf (r1 r2 r4 : Nat) : SqView := ⟨r1 / 64, r2 / 16, decide (r2 / 8 % 2 > 0), r2 % 8, leOf r4⟩
def wvOf (r0 r2 r4 : Nat) : WaveView := ⟨decide (r0 / 128 % 2 > 0), r2 / 32 % 4, leOf r4⟩
def nsOf (r2 r3 r4 : Nat) : NoiseView := ⟨r2 / 16, decide (r2 / 8 % 2 > 0), r2 % 8, r3 / 16, r3 / 8 % 2, r3 % 8, leOf r4⟩
def ctlOf (on : Bool) (r50 r51 : Nat) : Control :=
  { on := on,
    ch1Right := decide (r51 % 2 > 0), ch2Right := decide (r51 / 2 % 2 > 0), ch3Right := decide (r51 / 4 % 2 > 0),
    ch4Right := decide (r51 / 8 % 2 > 0), ch1Left := decide (r51 / 16 % 2 > 0), ch2Left := decide (r51 / 32 % 2 > 0),
    ch3Left := decide (r51 / 64 % 2 > 0), ch4Left := decide (r51 / 128 % 2 > 0),
    vinLeftEnable := decide (r50 / 128 % 2 > 0), volumeLeft := r50 / 16 % 8,
    vinRightEnable := decide (r50 / 8 % 2 > 0), volumeRight := r50 % 8 }

structure R (a : Apu) (sp : Regs) : Prop where
  sw : a.ch1.sweepView = swOf (sp.val 0xFF10)
  c1 : a.ch1.view = sqOf (sp.val 0xFF11) (sp.val 0xFF12) (sp.val 0xFF14)
  c2 : a.ch2.view = sqOf (sp.val 0xFF16) (sp.val 0xFF17) (sp.val 0xFF19)
  c3 : a.ch3.view = wvOf (sp.val 0xFF1A) (sp.val 0xFF1C) (sp.val 0xFF1E)
  c4 : a.ch4.view = nsOf (sp.val 0xFF21) (sp.val 0xFF22) (sp.val 0xFF23)
  ctl : a.control = ctlOf sp.on (sp.val 0xFF24) (sp.val 0xFF25)
  bound : ∀ x, sp.val x < 256

theorem mask_some {addr m : Nat} (h : mask addr = some m) :
    addr = 0xFF10 ∨ addr = 0xFF11 ∨ addr = 0xFF12 ∨ addr = 0xFF13 ∨ addr = 0xFF14 ∨ addr = 0xFF16 ∨ addr = 0xFF17 ∨
    addr = 0xFF18 ∨ addr = 0xFF19 ∨ addr = 0xFF1A ∨ addr = 0xFF1B ∨ addr = 0xFF1C ∨ addr = 0xFF1D ∨ addr = 0xFF1E ∨
    addr = 0xFF20 ∨ addr = 0xFF21 ∨ addr = 0xFF22 ∨ addr = 0xFF23 ∨ addr = 0xFF24 ∨ addr = 0xFF25 := by
  simp only [mask, maskTable, List.lookup] at h
  repeat' split at h
  all_goals simp_all

theorem R.on {a : Apu} {sp : Regs} (h : R a sp) : a.control.on = sp.on := by rw [h.ctl]; rfl

theorem mask_isSome : ∀ addr ∈ [0xFF10, 0xFF11, 0xFF12, 0xFF13, 0xFF14, 0xFF16, 0xFF17, 0xFF18, 0xFF19, 0xFF1A, 0xFF1B,
    0xFF1C, 0xFF1D, 0xFF1E, 0xFF20, 0xFF21, 0xFF22, 0xFF23, 0xFF24, 0xFF25], (mask addr).isSome = true := by decide

set_option hygiene false in
macro "reg_case" W:ident : tactic => `(tactic| (
  have hon := R.on h
  unfold $W Regs.write
  cases hs : sp.on
  · have hoff : a.control.on = false := by rw [hon, hs]
    simp [hoff, NR52]
    first
      | exact h
      | (constructor <;> simp [h.sw, h.c1, h.c2, h.c3, h.c4, h.bound]
         all_goals (first | exact h.ctl | (rw [← hs]; exact h.ctl) | skip))
  · have hon' : a.control.on = true := by rw [hon, hs]
    simp [hon', NR52, mask_isSome, Nat.mod_eq_of_lt hv]
    constructor <;> simp [h.sw, h.c1, h.c2, h.c3, h.c4, swOf, sqOf, wvOf, nsOf]
    all_goals (first
      | exact h.ctl
      | (rw [← hs]; exact h.ctl)
      | (intro x; split; exact hv; exact h.bound x)
      | (rw [h.ctl]; simp [ctlWriteNR50, ctlWriteNR51, ctlOf, hs])
      | skip)))

theorem write_10 (a : Apu) (sp : Regs) (v : Nat) (hv : v < 256) (h : R a sp) :
    R (a.writeNR10 v) (sp.write 0xFF10 v) := by reg_case writeNR10
theorem write_11 (a : Apu) (sp : Regs) (v : Nat) (hv : v < 256) (h : R a sp) :
    R (a.writeNR11 v) (sp.write 0xFF11 v) := by reg_case writeNR11
theorem write_12 (a : Apu) (sp : Regs) (v : Nat) (hv : v < 256) (h : R a sp) :
    R (a.writeNR12 v) (sp.write 0xFF12 v) := by reg_case writeNR12
theorem write_13 (a : Apu) (sp : Regs) (v : Nat) (hv : v < 256) (h : R a sp) :
    R (a.writeNR13 v) (sp.write 0xFF13 v) := by reg_case writeNR13
theorem write_14 (a : Apu) (sp : Regs) (v : Nat) (hv : v < 256) (h : R a sp) :
    R (a.writeNR14 v) (sp.write 0xFF14 v) := by reg_case writeNR14
theorem write_21 (a : Apu) (sp : Regs) (v : Nat) (hv : v < 256) (h : R a sp) :
    R (a.writeNR21 v) (sp.write 0xFF16 v) := by reg_case writeNR21
theorem write_22 (a : Apu) (sp : Regs) (v : Nat) (hv : v < 256) (h : R a sp) :
    R (a.writeNR22 v) (sp.write 0xFF17 v) := by reg_case writeNR22
theorem write_23 (a : Apu) (sp : Regs) (v : Nat) (hv : v < 256) (h : R a sp) :
    R (a.writeNR23 v) (sp.write 0xFF18 v) := by reg_case writeNR23
theorem write_24 (a : Apu) (sp : Regs) (v : Nat) (hv : v < 256) (h : R a sp) :
    R (a.writeNR24 v) (sp.write 0xFF19 v) := by reg_case writeNR24
theorem write_30 (a : Apu) (sp : Regs) (v : Nat) (hv : v < 256) (h : R a sp) :
    R (a.writeNR30 v) (sp.write 0xFF1A v) := by reg_case writeNR30
theorem write_31 (a : Apu) (sp : Regs) (v : Nat) (hv : v < 256) (h : R a sp) :
    R (a.writeNR31 v) (sp.write 0xFF1B v) := by reg_case writeNR31
theorem write_32 (a : Apu) (sp : Regs) (v : Nat) (hv : v < 256) (h : R a sp) :
    R (a.writeNR32 v) (sp.write 0xFF1C v) := by reg_case writeNR32
theorem write_33 (a : Apu) (sp : Regs) (v : Nat) (hv : v < 256) (h : R a sp) :
    R (a.writeNR33 v) (sp.write 0xFF1D v) := by reg_case writeNR33
theorem write_34 (a : Apu) (sp : Regs) (v : Nat) (hv : v < 256) (h : R a sp) :
    R (a.writeNR34 v) (sp.write 0xFF1E v) := by reg_case writeNR34
theorem write_41 (a : Apu) (sp : Regs) (v : Nat) (hv : v < 256) (h : R a sp) :
    R (a.writeNR41 v) (sp.write 0xFF20 v) := by reg_case writeNR41
theorem write_42 (a : Apu) (sp : Regs) (v : Nat) (hv : v < 256) (h : R a sp) :
    R (a.writeNR42 v) (sp.write 0xFF21 v) := by reg_case writeNR42
theorem write_43 (a : Apu) (sp : Regs) (v : Nat) (hv : v < 256) (h : R a sp) :
    R (a.writeNR43 v) (sp.write 0xFF22 v) := by reg_case writeNR43
theorem write_44 (a : Apu) (sp : Regs) (v : Nat) (hv : v < 256) (h : R a sp) :
    R (a.writeNR44 v) (sp.write 0xFF23 v) := by reg_case writeNR44
theorem write_50 (a : Apu) (sp : Regs) (v : Nat) (hv : v < 256) (h : R a sp) :
    R (a.writeNR50 v) (sp.write 0xFF24 v) := by reg_case writeNR50
theorem write_51 (a : Apu) (sp : Regs) (v : Nat) (hv : v < 256) (h : R a sp) :
    R (a.writeNR51 v) (sp.write 0xFF25 v) := by reg_case writeNR51

theorem R_setOn_true {a : Apu} {sp : Regs} (h : R a sp) : R (a.setOn true) ⟨true, sp.val⟩ := by
  constructor <;> simp [h.sw, h.c1, h.c2, h.c3, h.c4, h.bound]
  rw [h.ctl]; rfl

theorem R_powerOn {a : Apu} {sp : Regs} (h : R a sp) : R a.powerOn ⟨true, sp.val⟩ := by
  unfold powerOn; split
  · exact R_setOn_true (a := { a with frameSeqTicks := 0 }) ⟨h.sw, h.c1, h.c2, h.c3, h.c4, h.ctl, h.bound⟩
  · exact R_setOn_true h

theorem R_powerOff {a : Apu} {sp : Regs} (h : R a sp) : R a.powerOff ⟨false, fun _ => 0⟩ := by
  have h0 := R_setOn_true h
  have h1 := write_10 _ _ 0 (by decide) h0
  have h2 := write_12 _ _ 0 (by decide) h1
  have h3 := write_13 _ _ 0 (by decide) h2
  have h4 := write_14 _ _ 0 (by decide) h3
  have h5 := write_22 _ _ 0 (by decide) h4
  have h6 := write_23 _ _ 0 (by decide) h5
  have h7 := write_24 _ _ 0 (by decide) h6
  have h8 := write_30 _ _ 0 (by decide) h7
  have h9 := write_32 _ _ 0 (by decide) h8
  have h10 := write_33 _ _ 0 (by decide) h9
  have h11 := write_34 _ _ 0 (by decide) h10
  have h12 := write_42 _ _ 0 (by decide) h11
  have h13 := write_43 _ _ 0 (by decide) h12
  have h14 := write_44 _ _ 0 (by decide) h13
  have h15 := write_50 _ _ 0 (by decide) h14
  have h16 := write_51 _ _ 0 (by decide) h15
  unfold powerOff
  generalize ((((((((((((((((a.setOn true).writeNR10 0).writeNR12 0).writeNR13 0).writeNR14 0).writeNR22 0).writeNR23 0).writeNR24 0).writeNR30 0).writeNR32 0).writeNR33 0).writeNR34 0).writeNR42 0).writeNR43 0).writeNR44 0).writeNR50 0).writeNR51 0 = b at h16 ⊢
  have hsw := h16.sw; have hc1 := h16.c1; have hc2 := h16.c2; have hc3 := h16.c3; have hc4 := h16.c4
  have hctl := h16.ctl
  simp [Regs.write, NR52, mask_isSome] at hsw hc1 hc2 hc3 hc4 hctl
  constructor <;> simp [hsw, hc1, hc2, hc3, hc4, swOf, sqOf, wvOf, nsOf, leOf]
  rw [hctl]; simp [ctlOf]

theorem mask_none_of_ne {addr : Nat} (h : NotReg addr) : mask addr = none := by
  obtain ⟨h1, h2, h3, h4, h5, h6, h7, h8, h9, h10, h11, h12, h13, h14, h15, h16, h17, h18, h19, h20⟩ := h
  have hb : ∀ k, addr ≠ k → (addr == k) = false := fun k hk => beq_eq_false_iff_ne.mpr hk
  simp [mask, maskTable, List.lookup, hb _ h1, hb _ h2, hb _ h3, hb _ h4, hb _ h5, hb _ h6, hb _ h7, hb _ h8, hb _ h9, hb _ h10,
    hb _ h11, hb _ h12, hb _ h13, hb _ h14, hb _ h15, hb _ h16, hb _ h17, hb _ h18, hb _ h19, hb _ h20]

theorem write_other (sp : Regs) (addr v : Nat) (hne : addr ≠ NR52) (hm : mask addr = none) :
    sp.write addr v = sp := by
  simp [Regs.write, hne, hm]

theorem R_waveRam {a : Apu} {sp : Regs} (i v : Nat) (h : R a sp) : R (a.writeWaveRAM i v) sp := by
  constructor <;> simp [writeWaveRAM, h.sw, h.c1, h.c2, h.c3, h.c4, h.bound]
  exact h.ctl

theorem R_writeNR52 {a : Apu} {sp : Regs} (v : Nat) (hv : v < 256) (h : R a sp) :
    R (a.writeNR52 v) (sp.write 0xFF26 v) := by
  unfold writeNR52 Regs.write
  simp only [NR52, if_true, Nat.mod_eq_of_lt hv]
  by_cases hlt : v < 128
  · have : v / 128 = 0 := by omega
    simp [this, hlt]; exact R_powerOff h
  · have : ¬ v / 128 = 0 := by omega
    simp [this, hlt]; exact R_powerOn h

/-- every bus write keeps the relation -/
theorem R_writeB {a : Apu} {sp : Regs} (addr v : Nat) (hv : v < 256) (h : R a sp) :
    R (a.writeB addr v) (sp.write addr v) := by
  rcases addr_cases addr with e|e|e|e|e|e|e|e|e|e|e|e|e|e|e|e|e|e|e|e|e|⟨hn, h52⟩
  · subst e; rw [writeB_FF10]; exact write_10 _ _ _ hv h
  · subst e; rw [writeB_FF11]; exact write_11 _ _ _ hv h
  · subst e; rw [writeB_FF12]; exact write_12 _ _ _ hv h
  · subst e; rw [writeB_FF13]; exact write_13 _ _ _ hv h
  · subst e; rw [writeB_FF14]; exact write_14 _ _ _ hv h
  · subst e; rw [writeB_FF16]; exact write_21 _ _ _ hv h
  · subst e; rw [writeB_FF17]; exact write_22 _ _ _ hv h
  · subst e; rw [writeB_FF18]; exact write_23 _ _ _ hv h
  · subst e; rw [writeB_FF19]; exact write_24 _ _ _ hv h
  · subst e; rw [writeB_FF1A]; exact write_30 _ _ _ hv h
  · subst e; rw [writeB_FF1B]; exact write_31 _ _ _ hv h
  · subst e; rw [writeB_FF1C]; exact write_32 _ _ _ hv h
  · subst e; rw [writeB_FF1D]; exact write_33 _ _ _ hv h
  · subst e; rw [writeB_FF1E]; exact write_34 _ _ _ hv h
  · subst e; rw [writeB_FF20]; exact write_41 _ _ _ hv h
  · subst e; rw [writeB_FF21]; exact write_42 _ _ _ hv h
  · subst e; rw [writeB_FF22]; exact write_43 _ _ _ hv h
  · subst e; rw [writeB_FF23]; exact write_44 _ _ _ hv h
  · subst e; rw [writeB_FF24]; exact write_50 _ _ _ hv h
  · subst e; rw [writeB_FF25]; exact write_51 _ _ _ hv h
  · subst e; rw [writeB_FF26]; exact R_writeNR52 _ hv h
  · rw [writeB_other _ _ _ hn h52, write_other sp addr v h52 (mask_none_of_ne hn)]
    repeat' split
    all_goals first | exact h | exact R_waveRam _ _ h

theorem R_cycle {a : Apu} {sp : Regs} (h : R a sp) : R a.endMachineCycle sp := by
  have hv := regView_endMachineCycle a
  simp only [regView, RegView.mk.injEq] at hv
  obtain ⟨e1, e2, e3, e4, e5, e6⟩ := hv
  exact ⟨e1.trans h.sw, e2.trans h.c1, e3.trans h.c2, e4.trans h.c3, e5.trans h.c4, e6.trans h.ctl, h.bound⟩
theorem ar_nr10 : ∀ r, r < 256 →
    (if (!decide (r / 8 % 2 = 0)) = true then ((0x80 ||| ((r / 16 % 8) <<< 4) % 256 ||| r % 8) + 0x08) % 256
     else 0x80 ||| ((r / 16 % 8) <<< 4) % 256 ||| r % 8) = r ||| 0x80 := by decide +kernel
theorem ar_nrx1 : ∀ r, r < 256 → 0x3f ||| ((r / 64) <<< 6) % 256 = r ||| 0x3f := by decide +kernel
theorem ar_env : ∀ r, r < 256 → envRead (r / 16) (decide (r / 8 % 2 > 0)) (r % 8) = r ||| 0x00 := by decide +kernel
theorem ar_len : ∀ r, r < 256 → lenRead (leOf r) = r ||| 0xbf := by decide +kernel
theorem ar_ff : ∀ r, r < 256 → 0xff = r ||| 0xff := by decide +kernel
theorem ar_nr30 : ∀ r, r < 256 → (if decide (r / 128 % 2 > 0) = true then 0xff else 0x7f) = r ||| 0x7f := by decide +kernel
theorem ar_nr32 : ∀ r, r < 256 → 0x9f ||| ((r / 32 % 4) <<< 5) % 256 = r ||| 0x9f := by decide +kernel
theorem ar_nr43 : ∀ r, r < 256 → ((r / 16) <<< 4) % 256 ||| ((r / 8 % 2) <<< 3) % 256 ||| r % 8 = r ||| 0x00 := by decide +kernel
theorem ar_nr50 : ∀ r, r < 256 →
    (((((r / 16 % 8) <<< 4) % 256 ||| r % 8) + bit (decide (r / 128 % 2 > 0)) 0x80) % 256 + bit (decide (r / 8 % 2 > 0)) 0x08) % 256
      = r ||| 0x00 := by decide +kernel
theorem ar_nr51 : ∀ r, r < 256 →
    (bit (decide (r / 128 % 2 > 0)) 0x80 + bit (decide (r / 64 % 2 > 0)) 0x40 + bit (decide (r / 32 % 2 > 0)) 0x20 +
     bit (decide (r / 16 % 2 > 0)) 0x10 + bit (decide (r / 8 % 2 > 0)) 0x08 + bit (decide (r / 4 % 2 > 0)) 0x04 +
     bit (decide (r / 2 % 2 > 0)) 0x02 + bit (decide (r % 2 > 0)) 0x01) % 256 = r ||| 0x00 := by decide +kernel

theorem mask_val : mask 0xFF10 = some 0x80 ∧ mask 0xFF11 = some 0x3f ∧ mask 0xFF12 = some 0 ∧ mask 0xFF13 = some 0xff ∧
    mask 0xFF14 = some 0xbf ∧ mask 0xFF16 = some 0x3f ∧ mask 0xFF17 = some 0 ∧ mask 0xFF18 = some 0xff ∧ mask 0xFF19 = some 0xbf ∧
    mask 0xFF1A = some 0x7f ∧ mask 0xFF1B = some 0xff ∧ mask 0xFF1C = some 0x9f ∧ mask 0xFF1D = some 0xff ∧ mask 0xFF1E = some 0xbf ∧
    mask 0xFF20 = some 0xff ∧ mask 0xFF21 = some 0 ∧ mask 0xFF22 = some 0 ∧ mask 0xFF23 = some 0xbf ∧ mask 0xFF24 = some 0 ∧
    mask 0xFF25 = some 0 := by decide

theorem R_read {a : Apu} {sp : Regs} (h : R a sp) (addr m : Nat) (hm : mask addr = some m) :
    a.read addr = some (sp.val addr ||| m) := by
  have hsw := h.sw; have hc1 := h.c1; have hc2 := h.c2; have hc3 := h.c3; have hc4 := h.c4; have hctl := h.ctl
  simp only [Square.sweepView, Square.view, Wave.view, Noise.view, swOf, sqOf, wvOf, nsOf, SweepView.mk.injEq,
    SqView.mk.injEq, WaveView.mk.injEq, NoiseView.mk.injEq] at hsw hc1 hc2 hc3 hc4
  obtain ⟨s1, s2, s3⟩ := hsw
  obtain ⟨a1, a2, a3, a4, a5⟩ := hc1
  obtain ⟨b1, b2, b3, b4, b5⟩ := hc2
  obtain ⟨c1, c2, c3⟩ := hc3
  obtain ⟨d1, d2, d3, d4, d5, d6, d7⟩ := hc4
  have hb := h.bound
  obtain ⟨m10, m11, m12, m13, m14, m16, m17, m18, m19, m1a, m1b, m1c, m1d, m1e, m20, m21, m22, m23, m24, m25⟩ := mask_val
  rcases mask_some hm with e|e|e|e|e|e|e|e|e|e|e|e|e|e|e|e|e|e|e|e <;> subst e
  · rw [m10] at hm; cases hm; show some a.readNR10 = _
    simp only [readNR10, s1, s2, s3]; rw [ar_nr10 _ (hb _)]
  · rw [m11] at hm; cases hm; show some (sqReadNRx1 a.ch1) = _
    simp only [sqReadNRx1, a1]; rw [ar_nrx1 _ (hb _)]
  · rw [m12] at hm; cases hm; show some (sqReadNRx2 a.ch1) = _
    simp only [sqReadNRx2, a2, a3, a4]; rw [ar_env _ (hb _)]
  · rw [m13] at hm; cases hm; show some 0xff = _
    rw [← ar_ff _ (hb _)]
  · rw [m14] at hm; cases hm; show some (lenRead a.ch1.lengthEnable) = _
    rw [a5, ar_len _ (hb _)]
  · rw [m16] at hm; cases hm; show some (sqReadNRx1 a.ch2) = _
    simp only [sqReadNRx1, b1]; rw [ar_nrx1 _ (hb _)]
  · rw [m17] at hm; cases hm; show some (sqReadNRx2 a.ch2) = _
    simp only [sqReadNRx2, b2, b3, b4]; rw [ar_env _ (hb _)]
  · rw [m18] at hm; cases hm; show some 0xff = _
    rw [← ar_ff _ (hb _)]
  · rw [m19] at hm; cases hm; show some (lenRead a.ch2.lengthEnable) = _
    rw [b5, ar_len _ (hb _)]
  · rw [m1a] at hm; cases hm; show some a.readNR30 = _
    simp only [readNR30, c1]; rw [ar_nr30 _ (hb _)]
  · rw [m1b] at hm; cases hm; show some 0xff = _
    rw [← ar_ff _ (hb _)]
  · rw [m1c] at hm; cases hm; show some a.readNR32 = _
    simp only [readNR32, c2]; rw [ar_nr32 _ (hb _)]
  · rw [m1d] at hm; cases hm; show some 0xff = _
    rw [← ar_ff _ (hb _)]
  · rw [m1e] at hm; cases hm; show some (lenRead a.ch3.lengthEnable) = _
    rw [c3, ar_len _ (hb _)]
  · rw [m20] at hm; cases hm; show some 0xff = _
    rw [← ar_ff _ (hb _)]
  · rw [m21] at hm; cases hm; show some a.readNR42 = _
    simp only [readNR42, d1, d2, d3]; rw [ar_env _ (hb _)]
  · rw [m22] at hm; cases hm; show some a.readNR43 = _
    simp only [readNR43, d4, d5, d6]; rw [ar_nr43 _ (hb _)]
  · rw [m23] at hm; cases hm; show some (lenRead a.ch4.lengthEnable) = _
    rw [d7, ar_len _ (hb _)]
  · rw [m24] at hm; cases hm; show some a.readNR50 = _
    simp only [readNR50, hctl, ctlOf]; rw [ar_nr50 _ (hb _)]
  · rw [m25] at hm; cases hm; show some a.readNR51 = _
    simp only [readNR51, hctl, ctlOf]; rw [ar_nr51 _ (hb _)]
end Tetro.C18
