import Tetro.Lemmas.LogBus
import Tetro.Lemmas.SpecTables
/-
The accesses the documented schedule (`micro i`) makes, computed from the per-micro-operation tag function
on the flat bus (`planOf`), are the documented data accesses (`busPlan i`), for every instruction and every
state: addresses of the model (`mk16`, bit-vector arithmetic on the registers of THAT cycle) against the
address expressions of the documentation evaluated on the state at instruction start.
-/
namespace Tetro.BusLog
open Tetro.Model.Cpu Tetro.Spec.Isa Tetro.Exec

theorem mk16_w16 (hi lo : Byte) : mk16 hi lo = w16 hi lo := by
  apply BitVec.eq_of_toNat_eq
  have h1 := hi.isLt
  have h2 := lo.isLt
  simp only [mk16, w16, BitVec.toNat_append, BitVec.toNat_ofNat]
  rw [← Nat.shiftLeft_add_eq_or_of_lt h2, Nat.shiftLeft_eq]
  omega

theorem ff00_add : ∀ x : Byte, (0xff00 : Word) + x.zeroExtend 16 = BitVec.ofNat 16 (0xff00 + x.toNat) := by
  apply Tetro.forall_bv8; decide +kernel

theorem ff00_add' (x : Byte) : 65280#16 + BitVec.setWidth 16 x = BitVec.ofNat 16 (65280 + x.toNat) :=
  ff00_add x

theorem sub_one_one (x : Word) : x - 1 - 1 = x - 2#16 := by
  apply BitVec.eq_of_toNat_eq
  have h1 : (1 : Word).toNat = 1 := rfl
  simp only [BitVec.toNat_sub, BitVec.toNat_ofNat, h1]
  omega

theorem sub_ofNat_one (x : Word) : x - BitVec.ofNat 16 1 = x - 1 := rfl
theorem add_ofNat_one (x : Word) : x + BitVec.ofNat 16 1 = x + 1 := rfl
theorem add_ofNat_zero (x : Word) : x + BitVec.ofNat 16 0 = x := by
  apply BitVec.eq_of_toNat_eq; simp

@[simp] theorem set_sp (r : Regs) (k : R8) (v : Byte) : (r.set k v).sp = r.sp := by cases k <;> rfl
@[simp] theorem abs_sp (r : Regs) (f : Flat) : (abs r f).sp = r.sp := rfl
@[simp] theorem abs_pc (r : Regs) (f : Flat) : (abs r f).pc = r.pc := rfl
@[simp] theorem abs_b (r : Regs) (f : Flat) : (abs r f).b = r.b := rfl
@[simp] theorem abs_c (r : Regs) (f : Flat) : (abs r f).c = r.c := rfl
@[simp] theorem abs_d (r : Regs) (f : Flat) : (abs r f).d = r.d := rfl
@[simp] theorem abs_e (r : Regs) (f : Flat) : (abs r f).e = r.e := rfl
@[simp] theorem abs_zf (r : Regs) (f : Flat) : (abs r f).zf = r.zf := rfl
@[simp] theorem abs_cf (r : Regs) (f : Flat) : (abs r f).cf = r.cf := rfl
@[simp] theorem abs_bus (r : Regs) (f : Flat) : (abs r f).bus = f := rfl
@[simp] theorem abs_hl (r : Regs) (f : Flat) : (abs r f).hl = r.hl := by
  simp [St.hl, abs, Regs.hl, mk16_w16]

/-- a documented plan evaluated on the architectural state at instruction start -/
def evalPlan (p : List (Nat × Kind × AExpr)) (s : St) : List (Nat × Kind × Word) :=
  p.map fun x => (x.1, x.2.1, x.2.2.eval s)

/-- outcome of the condition of a conditional instruction on the flags (true for the others) -/
def takenOf (i : Instr) (s : St) : Bool := (condOf i).all fun cc => cc.holds s

macro "plan_simp" : tactic => `(tactic|
  simp [micro, busPlan, evalPlan, cyclesOf, condOf, takenOf, dataAccess, MicroOp.run, AExpr.eval, Ind.addr,
        mk16_w16, ff00_add, sub_one_one, sub_ofNat_one, add_ofNat_one, add_ofNat_zero, imm16, imm8, St.rd,
        Regs.u16, Regs.bc, Regs.de, incSP, inc16F, dec16F, CC.holds, pushCell, decSP, rstTo, *] <;> first | exact sub_one_one _ | exact ff00_add' _ | simp [Regs.hl])

theorem planOf_micro (i : Instr) (r : Regs) (f : Flat) :
    planOf ((micro i).take (cyclesOf i (takenOf i (abs r f)))) 1 r f =
      evalPlan (busPlan i (takenOf i (abs r f))) (abs r f) := by
  cases i with
  | ld dst src =>
    cases dst <;> cases src
    · simp only [micro]; repeat' split
      all_goals plan_simp
    all_goals plan_simp
  | ldN dst => cases dst <;> plan_simp
  | ldAInd i => cases i <;> plan_simp
  | ldIndA i => cases i <;> plan_simp
  | push rp => cases rp <;> plan_simp
  | pop rp => cases rp <;> plan_simp
  | alu op src => cases src <;> plan_simp
  | inc l => cases l <;> plan_simp
  | dec l => cases l <;> plan_simp
  | rot op l => cases l <;> plan_simp
  | bit n l => cases l <;> plan_simp
  | res n l => cases l <;> plan_simp
  | set n l => cases l <;> plan_simp
  | jpCC cc => cases cc <;> cases hz : r.zf <;> cases hc : r.cf <;> plan_simp
  | jrCC cc => cases cc <;> cases hz : r.zf <;> cases hc : r.cf <;> plan_simp
  | callCC cc => cases cc <;> cases hz : r.zf <;> cases hc : r.cf <;> plan_simp
  | retCC cc => cases cc <;> cases hz : r.zf <;> cases hc : r.cf <;> plan_simp
  | _ => plan_simp

end Tetro.BusLog
