import Tetro.Lemmas.LogBus
import Tetro.Lemmas.SpecTables
/-
The accesses the documented schedule (`micro i`) makes, computed from the per-micro-operation tag function
on the flat bus (`planOf`), are the documented data accesses (`busPlan i`), for every instruction and every
state: addresses of the model (`mk16`, bit-vector arithmetic on the registers of THAT cycle) against the
address expressions of the documentation evaluated on the state at instruction start.
-/
namespace Tetro.BusLog
open Tetro.Model.Cpu Tetro.Spec.Isa Tetro.Exec

theorem mk16_w16 (hi lo : Byte) : mk16 hi lo = w16 hi lo := by
  apply BitVec.eq_of_toNat_eq
  have h1 := hi.isLt
  have h2 := lo.isLt
  simp only [mk16, w16, BitVec.toNat_append, BitVec.toNat_ofNat]
  rw [← Nat.shiftLeft_add_eq_or_of_lt h2, Nat.shiftLeft_eq]
  omega

theorem ff00_add : ∀ x : Byte, (0xff00 : Word) + x.zeroExtend 16 = BitVec.ofNat 16 (0xff00 + x.toNat) := by
  apply Tetro.forall_bv8; decide +kernel

theorem ff00_add' (x : Byte) : 65280#16 + BitVec.setWidth 16 x = BitVec.ofNat 16 (65280 + x.toNat) :=
  ff00_add x

theorem sub_one_one (x : Word) : x - 1 - 1 = x - 2#16 := by
  apply BitVec.eq_of_toNat_eq
  have h1 : (1 : Word).toNat = 1 := rfl
  simp only [BitVec.toNat_sub, BitVec.toNat_ofNat, h1]
  omega

theorem sub_ofNat_one (x : Word) : x - BitVec.ofNat 16 1 = x - 1 := rfl
theorem add_ofNat_one (x : Word) : x + BitVec.ofNat 16 1 = x + 1 := rfl
theorem add_ofNat_zero (x : Word) : x + BitVec.ofNat 16 0 = x := by
  apply BitVec.eq_of_toNat_eq; simp

@[simp] theorem set_sp (r : Regs) (k : R8) (v : Byte) : (r.set k v).sp = r.sp := by cases k <;> rfl
@[simp] theorem abs_sp (r : Regs) (f : Flat) : (abs r f).sp = r.sp := rfl
@[simp] theorem abs_pc (r : Regs) (f : Flat) : (abs r f).pc = r.pc := rfl
@[simp] theorem abs_b (r : Regs) (f : Flat) : (abs r f).b = r.b := rfl
@[simp] theorem abs_c (r : Regs) (f : Flat) : (abs r f).c = r.c := rfl
@[simp] theorem abs_d (r : Regs) (f : Flat) : (abs r f).d = r.d := rfl
@[simp] theorem abs_e (r : Regs) (f : Flat) : (abs r f).e = r.e := rfl
@[simp] theorem abs_zf (r : Regs) (f : Flat) : (abs r f).zf = r.zf := rfl
@[simp] theorem abs_cf (r : Regs) (f : Flat) : (abs r f).cf = r.cf := rfl
@[simp] theorem abs_bus (r : Regs) (f : Flat) : (abs r f).bus = f := rfl
@[simp] theorem abs_hl (r : Regs) (f : Flat) : (abs r f).hl = r.hl := by
  simp [St.hl, abs, Regs.hl, mk16_w16]

/-- a documented plan evaluated on the architectural state at instruction start -/
def evalPlan (p : List (Nat × Kind × AExpr)) (s : St) : List (Nat × Kind × Word) :=
  p.map fun x => (x.1, x.2.1, x.2.2.eval s)

/-- outcome of the condition of a conditional instruction on the flags (true for the others) -/
def takenOf (i : Instr) (s : St) : Bool := (condOf i).all fun cc => cc.holds s

macro "plan_simp" : tactic => `(tactic|
  simp [micro, busPlan, evalPlan, cyclesOf, condOf, takenOf, dataAccess, MicroOp.run, AExpr.eval, Ind.addr,
        mk16_w16, ff00_add, sub_one_one, sub_ofNat_one, add_ofNat_one, add_ofNat_zero, imm16, imm8, St.rd,
        Regs.u16, Regs.bc, Regs.de, incSP, inc16F, dec16F, CC.holds, pushCell, decSP, rstTo, *] <;> first | exact sub_one_one _ | exact ff00_add' _ | simp [Regs.hl])

theorem planOf_micro (i : Instr) (r : Regs) (f : Flat) :
    planOf ((micro i).take (cyclesOf i (takenOf i (abs r f)))) 1 r f =
      evalPlan (busPlan i (takenOf i (abs r f))) (abs r f) := by
  cases i with
  | ld dst src =>
    cases dst <;> cases src
    · simp only [micro]; repeat' split
      all_goals plan_simp
    all_goals plan_simp
  | ldN dst => cases dst <;> plan_simp
  | ldAInd i => cases i <;> plan_simp
  | ldIndA i => cases i <;> plan_simp
  | push rp => cases rp <;> plan_simp
  | pop rp => cases rp <;> plan_simp
  | alu op src => cases src <;> plan_simp
  | inc l => cases l <;> plan_simp
  | dec l => cases l <;> plan_simp
  | rot op l => cases l <;> plan_simp
  | bit n l => cases l <;> plan_simp
  | res n l => cases l <;> plan_simp
  | set n l => cases l <;> plan_simp
  | jpCC cc => cases cc <;> cases hz : r.zf <;> cases hc : r.cf <;> plan_simp
  | jrCC cc => cases cc <;> cases hz : r.zf <;> cases hc : r.cf <;> plan_simp
  | callCC cc => cases cc <;> cases hz : r.zf <;> cases hc : r.cf <;> plan_simp
  | retCC cc => cases cc <;> cases hz : r.zf <;> cases hc : r.cf <;> plan_simp
  | _ => plan_simp

/-! ### the accesses of ONE cycle -/

theorem planOf_ge (ops : List MicroOp) (s : Nat) (r : Regs) (f : Flat) :
    ∀ p ∈ planOf ops s r f, s ≤ p.1 := by
  induction ops generalizing s r f with
  | nil => simp
  | cons μ rest ih =>
    intro p hp
    rw [planOf_cons, List.mem_append] at hp
    rcases hp with hp | hp
    · obtain ⟨a, _, rfl⟩ := List.mem_map.1 hp
      exact Nat.le_refl _
    · exact Nat.le_of_succ_le (ih _ _ _ p hp)

/-- the entries of the trace numbered `s + j` are exactly the data accesses of the `j`-th micro-operation,
    made from the registers and the bus the preceding `j` micro-operations left -/
theorem planOf_filter (ops : List MicroOp) (s j : Nat) (hj : j < ops.length) (r : Regs) (f : Flat) :
    (planOf ops s r f).filter (fun p => p.1 == s + j) =
      (dataAccess ops[j] (runList (ops.take j) r f).1 (runList (ops.take j) r f).2).map fun a => (s + j, a) := by
  induction ops generalizing s j r f with
  | nil => simp at hj
  | cons μ rest ih =>
    rw [planOf_cons, List.filter_append]
    cases j with
    | zero =>
      have h2 : (planOf rest (s + 1) (μ.run r f).1 (μ.run r f).2).filter (fun p => p.1 == s + 0) = [] := by
        rw [List.filter_eq_nil_iff]
        intro p hp
        have := planOf_ge _ _ _ _ p hp
        simp; omega
      rw [h2]
      have h4 : ∀ l : List Access, l.filter (fun _ => true) = l := by
        intro l; induction l <;> simp_all
      simp [List.filter_map, Function.comp_def, h4]
    | succ j =>
      have h1 : ((dataAccess μ r f).map fun a => (s, a)).filter (fun p => p.1 == s + (j + 1)) = [] := by
        rw [List.filter_eq_nil_iff]
        intro p hp
        obtain ⟨a, _, rfl⟩ := List.mem_map.1 hp
        simp
      have h3 : s + (j + 1) = s + 1 + j := by omega
      rw [h1, h3]
      have := ih (s + 1) j (by simpa using hj) (μ.run r f).1 (μ.run r f).2
      simpa using this

theorem evalPlan_filter (p : List (Nat × Kind × AExpr)) (s : St) (k : Nat) :
    (evalPlan p s).filter (fun x => x.1 == k) = evalPlan (p.filter fun x => x.1 == k) s := by
  simp [evalPlan, List.filter_map, Function.comp_def]

/-- the micro-operation of machine cycle `k+1` of the effective schedule makes exactly the documented data
    accesses of cycle `k+1`, from the registers and the bus the first `k` cycles left -/
theorem dataAccess_at (i : Instr) (r : Regs) (f : Flat) (k : Nat)
    (hk : k < cyclesOf i (takenOf i (abs r f))) (hk2 : k < (micro i).length) :
    dataAccess (micro i)[k] (runList ((micro i).take k) r f).1 (runList ((micro i).take k) r f).2 =
      ((busPlan i (takenOf i (abs r f))).filter fun p => p.1 == k + 1).map
        fun p => (p.2.1, p.2.2.eval (abs r f)) := by
  have hlen : k < ((micro i).take (cyclesOf i (takenOf i (abs r f)))).length := by
    rw [List.length_take]; omega
  have h := planOf_filter ((micro i).take (cyclesOf i (takenOf i (abs r f)))) 1 k hlen r f
  rw [planOf_micro, Nat.add_comm 1 k, evalPlan_filter, List.getElem_take, List.take_take,
    Nat.min_eq_left (Nat.le_of_lt hk)] at h
  have h2 := congrArg (List.map Prod.snd) h
  simpa [evalPlan, Function.comp_def] using h2.symm

end Tetro.BusLog
