import Tetro.Lemmas.LogBus
/-
`ExecuteMachineCycle` (model `cycle`) on the recording bus: it computes exactly what it computes on the
flat bus, and every machine cycle appends to the log the opcode fetch (at a boundary where an instruction
is fetched) followed by the operand fetch and the data accesses of the ONE micro-operation of that cycle.
-/
namespace Tetro.BusLog
open Tetro.Model.Cpu Tetro.Spec.Isa Tetro.Exec

/-- what the micro-operation of the current cycle appends to the log -/
def stepLog (c : Cpu) (f : Flat) : List Access :=
  match c.ops[c.cycle]? with
  | none => []
  | some μ => opFetch μ c.regs ++ dataAccess μ c.regs f

/-- the opcode fetch: one byte at PC, two for a CB-prefixed instruction -/
def fetchReads (r : Regs) (f : Flat) : List Access :=
  if f.read r.pc = 0xcb then [(.rd, r.pc), (.rd, r.pc + 1)] else [(.rd, r.pc)]

/-- what `next` appends: nothing when an interrupt sequence starts or the CPU sleeps, else the opcode fetch -/
def nextLog (t : Tables) (c : Cpu) (f : Flat) : List Access :=
  match (checkInterrupts t c.regs f).2 with
  | some _ => []
  | none => if c.regs.halted || c.regs.stopped then [] else fetchReads c.regs f

/-- what one machine cycle appends -/
def cycleLog (t : Tables) (c : Cpu) (f : Flat) : List Access :=
  if c.crashed || c.regs.exited then []
  else if c.isFinished then
    nextLog t c f ++ (if (next t c f).halted then [] else stepLog (next t c f).cpu (next t c f).bus)
  else stepLog c f

theorem stepSub_lb (c : Cpu) (m : LogBus) :
    stepSub c m =
      ((stepSub c m.flat).1, { flat := (stepSub c m.flat).2, log := m.log ++ stepLog c m.flat }) := by
  unfold stepSub stepLog
  cases h : c.ops[c.cycle]? with
  | none => simp
  | some μ => simp [run_lb μ c.regs m, List.append_assoc]

theorem checkInterrupts_lb (t : Tables) (r : Regs) (m : LogBus) :
    checkInterrupts t r m = checkInterrupts t r m.flat := rfl

theorem fetch_lb (t : Tables) (c : Cpu) (r : Regs) (m : LogBus) :
    fetch t c r m =
      { cpu := (fetch t c r m.flat).cpu,
        bus := { flat := (fetch t c r m.flat).bus, log := m.log ++ fetchReads r m.flat },
        halted := (fetch t c r m.flat).halted } := by
  unfold fetch fetchReads
  cases he : r.eiPending <;> simp <;> split <;> simp

theorem next_lb (t : Tables) (c : Cpu) (m : LogBus) :
    next t c m =
      { cpu := (next t c m.flat).cpu,
        bus := { flat := (next t c m.flat).bus, log := m.log ++ nextLog t c m.flat },
        halted := (next t c m.flat).halted } := by
  simp only [next, nextLog]
  rw [checkInterrupts_lb]
  cases h : (checkInterrupts t c.regs m.flat).2 with
  | some seq => simp
  | none =>
    by_cases hh : (c.regs.halted || c.regs.stopped) = true
    · simp [hh]
    · simp [hh, fetch_lb]

theorem cycle_lb (t : Tables) (c : Cpu) (m : LogBus) :
    cycle t c m =
      ((cycle t c m.flat).1, { flat := (cycle t c m.flat).2, log := m.log ++ cycleLog t c m.flat }) := by
  unfold cycle cycleLog
  split
  · simp
  · split
    · rw [next_lb]
      dsimp only
      split
      · simp
      · rw [stepSub_lb]; simp [List.append_assoc]
    · rw [stepSub_lb]

/-- `cycles` on the recording bus = `cycles` on the flat bus, the log growing by `cycleLog` every cycle -/
theorem cycles_lb (t : Tables) (k : Nat) (c : Cpu) (m : LogBus) :
    (cycles t k c m).1 = (cycles t k c m.flat).1 ∧ (cycles t k c m).2.flat = (cycles t k c m.flat).2 := by
  induction k generalizing c m with
  | zero => exact ⟨rfl, rfl⟩
  | succ k ih =>
    have h1 : cycles t (k + 1) c m = cycles t k (cycle t c m).1 (cycle t c m).2 := rfl
    have h2 : cycles t (k + 1) c m.flat = cycles t k (cycle t c m.flat).1 (cycle t c m.flat).2 := rfl
    rw [h1, h2, cycle_lb]
    exact ih _ _

theorem cycles_succ_right_lb (t : Tables) (n : Nat) (c : Cpu) (m : LogBus) :
    cycles t (n + 1) c m = cycle t (cycles t n c m).1 (cycles t n c m).2 := by
  induction n generalizing c m with
  | zero => rfl
  | succ n ih =>
    show cycles t (n + 1) (cycle t c m).1 (cycle t c m).2 = _
    rw [ih]; rfl

theorem cycles_log_succ (t : Tables) (k : Nat) (c : Cpu) (m : LogBus) :
    (cycles t (k + 1) c m).2.log =
      (cycles t k c m).2.log ++ cycleLog t (cycles t k c m.flat).1 (cycles t k c m.flat).2 := by
  rw [cycles_succ_right_lb, cycle_lb]
  dsimp only
  rw [(cycles_lb t k c m).1, (cycles_lb t k c m).2]

end Tetro.BusLog
