import Tetro.Lemmas.CpuBasic
/-
The ALU cores of the model against the documented formulas of the spec (8-bit ALU, INC/DEC,
16-bit additions): value and flags, through `toNat` and `omega`.
-/
set_option linter.unusedSimpArgs false
namespace Tetro.C01
open Tetro.Model.Cpu Tetro.Spec.Isa

theorem aluRun_abs (op : Alu) (r : Regs) (v : Byte) (m : Flat) :
    abs (aluRun (aluM op) r v) m = aluExec op (abs r m) v := by
  have := r.a.isLt; have := v.isLt
  cases op
  case add =>
    simp [aluM, aluRun, add, aluExec, abs, St.flags, zf_def, nf_def, hf_def, cf_def, Regs.setZf, Regs.setNf,
      Regs.setHf, Regs.setCf, hc8, c8, add_val]
  case adc =>
    simp [aluM, aluRun, adc, aluExec, abs, St.flags, zf_def, nf_def, hf_def, cf_def, Regs.setZf, Regs.setNf,
      Regs.setHf, Regs.setCf, hc8, c8, add_val]
    rcases Bool.eq_false_or_eq_true (fc r.f) with h | h <;> simp [h, bn] <;> bv_ariths
  case sub =>
    simp [aluM, aluRun, sub, aluExec, abs, St.flags, zf_def, nf_def, hf_def, cf_def, Regs.setZf, Regs.setNf,
      Regs.setHf, Regs.setCf, hc8Sub, c8Sub, sub_val]
    bv_ariths
  case sbc =>
    simp [aluM, aluRun, sbc, aluExec, abs, St.flags, zf_def, nf_def, hf_def, cf_def, Regs.setZf, Regs.setNf,
      Regs.setHf, Regs.setCf, hc8Sub, c8Sub, sub_val]
    rcases Bool.eq_false_or_eq_true (fc r.f) with h | h <;> simp [h, bn] <;> bv_ariths
  case and =>
    simp [aluM, aluRun, Tetro.Model.Cpu.and, aluExec, abs, St.flags, zf_def, nf_def, hf_def, cf_def,
      Regs.setZf, Regs.setNf, Regs.setHf, Regs.setCf]
  case xor =>
    simp [aluM, aluRun, Tetro.Model.Cpu.xor, aluExec, abs, St.flags, zf_def, nf_def, hf_def, cf_def,
      Regs.setZf, Regs.setNf, Regs.setHf, Regs.setCf]
  case or =>
    simp [aluM, aluRun, Tetro.Model.Cpu.or, aluExec, abs, St.flags, zf_def, nf_def, hf_def, cf_def,
      Regs.setZf, Regs.setNf, Regs.setHf, Regs.setCf]
  case cp =>
    simp [aluM, aluRun, cp, aluExec, abs, St.flags, zf_def, nf_def, hf_def, cf_def, Regs.setZf, Regs.setNf,
      Regs.setHf, Regs.setCf, hc8Sub, c8Sub, beq_toNat]
    bv_ariths

end Tetro.C01
