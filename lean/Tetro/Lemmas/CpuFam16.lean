import Tetro.Lemmas.CpuBasic
/-
C01 per instruction family: ADD HL,rr / ADD SP,e / LD HL,SP+e.
-/
set_option linter.unusedSimpArgs false
set_option linter.constructorNameAsVariable false
namespace Tetro.C01
open Tetro.Model.Cpu Tetro.Spec.Isa

theorem add16_val (a b : Word) : a + b = BitVec.ofNat 16 (a.toNat + b.toNat) := by
  apply BitVec.eq_of_toNat_eq; simp

theorem holds_addHL (rp : Rp) : Holds (.addHL rp) := by
  intro r m _
  cases rp <;> c01_simp [addHLF, hc16, c16, add16_val] <;> (repeat' apply And.intro) <;> rfl

theorem holds_addSPe : Holds .addSPe := by
  intro r m _
  c01_simp [addSPF, spPlusE]

theorem holds_ldHLSPe : Holds .ldHLSPe := by
  intro r m _
  c01_simp [ldHLSPF, spPlusE]

end Tetro.C01
