import Tetro.Model.CpuExec
/-
Generic lemmas about `cycle` (ExecuteMachineCycle) over the FLAT bus, independent of the tables:
an instruction or interrupt sequence loaded by `next` at a boundary runs its micro-operations one
per machine cycle, in order, and reaches the next boundary exactly when `isFinished` says so.
Used by C02 (cycle counts), C04 (interrupt dispatch) and C05 (HALT).
-/
namespace Tetro.Exec
open Tetro.Model.Cpu

/-! ### the flat bus, field by field -/

@[simp] theorem bus_read (m : Flat) (a : Word) : Bus.read m a = (m.read a, m) := rfl
@[simp] theorem bus_write (m : Flat) (a : Word) (v : Byte) : Bus.write m a v = m.write a v := rfl
@[simp] theorem bus_trigger (m : Flat) (a : Word) : Bus.trigger m a = m := rfl
@[simp] theorem bus_corrupt (m : Flat) : Bus.corrupt m = m := rfl
@[simp] theorem bus_ime (m : Flat) : Bus.ime m = m.ime := rfl
@[simp] theorem bus_setIme (m : Flat) (v : Bool) : Bus.setIme m v = { m with ime := v } := rfl
@[simp] theorem bus_ie (m : Flat) : Bus.ie m = m.ie := rfl
@[simp] theorem bus_iflag (m : Flat) : Bus.iflag m = m.ifl := rfl
@[simp] theorem bus_clearIf (m : Flat) (k : Nat) :
    Bus.clearIf m k = { m with ifl := m.ifl &&& ~~~((1 : Byte) <<< k) } := rfl
@[simp] theorem readAt_flat (m : Flat) (a : Word) : readAt m a = (m.read a, m) := rfl

theorem pendingBits_flat (m : Flat) : pendingBits m = m.ie &&& m.ifl &&& 0x1f := rfl

@[simp] theorem read_setIme (m : Flat) (v : Bool) (a : Word) :
    Flat.read { m with ime := v } a = m.read a := rfl

/-! ### running a list of micro-operations -/

/-- fold of `MicroOp.run` over a schedule -/
def runList : List MicroOp → Regs → Flat → Regs × Flat
  | [], r, m => (r, m)
  | μ :: rest, r, m => runList rest (μ.run r m).1 (μ.run r m).2

@[simp] theorem runList_nil (r : Regs) (m : Flat) : runList [] r m = (r, m) := rfl
@[simp] theorem runList_cons (μ : MicroOp) (rest : List MicroOp) (r : Regs) (m : Flat) :
    runList (μ :: rest) r m = runList rest (μ.run r m).1 (μ.run r m).2 := rfl

theorem runList_append (xs ys : List MicroOp) (r : Regs) (m : Flat) :
    runList (xs ++ ys) r m = runList ys (runList xs r m).1 (runList xs r m).2 := by
  induction xs generalizing r m with
  | nil => rfl
  | cons x xs ih => simp [ih]

theorem runList_take_succ (ops : List MicroOp) (k : Nat) (h : k < ops.length) (r : Regs) (m : Flat) :
    runList (ops.take (k + 1)) r m =
      (ops[k]).run (runList (ops.take k) r m).1 (runList (ops.take k) r m).2 := by
  rw [List.take_add_one, runList_append]
  simp [List.getElem?_eq_getElem h]

/-! ### `exited` is only set by `fatal` -/

@[simp] theorem set_exited (r : Regs) (k : R8) (v : Byte) : (r.set k v).exited = r.exited := by
  cases k <;> rfl
@[simp] theorem set16_exited (r : Regs) (k : R16) (w : Word) : (r.set16 k w).exited = r.exited := by
  cases k <;> rfl
@[simp] theorem aluRun_exited (op : AluOp) (r : Regs) (v : Byte) : (aluRun op r v).exited = r.exited := by
  cases op <;> rfl
@[simp] theorem daaF_exited (r : Regs) : (daaF r).exited = r.exited := by
  unfold daaF; dsimp only
  repeat' split
  all_goals rfl
@[simp] theorem inc_exited (r : Regs) (k : R8) : (inc r k).exited = r.exited := by
  simp [inc, Regs.setZf, Regs.setNf, Regs.setHf]
@[simp] theorem dec_exited (r : Regs) (k : R8) : (dec r k).exited = r.exited := by
  simp [dec, Regs.setZf, Regs.setNf, Regs.setHf]
@[simp] theorem rotF_exited (op : RotOp) (r : Regs) (k : R8) : (rotF op r k).exited = r.exited := by
  simp [rotF, Regs.setZf, Regs.setNf, Regs.setHf, Regs.setCf]
@[simp] theorem haltF_exited (r : Regs) (m : Flat) : (haltF r m).exited = r.exited := by
  unfold haltF; repeat' split
  all_goals rfl
@[simp] theorem pushCell_exited (k : R8) (r : Regs) (m : Flat) : (pushCell k r m).1.exited = r.exited := rfl
@[simp] theorem handleInterruptF_exited (r : Regs) (m : Flat) :
    (handleInterruptF r m).1.exited = r.exited := by
  unfold handleInterruptF
  split
  · dsimp only
    split <;> rfl
  · rfl

theorem run_exited (μ : MicroOp) (h : μ ≠ .fatal) (r : Regs) (m : Flat) :
    (μ.run r m).1.exited = r.exited := by
  cases μ with
  | fatal => exact absurd rfl h
  | alu op s => cases s <;> simp [MicroOp.run]
  | inc16 k => cases k <;> simp [MicroOp.run, inc16F, incSP]
  | dec16 k => cases k <;> simp [MicroOp.run, dec16F, decSP]
  | _ => simp [MicroOp.run, inc16F, dec16F, incSP, addHLF, addSPF, ldHLSPF, bitTest, rstTo,
               Regs.setZf, Regs.setNf, Regs.setHf, Regs.setCf]

theorem runList_exited (ops : List MicroOp) (h : MicroOp.fatal ∉ ops) (r : Regs) (m : Flat) :
    (runList ops r m).1.exited = r.exited := by
  induction ops generalizing r m with
  | nil => rfl
  | cons x xs ih =>
    have hx : x ≠ .fatal := fun e => h (by simp [e])
    have hxs : MicroOp.fatal ∉ xs := fun e => h (by simp [e])
    simp [ih hxs, run_exited x hx]

/-! ### `cycles` -/

@[simp] theorem cycles_zero (t : Tables) (c : Cpu) (m : Flat) : cycles t 0 c m = (c, m) := rfl
theorem cycles_succ (t : Tables) (n : Nat) (c : Cpu) (m : Flat) :
    cycles t (n + 1) c m = cycles t n (cycle t c m).1 (cycle t c m).2 := rfl
theorem cycles_one (t : Tables) (c : Cpu) (m : Flat) : cycles t 1 c m = cycle t c m := rfl

theorem cycles_succ_right (t : Tables) (n : Nat) (c : Cpu) (m : Flat) :
    cycles t (n + 1) c m = cycle t (cycles t n c m).1 (cycles t n c m).2 := by
  induction n generalizing c m with
  | zero => rfl
  | succ n ih => rw [cycles_succ, ih]; rfl

theorem cycles_add (t : Tables) (a b : Nat) (c : Cpu) (m : Flat) :
    cycles t (a + b) c m = cycles t b (cycles t a c m).1 (cycles t a c m).2 := by
  induction a generalizing c m with
  | zero => simp
  | succ a ih => rw [Nat.add_right_comm, cycles_succ, ih]; rfl

/-! ### a loaded instruction / interrupt sequence -/

/-- what `next` leaves behind when it starts something: cycle 0, alive, a schedule without `fatal` -/
structure Loaded (L : Cpu) : Prop where
  cycle0 : L.cycle = 0
  alive : L.crashed = false
  running : L.regs.exited = false
  noFatal : MicroOp.fatal ∉ L.ops

/-- the early-finish entry is a proper one: ends early strictly inside the schedule, last = its length -/
def EarlyOk (L : Cpu) : Prop :=
  ∀ e, L.early = some e → 0 < e.2.1 ∧ e.2.1 < e.2.2 ∧ e.2.2 = L.ops.length

/-- CPU and bus after the first `k` micro-operations of the loaded schedule -/
def after (L : Cpu) (m : Flat) (k : Nat) : Cpu × Flat :=
  ({ L with regs := (runList (L.ops.take k) L.regs m).1, cycle := k },
   (runList (L.ops.take k) L.regs m).2)

/-- number of machine cycles the loaded schedule occupies, decided as `isFinished` does: the early
    test is evaluated on the registers after the first `e` micro-operations -/
def lenOf (L : Cpu) (m : Flat) : Nat :=
  match L.early with
  | none => L.ops.length
  | some e => if e.1.holds (runList (L.ops.take e.2.1) L.regs m).1 then e.2.1 else e.2.2

theorem after_zero (L : Cpu) (m : Flat) (h : L.cycle = 0) : after L m 0 = (L, m) := by
  cases L; simp_all [after]

theorem after_isFinished (L : Cpu) (m : Flat) (k : Nat) :
    (after L m k).1.isFinished =
      match L.early with
      | none => k == L.ops.length
      | some e => (k == e.2.1 && e.1.holds (runList (L.ops.take k) L.regs m).1) || k == e.2.2 := rfl

theorem after_exited (L : Cpu) (hL : Loaded L) (m : Flat) (k : Nat) :
    (after L m k).1.regs.exited = false := by
  have h : MicroOp.fatal ∉ L.ops.take k := fun e => hL.noFatal (List.mem_of_mem_take e)
  simp [after, runList_exited _ h, hL.running]

theorem stepSub_after (L : Cpu) (m : Flat) (k : Nat) (h : k < L.ops.length) :
    stepSub (after L m k).1 (after L m k).2 = after L m (k + 1) := by
  simp only [stepSub, after, List.getElem?_eq_getElem h, bus_corrupt, runList_take_succ _ _ h]

theorem cycle_after (t : Tables) (L : Cpu) (hL : Loaded L) (m : Flat) (k : Nat) (h : k < L.ops.length)
    (hf : (after L m k).1.isFinished = false) :
    cycle t (after L m k).1 (after L m k).2 = after L m (k + 1) := by
  have he := after_exited L hL m k
  have hc : (after L m k).1.crashed = false := hL.alive
  rw [cycle, hc, he, hf]
  simpa using stepSub_after L m k h

/-- a boundary: the current schedule is complete and the emulator is alive -/
structure Boundary (c : Cpu) : Prop where
  finished : c.isFinished = true
  alive : c.crashed = false
  running : c.regs.exited = false

theorem cycle_boundary (t : Tables) (c : Cpu) (m : Flat) (hb : Boundary c)
    (hn : (next t c m).halted = false) :
    cycle t c m = stepSub (next t c m).cpu (next t c m).bus := by
  simp [cycle, hb.finished, hb.alive, hb.running, hn]

/-- the first `k+1` cycles from a boundary where `next` loads `L` -/
theorem run_prefix (t : Tables) (c : Cpu) (m : Flat) (hb : Boundary c) (L : Cpu) (m' : Flat)
    (hn : next t c m = { cpu := L, bus := m', halted := false }) (hL : Loaded L) :
    ∀ k, k < L.ops.length → (∀ j, 0 < j → j ≤ k → (after L m' j).1.isFinished = false) →
      cycles t (k + 1) c m = after L m' (k + 1) := by
  intro k
  induction k with
  | zero =>
    intro h _
    rw [cycles_one, cycle_boundary t c m hb (by rw [hn]), hn]
    have := stepSub_after L m' 0 h
    rwa [after_zero L m' hL.cycle0] at this
  | succ k ih =>
    intro h hj
    rw [cycles_succ_right, ih (by omega) (fun j h0 h1 => hj j h0 (by omega))]
    exact cycle_after t L hL m' (k + 1) h (hj (k + 1) (by omega) (by omega))

theorem lenOf_none (L : Cpu) (m : Flat) (h : L.early = none) : lenOf L m = L.ops.length := by
  simp [lenOf, h]
theorem lenOf_some (L : Cpu) (m : Flat) (e : Cond × Nat × Nat) (h : L.early = some e) :
    lenOf L m = if e.1.holds (runList (L.ops.take e.2.1) L.regs m).1 then e.2.1 else e.2.2 := by
  simp [lenOf, h]

theorem lenOf_pos (L : Cpu) (m : Flat) (he : EarlyOk L) (hne : 0 < L.ops.length) : 0 < lenOf L m := by
  cases h : L.early with
  | none => rw [lenOf_none L m h]; exact hne
  | some e =>
    rw [lenOf_some L m e h]
    have := he e h
    split <;> omega

theorem lenOf_le (L : Cpu) (m : Flat) (he : EarlyOk L) : lenOf L m ≤ L.ops.length := by
  cases h : L.early with
  | none => rw [lenOf_none L m h]; exact Nat.le_refl _
  | some e =>
    rw [lenOf_some L m e h]
    have := he e h
    split <;> omega

theorem not_finished_before (L : Cpu) (m : Flat) (he : EarlyOk L) (k : Nat) (h0 : 0 < k)
    (hk : k < lenOf L m) : (after L m k).1.isFinished = false := by
  rw [after_isFinished]
  cases h : L.early with
  | none =>
    rw [lenOf_none L m h] at hk
    simp; omega
  | some e =>
    rw [lenOf_some L m e h] at hk
    have := he e h
    by_cases hc : e.1.holds (runList (L.ops.take e.2.1) L.regs m).1 = true
    · rw [if_pos hc] at hk
      have h1 : (k == e.2.1) = false := by simp; omega
      have h2 : (k == e.2.2) = false := by simp; omega
      simp [h1, h2]
    · rw [if_neg hc] at hk
      have h2 : (k == e.2.2) = false := by simp; omega
      by_cases h1 : k = e.2.1
      · subst h1; simp [h2, hc]
      · have : (k == e.2.1) = false := by simp; omega
        simp [this, h2]

theorem finished_at_len (L : Cpu) (m : Flat) : (after L m (lenOf L m)).1.isFinished = true := by
  rw [after_isFinished]
  cases h : L.early with
  | none => simp [lenOf_none L m h]
  | some e =>
    rw [lenOf_some L m e h]
    by_cases hc : e.1.holds (runList (L.ops.take e.2.1) L.regs m).1 = true
    · simp [hc]
    · simp [hc]

/-- MAIN LEMMA.  From a boundary at which `next` loads `L` (an instruction or an interrupt sequence):
    the CPU is inside `L` for the first `lenOf L - 1` cycles, and after exactly `lenOf L` cycles it is
    at a boundary again, having run the first `lenOf L` micro-operations in order, nothing else. -/
theorem run_loaded (t : Tables) (c : Cpu) (m : Flat) (hb : Boundary c) (L : Cpu) (m' : Flat)
    (hn : next t c m = { cpu := L, bus := m', halted := false }) (hL : Loaded L)
    (he : EarlyOk L) (hne : 0 < L.ops.length) :
    (∀ k, 0 < k → k < lenOf L m' →
        cycles t k c m = after L m' k ∧ (cycles t k c m).1.isFinished = false) ∧
    cycles t (lenOf L m') c m = after L m' (lenOf L m') ∧
    (cycles t (lenOf L m') c m).1.isFinished = true ∧
    (cycles t (lenOf L m') c m).1.crashed = false ∧
    (cycles t (lenOf L m') c m).1.regs.exited = false := by
  have hpos := lenOf_pos L m' he hne
  have hle := lenOf_le L m' he
  have hrun : ∀ k, 0 < k → k ≤ lenOf L m' → cycles t k c m = after L m' k := by
    intro k h0 hk
    obtain ⟨k, rfl⟩ : ∃ k', k = k' + 1 := ⟨k - 1, by omega⟩
    exact run_prefix t c m hb L m' hn hL k (by omega)
      (fun j hj0 hj => not_finished_before L m' he j hj0 (by omega))
  refine ⟨fun k h0 hk => ?_, hrun _ hpos (Nat.le_refl _), ?_, ?_, ?_⟩
  · rw [hrun k h0 (by omega)]
    exact ⟨rfl, not_finished_before L m' he k h0 hk⟩
  · rw [hrun _ hpos (Nat.le_refl _)]; exact finished_at_len L m'
  · rw [hrun _ hpos (Nat.le_refl _)]; exact hL.alive
  · rw [hrun _ hpos (Nat.le_refl _)]; exact after_exited L hL m' _

/-! ### what `next` does at a boundary -/

/-- boundary at which the CPU will FETCH: finished, alive, running, no interrupt sequence chosen -/
def AtFetch (c : Cpu) (m : Flat) : Prop :=
  c.isFinished = true ∧ c.crashed = false ∧ c.regs.exited = false ∧ c.regs.halted = false ∧
  c.regs.stopped = false ∧ ¬(pendingBits m ≠ 0 ∧ m.ime = true)

theorem AtFetch.boundary {c : Cpu} {m : Flat} (h : AtFetch c m) : Boundary c :=
  ⟨h.1, h.2.1, h.2.2.1⟩

theorem checkInterrupts_none (t : Tables) (r : Regs) (m : Flat) (hh : r.halted = false)
    (hp : ¬(pendingBits m ≠ 0 ∧ m.ime = true)) : checkInterrupts t r m = (r, none) := by
  unfold checkInterrupts
  by_cases h1 : pendingBits m = 0
  · simp [h1]
  · have : m.ime = false := by
      cases h : m.ime
      · rfl
      · exact absurd ⟨h1, h⟩ hp
    simp [this, hh]

theorem next_fetch (t : Tables) (c : Cpu) (m : Flat) (h : AtFetch c m) :
    next t c m = fetch t c c.regs m := by
  obtain ⟨_, _, _, hh, hs, hp⟩ := h
  simp [next, checkInterrupts_none t c.regs m hh hp, hh, hs]

/-- the registers a fetch leaves: scratch cells cleared, EI latch consumed, PC past the opcode byte(s)
    unless the halt bug suppresses one increment -/
def fetchRegs (r : Regs) (cb : Bool) : Regs :=
  { r with eiPending := false, u8a := 0, u8b := 0, m8a := 0, m8b := 0,
           pc := if cb then (if r.haltbug then r.pc + 1 else r.pc + 1 + 1)
                 else (if r.haltbug then r.pc else r.pc + 1),
           haltbug := false }

/-- `fetch` on the flat bus: a pending EI takes effect, one or two opcode bytes are read -/
theorem fetch_flat (t : Tables) (c : Cpu) (r : Regs) (m : Flat) :
    fetch t c r m =
      if m.read r.pc = 0xcb then
        { cpu := { c with regs := fetchRegs r true, ops := t.prefixed.getD (m.read (r.pc + 1)).toNat [],
                          cycle := 0, early := none },
          bus := { m with ime := m.ime || r.eiPending }, halted := false }
      else
        { cpu := { c with regs := fetchRegs r false, ops := t.normal.getD (m.read r.pc).toNat [],
                          cycle := 0, early := t.earlyOf (m.read r.pc).toNat },
          bus := { m with ime := m.ime || r.eiPending }, halted := false } := by
  unfold fetch fetchRegs
  obtain ⟨mem, ime, ie, ifl⟩ := m
  have hr : ∀ a, Flat.read ⟨mem, true, ie, ifl⟩ a = Flat.read ⟨mem, false, ie, ifl⟩ a := fun _ => rfl
  cases he : r.eiPending <;> cases ime <;> simp [hr]

theorem fetch_halted (t : Tables) (c : Cpu) (r : Regs) (m : Flat) : (fetch t c r m).halted = false := by
  rw [fetch_flat]; split <;> rfl
theorem fetch_cycle (t : Tables) (c : Cpu) (r : Regs) (m : Flat) : (fetch t c r m).cpu.cycle = 0 := by
  rw [fetch_flat]; split <;> rfl
theorem fetch_crashed (t : Tables) (c : Cpu) (r : Regs) (m : Flat) :
    (fetch t c r m).cpu.crashed = c.crashed := by
  rw [fetch_flat]; split <;> rfl
theorem fetch_exited (t : Tables) (c : Cpu) (r : Regs) (m : Flat) :
    (fetch t c r m).cpu.regs.exited = r.exited := by
  rw [fetch_flat]; split <;> rfl
/-- the bus after a fetch: only IME may have changed (a pending EI takes effect) -/
theorem fetch_bus (t : Tables) (c : Cpu) (r : Regs) (m : Flat) :
    (fetch t c r m).bus = { m with ime := m.ime || r.eiPending } := by
  rw [fetch_flat]; split <;> rfl
theorem fetch_eiPending (t : Tables) (c : Cpu) (r : Regs) (m : Flat) :
    (fetch t c r m).cpu.regs.eiPending = false := by
  rw [fetch_flat]; split <;> rfl
theorem fetch_haltbug (t : Tables) (c : Cpu) (r : Regs) (m : Flat) :
    (fetch t c r m).cpu.regs.haltbug = false := by
  rw [fetch_flat]; split <;> rfl
theorem fetch_f (t : Tables) (c : Cpu) (r : Regs) (m : Flat) :
    (fetch t c r m).cpu.regs.f = r.f := by
  rw [fetch_flat]; split <;> rfl

theorem next_fetch' (t : Tables) (c : Cpu) (m : Flat) (h : AtFetch c m) :
    next t c m = { cpu := (fetch t c c.regs m).cpu, bus := (fetch t c c.regs m).bus, halted := false } := by
  rw [next_fetch t c m h]
  have := fetch_halted t c c.regs m
  cases hf : fetch t c c.regs m
  simp_all

theorem mk_next {M : Type} (n : NextResult M) : n = { cpu := n.cpu, bus := n.bus, halted := n.halted } := rfl

end Tetro.Exec
