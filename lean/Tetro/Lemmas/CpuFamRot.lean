import Tetro.Lemmas.CpuRot
/-
C01 per instruction family: rotates/shifts (CB and the four accumulator forms), BIT, RES, SET.
-/
set_option linter.unusedSimpArgs false
set_option linter.constructorNameAsVariable false
namespace Tetro.C01
open Tetro.Model.Cpu Tetro.Spec.Isa

theorem holds_rot (op : Rot) (l : Loc) : Holds (.rot op l) := by
  intro r m _
  cases l with
  | r k => cases k <;> c01_simp [rotF, rotCore_eq]
  | hlm => c01_simp [rotF, rotCore_eq]

theorem holds_rlca : Holds .rlca := by
  intro r m _
  c01_simp [rotF, rotCore_rlc]
theorem holds_rrca : Holds .rrca := by
  intro r m _
  c01_simp [rotF, rotCore_rrc]
theorem holds_rla : Holds .rla := by
  intro r m _
  c01_simp [rotF, rotCore_rl]
theorem holds_rra : Holds .rra := by
  intro r m _
  c01_simp [rotF, rotCore_rr]

theorem holds_bit (n : Nat) (l : Loc) (hw : WellFormed (.bit n l)) : Holds (.bit n l) := by
  have hn : n < 8 := hw
  intro r m _
  cases l with
  | r k => cases k <;> c01_simp [bitTest, bit_eq n hn] <;> rfl
  | hlm => c01_simp [bitTest, bit_eq n hn] <;> rfl

theorem holds_res (n : Nat) (l : Loc) (hw : WellFormed (.res n l)) : Holds (.res n l) := by
  have hn : n < 8 := hw
  intro r m _
  cases l with
  | r k => cases k <;> c01_simp [res_eq n hn]
  | hlm => c01_simp [res_eq n hn]

theorem holds_set (n : Nat) (l : Loc) (hw : WellFormed (.set n l)) : Holds (.set n l) := by
  have hn : n < 8 := hw
  intro r m _
  cases l with
  | r k => cases k <;> c01_simp [set_eq n hn]
  | hlm => c01_simp [set_eq n hn]

end Tetro.C01
