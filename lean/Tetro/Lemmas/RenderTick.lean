import Tetro.Lemmas.RenderPixel
/-
Helper lemmas for C15 (frame assembly): an invariant of `tick` (= EndMachineCycle with the scene held
constant) that relates the tick counter to the mode, to the part of `spriteOverlaps` already evaluated for
the current line and to the part of `frame` already rendered.
-/
namespace Tetro.C15
open Tetro.Model.Render

/-! ### small state lemmas -/

theorem ovFun_set (v : Vector Bool 40) (a : Nat) (h : a < 40) (b : Bool) (i : Nat) :
    ovFun (v.set a b h) i = if a = i then b else ovFun v i := by
  unfold ovFun
  rw [Vector.getElem?_set]
  split <;> simp

theorem getPix_setPix (f : Vector Nat (160 * 144)) (a b v x y : Nat) (hx : x < 160) (hy : y < 144) :
    getPix (setPix f a b v) x y = if x = a ∧ y = b then some v else getPix f x y := by
  unfold getPix setPix
  have hxy : x < 160 ∧ y < 144 := ⟨hx, hy⟩
  rw [if_pos hxy]
  by_cases hab : a < 160 ∧ b < 144
  · rw [if_pos hab, if_pos hxy, Vector.getElem?_setIfInBounds]
    by_cases e : x = a ∧ y = b
    · obtain ⟨rfl, rfl⟩ := e
      simp only [true_and, if_true]
      rw [if_pos (by omega)]
    · rw [if_neg e, if_neg (by omega)]
  · rw [if_neg hab, if_pos hxy, if_neg (by omega)]

theorem checkSprite_eq (s : Scene) (st : PState) (i : Nat) (h : i < 40) :
    checkOverlappingSprite s st i
      = some { st with overlaps := st.overlaps.set i (modelOverlaps s st.ly i) h } := by
  unfold checkOverlappingSprite
  have e : mul8 i 4 = i * 4 := by unfold mul8; omega
  rw [e, oamAt_eq s (i * 4) (by omega), Option.bind_some, dif_pos h]
  rfl

theorem checkSprites_eq (s : Scene) (st : PState) (t : Nat) (h : t < 20) :
    checkOverlappingSprites s st t
      = some { st with overlaps := (st.overlaps.set (2 * t) (modelOverlaps s st.ly (2 * t)) (by omega)).set (2 * t + 1) (modelOverlaps s st.ly (2 * t + 1)) (by omega) } := by
  unfold checkOverlappingSprites
  have e1 : mul8 t 2 = 2 * t := by unfold mul8; omega
  have e2 : add8 (2 * t) 1 = 2 * t + 1 := by unfold add8; omega
  rw [e1, e2, checkSprite_eq s st (2 * t) (by omega), Option.bind_some,
    checkSprite_eq s _ (2 * t + 1) (by omega)]

theorem renderPixelSt_eq (s : Scene) (st : PState) (x : Nat)
    (hov : ∀ i, i < 40 → ovFun st.overlaps i = modelOverlaps s st.ly i) :
    ∃ v, modelPixel s x st.ly = some v ∧
      renderPixelSt s st x = some { st with frame := setPix st.frame x st.ly v } := by
  unfold renderPixelSt
  rw [pixelWith_congr s _ _ x st.ly hov]
  obtain ⟨v, hv⟩ := pixelWith_some s (modelOverlaps s st.ly) x st.ly
  refine ⟨v, hv, ?_⟩
  rw [hv, Option.bind_some]

/-- the four `renderPixel` calls of one mode-3 tick -/
theorem render4_eq (s : Scene) (st : PState) (lx : Nat) (hlx : lx + 3 < 256)
    (hov : ∀ i, i < 40 → ovFun st.overlaps i = modelOverlaps s st.ly i) :
    ∃ v0 v1 v2 v3, modelPixel s lx st.ly = some v0 ∧ modelPixel s (lx + 1) st.ly = some v1 ∧
      modelPixel s (lx + 2) st.ly = some v2 ∧ modelPixel s (lx + 3) st.ly = some v3 ∧
      ((renderPixelSt s st lx).bind fun s1 =>
        (renderPixelSt s s1 (add8 lx 1)).bind fun s2 =>
        (renderPixelSt s s2 (add8 lx 2)).bind fun s3 =>
        renderPixelSt s s3 (add8 lx 3))
      = some { st with frame := setPix (setPix (setPix (setPix st.frame lx st.ly v0) (lx + 1) st.ly v1) (lx + 2) st.ly v2) (lx + 3) st.ly v3 } := by
  have a1 : add8 lx 1 = lx + 1 := by unfold add8; omega
  have a2 : add8 lx 2 = lx + 2 := by unfold add8; omega
  have a3 : add8 lx 3 = lx + 3 := by unfold add8; omega
  rw [a1, a2, a3]
  obtain ⟨v0, h0, e0⟩ := renderPixelSt_eq s st lx hov
  obtain ⟨v1, h1, e1⟩ := renderPixelSt_eq s { st with frame := setPix st.frame lx st.ly v0 } (lx + 1) hov
  obtain ⟨v2, h2, e2⟩ := renderPixelSt_eq s
    { st with frame := setPix (setPix st.frame lx st.ly v0) (lx + 1) st.ly v1 } (lx + 2) hov
  obtain ⟨v3, h3, e3⟩ := renderPixelSt_eq s
    { st with frame := setPix (setPix (setPix st.frame lx st.ly v0) (lx + 1) st.ly v1) (lx + 2) st.ly v2 }
    (lx + 3) hov
  refine ⟨v0, v1, v2, v3, h0, h1, h2, h3, ?_⟩
  rw [e0, Option.bind_some, e1, Option.bind_some, e2, Option.bind_some, e3]

/-! ### the invariant -/

/-- mode left by the tick whose counter value was c-1 (c = 0: before the first tick of the frame) -/
def modeOK (c mode : Nat) : Prop :=
  if c = 0 then mode = 1 ∨ mode = 2
  else if c / 114 < 144 then
    (c % 114 = 0 → mode = 0) ∧ (1 ≤ c % 114 ∧ c % 114 ≤ 20 → mode = 2) ∧
    (21 ≤ c % 114 ∧ c % 114 ≤ 61 → mode = 3) ∧ (62 ≤ c % 114 → mode = 0)
  else if c / 114 = 144 ∧ c % 114 = 0 then mode = 0
  else mode = 1

/-- mode in which the work of the tick with counter value c is done -/
def workMode (c : Nat) : Nat :=
  if c / 114 < 144 then (if c % 114 < 20 then 2 else if c % 114 < 61 then 3 else 0) else 1

theorem nextMode_ok (c mode : Nat) (hc : c < 17556) (h : modeOK c mode) :
    nextMode mode c (c / 114 % 256) (c % 114 % 256) = some (workMode c) := by
  have e1 : c / 114 % 256 = c / 114 := by omega
  have e2 : c % 114 % 256 = c % 114 := by omega
  rw [e1, e2]
  unfold modeOK at h
  unfold workMode
  by_cases h0 : c = 0
  · subst h0
    simp only [if_true] at h
    rcases h with h | h <;> subst h <;> simp [nextMode]
  · rw [if_neg h0] at h
    by_cases hv : c / 114 < 144
    · rw [if_pos hv] at h
      rw [if_pos hv]
      obtain ⟨ha, hb, hc', hd⟩ := h
      have ht : c % 114 = 0 ∨ (1 ≤ c % 114 ∧ c % 114 ≤ 19) ∨ c % 114 = 20 ∨
          (21 ≤ c % 114 ∧ c % 114 ≤ 60) ∨ c % 114 = 61 ∨ 62 ≤ c % 114 := by omega
      rcases ht with ht | ht | ht | ht | ht | ht
      · rw [ha ht, ht]; simp only [nextMode]
        have : ¬ c / 114 = 144 := by omega
        simp [this]
      · rw [hb (by omega)]; simp only [nextMode]
        have : ¬ c % 114 = 20 := by omega
        have h2 : c % 114 < 20 := by omega
        simp [this, h2]
      · rw [hb (by omega), ht]; simp [nextMode]
      · rw [hc' (by omega)]; simp only [nextMode]
        have : ¬ c % 114 = 61 := by omega
        have h2 : ¬ c % 114 < 20 := by omega
        have h3 : c % 114 < 61 := by omega
        simp [this, h2, h3]
      · rw [hc' (by omega), ht]; simp [nextMode]
      · rw [hd ht]; simp only [nextMode]
        have : ¬ c % 114 = 0 := by omega
        have h2 : ¬ c % 114 < 20 := by omega
        have h3 : ¬ c % 114 < 61 := by omega
        simp [this, h2, h3]
    · rw [if_neg hv] at h
      rw [if_neg hv]
      by_cases hz : c / 114 = 144 ∧ c % 114 = 0
      · rw [if_pos hz] at h
        subst h
        simp [nextMode, hz.1, hz.2]
      · rw [if_neg hz] at h
        subst h
        simp [nextMode, h0]

/-- the invariant at counter value c (c = 17556 stands for the wrapped counter 0 at the end of the frame);
    `fl` = the short first line is still ahead -/
structure TickInv (s : Scene) (fl : Bool) (c : Nat) (st : PState) : Prop where
  hticks : st.ticks = c % 17556
  hfl    : st.firstLine = fl
  hflc   : fl = true → c ≤ 61
  hmode  : modeOK c st.mode
  hov    : ∀ i, i < 40 → c / 114 < 144 → i < 2 * (c % 114) → ovFun st.overlaps i = modelOverlaps s (c / 114) i
  hfr    : ∀ x y, x < 160 → y < 144 → (y < c / 114 ∨ (y = c / 114 ∧ x + 80 < 4 * (c % 114))) →
            getPix st.frame x y = modelPixel s x y

/-- `tick` once the mode switch is resolved -/
theorem tick_unfold (s : Scene) (hen : enabled s = true) (st : PState) (c : Nat) (hc : st.ticks = c)
    (hlt : c < 17556) (hm : modeOK c st.mode) :
    tick s st = (tickWork s { st with ly := c / 114, mode := workMode c } (c % 114)).bind fun st' =>
      some { st' with ticks := if st'.ticks + 1 = 17556 then 0 else st'.ticks + 1 } := by
  unfold tick
  rw [hen, hc]
  simp only [Bool.not_true, Bool.false_eq_true, if_false]
  rw [nextMode_ok c st.mode hlt hm, Option.bind_some]
  have e1 : c / 114 % 256 = c / 114 := by omega
  have e2 : c % 114 % 256 = c % 114 := by omega
  rw [e1, e2]

/-- mode 2: ticks 0..19 of a visible line evaluate objects 2t and 2t+1 for that line -/
theorem step_mode2 (s : Scene) (hen : enabled s = true) (fl : Bool) (c : Nat) (st : PState)
    (inv : TickInv s fl c st) (hv : c / 114 < 144) (ht : c % 114 < 20) :
    ∃ st', tick s st = some st' ∧ TickInv s fl (c + 1) st' := by
  have hlt : c < 17556 := by omega
  have hc : st.ticks = c := by rw [inv.hticks]; omega
  have hw : workMode c = 2 := by unfold workMode; rw [if_pos hv, if_pos ht]
  rw [tick_unfold s hen st _ hc hlt inv.hmode, hw]
  simp only [tickWork]
  rw [checkSprites_eq s _ _ ht, Option.bind_some]
  refine ⟨_, rfl, ?_⟩
  have hfl := inv.hfl
  have hflc := inv.hflc
  have hov := inv.hov
  have hfr := inv.hfr
  constructor
  · show (if st.ticks + 1 = 17556 then 0 else st.ticks + 1) = (c + 1) % 17556
    rw [hc, if_neg (by omega)]; omega
  · exact hfl
  · intro h; have := hflc h; omega
  · show modeOK (c + 1) 2
    unfold modeOK
    rw [if_neg (by omega), if_pos (by omega)]
    refine ⟨?_, ?_, ?_, ?_⟩ <;> intros <;> omega
  · intro i hi hv' hi2
    dsimp only
    have e1 : (c + 1) / 114 = c / 114 := by omega
    rw [ovFun_set, ovFun_set, e1]
    by_cases h1 : 2 * (c % 114) + 1 = i
    · rw [if_pos h1, h1]
    · rw [if_neg h1]
      by_cases h0 : 2 * (c % 114) = i
      · rw [if_pos h0, h0]
      · rw [if_neg h0]
        exact hov i hi hv (by omega)
  · intro x y hx hy hxy
    show getPix st.frame x y = _
    exact hfr x y hx hy (by omega)

/-- mode 3: ticks 20..59 of a visible line render pixels 4(t-20)..4(t-20)+3 of that line -/
theorem step_mode3 (s : Scene) (hen : enabled s = true) (fl : Bool) (c : Nat) (st : PState)
    (inv : TickInv s fl c st) (hv : c / 114 < 144) (ht : 20 ≤ c % 114) (ht' : c % 114 < 60) :
    ∃ st', tick s st = some st' ∧ TickInv s fl (c + 1) st' := by
  have hlt : c < 17556 := by omega
  have hc : st.ticks = c := by rw [inv.hticks]; omega
  have hw : workMode c = 3 := by
    unfold workMode; rw [if_pos hv, if_neg (by omega), if_pos (by omega)]
  rw [tick_unfold s hen st _ hc hlt inv.hmode, hw]
  simp only [tickWork]
  have hlx : mul8 (sub8 (c % 114) 20) 4 = 4 * (c % 114) - 80 := by
    unfold mul8 sub8; omega
  rw [hlx, if_pos (by omega)]
  have hov := inv.hov
  obtain ⟨v0, v1, v2, v3, h0, h1, h2, h3, e⟩ := render4_eq s
    { st with ly := c / 114, mode := 3 } (4 * (c % 114) - 80) (by omega)
    (fun i hi => hov i hi hv (by omega))
  rw [e, Option.bind_some]
  refine ⟨_, rfl, ?_⟩
  have hfl := inv.hfl
  have hflc := inv.hflc
  have hfr := inv.hfr
  simp only [] at h0 h1 h2 h3
  constructor
  · show (if st.ticks + 1 = 17556 then 0 else st.ticks + 1) = (c + 1) % 17556
    rw [hc, if_neg (by omega)]; omega
  · exact hfl
  · intro h; have := hflc h; omega
  · show modeOK (c + 1) 3
    unfold modeOK
    rw [if_neg (by omega), if_pos (by omega)]
    refine ⟨?_, ?_, ?_, ?_⟩ <;> intros <;> omega
  · intro i hi hv' hi2
    show ovFun st.overlaps i = _
    have e1 : (c + 1) / 114 = c / 114 := by omega
    rw [e1]
    exact hov i hi hv (by omega)
  · intro x y hx hy hxy
    show getPix (setPix (setPix (setPix (setPix st.frame _ _ v0) _ _ v1) _ _ v2) _ _ v3) x y = _
    have e1 : (c + 1) / 114 = c / 114 := by omega
    rw [e1] at hxy
    rw [getPix_setPix _ _ _ _ _ _ hx hy, getPix_setPix _ _ _ _ _ _ hx hy, getPix_setPix _ _ _ _ _ _ hx hy,
      getPix_setPix _ _ _ _ _ _ hx hy]
    by_cases k3 : x = 4 * (c % 114) - 80 + 3 ∧ y = c / 114
    · rw [if_pos k3, k3.1, k3.2, h3]
    · rw [if_neg k3]
      by_cases k2 : x = 4 * (c % 114) - 80 + 2 ∧ y = c / 114
      · rw [if_pos k2, k2.1, k2.2, h2]
      · rw [if_neg k2]
        by_cases k1 : x = 4 * (c % 114) - 80 + 1 ∧ y = c / 114
        · rw [if_pos k1, k1.1, k1.2, h1]
        · rw [if_neg k1]
          by_cases k0 : x = 4 * (c % 114) - 80 ∧ y = c / 114
          · rw [if_pos k0, k0.1, k0.2, h0]
          · rw [if_neg k0]
            exact hfr x y hx hy (by omega)

/-- mode 3, tick 60 of a visible line: `lx` = 160, nothing is rendered -/
theorem step_mode3_idle (s : Scene) (hen : enabled s = true) (fl : Bool) (c : Nat) (st : PState)
    (inv : TickInv s fl c st) (hv : c / 114 < 144) (ht : c % 114 = 60) :
    ∃ st', tick s st = some st' ∧ TickInv s fl (c + 1) st' := by
  have hlt : c < 17556 := by omega
  have hc : st.ticks = c := by rw [inv.hticks]; omega
  have hw : workMode c = 3 := by
    unfold workMode; rw [if_pos hv, if_neg (by omega), if_pos (by omega)]
  rw [tick_unfold s hen st _ hc hlt inv.hmode, hw]
  simp only [tickWork]
  have hlx : mul8 (sub8 (c % 114) 20) 4 = 160 := by unfold mul8 sub8; omega
  rw [hlx, if_neg (by omega), Option.bind_some]
  refine ⟨_, rfl, ?_⟩
  have hfl := inv.hfl
  have hflc := inv.hflc
  have hov := inv.hov
  have hfr := inv.hfr
  constructor
  · show (if st.ticks + 1 = 17556 then 0 else st.ticks + 1) = (c + 1) % 17556
    rw [hc, if_neg (by omega)]; omega
  · exact hfl
  · intro h; have := hflc h; omega
  · show modeOK (c + 1) 3
    unfold modeOK
    rw [if_neg (by omega), if_pos (by omega)]
    refine ⟨?_, ?_, ?_, ?_⟩ <;> intros <;> omega
  · intro i hi hv' hi2
    show ovFun st.overlaps i = _
    have e1 : (c + 1) / 114 = c / 114 := by omega
    rw [e1]
    exact hov i hi hv (by omega)
  · intro x y hx hy hxy
    show getPix st.frame x y = _
    exact hfr x y hx hy (by omega)

/-- mode 0 on the short first line: tick 61 of line 0 skips two counter values -/
theorem step_mode0_first (s : Scene) (hen : enabled s = true) (st : PState)
    (inv : TickInv s true 61 st) :
    ∃ st', tick s st = some st' ∧ TickInv s false 64 st' := by
  have hc : st.ticks = 61 := by rw [inv.hticks]
  have hw : workMode 61 = 0 := by decide
  have hfl := inv.hfl
  rw [tick_unfold s hen st _ hc (by omega) inv.hmode, hw]
  simp only [tickWork]
  rw [hfl, if_pos rfl, Option.bind_some]
  refine ⟨_, rfl, ?_⟩
  have hov := inv.hov
  have hfr := inv.hfr
  constructor
  · show (if st.ticks + 2 + 1 = 17556 then 0 else st.ticks + 2 + 1) = 64 % 17556
    rw [hc]; rfl
  · rfl
  · intro h; cases h
  · show modeOK 64 0
    unfold modeOK
    rw [if_neg (by omega), if_pos (by omega)]
    refine ⟨?_, ?_, ?_, ?_⟩ <;> intros <;> omega
  · intro i hi hv' hi2
    show ovFun st.overlaps i = _
    exact hov i hi (by omega) (by omega)
  · intro x y hx hy hxy
    show getPix st.frame x y = _
    exact hfr x y hx hy (by omega)

/-- mode 0 (h-blank), ticks 61..113 of a visible line -/
theorem step_mode0 (s : Scene) (hen : enabled s = true) (c : Nat) (st : PState)
    (inv : TickInv s false c st) (hv : c / 114 < 144) (ht : 61 ≤ c % 114) :
    ∃ st', tick s st = some st' ∧ TickInv s false (c + 1) st' := by
  have hlt : c < 17556 := by omega
  have hc : st.ticks = c := by rw [inv.hticks]; omega
  have hw : workMode c = 0 := by
    unfold workMode; rw [if_pos hv, if_neg (by omega), if_neg (by omega)]
  have hfl := inv.hfl
  rw [tick_unfold s hen st _ hc hlt inv.hmode, hw]
  simp only [tickWork]
  rw [hfl, if_neg (by simp), Option.bind_some]
  refine ⟨_, rfl, ?_⟩
  have hov := inv.hov
  have hfr := inv.hfr
  constructor
  · show (if st.ticks + 1 = 17556 then 0 else st.ticks + 1) = (c + 1) % 17556
    rw [hc, if_neg (by omega)]; omega
  · rfl
  · intro h; cases h
  · show modeOK (c + 1) 0
    unfold modeOK
    rw [if_neg (by omega)]
    by_cases h1 : (c + 1) / 114 < 144
    · rw [if_pos h1]
      refine ⟨?_, ?_, ?_, ?_⟩ <;> intros <;> omega
    · rw [if_neg h1, if_pos (by omega)]
  · intro i hi hv' hi2
    show ovFun st.overlaps i = _
    have e1 : (c + 1) / 114 = c / 114 := by omega
    rw [e1]
    exact hov i hi hv (by omega)
  · intro x y hx hy hxy
    show getPix st.frame x y = _
    exact hfr x y hx hy (by omega)

/-- mode 1 (v-blank), lines 144..153: nothing is evaluated or rendered -/
theorem step_mode1 (s : Scene) (hen : enabled s = true) (c : Nat) (st : PState)
    (inv : TickInv s false c st) (hv : 144 ≤ c / 114) (hlt : c < 17556) :
    ∃ st', tick s st = some st' ∧ TickInv s false (c + 1) st' := by
  have hc : st.ticks = c := by rw [inv.hticks]; omega
  have hw : workMode c = 1 := by unfold workMode; rw [if_neg (by omega)]
  have hfl := inv.hfl
  rw [tick_unfold s hen st _ hc hlt inv.hmode, hw]
  simp only [tickWork, Option.bind_some]
  refine ⟨_, rfl, ?_⟩
  have hfr := inv.hfr
  constructor
  · show (if st.ticks + 1 = 17556 then 0 else st.ticks + 1) = (c + 1) % 17556
    rw [hc]; split <;> omega
  · exact hfl
  · intro h; cases h
  · show modeOK (c + 1) 1
    unfold modeOK
    rw [if_neg (by omega), if_neg (by omega), if_neg (by omega)]
  · intro i hi hv' hi2
    omega
  · intro x y hx hy hxy
    show getPix st.frame x y = _
    exact hfr x y hx hy (by omega)

/-- one call of EndMachineCycle preserves the invariant -/
theorem tick_step (s : Scene) (hen : enabled s = true) (fl : Bool) (c : Nat) (st : PState)
    (inv : TickInv s fl c st) (hlt : c < 17556) :
    ∃ st', tick s st = some st' ∧
      TickInv s (fl && decide (c ≠ 61)) (if fl = true ∧ c = 61 then 64 else c + 1) st' := by
  have hflc := inv.hflc
  by_cases hv : c / 114 < 144
  · by_cases h20 : c % 114 < 20
    · have e : (fl && decide (c ≠ 61)) = fl := by cases fl <;> simp; omega
      rw [e, if_neg (by omega)]
      exact step_mode2 s hen fl c st inv hv h20
    · by_cases h60 : c % 114 < 60
      · have e : (fl && decide (c ≠ 61)) = fl := by cases fl <;> simp; omega
        rw [e, if_neg (by omega)]
        exact step_mode3 s hen fl c st inv hv (by omega) h60
      · by_cases h61 : c % 114 = 60
        · have e : (fl && decide (c ≠ 61)) = fl := by cases fl <;> simp; omega
          rw [e, if_neg (by omega)]
          exact step_mode3_idle s hen fl c st inv hv h61
        · cases fl
          · simp only [Bool.false_and, Bool.false_eq_true, false_and, if_false]
            exact step_mode0 s hen c st inv hv (by omega)
          · have hc61 : c = 61 := by have := hflc rfl; omega
            subst hc61
            simp only [ne_eq, not_true_eq_false, decide_false, Bool.and_false, and_self, if_true]
            exact step_mode0_first s hen st inv
  · cases fl
    · simp only [Bool.false_and, Bool.false_eq_true, false_and, if_false]
      exact step_mode1 s hen c st inv (by omega) hlt
    · have := hflc rfl; omega

theorem run_succ (s : Scene) : ∀ (n : Nat) (st : PState), run s (n + 1) st = (run s n st).bind (tick s) := by
  intro n
  induction n with
  | zero => intro st; simp [run]
  | succ k ih =>
    intro st
    show (tick s st).bind (run s (k + 1)) = ((tick s st).bind (run s k)).bind (tick s)
    cases tick s st with
    | none => rfl
    | some st1 => exact ih st1

/-- value of `ppu.ticks` after n calls from the start of line 0 (`fl0`: the short first line is ahead),
    not yet reduced modulo 17556 -/
def cnt (fl0 : Bool) (n : Nat) : Nat := if fl0 = true ∧ 62 ≤ n then n + 2 else n

theorem run_inv (s : Scene) (hen : enabled s = true) (fl0 : Bool) (st0 : PState) (h0 : TickInv s fl0 0 st0) :
    ∀ n, cnt fl0 n ≤ 17556 →
      ∃ st, run s n st0 = some st ∧ TickInv s (fl0 && decide (n < 62)) (cnt fl0 n) st := by
  intro n
  induction n with
  | zero =>
    intro _
    refine ⟨st0, rfl, ?_⟩
    have : (fl0 && decide (0 < 62)) = fl0 := by simp
    have c0 : cnt fl0 0 = 0 := by unfold cnt; simp
    rw [this, c0]; exact h0
  | succ k ih =>
    intro hk
    have hk' : cnt fl0 k < 17556 := by
      unfold cnt at hk ⊢; cases fl0 <;> simp at hk ⊢
      · omega
      · split at hk <;> split <;> omega
    obtain ⟨st, hr, inv⟩ := ih (by omega)
    obtain ⟨st', ht, inv'⟩ := tick_step s hen _ _ st inv hk'
    refine ⟨st', by rw [run_succ, hr, Option.bind_some, ht], ?_⟩
    have e1 : ((fl0 && decide (k < 62)) && decide (cnt fl0 k ≠ 61)) = (fl0 && decide (k + 1 < 62)) := by
      unfold cnt; cases fl0
      · simp
      · by_cases h : k < 61
        · have h1 : k < 62 := by omega
          have h2 : ¬ 62 ≤ k := by omega
          have h3 : k ≠ 61 := by omega
          have h4 : k + 1 < 62 := by omega
          simp [h1, h2, h3, h4]
        · by_cases h' : k = 61
          · subst h'; simp
          · have h1 : ¬ k < 62 := by omega
            have h4 : ¬ k + 1 < 62 := by omega
            simp [h1, h4]
    have e2 : (if (fl0 && decide (k < 62)) = true ∧ cnt fl0 k = 61 then 64 else cnt fl0 k + 1) = cnt fl0 (k + 1) := by
      unfold cnt; cases fl0
      · simp
      · by_cases h : k < 61
        · have h1 : k < 62 := by omega
          have h2 : ¬ 62 ≤ k := by omega
          have h3 : k ≠ 61 := by omega
          have h4 : ¬ 62 ≤ k + 1 := by omega
          simp [h1, h2, h3, h4]
        · by_cases h' : k = 61
          · subst h'; simp
          · have h1 : ¬ k < 62 := by omega
            have h2 : 62 ≤ k := by omega
            have h4 : 62 ≤ k + 1 := by omega
            simp [h1, h2, h4]
    rw [e1, e2] at inv'
    exact inv'

end Tetro.C15
