import Tetro.Model.Oam
/-
Helper lemmas about `Model.Oam` shared by `Proofs/C16.lean` and `Proofs/C17Oam.lean`:
when the checked accesses succeed, and which fields each function can change ("shape").
-/
namespace Tetro.Model.Oam

theorem ld_eq {m : Mem} {i : Nat} (h : i < 160) : ld m i = some m[i] := by simp [ld, h]
theorem ld_none {m : Mem} {i : Nat} (h : 160 ≤ i) : ld m i = none := by
  simp only [ld]; rw [dif_neg (by omega)]
theorem st_eq {m : Mem} {i : Nat} {v : Byte} (h : i < 160) : st m i v = some (m.set i v h) := by
  simp [st, h]
theorem st_none {m : Mem} {i : Nat} {v : Byte} (h : 160 ≤ i) : st m i v = none := by
  simp only [st]; rw [dif_neg (by omega)]
theorem copy_eq {m : Mem} {dlo dhi slo shi : Nat} (h : dlo ≤ dhi ∧ dhi ≤ 160 ∧ slo ≤ shi ∧ shi ≤ 160) :
    copy m dlo dhi slo shi = some (copyN m dlo slo (min (dhi - dlo) (shi - slo)) (by omega)) := by
  simp only [copy]; rw [dif_pos h]

theorem ld_isSome {m : Mem} {i : Nat} (h : i < 160) : ∃ v, ld m i = some v := ⟨_, ld_eq h⟩
theorem st_isSome {m : Mem} {i : Nat} {v : Byte} (h : i < 160) : ∃ m', st m i v = some m' := ⟨_, st_eq h⟩
theorem copy_isSome {m : Mem} {dlo dhi slo shi : Nat} (h : dlo ≤ dhi ∧ dhi ≤ 160 ∧ slo ≤ shi ∧ shi ≤ 160) :
    ∃ m', copy m dlo dhi slo shi = some m' := ⟨_, copy_eq h⟩

/-- the single-row patch succeeds for every row start 8..152 -/
theorem patchRow_isSome (f : BitVec 16 → BitVec 16 → BitVec 16 → BitVec 16) (m : Mem) (rs : Nat)
    (h : 8 ≤ rs ∧ rs + 8 ≤ 160) : ∃ m', patchRow f m rs = some m' := by
  obtain ⟨a0, e1⟩ := ld_isSome (m := m) (i := rs) (by omega)
  obtain ⟨a1, e2⟩ := ld_isSome (m := m) (i := add16 rs 1) (by simp only [add16]; omega)
  obtain ⟨b0, e3⟩ := ld_isSome (m := m) (i := sub16 rs 8) (by simp only [sub16]; omega)
  obtain ⟨b1, e4⟩ := ld_isSome (m := m) (i := sub16 rs 7) (by simp only [sub16]; omega)
  obtain ⟨c0, e5⟩ := ld_isSome (m := m) (i := sub16 rs 4) (by simp only [sub16]; omega)
  obtain ⟨c1, e6⟩ := ld_isSome (m := m) (i := sub16 rs 3) (by simp only [sub16]; omega)
  unfold patchRow
  simp only [Option.bind_eq_bind]
  rw [e1, Option.bind_some, e2, Option.bind_some, e3, Option.bind_some, e4, Option.bind_some,
    e5, Option.bind_some, e6, Option.bind_some]
  obtain ⟨m1, e7⟩ := st_isSome (m := m) (i := rs)
    (v := hiByte (f (word a0 a1) (word b0 b1) (word c0 c1))) (by omega)
  rw [e7, Option.bind_some]
  obtain ⟨m2, e8⟩ := st_isSome (m := m1) (i := add16 rs 1)
    (v := loByte (f (word a0 a1) (word b0 b1) (word c0 c1))) (by simp only [add16]; omega)
  rw [e8, Option.bind_some]
  exact copy_isSome (by simp only [add16, sub16]; omega)

/-- the single-row patch panics at its first index for every row start ≥ 160 -/
theorem patchRow_none (f : BitVec 16 → BitVec 16 → BitVec 16 → BitVec 16) (m : Mem) (rs : Nat)
    (h : 160 ≤ rs) : patchRow f m rs = none := by
  unfold patchRow
  simp only [Option.bind_eq_bind]
  rw [ld_none h, Option.bind_none]

theorem patchReadWrite_isSome (m : Mem) (rs : Nat) (h : 16 ≤ rs ∧ rs + 8 ≤ 160) :
    ∃ m', patchReadWrite m rs = some m' := by
  obtain ⟨a0, e1⟩ := ld_isSome (m := m) (i := sub16 rs 16) (by simp only [sub16]; omega)
  obtain ⟨a1, e2⟩ := ld_isSome (m := m) (i := sub16 rs 15) (by simp only [sub16]; omega)
  obtain ⟨b0, e3⟩ := ld_isSome (m := m) (i := sub16 rs 8) (by simp only [sub16]; omega)
  obtain ⟨b1, e4⟩ := ld_isSome (m := m) (i := sub16 rs 7) (by simp only [sub16]; omega)
  obtain ⟨c0, e5⟩ := ld_isSome (m := m) (i := rs) (by omega)
  obtain ⟨c1, e6⟩ := ld_isSome (m := m) (i := add16 rs 1) (by simp only [add16]; omega)
  obtain ⟨d0, e7⟩ := ld_isSome (m := m) (i := sub16 rs 4) (by simp only [sub16]; omega)
  obtain ⟨d1, e8⟩ := ld_isSome (m := m) (i := sub16 rs 3) (by simp only [sub16]; omega)
  unfold patchReadWrite
  simp only [Option.bind_eq_bind]
  rw [e1, Option.bind_some, e2, Option.bind_some, e3, Option.bind_some, e4, Option.bind_some,
    e5, Option.bind_some, e6, Option.bind_some, e7, Option.bind_some, e8, Option.bind_some]
  obtain ⟨m1, e9⟩ := st_isSome (m := m) (i := sub16 rs 8)
    (v := hiByte (fReadWrite (word a0 a1) (word b0 b1) (word c0 c1) (word d0 d1)))
    (by simp only [sub16]; omega)
  rw [e9, Option.bind_some]
  obtain ⟨m2, e10⟩ := st_isSome (m := m1) (i := sub16 rs 7)
    (v := loByte (fReadWrite (word a0 a1) (word b0 b1) (word c0 c1) (word d0 d1)))
    (by simp only [sub16]; omega)
  rw [e10, Option.bind_some]
  obtain ⟨m3, e11⟩ := copy_isSome (m := m2) (dlo := rs) (dhi := add16 rs 8) (slo := sub16 rs 8) (shi := rs)
    (by simp only [add16, sub16]; omega)
  rw [e11, Option.bind_some]
  exact copy_isSome (by simp only [sub16]; omega)

/-! ### which fields the corruption functions can change -/

theorem writeCorruption_shape {s s' : Oam} (h : writeCorruption s = some s') :
    ∃ m, s' = { s with oam := m } := by
  simp only [writeCorruption] at h
  split at h
  · cases h; exact ⟨s.oam, rfl⟩
  · cases hp : patchRow fWrite s.oam (mul16 (rowOf s) 8) with
    | none => simp [hp] at h
    | some m => simp [hp] at h; exact ⟨m, h.symm⟩

theorem readCorruption_shape {s s' : Oam} (h : readCorruption s = some s') :
    ∃ m, s' = { s with oam := m } := by
  simp only [readCorruption] at h
  split at h
  · cases h; exact ⟨s.oam, rfl⟩
  · cases hp : patchRow fRead s.oam (mul16 (rowOf s) 8) with
    | none => simp [hp] at h
    | some m => simp [hp] at h; exact ⟨m, h.symm⟩

theorem readWriteCorruption_shape {s s' : Oam} (h : readWriteCorruption s = some s') :
    ∃ m, s' = { s with oam := m } := by
  simp only [readWriteCorruption] at h
  split at h
  · cases h; exact ⟨s.oam, rfl⟩
  · cases hp : patchReadWrite s.oam (mul16 (rowOf s) 8) with
    | none => simp [hp] at h
    | some m => simp [hp] at h; exact ⟨m, h.symm⟩

theorem doubleWriteCorruption_shape {s s' : Oam} (h : doubleWriteCorruption s = some s') :
    ∃ m, s' = { s with oam := m } := by
  simp only [doubleWriteCorruption] at h
  split at h
  · cases h; exact ⟨s.oam, rfl⟩
  · cases hp : patchRow fWrite s.oam (mul16 (sub16 (rowOf s) 1) 8) with
    | none => simp [hp] at h
    | some m => simp [hp] at h; exact ⟨m, h.symm⟩

theorem corruptWrites_shape {s s' : Oam} (h : corruptWrites s = some s') :
    ∃ m, s' = { s with oam := m } := by
  simp only [corruptWrites] at h
  rw [Option.bind_eq_some_iff] at h
  obtain ⟨t, ht, h⟩ := h
  have h1 : ∃ m, t = { s with oam := m } := by
    split at ht
    · exact doubleWriteCorruption_shape ht
    · cases ht; exact ⟨s.oam, rfl⟩
  obtain ⟨m1, rfl⟩ := h1
  split at h
  · obtain ⟨m2, rfl⟩ := writeCorruption_shape h; exact ⟨m2, rfl⟩
  · cases h; exact ⟨m1, rfl⟩

/-- `Corrupt` either returns at once (no flag pending) or changes at most the OAM bytes and
    clears the three flags -/
theorem corruptStep_shape {s s' : Oam} (h : corruptStep s = some s') :
    (s.read = false ∧ s.write = false ∧ s' = s) ∨
    ((s.read = true ∨ s.write = true) ∧
      ∃ m, s' = { s with oam := m, read := false, write := false, doubleWrite := false }) := by
  simp only [corruptStep] at h
  split at h
  · next hc =>
    cases h
    left
    cases hr : s.read <;> cases hw : s.write <;> simp [hr, hw] at hc ⊢
  · next hc =>
    right
    refine ⟨by cases hr : s.read <;> cases hw : s.write <;> simp [hr, hw] at hc ⊢, ?_⟩
    rw [Option.bind_eq_some_iff] at h
    obtain ⟨s1, hs1, h⟩ := h
    rw [Option.bind_eq_some_iff] at h
    obtain ⟨s2, hs2, h⟩ := h
    have h1 : ∃ m, s1 = { s with oam := m } := by
      split at hs1
      · exact readWriteCorruption_shape hs1
      · cases hs1; exact ⟨s.oam, rfl⟩
    obtain ⟨m1, rfl⟩ := h1
    have h2 : ∃ m, s2 = { s with oam := m } := by
      split at hs2
      · obtain ⟨m2, rfl⟩ := readCorruption_shape hs2; exact ⟨m2, rfl⟩
      · obtain ⟨m2, rfl⟩ := corruptWrites_shape hs2; exact ⟨m2, rfl⟩
    obtain ⟨m2, rfl⟩ := h2
    cases h
    exact ⟨m2, rfl⟩

/-! ### the row arithmetic stays inside the array when the PPU's last access was in FE00–FE9F -/

/-- the invariant established by the first `PPURead` with a legal sprite address -/
def PlaOk (s : Oam) : Prop := 0xfe00 ≤ s.ppuLastAccess.toNat ∧ s.ppuLastAccess.toNat ≤ 0xfe9f

theorem rowOf_lt {s : Oam} (h : PlaOk s) : rowOf s < 20 := by
  unfold PlaOk at h; simp only [rowOf, sub16]; omega

theorem writeCorruption_ok {s : Oam} (h : PlaOk s) : ∃ s', writeCorruption s = some s' := by
  have hr := rowOf_lt h
  simp only [writeCorruption]
  split
  · exact ⟨s, rfl⟩
  · next h0 =>
    obtain ⟨m, hm⟩ := patchRow_isSome fWrite s.oam (mul16 (rowOf s) 8) (by simp only [mul16] at h0 ⊢; omega)
    exact ⟨_, by rw [hm]; rfl⟩

theorem readCorruption_ok {s : Oam} (h : PlaOk s) : ∃ s', readCorruption s = some s' := by
  have hr := rowOf_lt h
  simp only [readCorruption]
  split
  · exact ⟨s, rfl⟩
  · next h0 =>
    obtain ⟨m, hm⟩ := patchRow_isSome fRead s.oam (mul16 (rowOf s) 8) (by simp only [mul16] at h0 ⊢; omega)
    exact ⟨_, by rw [hm]; rfl⟩

theorem readWriteCorruption_ok {s : Oam} (h : PlaOk s) : ∃ s', readWriteCorruption s = some s' := by
  have hr := rowOf_lt h
  simp only [readWriteCorruption]
  split
  · exact ⟨s, rfl⟩
  · next h0 =>
    obtain ⟨m, hm⟩ := patchReadWrite_isSome s.oam (mul16 (rowOf s) 8) (by simp only [mul16]; omega)
    exact ⟨_, by rw [hm]; rfl⟩

theorem doubleWriteCorruption_ok {s : Oam} (h : PlaOk s) : ∃ s', doubleWriteCorruption s = some s' := by
  have hr := rowOf_lt h
  simp only [doubleWriteCorruption]
  split
  · exact ⟨s, rfl⟩
  · next h0 =>
    obtain ⟨m, hm⟩ := patchRow_isSome fWrite s.oam (mul16 (sub16 (rowOf s) 1) 8)
      (by simp only [mul16, sub16]; omega)
    exact ⟨_, by rw [hm]; rfl⟩

theorem corruptWrites_ok {s : Oam} (h : PlaOk s) : ∃ s', corruptWrites s = some s' := by
  simp only [corruptWrites]
  have h1 : ∃ t, (if s.doubleWrite = true then doubleWriteCorruption s else some s) = some t ∧ PlaOk t := by
    split
    · obtain ⟨t, ht⟩ := doubleWriteCorruption_ok h
      obtain ⟨m, rfl⟩ := doubleWriteCorruption_shape ht
      exact ⟨_, ht, h⟩
    · exact ⟨s, rfl, h⟩
  obtain ⟨t, ht, hpt⟩ := h1
  rw [ht, Option.bind_some]
  split
  · exact writeCorruption_ok hpt
  · exact ⟨t, rfl⟩

theorem corruptStep_ok {s : Oam} (h : PlaOk s) : ∃ s', corruptStep s = some s' := by
  simp only [corruptStep]
  split
  · exact ⟨s, rfl⟩
  · have h1 : ∃ t, (if (s.read && s.write) = true then readWriteCorruption s else some s) = some t ∧ PlaOk t := by
      split
      · obtain ⟨t, ht⟩ := readWriteCorruption_ok h
        obtain ⟨m, rfl⟩ := readWriteCorruption_shape ht
        exact ⟨_, ht, h⟩
      · exact ⟨s, rfl, h⟩
    obtain ⟨t, ht, hpt⟩ := h1
    rw [ht, Option.bind_some]
    have h2 : ∃ u, (if t.read = true then readCorruption t else corruptWrites t) = some u := by
      split
      · exact readCorruption_ok hpt
      · exact corruptWrites_ok hpt
    obtain ⟨u, hu⟩ := h2
    rw [hu, Option.bind_some]
    exact ⟨_, rfl⟩


/-! ### shapes of the other exported functions -/

theorem writeFlags_oam (s : Oam) : (writeFlags s).oam = s.oam := by
  unfold writeFlags
  split
  · split <;> rfl
  · rfl

theorem cpuRead_shape {s : Oam} {a : Addr} {p : Oam × Byte} (h : cpuRead s a = some p) :
    p.1 = s ∨ (s.dmaRunning = false ∧ s.corrupt = true ∧ p.1 = { s with read := true }) := by
  simp only [cpuRead] at h
  split at h
  · cases h; exact Or.inl rfl
  · next hrun =>
    have hrun' : s.dmaRunning = false := by simpa using hrun
    by_cases hc : s.corrupt = true
    · right
      refine ⟨hrun', hc, ?_⟩
      rw [if_pos hc] at h
      split at h
      · cases h; rfl
      · rw [Option.map_eq_some_iff] at h
        obtain ⟨v, _, rfl⟩ := h; rfl
    · left
      rw [if_neg hc] at h
      split at h
      · cases h; rfl
      · rw [Option.map_eq_some_iff] at h
        obtain ⟨v, _, rfl⟩ := h; rfl

/-- a CPU read returns the addressed byte (FE00–FE9F), 0 (FEA0–FEFF) or 0xFF (transfer running) -/
theorem cpuRead_value {s : Oam} {a : Addr} (h1 : 0xfe00 ≤ a.toNat) (h2 : a.toNat ≤ 0xfeff) :
    ∃ p, cpuRead s a = some p ∧
      p.2 = (if s.dmaRunning then 0xff
             else if h : a.toNat - 0xfe00 < 160 then s.oam[a.toNat - 0xfe00] else 0) := by
  simp only [cpuRead]
  split
  · exact ⟨_, rfl, rfl⟩
  · split
    · next hge => exact ⟨_, rfl, by rw [dif_neg (by omega)]⟩
    · next hlt =>
      have hidx : sub16 a.toNat 0xfe00 = a.toNat - 0xfe00 := by simp only [sub16]; omega
      have hoam : (if s.corrupt = true then { s with read := true } else s).oam = s.oam := by
        split <;> rfl
      rw [hidx, hoam, ld_eq (by omega)]
      exact ⟨_, rfl, by rw [dif_pos (by omega)]⟩

theorem cpuWrite_shape {s s' : Oam} {a : Addr} {v : Byte} (h : cpuWrite s a v = some s') :
    (a.toNat < 0xfea0 → ∃ hi : sub16 a.toNat 0xfe00 < 160,
        s' = { writeFlags s with oam := s.oam.set (sub16 a.toNat 0xfe00) v hi }) ∧
    (0xfea0 ≤ a.toNat → s' = writeFlags s) := by
  simp only [cpuWrite] at h
  split at h
  · next hlt =>
    refine ⟨fun _ => ?_, fun hge => by omega⟩
    rw [Option.map_eq_some_iff] at h
    obtain ⟨m, hm, rfl⟩ := h
    simp only [st] at hm
    split at hm
    · next hi => cases hm; exact ⟨hi, by simp only [writeFlags_oam]⟩
    · cases hm
  · next hge => cases h; exact ⟨fun hlt => by omega, fun _ => rfl⟩

theorem ppuRead_shape {s : Oam} {a : Addr} {p : Oam × Byte} (h : ppuRead s a = some p) :
    p.1 = { s with ppuLastAccess := a } := by
  simp only [ppuRead] at h
  split at h
  · cases h; rfl
  · rw [Option.map_eq_some_iff] at h
    obtain ⟨v, _, rfl⟩ := h; rfl

/-- the OAM index the next `TickDMA` stores to (when it stores at all) -/
def dmaStoreIndex (s : Oam) : Nat :=
  if s.dmaCycle.toNat = 161 then 159 else sub16 s.dmaCycle.toNat 2

/-- all fields outside the DMA engine that `TickDMA` leaves alone, and its effect on the bytes -/
theorem tickDMA_shape {s s' : Oam} {rd : Addr → Byte} (h : tickDMA s rd = some s') :
    s'.dma = s.dma ∧ s'.dmaBaseAddr = s.dmaBaseAddr ∧ s'.corrupt = s.corrupt ∧
    s'.ppuLastAccess = s.ppuLastAccess ∧ s'.read = s.read ∧ s'.write = s.write ∧
    s'.doubleWrite = s.doubleWrite ∧
    (s.dmaRunning = false → s' = s) ∧
    (∀ k (hk : k < 160), k ≠ dmaStoreIndex s → s'.oam[k] = s.oam[k]) := by
  simp only [tickDMA] at h
  split at h
  · next hrun =>
    split at h
    · cases h; exact ⟨rfl, rfl, rfl, rfl, rfl, rfl, rfl, fun hf => by simp [hrun] at hf, fun _ _ _ => rfl⟩
    · split at h
      · cases h; exact ⟨rfl, rfl, rfl, rfl, rfl, rfl, rfl, fun hf => by simp [hrun] at hf, fun _ _ _ => rfl⟩
      · split at h
        · next h161 =>
          rw [Option.map_eq_some_iff] at h
          obtain ⟨m, hm, rfl⟩ := h
          refine ⟨rfl, rfl, rfl, rfl, rfl, rfl, rfl, fun hf => by simp [hrun] at hf, ?_⟩
          intro k hk hne
          simp only [st] at hm
          split at hm
          · next hi =>
            cases hm
            simp only [incCycle]
            rw [Vector.getElem_set_ne]
            simp only [dmaStoreIndex, h161, if_true] at hne; omega
          · cases hm
        · next h161 =>
          rw [Option.map_eq_some_iff] at h
          obtain ⟨m, hm, rfl⟩ := h
          refine ⟨rfl, rfl, rfl, rfl, rfl, rfl, rfl, fun hf => by simp [hrun] at hf, ?_⟩
          intro k hk hne
          simp only [st] at hm
          split at hm
          · next hi =>
            cases hm
            simp only [incCycle]
            rw [Vector.getElem_set_ne]
            simp only [dmaStoreIndex, h161, if_false] at hne; omega
          · cases hm
  · next hrun =>
    cases h
    exact ⟨rfl, rfl, rfl, rfl, rfl, rfl, rfl, fun _ => rfl, fun _ _ _ => rfl⟩

/-- the DMA engine proper: how `TickDMA` moves `dmaRunning` / `dmaCycle` -/
theorem tickDMA_engine {s s' : Oam} {rd : Addr → Byte} (h : tickDMA s rd = some s') :
    (s.dmaRunning = true → s.dmaCycle.toNat < 161 →
        s'.dmaRunning = true ∧ s'.dmaCycle.toNat = s.dmaCycle.toNat + 1) ∧
    (s.dmaRunning = true → s.dmaCycle.toNat = 161 → s'.dmaRunning = false) := by
  simp only [tickDMA] at h
  split at h
  · next hrun =>
    split at h
    · next h0 =>
      cases h
      exact ⟨fun _ _ => ⟨hrun, by simp only [incCycle, add16, BitVec.toNat_ofNat, h0]⟩, fun _ hc => by omega⟩
    · split at h
      · next h1 =>
        cases h
        exact ⟨fun _ _ => ⟨hrun, by simp only [incCycle, add16, BitVec.toNat_ofNat, h1]⟩, fun _ hc => by omega⟩
      · split at h
        · next h161 =>
          rw [Option.map_eq_some_iff] at h
          obtain ⟨m, _, rfl⟩ := h
          exact ⟨fun _ hc => by omega, fun _ _ => rfl⟩
        · next h0 h1 h161 =>
          rw [Option.map_eq_some_iff] at h
          obtain ⟨m, _, rfl⟩ := h
          refine ⟨fun _ hc => ⟨hrun, ?_⟩, fun _ hc => absurd hc h161⟩
          simp only [incCycle, add16, BitVec.toNat_ofNat]; omega
  · next hrun => exact ⟨fun hr => absurd hr hrun, fun hr => absurd hr hrun⟩

/-- a running transfer is at a cycle the state machine handles -/
def DmaOk (s : Oam) : Prop := s.dmaRunning = true → s.dmaCycle.toNat ≤ 161

theorem tickDMA_ok {s : Oam} (rd : Addr → Byte) (h : DmaOk s) :
    ∃ s', tickDMA s rd = some s' ∧ DmaOk s' := by
  unfold DmaOk at h
  simp only [tickDMA]
  split
  · next hrun =>
    have hc := h hrun
    have inc : ∀ t : Oam, t.dmaCycle = s.dmaCycle → t.dmaRunning = true →
        DmaOk (incCycle t) → DmaOk (incCycle t) := fun _ _ _ x => x
    split
    · next h0 =>
      refine ⟨_, rfl, ?_⟩
      intro _; simp only [incCycle, add16, BitVec.toNat_ofNat, h0]; omega
    · split
      · next h1 =>
        refine ⟨_, rfl, ?_⟩
        intro _; simp only [incCycle, add16, BitVec.toNat_ofNat, h1]; omega
      · split
        · rw [st_eq (by omega)]
          refine ⟨_, rfl, ?_⟩
          intro hf; simp [incCycle] at hf
        · next h0 h1 h161 =>
          rw [st_eq (by simp only [sub16]; omega)]
          refine ⟨_, rfl, ?_⟩
          intro _; simp only [incCycle, add16, BitVec.toNat_ofNat]; omega
  · next hrun => exact ⟨s, rfl, fun hf => absurd hf hrun⟩

end Tetro.Model.Oam
