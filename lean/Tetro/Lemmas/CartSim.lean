import Tetro.Model.Cart
import Tetro.Spec.Cart
import Tetro.Lemmas.CartBits
import Tetro.Lemmas.CartWF
import Tetro.Lemmas.RtcSim
/-
Simulation between the cartridge model and the history-query specification: after any history the
model state of each controller is the state DETERMINED by the specification's queries on that
history (registers, visible banks, RAM contents).  Shared by the proofs of C08 and C09.
-/
namespace Tetro.CartSim
set_option linter.unusedSimpArgs false
open Tetro.Model Tetro.Model.Cart Tetro.Spec.Cart Tetro.CartBits Tetro.CartWF

/-- the bus event of a model operation -/
def toEv : Op → Ev
  | .write a v => .write a.toNat v.toNat
  | .tick => .tick

/-- the history (most recent first) of an operation list (oldest first) -/
def hist (ops : List Op) : Hist := (ops.map toEv).reverse

theorem hist_snoc (ops : List Op) (op : Op) : hist (ops ++ [op]) = toEv op :: hist ops := by
  simp [hist]

/-! ### one-event lemmas for the history queries -/

theorem lastIn_in {lo hi a v : Nat} {h : Hist} (h1 : lo ≤ a) (h2 : a < hi) :
    lastIn lo hi (.write a v :: h) = some v := by
  simp [lastIn, h1, h2]

theorem lastIn_out {lo hi a v : Nat} {h : Hist} (h1 : a < lo ∨ hi ≤ a) :
    lastIn lo hi (.write a v :: h) = lastIn lo hi h := by
  simp only [lastIn]; rw [if_neg]; omega

theorem lastLow_in {k a v : Nat} {h : Hist} (h1 : a < 0x4000) (h2 : a / 256 % 2 = k) :
    lastLow k (.write a v :: h) = some v := by
  simp [lastLow, h1, h2]

theorem lastLow_out {k a v : Nat} {h : Hist} (h1 : 0x4000 ≤ a ∨ a / 256 % 2 ≠ k) :
    lastLow k (.write a v :: h) = lastLow k h := by
  simp only [lastLow]; rw [if_neg]; omega

theorem enableBit_eq (v : Nat) : enableBit v = decide (v % 16 = 10) := by
  simp only [enableBit, and_0f]
  by_cases h : v % 16 = 10 <;> simp [h]

section queries
variable {a v : Nat} {h : Hist}

theorem mbc1Bank1_out (c : a < 0x2000 ∨ 0x4000 ≤ a) : mbc1Bank1 (.write a v :: h) = mbc1Bank1 h := by
  simp only [mbc1Bank1, lastIn_out c]
theorem mbc1Bank1_in (c1 : 0x2000 ≤ a) (c2 : a < 0x4000) :
    mbc1Bank1 (.write a v :: h) = if v % 32 = 0 then 1 else v % 32 := by
  simp only [mbc1Bank1, lastIn_in c1 c2]
theorem mbc1Bank2_out (c : a < 0x4000 ∨ 0x6000 ≤ a) : mbc1Bank2 (.write a v :: h) = mbc1Bank2 h := by
  simp only [mbc1Bank2, lastIn_out c]
theorem mbc1Bank2_in (c1 : 0x4000 ≤ a) (c2 : a < 0x6000) : mbc1Bank2 (.write a v :: h) = v % 4 := by
  simp only [mbc1Bank2, lastIn_in c1 c2]
theorem mbc1Mode_out (c : a < 0x6000 ∨ 0x8000 ≤ a) : mbc1Mode (.write a v :: h) = mbc1Mode h := by
  simp only [mbc1Mode, lastIn_out c]
theorem mbc1Mode_in (c1 : 0x6000 ≤ a) (c2 : a < 0x8000) :
    mbc1Mode (.write a v :: h) = decide (v % 2 = 1) := by
  simp only [mbc1Mode, lastIn_in c1 c2]

theorem mbc2RomReg_out (c : 0x4000 ≤ a ∨ a / 256 % 2 ≠ 1) : mbc2RomReg (.write a v :: h) = mbc2RomReg h := by
  simp only [mbc2RomReg, lastLow_out c]
theorem mbc2RomReg_in (c1 : a < 0x4000) (c2 : a / 256 % 2 = 1) :
    mbc2RomReg (.write a v :: h) = if v % 16 = 0 then 1 else v % 16 := by
  simp only [mbc2RomReg, lastLow_in c1 c2]

theorem mbc3RomReg_out (c : a < 0x2000 ∨ 0x4000 ≤ a) : mbc3RomReg (.write a v :: h) = mbc3RomReg h := by
  simp only [mbc3RomReg, lastIn_out c]
theorem mbc3RomReg_in (c1 : 0x2000 ≤ a) (c2 : a < 0x4000) :
    mbc3RomReg (.write a v :: h) = if v % 128 = 0 then 1 else v % 128 := by
  simp only [mbc3RomReg, lastIn_in c1 c2]

theorem mbc5Lo_out (c : a < 0x2000 ∨ 0x3000 ≤ a) : mbc5Lo (.write a v :: h) = mbc5Lo h := by
  simp only [mbc5Lo, lastIn_out c]
theorem mbc5Lo_in (c1 : 0x2000 ≤ a) (c2 : a < 0x3000) : mbc5Lo (.write a v :: h) = v % 256 := by
  simp only [mbc5Lo, lastIn_in c1 c2]
theorem mbc5Hi_out (c : a < 0x3000 ∨ 0x4000 ≤ a) : mbc5Hi (.write a v :: h) = mbc5Hi h := by
  simp only [mbc5Hi, lastIn_out c]
theorem mbc5Hi_in (c1 : 0x3000 ≤ a) (c2 : a < 0x4000) : mbc5Hi (.write a v :: h) = v % 2 := by
  simp only [mbc5Hi, lastIn_in c1 c2]

theorem ramSelect_out (c : a < 0x4000 ∨ 0x6000 ≤ a) : ramSelect (.write a v :: h) = ramSelect h := by
  simp only [ramSelect, lastIn_out c]
theorem ramSelect_in (c1 : 0x4000 ≤ a) (c2 : a < 0x6000) : ramSelect (.write a v :: h) = v % 16 := by
  simp only [ramSelect, lastIn_in c1 c2]

/-- the controllers whose RAM-enable register is 0000-1FFF -/
def Std135 (c : Ctrl) : Prop := c = .mbc1 ∨ c = .mbc3 ∨ c = .mbc5

theorem enabled_out {c : Ctrl} (hc : Std135 c) (c1 : 0x2000 ≤ a) :
    enabled c (.write a v :: h) = enabled c h := by
  rcases hc with rfl|rfl|rfl <;>
    simp only [enabled, lastEnable, lastIn_out (Or.inr c1 : a < 0 ∨ 0x2000 ≤ a)]
theorem enabled_in {c : Ctrl} (hc : Std135 c) (c1 : a < 0x2000) :
    enabled c (.write a v :: h) = decide (v % 16 = 10) := by
  rcases hc with rfl|rfl|rfl <;> simp only [enabled, lastEnable, lastIn_in (Nat.zero_le a) c1]
theorem enabled2_out (c : 0x4000 ≤ a ∨ a / 256 % 2 ≠ 0) :
    enabled .mbc2 (.write a v :: h) = enabled .mbc2 h := by
  simp only [enabled, lastEnable, lastLow_out c]
theorem enabled2_in (c1 : a < 0x4000) (c2 : a / 256 % 2 = 0) :
    enabled .mbc2 (.write a v :: h) = decide (v % 16 = 10) := by
  simp only [enabled, lastEnable, lastLow_in c1 c2]

theorem cell_out {c : Ctrl} {q : Nat} (c1 : a < 0xa000 ∨ 0xc000 ≤ a) :
    cell c q (.write a v :: h) = cell c q h := by
  funext b o; simp only [cell]; rw [if_neg]; omega
theorem cell_none {c : Ctrl} {q : Nat} (ht : ramTarget c q h = none) :
    cell c q (.write a v :: h) = cell c q h := by
  funext b o; simp only [cell, ht]; rw [if_neg]; simp
theorem cell_some {c : Ctrl} {q rb : Nat} (c1 : 0xa000 ≤ a) (c2 : a < 0xc000) (ht : ramTarget c q h = some rb) :
    cell c q (.write a v :: h) = setRam (cell c q h) rb (a - 0xa000) v := by
  funext b o
  simp only [cell, ht, setRam, Option.some.injEq]
  by_cases e1 : rb = b <;> by_cases e2 : a - 0xa000 = o
  · rw [if_pos ⟨c1, c2, e1, e2⟩, if_pos ⟨e1.symm, e2.symm⟩]
  · rw [if_neg (fun x => e2 x.2.2.2), if_neg (fun x => e2 x.2.symm)]
  · rw [if_neg (fun x => e1 x.2.2.1), if_neg (fun x => e1 x.1.symm)]
  · rw [if_neg (fun x => e1 x.2.2.1), if_neg (fun x => e1 x.1.symm)]

theorem nibble_out (c1 : a < 0xa000 ∨ 0xc000 ≤ a) : nibble (.write a v :: h) = nibble h := by
  funext o; simp only [nibble]; rw [if_neg]; omega
theorem nibble_off (he : enabled .mbc2 h = false) : nibble (.write a v :: h) = nibble h := by
  funext o; simp only [nibble, he]; rw [if_neg]; simp
theorem nibble_on (c1 : 0xa000 ≤ a) (c2 : a < 0xc000) (he : enabled .mbc2 h = true) (o : Nat) :
    nibble (.write a v :: h) o = if o = (a - 0xa000) % 512 then v % 16 else nibble h o := by
  simp only [nibble, he, true_and]
  by_cases e : (a - 0xa000) % 512 = o
  · rw [if_pos ⟨c1, c2, e⟩, if_pos e.symm]
  · rw [if_neg (fun x => e x.2.2), if_neg (fun x => e x.symm)]

theorem clockEvents_low (c1 : a < 0x6000) : clockEvents (.write a v :: h) = clockEvents h := by
  simp only [clockEvents]; rw [if_neg (by omega), if_neg (by omega)]
theorem clockEvents_latch (c1 : 0x6000 ≤ a) (c2 : a < 0x8000) :
    clockEvents (.write a v :: h) = .latch (v % 2 = 1) :: clockEvents h := by
  simp only [clockEvents]; rw [if_pos ⟨c1, c2⟩]
theorem clockEvents_other (c1 : 0x8000 ≤ a) (c2 : a < 0xa000 ∨ 0xc000 ≤ a) :
    clockEvents (.write a v :: h) = clockEvents h := by
  simp only [clockEvents]; rw [if_neg (by omega), if_neg (by omega)]
theorem clockEvents_ram (c1 : 0xa000 ≤ a) (hs : clockSelected h = none) :
    clockEvents (.write a v :: h) = clockEvents h := by
  simp only [clockEvents]; rw [if_neg (by omega), if_neg (by simp [hs])]
theorem clockEvents_reg (c1 : 0xa000 ≤ a) (c2 : a < 0xc000) (hs : clockSelected h ≠ none) :
    clockEvents (.write a v :: h) = .write (ramSelect h) v :: clockEvents h := by
  simp only [clockEvents]; rw [if_neg (by omega), if_pos ⟨c1, c2, hs⟩]

end queries

/-! ### MBC1 -/

structure Rel1 (rom : Rom) (n q : Nat) (h : Hist) (m : Mbc1) : Prop where
  rom : m.rom = rom
  romLen : m.romLen = n
  ramLen : m.ramLen = q
  ram : m.ram = cell .mbc1 q h
  en : m.ramEnabled = enabled .mbc1 h
  b1 : m.bank1 = mbc1Bank1 h
  b2 : m.bank2 = mbc1Bank2 h
  mode : m.mode1 = mbc1Mode h
  rb0 : m.romBank0 = romBank .mbc1 n h 0
  rb1 : m.romBank1 = romBank .mbc1 n h 0x4000
  rk : m.ramEnabled = true → ramTarget .mbc1 q h = some m.ramBank

theorem mbc1Bank1_lt (h : Hist) : mbc1Bank1 h < 32 := by
  unfold mbc1Bank1; split <;> (try split) <;> omega

theorem mbc1Bank2_lt (h : Hist) : mbc1Bank2 h < 4 := by
  unfold mbc1Bank2; split <;> omega

/-- the explicit result of `updateBanks` when neither divisor is zero -/
theorem updateBanks_eq (m : Mbc1) (hr : 0 < m.romLen % 256) (hq : 0 < m.ramLen % 256) :
    Mbc1.updateBanks m = some
      { m with romBank0 := if m.mode1 then (m.bank2 <<< 5) % 256 % (m.romLen % 256) else 0,
               romBank1 := (m.bank1 ||| (m.bank2 <<< 5) % 256) % (m.romLen % 256),
               ramBank := if m.ramEnabled then (if m.mode1 then m.bank2 % (m.ramLen % 256) else 0)
                          else m.ramBank } := by
  unfold Mbc1.updateBanks Mbc1.newRomBank0 Mbc1.newRamBank
  simp only [mod?_pos hr, mod?_pos hq]
  cases m.mode1 <;> cases m.ramEnabled <;> simp

theorem mbc1_rb0 {n b2 : Nat} (hn' : n < 256) (h2 : b2 < 4) (md : Bool) :
    (if md = true then (b2 <<< 5) % 256 % (n % 256) else 0) = (if md = true then b2 * 32 else 0) % n := by
  rw [shl5, Nat.mod_eq_of_lt hn', Nat.mod_eq_of_lt (by omega : b2 * 32 < 256)]
  cases md <;> simp

theorem mbc1_rb1 {n b1 b2 : Nat} (hn' : n < 256) (h1 : b1 < 32) (h2 : b2 < 4) :
    (b1 ||| (b2 <<< 5) % 256) % (n % 256) = (b2 * 32 + b1) % n := by
  rw [shl5, Nat.mod_eq_of_lt hn', Nat.mod_eq_of_lt (by omega : b2 * 32 < 256), or_bank12 b1 h1 b2 h2]

theorem bank1Of_eq (v : Nat) : Mbc1.bank1Of v = if v % 32 = 0 then 1 else v % 32 := by
  simp only [Mbc1.bank1Of, and_1f]; split <;> omega

theorem mode_eq (v : Nat) : ((v &&& 0x01) != 0) = decide (v % 2 = 1) := by
  rw [and_01]
  by_cases h : v % 2 = 1
  · simp [h]
  · have : v % 2 = 0 := by omega
    simp [this]

theorem mbc1_rk (en md : Bool) (b2 q rk : Nat) : en = true →
    (if en = true then some ((if md = true then b2 else 0) % q) else none) =
      some (if en = true then (if md = true then b2 % q else 0) else rk) := by
  intro hv; subst hv; cases md <;> simp

theorem mbc1_step {rom : Rom} {n q : Nat} {h : Hist} {m : Mbc1} (hn : 0 < n) (hn' : n < 256)
    (hq : 0 < q) (hq' : q < 256) (R : Rel1 rom n q h m) (a v : Nat) :
    ∃ m', Mbc1.write m a v = some m' ∧ Rel1 rom n q (.write a v :: h) m' := by
  have hr : 0 < m.romLen % 256 := by rw [R.romLen]; omega
  have hqq : 0 < m.ramLen % 256 := by rw [R.ramLen]; omega
  have B1 := mbc1Bank1_lt h
  have B2 := mbc1Bank2_lt h
  obtain ⟨Rrom, Rn, Rq, Rram, Ren, Rb1, Rb2, Rmode, Rrb0, Rrb1, Rrk⟩ := R
  have k1 : Std135 .mbc1 := Or.inl rfl
  by_cases c1 : a < 0x2000
  · refine ⟨_, by simp only [Mbc1.write, if_pos c1]; exact updateBanks_eq _ hr hqq, ?_⟩
    constructor <;> simp (disch := omega) only [mbc1Bank1_out, mbc1Bank2_out, mbc1Mode_out, enabled_in k1,
      cell_out, enableBit_eq, romBank, ramTarget, if_pos, if_neg, Rrom, Rn, Rq, Rb1, Rb2, Rmode, Rram,
      mbc1_rb0 hn' B2, mbc1_rb1 hn' B1 B2, Nat.mod_eq_of_lt hq']
    exact mbc1_rk _ _ _ _ _
  by_cases c2 : a < 0x4000
  · refine ⟨_, by simp only [Mbc1.write, if_pos c2, if_neg c1]; exact updateBanks_eq _ hr hqq, ?_⟩
    have B1' : (if v % 32 = 0 then 1 else v % 32) < 32 := by split <;> omega
    constructor <;> simp (disch := omega) only [mbc1Bank1_in, mbc1Bank2_out, mbc1Mode_out, enabled_out k1,
      cell_out, bank1Of_eq, romBank, ramTarget, if_pos, if_neg, Rrom, Rn, Rq, Rb1, Rb2, Rmode, Rram, Ren,
      mbc1_rb0 hn' B2, mbc1_rb1 hn' B1' B2, Nat.mod_eq_of_lt hq']
    exact mbc1_rk _ _ _ _ _
  by_cases c3 : a < 0x6000
  · refine ⟨_, by simp only [Mbc1.write, if_pos c3, if_neg c1, if_neg c2]; exact updateBanks_eq _ hr hqq, ?_⟩
    have B2' : v % 4 < 4 := by omega
    constructor <;> simp (disch := omega) only [mbc1Bank1_out, mbc1Bank2_in, mbc1Mode_out, enabled_out k1,
      cell_out, and_03, romBank, ramTarget, if_pos, if_neg, Rrom, Rn, Rq, Rb1, Rb2, Rmode, Rram, Ren,
      mbc1_rb0 hn' B2', mbc1_rb1 hn' B1 B2', Nat.mod_eq_of_lt hq']
    exact mbc1_rk _ _ _ _ _
  by_cases c4 : a < 0x8000
  · refine ⟨_, by simp only [Mbc1.write, if_pos c4, if_neg c1, if_neg c2, if_neg c3]; exact updateBanks_eq _ hr hqq, ?_⟩
    constructor <;> simp (disch := omega) only [mbc1Bank1_out, mbc1Bank2_out, mbc1Mode_in, enabled_out k1,
      cell_out, mode_eq, romBank, ramTarget, if_pos, if_neg, Rrom, Rn, Rq, Rb1, Rb2, Rmode, Rram, Ren,
      mbc1_rb0 hn' B2, mbc1_rb1 hn' B1 B2, Nat.mod_eq_of_lt hq']
    exact mbc1_rk _ _ _ _ _
  have unchanged : ∀ ram', ram' = cell .mbc1 q (.write a v :: h) →
      Rel1 rom n q (.write a v :: h) { m with ram := ram' } := by
    intro ram' hram
    constructor <;> simp (disch := omega) only [mbc1Bank1_out, mbc1Bank2_out, mbc1Mode_out, enabled_out k1,
      romBank, ramTarget, if_pos, if_neg, Rrom, Rn, Rq, Rb1, Rb2, Rmode, Ren, hram]
    · simpa only [romBank, if_pos (by omega : (0:Nat) < 0x4000)] using Rrb0
    · simpa only [romBank, if_neg (by omega : ¬ (0x4000:Nat) < 0x4000)] using Rrb1
    · simpa only [ramTarget, Ren] using Rrk
  by_cases c5 : a < 0xa000
  · refine ⟨m, by simp only [Mbc1.write, if_pos c5, if_neg c1, if_neg c2, if_neg c3, if_neg c4], ?_⟩
    exact unchanged m.ram (by rw [cell_out (by omega), Rram])
  by_cases c6 : a < 0xc000
  · cases hen : m.ramEnabled with
    | false =>
      refine ⟨m, by simp [Mbc1.write, c1, c2, c3, c4, c5, c6, hen], ?_⟩
      have ht : ramTarget .mbc1 q h = none := by simp [ramTarget, ← Ren, hen]
      exact unchanged m.ram (by rw [cell_none ht, Rram])
    | true =>
      have ht := Rrk hen
      have hk : m.ramBank < m.ramLen := by
        simp only [ramTarget, ← Ren, hen, if_true, Option.some.injEq] at ht
        rw [← ht, Rq]; exact Nat.mod_lt _ hq
      refine ⟨{ m with ram := setRam m.ram m.ramBank (a - 0xa000) v }, ?_, ?_⟩
      · simp only [Mbc1.write, if_neg c1, if_neg c2, if_neg c3, if_neg c4, if_neg c5, if_pos c6, hen, if_true]
        rw [bankSet?_ok hk (by omega)]; rfl
      · exact unchanged _ (by rw [cell_some (by omega) c6 ht, Rram])
  · refine ⟨m, by simp only [Mbc1.write, if_neg c1, if_neg c2, if_neg c3, if_neg c4, if_neg c5, if_neg c6], ?_⟩
    exact unchanged m.ram (by rw [cell_out (by omega), Rram])

theorem rel1_tick {rom : Rom} {n q : Nat} {h : Hist} {m : Mbc1} (R : Rel1 rom n q h m) :
    Rel1 rom n q (.tick :: h) m :=
  ⟨R.rom, R.romLen, R.ramLen, R.ram, R.en, R.b1, R.b2, R.mode, R.rb0, R.rb1, R.rk⟩

/-! ### MBC2 -/

structure Rel2 (rom : Rom) (n : Nat) (h : Hist) (m : Mbc2) : Prop where
  rom : m.rom = rom
  romLen : m.romLen = n
  ram : ∀ o, m.ram o < 256 ∧ m.ram o % 16 = nibble h o
  en : m.ramEnabled = enabled .mbc2 h
  rb : m.romBank = romBank .mbc2 n h 0x4000

theorem bank2Of_eq (v : Nat) : Mbc2.bankOf v = if v % 16 = 0 then 1 else v % 16 := by
  simp only [Mbc2.bankOf, and_0f]

theorem or_f0_lt : ∀ v < 256, (v ||| 0xf0) < 256 ∧ (v ||| 0xf0) % 16 = v % 16 := by decide +kernel

theorem mbc2_step {rom : Rom} {n : Nat} {h : Hist} {m : Mbc2} (hn : 0 < n)
    (R : Rel2 rom n h m) (a v : Nat) (hv : v < 256) :
    ∃ m', Mbc2.write m a v = some m' ∧ Rel2 rom n (.write a v :: h) m' := by
  obtain ⟨Rrom, Rn, Rram, Ren, Rrb⟩ := R
  have hr : 0 < m.romLen := by rw [Rn]; exact hn
  have unchanged : ∀ ram', (∀ o, ram' o < 256 ∧ ram' o % 16 = nibble (.write a v :: h) o) → 0x4000 ≤ a →
      Rel2 rom n (.write a v :: h) { m with ram := ram' } := by
    intro ram' hram ha
    constructor <;> simp (disch := omega) only [mbc2RomReg_out, enabled2_out, romBank, if_neg, Rrom, Rn, Ren]
    · exact hram
    · simpa only [romBank, if_neg (by omega : ¬ (0x4000:Nat) < 0x4000)] using Rrb
  by_cases c1 : a < 0x4000
  · by_cases c0 : a / 256 % 2 = 0
    · refine ⟨{ m with ramEnabled := enableBit v }, ?_, ?_⟩
      · simp only [Mbc2.write, if_pos c1, and_0100]; rw [if_pos (by omega)]
      · constructor <;> simp (disch := omega) only [mbc2RomReg_out, enabled2_in, nibble_out, enableBit_eq,
          romBank, if_neg, Rrom, Rn, Ren]
        · exact Rram
        · simpa only [romBank, if_neg (by omega : ¬ (0x4000:Nat) < 0x4000)] using Rrb
    · have hlt : Mbc2.bankOf v % n % 256 = Mbc2.bankOf v % n := by
        apply Nat.mod_eq_of_lt
        have : Mbc2.bankOf v < 16 := by rw [bank2Of_eq]; split <;> omega
        exact Nat.lt_of_le_of_lt (Nat.mod_le _ _) (by omega)
      refine ⟨{ m with romBank := Mbc2.bankOf v % n }, ?_, ?_⟩
      · simp only [Mbc2.write, if_pos c1, and_0100]; rw [if_neg (by omega), mod?_pos hr, Rn]
        simp only [Option.bind_some, hlt]
      · constructor <;> simp (disch := omega) only [mbc2RomReg_in, enabled2_out, nibble_out, bank2Of_eq,
          romBank, if_neg, Rrom, Rn, Ren]
        exact Rram
  by_cases c5 : a < 0xa000
  · refine ⟨m, by simp only [Mbc2.write, if_pos c5, if_neg c1], ?_⟩
    exact unchanged m.ram (by rw [nibble_out (by omega)]; exact Rram) (by omega)
  by_cases c6 : a < 0xc000
  · cases hen : m.ramEnabled with
    | false =>
      refine ⟨m, by simp [Mbc2.write, c1, c5, c6, hen], ?_⟩
      exact unchanged m.ram (by rw [nibble_off (by rw [← Ren, hen])]; exact Rram) (by omega)
    | true =>
      refine ⟨{ m with ram := setCell m.ram ((a - 0xa000) % 0x0200) (v ||| 0xf0) }, ?_, ?_⟩
      · simp only [Mbc2.write, if_neg c1, if_neg c5, if_pos c6, hen, if_true]
        rw [cellSet?_ok (Nat.mod_lt _ (by decide))]; rfl
      · refine unchanged _ ?_ (by omega)
        intro o
        rw [nibble_on (by omega) c6 (by rw [← Ren, hen])]
        simp only [setCell]
        split
        · exact or_f0_lt v hv
        · exact Rram o
  · refine ⟨m, by simp only [Mbc2.write, if_neg c1, if_neg c5, if_neg c6], ?_⟩
    exact unchanged m.ram (by rw [nibble_out (by omega)]; exact Rram) (by omega)

theorem rel2_tick {rom : Rom} {n : Nat} {h : Hist} {m : Mbc2} (R : Rel2 rom n h m) :
    Rel2 rom n (.tick :: h) m :=
  ⟨R.rom, R.romLen, R.ram, R.en, R.rb⟩

/-! ### MBC3 -/

structure Rel3 (rom : Rom) (n q : Nat) (h : Hist) (m : Mbc3) : Prop where
  rom : m.rom = rom
  romLen : m.romLen = n
  ramLen : m.ramLen = q
  ram : m.ram = cell .mbc3 q h
  en : m.ramEnabled = enabled .mbc3 h
  rb : m.romBank = romBank .mbc3 n h 0x4000
  rk : m.ramBank = ramSelect h
  rtc : m.rtc = RtcSim.after (clockEvents h)

theorem bank3Of_eq (v : Nat) : Mbc3.bankOf v = if v % 128 = 0 then 1 else v % 128 := by
  simp only [Mbc3.bankOf, and_7f]

theorem ramSelect_lt (h : Hist) : ramSelect h < 16 := by
  unfold ramSelect; split <;> omega

theorem mbc3_step {rom : Rom} {n q : Nat} {h : Hist} {m : Mbc3} (hn : 0 < n) (hq : 0 < q)
    (R : Rel3 rom n q h m) (a v : Nat) :
    ∃ m', Mbc3.write m a v = some m' ∧ Rel3 rom n q (.write a v :: h) m' := by
  obtain ⟨Rrom, Rn, Rq, Rram, Ren, Rrb, Rrk, Rrtc⟩ := R
  have hr : 0 < m.romLen := by rw [Rn]; exact hn
  have hqq : 0 < m.ramLen := by rw [Rq]; exact hq
  have k3 : Std135 .mbc3 := Or.inr (Or.inl rfl)
  have Rrb' : m.romBank = mbc3RomReg h % n := by
    simpa only [romBank, if_neg (by omega : ¬ (0x4000:Nat) < 0x4000)] using Rrb
  by_cases c1 : a < 0x2000
  · refine ⟨{ m with ramEnabled := enableBit v }, by simp only [Mbc3.write, if_pos c1], ?_⟩
    constructor <;> simp (disch := omega) only [mbc3RomReg_out, ramSelect_out, enabled_in k3, cell_out,
      clockEvents_low, enableBit_eq, romBank, if_neg, Rrom, Rn, Rq, Rram, Rrb', Rrk, Rrtc]
  by_cases c2 : a < 0x4000
  · have hlt : Mbc3.bankOf v % n % 256 = Mbc3.bankOf v % n := by
      apply Nat.mod_eq_of_lt
      have : Mbc3.bankOf v < 128 := by rw [bank3Of_eq]; split <;> omega
      exact Nat.lt_of_le_of_lt (Nat.mod_le _ _) (by omega)
    refine ⟨{ m with romBank := Mbc3.bankOf v % n }, ?_, ?_⟩
    · simp only [Mbc3.write, if_neg c1, if_pos c2]; rw [mod?_pos hr, Rn]
      simp only [Option.bind_some, hlt]
    · constructor <;> simp (disch := omega) only [mbc3RomReg_in, ramSelect_out, enabled_out k3, cell_out,
        clockEvents_low, bank3Of_eq, romBank, if_neg, Rrom, Rn, Rq, Rram, Ren, Rrk, Rrtc]
  by_cases c3 : a < 0x6000
  · refine ⟨{ m with ramBank := v &&& 0x0f }, by simp only [Mbc3.write, if_neg c1, if_neg c2, if_pos c3], ?_⟩
    constructor <;> simp (disch := omega) only [mbc3RomReg_out, ramSelect_in, enabled_out k3, cell_out,
      clockEvents_low, and_0f, romBank, if_neg, Rrom, Rn, Rq, Rram, Ren, Rrb', Rrtc]
  by_cases c4 : a < 0x8000
  · refine ⟨{ m with rtc := if v % 2 = 1 then Rtc.latchHigh m.rtc else Rtc.latchLow m.rtc }, ?_, ?_⟩
    · simp only [Mbc3.write, if_neg c1, if_neg c2, if_neg c3, if_pos c4, and_01]
      by_cases hv : v % 2 = 0
      · rw [if_pos hv, if_neg (by omega : ¬ v % 2 = 1)]
      · rw [if_neg hv, if_pos (by omega : v % 2 = 1)]
    · constructor <;> simp (disch := omega) only [mbc3RomReg_out, ramSelect_out, enabled_out k3, cell_out,
        clockEvents_latch, romBank, if_neg, Rrom, Rn, Rq, Rram, Ren, Rrb', Rrk, Rrtc]
      simp only [RtcSim.after, RtcSim.applyEv]
      by_cases hv : v % 2 = 1 <;> simp [hv]
  have unchanged : ∀ ram' rtc', ram' = cell .mbc3 q (.write a v :: h) →
      rtc' = RtcSim.after (clockEvents (.write a v :: h)) →
      Rel3 rom n q (.write a v :: h) { m with ram := ram', rtc := rtc' } := by
    intro ram' rtc' hram hrtc
    constructor <;> simp (disch := omega) only [mbc3RomReg_out, ramSelect_out, enabled_out k3,
      romBank, if_neg, Rrom, Rn, Rq, Ren, Rrb', Rrk, hram, hrtc]
  by_cases c5 : a < 0xa000
  · refine ⟨m, by simp only [Mbc3.write, if_pos c5, if_neg c1, if_neg c2, if_neg c3, if_neg c4], ?_⟩
    exact unchanged m.ram m.rtc (by rw [cell_out (by omega), Rram])
      (by rw [clockEvents_other (by omega) (by omega), Rrtc])
  by_cases c6 : a < 0xc000
  · cases hen : m.ramEnabled with
    | false =>
      refine ⟨m, by simp [Mbc3.write, c1, c2, c3, c4, c5, c6, hen], ?_⟩
      have ht : ramTarget .mbc3 q h = none := by simp [ramTarget, ← Ren, hen]
      have hs : clockSelected h = none := by simp [clockSelected, ← Ren, hen]
      exact unchanged m.ram m.rtc (by rw [cell_none ht, Rram]) (by rw [clockEvents_ram (by omega) hs, Rrtc])
    | true =>
      have hen' : enabled .mbc3 h = true := by rw [← Ren, hen]
      by_cases hsel : m.ramBank ≥ 0x08
      · have ht : ramTarget .mbc3 q h = none := by
          simp only [ramTarget, hen', true_and]; rw [if_neg (by omega)]
        have hs : clockSelected h ≠ none := by
          simp only [clockSelected, hen', true_and]; rw [if_pos (by omega)]; simp
        refine ⟨{ m with rtc := Rtc.write m.rtc m.ramBank v }, ?_, ?_⟩
        · simp only [Mbc3.write, if_neg c1, if_neg c2, if_neg c3, if_neg c4, if_neg c5, if_pos c6, hen,
            if_true, if_pos hsel]
        · exact unchanged m.ram _ (by rw [cell_none ht, Rram])
            (by rw [clockEvents_reg (by omega) c6 hs, Rrtc, Rrk]; rfl)
      · have ht : ramTarget .mbc3 q h = some (m.ramBank % m.ramLen) := by
          simp only [ramTarget, hen', true_and]; rw [if_pos (by omega), Rrk, Rq]
        have hs : clockSelected h = none := by
          simp only [clockSelected, hen', true_and]; rw [if_neg (by omega)]
        refine ⟨{ m with ram := setRam m.ram (m.ramBank % m.ramLen) (a - 0xa000) v }, ?_, ?_⟩
        · simp only [Mbc3.write, if_neg c1, if_neg c2, if_neg c3, if_neg c4, if_neg c5, if_pos c6, hen,
            if_true, if_neg hsel]
          rw [mod?_pos hqq]; simp only [Option.bind_some]
          rw [bankSet?_ok (Nat.mod_lt _ hqq) (by omega)]; rfl
        · exact unchanged _ m.rtc (by rw [cell_some (by omega) c6 ht, Rram])
            (by rw [clockEvents_ram (by omega) hs, Rrtc])
  · refine ⟨m, by simp only [Mbc3.write, if_neg c1, if_neg c2, if_neg c3, if_neg c4, if_neg c5, if_neg c6], ?_⟩
    exact unchanged m.ram m.rtc (by rw [cell_out (by omega), Rram])
      (by rw [clockEvents_other (by omega) (by omega), Rrtc])

theorem rel3_tick {rom : Rom} {n q : Nat} {h : Hist} {m : Mbc3} (R : Rel3 rom n q h m) :
    Rel3 rom n q (.tick :: h) { m with rtc := Rtc.tick m.rtc } :=
  ⟨R.rom, R.romLen, R.ramLen, R.ram, R.en, R.rb, R.rk, by
    show Rtc.tick m.rtc = RtcSim.after (clockEvents (.tick :: h))
    rw [R.rtc]; rfl⟩

/-! ### MBC5 -/

/-- the declared sizes of an MBC5 cartridge: 2, 4, …, 512 banks -/
def Size5 (n : Nat) : Prop :=
  n = 2 ∨ n = 4 ∨ n = 8 ∨ n = 16 ∨ n = 32 ∨ n = 64 ∨ n = 128 ∨ n = 256 ∨ n = 512

/-- The interesting MBC5 fact: the code keeps the bank register REDUCED modulo the bank count, so a
    later write of the low byte combines with the high byte of the reduced value.  For a power-of-two
    bank count up to 512 this is the documented `(hi<<8 | lo) mod n`. -/
theorem mbc5_lo {n hi lo v : Nat} (hn : Size5 n) (_hhi : hi < 2) (hlo : lo < 256) (hv : v < 256) :
    ((((hi * 256 + lo) % n) &&& 0xff00) + v) % 65536 % n % 65536 = (hi * 256 + v % 256) % n := by
  have hlt : (hi * 256 + lo) % n < 512 := by
    rcases hn with h|h|h|h|h|h|h|h|h <;> subst h <;> omega
  rw [and_ff00_lt512 _ hlt]
  rcases hn with h|h|h|h|h|h|h|h|h <;> subst h <;> omega

theorem mbc5_hi {n hi lo v : Nat} (hn : Size5 n) (_hhi : hi < 2) (hlo : lo < 256) (_hv : v < 256) :
    (((v <<< 8) % 65536) + (((hi * 256 + lo) % n) &&& 0x00ff)) % 65536 % n % 65536 = (v % 2 * 256 + lo) % n := by
  rw [shl8, and_ff]
  rcases hn with h|h|h|h|h|h|h|h|h <;> subst h <;> omega

structure Rel5 (rom : Rom) (n q : Nat) (h : Hist) (m : Mbc5) : Prop where
  rom : m.rom = rom
  romLen : m.romLen = n
  ramLen : m.ramLen = q
  ram : m.ram = cell .mbc5 q h
  en : m.ramEnabled = enabled .mbc5 h
  rb : m.romBank = romBank .mbc5 n h 0x4000
  rk : m.ramBank = ramSelect h % q

theorem mbc5Lo_lt (h : Hist) : mbc5Lo h < 256 := by unfold mbc5Lo; split <;> omega
theorem mbc5Hi_lt (h : Hist) : mbc5Hi h < 2 := by unfold mbc5Hi; split <;> omega

theorem mbc5_step {rom : Rom} {n q : Nat} {h : Hist} {m : Mbc5} (hn : Size5 n) (hq : 0 < q) (hq' : q < 256)
    (R : Rel5 rom n q h m) (a v : Nat) (hv : v < 256) :
    ∃ m', Mbc5.write m a v = some m' ∧ Rel5 rom n q (.write a v :: h) m' := by
  obtain ⟨Rrom, Rn, Rq, Rram, Ren, Rrb, Rrk⟩ := R
  have hn0 : 0 < n := by rcases hn with h|h|h|h|h|h|h|h|h <;> subst h <;> decide
  have hr : 0 < m.romLen := by rw [Rn]; exact hn0
  have hqq : 0 < m.ramLen % 256 := by rw [Rq]; omega
  have k5 : Std135 .mbc5 := Or.inr (Or.inr rfl)
  have Rrb' : m.romBank = (mbc5Hi h * 256 + mbc5Lo h) % n := by
    simpa only [romBank, mbc5RomReg, if_neg (by omega : ¬ (0x4000:Nat) < 0x4000)] using Rrb
  have L := mbc5Lo_lt h
  have H := mbc5Hi_lt h
  by_cases c1 : a < 0x2000
  · refine ⟨{ m with ramEnabled := enableBit v }, by simp only [Mbc5.write, if_pos c1], ?_⟩
    constructor <;> simp (disch := omega) only [mbc5RomReg, mbc5Lo_out, mbc5Hi_out, ramSelect_out, enabled_in k5,
      cell_out, enableBit_eq, romBank, if_neg, Rrom, Rn, Rq, Rram, Rrb', Rrk]
  by_cases c2 : a < 0x3000
  · refine ⟨{ m with romBank := (mbc5Hi h * 256 + v % 256) % n }, ?_, ?_⟩
    · simp only [Mbc5.write, if_neg c1, if_pos c2]; rw [mod?_pos hr, Rn, Rrb']; simp only [Option.bind_some, mbc5_lo hn H L hv]
    · constructor <;> simp (disch := omega) only [mbc5RomReg, mbc5Lo_in, mbc5Hi_out, ramSelect_out,
        enabled_out k5, cell_out, romBank, if_neg, Rrom, Rn, Rq, Rram, Ren, Rrk]
  by_cases c3 : a < 0x4000
  · refine ⟨{ m with romBank := (v % 2 * 256 + mbc5Lo h) % n }, ?_, ?_⟩
    · simp only [Mbc5.write, if_neg c1, if_neg c2, if_pos c3]
      rw [mod?_pos hr, Rn, Rrb']; simp only [Option.bind_some, mbc5_hi hn H L hv]
    · constructor <;> simp (disch := omega) only [mbc5RomReg, mbc5Lo_out, mbc5Hi_in, ramSelect_out,
        enabled_out k5, cell_out, romBank, if_neg, Rrom, Rn, Rq, Rram, Ren, Rrk]
  by_cases c4 : a < 0x6000
  · refine ⟨{ m with ramBank := v % 16 % q }, ?_, ?_⟩
    · simp only [Mbc5.write, if_neg c1, if_neg c2, if_neg c3, if_pos c4]
      rw [mod?_pos hqq, Rq, and_0f, Nat.mod_eq_of_lt hq']; rfl
    · constructor <;> simp (disch := omega) only [mbc5RomReg, mbc5Lo_out, mbc5Hi_out, ramSelect_in,
        enabled_out k5, cell_out, romBank, if_neg, Rrom, Rn, Rq, Rram, Ren, Rrb']
  have unchanged : ∀ ram', ram' = cell .mbc5 q (.write a v :: h) →
      Rel5 rom n q (.write a v :: h) { m with ram := ram' } := by
    intro ram' hram
    constructor <;> simp (disch := omega) only [mbc5RomReg, mbc5Lo_out, mbc5Hi_out, ramSelect_out,
      enabled_out k5, romBank, if_neg, Rrom, Rn, Rq, Ren, Rrb', Rrk, hram]
  by_cases c5 : a < 0xa000
  · refine ⟨m, by simp only [Mbc5.write, if_pos c5, if_neg c1, if_neg c2, if_neg c3, if_neg c4], ?_⟩
    exact unchanged m.ram (by rw [cell_out (by omega), Rram])
  by_cases c6 : a < 0xc000
  · cases hen : m.ramEnabled with
    | false =>
      refine ⟨m, by simp [Mbc5.write, c1, c2, c3, c4, c5, c6, hen], ?_⟩
      have ht : ramTarget .mbc5 q h = none := by simp [ramTarget, ← Ren, hen]
      exact unchanged m.ram (by rw [cell_none ht, Rram])
    | true =>
      have ht : ramTarget .mbc5 q h = some m.ramBank := by
        simp only [ramTarget, ← Ren, hen, if_true, Rrk]
      have hk : m.ramBank < m.ramLen := by rw [Rrk, Rq]; exact Nat.mod_lt _ hq
      refine ⟨{ m with ram := setRam m.ram m.ramBank (a - 0xa000) v }, ?_, ?_⟩
      · simp only [Mbc5.write, if_neg c1, if_neg c2, if_neg c3, if_neg c4, if_neg c5, if_pos c6, hen, if_true]
        rw [bankSet?_ok hk (by omega)]; rfl
      · exact unchanged _ (by rw [cell_some (by omega) c6 ht, Rram])
  · refine ⟨m, by simp only [Mbc5.write, if_neg c1, if_neg c2, if_neg c3, if_neg c4, if_neg c5, if_neg c6], ?_⟩
    exact unchanged m.ram (by rw [cell_out (by omega), Rram])

theorem rel5_tick {rom : Rom} {n q : Nat} {h : Hist} {m : Mbc5} (R : Rel5 rom n q h m) :
    Rel5 rom n q (.tick :: h) m :=
  ⟨R.rom, R.romLen, R.ramLen, R.ram, R.en, R.rb, R.rk⟩

/-! ### whole histories -/

theorem cartAddr_false {a : Nat} (h : cartAddr a = false) : 0x8000 ≤ a ∧ (a < 0xa000 ∨ 0xc000 ≤ a) := by
  simp [cartAddr] at h; omega

/-- `Mapper.Write` forwards only cartridge addresses, but every controller ignores the others anyway -/
theorem busWrite_eq (c : Mbc) (a v : Nat) : busWrite c a v = c.write a v := by
  unfold busWrite
  cases hc : cartAddr a with
  | true => simp
  | false =>
    obtain ⟨h1, h2⟩ := cartAddr_false hc
    simp only [Bool.false_eq_true, if_false]
    cases c with
    | none m => rfl
    | mbc1 m =>
      simp only [Mbc.write, Mbc1.write]
      rw [if_neg (by omega), if_neg (by omega), if_neg (by omega), if_neg (by omega)]
      rcases h2 with h2|h2
      · rw [if_pos h2]; rfl
      · rw [if_neg (by omega), if_neg (by omega)]; rfl
    | mbc2 m =>
      simp only [Mbc.write, Mbc2.write]
      rw [if_neg (by omega)]
      rcases h2 with h2|h2
      · rw [if_pos h2]; rfl
      · rw [if_neg (by omega), if_neg (by omega)]; rfl
    | mbc3 m =>
      simp only [Mbc.write, Mbc3.write]
      rw [if_neg (by omega), if_neg (by omega), if_neg (by omega), if_neg (by omega)]
      rcases h2 with h2|h2
      · rw [if_pos h2]; rfl
      · rw [if_neg (by omega), if_neg (by omega)]; rfl
    | mbc5 m =>
      simp only [Mbc.write, Mbc5.write]
      rw [if_neg (by omega), if_neg (by omega), if_neg (by omega), if_neg (by omega)]
      rcases h2 with h2|h2
      · rw [if_pos h2]; rfl
      · rw [if_neg (by omega), if_neg (by omega)]; rfl

theorem hist_cons (op : Op) (ops : List Op) (h : Hist) :
    ((op :: ops).map toEv).reverse ++ h = (ops.map toEv).reverse ++ (toEv op :: h) := by
  simp

theorem run1 {rom : Rom} {n q : Nat} (hn : 0 < n) (hn' : n < 256) (hq : 0 < q) (hq' : q < 256) :
    ∀ (ops : List Op) (h : Hist) (m : Mbc1), Rel1 rom n q h m →
      ∃ m', run (.mbc1 m) ops = some (.mbc1 m') ∧ Rel1 rom n q ((ops.map toEv).reverse ++ h) m' := by
  intro ops
  induction ops with
  | nil => intro h m R; exact ⟨m, rfl, R⟩
  | cons op ops ih =>
    intro h m R
    rw [hist_cons]
    cases op with
    | tick =>
      obtain ⟨m', e, R'⟩ := ih (.tick :: h) m (rel1_tick R)
      exact ⟨m', by simpa [run, step, Mbc.tick] using e, R'⟩
    | write a v =>
      obtain ⟨m1, e1, R1⟩ := mbc1_step hn hn' hq hq' R a.toNat v.toNat
      obtain ⟨m', e, R'⟩ := ih _ m1 R1
      exact ⟨m', by simp [run, step, busWrite_eq, Mbc.write, e1, e, toEv], R'⟩

theorem run2 {rom : Rom} {n : Nat} (hn : 0 < n) :
    ∀ (ops : List Op) (h : Hist) (m : Mbc2), Rel2 rom n h m →
      ∃ m', run (.mbc2 m) ops = some (.mbc2 m') ∧ Rel2 rom n ((ops.map toEv).reverse ++ h) m' := by
  intro ops
  induction ops with
  | nil => intro h m R; exact ⟨m, rfl, R⟩
  | cons op ops ih =>
    intro h m R
    rw [hist_cons]
    cases op with
    | tick =>
      obtain ⟨m', e, R'⟩ := ih (.tick :: h) m (rel2_tick R)
      exact ⟨m', by simpa [run, step, Mbc.tick] using e, R'⟩
    | write a v =>
      obtain ⟨m1, e1, R1⟩ := mbc2_step hn R a.toNat v.toNat v.isLt
      obtain ⟨m', e, R'⟩ := ih _ m1 R1
      exact ⟨m', by simp [run, step, busWrite_eq, Mbc.write, e1, e, toEv], R'⟩

theorem run3 {rom : Rom} {n q : Nat} (hn : 0 < n) (hq : 0 < q) :
    ∀ (ops : List Op) (h : Hist) (m : Mbc3), Rel3 rom n q h m →
      ∃ m', run (.mbc3 m) ops = some (.mbc3 m') ∧ Rel3 rom n q ((ops.map toEv).reverse ++ h) m' := by
  intro ops
  induction ops with
  | nil => intro h m R; exact ⟨m, rfl, R⟩
  | cons op ops ih =>
    intro h m R
    rw [hist_cons]
    cases op with
    | tick =>
      obtain ⟨m', e, R'⟩ := ih (.tick :: h) _ (rel3_tick R)
      exact ⟨m', by simpa [run, step, Mbc.tick] using e, R'⟩
    | write a v =>
      obtain ⟨m1, e1, R1⟩ := mbc3_step hn hq R a.toNat v.toNat
      obtain ⟨m', e, R'⟩ := ih _ m1 R1
      exact ⟨m', by simp [run, step, busWrite_eq, Mbc.write, e1, e, toEv], R'⟩

theorem run5 {rom : Rom} {n q : Nat} (hn : Size5 n) (hq : 0 < q) (hq' : q < 256) :
    ∀ (ops : List Op) (h : Hist) (m : Mbc5), Rel5 rom n q h m →
      ∃ m', run (.mbc5 m) ops = some (.mbc5 m') ∧ Rel5 rom n q ((ops.map toEv).reverse ++ h) m' := by
  intro ops
  induction ops with
  | nil => intro h m R; exact ⟨m, rfl, R⟩
  | cons op ops ih =>
    intro h m R
    rw [hist_cons]
    cases op with
    | tick =>
      obtain ⟨m', e, R'⟩ := ih (.tick :: h) m (rel5_tick R)
      exact ⟨m', by simpa [run, step, Mbc.tick] using e, R'⟩
    | write a v =>
      obtain ⟨m1, e1, R1⟩ := mbc5_step hn hq hq' R a.toNat v.toNat v.isLt
      obtain ⟨m', e, R'⟩ := ih _ m1 R1
      exact ⟨m', by simp [run, step, busWrite_eq, Mbc.write, e1, e, toEv], R'⟩

/-- a ROM-only cartridge has no state -/
theorem run0 (m : NoMbc) : ∀ ops : List Op, run (.none m) ops = some (.none m) := by
  intro ops
  induction ops with
  | nil => rfl
  | cons op ops ih =>
    cases op with
    | tick => simpa [run, step, Mbc.tick] using ih
    | write a v => simpa [run, step, busWrite_eq, Mbc.write, NoMbc.write] using ih

/-! ### initial states -/

theorem rel1_init {rom : Rom} {n q : Nat} (hn : 0 < n) (hn' : n < 256) (hq : 0 < q) (hq' : q < 256) :
    ∃ m, Mbc1.new rom n freshRam q = some m ∧ Rel1 rom n q [] m := by
  refine ⟨_, updateBanks_eq _ (by simp; omega) (by simp; omega), ?_⟩
  constructor <;> simp [romBank, ramTarget, mbc1Bank1, mbc1Bank2, mbc1Mode, enabled, lastEnable, lastIn]
  · funext b o; rfl
  · rw [Nat.mod_eq_of_lt hn']

theorem rel2_init {rom : Rom} {n : Nat} (hn : 1 < n) : Rel2 rom n [] (Mbc2.new rom n) := by
  constructor <;> simp [Mbc2.new, romBank, mbc2RomReg, enabled, lastEnable, lastLow, nibble]
  exact (Nat.mod_eq_of_lt hn).symm

theorem rel3_init {rom : Rom} {n q : Nat} (hn : 1 < n) : Rel3 rom n q [] (Mbc3.new rom n freshRam q) := by
  constructor <;> simp [Mbc3.new, romBank, mbc3RomReg, ramSelect, enabled, lastEnable, lastIn, clockEvents,
    RtcSim.after]
  · funext b o; rfl
  · exact (Nat.mod_eq_of_lt hn).symm

theorem rel5_init {rom : Rom} {n q : Nat} (hn : 1 < n) : Rel5 rom n q [] (Mbc5.new rom n freshRam q) := by
  constructor <;> simp [Mbc5.new, romBank, mbc5RomReg, mbc5Lo, mbc5Hi, ramSelect, enabled, lastEnable, lastIn]
  · funext b o; rfl
  · exact (Nat.mod_eq_of_lt hn).symm

end Tetro.CartSim
