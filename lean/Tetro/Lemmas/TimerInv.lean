import Tetro.Proofs.C12
/-
The cycle-boundary invariant `C12.MInv` of the timer model is kept by every guest machine cycle
(`Model.Timer.cycle`: at most one byte-valued write, then `EndMachineCycle`) and hence along every guest schedule.
Assembled from the public theorems of Proofs/C12.lean (`c12_one_irq` gives the reload-phase fields) and field
arithmetic; used by Proofs/WholeTraces.lean to discharge the hypothesis `MInv` of `c12_refines` on whole-machine
runs.
-/
namespace Tetro.TimerInv
open Tetro.Model.Timer Tetro.C12
open Tetro.Timer (Write Obs Call)

/-- the four register-like fields are in range -/
def InRange (t : T) : Prop := t.counter < 65536 ∧ t.tac < 256 ∧ t.tima < 256 ∧ t.tma < 256

theorem inRange_cfe (t : T) (h : InRange t) : InRange (checkFallingEdge t) := by
  obtain ⟨h1, h2, h3, h4⟩ := h
  unfold checkFallingEdge increment
  repeat' split
  all_goals refine ⟨?_, ?_, ?_, ?_⟩
  all_goals (try dsimp only)
  all_goals omega

theorem inRange_write (t : T) (h : InRange t) (w : Option Write) (hw : ByteW w) : InRange (applyOpt t w) := by
  cases w with
  | none => exact h
  | some w =>
    obtain ⟨h1, h2, h3, h4⟩ := h
    cases w with
    | div => exact inRange_cfe _ ⟨by show 0 < 65536; omega, h2, h3, h4⟩
    | tima v =>
      show InRange (writeTIMA t v)
      unfold writeTIMA
      split
      · exact ⟨h1, h2, hw, h4⟩
      · exact ⟨h1, h2, h3, h4⟩
    | tma v =>
      show InRange (writeTMA t v)
      unfold writeTMA
      split
      · exact ⟨h1, h2, hw, hw⟩
      · exact ⟨h1, h2, h3, hw⟩
    | tac v => exact inRange_cfe _ ⟨h1, hw, h3, h4⟩

theorem inRange_endCycle (t : T) (h : InRange t) : InRange (endCycle t) := by
  obtain ⟨h1, h2, h3, h4⟩ := h
  unfold endCycle endCyclePre tickEdge reloadStep advance increment
  repeat' split
  all_goals refine ⟨?_, ?_, ?_, ?_⟩
  all_goals (try dsimp only)
  all_goals omega

theorem endCycle_edge (t : T) : (endCycle t).lastEdgeSet = edgeSet (endCycle t) := by
  unfold endCycle endCyclePre tickEdge increment
  repeat' split
  all_goals rfl

/-- **`MInv` is kept by a guest machine cycle** -/
theorem minv_cycle (t : T) (h : MInv t) (w : Option Write) (hw : ByteW w) : MInv (cycle t w) := by
  obtain ⟨_, h1, h0, hno⟩ := c12_one_irq t h w hw
  have hr : InRange (cycle t w) :=
    inRange_endCycle _ (inRange_write t ⟨h.counter_lt, h.tac_lt, h.tima_lt, h.tma_lt⟩ w hw)
  obtain ⟨r1, r2, r3, r4⟩ := hr
  refine ⟨r1, r2, r3, r4, ?_, hno, endCycle_edge _, ?_⟩
  · cases hi : (cycleObs t w).irq
    · rw [h0 hi]; omega
    · rw [(h1 hi).2]; omega
  · intro hd
    cases hi : (cycleObs t w).irq
    · rw [h0 hi] at hd; cases hd
    · exact (h1 hi).1

/-- … and along every guest schedule -/
theorem minv_run (t : T) (h : MInv t) (ws : List (Option Write)) (hws : Bytes ws) : MInv (run t ws) := by
  induction ws generalizing t with
  | nil => exact h
  | cons w ws ih =>
    exact ih (cycle t w) (minv_cycle t h w (hws w (List.mem_cons_self ..)))
      (fun x hx => hws x (List.mem_cons_of_mem _ hx))

theorem run_append (t : T) (a b : List (Option Write)) : run t (a ++ b) = run (run t a) b := by
  unfold run; rw [List.foldl_append]

theorem observe_append (t : T) (a b : List (Option Write)) :
    observe t (a ++ b) = observe t a ++ observe (run t a) b := by
  induction a generalizing t with
  | nil => rfl
  | cons w a ih =>
    show cycleObs t w :: observe (cycle t w) (a ++ b) = _
    rw [ih]; rfl

theorem observe_length (t : T) (ws : List (Option Write)) : (observe t ws).length = ws.length := by
  induction ws generalizing t with
  | nil => rfl
  | cons w ws ih => simp only [observe, List.length_cons, ih]

end Tetro.TimerInv
