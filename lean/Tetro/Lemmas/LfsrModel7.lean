import Tetro.Model.ApuNoise
import Tetro.Spec.Apu
import Tetro.Lemmas.LfsrCheck
/- the code's LFSR step in 7-bit mode against the documented generator, all 32768 register values (C21) -/
namespace Tetro.C21
open Tetro.Model.Apu Tetro.Spec.Apu

theorem lfsr_model7 : (∀ l, l < 32768 → lfsrStep 1 l % 128 = lfsr7 (l % 128) ∧ lfsrStep 1 l < 32768) ∧
    (lfsrStep 1 0xffff % 128 = lfsr7 (0xffff % 128) ∧ lfsrStep 1 0xffff < 32768) := by
  refine ⟨fun l hl => ?_, by decide +kernel⟩
  have := allBelow_spec (fun l => Nat.beq (lfsrStep 1 l % 128) (lfsr7 (l % 128)) && Nat.blt (lfsrStep 1 l) 32768) 32768 (by decide +kernel) l hl
  simp only [Bool.and_eq_true] at this
  exact ⟨Nat.eq_of_beq_eq_true this.1, Nat.blt_eq.mp this.2⟩

end Tetro.C21
