import Tetro.Model.Lcd
import Tetro.Spec.Lcd
/-
Simulation between the code-shaped PPU model (`Model.Lcd`) and the closed-form specification
(`Spec.Lcd`), shared by Proofs/C13, Proofs/C14 and Proofs/C17Lcd.
-/
namespace Tetro.LcdLemmas
open Tetro.Model.Lcd
open Tetro.Spec.Lcd

/-- the specification's reaction to an operation of the schedule -/
def specStep (s : St) : Op → St
  | .tick => s.cycle
  | .wLCDC v => s.writeLCDC v
  | .wSTAT v => s.writeSTAT v
  | .wLYC v => s.writeLYC v
  | .wLY _ => s.writeLY

def specRun (s : St) (ops : List Op) : St := ops.foldl specStep s

/-- the OAM source as the code implements it: a mode change into mode 2 -/
def modeInto2 (k : Nat) : Prop := modeAt k = 2 ∧ modeAt (k - 1) ≠ 2

instance (k : Nat) : Decidable (modeInto2 k) := by unfold modeInto2; infer_instance

/-- exact STAT request of the model for the cycle from `s` to `s.cycle` -/
def statExact (s : St) : Prop :=
  match s.since with
  | none => False
  | some n => statDetermined s (n + 1) ∨ (s.oamEn = true ∧ modeInto2 (n + 1))

/-- simulation relation -/
def Rel (s : St) (p : Ppu) : Prop :=
  p.lycInt = s.lycEn ∧ p.oamInt = s.oamEn ∧ p.vblInt = s.vblEn ∧ p.hblInt = s.hblEn ∧
  p.lyc = s.lyc ∧
  match s.since with
  | none => p.enabled = false ∧ p.ticks = 0 ∧ p.mode = 0 ∧ p.ly = 0 ∧ p.oamCorrupt = false
  | some n =>
      p.enabled = true ∧ p.mode = modeOfPhase (phase n) ∧ p.ticks = phase (n + 1) ∧
      (p.firstLine = true ↔ n ≤ 61) ∧
      (p.ly = phase n / 114 ∨ (s.lyWritten = true ∧ p.ly = 0)) ∧
      (p.oamCorrupt = true ↔ modeOfPhase (phase n) = 2)

/-! ### arithmetic of the closed form -/

/-- consecutive frame positions: the regular successor, the stand-still at switch-on, and the jump
    of the shortened first line -/
def Adj (a t : Nat) : Prop :=
  a < 17556 ∧ (t = (a + 1) % 17556 ∨ (a = 0 ∧ t = 0) ∨ (a = 61 ∧ t = 64))

theorem phase_lt (n : Nat) : phase n < 17556 := by
  unfold phase; exact Nat.mod_lt _ (by decide)

theorem adj (n : Nat) : Adj (phase n) (phase (n + 1)) := by
  unfold Adj phase
  repeat' split
  all_goals omega

theorem mode_lt4 (u : Nat) : modeOfPhase u < 4 := by
  unfold modeOfPhase; repeat' split
  all_goals omega

theorem mode_step (a t : Nat) (h : Adj a t) : nextMode (modeOfPhase a) t = modeOfPhase t := by
  obtain ⟨ha, h | ⟨h1, h2⟩ | ⟨h1, h2⟩⟩ := h
  · subst h; unfold nextMode modeOfPhase; repeat' split
    all_goals omega
  · subst h1 h2; decide
  · subst h1 h2; decide

theorem mode2_window (u : Nat) (h : modeOfPhase u = 2) : u % 114 < 20 := by
  unfold modeOfPhase at h; repeat' split at h
  all_goals omega

/-! ### the request / corruption helpers of the mode switch as propositions -/

theorem swVbl_iff (m t : Nat) :
    swVbl m t = true ↔ (m = 0 ∧ t % 114 = 0 ∧ t / 114 % 256 = 144) := by
  unfold swVbl; repeat' split
  all_goals simp_all

theorem swStat_iff (m t : Nat) (hbl vbl oam : Bool) (hm : m < 4) :
    swStat m t hbl vbl oam = true ↔
      ((hbl = true ∧ m = 3 ∧ t % 114 = 61) ∨
       (vbl = true ∧ m = 0 ∧ t % 114 = 0 ∧ t / 114 % 256 = 144) ∨
       (oam = true ∧ ((m = 0 ∧ t % 114 = 0 ∧ t / 114 % 256 ≠ 144) ∨ (m = 1 ∧ t = 0)))) := by
  have hm' : m = 0 ∨ m = 1 ∨ m = 2 ∨ m = 3 := by omega
  rcases hm' with h | h | h | h <;> subst h <;> unfold swStat <;>
    cases hbl <;> cases vbl <;> cases oam <;> simp <;> omega

/-- HBlank source: `3 → 0` at line cycle 61 is the rising edge of "mode = 0" -/
theorem hbl_event (a t : Nat) (h : Adj a t) :
    (modeOfPhase a = 3 ∧ t % 114 = 61) ↔ (modeOfPhase t = 0 ∧ modeOfPhase a ≠ 0) := by
  obtain ⟨ha, h | ⟨h1, h2⟩ | ⟨h1, h2⟩⟩ := h
  · subst h; unfold modeOfPhase; repeat' split
    all_goals omega
  · subst h1 h2; decide
  · subst h1 h2; decide

/-- VBlank: `0 → 1` at the start of line 144 -/
theorem vbl_event (a t : Nat) (h : Adj a t) :
    (modeOfPhase a = 0 ∧ t % 114 = 0 ∧ t / 114 % 256 = 144) ↔ (t % 114 = 0 ∧ t / 114 = 144) := by
  obtain ⟨ha, h | ⟨h1, h2⟩ | ⟨h1, h2⟩⟩ := h
  · subst h; unfold modeOfPhase; repeat' split
    all_goals omega
  · subst h1 h2; decide
  · subst h1 h2; decide

/-- OAM source: `0 → 2` at a line start other than 144, and `1 → 2` at the frame wrap -/
theorem oam_event (a t : Nat) (h : Adj a t) :
    ((modeOfPhase a = 0 ∧ t % 114 = 0 ∧ t / 114 % 256 ≠ 144) ∨ (modeOfPhase a = 1 ∧ t = 0)) ↔
      (modeOfPhase t = 2 ∧ modeOfPhase a ≠ 2) := by
  obtain ⟨ha, h | ⟨h1, h2⟩ | ⟨h1, h2⟩⟩ := h
  · subst h; unfold modeOfPhase; repeat' split
    all_goals omega
  · subst h1 h2; decide
  · subst h1 h2; decide

theorem corrupt_step (a t : Nat) (c : Bool) (h : Adj a t) (hc : c = true ↔ modeOfPhase a = 2) :
    swCorrupt (modeOfPhase a) t c = true ↔ modeOfPhase t = 2 := by
  have hm := mode_step a t h
  have h4 := mode_lt4 a
  generalize modeOfPhase a = m at *
  rw [← hm]
  have hm' : m = 0 ∨ m = 1 ∨ m = 2 ∨ m = 3 := by omega
  rcases hm' with h | h | h | h <;> subst h <;> unfold swCorrupt nextMode <;> simp at hc ⊢
  · repeat' split
    all_goals simp_all
  · repeat' split
    all_goals simp_all
  · repeat' split
    all_goals simp_all
  · repeat' split
    all_goals simp_all

/-- the tick counter and the first-line flag -/
theorem ticks_step (n : Nat) (fl : Bool) (hf : fl = true ↔ n ≤ 61) :
    (if (if modeOfPhase (phase (n + 1)) = 0 ∧ fl = true then phase (n + 1) + 2 else phase (n + 1)) + 1 = 17556
      then 0
      else (if modeOfPhase (phase (n + 1)) = 0 ∧ fl = true then phase (n + 1) + 2 else phase (n + 1)) + 1)
      = phase (n + 1 + 1) ∧
    ((if modeOfPhase (phase (n + 1)) = 0 ∧ fl = true then false else fl) = true ↔ n + 1 ≤ 61) := by
  have key : n ≤ 60 ∨ n = 61 ∨ 62 ≤ n := by omega
  rcases key with h1 | h1 | h1
  · have hfl : fl = true := hf.mpr (by omega)
    have e2 : phase (n + 1) = n := by unfold phase; rw [if_pos (by omega)]; omega
    have e3 : phase (n + 1 + 1) = n + 1 := by unfold phase; rw [if_pos (by omega)]; omega
    have hne : modeOfPhase n ≠ 0 := by
      unfold modeOfPhase; repeat' split
      all_goals omega
    rw [e2, e3]; simp only [hne, false_and, if_false, hfl]
    constructor
    · split <;> omega
    · simp; omega
  · subst h1
    have hfl : fl = true := hf.mpr (by omega)
    subst hfl; decide
  · have hfl : fl = false := by
      cases fl with
      | false => rfl
      | true => exact absurd (hf.mp rfl) (by omega)
    subst hfl
    simp only [Bool.false_eq_true, and_false, if_false]
    constructor
    · unfold phase; repeat' split
      all_goals omega
    · simp; omega

/-! ### one machine cycle with the LCD on -/

theorem lyc_event (c t : Nat) (ht : t < 17556) :
    (t % 114 = 0 ∧ t / 114 % 256 = c) ↔ (t % 114 = 0 ∧ t / 114 = c) := by
  omega

theorem tick_on_rel (s : St) (n : Nat) (p : Ppu) (hs : s.since = some n) (h : Rel s p) :
    tick p = some (tickOn p) ∧ Rel s.cycle (tickOn p).p ∧
    ((tickOn p).vbl = true ↔ vblankBegins (n + 1)) ∧
    ((tickOn p).stat = true ↔
      (statDetermined s (n + 1) ∨ (s.oamEn = true ∧ modeInto2 (n + 1)))) := by
  rcases s with ⟨since, stat, lyc, lw⟩
  simp only at hs; subst hs
  unfold Rel at h
  obtain ⟨i1, i2, i3, i4, i5, he, hm, ht, hf, hly, hc⟩ := h
  simp only at i5
  have A := adj n
  have hms := mode_step _ _ A
  have hlt := phase_lt (n + 1)
  refine ⟨?_, ?_, ?_, ?_⟩
  · have hnp : ¬ tickPanics p := by
      unfold tickPanics; rw [hm, ht, hms]
      have := mode_lt4 (phase n); have := mode_lt4 (phase (n + 1))
      have := mode2_window (phase (n + 1))
      omega
    unfold tick; simp [he, hnp]
  · have T := ticks_step n p.firstLine hf
    have C := corrupt_step _ _ p.oamCorrupt A hc
    unfold Rel St.cycle tickOn Spec.Lcd.cycle
    simp only [hm, ht, hms]
    refine ⟨i1, i2, i3, i4, i5, he, trivial, T.1, T.2, ?_, C⟩
    left; omega
  · unfold tickOn; simp only [hm, ht]
    rw [swVbl_iff, vbl_event _ _ A]
    unfold vblankBegins lineBegins lyAt lyOfPhase; exact Iff.rfl
  · unfold tickOn; simp only [hm, ht]
    rw [Bool.or_eq_true, swStat_iff _ _ _ _ _ (mode_lt4 _), hbl_event _ _ A, vbl_event _ _ A,
      oam_event _ _ A]
    simp only [Bool.and_eq_true, decide_eq_true_eq]
    unfold statDetermined hblankBegins vblankBegins lycLineBegins lineBegins modeInto2 modeAt lyAt
      lyOfPhase
    simp only [Nat.add_sub_cancel]
    rw [i1, i2, i3, i4, i5]
    have L := lyc_event lyc (phase (n + 1)) hlt
    constructor
    · rintro ((h | h | h) | h)
      · exact Or.inl (Or.inl h)
      · exact Or.inl (Or.inr (Or.inl h))
      · exact Or.inr h
      · exact Or.inl (Or.inr (Or.inr ⟨h.2, L.mp h.1⟩))
    · rintro ((h | h | h) | h)
      · exact Or.inl (Or.inl h)
      · exact Or.inl (Or.inr (Or.inl h))
      · exact Or.inr ⟨L.mpr h.2, h.1⟩
      · exact Or.inl (Or.inr (Or.inr h))

/-! ### every operation, every schedule -/

/-- what the operation's request outputs must be -/
def OutOk (s : St) (op : Op) (r : TickRes) : Prop :=
  match op with
  | .tick => (r.vbl = true ↔ vblankReq s) ∧ (r.stat = true ↔ statExact s)
  | _ => r.vbl = false ∧ r.stat = false

theorem rel_init : Rel St.init init := by
  unfold Rel St.init init
  simp [wSTAT, wLYC, wLY, wLCDC, lcdcSwitch, enable, zero, St.lycEn, St.oamEn, St.vblEn, St.hblEn]
  decide

theorem phase0 : phase 0 = 0 := by decide
theorem phase1 : phase 1 = 0 := by decide
theorem mode0 : modeOfPhase 0 = 2 := by decide

theorem step_rel (s : St) (p : Ppu) (op : Op) (h : Rel s p) :
    ∃ r, step p op = some r ∧ Rel (specStep s op) r.p ∧ OutOk s op r := by
  cases op with
  | tick =>
    cases hs : s.since with
    | none =>
      refine ⟨⟨p, false, false⟩, ?_, ?_, ?_⟩
      · unfold Rel at h; rw [hs] at h
        simp [step, tick, h.2.2.2.2.2.1]
      · unfold Rel at h ⊢; unfold specStep St.cycle Spec.Lcd.cycle
        rw [hs] at h ⊢; exact h
      · simp [OutOk, vblankReq, statExact, hs]
    | some n =>
      obtain ⟨a, b, c, d⟩ := tick_on_rel s n p hs h
      refine ⟨tickOn p, a, b, ?_⟩
      simp only [OutOk, vblankReq, statExact, hs]
      exact ⟨c, d⟩
  | wLCDC v =>
    refine ⟨_, rfl, ?_, ⟨rfl, rfl⟩⟩
    rcases s with ⟨since, stat, lyc, lw⟩
    unfold Rel at h
    obtain ⟨i1, i2, i3, i4, i5, h⟩ := h
    cases since with
    | none =>
      obtain ⟨he, ht, hm, hly, hc⟩ := h
      cases hb : v.testBit 7
      · unfold Rel specStep St.writeLCDC Spec.Lcd.lcdc wLCDC lcdcSwitch
        simp [hb, he, ht, hm, hly, hc, i5]
        exact ⟨i1, i2, i3, i4⟩
      · unfold Rel specStep St.writeLCDC Spec.Lcd.lcdc wLCDC lcdcSwitch enable
        simp [hb, he, ht, hly, i5, phase0, phase1, mode0]
        exact ⟨i1, i2, i3, i4⟩
    | some n =>
      obtain ⟨he, hm, ht, hf, hly, hc⟩ := h
      cases hb : v.testBit 7
      · unfold Rel specStep St.writeLCDC Spec.Lcd.lcdc wLCDC lcdcSwitch disable
        simp [hb, he, i5]
        exact ⟨i1, i2, i3, i4⟩
      · unfold Rel specStep St.writeLCDC Spec.Lcd.lcdc wLCDC lcdcSwitch
        simp [hb, he, i5]
        exact ⟨i1, i2, i3, i4, hm, ht, hf, hly, hc⟩
  | wSTAT v =>
    refine ⟨_, rfl, ?_, ⟨rfl, rfl⟩⟩
    unfold Rel at h ⊢
    obtain ⟨i1, i2, i3, i4, i5, h⟩ := h
    exact ⟨rfl, rfl, rfl, rfl, i5, h⟩
  | wLYC v =>
    refine ⟨_, rfl, ?_, ⟨rfl, rfl⟩⟩
    unfold Rel at h ⊢
    obtain ⟨i1, i2, i3, i4, i5, h⟩ := h
    exact ⟨i1, i2, i3, i4, rfl, h⟩
  | wLY v =>
    refine ⟨_, rfl, ?_, ⟨rfl, rfl⟩⟩
    rcases s with ⟨since, stat, lyc, lw⟩
    unfold Rel at h ⊢
    obtain ⟨i1, i2, i3, i4, i5, h⟩ := h
    refine ⟨i1, i2, i3, i4, i5, ?_⟩
    cases since with
    | none => exact ⟨h.1, h.2.1, h.2.2.1, rfl, h.2.2.2.2⟩
    | some n =>
      obtain ⟨he, hm, ht, hf, hly, hc⟩ := h
      exact ⟨he, hm, ht, hf, Or.inr ⟨rfl, rfl⟩, hc⟩

theorem run_append (p : Ppu) (a b : List Op) :
    run p (a ++ b) = (run p a).bind (fun q => run q b) := by
  induction a generalizing p with
  | nil => rfl
  | cons op a ih =>
    simp only [List.cons_append, run]
    cases step p op with
    | none => rfl
    | some r => exact ih r.p

theorem specRun_append (s : St) (a b : List Op) :
    specRun s (a ++ b) = specRun (specRun s a) b := by
  unfold specRun; exact List.foldl_append

/-- the simulation holds along every schedule; in particular no schedule panics -/
theorem run_rel (ops : List Op) (s : St) (p : Ppu) (h : Rel s p) :
    ∃ q, run p ops = some q ∧ Rel (specRun s ops) q := by
  induction ops generalizing s p with
  | nil => exact ⟨p, rfl, h⟩
  | cons op ops ih =>
    obtain ⟨r, hr, hrel, _⟩ := step_rel s p op h
    obtain ⟨q, hq, hq'⟩ := ih (specStep s op) r.p hrel
    refine ⟨q, ?_, hq'⟩
    simp only [run, hr]; exact hq

/-! ### projections of the specification run -/

/-- the specification state of C13 is just the time since switch-on -/
def sinceStep (s : Option Nat) : Op → Option Nat
  | .tick => cycle s
  | .wLCDC v => lcdc s (v.testBit 7)
  | _ => s

/-- time since switch-on after a schedule from power-on (the LCD is on at power-on) -/
def sinceOf (ops : List Op) : Option Nat := ops.foldl sinceStep (some 0)

theorem specRun_since (ops : List Op) (s : St) :
    (specRun s ops).since = ops.foldl sinceStep s.since := by
  induction ops generalizing s with
  | nil => rfl
  | cons op ops ih =>
    simp only [specRun, List.foldl_cons] at ih ⊢
    rw [ih]; cases op <;> rfl

theorem specRun_init_since (ops : List Op) : (specRun St.init ops).since = sinceOf ops :=
  specRun_since ops St.init

/-- `k` machine cycles without any write -/
theorem specRun_ticks (k : Nat) (s : St) (n : Nat) (h : s.since = some n) :
    (specRun s (List.replicate k .tick)).since = some (n + k) ∧
    (specRun s (List.replicate k .tick)).stat = s.stat ∧
    (specRun s (List.replicate k .tick)).lyc = s.lyc := by
  induction k generalizing s n with
  | zero => exact ⟨h, rfl, rfl⟩
  | succ k ih =>
    have h' : (specStep s .tick).since = some (n + 1) := by
      simp [specStep, St.cycle, Spec.Lcd.cycle, h]
    obtain ⟨a, b, c⟩ := ih (specStep s .tick) (n + 1) h'
    simp only [List.replicate_succ, specRun, List.foldl_cons] at a b c ⊢
    refine ⟨?_, b, c⟩
    rw [a]; congr 1; omega

/-- after ANY schedule from power-on the next operation does not panic, keeps the simulation and
    raises exactly the requests the closed form prescribes -/
theorem run_then_step (ops : List Op) (op : Op) :
    ∃ q r, run init ops = some q ∧ Rel (specRun St.init ops) q ∧ step q op = some r ∧
      Rel (specRun St.init (ops ++ [op])) r.p ∧ OutOk (specRun St.init ops) op r := by
  obtain ⟨q, hq, hrel⟩ := run_rel ops St.init init rel_init
  obtain ⟨r, hr, hrel', hout⟩ := step_rel _ q op hrel
  refine ⟨q, r, hq, hrel, hr, ?_, hout⟩
  rw [specRun_append]; exact hrel'

end Tetro.LcdLemmas
