import Tetro.Model.Rtc
import Tetro.Spec.Rtc
/-
The clock model driven by specification-level events, most recent first: `after h` is the model
state after history `h`.  Shared by C10 and by the MBC3 simulation (C09).
-/
namespace Tetro.RtcSim
open Tetro.Model

/-- the call the MBC3 / the machine-cycle loop makes for one clock event -/
def applyEv (r : Rtc.St) : Spec.Rtc.Ev → Rtc.St
  | .tick => Rtc.tick r
  | .latch b => if b then Rtc.latchHigh r else Rtc.latchLow r
  | .write sel v => Rtc.write r sel v

/-- the model state after a history (most recent event first) from power-on -/
def after : Spec.Rtc.Hist → Rtc.St
  | [] => Rtc.init
  | e :: h => applyEv (after h) e

def toEv : Rtc.Op → Spec.Rtc.Ev
  | .tick => .tick
  | .latch b => .latch b
  | .write sel v => .write sel v.toNat

/-- the history (most recent first) of an operation list (oldest first) -/
def hist (ops : List Rtc.Op) : Spec.Rtc.Hist := (ops.map toEv).reverse

theorem step_eq (r : Rtc.St) (op : Rtc.Op) : Rtc.step r op = applyEv r (toEv op) := by
  cases op <;> rfl

theorem run_eq_aux (ops : List Rtc.Op) : ∀ (h : Spec.Rtc.Hist),
    Rtc.run (after h) ops = after ((ops.map toEv).reverse ++ h) := by
  induction ops with
  | nil => intro h; rfl
  | cons op ops ih =>
    intro h
    have := ih (toEv op :: h)
    simp only [Rtc.run, List.foldl_cons, List.map_cons, List.reverse_cons, List.append_assoc,
      List.singleton_append] at *
    rw [← this, step_eq]; rfl

/-- running an operation list from power-on = the state after its history -/
theorem run_eq (ops : List Rtc.Op) : Rtc.run Rtc.init ops = after (hist ops) := by
  have := run_eq_aux ops []
  simpa [hist, after] using this

end Tetro.RtcSim
