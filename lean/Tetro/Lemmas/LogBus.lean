import Tetro.Model.LogBus
import Tetro.Lemmas.CpuExec
import Tetro.Lemmas.Bits
/-
Lemmas about the recording bus (`Model/LogBus.lean`): every micro-operation run on the recording bus
behaves exactly as on the flat bus and appends to the log exactly its operand fetch (if any) followed by
its data accesses (`MicroOp.dataAccess`, a hand-written tag function).  Used by C03.
-/
namespace Tetro.BusLog
open Tetro.Model.Cpu Tetro.Spec.Isa Tetro.Exec

abbrev Access := Kind × Word

/-- the operand fetch of a micro-operation: `readParamA`/`readParamB` read the byte at PC -/
def opFetch (μ : MicroOp) (r : Regs) : List Access :=
  match μ with
  | .readParamA => [(.rd, r.pc)]
  | .readParamB => [(.rd, r.pc)]
  | _ => []

/-- the DATA accesses of a micro-operation as a function of the registers it starts from (and, for the
    interrupt dispatch, of IME): at most one for every micro-operation except `handleInterrupt` -/
def dataAccess (μ : MicroOp) (r : Regs) (f : Flat) : List Access :=
  match μ with
  | .ldRM _ => [(.rd, r.hl)]
  | .ldMR _ => [(.wr, r.hl)]
  | .loadA i => [(.rd, i.addr r)]
  | .storeA i => [(.wr, i.addr r)]
  | .loadAHLI => [(.rd, r.hl)]
  | .loadAHLD => [(.rd, r.hl)]
  | .storeAHLI => [(.wr, r.hl)]
  | .storeAHLD => [(.wr, r.hl)]
  | .writeLowSP => [(.wr, r.u16)]
  | .writeHighSP => [(.wr, r.u16 + 1)]
  | .alu _ .m => [(.rd, r.hl)]
  | .incM => [(.wr, r.hl)]
  | .decM => [(.wr, r.hl)]
  | .rotM _ => [(.wr, r.hl)]
  | .bitM _ => [(.rd, r.hl)]
  | .resM _ => [(.wr, r.hl)]
  | .setM _ => [(.wr, r.hl)]
  | .pop _ => [(.rd, r.sp)]
  | .popF => [(.rd, r.sp)]
  | .push _ => [(.wr, r.sp - 1)]
  | .handleInterrupt => if f.ime then [(.wr, r.sp - 1), (.wr, r.sp - 1 - 1)] else []
  | _ => []

/-! ### the recording bus, field by field -/

@[simp] theorem lb_read (m : LogBus) (a : Word) :
    Bus.read m a = (m.flat.read a, { m with log := m.log ++ [(Kind.rd, a)] }) := rfl
@[simp] theorem lb_readAt (m : LogBus) (a : Word) :
    readAt m a = (m.flat.read a, { m with log := m.log ++ [(Kind.rd, a)] }) := rfl
@[simp] theorem lb_write (m : LogBus) (a : Word) (v : Byte) :
    Bus.write m a v = { flat := m.flat.write a v, log := m.log ++ [(Kind.wr, a)] } := rfl
@[simp] theorem lb_trigger (m : LogBus) (a : Word) : Bus.trigger m a = m := rfl
@[simp] theorem lb_corrupt (m : LogBus) : Bus.corrupt m = m := rfl
@[simp] theorem lb_ime (m : LogBus) : Bus.ime m = m.flat.ime := rfl
@[simp] theorem lb_setIme (m : LogBus) (v : Bool) :
    Bus.setIme m v = { m with flat := { m.flat with ime := v } } := rfl
@[simp] theorem lb_ie (m : LogBus) : Bus.ie m = m.flat.ie := rfl
@[simp] theorem lb_iflag (m : LogBus) : Bus.iflag m = m.flat.ifl := rfl
@[simp] theorem lb_clearIf (m : LogBus) (k : Nat) :
    Bus.clearIf m k = { m with flat := { m.flat with ifl := m.flat.ifl &&& ~~~((1 : Byte) <<< k) } } := rfl
@[simp] theorem lb_pendingBits (m : LogBus) : pendingBits m = pendingBits m.flat := rfl
@[simp] theorem lb_haltF (r : Regs) (m : LogBus) : haltF r m = haltF r m.flat := rfl

theorem lb_pushCell (k : R8) (r : Regs) (m : LogBus) :
    pushCell k r m =
      ((pushCell k r m.flat).1, { flat := (pushCell k r m.flat).2, log := m.log ++ [(Kind.wr, r.sp - 1)] }) := rfl

@[simp] theorem pushCell_sp (k : R8) (r : Regs) (m : Flat) : (pushCell k r m).1.sp = r.sp - 1 := rfl

@[simp] theorem set_hl_m8a (r : Regs) (v : Byte) : (r.set .m8a v).hl = r.hl := rfl
@[simp] theorem set_m8a_m8a (r : Regs) (v : Byte) : (r.set .m8a v).m8a = v := rfl
@[simp] theorem inc_hl_m8a (r : Regs) : (inc r .m8a).hl = r.hl := rfl
@[simp] theorem dec_hl_m8a (r : Regs) : (dec r .m8a).hl = r.hl := rfl
@[simp] theorem rotF_hl_m8a (op : RotOp) (r : Regs) : (rotF op r .m8a).hl = r.hl := rfl

theorem lb_handleInterruptF (r : Regs) (m : LogBus) :
    handleInterruptF r m =
      ((handleInterruptF r m.flat).1,
       { flat := (handleInterruptF r m.flat).2,
         log := m.log ++ (if m.flat.ime then [(Kind.wr, r.sp - 1), (Kind.wr, r.sp - 1 - 1)] else []) }) := by
  unfold handleInterruptF
  cases h : m.flat.ime
  · simp [h]
  · simp only [lb_ime, bus_ime, h, if_true, lb_setIme, bus_setIme, lb_pendingBits]
    cases pendingSource (pendingBits ({ m.flat with ime := false } : Flat)) with
    | none => simp [lb_pushCell]
    | some k => simp [lb_pushCell, rstTo]

/-- MAIN per-micro-operation lemma: on the recording bus a micro-operation computes the same registers
    and the same memory as on the flat bus, and appends its operand fetch and its data accesses -/
theorem run_lb (μ : MicroOp) (r : Regs) (m : LogBus) :
    μ.run r m =
      ((μ.run r m.flat).1,
       { flat := (μ.run r m.flat).2, log := m.log ++ opFetch μ r ++ dataAccess μ r m.flat }) := by
  cases μ with
  | alu op s => cases s <;> simp [MicroOp.run, opFetch, dataAccess]
  | inc16 k => cases k <;> simp [MicroOp.run, opFetch, dataAccess, inc16F, incSP]
  | dec16 k => cases k <;> simp [MicroOp.run, opFetch, dataAccess, dec16F, decSP]
  | handleInterrupt => simp [MicroOp.run, opFetch, dataAccess, lb_handleInterruptF]
  | push k => simp [MicroOp.run, opFetch, dataAccess, lb_pushCell]
  | _ => simp [MicroOp.run, opFetch, dataAccess, inc16F, dec16F, incSP]

/-! ### schedules on the recording bus -/

/-- fold of `MicroOp.run` over a schedule, on the recording bus -/
def runListL : List MicroOp → Regs → LogBus → Regs × LogBus
  | [], r, m => (r, m)
  | μ :: rest, r, m => runListL rest (μ.run r m).1 (μ.run r m).2

/-- the accesses a schedule makes on the recording bus, each paired with the number of the
    micro-operation (= machine cycle, counting from `k`) that made it; operand fetches are dropped:
    what is kept of the log entries a micro-operation appended is what follows its `opFetch` -/
def runTrace : List MicroOp → Nat → Regs → LogBus → List (Nat × Kind × Word)
  | [], _, _, _ => []
  | μ :: rest, k, r, m =>
    (((μ.run r m).2.log.drop (m.log.length + (opFetch μ r).length)).map fun a => (k, a)) ++
      runTrace rest (k + 1) (μ.run r m).1 (μ.run r m).2

/-- the same computed on the flat bus from the tag function -/
def planOf : List MicroOp → Nat → Regs → Flat → List (Nat × Kind × Word)
  | [], _, _, _ => []
  | μ :: rest, k, r, f =>
    ((dataAccess μ r f).map fun a => (k, a)) ++ planOf rest (k + 1) (μ.run r f).1 (μ.run r f).2

@[simp] theorem planOf_nil (k : Nat) (r : Regs) (f : Flat) : planOf [] k r f = [] := rfl
@[simp] theorem planOf_cons (μ : MicroOp) (rest : List MicroOp) (k : Nat) (r : Regs) (f : Flat) :
    planOf (μ :: rest) k r f =
      ((dataAccess μ r f).map fun a => (k, a)) ++ planOf rest (k + 1) (μ.run r f).1 (μ.run r f).2 := rfl

theorem runListL_flat (ops : List MicroOp) (r : Regs) (m : LogBus) :
    (runListL ops r m).1 = (runList ops r m.flat).1 ∧ (runListL ops r m).2.flat = (runList ops r m.flat).2 := by
  induction ops generalizing r m with
  | nil => exact ⟨rfl, rfl⟩
  | cons μ rest ih =>
    simp only [runListL, runList_cons]
    rw [run_lb μ r m]
    exact ih _ _

theorem runTrace_eq (ops : List MicroOp) (k : Nat) (r : Regs) (m : LogBus) :
    runTrace ops k r m = planOf ops k r m.flat := by
  induction ops generalizing k r m with
  | nil => rfl
  | cons μ rest ih =>
    simp only [runTrace, planOf_cons]
    rw [run_lb μ r m]
    dsimp only
    rw [ih, ← List.length_append, List.drop_left]

end Tetro.BusLog
