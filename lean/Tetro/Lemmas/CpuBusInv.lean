import Tetro.Model.CpuExec
/-
The CPU touches the rest of the machine only through the nine operations of `Cpu.Bus`: a predicate on the bus
state that every bus operation preserves is preserved by every micro-operation, by instruction fetch,
interrupt dispatch and hence by `ExecuteMachineCycle` (`cycle_preserves`), for any tables.
Used by the whole-machine composition theorems (Proofs/Whole.lean).
-/
namespace Tetro.CpuBusInv
open Tetro.Model.Cpu

section
variable {M : Type} [Bus M] (P : M → Prop)
  (hr : ∀ m a, P m → P (Bus.read m a).2) (hw : ∀ m a v, P m → P (Bus.write m a v))
  (ht : ∀ m a, P m → P (Bus.trigger m a)) (hc : ∀ m, P m → P (Bus.corrupt m))
  (hi : ∀ m v, P m → P (Bus.setIme m v)) (hf : ∀ m k, P m → P (Bus.clearIf m k))

include hr hw ht hi hf in
theorem run_preserves (μ : MicroOp) (r : Regs) (m : M) (hp : P m) : P (μ.run r m).2 := by
  cases μ
  case alu op s => cases s <;> simp only [MicroOp.run, readAt] <;> first | assumption | (apply hr; assumption)
  case inc16 k => cases k <;> simp only [MicroOp.run, incSP, inc16F] <;> (apply ht; assumption)
  case dec16 k => cases k <;> simp only [MicroOp.run, decSP, dec16F] <;> (apply ht; assumption)
  case handleInterrupt =>
    simp only [MicroOp.run, handleInterruptF, pushCell, decSP]
    split
    · split <;>
        repeat (first | assumption | apply hr | apply hw | apply ht | apply hi | apply hf)
    · assumption
  all_goals
    simp only [MicroOp.run, readAt, incSP, decSP, inc16F, dec16F, pushCell]
    repeat (first | assumption | apply hr | apply hw | apply ht | apply hi | apply hf)

include hr hw ht hc hi hf in
theorem stepSub_preserves (c : Cpu) (m : M) (hp : P m) : P (stepSub c m).2 := by
  unfold stepSub
  split
  · exact hp
  · exact hc _ (run_preserves P hr hw ht hi hf _ _ _ hp)

include hr hi in
theorem fetch_preserves (t : Tables) (c : Cpu) (r : Regs) (m : M) (hp : P m) : P (fetch t c r m).bus := by
  have h1 : P (if r.eiPending then Bus.setIme m true else m) := by
    split
    · exact hi _ _ hp
    · exact hp
  unfold fetch
  generalize (if r.eiPending then Bus.setIme m true else m) = m1 at h1 ⊢
  simp only []
  split
  · exact hr _ _ (hr _ _ h1)
  · exact hr _ _ h1

include hr hi in
theorem next_preserves (t : Tables) (c : Cpu) (m : M) (hp : P m) : P (next t c m).bus := by
  unfold next
  simp only []
  split
  · exact hp
  · split
    · exact hp
    · exact fetch_preserves P hr hi _ _ _ _ hp

include hr hw ht hc hi hf in
/-- `ExecuteMachineCycle` preserves every predicate that the nine bus operations preserve -/
theorem cycle_preserves (t : Tables) (c : Cpu) (m : M) (hp : P m) : P (cycle t c m).2 := by
  unfold cycle
  split
  · exact hp
  · split
    · simp only []
      split
      · exact next_preserves P hr hi _ _ _ hp
      · exact stepSub_preserves P hr hw ht hc hi hf _ _ (next_preserves P hr hi _ _ _ hp)
    · exact stepSub_preserves P hr hw ht hc hi hf _ _ hp
end

end Tetro.CpuBusInv
