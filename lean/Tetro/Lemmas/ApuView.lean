import Tetro.Model.Apu
/-
Frame lemmas for the APU model: the READABLE register fields (the "views") of each channel are
left unchanged by every clocking function, by `trigger`, by the sweep and by the length /
envelope units.  Used by C18 (read-back).
-/
namespace Tetro.Model.Apu

/-- readable fields of a square channel (NRx1 duty, NRx2, NRx4 length enable) -/
structure SqView where
  duty : Nat
  initialVolume : Nat
  envelopeIncrease : Bool
  envelopeSweep : Nat
  lengthEnable : Bool
deriving DecidableEq, Repr

/-- readable fields of NR10 -/
structure SweepView where
  sweepPeriod : Nat
  sweepIncrease : Bool
  sweepShift : Nat
deriving DecidableEq, Repr

structure WaveView where
  dacEnabled : Bool
  outputLevel : Nat
  lengthEnable : Bool
deriving DecidableEq, Repr

structure NoiseView where
  initialVolume : Nat
  envelopeIncrease : Bool
  envelopeSweep : Nat
  shift : Nat
  lfsrWidth : Nat
  divisor : Nat
  lengthEnable : Bool
deriving DecidableEq, Repr

def Square.view (s : Square) : SqView :=
  ⟨s.duty, s.initialVolume, s.envelopeIncrease, s.envelopeSweep, s.lengthEnable⟩
def Square.sweepView (s : Square) : SweepView := ⟨s.sweepPeriod, s.sweepIncrease, s.sweepShift⟩
def Wave.view (w : Wave) : WaveView := ⟨w.dacEnabled, w.outputLevel, w.lengthEnable⟩
def Noise.view (n : Noise) : NoiseView :=
  ⟨n.initialVolume, n.envelopeIncrease, n.envelopeSweep, n.shift, n.lfsrWidth, n.divisor, n.lengthEnable⟩

/-- unfold the given definitions, split every `if`, close by `rfl` -/
macro "frame_tac" "[" ds:Lean.Parser.Tactic.simpLemma,* "]" : tactic =>
  `(tactic| (simp only [$ds,*]; repeat' split
             all_goals rfl))

namespace Square
@[simp] theorem view_calcState (s : Square) : s.calcState.view = s.view := by frame_tac [calcState, view]
@[simp] theorem sweepView_calcState (s : Square) : s.calcState.sweepView = s.sweepView := by frame_tac [calcState, sweepView]
@[simp] theorem view_trigBase (s : Square) : s.trigBase.view = s.view := by frame_tac [trigBase, view]
@[simp] theorem sweepView_trigBase (s : Square) : s.trigBase.sweepView = s.sweepView := by frame_tac [trigBase, sweepView]
@[simp] theorem view_sweepReload (s : Square) : s.sweepReload.view = s.view := by frame_tac [sweepReload, view]
@[simp] theorem sweepView_sweepReload (s : Square) : s.sweepReload.sweepView = s.sweepView := by frame_tac [sweepReload, sweepView]
@[simp] theorem view_dacGate (s : Square) : s.dacGate.view = s.view := by frame_tac [dacGate, view]
@[simp] theorem sweepView_dacGate (s : Square) : s.dacGate.sweepView = s.sweepView := by frame_tac [dacGate, sweepView]
@[simp] theorem view_triggerSweep (s : Square) : s.triggerSweep.view = s.view := by
  unfold triggerSweep; repeat' split
  all_goals simp
@[simp] theorem sweepView_triggerSweep (s : Square) : s.triggerSweep.sweepView = s.sweepView := by
  unfold triggerSweep; repeat' split
  all_goals simp
@[simp] theorem view_trigger (s : Square) : s.trigger.view = s.view := by simp [trigger]
@[simp] theorem sweepView_trigger (s : Square) : s.trigger.sweepView = s.sweepView := by simp [trigger]
@[simp] theorem view_tickTimer (s : Square) : s.tickTimer.view = s.view := by frame_tac [tickTimer, view]
@[simp] theorem sweepView_tickTimer (s : Square) : s.tickTimer.sweepView = s.sweepView := by frame_tac [tickTimer, sweepView]
@[simp] theorem view_tickLength (s : Square) : s.tickLength.view = s.view := by frame_tac [tickLength, view]
@[simp] theorem sweepView_tickLength (s : Square) : s.tickLength.sweepView = s.sweepView := by frame_tac [tickLength, sweepView]
@[simp] theorem view_tickVolumeEnvelope (s : Square) : s.tickVolumeEnvelope.view = s.view := by
  frame_tac [tickVolumeEnvelope, view]
@[simp] theorem sweepView_tickVolumeEnvelope (s : Square) : s.tickVolumeEnvelope.sweepView = s.sweepView := by
  frame_tac [tickVolumeEnvelope, sweepView]
@[simp] theorem view_storeFreq (s : Square) (f : Nat) : (s.storeFreq f).view = s.view := by frame_tac [storeFreq, view]
@[simp] theorem sweepView_storeFreq (s : Square) (f : Nat) : (s.storeFreq f).sweepView = s.sweepView := by
  frame_tac [storeFreq, sweepView]
@[simp] theorem view_sweepStep (s : Square) : s.sweepStep.view = s.view := by
  unfold sweepStep; split <;> simp
@[simp] theorem sweepView_sweepStep (s : Square) : s.sweepStep.sweepView = s.sweepView := by
  unfold sweepStep; split <;> simp
@[simp] theorem view_tickSweep (s : Square) : s.tickSweep.view = s.view := by
  unfold tickSweep; repeat' split
  all_goals (first | rfl | (simp; rfl))
@[simp] theorem sweepView_tickSweep (s : Square) : s.tickSweep.sweepView = s.sweepView := by
  unfold tickSweep; repeat' split
  all_goals (first | rfl | (simp; rfl))
end Square

namespace Wave
@[simp] theorem view_tickTimer (w : Wave) : w.tickTimer.view = w.view := by frame_tac [tickTimer, view]
@[simp] theorem view_tickLength (w : Wave) : w.tickLength.view = w.view := by frame_tac [tickLength, view]
@[simp] theorem view_trigHead (w : Wave) : w.trigHead.view = w.view := by frame_tac [trigHead, view]
@[simp] theorem view_trigBody (w : Wave) : w.trigBody.view = w.view := by frame_tac [trigBody, view]
@[simp] theorem view_trigger (w : Wave) : w.trigger.view = w.view := by simp [trigger]
end Wave

namespace Noise
@[simp] theorem view_tickTimer (n : Noise) : n.tickTimer.view = n.view := by frame_tac [tickTimer, view]
@[simp] theorem view_tickLength (n : Noise) : n.tickLength.view = n.view := by frame_tac [tickLength, view]
@[simp] theorem view_tickVolumeEnvelope (n : Noise) : n.tickVolumeEnvelope.view = n.view := by
  frame_tac [tickVolumeEnvelope, view]
@[simp] theorem view_trigger (n : Noise) : n.trigger.view = n.view := by frame_tac [trigger, view]
end Noise

-- write effects on the views
namespace Square
@[simp] theorem view_writeNR10 (s : Square) (v : Nat) : (s.writeNR10 v).view = s.view := by frame_tac [writeNR10, view]
@[simp] theorem sweepView_writeNR10 (s : Square) (v : Nat) :
    (s.writeNR10 v).sweepView = ⟨v / 16 % 8, decide (v / 8 % 2 = 0), v % 8⟩ := by frame_tac [writeNR10, sweepView]
@[simp] theorem view_writeNRx2 (s : Square) (v : Nat) :
    (s.writeNRx2 v).view = { s.view with initialVolume := v / 16, envelopeIncrease := decide (v / 8 % 2 > 0), envelopeSweep := v % 8 } := by
  frame_tac [writeNRx2, view]
@[simp] theorem sweepView_writeNRx2 (s : Square) (v : Nat) : (s.writeNRx2 v).sweepView = s.sweepView := by
  frame_tac [writeNRx2, sweepView]
@[simp] theorem view_writeNR13 (s : Square) (v : Nat) : (s.writeNR13 v).view = s.view := by frame_tac [writeNR13, view]
@[simp] theorem sweepView_writeNR13 (s : Square) (v : Nat) : (s.writeNR13 v).sweepView = s.sweepView := by
  frame_tac [writeNR13, sweepView]
@[simp] theorem view_writeNR23 (s : Square) (v : Nat) : (s.writeNR23 v).view = s.view := by frame_tac [writeNR23, view]
@[simp] theorem view_setFreqHi (s : Square) (v : Nat) : (s.setFreqHi v).view = s.view := by frame_tac [setFreqHi, view]
@[simp] theorem sweepView_setFreqHi (s : Square) (v : Nat) : (s.setFreqHi v).sweepView = s.sweepView := by
  frame_tac [setFreqHi, sweepView]
@[simp] theorem view_extraLenClock (s : Square) (fs : Nat) (le t : Bool) : (s.extraLenClock fs le t).view = s.view := by
  frame_tac [extraLenClock, view]
@[simp] theorem sweepView_extraLenClock (s : Square) (fs : Nat) (le t : Bool) :
    (s.extraLenClock fs le t).sweepView = s.sweepView := by frame_tac [extraLenClock, sweepView]
@[simp] theorem view_trigLenClock (s : Square) (fs : Nat) (le : Bool) : (s.trigLenClock fs le).view = s.view := by
  frame_tac [trigLenClock, view]
@[simp] theorem sweepView_trigLenClock (s : Square) (fs : Nat) (le : Bool) :
    (s.trigLenClock fs le).sweepView = s.sweepView := by frame_tac [trigLenClock, sweepView]
@[simp] theorem view_trigPart (s : Square) (fs : Nat) (le t : Bool) : (s.trigPart fs le t).view = s.view := by
  unfold trigPart; split <;> simp
@[simp] theorem sweepView_trigPart (s : Square) (fs : Nat) (le t : Bool) : (s.trigPart fs le t).sweepView = s.sweepView := by
  unfold trigPart; split <;> simp
@[simp] theorem view_setLE (s : Square) (le : Bool) : (s.setLE le).view = { s.view with lengthEnable := le } := by
  frame_tac [setLE, view]
@[simp] theorem sweepView_setLE (s : Square) (le : Bool) : (s.setLE le).sweepView = s.sweepView := by
  frame_tac [setLE, sweepView]
@[simp] theorem view_writeNRx4 (s : Square) (fs v : Nat) :
    (s.writeNRx4 fs v).view = { s.view with lengthEnable := leOf v } := by simp [writeNRx4]
@[simp] theorem sweepView_writeNRx4 (s : Square) (fs v : Nat) : (s.writeNRx4 fs v).sweepView = s.sweepView := by
  simp [writeNRx4]
end Square
@[simp] theorem view_sqWriteNRx1 (on : Bool) (s : Square) (v : Nat) :
    (Apu.sqWriteNRx1 on s v).view = { s.view with duty := if on then v / 64 else s.view.duty } := by
  frame_tac [Apu.sqWriteNRx1, Square.view]
@[simp] theorem sweepView_sqWriteNRx1 (on : Bool) (s : Square) (v : Nat) :
    (Apu.sqWriteNRx1 on s v).sweepView = s.sweepView := by frame_tac [Apu.sqWriteNRx1, Square.sweepView]
namespace Wave
@[simp] theorem view_writeNR30 (w : Wave) (v : Nat) :
    (w.writeNR30 v).view = { w.view with dacEnabled := decide (v / 128 % 2 > 0) } := by frame_tac [writeNR30, view]
@[simp] theorem view_writeNR31 (w : Wave) (v : Nat) : (w.writeNR31 v).view = w.view := by frame_tac [writeNR31, view]
@[simp] theorem view_writeNR32 (w : Wave) (v : Nat) :
    (w.writeNR32 v).view = { w.view with outputLevel := v / 32 % 4 } := by frame_tac [writeNR32, view]
@[simp] theorem view_writeNR33 (w : Wave) (v : Nat) : (w.writeNR33 v).view = w.view := by frame_tac [writeNR33, view]
@[simp] theorem view_setFreqHi (w : Wave) (v : Nat) : (w.setFreqHi v).view = w.view := by frame_tac [setFreqHi, view]
@[simp] theorem view_extraLenClock (w : Wave) (fs : Nat) (le t : Bool) : (w.extraLenClock fs le t).view = w.view := by
  frame_tac [extraLenClock, view]
@[simp] theorem view_trigLenClock (w : Wave) (fs : Nat) (le : Bool) : (w.trigLenClock fs le).view = w.view := by
  frame_tac [trigLenClock, view]
@[simp] theorem view_trigPart (w : Wave) (fs : Nat) (le t : Bool) : (w.trigPart fs le t).view = w.view := by
  unfold trigPart; split <;> simp
@[simp] theorem view_setLE (w : Wave) (le : Bool) : (w.setLE le).view = { w.view with lengthEnable := le } := by
  frame_tac [setLE, view]
@[simp] theorem view_writeNR34 (w : Wave) (fs v : Nat) :
    (w.writeNR34 fs v).view = { w.view with lengthEnable := leOf v } := by simp [writeNR34]
@[simp] theorem view_writeRam (w : Wave) (i v : Nat) : (w.writeRam i v).view = w.view := by frame_tac [writeRam, view]
end Wave
namespace Noise
@[simp] theorem view_writeNR41 (n : Noise) (v : Nat) : (n.writeNR41 v).view = n.view := by frame_tac [writeNR41, view]
@[simp] theorem view_writeNR42 (n : Noise) (v : Nat) :
    (n.writeNR42 v).view = { n.view with initialVolume := v / 16, envelopeIncrease := decide (v / 8 % 2 > 0), envelopeSweep := v % 8 } := by
  frame_tac [writeNR42, view]
@[simp] theorem view_writeNR43 (n : Noise) (v : Nat) :
    (n.writeNR43 v).view = { n.view with shift := v / 16, lfsrWidth := v / 8 % 2, divisor := v % 8 } := by
  frame_tac [writeNR43, view]
@[simp] theorem view_extraLenClock (n : Noise) (fs : Nat) (le t : Bool) : (n.extraLenClock fs le t).view = n.view := by
  frame_tac [extraLenClock, view]
@[simp] theorem view_trigLenClock (n : Noise) (fs : Nat) (le : Bool) : (n.trigLenClock fs le).view = n.view := by
  frame_tac [trigLenClock, view]
@[simp] theorem view_trigPart (n : Noise) (fs : Nat) (le t : Bool) : (n.trigPart fs le t).view = n.view := by
  unfold trigPart; split <;> simp
@[simp] theorem view_setLE (n : Noise) (le : Bool) : (n.setLE le).view = { n.view with lengthEnable := le } := by
  frame_tac [setLE, view]
@[simp] theorem view_writeNR44 (n : Noise) (fs v : Nat) :
    (n.writeNR44 fs v).view = { n.view with lengthEnable := leOf v } := by simp [writeNR44]
end Noise

structure RegView where
  sw : SweepView
  ch1 : SqView
  ch2 : SqView
  ch3 : WaveView
  ch4 : NoiseView
  control : Control
deriving DecidableEq, Repr

def Apu.regView (a : Apu) : RegView := ⟨a.ch1.sweepView, a.ch1.view, a.ch2.view, a.ch3.view, a.ch4.view, a.control⟩

namespace Apu

macro "apu_frame" "[" ds:Lean.Parser.Tactic.simpLemma,* "]" : tactic =>
  `(tactic| (simp only [$ds,*]; repeat' split
             all_goals simp))

@[simp] theorem regView_tickTimer (a : Apu) : a.tickTimer.regView = a.regView := by
  apu_frame [tickTimer, regView]
@[simp] theorem regView_lenPart (a : Apu) : a.lenPart.regView = a.regView := by apu_frame [lenPart, regView]
@[simp] theorem regView_envPart (a : Apu) : a.envPart.regView = a.regView := by apu_frame [envPart, regView]
@[simp] theorem regView_sweepPart (a : Apu) : a.sweepPart.regView = a.regView := by apu_frame [sweepPart, regView]
@[simp] theorem regView_incFs (a : Apu) : a.incFs.regView = a.regView := by apu_frame [incFs, regView]
@[simp] theorem regView_wrapFs (a : Apu) : a.wrapFs.regView = a.regView := by apu_frame [wrapFs, regView]
@[simp] theorem regView_tickFrameSequencer (a : Apu) : a.tickFrameSequencer.regView = a.regView := by
  simp [tickFrameSequencer]
@[simp] theorem regView_frameSeqPart (a : Apu) : a.frameSeqPart.regView = a.regView := by
  unfold frameSeqPart; split <;> simp
@[simp] theorem regView_takeSample (a : Apu) : a.takeSample.regView = a.regView := by
  unfold takeSample; repeat' split
  all_goals rfl
@[simp] theorem regView_samplerPart (a : Apu) : a.samplerPart.regView = a.regView := by
  unfold samplerPart; split <;> simp
@[simp] theorem regView_incTicks (a : Apu) : a.incTicks.regView = a.regView := by apu_frame [incTicks, regView]
@[simp] theorem regView_tickClock (a : Apu) : a.tickClock.regView = a.regView := by simp [tickClock]
@[simp] theorem regView_clearTriggered (a : Apu) : a.clearTriggered.regView = a.regView := by
  simp only [clearTriggered, regView]; rfl
@[simp] theorem regView_endMachineCycle (a : Apu) : a.endMachineCycle.regView = a.regView := by
  simp [endMachineCycle]
@[simp] theorem setOn_ch1 (a : Apu) (b : Bool) : (a.setOn b).ch1 = a.ch1 := rfl
@[simp] theorem setOn_ch2 (a : Apu) (b : Bool) : (a.setOn b).ch2 = a.ch2 := rfl
@[simp] theorem setOn_ch3 (a : Apu) (b : Bool) : (a.setOn b).ch3 = a.ch3 := rfl
@[simp] theorem setOn_ch4 (a : Apu) (b : Bool) : (a.setOn b).ch4 = a.ch4 := rfl
@[simp] theorem setOn_control (a : Apu) (b : Bool) : (a.setOn b).control = { a.control with on := b } := rfl
@[simp] theorem clearDuties_ch3 (a : Apu) : a.clearDuties.ch3 = a.ch3 := rfl
@[simp] theorem clearDuties_ch4 (a : Apu) : a.clearDuties.ch4 = a.ch4 := rfl
@[simp] theorem clearDuties_control (a : Apu) : a.clearDuties.control = a.control := rfl
@[simp] theorem clearDuties_ch1_view (a : Apu) : a.clearDuties.ch1.view = { a.ch1.view with duty := 0 } := rfl
@[simp] theorem clearDuties_ch2_view (a : Apu) : a.clearDuties.ch2.view = { a.ch2.view with duty := 0 } := rfl
@[simp] theorem clearDuties_ch1_sweepView (a : Apu) : a.clearDuties.ch1.sweepView = a.ch1.sweepView := rfl


/-! dispatcher evaluation -/
theorem writeB_FF10 (a : Apu) (v : Nat) : a.writeB 0xFF10 v = a.writeNR10 v := rfl
theorem writeB_FF11 (a : Apu) (v : Nat) : a.writeB 0xFF11 v = a.writeNR11 v := rfl
theorem writeB_FF12 (a : Apu) (v : Nat) : a.writeB 0xFF12 v = a.writeNR12 v := rfl
theorem writeB_FF13 (a : Apu) (v : Nat) : a.writeB 0xFF13 v = a.writeNR13 v := rfl
theorem writeB_FF14 (a : Apu) (v : Nat) : a.writeB 0xFF14 v = a.writeNR14 v := rfl
theorem writeB_FF16 (a : Apu) (v : Nat) : a.writeB 0xFF16 v = a.writeNR21 v := rfl
theorem writeB_FF17 (a : Apu) (v : Nat) : a.writeB 0xFF17 v = a.writeNR22 v := rfl
theorem writeB_FF18 (a : Apu) (v : Nat) : a.writeB 0xFF18 v = a.writeNR23 v := rfl
theorem writeB_FF19 (a : Apu) (v : Nat) : a.writeB 0xFF19 v = a.writeNR24 v := rfl
theorem writeB_FF1A (a : Apu) (v : Nat) : a.writeB 0xFF1A v = a.writeNR30 v := rfl
theorem writeB_FF1B (a : Apu) (v : Nat) : a.writeB 0xFF1B v = a.writeNR31 v := rfl
theorem writeB_FF1C (a : Apu) (v : Nat) : a.writeB 0xFF1C v = a.writeNR32 v := rfl
theorem writeB_FF1D (a : Apu) (v : Nat) : a.writeB 0xFF1D v = a.writeNR33 v := rfl
theorem writeB_FF1E (a : Apu) (v : Nat) : a.writeB 0xFF1E v = a.writeNR34 v := rfl
theorem writeB_FF20 (a : Apu) (v : Nat) : a.writeB 0xFF20 v = a.writeNR41 v := rfl
theorem writeB_FF21 (a : Apu) (v : Nat) : a.writeB 0xFF21 v = a.writeNR42 v := rfl
theorem writeB_FF22 (a : Apu) (v : Nat) : a.writeB 0xFF22 v = a.writeNR43 v := rfl
theorem writeB_FF23 (a : Apu) (v : Nat) : a.writeB 0xFF23 v = a.writeNR44 v := rfl
theorem writeB_FF24 (a : Apu) (v : Nat) : a.writeB 0xFF24 v = a.writeNR50 v := rfl
theorem writeB_FF25 (a : Apu) (v : Nat) : a.writeB 0xFF25 v = a.writeNR51 v := rfl
theorem writeB_FF26 (a : Apu) (v : Nat) : a.writeB 0xFF26 v = a.writeNR52 v := rfl
/-- `addr` is none of the 20 registers NR10–NR51 -/
def NotReg (addr : Nat) : Prop :=
  addr ≠ 0xFF10 ∧ addr ≠ 0xFF11 ∧ addr ≠ 0xFF12 ∧ addr ≠ 0xFF13 ∧ addr ≠ 0xFF14 ∧ addr ≠ 0xFF16 ∧ addr ≠ 0xFF17 ∧ addr ≠ 0xFF18 ∧ addr ≠ 0xFF19 ∧ addr ≠ 0xFF1A ∧ addr ≠ 0xFF1B ∧ addr ≠ 0xFF1C ∧ addr ≠ 0xFF1D ∧ addr ≠ 0xFF1E ∧ addr ≠ 0xFF20 ∧ addr ≠ 0xFF21 ∧ addr ≠ 0xFF22 ∧ addr ≠ 0xFF23 ∧ addr ≠ 0xFF24 ∧ addr ≠ 0xFF25
theorem writeB_other (a : Apu) (addr v : Nat) (h : NotReg addr) (h52 : addr ≠ 0xFF26) :
    a.writeB addr v = if addr < 0xFF30 then a else if addr < 0xFF40 then a.writeWaveRAM (addr - 0xFF30) v else a := by
  obtain ⟨h1, h2, h3, h4, h5, h6, h7, h8, h9, h10, h11, h12, h13, h14, h15, h16, h17, h18, h19, h20⟩ := h
  simp only [writeB, if_neg h1, if_neg h2, if_neg h3, if_neg h4, if_neg h5, if_neg h6, if_neg h7, if_neg h8, if_neg h9, if_neg h10,
    if_neg h11, if_neg h12, if_neg h13, if_neg h14, if_neg h15, if_neg h16, if_neg h17, if_neg h18, if_neg h19, if_neg h20, if_neg h52]
theorem read_other (a : Apu) (addr : Nat) (h : NotReg addr) (h52 : addr ≠ 0xFF26) :
    a.read addr = if addr < 0xFF30 then some 0xff else if addr < 0xFF40 then a.ch3.readRam (addr - 0xFF30) else some 0xff := by
  obtain ⟨h1, h2, h3, h4, h5, h6, h7, h8, h9, h10, h11, h12, h13, h14, h15, h16, h17, h18, h19, h20⟩ := h
  simp only [read, if_neg h1, if_neg h2, if_neg h3, if_neg h4, if_neg h5, if_neg h6, if_neg h7, if_neg h8, if_neg h9, if_neg h10,
    if_neg h11, if_neg h12, if_neg h13, if_neg h14, if_neg h15, if_neg h16, if_neg h17, if_neg h18, if_neg h19, if_neg h20, if_neg h52]
/-- an address is one of the 20 registers, NR52, or something else -/
theorem addr_cases (addr : Nat) :
    addr = 0xFF10 ∨ addr = 0xFF11 ∨ addr = 0xFF12 ∨ addr = 0xFF13 ∨ addr = 0xFF14 ∨ addr = 0xFF16 ∨ addr = 0xFF17 ∨ addr = 0xFF18 ∨ addr = 0xFF19 ∨ addr = 0xFF1A ∨ addr = 0xFF1B ∨ addr = 0xFF1C ∨ addr = 0xFF1D ∨ addr = 0xFF1E ∨ addr = 0xFF20 ∨ addr = 0xFF21 ∨ addr = 0xFF22 ∨ addr = 0xFF23 ∨ addr = 0xFF24 ∨ addr = 0xFF25 ∨ addr = 0xFF26 ∨ (NotReg addr ∧ addr ≠ 0xFF26) := by
  unfold NotReg; omega

/-- rewrite `writeB <literal address>` to the register's handler -/
macro "rw_writeB" : tactic => `(tactic| first | rw [Tetro.Model.Apu.Apu.writeB_FF10] | rw [Tetro.Model.Apu.Apu.writeB_FF11] | rw [Tetro.Model.Apu.Apu.writeB_FF12] | rw [Tetro.Model.Apu.Apu.writeB_FF13] | rw [Tetro.Model.Apu.Apu.writeB_FF14] | rw [Tetro.Model.Apu.Apu.writeB_FF16] | rw [Tetro.Model.Apu.Apu.writeB_FF17] | rw [Tetro.Model.Apu.Apu.writeB_FF18] | rw [Tetro.Model.Apu.Apu.writeB_FF19] | rw [Tetro.Model.Apu.Apu.writeB_FF1A] | rw [Tetro.Model.Apu.Apu.writeB_FF1B] | rw [Tetro.Model.Apu.Apu.writeB_FF1C] | rw [Tetro.Model.Apu.Apu.writeB_FF1D] | rw [Tetro.Model.Apu.Apu.writeB_FF1E] | rw [Tetro.Model.Apu.Apu.writeB_FF20] | rw [Tetro.Model.Apu.Apu.writeB_FF21] | rw [Tetro.Model.Apu.Apu.writeB_FF22] | rw [Tetro.Model.Apu.Apu.writeB_FF23] | rw [Tetro.Model.Apu.Apu.writeB_FF24] | rw [Tetro.Model.Apu.Apu.writeB_FF25] | rw [Tetro.Model.Apu.Apu.writeB_FF26])

end Apu
end Tetro.Model.Apu
