import Tetro.Lemmas.BoardTrace
import Tetro.Proofs.C16
/-
Projection layer, helpers for the OAM DMA engine (C16 on the whole machine).

  `dview`              the DMA engine's view of the OAM unit: the 160 bytes and the engine's registers – everything
                       `TickDMA` reads or writes; the OAM-bug flags and the PPU's last-access address are outside it;
  `tickDMA_dview`, `runTicks_dview`   `TickDMA` is a function of that view;
  `tickDMA_rd`         `TickDMA` calls its byte source at most once, at `Machine.dmaReadAddr`;
  `cpu_dma`            the CPU's part of a cycle that starts with the OAM-bug window closed and no trigger pending
                       (`Quiet`), in which the program neither switches the LCD on nor writes FE00–FE9F: the view is
                       unchanged if the CPU does not write FF46, and is that of a state right after `WriteDMA(v)` if
                       the last FF46 write of the cycle has value `v` – whatever else the CPU does (reads anywhere,
                       16-bit INC/DEC and PUSH/POP through FE00–FEFF, writes to FEA0–FEFF, LCDC writes, interrupt
                       dispatch);
  `end_cycle_dma`      the end of a cycle the machine survives: the view after the cycle is the view after ONE
                       `TickDMA` of the unit as the CPU's part left it, the byte source being the bus read of
                       `Mapper.EndMachineCycle` (`dmaRd`);
  `dmaRd_low`          below E000 that bus read returns what `Board.read` returns on the board after the CPU's part.
-/
namespace Tetro.BoardDma
open Tetro.Model Tetro.Model.Decoder Tetro.Model.Machine Tetro.Model.Whole Tetro.Model.Oam
open Tetro.BusRoute Tetro.WholeProofs Tetro.BoardOam Tetro.BoardTrace Tetro.GhostBus Tetro.C17Whole
open Tetro.WholeNoCrash Tetro.C17

/-! ### the engine's view of the OAM unit -/

/-- the 160 bytes and the DMA engine's registers -/
def dview (s : Oam) : Mem × Bool × Addr × Addr × Byte × Byte :=
  (s.oam, s.dmaRunning, s.dmaCycle, s.dmaBaseAddr, s.dma, s.dmaRead)

theorem dview_eq {s t : Oam} (h : dview s = dview t) :
    s.oam = t.oam ∧ s.dmaRunning = t.dmaRunning ∧ s.dmaCycle = t.dmaCycle ∧ s.dmaBaseAddr = t.dmaBaseAddr ∧
    s.dma = t.dma ∧ s.dmaRead = t.dmaRead := by
  unfold dview at h
  simp only [Prod.mk.injEq] at h
  exact h

/-- `TickDMA` is a function of the view -/
theorem tickDMA_dview (s t : Oam) (h : dview s = dview t) (rd : Addr → Byte) :
    (Oam.tickDMA s rd).map dview = (Oam.tickDMA t rd).map dview := by
  obtain ⟨o1, r1, c1, b1, d1, rd1, x1, x2, x3, x4, x5⟩ := s
  obtain ⟨o2, r2, c2, b2, d2, rd2, y1, y2, y3, y4, y5⟩ := t
  simp only [dview, Prod.mk.injEq] at h
  obtain ⟨rfl, rfl, rfl, rfl, rfl, rfl⟩ := h
  unfold Oam.tickDMA
  simp only []
  split
  · split
    · rfl
    · split
      · rfl
      · split
        · cases st o1 159 rd1 <;> rfl
        · cases st o1 (sub16 c1.toNat 2) rd1 <;> rfl
  · rfl

theorem runTicks_dview (s t : Oam) (h : dview s = dview t) (bus : Nat → Addr → Byte) (t0 n : Nat) :
    (runTicks s bus t0 n).map dview = (runTicks t bus t0 n).map dview := by
  induction n with
  | zero => exact congrArg some h
  | succ n ih =>
    show ((runTicks s bus t0 n).bind fun s' => Oam.tickDMA s' (bus (t0 + n + 1))).map dview =
      ((runTicks t bus t0 n).bind fun s' => Oam.tickDMA s' (bus (t0 + n + 1))).map dview
    cases hs : runTicks s bus t0 n with
    | none =>
      rw [hs] at ih
      cases ht : runTicks t bus t0 n with
      | none => rfl
      | some y => rw [ht] at ih; cases ih
    | some x =>
      rw [hs] at ih
      cases ht : runTicks t bus t0 n with
      | none => rw [ht] at ih; cases ih
      | some y =>
        rw [ht] at ih
        simp only [Option.map_some, Option.some.injEq] at ih
        exact tickDMA_dview x y ih _

/-- `TickDMA` calls its byte source at most once, at the address `Machine.dmaReadAddr` names -/
theorem tickDMA_rd (o : Oam) (rd rd' : Addr → Byte)
    (h : ∀ a, dmaReadAddr o = some a → rd (BitVec.ofNat 16 a) = rd' (BitVec.ofNat 16 a)) :
    Oam.tickDMA o rd = Oam.tickDMA o rd' := by
  unfold dmaReadAddr at h
  unfold Oam.tickDMA
  cases hr : o.dmaRunning
  · simp only [Bool.false_eq_true, if_false]
  · rw [hr] at h
    simp only [if_true] at h ⊢
    by_cases h0 : o.dmaCycle.toNat = 0
    · simp only [if_pos h0]
    · simp only [if_neg h0] at h ⊢
      by_cases h1 : o.dmaCycle.toNat = 1
      · simp only [if_pos h1] at h ⊢
        have := h _ rfl
        rw [BitVec.ofNat_toNat, BitVec.setWidth_eq] at this
        rw [this]
      · simp only [if_neg h1] at h ⊢
        by_cases h161 : o.dmaCycle.toNat = 161
        · simp only [if_pos h161]
        · simp only [if_neg h161] at h ⊢
          rw [h _ rfl]

/-! ### the CPU's part of a cycle -/

/-- the value of the last write to FF46 among a list of bus writes -/
def lastDma (wr : List (Cpu.Word × Cpu.Byte)) : Option Cpu.Byte :=
  wr.foldl (fun o p => if p.1.toNat = 0xFF46 then some p.2 else o) none

/-- the program does not write the 160 OAM bytes: no bus write into FE00–FE9F -/
def NoOamWrite (wr : List (Cpu.Word × Cpu.Byte)) : Prop :=
  ∀ p ∈ wr, ¬ (0xFE00 ≤ p.1.toNat ∧ p.1.toNat < 0xFEA0)

instance (wr : List (Cpu.Word × Cpu.Byte)) : Decidable (NoOamWrite wr) := by unfold NoOamWrite; infer_instance

theorem lastDma_snoc (wr : List (Cpu.Word × Cpu.Byte)) (p : Cpu.Word × Cpu.Byte) :
    lastDma (wr ++ [p]) = if p.1.toNat = 0xFF46 then some p.2 else lastDma wr := by
  unfold lastDma
  rw [List.foldl_append]
  rfl

private theorem lastDma_fold_none (wr : List (Cpu.Word × Cpu.Byte)) (h : NoDmaStart wr) (o : Option Cpu.Byte) :
    wr.foldl (fun o p => if p.1.toNat = 0xFF46 then some p.2 else o) o = o := by
  induction wr generalizing o with
  | nil => rfl
  | cons p wr ih =>
    rw [List.foldl_cons, if_neg (h p (List.mem_cons_self ..))]
    exact ih (fun q hq => h q (List.mem_cons_of_mem _ hq)) o

/-- no FF46 write in the list: no last one -/
theorem lastDma_none (wr : List (Cpu.Word × Cpu.Byte)) (h : NoDmaStart wr) : lastDma wr = none :=
  lastDma_fold_none wr h none

private theorem lastDma_fold_some (wr : List (Cpu.Word × Cpu.Byte)) (v : Cpu.Byte) (o : Option Cpu.Byte)
    (hmem : o = some v ∨ ∃ p ∈ wr, p.1.toNat = 0xFF46) (hall : ∀ p ∈ wr, p.1.toNat = 0xFF46 → p.2 = v) :
    wr.foldl (fun o p => if p.1.toNat = 0xFF46 then some p.2 else o) o = some v := by
  induction wr generalizing o with
  | nil =>
    rcases hmem with e | ⟨p, hp, _⟩
    · exact e
    · cases hp
  | cons p wr ih =>
    rw [List.foldl_cons]
    have hall' : ∀ q ∈ wr, q.1.toNat = 0xFF46 → q.2 = v := fun q hq => hall q (List.mem_cons_of_mem _ hq)
    by_cases h46 : p.1.toNat = 0xFF46
    · rw [if_pos h46, hall p (List.mem_cons_self ..) h46]
      exact ih _ (Or.inl rfl) hall'
    · rw [if_neg h46]
      refine ih _ ?_ hall'
      rcases hmem with e | ⟨q, hq, e⟩
      · exact Or.inl e
      · rcases List.mem_cons.mp hq with rfl | hq
        · exact absurd e h46
        · exact Or.inr ⟨q, hq, e⟩

/-- some FF46 write in the list, and all of them with value `v`: the last one has value `v` -/
theorem lastDma_some (wr : List (Cpu.Word × Cpu.Byte)) (v : Cpu.Byte)
    (hmem : ∃ p ∈ wr, p.1.toNat = 0xFF46) (hall : ∀ p ∈ wr, p.1.toNat = 0xFF46 → p.2 = v) :
    lastDma wr = some v :=
  lastDma_fold_some wr v none (Or.inr hmem) hall

/-- the view of the OAM unit `o` relative to the board `b0` the cycle started from, given the last FF46 write so
    far: unchanged, or that of SOME state right after `WriteDMA(v)` -/
def ViewOk (b0 : Board) (o : Oam) : Option Cpu.Byte → Prop
  | none => dview o = dview b0.m.oam
  | some v => ∃ s, dview o = dview (writeDMA s v)

theorem viewOk_congr {b0 : Board} {o o' : Oam} {x : Option Cpu.Byte} (e : dview o' = dview o)
    (h : ViewOk b0 o x) : ViewOk b0 o' x := by
  cases x with
  | none => exact e.trans h
  | some v => obtain ⟨s, hs⟩ := h; exact ⟨s, e.trans hs⟩

private structure DTracked (b0 : Board) (g : Ghost Board) : Prop where
  quiet : Quiet g.bus.m.oam
  on    : b0.m.ppu.enabled = true → LcdcOn g.wr → g.bus.m.ppu.enabled = true
  off   : b0.m.ppu.enabled = false → LcdcOff g.wr → g.bus.m.ppu.enabled = false
  view  : ViewOk b0 g.bus.m.oam (lastDma g.wr)

private def DTrack (b0 : Board) (g : Ghost Board) : Prop :=
  NoSwitchOn b0.m.ppu.enabled g.wr → NoOamWrite g.wr → DTracked b0 g

private theorem dtrack_same (b0 : Board) (g : Ghost Board) (b' : Board) (h : DTrack b0 g)
    (e1 : b'.m.oam = g.bus.m.oam) (e2 : b'.m.ppu = g.bus.m.ppu) : DTrack b0 { bus := b', wr := g.wr } := by
  intro h1 h2
  obtain ⟨q, on, off, v⟩ := h h1 h2
  refine ⟨?_, ?_, ?_, ?_⟩
  · show Quiet b'.m.oam; rw [e1]; exact q
  · intro a b; show b'.m.ppu.enabled = true; rw [e2]; exact on a b
  · intro a b; show b'.m.ppu.enabled = false; rw [e2]; exact off a b
  · show ViewOk b0 b'.m.oam (lastDma g.wr); rw [e1]; exact v

private theorem lcdcOff_prefix {wr : List (Cpu.Word × Cpu.Byte)} {x} (h : LcdcOff (wr ++ [x])) : LcdcOff wr :=
  fun p hp => h p (List.mem_append_left _ hp)
private theorem lcdcOn_prefix {wr : List (Cpu.Word × Cpu.Byte)} {x} (h : LcdcOn (wr ++ [x])) : LcdcOn wr :=
  fun p hp => h p (List.mem_append_left _ hp)

private theorem wLCDC_enabled (p : Lcd.Ppu) (v : Nat) :
    (Lcd.wLCDC p v).enabled = (if v.testBit 7 = true ∧ p.enabled = false then true
      else if v.testBit 7 = false ∧ p.enabled = true then false else p.enabled) := by
  unfold Lcd.wLCDC Lcd.lcdcSwitch
  split
  · rfl
  · split <;> rfl

private theorem ppuAfterWrite_enabled (m : Machine) (a v : Nat) (h : a ≠ 0xFF40) :
    (ppuAfterWrite m a v).enabled = m.ppu.enabled := by
  unfold ppuAfterWrite
  rw [if_neg h]
  split
  · rfl
  · split
    · rfl
    · split <;> rfl

/-- the view after a write that is neither into FE00–FE9F nor to FF46, window closed -/
private theorem write_dview (m : Machine) (a v : Nat) (hc : m.oam.corrupt = false)
    (hno : ¬ (0xFE00 ≤ a ∧ a < 0xFEA0)) (h46 : a ≠ 0xFF46) :
    dview (oamAfterWrite m a v) = dview m.oam := by
  unfold oamAfterWrite
  split
  · rename_i hr
    rw [cpuWrite_high m.oam a v ⟨by omega, hr.2⟩, (writeFlags_fields m.oam).2.2.2.1 hc]
    rfl
  · split
    · unfold oamAfterLcdc
      split
      · rfl
      · split <;> rfl
    · first | rfl | rw [if_neg h46]

private theorem dtrack_write (b0 : Board) (g : Ghost Board) (a : Cpu.Word) (v : Cpu.Byte) (h : DTrack b0 g) :
    DTrack b0 (Cpu.Bus.write g a v) := by
  intro h1 h2
  have hmem : (a, v) ∈ g.wr ++ [(a, v)] := List.mem_append_right _ (List.mem_singleton.mpr rfl)
  have h1' : NoSwitchOn b0.m.ppu.enabled g.wr := by
    rcases h1 with h1 | ⟨e, h1⟩
    · exact Or.inl (lcdcOff_prefix h1)
    · exact Or.inr ⟨e, lcdcOn_prefix h1⟩
  have h2' : NoOamWrite g.wr := fun p hp => h2 p (List.mem_append_left _ hp)
  obtain ⟨q, on, off, vw⟩ := h h1' h2'
  have hoam : ¬ (0xFE00 ≤ a.toNat ∧ a.toNat < 0xFEA0) := h2 _ hmem
  have hlt := a.isLt
  have eo : (g.bus.write a.toNat v.toNat).m.oam = oamAfterWrite g.bus.m a.toNat v.toNat :=
    board_write_oam _ _ _ hlt
  have ep : (g.bus.write a.toNat v.toNat).m.ppu = ppuAfterWrite g.bus.m a.toNat v.toNat :=
    board_write_ppu _ _ _ hlt
  have hnoopen : ¬ (BoardOp.write a.toNat v.toNat).opens g.bus := by
    rintro ⟨x1, x2, x3⟩
    rcases h1 with h1 | ⟨e, h1⟩
    · have := h1 _ hmem x1
      rw [x2] at this; cases this
    · have := on e (lcdcOn_prefix h1)
      rw [x3] at this; cases this
  obtain ⟨fq, _⟩ := c17_whole_frame g.bus (.write a.toNat v.toNat) q (fun a' v' e => by cases e; exact hlt)
  refine ⟨fq hnoopen, ?_, ?_, ?_⟩
  · intro e hon
    show (g.bus.write a.toNat v.toNat).m.ppu.enabled = true
    rw [ep]
    have hen := on e (lcdcOn_prefix hon)
    by_cases h40 : a.toNat = 0xFF40
    · have hb := hon _ hmem h40
      unfold ppuAfterWrite
      rw [if_pos h40, wLCDC_enabled, hen, hb]
      rfl
    · rw [ppuAfterWrite_enabled _ _ _ h40]; exact hen
  · intro e hoff
    show (g.bus.write a.toNat v.toNat).m.ppu.enabled = false
    rw [ep]
    have hen := off e (lcdcOff_prefix hoff)
    by_cases h40 : a.toNat = 0xFF40
    · have hb := hoff _ hmem h40
      unfold ppuAfterWrite
      rw [if_pos h40, wLCDC_enabled, hen, hb]
      rfl
    · rw [ppuAfterWrite_enabled _ _ _ h40]; exact hen
  · show ViewOk b0 (g.bus.write a.toNat v.toNat).m.oam (lastDma (g.wr ++ [(a, v)]))
    rw [lastDma_snoc, eo]
    by_cases h46 : a.toNat = 0xFF46
    · rw [if_pos h46]
      refine ⟨g.bus.m.oam, ?_⟩
      unfold oamAfterWrite
      rw [if_neg (by omega), if_neg (by omega), if_pos h46, BitVec.ofNat_toNat, BitVec.setWidth_eq]
    · rw [if_neg h46]
      exact viewOk_congr (write_dview g.bus.m a.toNat v.toNat q.1 hoam h46) vw

private theorem dtrack_cpu (b0 : Board) (c : Cpu.Cpu) (g : Ghost Board) (h : DTrack b0 g) :
    DTrack b0 (Cpu.cycle Cpu.Tables.gen c g).2 := by
  refine Tetro.CpuBusInv.cycle_preserves (DTrack b0) ?_ ?_ ?_ ?_ ?_ ?_ _ _ _ h
  · intro g a hg
    show DTrack b0 { bus := (g.bus.read a.toNat).2, wr := g.wr }
    intro h1 h2
    have q := (hg h1 h2).quiet
    have e : (g.bus.read a.toNat).2.m.oam = g.bus.m.oam := by
      rcases (board_read_oam g.bus a.toNat).2 with e | ⟨_, x, _⟩
      · exact e
      · rw [q.1] at x; cases x
    exact dtrack_same b0 g _ hg e (board_read_oam g.bus a.toNat).1 h1 h2
  · intro g a v hg; exact dtrack_write b0 g a v hg
  · intro g a hg
    show DTrack b0 { bus := g.bus.setOam (triggerWriteCorruption g.bus.m.oam a), wr := g.wr }
    intro h1 h2
    have q := (hg h1 h2).quiet
    have e : triggerWriteCorruption g.bus.m.oam a = g.bus.m.oam := by simp [triggerWriteCorruption, q.1]
    exact dtrack_same b0 g _ hg e rfl h1 h2
  · intro g hg
    show DTrack b0 { bus := g.bus.corrupt, wr := g.wr }
    intro h1 h2
    have q := (hg h1 h2).quiet
    have e : g.bus.corrupt = g.bus := by unfold Board.corrupt; rw [q.2.1, q.2.2.1]; rfl
    exact dtrack_same b0 g _ hg (by rw [e]) (by rw [e]) h1 h2
  · intro g v hg; exact dtrack_same b0 g _ hg rfl rfl
  · intro g k hg; exact dtrack_same b0 g _ hg rfl rfl

/-- **the DMA engine, the CPU's part of a cycle.**  If at the start of the cycle the OAM-bug window is closed and no
    trigger is pending (`Quiet`), and in this cycle the program neither switches the LCD on nor writes into
    FE00–FE9F, then after `cpu.ExecuteMachineCycle` the OAM unit is still `Quiet`, and the engine's view of it (bytes
    and engine registers) is unchanged if the CPU wrote no FF46, and that of a state right after `WriteDMA(v)` if the
    last FF46 write of the cycle had value `v`. -/
theorem cpu_dma (w : Whole) (hs : w.stopped = false) (hq : Quiet w.b.m.oam)
    (hsw : NoSwitchOn w.b.m.ppu.enabled (cpuWrites w)) (hno : NoOamWrite (cpuWrites w)) :
    Quiet (afterCpu w).2.m.oam ∧ ViewOk w.b (afterCpu w).2.m.oam (lastDma (cpuWrites w)) := by
  have hcw : cpuWrites w = (Cpu.cycle Cpu.Tables.gen w.cpu ({ bus := w.b, wr := [] } : Ghost Board)).2.wr := by
    unfold cpuWrites; rw [hs]; rfl
  have h0 : DTrack w.b ({ bus := w.b, wr := [] } : Ghost Board) := fun _ _ =>
    ⟨hq, fun e _ => e, fun e _ => e, rfl⟩
  have ht := dtrack_cpu w.b w.cpu _ h0
  rw [hcw] at hsw hno ⊢
  obtain ⟨q, _, _, v⟩ := ht hsw hno
  rw [(cpuWrites_faithful w).2] at q v
  exact ⟨q, v⟩

/-! ### the end of a cycle -/

/-- the byte source of `oam.TickDMA` in the cycle whose CPU part left the board `b`: `Mapper.Read` on the machine
    record after `ppu.EndMachineCycle` -/
def dmaRd (b : Board) : Addr → Byte :=
  fun a => BitVec.ofNat 8 ((peek Serial.genReadArms b.ppuStep.m a.toNat).getD 0xff)

private theorem ppuStep_dview (b : Board) : dview b.ppuStep.m.oam = dview b.m.oam := by
  rcases board_ppuStep_m b with e | e
  · rw [e]
  · rcases ppuTick_cases _ _ e with ⟨_, _, e3⟩ | ⟨_, _, e3⟩
    · rw [e3]
    · rw [e3]
      unfold oamAfterTick
      simp only []
      split <;> rfl

private theorem readEff_running (h : H) (m : Machine) (a : Nat) (hrun : m.oam.dmaRunning = true) :
    readEff h m a = m := by
  unfold readEff
  split
  · simp only [cpuRead, hrun, if_true]
  · rfl

private theorem dmaReadAddr_some (o : Oam) (a : Nat) (h : dmaReadAddr o = some a) :
    o.dmaRunning = true ∧ a < 65536 := by
  unfold dmaReadAddr at h
  cases hr : o.dmaRunning
  · rw [hr] at h; cases h
  · rw [hr] at h
    simp only [if_true] at h
    refine ⟨rfl, ?_⟩
    by_cases h0 : o.dmaCycle.toNat = 0
    · rw [if_pos h0] at h; cases h
    · rw [if_neg h0] at h
      by_cases h1 : o.dmaCycle.toNat = 1
      · rw [if_pos h1] at h
        rw [← Option.some.inj h]
        exact o.dmaBaseAddr.isLt
      · rw [if_neg h1] at h
        by_cases h161 : o.dmaCycle.toNat = 161
        · rw [if_pos h161] at h; cases h
        · rw [if_neg h161] at h
          rw [← Option.some.inj h]
          unfold sub16
          omega

/-- `Mapper.EndMachineCycle` on the OAM unit: ONE `TickDMA` whose byte source is `Mapper.Read` on this record -/
theorem endMachineCycle_tick (m m' : Machine) (h : endMachineCycle Serial.genReadArms m = some m') :
    Oam.tickDMA m.oam (fun a => BitVec.ofNat 8 ((peek Serial.genReadArms m a.toNat).getD 0xff)) = some m'.oam := by
  unfold endMachineCycle at h
  rw [Option.map_eq_some_iff] at h
  obtain ⟨m1, h1, rfl⟩ := h
  show Oam.tickDMA m.oam _ = some m1.oam
  unfold Machine.tickDMA at h1
  split at h1
  · rename_i hn
    rw [Option.map_eq_some_iff] at h1
    obtain ⟨o, ho, rfl⟩ := h1
    rw [← ho]
    exact tickDMA_rd _ _ _ fun a ha => by rw [hn] at ha; cases ha
  · rename_i a ha
    obtain ⟨hrun, halt⟩ := dmaReadAddr_some _ _ ha
    rw [Option.bind_eq_some_iff] at h1
    obtain ⟨r, hr, h1⟩ := h1
    unfold busRead at hr
    rw [Option.map_eq_some_iff] at hr
    obtain ⟨v, hv, rfl⟩ := hr
    simp only [readEff_running _ _ _ hrun] at h1
    rw [Option.map_eq_some_iff] at h1
    obtain ⟨o, ho, rfl⟩ := h1
    show Oam.tickDMA m.oam _ = some o
    rw [← ho]
    refine tickDMA_rd _ _ _ fun a' ha' => ?_
    rw [ha] at ha'
    injection ha' with ha'
    subst ha'
    show BitVec.ofNat 8 ((peek Serial.genReadArms m (BitVec.ofNat 16 a).toNat).getD 0xff) = BitVec.ofNat 8 v
    have : (BitVec.ofNat 16 a).toNat = a := by rw [BitVec.toNat_ofNat]; omega
    rw [this]
    unfold peek
    rw [hv]
    rfl

/-- **the DMA engine, the end of a cycle.**  If the machine is running after the cycle, the engine's view of the OAM
    unit after the cycle is its view after ONE `TickDMA` of the unit as the CPU's part left it, with the byte source
    `dmaRd` (the bus read of `Mapper.EndMachineCycle`); nothing else at the end of the cycle touches the bytes or the
    engine. -/
theorem end_cycle_dma (w : Whole) (h : w.cycle.stopped = false) :
    (Oam.tickDMA (afterCpu w).2.m.oam (dmaRd (afterCpu w).2)).map dview = some (dview w.cycle.b.m.oam) := by
  obtain ⟨hs, hc, hok⟩ := running_before w h
  have e := whole_cycle_steps w hs hc hok
  rw [e] at hok ⊢
  generalize (afterCpu w).2 = b0 at hok ⊢
  have h3 : b0.ppuStep.dmaStep.crashed = false := by
    have : b0.ppuStep.dmaStep.apuStep.timerStep.crashed = b0.ppuStep.dmaStep.crashed := by
      rw [whole_step_apu]; rfl
    rw [← this]; exact hok
  have em : b0.ppuStep.dmaStep.apuStep.timerStep.m.oam = b0.ppuStep.dmaStep.m.oam := by
    show (timerTick b0.ppuStep.dmaStep.apuStep.m).oam = _
    rw [apuStep_m]; rfl
  show (Oam.tickDMA b0.m.oam (dmaRd b0)).map dview = some (dview b0.ppuStep.dmaStep.apuStep.timerStep.m.oam)
  rw [em]
  rw [whole_step_dma] at h3 ⊢
  cases hd : endMachineCycle Serial.genReadArms b0.ppuStep.m with
  | none => rw [hd] at h3; cases h3
  | some m2 =>
    show (Oam.tickDMA b0.m.oam (dmaRd b0)).map dview = some (dview m2.oam)
    have ht := endMachineCycle_tick _ _ hd
    rw [tickDMA_dview b0.m.oam b0.ppuStep.m.oam (ppuStep_dview b0).symm]
    unfold dmaRd
    rw [ht]
    rfl

/-! ### the byte source, below E000 -/

private theorem not_sound_low {a : Nat} (h : a < 0xFF00) : soundAddr a = false := by
  unfold soundAddr
  simp only [Bool.or_eq_false_iff, Bool.and_eq_false_iff, decide_eq_false_iff_not]
  omega

private theorem ppuStep_low (b : Board) :
    b.ppuStep.m.cart = b.m.cart ∧ b.ppuStep.m.vram = b.m.vram ∧ b.ppuStep.m.wram = b.m.wram := by
  rcases board_ppuStep_m b with e | e
  · rw [e]; exact ⟨rfl, rfl, rfl⟩
  · obtain ⟨r, _, e'⟩ := ppuTick_shape _ _ e
    rw [e']
    exact ⟨rfl, rfl, rfl⟩

/-- **what the engine reads, below E000** (cartridge ROM and RAM, video RAM, work RAM – every documented DMA
    source after the echo rule): the byte `Board.read` returns on the board after the CPU's part of the cycle -/
theorem dmaRd_low (b : Board) (a : Nat) (ha : a < 0xE000) :
    dmaRd b (BitVec.ofNat 16 a) = BitVec.ofNat 8 (b.read a).1 := by
  have ha' : a < 65536 := by omega
  have hn : (BitVec.ofNat 16 a).toNat = a := by rw [BitVec.toNat_ofNat]; omega
  obtain ⟨e1, e2, e3⟩ := ppuStep_low b
  have er : rH a = Tetro.Spec.MemMap.regionOf .ff a := by
    unfold rH
    rw [Tetro.C06.c06_arms.1, Tetro.BusRoute.route_read ha']
  have hval : readVal (rH a) b.ppuStep.m a = readVal (rH a) b.m a := by
    rw [er]
    unfold Tetro.Spec.MemMap.regionOf
    by_cases h1 : a < 0x8000
    · rw [if_pos h1]; simp only [readVal, e1]
    · rw [if_neg h1]
      by_cases h2 : a < 0xa000
      · rw [if_pos h2]; simp only [readVal, e2]
      · rw [if_neg h2]
        by_cases h3 : a < 0xc000
        · rw [if_pos h3]; simp only [readVal, e1]
        · rw [if_neg h3, if_pos ha]; simp only [readVal, e3]
  unfold dmaRd peek
  rw [hn]
  show BitVec.ofNat 8 ((readVal (rH a) b.ppuStep.m a).getD 0xff) = _
  rw [hval]
  unfold Board.read Board.read?
  rw [(whole_apu_addresses a ha').1, not_sound_low (by omega)]
  simp only [Bool.false_eq_true, if_false]
  cases readVal (rH a) b.m a <;> rfl

end Tetro.BoardDma
