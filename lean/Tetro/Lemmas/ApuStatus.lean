import Tetro.Model.Apu
/-
Status-bit lemmas for the APU model: no clocking function ever switches a channel ON
(`enabled` can only fall during machine cycles), and the effect of power-off on the four
status bits.  Used by C18 (`NR52` while off) and C19.
-/
namespace Tetro.Model.Apu

/-- unfold, split every `if`, finish with `simp_all` -/
macro "status_tac" "[" ds:Lean.Parser.Tactic.simpLemma,* "]" : tactic =>
  `(tactic| (intro h; simp only [$ds,*] at h; repeat' split at h
             all_goals simp_all))

namespace Square
theorem en_calcState (s : Square) : s.calcState.enabled = true → s.enabled = true := by status_tac [calcState]
theorem en_tickTimer (s : Square) : s.tickTimer.enabled = s.enabled := by
  simp only [tickTimer]; split <;> rfl
theorem en_tickLength (s : Square) : s.tickLength.enabled = true → s.enabled = true := by status_tac [tickLength]
theorem en_tickVolumeEnvelope (s : Square) : s.tickVolumeEnvelope.enabled = s.enabled := by
  simp only [tickVolumeEnvelope]; repeat' split
  all_goals rfl
theorem en_storeFreq (s : Square) (f : Nat) : (s.storeFreq f).enabled = s.enabled := rfl
theorem en_sweepStep (s : Square) : s.sweepStep.enabled = true → s.enabled = true := by
  unfold sweepStep; split
  · intro h; exact en_calcState _ (by have := en_calcState _ h; rwa [en_storeFreq] at this)
  · exact en_calcState _
theorem en_tickSweep (s : Square) : s.tickSweep.enabled = true → s.enabled = true := by
  unfold tickSweep; repeat' split
  all_goals (first | exact id | (intro h; exact en_sweepStep _ h) | (intro h; exact (en_sweepStep _ h : _)))
end Square

namespace Wave
theorem en_tickTimer (w : Wave) : w.tickTimer.enabled = w.enabled := by
  simp only [tickTimer]; repeat' split
  all_goals rfl
theorem en_tickLength (w : Wave) : w.tickLength.enabled = true → w.enabled = true := by status_tac [tickLength]
end Wave

namespace Noise
theorem en_tickTimer (n : Noise) : n.tickTimer.enabled = n.enabled := by
  simp only [tickTimer]; split <;> rfl
theorem en_tickLength (n : Noise) : n.tickLength.enabled = true → n.enabled = true := by status_tac [tickLength]
theorem en_tickVolumeEnvelope (n : Noise) : n.tickVolumeEnvelope.enabled = n.enabled := by
  simp only [tickVolumeEnvelope]; repeat' split
  all_goals rfl
end Noise

/-- the four status bits, channel 1 first -/
def Apu.status (a : Apu) : Bool × Bool × Bool × Bool := (a.ch1.enabled, a.ch2.enabled, a.ch3.enabled, a.ch4.enabled)

/-- componentwise `≤` on status bits: every bit set in `x` is set in `y` -/
def StatusLe (x y : Bool × Bool × Bool × Bool) : Prop :=
  (x.1 = true → y.1 = true) ∧ (x.2.1 = true → y.2.1 = true) ∧ (x.2.2.1 = true → y.2.2.1 = true) ∧
  (x.2.2.2 = true → y.2.2.2 = true)

theorem StatusLe.refl (x) : StatusLe x x := ⟨id, id, id, id⟩
theorem StatusLe.trans {x y z} (h1 : StatusLe x y) (h2 : StatusLe y z) : StatusLe x z :=
  ⟨fun h => h2.1 (h1.1 h), fun h => h2.2.1 (h1.2.1 h), fun h => h2.2.2.1 (h1.2.2.1 h), fun h => h2.2.2.2 (h1.2.2.2 h)⟩

namespace Apu

theorem status_tickTimer (a : Apu) : a.tickTimer.status = a.status := by
  simp only [tickTimer, status]
  repeat' split
  all_goals simp [Square.en_tickTimer, Wave.en_tickTimer, Noise.en_tickTimer]

theorem status_lenPart (a : Apu) : StatusLe a.lenPart.status a.status := by
  unfold lenPart; split
  · exact ⟨Square.en_tickLength _, Square.en_tickLength _, Wave.en_tickLength _, Noise.en_tickLength _⟩
  · exact StatusLe.refl _

theorem status_envPart (a : Apu) : a.envPart.status = a.status := by
  unfold envPart; split
  · simp [status, Square.en_tickVolumeEnvelope, Noise.en_tickVolumeEnvelope]
  · rfl

theorem status_sweepPart (a : Apu) : StatusLe a.sweepPart.status a.status := by
  unfold sweepPart; split
  · exact ⟨Square.en_tickSweep _, id, id, id⟩
  · exact StatusLe.refl _

theorem status_incFs (a : Apu) : a.incFs.status = a.status := rfl
theorem status_wrapFs (a : Apu) : a.wrapFs.status = a.status := by unfold wrapFs; split <;> rfl
theorem status_incTicks (a : Apu) : a.incTicks.status = a.status := rfl
theorem status_clearTriggered (a : Apu) : a.clearTriggered.status = a.status := rfl
theorem status_takeSample (a : Apu) : a.takeSample.status = a.status := by
  unfold takeSample; repeat' split
  all_goals rfl
theorem status_samplerPart (a : Apu) : a.samplerPart.status = a.status := by
  unfold samplerPart; split
  · exact status_takeSample a
  · rfl

theorem status_tickFrameSequencer (a : Apu) : StatusLe a.tickFrameSequencer.status a.status := by
  unfold tickFrameSequencer
  rw [status_incFs]
  refine StatusLe.trans (status_sweepPart _) ?_
  rw [status_envPart]
  exact status_lenPart a

theorem status_frameSeqPart (a : Apu) : StatusLe a.frameSeqPart.status a.status := by
  unfold frameSeqPart; split
  · rw [status_wrapFs]; exact status_tickFrameSequencer a
  · exact StatusLe.refl _

/-- one clock never switches a channel on -/
theorem status_tickClock (a : Apu) : StatusLe a.tickClock.status a.status := by
  unfold tickClock
  rw [status_incTicks, status_samplerPart]
  have := status_frameSeqPart a.tickTimer
  rwa [status_tickTimer] at this

/-- one machine cycle never switches a channel on -/
theorem status_endMachineCycle (a : Apu) : StatusLe a.endMachineCycle.status a.status := by
  unfold endMachineCycle
  rw [status_clearTriggered]
  exact StatusLe.trans (status_tickClock _) (StatusLe.trans (status_tickClock _)
    (StatusLe.trans (status_tickClock _) (status_tickClock _)))

theorem trigOf_zero : trigOf 0 = false := by decide
theorem leOf_zero : leOf 0 = false := by decide

theorem powerOff_status (a : Apu) : a.powerOff.status = (false, false, false, false) := by
  simp [powerOff, status, setOn, writeNR10, writeNR12, writeNR13, writeNR14, writeNR22, writeNR23, writeNR24,
    writeNR30, writeNR32, writeNR33, writeNR34, writeNR42, writeNR43, writeNR44, writeNR50, writeNR51, clearDuties,
    Square.writeNR10, Square.writeNRx2, Square.writeNR13, Square.writeNR23, Square.writeNRx4, Square.setLE,
    Square.trigPart, Square.extraLenClock, Square.setFreqHi, trigOf_zero, leOf_zero,
    Wave.writeNR30, Wave.writeNR32, Wave.writeNR33, Wave.writeNR34, Wave.setLE, Wave.trigPart, Wave.extraLenClock,
    Wave.setFreqHi, Noise.writeNR42, Noise.writeNR43, Noise.writeNR44, Noise.setLE, Noise.trigPart, Noise.extraLenClock,
    ctlWriteNR50, ctlWriteNR51]

end Apu
end Tetro.Model.Apu
