import Tetro.Lemmas.CpuBasic
/-
C01 per instruction family: the conditional jumps, calls and returns.  The not-met test of the schedule
is evaluated on the flags at the start (operand fetches do not touch F).
-/
set_option linter.unusedSimpArgs false
set_option linter.constructorNameAsVariable false
namespace Tetro.C01
open Tetro.Model.Cpu Tetro.Spec.Isa

theorem holds_jpCC (cc : CC) : Holds (.jpCC cc) := by
  intro r m _
  cases cc <;> rcases Bool.eq_false_or_eq_true (fz r.f) with hz | hz <;>
    rcases Bool.eq_false_or_eq_true (fc r.f) with hc | hc <;>
    c01_simp [notMet, Cond.holds, CC.holds, hz, hc]

theorem holds_jrCC (cc : CC) : Holds (.jrCC cc) := by
  intro r m _
  cases cc <;> rcases Bool.eq_false_or_eq_true (fz r.f) with hz | hz <;>
    rcases Bool.eq_false_or_eq_true (fc r.f) with hc | hc <;>
    c01_simp [notMet, Cond.holds, CC.holds, hz, hc]

theorem holds_callCC (cc : CC) : Holds (.callCC cc) := by
  intro r m _
  cases cc <;> rcases Bool.eq_false_or_eq_true (fz r.f) with hz | hz <;>
    rcases Bool.eq_false_or_eq_true (fc r.f) with hc | hc <;>
    c01_simp [notMet, Cond.holds, CC.holds, hz, hc]

theorem holds_retCC (cc : CC) : Holds (.retCC cc) := by
  intro r m _
  cases cc <;> rcases Bool.eq_false_or_eq_true (fz r.f) with hz | hz <;>
    rcases Bool.eq_false_or_eq_true (fc r.f) with hc | hc <;>
    c01_simp [notMet, Cond.holds, CC.holds, hz, hc]

end Tetro.C01
