import Tetro.Model.CpuExec
/-
Documentation-shaped specification of the SM83 instruction set (Pan Docs "CPU instruction set",
gbops, the x/y/z opcode decoding of the "DECODING Z80 OPCODES" note restricted to the SM83),
independent of the structure of the Go code: instructions are organised by FAMILY, flags are four
booleans computed from wide-integer formulas, memory is the flat bus of the ISA theorems.
The micro-operation type of the model is used only to state the documented per-cycle schedule
(`micro`), which is what C02/C03 and the table obligation compare against.
-/
namespace Tetro.Spec.Isa
open Tetro.Model.Cpu (Byte Word Flat MicroOp)

inductive Reg | b | c | d | e | h | l | a
deriving DecidableEq, Repr
inductive Loc | r (r : Reg) | hlm
deriving DecidableEq, Repr
inductive Rp | bc | de | hl | sp
deriving DecidableEq, Repr
inductive Rp2 | bc | de | hl | af
deriving DecidableEq, Repr
inductive CC | nz | z | nc | c
deriving DecidableEq, Repr
inductive Alu | add | adc | sub | sbc | and | xor | or | cp
deriving DecidableEq, Repr
inductive Rot | rlc | rrc | rl | rr | sla | sra | swap | srl
deriving DecidableEq, Repr
inductive Ind | bc | de | hli | hld | ff00n | ff00c | nn
deriving DecidableEq, Repr

inductive Instr
  | nop | stop | halt | di | ei
  | ld (dst src : Loc)
  | ldN (dst : Loc)
  | ldRpNN (rp : Rp) | ldNNSP | ldSPHL | ldHLSPe | addSPe
  | ldAInd (i : Ind) | ldIndA (i : Ind)
  | push (rp : Rp2) | pop (rp : Rp2)
  | alu (op : Alu) (src : Loc) | aluN (op : Alu)
  | inc (l : Loc) | dec (l : Loc) | inc16 (rp : Rp) | dec16 (rp : Rp) | addHL (rp : Rp)
  | rlca | rrca | rla | rra | daa | cpl | scf | ccf
  | jp | jpCC (cc : CC) | jpHL | jr | jrCC (cc : CC)
  | call | callCC (cc : CC) | ret | retCC (cc : CC) | reti | rst (t : Nat)
  | rot (op : Rot) (l : Loc) | bit (n : Nat) (l : Loc) | res (n : Nat) (l : Loc) | set (n : Nat) (l : Loc)
deriving DecidableEq, Repr

/-! ### decoding (x = bits 7-6, y = bits 5-3, z = bits 2-0, p = y/2, q = y%2) -/

def locOf : Nat → Loc
  | 0 => .r .b | 1 => .r .c | 2 => .r .d | 3 => .r .e | 4 => .r .h | 5 => .r .l | 6 => .hlm | _ => .r .a
def rpOf : Nat → Rp
  | 0 => .bc | 1 => .de | 2 => .hl | _ => .sp
def rp2Of : Nat → Rp2
  | 0 => .bc | 1 => .de | 2 => .hl | _ => .af
def ccOf : Nat → CC
  | 0 => .nz | 1 => .z | 2 => .nc | _ => .c
def aluOf : Nat → Alu
  | 0 => .add | 1 => .adc | 2 => .sub | 3 => .sbc | 4 => .and | 5 => .xor | 6 => .or | _ => .cp
def rotOf : Nat → Rot
  | 0 => .rlc | 1 => .rrc | 2 => .rl | 3 => .rr | 4 => .sla | 5 => .sra | 6 => .swap | _ => .srl

/-- the 245 defined unprefixed opcodes; `none` for the 11 undefined ones and for the CB prefix -/
def decode (op : Nat) : Option Instr :=
  let x := op / 64
  let y := op / 8 % 8
  let z := op % 8
  let p := y / 2
  let q := y % 2
  match x with
  | 0 =>
    match z with
    | 0 => match y with
      | 0 => some .nop | 1 => some .ldNNSP | 2 => some .stop | 3 => some .jr
      | _ => some (.jrCC (ccOf (y - 4)))
    | 1 => if q = 0 then some (.ldRpNN (rpOf p)) else some (.addHL (rpOf p))
    | 2 =>
      let i : Ind := match p with | 0 => .bc | 1 => .de | 2 => .hli | _ => .hld
      if q = 0 then some (.ldIndA i) else some (.ldAInd i)
    | 3 => if q = 0 then some (.inc16 (rpOf p)) else some (.dec16 (rpOf p))
    | 4 => some (.inc (locOf y))
    | 5 => some (.dec (locOf y))
    | 6 => some (.ldN (locOf y))
    | _ => match y with
      | 0 => some .rlca | 1 => some .rrca | 2 => some .rla | 3 => some .rra
      | 4 => some .daa | 5 => some .cpl | 6 => some .scf | _ => some .ccf
  | 1 => if z = 6 ∧ y = 6 then some .halt else some (.ld (locOf y) (locOf z))
  | 2 => some (.alu (aluOf y) (locOf z))
  | _ =>
    match z with
    | 0 => match y with
      | 4 => some (.ldIndA .ff00n) | 5 => some .addSPe | 6 => some (.ldAInd .ff00n) | 7 => some .ldHLSPe
      | _ => some (.retCC (ccOf y))
    | 1 => if q = 0 then some (.pop (rp2Of p)) else
      match p with | 0 => some .ret | 1 => some .reti | 2 => some .jpHL | _ => some .ldSPHL
    | 2 => match y with
      | 4 => some (.ldIndA .ff00c) | 5 => some (.ldIndA .nn) | 6 => some (.ldAInd .ff00c) | 7 => some (.ldAInd .nn)
      | _ => some (.jpCC (ccOf y))
    | 3 => match y with
      | 0 => some .jp | 6 => some .di | 7 => some .ei | _ => none
    | 4 => if y < 4 then some (.callCC (ccOf y)) else none
    | 5 => if q = 0 then some (.push (rp2Of p)) else if p = 0 then some .call else none
    | 6 => some (.aluN (aluOf y))
    | _ => some (.rst (y * 8))

/-- all 256 CB-prefixed opcodes -/
def decodeCB (op : Nat) : Instr :=
  let x := op / 64
  let y := op / 8 % 8
  let z := op % 8
  match x with
  | 0 => .rot (rotOf y) (locOf z)
  | 1 => .bit y (locOf z)
  | 2 => .res y (locOf z)
  | _ => .set y (locOf z)

/-! ### architectural state -/

structure St where
  a : Byte
  b : Byte
  c : Byte
  d : Byte
  e : Byte
  h : Byte
  l : Byte
  zf : Bool
  nf : Bool
  hf : Bool
  cf : Bool
  sp : Word
  pc : Word
  halted : Bool
  haltbug : Bool
  stopped : Bool
  eiPending : Bool     -- EI executed, IME to be set after the next instruction
  bus : Flat           -- memory, IME, IE, IF

def St.rd (s : St) (a : Word) : Byte := s.bus.read a
def St.wr (s : St) (a : Word) (v : Byte) : St := { s with bus := s.bus.write a v }

def w16 (hi lo : Byte) : Word := BitVec.ofNat 16 (hi.toNat * 256 + lo.toNat)
def hiB (w : Word) : Byte := BitVec.ofNat 8 (w.toNat / 256)
def loB (w : Word) : Byte := BitVec.ofNat 8 (w.toNat % 256)

def St.getR (s : St) : Reg → Byte
  | .a => s.a | .b => s.b | .c => s.c | .d => s.d | .e => s.e | .h => s.h | .l => s.l
def St.setR (s : St) (r : Reg) (v : Byte) : St :=
  match r with
  | .a => { s with a := v } | .b => { s with b := v } | .c => { s with c := v } | .d => { s with d := v }
  | .e => { s with e := v } | .h => { s with h := v } | .l => { s with l := v }
def St.hl (s : St) : Word := w16 s.h s.l
def St.getRp (s : St) : Rp → Word
  | .bc => w16 s.b s.c | .de => w16 s.d s.e | .hl => w16 s.h s.l | .sp => s.sp
def St.setRp (s : St) (rp : Rp) (w : Word) : St :=
  match rp with
  | .bc => { s with b := hiB w, c := loB w } | .de => { s with d := hiB w, e := loB w }
  | .hl => { s with h := hiB w, l := loB w } | .sp => { s with sp := w }
def St.getLoc (s : St) : Loc → Byte
  | .r r => s.getR r | .hlm => s.rd s.hl
def St.setLoc (s : St) (l : Loc) (v : Byte) : St :=
  match l with
  | .r r => s.setR r v | .hlm => s.wr s.hl v
def St.flags (s : St) (z n h c : Bool) : St := { s with zf := z, nf := n, hf := h, cf := c }
/-- the F register as a byte: Z N H C in bits 7..4, bits 3..0 always zero -/
def St.fByte (s : St) : Byte :=
  BitVec.ofNat 8 ((if s.zf then 128 else 0) + (if s.nf then 64 else 0) + (if s.hf then 32 else 0) + (if s.cf then 16 else 0))
def CC.holds (cc : CC) (s : St) : Bool :=
  match cc with
  | .nz => !s.zf | .z => s.zf | .nc => !s.cf | .c => s.cf

def imm8 (s : St) : Byte := s.rd s.pc
def imm16 (s : St) : Word := w16 (s.rd (s.pc + 1)) (s.rd s.pc)
/-- the signed displacement byte as a 16-bit two's complement value -/
def disp (b : Byte) : Word := BitVec.ofNat 16 (if b.toNat < 128 then b.toNat else 65536 - 256 + b.toNat)
def bn (b : Bool) : Nat := if b then 1 else 0

/-- 8-bit ALU, documented flag formulas on unbounded integers -/
def aluExec (op : Alu) (s : St) (v : Byte) : St :=
  let a := s.a.toNat
  let x := v.toNat
  let c := bn s.cf
  match op with
  | .add => let r := BitVec.ofNat 8 (a + x)
    { s with a := r }.flags (r == 0) false (decide (a % 16 + x % 16 > 15)) (decide (a + x > 255))
  | .adc => let r := BitVec.ofNat 8 (a + x + c)
    { s with a := r }.flags (r == 0) false (decide (a % 16 + x % 16 + c > 15)) (decide (a + x + c > 255))
  | .sub => let r := BitVec.ofNat 8 (a + 256 - x)
    { s with a := r }.flags (r == 0) true (decide (a % 16 < x % 16)) (decide (a < x))
  | .sbc => let r := BitVec.ofNat 8 (a + 512 - x - c)
    { s with a := r }.flags (r == 0) true (decide (a % 16 < x % 16 + c)) (decide (a < x + c))
  | .and => let r := s.a &&& v
    { s with a := r }.flags (r == 0) false true false
  | .xor => let r := s.a ^^^ v
    { s with a := r }.flags (r == 0) false false false
  | .or => let r := s.a ||| v
    { s with a := r }.flags (r == 0) false false false
  | .cp => s.flags (decide (a = x)) true (decide (a % 16 < x % 16)) (decide (a < x))

/-- rotates and shifts on the value as an integer 0..255: result and carry out -/
def rotExec (op : Rot) (cin : Bool) (v : Byte) : Byte × Bool :=
  let x := v.toNat
  match op with
  | .rlc => (BitVec.ofNat 8 (x * 2 % 256 + x / 128), decide (x ≥ 128))
  | .rrc => (BitVec.ofNat 8 (x / 2 + x % 2 * 128), decide (x % 2 = 1))
  | .rl => (BitVec.ofNat 8 (x * 2 % 256 + bn cin), decide (x ≥ 128))
  | .rr => (BitVec.ofNat 8 (x / 2 + bn cin * 128), decide (x % 2 = 1))
  | .sla => (BitVec.ofNat 8 (x * 2 % 256), decide (x ≥ 128))
  | .sra => (BitVec.ofNat 8 (x / 2 + x / 128 * 128), decide (x % 2 = 1))
  | .swap => (BitVec.ofNat 8 (x % 16 * 16 + x / 16), false)
  | .srl => (BitVec.ofNat 8 (x / 2), decide (x % 2 = 1))

/-- decimal adjust (the usual description: correct each BCD digit after an addition or subtraction) -/
def daaExec (s : St) : St :=
  let a := s.a.toNat
  if s.nf then
    let a1 := if s.cf then a + 256 - 0x60 else a
    let a2 := if s.hf then a1 + 256 - 0x06 else a1
    let r := BitVec.ofNat 8 a2
    { s with a := r }.flags (r == 0) s.nf false s.cf
  else
    let hi := s.cf || decide (a > 0x99)
    let lo := s.hf || decide (a % 16 > 9)
    let a1 := if hi then a + 0x60 else a
    let a2 := if lo then a1 + 0x06 else a1
    let r := BitVec.ofNat 8 a2
    { s with a := r }.flags (r == 0) s.nf false hi

def push16 (s : St) (w : Word) : St :=
  let s1 := s.wr (s.sp - 1) (hiB w)
  let s2 := s1.wr (s.sp - 2) (loB w)
  { s2 with sp := s.sp - 2 }

def pop16 (s : St) : Word × St :=
  (w16 (s.rd (s.sp + 1)) (s.rd s.sp), { s with sp := s.sp + 2 })

def spPlusE (s : St) (e : Byte) : Word × Bool × Bool :=
  (s.sp + disp e, decide (s.sp.toNat % 16 + e.toNat % 16 > 15), decide (s.sp.toNat % 256 + e.toNat > 255))

def indAddr (i : Ind) (s : St) : Word :=
  match i with
  | .bc => w16 s.b s.c | .de => w16 s.d s.e | .hli => s.hl | .hld => s.hl
  | .ff00n => BitVec.ofNat 16 (0xff00 + (imm8 s).toNat)
  | .ff00c => BitVec.ofNat 16 (0xff00 + s.c.toNat)
  | .nn => imm16 s

def indAfter (i : Ind) (s : St) : St :=
  match i with
  | .hli => s.setRp .hl (s.hl + 1)
  | .hld => s.setRp .hl (s.hl - 1)
  | .ff00n => { s with pc := s.pc + 1 }
  | .nn => { s with pc := s.pc + 2 }
  | _ => s

/-- the documented effect of one instruction; `s.pc` already points past the opcode byte(s) -/
def exec (i : Instr) (s : St) : St :=
  match i with
  | .nop => s
  | .stop => { s with stopped := true }
  | .halt =>
    if s.bus.ime then { s with halted := true }
    else if s.bus.ie &&& s.bus.ifl &&& 0x1f == 0 then { s with halted := true }
    else { s with haltbug := true }
  | .di => { s with eiPending := false, bus := { s.bus with ime := false } }
  | .ei => { s with eiPending := true }
  | .ld dst src => s.setLoc dst (s.getLoc src)
  | .ldN dst => ({ s with pc := s.pc + 1 }).setLoc dst (imm8 s)
  | .ldRpNN rp => ({ s with pc := s.pc + 2 }).setRp rp (imm16 s)
  | .ldNNSP =>
    let a := imm16 s
    { (s.wr a (loB s.sp)).wr (a + 1) (hiB s.sp) with pc := s.pc + 2 }
  | .ldSPHL => { s with sp := s.hl }
  | .ldHLSPe =>
    let r := spPlusE s (imm8 s)
    (({ s with pc := s.pc + 1 }).setRp .hl r.1).flags false false r.2.1 r.2.2
  | .addSPe =>
    let r := spPlusE s (imm8 s)
    ({ s with pc := s.pc + 1, sp := r.1 }).flags false false r.2.1 r.2.2
  | .ldAInd i => indAfter i { s with a := s.rd (indAddr i s) }
  | .ldIndA i => indAfter i (s.wr (indAddr i s) s.a)
  | .push rp =>
    match rp with
    | .bc => push16 s (w16 s.b s.c) | .de => push16 s (w16 s.d s.e) | .hl => push16 s (w16 s.h s.l)
    | .af => push16 s (w16 s.a s.fByte)
  | .pop rp =>
    let r := pop16 s
    match rp with
    | .bc => { r.2 with b := hiB r.1, c := loB r.1 }
    | .de => { r.2 with d := hiB r.1, e := loB r.1 }
    | .hl => { r.2 with h := hiB r.1, l := loB r.1 }
    | .af => ({ r.2 with a := hiB r.1 }).flags ((loB r.1).getLsbD 7) ((loB r.1).getLsbD 6) ((loB r.1).getLsbD 5) ((loB r.1).getLsbD 4)
  | .alu op src => aluExec op s (s.getLoc src)
  | .aluN op => aluExec op { s with pc := s.pc + 1 } (imm8 s)
  | .inc l =>
    let v := (s.getLoc l).toNat
    let r := BitVec.ofNat 8 (v + 1)
    (s.setLoc l r).flags (r == 0) false (decide (v % 16 = 15)) s.cf
  | .dec l =>
    let v := (s.getLoc l).toNat
    let r := BitVec.ofNat 8 (v + 255)
    (s.setLoc l r).flags (r == 0) true (decide (v % 16 = 0)) s.cf
  | .inc16 rp => s.setRp rp (s.getRp rp + 1)
  | .dec16 rp => s.setRp rp (s.getRp rp - 1)
  | .addHL rp =>
    let x := s.hl.toNat
    let y := (s.getRp rp).toNat
    (s.setRp .hl (BitVec.ofNat 16 (x + y))).flags s.zf false (decide (x % 4096 + y % 4096 > 4095)) (decide (x + y > 65535))
  | .rlca => let r := rotExec .rlc s.cf s.a; { s with a := r.1 }.flags false false false r.2
  | .rrca => let r := rotExec .rrc s.cf s.a; { s with a := r.1 }.flags false false false r.2
  | .rla => let r := rotExec .rl s.cf s.a; { s with a := r.1 }.flags false false false r.2
  | .rra => let r := rotExec .rr s.cf s.a; { s with a := r.1 }.flags false false false r.2
  | .daa => daaExec s
  | .cpl => { s with a := ~~~s.a }.flags s.zf true true s.cf
  | .scf => s.flags s.zf false false true
  | .ccf => s.flags s.zf false false (!s.cf)
  | .jp => { s with pc := imm16 s }
  | .jpCC cc => if cc.holds s then { s with pc := imm16 s } else { s with pc := s.pc + 2 }
  | .jpHL => { s with pc := s.hl }
  | .jr => { s with pc := s.pc + 1 + disp (imm8 s) }
  | .jrCC cc => if cc.holds s then { s with pc := s.pc + 1 + disp (imm8 s) } else { s with pc := s.pc + 1 }
  | .call => { push16 s (s.pc + 2) with pc := imm16 s }
  | .callCC cc => if cc.holds s then { push16 s (s.pc + 2) with pc := imm16 s } else { s with pc := s.pc + 2 }
  | .ret => let r := pop16 s; { r.2 with pc := r.1 }
  | .retCC cc => if cc.holds s then (let r := pop16 s; { r.2 with pc := r.1 }) else s
  | .reti => let r := pop16 s; { r.2 with pc := r.1, bus := { r.2.bus with ime := true } }
  | .rst t => { push16 s s.pc with pc := BitVec.ofNat 16 t }
  | .rot op l =>
    let r := rotExec op s.cf (s.getLoc l)
    (s.setLoc l r.1).flags (r.1 == 0) false false r.2
  | .bit n l => s.flags (decide ((s.getLoc l).toNat / 2 ^ n % 2 = 0)) false true s.cf
  | .res n l => s.setLoc l (BitVec.ofNat 8 ((s.getLoc l).toNat - (s.getLoc l).toNat / 2 ^ n % 2 * 2 ^ n))
  | .set n l => s.setLoc l (BitVec.ofNat 8 ((s.getLoc l).toNat + (1 - (s.getLoc l).toNat / 2 ^ n % 2) * 2 ^ n))

/-! ### documented timing -/

/-- machine cycles of an instruction (taken / not taken for the conditional ones) -/
def cyclesOf (i : Instr) (taken : Bool) : Nat :=
  match i with
  | .nop | .stop | .halt | .di | .ei => 1
  | .ld dst src => if dst = .hlm ∨ src = .hlm then 2 else 1
  | .ldN dst => if dst = .hlm then 3 else 2
  | .ldRpNN _ => 3 | .ldNNSP => 5 | .ldSPHL => 2 | .ldHLSPe => 3 | .addSPe => 4
  | .ldAInd i | .ldIndA i => match i with | .ff00n => 3 | .nn => 4 | _ => 2
  | .push _ => 4 | .pop _ => 3
  | .alu _ src => if src = .hlm then 2 else 1
  | .aluN _ => 2
  | .inc l | .dec l => if l = .hlm then 3 else 1
  | .inc16 _ | .dec16 _ | .addHL _ => 2
  | .rlca | .rrca | .rla | .rra | .daa | .cpl | .scf | .ccf => 1
  | .jp => 4 | .jpCC _ => if taken then 4 else 3 | .jpHL => 1
  | .jr => 3 | .jrCC _ => if taken then 3 else 2
  | .call => 6 | .callCC _ => if taken then 6 else 3
  | .ret => 4 | .retCC _ => if taken then 5 else 2 | .reti => 4 | .rst _ => 4
  | .rot _ l | .res _ l | .set _ l => if l = .hlm then 4 else 2
  | .bit _ l => if l = .hlm then 3 else 2

def condOf : Instr → Option CC
  | .jpCC cc | .jrCC cc | .callCC cc | .retCC cc => some cc
  | _ => none

end Tetro.Spec.Isa
