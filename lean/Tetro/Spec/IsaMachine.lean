import Tetro.Spec.IsaRun
/-
The instruction-level SM83 machine: what the CPU does between two instruction boundaries, as the
documentation describes it (Pan Docs "Interrupts", "HALT", "halt bug", "EI"; property texts C01–C05):

* an enabled and requested interrupt with the master enable set is DISPATCHED (highest priority =
  lowest numbered source; return address pushed, IME cleared, the IF bit acknowledged, continue at the
  vector; 5 machine cycles, one more when the CPU was halted);
* a halted CPU with the master enable clear WAKES when an enabled request appears (nothing else
  changes) and otherwise IDLES; a stopped CPU idles;
* otherwise ONE INSTRUCTION is executed (`stepInstr`: EI latch promotion, halt-bug fetch, `exec`) and
  occupies `cyclesOf` machine cycles, the taken/not-taken length chosen from the flags at the boundary;
* the 11 undefined opcodes lock the CPU up (`undefined`; the state is left as it is).

Core Lean only, executable.  State = the architectural state `St` of `Spec/Isa.lean`; there is no notion
of a micro-operation, a schedule or a cycle counter here.

Two places where the documentation is silent or the hardware is subtler than this machine (both are
stated here as the property texts C04/C05 state them, and reported in DESIGN/the final report):
* STOP.  The property texts say nothing about leaving STOP mode; on a DMG a joypad line going low ends it.
  This machine (like the code) has no way out of `stopped`: a stopped CPU idles; an enabled request
  with IME set is still dispatched (the check precedes everything else) and the CPU then idles at the
  vector, still stopped.
* The dispatch acknowledges IF and clears IME BEFORE the two pushes, which go through the ordinary bus
  write: with SP-1 or SP-2 on FF0F/FFFF the pushed byte lands in IF/IE after the acknowledge.  (On
  hardware the vector is chosen between the two pushes; only stacks on FF0F/FFFF/0000/0001 can tell.)
-/
namespace Tetro.Spec.Isa
open Tetro.Model.Cpu (Byte Word Flat)

/-- what happened between two boundaries -/
inductive Event
  | instr (i : Instr)
  | dispatch (k : Nat)
  | wake
  | idle
  | undefined
deriving DecidableEq, Repr

/-- the sources that are both enabled (IE) and requested (IF); five sources, bits 0–4 -/
def pending (s : St) : Byte := s.bus.ie &&& s.bus.ifl &&& 0x1f

/-- bit `k` of a byte, as a number -/
def bitOf (x : Byte) (k : Nat) : Nat := x.toNat / 2 ^ k % 2

/-- priority: VBlank 0 > STAT 1 > Timer 2 > Serial 3 > Joypad 4 – the lowest numbered pending source -/
def prioritySource (p : Byte) : Nat :=
  match (List.range 5).find? fun k => bitOf p k == 1 with
  | some k => k
  | none => 0

/-- acknowledge source `k`: exactly bit `k` of IF is cleared -/
def ackIF (ifl : Byte) (k : Nat) : Byte := BitVec.ofNat 8 (ifl.toNat - bitOf ifl k * 2 ^ k)

/-- the interrupt vectors 0x40, 0x48, 0x50, 0x58, 0x60 -/
def vector (k : Nat) : Word := BitVec.ofNat 16 (0x40 + 8 * k)

/-- interrupt dispatch of source `k`: the CPU leaves HALT, IME is cleared and the request acknowledged,
    the PC (the address of the next instruction) is pushed with the ordinary stack push – high byte to
    SP-1, low byte to SP-2, through the bus – and execution continues at the vector -/
def dispatchTo (s : St) (k : Nat) : St :=
  let s1 : St := { s with halted := false, bus := { s.bus with ime := false, ifl := ackIF s.bus.ifl k } }
  { push16 s1 s.pc with pc := vector k }

/-- the instruction whose encoding is at PC (`none`: one of the 11 undefined opcodes) -/
def nextInstr (s : St) : Option Instr :=
  if s.rd s.pc = 0xcb then some (decodeCB (s.rd (s.pc + 1)).toNat) else decode (s.rd s.pc).toNat

/-- outcome of the condition of a conditional instruction on the current flags (true when unconditional) -/
def takenOf (i : Instr) (s : St) : Bool :=
  match condOf i with
  | some cc => cc.holds s
  | none => true

/-- the instruction case of `specStep` -/
def instrStep (s : St) : St × Event × Nat :=
  match nextInstr s, stepInstr s with
  | some i, some s' => (s', .instr i, cyclesOf i (takenOf i s))
  | _, _ => (s, .undefined, 1)

/-- one step of the instruction-level machine: new state, what happened, machine cycles consumed -/
def specStep (s : St) : St × Event × Nat :=
  if pending s ≠ 0 ∧ s.bus.ime = true then
    (dispatchTo s (prioritySource (pending s)), .dispatch (prioritySource (pending s)),
      if s.halted then 6 else 5)
  else if s.halted then
    if pending s ≠ 0 then ({ s with halted := false }, .wake, 1) else (s, .idle, 1)
  else if s.stopped then (s, .idle, 1)
  else instrStep s

/-- `k` steps: final state and total machine cycles -/
def specRun : Nat → St → St × Nat
  | 0, s => (s, 0)
  | k + 1, s => ((specRun k (specStep s).1).1, (specStep s).2.2 + (specRun k (specStep s).1).2)

/-- the events of the first `k` steps -/
def specTrace : Nat → St → List Event
  | 0, _ => []
  | k + 1, s => (specStep s).2.1 :: specTrace k (specStep s).1

/-- no undefined opcode is met in the first `k` steps -/
def Defined : Nat → St → Prop
  | 0, _ => True
  | k + 1, s => (specStep s).2.1 ≠ .undefined ∧ Defined k (specStep s).1

def Defined.dec : (k : Nat) → (s : St) → Decidable (Defined k s)
  | 0, _ => isTrue trivial
  | k + 1, s =>
    have : Decidable (Defined k (specStep s).1) := Defined.dec k (specStep s).1
    inferInstanceAs (Decidable ((specStep s).2.1 ≠ .undefined ∧ Defined k (specStep s).1))

instance (k : Nat) (s : St) : Decidable (Defined k s) := Defined.dec k s

end Tetro.Spec.Isa
