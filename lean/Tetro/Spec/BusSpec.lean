/-
Documentation-shaped specification of the DMG address space as the CPU sees it through reads and writes
(Pan Docs "Memory Map", "Echo RAM", "FEA0-FEFF range", "I/O Ranges" and the per-register bit tables;
properties C06 and C07 of properties.jsonl).  Written by ADDRESS CLASS and REGISTER TABLE, independently of
the emulator's decoder and component code:

* `ruleOf a`     what a read of `a` returns after the value `v` was written to it:
                 `(v AND writable) OR forced` on the bits in `care` (the other bits are read-only / derived /
                 deliberately unspecified, DESIGN.md §8);
* `canon a`      the storage cell behind an address (echo RAM folds onto work RAM);
* `footprint a`  the set of addresses whose readable value a write to `a` may change (C07);
* `Abs`, `expect`, `reads`   the history form: an abstract map "last written value per cell" and the
                 expectation it puts on every read of a history of reads and writes without clock ticks.

Out of scope here: the cartridge windows 0000-7FFF / A000-BFFF (C08, C09) and the sound unit FF10-FF3F (C18).
-/
namespace Tetro.Spec.BusSpec

/-- one bus access -/
inductive BusOp where
  | rd (a : Nat)
  | wr (a v : Nat)
deriving DecidableEq, Repr

/-! ### address classes -/

def cartAddr (a : Nat) : Prop := a < 0x8000 ∨ (0xa000 ≤ a ∧ a < 0xc000)
def apuAddr (a : Nat) : Prop := 0xff10 ≤ a ∧ a < 0xff40
instance (a : Nat) : Decidable (cartAddr a) := by unfold cartAddr; infer_instance
instance (a : Nat) : Decidable (apuAddr a) := by unfold apuAddr; infer_instance

/-- the addresses this specification speaks about -/
def inScope (a : Nat) : Prop := a < 0x10000 ∧ ¬ cartAddr a ∧ ¬ apuAddr a
instance (a : Nat) : Decidable (inScope a) := by unfold inScope; infer_instance

/-- Echo RAM: E000-FDFF is the same storage as C000-DDFF -/
def canon (a : Nat) : Nat := if 0xe000 ≤ a ∧ a < 0xfe00 then a - 0x2000 else a

/-- the other address of the same cell, if there is one -/
def mirrorOf (a : Nat) : Option Nat :=
  if 0xc000 ≤ a ∧ a < 0xde00 then some (a + 0x2000)
  else if 0xe000 ≤ a ∧ a < 0xfe00 then some (a - 0x2000)
  else none

/-- ordinary memory: video RAM, work RAM (and its echo), OAM, high RAM, and IE -/
def plainAddr (a : Nat) : Prop :=
  (0x8000 ≤ a ∧ a < 0xa000) ∨ (0xc000 ≤ a ∧ a < 0xfe00) ∨ (0xfe00 ≤ a ∧ a < 0xfea0) ∨ (0xff80 ≤ a ∧ a ≤ 0xffff)
instance (a : Nat) : Decidable (plainAddr a) := by unfold plainAddr; infer_instance

/-! ### read-back rules -/

/-- after `v` was written, a read returns `(v &&& writable) ||| forced` on the bits of `care` -/
structure Rule where
  writable : Nat
  forced   : Nat
  care     : Nat
deriving DecidableEq, Repr

def Rule.readBack (r : Rule) (v : Nat) : Nat := (v &&& r.writable) ||| r.forced

/-- what a value `x` read back must satisfy -/
def Rule.holds (r : Rule) (v x : Nat) : Prop := x &&& r.care = r.readBack v &&& r.care

/-- a register whose specified bits are exactly its writable and its forced-one bits -/
def reg (writable forced : Nat) : Rule := { writable := writable, forced := forced, care := writable ||| forced }

/-- the hardware registers with writable bits, by address: (writable mask, bits that always read 1).
    JOYP: bits 4-5 writable, 6-7 one, the low nibble comes from the keys.  SB/SC: the serial unit is not
    implemented, both read FF.  TIMA: outside the reload window.  STAT: bits 3-6 writable, bit 7 one, bits 0-2
    (mode, coincidence) read-only.  OBP0/OBP1: bits 0-1 are unused by the hardware and unspecified here. -/
def regTable : List (Nat × Rule) := [
  (0xff00, reg 0x30 0xc0),   -- JOYP
  (0xff01, reg 0x00 0xff),   -- SB
  (0xff02, reg 0x00 0xff),   -- SC
  (0xff05, reg 0xff 0x00),   -- TIMA
  (0xff06, reg 0xff 0x00),   -- TMA
  (0xff07, reg 0x07 0xf8),   -- TAC
  (0xff0f, reg 0x1f 0xe0),   -- IF
  (0xff40, reg 0xff 0x00),   -- LCDC
  (0xff41, reg 0x78 0x80),   -- STAT
  (0xff42, reg 0xff 0x00),   -- SCY
  (0xff43, reg 0xff 0x00),   -- SCX
  (0xff45, reg 0xff 0x00),   -- LYC
  (0xff46, reg 0xff 0x00),   -- DMA
  (0xff47, reg 0xff 0x00),   -- BGP
  (0xff48, reg 0xfc 0x00),   -- OBP0
  (0xff49, reg 0xfc 0x00),   -- OBP1
  (0xff4a, reg 0xff 0x00),   -- WY
  (0xff4b, reg 0xff 0x00)]   -- WX

/-- registers that never take the written value: DIV (any write resets the divider), LY (read-only) -/
def volatileRegs : List Nat := [0xff04, 0xff44]

/-- an I/O address with no hardware behind it (on a DMG, and outside the sound unit) -/
def unmappedAddr (a : Nat) : Prop :=
  0xff00 ≤ a ∧ a < 0xff80 ∧ ¬ apuAddr a ∧ (regTable.find? (·.1 == a)).isNone = true ∧ a ∉ volatileRegs
instance (a : Nat) : Decidable (unmappedAddr a) := by unfold unmappedAddr; infer_instance

/-- the rule of an address in scope:
    ordinary memory reads back what was written; FEA0-FEFF reads 00; a register follows its table entry;
    DIV reads 00 right after a write, LY is unspecified; every other I/O address reads FF and ignores writes -/
def ruleOf (a : Nat) : Rule :=
  if plainAddr a then { writable := 0xff, forced := 0x00, care := 0xff }
  else if 0xfea0 ≤ a ∧ a < 0xff00 then { writable := 0x00, forced := 0x00, care := 0xff }
  else match regTable.find? (·.1 == a) with
    | some e => e.2
    | none =>
      if a = 0xff04 then { writable := 0x00, forced := 0x00, care := 0xff }
      else if a = 0xff44 then { writable := 0x00, forced := 0x00, care := 0x00 }
      else { writable := 0x00, forced := 0xff, care := 0xff }

/-! ### C07: what a write may change -/

/-- documented side effects of register writes on OTHER readable locations -/
def sideEffect (a b : Nat) : Prop :=
  (a = 0xff04 ∧ b = 0xff05)                           -- DIV reset: falling edge of the timer bit clocks TIMA
  ∨ (a = 0xff07 ∧ b = 0xff05)                         -- TAC: the same edge through the enable / select bits
  ∨ (a = 0xff06 ∧ b = 0xff05)                         -- TMA written in the reload cycle goes to TIMA too
  ∨ (a = 0xff40 ∧ (b = 0xff41 ∨ b = 0xff44))          -- LCDC bit 7: STAT mode/coincidence bits, LY
  ∨ (a = 0xff46 ∧ 0xfe00 ≤ b ∧ b < 0xff00)            -- DMA: OAM is inaccessible, then rewritten
  ∨ (apuAddr a ∧ apuAddr b)                           -- sound registers: NR52 / trigger / envelope … (C18, C19)
instance (a b : Nat) : Decidable (sideEffect a b) := by unfold sideEffect; infer_instance

/-- `footprint a b`: a write to `a` may change what `b` reads:
    `a` itself, its echo mirror, the ROM/RAM windows for a cartridge control write, the RAM window for a
    cartridge RAM write (MBC2 mirrors its 512 bytes, MBC3 maps one clock register over the window), and
    the documented side effects -/
def footprint (a b : Nat) : Prop :=
  b = a ∨ mirrorOf a = some b ∨ (a < 0x8000 ∧ cartAddr b)
  ∨ (0xa000 ≤ a ∧ a < 0xc000 ∧ 0xa000 ≤ b ∧ b < 0xc000) ∨ sideEffect a b
instance (a b : Nat) : Decidable (footprint a b) := by unfold footprint; infer_instance

/-! ### the history form: abstract map of last written values -/

inductive Cell where
  | initial               -- not written and not disturbed since the start of the history
  | written (v : Nat)     -- `v` was the last value written, nothing disturbed the cell since
  | unknown               -- a later write to another address had this cell in its footprint
deriving DecidableEq, Repr

structure Abs where
  cell : Nat → Cell       -- by canonical address
  dma  : Bool             -- a transfer was started (there are no ticks in a history: OAM stays inaccessible)

def Abs.start : Abs := { cell := fun _ => .initial, dma := false }

def Abs.write (x : Abs) (a v : Nat) : Abs :=
  { cell := fun c => if c = canon a then .written v else if footprint a c then .unknown else x.cell c,
    dma := x.dma || decide (a = 0xff46) }

/-- what the specification says about one read -/
inductive Expect where
  | any
  | exact (v : Nat)
  | rule (r : Rule) (v : Nat)
deriving DecidableEq, Repr

def Expect.holds : Expect → Nat → Prop
  | .any, _ => True
  | .exact v, x => x = v
  | .rule r v, x => r.holds v x

/-- what a cell in a given abstract state lets a read of it return; `init c` = what cell `c` read at the
    start of the history -/
def cellExpect (init : Nat → Nat) (c : Nat) : Cell → Expect
  | .initial => .exact (init c)
  | .written v => .rule (ruleOf c) v
  | .unknown => .any

/-- expectation on a read of `b` -/
def expect (init : Nat → Nat) (x : Abs) (b : Nat) : Expect :=
  if x.dma = true ∧ 0xfe00 ≤ b ∧ b < 0xff00 then .any
  else cellExpect init (canon b) (x.cell (canon b))

/-- the expectations on the reads of a history, in order -/
def reads (init : Nat → Nat) : Abs → List BusOp → List Expect
  | _, [] => []
  | x, .rd a :: ops => expect init x a :: reads init x ops
  | x, .wr a v :: ops => reads init (x.write a v) ops

/-- an access of a history this specification covers -/
def admissible : BusOp → Prop
  | .rd a => inScope a
  | .wr a v => inScope a ∧ v < 256
instance (op : BusOp) : Decidable (admissible op) := by
  cases op <;> unfold admissible <;> infer_instance

end Tetro.Spec.BusSpec
