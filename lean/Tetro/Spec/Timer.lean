import Tetro.Spec.TimerAlphabet
/-
Documentation-shaped specification of the DMG timer (Pan Docs "Timer and Divider Registers" /
"Timer obscure behaviour", and the text of property C12), written per MACHINE CYCLE and per
EVENT, independently of the code's representation:

* there is no remembered "last level" of the signal: the falling-edge detector is continuous,
  the signal is a pure function of (system counter, TAC) and is compared before/after every event
  that can change it (the bus write of the cycle, then the counter advancing by 4);
* there is no countdown and no latched interrupt flag: the reload phase is two facts about the
  PREVIOUS machine cycle (`overflowed`: TIMA wrapped in it; `reloaded`: TIMA was reloaded at its
  end), and the interrupt request of a cycle is simply "TIMA wrapped in this cycle".

Alphabet: what a guest can do in one machine cycle – at most one write to one of the four
registers, followed by the end of the cycle.  Observations: the four registers as a read in the
next machine cycle returns them, and whether the timer interrupt was requested in this cycle.
-/
namespace Tetro.Spec.Timer
open Tetro.Timer (Write Obs Call)

structure St where
  sys        : Nat    -- 16-bit system counter, DIV is its upper byte
  tac        : Nat
  tima       : Nat
  tma        : Nat
  overflowed : Bool   -- TIMA wrapped FF→00 during the previous cycle: it reads 00 now, reload due
  reloaded   : Bool   -- TIMA was reloaded from TMA at the end of the previous cycle
deriving DecidableEq, Repr

/-- TAC bits 1-0 select the system-counter bit: 00→9 (4096 Hz), 01→3, 10→5, 11→7 -/
def selectedBit (tac : Nat) : Nat :=
  if tac % 4 = 0 then 9 else 2 * (tac % 4) + 1

/-- the timer signal: TAC bit 2 (enable) AND the selected bit of the system counter -/
def signal (sys tac : Nat) : Bool := tac.testBit 2 && sys.testBit (selectedBit tac)

/-- a 1→0 transition -/
def falls (before after : Bool) : Bool := before && !after

/-- system counter after the write of this cycle: any write to DIV clears all 16 bits -/
def sysAfterWrite (s : St) : Option Write → Nat
  | some .div => 0
  | _ => s.sys

def tacAfterWrite (s : St) : Option Write → Nat
  | some (.tac v) => v
  | _ => s.tac

def tmaAfterWrite (s : St) : Option Write → Nat
  | some (.tma v) => v
  | _ => s.tma

/-- TIMA after the write of this cycle.  In the cycle after a reload, writes to TIMA are ignored
    and writes to TMA go to TIMA as well. -/
def timaAfterWrite (s : St) : Option Write → Nat
  | some (.tima v) => if s.reloaded then s.tima else v
  | some (.tma v) => if s.reloaded then v else s.tima
  | _ => s.tima

/-- a TIMA write that is not ignored, made while TIMA reads 00 after an overflow, cancels the
    pending reload (where the documentation is silent – both special cycles coincide – an ignored
    write is taken to have no effect at all) -/
def cancels (s : St) : Option Write → Bool
  | some (.tima _) => !s.reloaded
  | _ => false

/-- the system counter advances by 4 every machine cycle (one per clock), wrapping at 2^16 -/
def sysNext (sys : Nat) : Nat := (sys + 4) % 65536

/-- falling edge of the signal caused by this cycle's write (DIV cleared, or TAC changed) -/
def writeEdge (s : St) (w : Option Write) : Bool :=
  falls (signal s.sys s.tac) (signal (sysAfterWrite s w) (tacAfterWrite s w))

/-- falling edge of the signal caused by the counter advancing at the end of this cycle -/
def countEdge (s : St) (w : Option Write) : Bool :=
  falls (signal (sysAfterWrite s w) (tacAfterWrite s w))
        (signal (sysNext (sysAfterWrite s w)) (tacAfterWrite s w))

/-- the reload that is due at the end of this cycle actually happens -/
def reloads (s : St) (w : Option Write) : Bool := s.overflowed && !cancels s w

def bump (e : Bool) (x : Nat) : Nat := if e then (x + 1) % 256 else x

/-- TIMA after the write and the write-caused edge -/
def timaMid (s : St) (w : Option Write) : Nat := bump (writeEdge s w) (timaAfterWrite s w)

/-- TIMA at the end-of-cycle point, after a due reload -/
def timaLoaded (s : St) (w : Option Write) : Nat :=
  if reloads s w then tmaAfterWrite s w else timaMid s w

/-- TIMA at the end of the cycle -/
def timaEnd (s : St) (w : Option Write) : Nat := bump (countEdge s w) (timaLoaded s w)

/-- TIMA wrapped FF→00 at one of the two edges of this cycle (and was not reloaded over) -/
def overflows (s : St) (w : Option Write) : Bool :=
  (writeEdge s w && timaAfterWrite s w == 255 && !reloads s w) ||
  (countEdge s w && timaLoaded s w == 255)

/-- one machine cycle -/
def cycle (s : St) (w : Option Write) : St :=
  { sys := sysNext (sysAfterWrite s w)
    tac := tacAfterWrite s w
    tima := timaEnd s w
    tma := tmaAfterWrite s w
    overflowed := overflows s w
    reloaded := reloads s w }

/-- DIV is the upper byte of the system counter; TAC reads with its unused upper five bits set -/
def readDIV (s : St) : Nat := s.sys / 256
def readTAC (s : St) : Nat := s.tac % 8 + 0xf8

/-- what the guest sees: registers after the cycle; exactly one interrupt request per overflow,
    raised in the cycle of the overflow (hence before the reload, which is one cycle later) -/
def cycleObs (s : St) (w : Option Write) : Obs :=
  { div := readDIV (cycle s w), tima := (cycle s w).tima, tma := (cycle s w).tma,
    tac := readTAC (cycle s w), irq := overflows s w }

def observe (s : St) : List (Option Write) → List Obs
  | [] => []
  | w :: ws => cycleObs s w :: observe (cycle s w) ws

def run (s : St) (ws : List (Option Write)) : St := ws.foldl cycle s

/-! ### registers that do not depend on the edge detector, for ANY order of single events -/

def sysEvent (sys : Nat) : Call → Nat
  | .tick => sysNext sys
  | .write .div => 0
  | .write _ => sys

def tmaEvent (tma : Nat) : Call → Nat
  | .write (.tma v) => v
  | _ => tma

def tacEvent (tac : Nat) : Call → Nat
  | .write (.tac v) => v
  | _ => tac

/-! ### closed forms used by the rate / DIV corollaries -/

/-- period in clocks of the selected bit -/
def period (tac : Nat) : Nat := 2 ^ (selectedBit tac + 1)

/-- number of falling edges of the selected bit while the counter runs freely from `sys` for
    `n` machine cycles: the multiples of the period in `(sys, sys + 4n]` -/
def fallingEdges (sys tac n : Nat) : Nat := (sys % period tac + 4 * n) / period tac

/-- system counter after `n` undisturbed machine cycles -/
def sysAfter (sys n : Nat) : Nat := (sys + 4 * n) % 65536

end Tetro.Spec.Timer
