/-
Documentation-shaped specification of DMG LCD line/mode timing (C13) and of the VBlank / STAT
interrupt requests (C14), written from the property texts and Pan Docs ("LCD Status Register",
"INT 40", "INT 48"), NOT from the code:

* the only timing state is the number `n` of machine cycles since the LCD was last switched on
  (`none` while it is off);  LY and the mode are a CLOSED FORM of `n` – there is no mode machine,
  no tick counter, no first-line flag;
* requests are EVENTS of that closed form ("line 144 begins", "mode becomes 0", "a line begins
  whose number is LYC"), i.e. edges between cycle k-1 and cycle k;
* the STAT enables and LYC are simply the values last written.
-/
namespace Tetro.Spec.Lcd

/-! ## C13: closed form -/

/-- position inside the 17 556-cycle frame after the `n`-th cycle since switch-on.  The first line
    after switch-on is two cycles shorter: its mode-0 period loses cycles, so from cycle 63 on the
    position is two ahead of `n - 1`. -/
def phase (n : Nat) : Nat := (if n ≤ 62 then n - 1 else n + 1) % 17556

/-- 114 cycles per line, 154 lines -/
def lyOfPhase (u : Nat) : Nat := u / 114

/-- lines 144–153: mode 1; otherwise 20 cycles mode 2, then mode 3 until cycle 61, then mode 0 -/
def modeOfPhase (u : Nat) : Nat :=
  if u / 114 ≥ 144 then 1 else if u % 114 < 20 then 2 else if u % 114 < 61 then 3 else 0

def lyAt (n : Nat) : Nat := lyOfPhase (phase n)
def modeAt (n : Nat) : Nat := modeOfPhase (phase n)

/-- what FF44 and the low two bits of FF41 show -/
structure View where
  ly   : Nat
  mode : Nat
deriving DecidableEq, Repr

/-- LCD off: LY = 0 and mode 0.  LCD on for `n` cycles: the closed form (for `n = 0`, i.e. right
    after switch-on and before the first cycle, this gives line 0, mode 2). -/
def view : Option Nat → View
  | none => { ly := 0, mode := 0 }
  | some n => { ly := lyAt n, mode := modeAt n }

/-- a machine cycle passes -/
def cycle : Option Nat → Option Nat
  | none => none
  | some n => some (n + 1)

/-- bit 7 of a value written to LCDC: switching on restarts at cycle 0, switching off is
    immediate, writing the current setting changes nothing -/
def lcdc (s : Option Nat) (on : Bool) : Option Nat :=
  match s, on with
  | none, true => some 0
  | some n, true => some n
  | _, false => none

/-! ## C14: request events at cycle `k ≥ 1` since switch-on -/

/-- a new line begins with cycle `k` -/
def lineBegins (k : Nat) : Prop := phase k % 114 = 0

/-- VBlank interrupt / VBlank STAT source: line 144 begins -/
def vblankBegins (k : Nat) : Prop := lineBegins k ∧ lyAt k = 144

/-- HBlank STAT source: the mode becomes 0 -/
def hblankBegins (k : Nat) : Prop := modeAt k = 0 ∧ modeAt (k - 1) ≠ 0

/-- OAM STAT source: one of the lines 0–143 begins -/
def oamLineBegins (k : Nat) : Prop := lineBegins k ∧ lyAt k < 144

/-- the two points the property leaves open for the OAM source: the line 0 that directly follows
    switch-on (cycle 1) and the start of line 144 -/
def oamUnspecified (k : Nat) : Prop := k = 1 ∨ vblankBegins k

/-- LYC STAT source: a line begins whose number equals LYC -/
def lycLineBegins (c k : Nat) : Prop := lineBegins k ∧ lyAt k = c

instance (k : Nat) : Decidable (lineBegins k) := by unfold lineBegins; infer_instance
instance (k : Nat) : Decidable (vblankBegins k) := by unfold vblankBegins; infer_instance
instance (k : Nat) : Decidable (hblankBegins k) := by unfold hblankBegins; infer_instance
instance (k : Nat) : Decidable (oamLineBegins k) := by unfold oamLineBegins; infer_instance
instance (k : Nat) : Decidable (oamUnspecified k) := by unfold oamUnspecified; infer_instance
instance (c k : Nat) : Decidable (lycLineBegins c k) := by unfold lycLineBegins; infer_instance

/-- abstract LCD controller: time since switch-on and the values last written to STAT and LYC.
    `lyWritten` records that FF44 was written since the last cycle: what LY shows until the end of
    that machine cycle is a documented don't-care (DESIGN §8). -/
structure St where
  since     : Option Nat
  stat      : Nat
  lyc       : Nat
  lyWritten : Bool
deriving DecidableEq, Repr

/-- power-on: LCD on (LCDC = 0x91), nothing elapsed, STAT enables 0, LYC 0 -/
def St.init : St := { since := some 0, stat := 0, lyc := 0, lyWritten := false }

def St.cycle (s : St) : St := { s with since := Spec.Lcd.cycle s.since, lyWritten := false }
def St.writeLCDC (s : St) (v : Nat) : St := { s with since := Spec.Lcd.lcdc s.since (v.testBit 7) }
def St.writeSTAT (s : St) (v : Nat) : St := { s with stat := v }
def St.writeLYC (s : St) (v : Nat) : St := { s with lyc := v % 256 }
def St.writeLY (s : St) : St := { s with lyWritten := true }

def St.hblEn (s : St) : Bool := s.stat.testBit 3
def St.vblEn (s : St) : Bool := s.stat.testBit 4
def St.oamEn (s : St) : Bool := s.stat.testBit 5
def St.lycEn (s : St) : Bool := s.stat.testBit 6

/-- VBlank request raised by the cycle that takes the controller from `s` to `s.cycle` -/
def vblankReq (s : St) : Prop :=
  match s.since with
  | none => False
  | some n => vblankBegins (n + 1)

/-- the part of the STAT request that the property determines (every source but OAM) -/
def statDetermined (s : St) (k : Nat) : Prop :=
  (s.hblEn = true ∧ hblankBegins k) ∨ (s.vblEn = true ∧ vblankBegins k) ∨
  (s.lycEn = true ∧ lycLineBegins s.lyc k)

/-- acceptance relation for the STAT request `r` raised by the cycle from `s` to `s.cycle`: the OR
    of the enabled sources' events, where the OAM source is free at its two unspecified points -/
def statReqOk (s : St) (r : Bool) : Prop :=
  match s.since with
  | none => r = false
  | some n =>
    ∃ free : Bool, r = true ↔
      (statDetermined s (n + 1) ∨
        (s.oamEn = true ∧ (if oamUnspecified (n + 1) then free = true else oamLineBegins (n + 1))))

end Tetro.Spec.Lcd
