import Tetro.Spec.IsaSchedule
/-
Documented DATA accesses of every instruction and the machine cycle (1-based) in which each happens
(gbops / Pan Docs timing, mooneye "*_timing" test descriptions).  Opcode and operand fetches are not data
accesses and are not listed.  Addresses are expressions over the architectural state at the START of the
instruction (PC pointing just past the opcode byte(s)).
-/
namespace Tetro.Spec.Isa
open Tetro.Model.Cpu (Byte Word)

inductive Kind | rd | wr
deriving DecidableEq, Repr

/-- address expressions, evaluated on the state at instruction start -/
inductive AExpr
  | hl | bc | de
  | nn            -- the 16-bit operand
  | nn1           -- operand + 1
  | ff00n         -- FF00 + 8-bit operand
  | ff00c         -- FF00 + C
  | spPlus (k : Nat)   -- SP + k
  | spMinus (k : Nat)  -- SP - k
deriving DecidableEq, Repr

def AExpr.eval (e : AExpr) (s : St) : Word :=
  match e with
  | .hl => s.hl | .bc => w16 s.b s.c | .de => w16 s.d s.e
  | .nn => imm16 s | .nn1 => imm16 s + 1
  | .ff00n => BitVec.ofNat 16 (0xff00 + (imm8 s).toNat)
  | .ff00c => BitVec.ofNat 16 (0xff00 + s.c.toNat)
  | .spPlus k => s.sp + BitVec.ofNat 16 k
  | .spMinus k => s.sp - BitVec.ofNat 16 k

/-- (machine cycle, kind, address) of every data access; `taken` selects the taken form of CALL cc / RET cc -/
def busPlan (i : Instr) (taken : Bool) : List (Nat × Kind × AExpr) :=
  match i with
  | .ld (.r _) .hlm => [(2, .rd, .hl)]
  | .ld .hlm (.r _) => [(2, .wr, .hl)]
  | .ldN .hlm => [(3, .wr, .hl)]
  | .ldNNSP => [(4, .wr, .nn), (5, .wr, .nn1)]
  | .ldAInd .bc => [(2, .rd, .bc)] | .ldAInd .de => [(2, .rd, .de)]
  | .ldAInd .hli => [(2, .rd, .hl)] | .ldAInd .hld => [(2, .rd, .hl)]
  | .ldAInd .ff00n => [(3, .rd, .ff00n)] | .ldAInd .ff00c => [(2, .rd, .ff00c)] | .ldAInd .nn => [(4, .rd, .nn)]
  | .ldIndA .bc => [(2, .wr, .bc)] | .ldIndA .de => [(2, .wr, .de)]
  | .ldIndA .hli => [(2, .wr, .hl)] | .ldIndA .hld => [(2, .wr, .hl)]
  | .ldIndA .ff00n => [(3, .wr, .ff00n)] | .ldIndA .ff00c => [(2, .wr, .ff00c)] | .ldIndA .nn => [(4, .wr, .nn)]
  | .push _ => [(3, .wr, .spMinus 1), (4, .wr, .spMinus 2)]
  | .pop _ => [(2, .rd, .spPlus 0), (3, .rd, .spPlus 1)]
  | .alu _ .hlm => [(2, .rd, .hl)]
  | .inc .hlm => [(2, .rd, .hl), (3, .wr, .hl)]
  | .dec .hlm => [(2, .rd, .hl), (3, .wr, .hl)]
  | .call => [(5, .wr, .spMinus 1), (6, .wr, .spMinus 2)]
  | .callCC _ => if taken then [(5, .wr, .spMinus 1), (6, .wr, .spMinus 2)] else []
  | .ret => [(2, .rd, .spPlus 0), (3, .rd, .spPlus 1)]
  | .reti => [(2, .rd, .spPlus 0), (3, .rd, .spPlus 1)]
  | .retCC _ => if taken then [(3, .rd, .spPlus 0), (4, .rd, .spPlus 1)] else []
  | .rst _ => [(3, .wr, .spMinus 1), (4, .wr, .spMinus 2)]
  | .rot _ .hlm => [(3, .rd, .hl), (4, .wr, .hl)]
  | .res _ .hlm => [(3, .rd, .hl), (4, .wr, .hl)]
  | .set _ .hlm => [(3, .rd, .hl), (4, .wr, .hl)]
  | .bit _ .hlm => [(3, .rd, .hl)]
  | _ => []

end Tetro.Spec.Isa
