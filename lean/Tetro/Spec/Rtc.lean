/-
Documentation-shaped specification of the MBC3 real-time clock (Pan Docs "MBC3 – Real Time Clock",
property text C10).

Shape: the clock is a NUMBER OF SECONDS (`toSeconds`) that advances by one per 1 048 576 machine
cycles; the register file is its mixed-radix representation 60/60/24/512 with the documented
behaviour of out-of-range field values (they count up to their bit width and wrap without a
carry).  Latching is a query on the event history: the registers show the counters as they were at
the most recent 0-then-1 write to the latch register.
-/
namespace Tetro.Spec.Rtc

/-- the counters a program can set and latch -/
structure Clock where
  s : Nat
  m : Nat
  h : Nat
  d : Nat          -- 9-bit day counter
  carry : Bool     -- day counter overflowed
  halt : Bool
deriving DecidableEq, Repr

def Clock.zero : Clock := { s := 0, m := 0, h := 0, d := 0, carry := false, halt := false }

/-- machine cycles per second: 4 194 304 Hz / 4 -/
def cyclesPerSecond : Nat := 1048576

/-- the day counter has 9 bits: the clock wraps after 512 days -/
def period : Nat := 512 * 86400

def toSeconds (c : Clock) : Nat := ((c.d * 24 + c.h) * 60 + c.m) * 60 + c.s

/-- field values a running clock can show -/
def Valid (c : Clock) : Prop := c.s < 60 ∧ c.m < 60 ∧ c.h < 24 ∧ c.d < 512

/-- field values the registers can hold (6, 6, 5 and 9 bits) -/
def InWidth (c : Clock) : Prop := c.s < 64 ∧ c.m < 64 ∧ c.h < 32 ∧ c.d < 512

/-- one counter stage: it carries exactly when it reaches `wrapAt` and otherwise counts up inside its
    bit width (so an out-of-range value runs up to the width and wraps to 0 without carrying) -/
def bump (x wrapAt width : Nat) : Nat := if x + 1 = wrapAt then 0 else (x + 1) % width

/-- one second passes: cascade of the four stages -/
def second (c : Clock) : Clock :=
  let cs : Bool := c.s + 1 = 60
  let cm : Bool := cs && c.m + 1 = 60
  let ch : Bool := cm && c.h + 1 = 24
  let cd : Bool := ch && c.d + 1 = 512
  { s := bump c.s 60 64,
    m := if cs then bump c.m 60 64 else c.m,
    h := if cm then bump c.h 24 32 else c.h,
    d := if ch then bump c.d 512 512 else c.d,
    carry := c.carry || cd,
    halt := c.halt }

/-- a write of byte `v` to clock register `sel` (08 seconds, 09 minutes, 0A hours, 0B day low,
    0C day high / halt / carry; 0D-0F map nothing) -/
def writeReg (c : Clock) (sel v : Nat) : Clock :=
  match sel with
  | 0x08 => { c with s := v % 64 }
  | 0x09 => { c with m := v % 64 }
  | 0x0a => { c with h := v % 32 }
  | 0x0b => { c with d := c.d / 256 % 2 * 256 + v % 256 }
  | 0x0c => { c with d := v % 2 * 256 + c.d % 256, halt := v / 64 % 2 = 1, carry := v / 128 % 2 = 1 }
  | _ => c

/-- what a read of clock register `sel` shows of a latched clock: fields masked to 6, 6, 5, 8 bits;
    control = day bit 8 in bit 0, halt in bit 6, carry in bit 7, all other bits 0 -/
def readReg (c : Clock) (sel : Nat) : Nat :=
  match sel with
  | 0x08 => c.s % 64
  | 0x09 => c.m % 64
  | 0x0a => c.h % 32
  | 0x0b => c.d % 256
  | 0x0c => c.d / 256 % 2 + (if c.halt then 0x40 else 0) + (if c.carry then 0x80 else 0)
  | _ => 0xff

/-! ### latching, as a query on the history -/

/-- what the clock sees -/
inductive Ev where
  | tick                      -- one machine cycle
  | latch (bit : Bool)        -- a write to 6000-7FFF: bit 0 of the value
  | write (sel v : Nat)       -- a write of `v` to A000-BFFF while clock register `sel` is selected

/-- history, most recent event first -/
abbrev Hist := List Ev

/-- the most recent latch write was a 0 -/
def armed : Hist → Bool
  | [] => false
  | .latch b :: _ => !b
  | _ :: h => armed h

/-- the history UP TO the most recent 0-then-1 latch write sequence (`none`: never latched) -/
def latchPoint : Hist → Option Hist
  | [] => none
  | .latch true :: h => if armed h then some h else latchPoint h
  | _ :: h => latchPoint h

end Tetro.Spec.Rtc
