/-
Documentation-shaped specification of the DMG OAM DMA (Pan Docs "OAM DMA Transfer", register
FF46; property C16), written from the documentation and NOT from the code: closed forms in
the number of machine cycles elapsed since the last write to FF46, and an event view of a
history.  Addresses and times are plain `Nat`.

  * writing XX (00–F1) to FF46 starts a transfer of the 160 bytes XX00–XX9F to FE00–FE9F;
  * E000–FDFF is the echo of work RAM C000–DDFF, so pages E0–F1 are fetched from C000–D19F
    (pages F2–FF are outside the documented range – and outside the property);
  * the write is followed by one set-up machine cycle, then one byte is fetched per machine
    cycle: byte k is sampled from the bus in machine cycle k+2 (1-based) after the write, and the
    value it had THEN is what OAM holds afterwards;
  * 162 machine cycles after the write the transfer is over; until then the CPU reads 0xFF
    from FE00–FEFF; a new write to FF46 while a transfer runs starts again from byte 0;
  * FF46 reads back the last value written.
-/
namespace Tetro.Spec.Dma

/-- pages for which the documentation (and the property) defines the transfer -/
abbrev pageInRange (xx : Nat) : Prop := xx ≤ 0xF1

/-- bus address from which byte `k` of a transfer of page `xx` is fetched (echo → work RAM) -/
def sourceAddr (xx k : Nat) : Nat :=
  if xx < 0xE0 then 0x100 * xx + k else 0xC000 + 0x100 * (xx - 0xE0) + k

/-- machine cycles from the FF46 write until OAM is accessible again -/
def duration : Nat := 162

/-- the machine cycle (1-based, counted from the FF46 write) in which byte `k` is sampled -/
def sampleTick (k : Nat) : Nat := k + 2

/-- is OAM still blocked `elapsed` machine cycles after the write? -/
def busy (elapsed : Nat) : Bool := decide (elapsed < duration)

/-- OAM byte `k` after the transfer, for a bus whose contents may differ in every machine cycle
    (`bus t a` = what address `a` holds in machine cycle `t` after the write) -/
def oamAfter (xx : Nat) (bus : Nat → Nat → BitVec 8) (k : Nat) : BitVec 8 :=
  bus (sampleTick k) (sourceAddr xx k)

/-- what a CPU read of an OAM location returns, `stored` being the byte held there -/
def cpuSees (elapsed : Nat) (stored : BitVec 8) : BitVec 8 :=
  if busy elapsed then 0xFF else stored

/-! ### event view of a history -/
inductive Ev where
  | writeFF46 (v : BitVec 8)
  | cycle

/-- looking back from the present (MOST RECENT event first): the value of the most recent write to
    FF46 and the number of machine cycles since -/
def lookBack : List Ev → Option (BitVec 8 × Nat)
  | [] => none
  | .writeFF46 v :: _ => some (v, 0)
  | .cycle :: earlier => (lookBack earlier).map fun p => (p.1, p.2 + 1)

/-- the same for a chronological history (oldest event first) -/
def lastStart (h : List Ev) : Option (BitVec 8 × Nat) := lookBack h.reverse

/-- value read from FF46 after a history (0 at power-on) -/
def ff46 (h : List Ev) : BitVec 8 :=
  match lastStart h with
  | some p => p.1
  | none => 0

/-- is a transfer running (OAM blocked) after a history? -/
def transferRunning (h : List Ev) : Bool :=
  match lastStart h with
  | some p => busy p.2
  | none => false

end Tetro.Spec.Dma
