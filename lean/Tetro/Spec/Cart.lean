import Tetro.Spec.Rtc
/-
Documentation-shaped specification of cartridge banking and cartridge RAM (Pan Docs "MBC1",
"MBC2", "MBC3", "MBC5", "No MBC"; property texts C08 and C09).

Shape: there is NO controller state.  Everything is a query on the HISTORY of bus events (most
recent event first): "the value last written to region R", "the most recent effective write to
RAM cell (bank, offset)".  The documented bank formulas are closed forms over those queries.
ROM contents, the ROM bank count `n` and the RAM bank count are parameters.
-/
namespace Tetro.Spec.Cart

/-- a bus event the cartridge can see -/
inductive Ev where
  | write (a v : Nat)     -- a CPU write of byte `v` to address `a`
  | tick                  -- one machine cycle passes

/-- a history, MOST RECENT EVENT FIRST -/
abbrev Hist := List Ev

/-- the value of the most recent write to an address in `lo ≤ a < hi` -/
def lastIn (lo hi : Nat) : Hist → Option Nat
  | [] => none
  | .write a v :: h => if lo ≤ a ∧ a < hi then some v else lastIn lo hi h
  | .tick :: h => lastIn lo hi h

/-- MBC2 decodes one control region 0000-3FFF and tells its two registers apart by address bit 8:
    the value of the most recent write to that region with address bit 8 equal to `bit8` -/
def lastLow (bit8 : Nat) : Hist → Option Nat
  | [] => none
  | .write a v :: h => if a < 0x4000 ∧ a / 256 % 2 = bit8 then some v else lastLow bit8 h
  | .tick :: h => lastLow bit8 h

inductive Ctrl where
  | rom | mbc1 | mbc2 | mbc3 | mbc5
deriving DecidableEq, Repr

/-! ### registers, as functions of the history -/

/-- MBC1 BANK1: 5 bits, written at 2000-3FFF, a written 0 selects 1; power-on 1 -/
def mbc1Bank1 (h : Hist) : Nat :=
  match lastIn 0x2000 0x4000 h with
  | none => 1
  | some v => if v % 32 = 0 then 1 else v % 32

/-- MBC1 BANK2: 2 bits, written at 4000-5FFF; power-on 0 -/
def mbc1Bank2 (h : Hist) : Nat :=
  match lastIn 0x4000 0x6000 h with
  | none => 0
  | some v => v % 4

/-- MBC1 MODE: bit 0 of the last write to 6000-7FFF; power-on 0 -/
def mbc1Mode (h : Hist) : Bool :=
  match lastIn 0x6000 0x8000 h with
  | none => false
  | some v => v % 2 = 1

/-- MBC2 ROM bank register: writes to 0000-3FFF with address bit 8 set, 4 bits, 0 selects 1 -/
def mbc2RomReg (h : Hist) : Nat :=
  match lastLow 1 h with
  | none => 1
  | some v => if v % 16 = 0 then 1 else v % 16

/-- MBC3 ROM bank register: 7 bits at 2000-3FFF, 0 selects 1 -/
def mbc3RomReg (h : Hist) : Nat :=
  match lastIn 0x2000 0x4000 h with
  | none => 1
  | some v => if v % 128 = 0 then 1 else v % 128

/-- MBC5 ROMB0: the low 8 bits of the ROM bank, written at 2000-2FFF; power-on 1 -/
def mbc5Lo (h : Hist) : Nat :=
  match lastIn 0x2000 0x3000 h with
  | none => 1
  | some v => v % 256

/-- MBC5 ROMB1: bit 8 of the ROM bank, bit 0 of the value written at 3000-3FFF; power-on 0 -/
def mbc5Hi (h : Hist) : Nat :=
  match lastIn 0x3000 0x4000 h with
  | none => 0
  | some v => v % 2

/-- MBC5 9-bit ROM bank register; 0 is allowed -/
def mbc5RomReg (h : Hist) : Nat := mbc5Hi h * 256 + mbc5Lo h

/-- the 4-bit RAM bank / RTC register select of MBC3 and MBC5 (4000-5FFF) -/
def ramSelect (h : Hist) : Nat :=
  match lastIn 0x4000 0x6000 h with
  | none => 0
  | some v => v % 16

/-! ### C08: which ROM bank an address shows -/

/-- the ROM bank visible at address `a < 0x8000` of an `n`-bank cartridge after history `h` -/
def romBank (c : Ctrl) (n : Nat) (h : Hist) (a : Nat) : Nat :=
  match c with
  | .rom => if a < 0x4000 then 0 else 1
  | .mbc1 =>
    if a < 0x4000 then (if mbc1Mode h then mbc1Bank2 h * 32 else 0) % n
    else (mbc1Bank2 h * 32 + mbc1Bank1 h) % n
  | .mbc2 => if a < 0x4000 then 0 else mbc2RomReg h % n
  | .mbc3 => if a < 0x4000 then 0 else mbc3RomReg h % n
  | .mbc5 => if a < 0x4000 then 0 else mbc5RomReg h % n

/-- the byte a read of `a < 0x8000` returns -/
def romRead (rom : Nat → Nat → Nat) (c : Ctrl) (n : Nat) (h : Hist) (a : Nat) : Nat :=
  rom (romBank c n h a) (a % 0x4000)

/-! ### C09: cartridge RAM -/

/-- the value of the most recent write to the controller's RAM-enable register
    (0000-1FFF; MBC2: 0000-3FFF with address bit 8 clear; a ROM-only cartridge has none) -/
def lastEnable (c : Ctrl) (h : Hist) : Option Nat :=
  match c with
  | .rom => none
  | .mbc2 => lastLow 0 h
  | _ => lastIn 0 0x2000 h

/-- RAM is enabled iff the last write to the enable register had low nibble A -/
def enabled (c : Ctrl) (h : Hist) : Bool :=
  match lastEnable c h with
  | none => false
  | some v => v % 16 = 10

/-- the RAM bank (of `count` banks) the window A000-BFFF currently shows; `none` when the window
    shows no RAM (disabled, no RAM at all, or an MBC3 clock register is selected) -/
def ramTarget (c : Ctrl) (count : Nat) (h : Hist) : Option Nat :=
  match c with
  | .rom => none
  | .mbc2 => none     -- MBC2 has its own half-byte array, see `nibble`
  | .mbc1 => if enabled .mbc1 h then some ((if mbc1Mode h then mbc1Bank2 h else 0) % count) else none
  | .mbc3 => if enabled .mbc3 h ∧ ramSelect h < 8 then some (ramSelect h % count) else none
  | .mbc5 => if enabled .mbc5 h then some (ramSelect h % count) else none

/-- contents of RAM cell (bank, offset): the most recent write that reached it, else 0xFF -/
def cell (c : Ctrl) (count : Nat) : Hist → Nat → Nat → Nat
  | [], _, _ => 0xff
  | .tick :: h, b, o => cell c count h b o
  | .write a v :: h, b, o =>
    if 0xa000 ≤ a ∧ a < 0xc000 ∧ ramTarget c count h = some b ∧ a - 0xa000 = o then v else cell c count h b o

/-- a read of `a` in A000-BFFF when no clock register is selected -/
def ramRead (c : Ctrl) (count : Nat) (h : Hist) (a : Nat) : Nat :=
  match ramTarget c count h with
  | some b => cell c count h b (a - 0xa000)
  | none => 0xff

/-- the RAM dump: all banks concatenated -/
def ramDump (c : Ctrl) (count : Nat) (h : Hist) : List Nat :=
  (List.range count).flatMap fun b => (List.range 0x2000).map fun o => cell c count h b o

/-- MBC2: half-byte `o` (of 512): the low nibble of the most recent write that reached it, else 0 -/
def nibble : Hist → Nat → Nat
  | [], _ => 0
  | .tick :: h, o => nibble h o
  | .write a v :: h, o =>
    if 0xa000 ≤ a ∧ a < 0xc000 ∧ enabled .mbc2 h ∧ (a - 0xa000) % 512 = o then v % 16 else nibble h o

/-- MBC2: a read of the window: upper four bits 1, the 512 half-bytes repeat -/
def mbc2Read (h : Hist) (a : Nat) : Nat :=
  if enabled .mbc2 h then 0xf0 + nibble h ((a - 0xa000) % 512) else 0xff

/-! ### MBC3: what reaches the clock -/

/-- the clock register the window A000-BFFF shows (selections 08-0F while RAM/clock access is
    enabled; 0D-0F map no register and read FF) -/
def clockSelected (h : Hist) : Option Nat :=
  if enabled .mbc3 h ∧ 8 ≤ ramSelect h then some (ramSelect h) else none

/-- the events of a bus history that reach the MBC3 clock (most recent first): every machine cycle,
    every write to the latch register 6000-7FFF, every write to the window while a clock register is
    selected -/
def clockEvents : Hist → Rtc.Hist
  | [] => []
  | .tick :: h => .tick :: clockEvents h
  | .write a v :: h =>
    if 0x6000 ≤ a ∧ a < 0x8000 then .latch (v % 2 = 1) :: clockEvents h
    else if 0xa000 ≤ a ∧ a < 0xc000 ∧ clockSelected h ≠ none then .write (ramSelect h) v :: clockEvents h
    else clockEvents h

end Tetro.Spec.Cart
