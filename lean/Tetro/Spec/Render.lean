import Tetro.Model.Render
/-
What a DMG shows for a static scene (registers, VRAM and OAM constant during the frame), written from
Pan Docs ("Tile Data", "Tile Maps", "LCDC", "Scrolling", "OAM", "Palettes") and the text of property C15.
Only the input type `Scene` is shared with the code model; nothing below refers to a model function.

Shape: plain integer arithmetic on screen coordinates, no 8-bit wrap-around tricks:
  * a tile row is two bytes: first = low bit plane, second = high bit plane, leftmost pixel = bit 7;
  * background: pixel ((x+SCX) mod 256, (y+SCY) mod 256) of the 256x256 picture described by the tile map
    selected by LCDC.3 and the tile data addressing selected by LCDC.4;
  * window (LCDC.5, WX ≤ 166, WY ≤ 143): its picture (map LCDC.6) is placed with the top-left corner at screen
    position (WX−7, WY); with the window enabled for the whole frame and WX constant the window line shown on
    screen line y is y−WY;
  * objects: object i occupies the screen rectangle  X−8 ≤ x < X,  Y−16 ≤ y < Y−16+h  (h = 8, or 16 with
    LCDC.2) as a set of INTEGER coordinates, so an object partly outside any edge is clipped, not hidden;
    per line the first ten objects in OAM order that meet the line are selected; among the selected objects
    with an opaque (non-zero) pixel at x the one with the smallest X wins, ties by lowest OAM index;
    the winner is drawn through OBP0/OBP1 (attribute bit 4) unless its attribute bit 7 is set and the
    background/window colour number is non-zero;
  * LCDC.0 = 0: background and window are blank (white, colour number 0); LCDC.1 = 0: no objects;
  * a palette register maps colour number c to shade (reg >> 2c) & 3; shade 0 = white … 3 = black.
-/
namespace Tetro.Spec.Render
open Tetro.Model.Render (Scene)

def lcdcBit (s : Scene) (k : Nat) : Bool := s.lcdc.val.testBit k

/-- byte of video memory at address 0x8000 + off -/
def vbyte (s : Scene) (off : Nat) : Nat := (s.vram off).val

/-- colour number of pixel (col,row) (col 0 = leftmost) of the tile data starting at VRAM offset `base` -/
def tileColour (s : Scene) (base col row : Nat) : Nat :=
  ((vbyte s (base + 2 * row)).testBit (7 - col)).toNat +
    2 * ((vbyte s (base + 2 * row + 1)).testBit (7 - col)).toNat

/-- VRAM offset of background/window tile `n` (0..255):
    LCDC.4 = 1 "8000 method": 0x8000 + 16n; LCDC.4 = 0 "8800 method": tiles 0–127 at 0x9000 + 16n,
    tiles 128–255 at 0x8800 + 16(n−128) -/
def bgTileBase (s : Scene) (n : Nat) : Nat :=
  if lcdcBit s 4 then 16 * n
  else if n < 128 then 0x1000 + 16 * n
  else 0x0800 + 16 * (n - 128)

/-- VRAM offset of a tile map: 0x9800 or 0x9C00 -/
def mapBase (sel : Bool) : Nat := if sel then 0x1C00 else 0x1800

/-- colour number of pixel (u,v), u v < 256, of the 256x256 picture given by tile map `sel` -/
def mapColour (s : Scene) (sel : Bool) (u v : Nat) : Nat :=
  tileColour s (bgTileBase s (vbyte s (mapBase sel + 32 * (v / 8) + u / 8))) (u % 8) (v % 8)

def bgColour (s : Scene) (x y : Nat) : Nat :=
  mapColour s (lcdcBit s 3) ((x + s.scx.val) % 256) ((y + s.scy.val) % 256)

/-- the window is shown at screen pixel (x,y) -/
def windowCovers (s : Scene) (x y : Nat) : Bool :=
  lcdcBit s 5 && decide (s.wx.val ≤ 166) && decide (s.wy.val ≤ 143) &&
    decide ((s.wx.val : Int) - 7 ≤ (x : Int)) && decide (s.wy.val ≤ y)

def windowColour (s : Scene) (x y : Nat) : Nat :=
  mapColour s (lcdcBit s 6) (((x : Int) - ((s.wx.val : Int) - 7)).toNat) (y - s.wy.val)

/-- colour number of the background/window layer (0 when LCDC.0 is clear) -/
def bgWinColour (s : Scene) (x y : Nat) : Nat :=
  if !lcdcBit s 0 then 0
  else if windowCovers s x y then windowColour s x y
  else bgColour s x y

/-! ### objects -/
structure Obj where
  y    : Nat
  x    : Nat
  tile : Nat
  attr : Nat

def obj (s : Scene) (i : Nat) : Obj :=
  { y := (s.oam (4 * i)).val, x := (s.oam (4 * i + 1)).val,
    tile := (s.oam (4 * i + 2)).val, attr := (s.oam (4 * i + 3)).val }

def objHeight (s : Scene) : Nat := if lcdcBit s 2 then 16 else 8

/-- screen line y meets the object:  Y−16 ≤ y < Y−16+h -/
def onLine (s : Scene) (o : Obj) (y : Nat) : Bool :=
  decide ((o.y : Int) - 16 ≤ (y : Int)) && decide ((y : Int) < (o.y : Int) - 16 + (objHeight s : Int))

/-- screen column x meets the object:  X−8 ≤ x < X -/
def inColumns (o : Obj) (x : Nat) : Bool :=
  decide ((o.x : Int) - 8 ≤ (x : Int)) && decide ((x : Int) < (o.x : Int))

/-- colour number the object shows at screen pixel (x,y) (meaningful when the object covers the pixel) -/
def objColour (s : Scene) (o : Obj) (x y : Nat) : Nat :=
  let h := objHeight s
  let col := ((x : Int) - ((o.x : Int) - 8)).toNat
  let row := ((y : Int) - ((o.y : Int) - 16)).toNat
  let col := if o.attr.testBit 5 then 7 - col else col
  let row := if o.attr.testBit 6 then h - 1 - row else row
  let tile := if h = 16 then o.tile - o.tile % 2 else o.tile     -- 8x16: bit 0 of the tile number is ignored
  tileColour s (16 * tile) col row                               -- objects always use the 8000 method

/-- the (at most ten) objects selected for line y, in OAM order -/
def lineObjects (s : Scene) (y : Nat) : List Nat :=
  ((List.range 40).filter fun i => onLine s (obj s i) y).take 10

/-- DMG drawing priority: object i beats object j -/
def beats (s : Scene) (i j : Nat) : Bool :=
  decide ((obj s i).x < (obj s j).x) || (decide ((obj s i).x = (obj s j).x) && decide (i < j))

/-- the candidate with the highest priority -/
def best (s : Scene) : List Nat → Option Nat
  | [] => none
  | i :: rest =>
    match best s rest with
    | none => some i
    | some j => if beats s j i then some j else some i

/-- the object whose pixel is visible at (x,y) before the background-priority rule, if any -/
def topObject (s : Scene) (x y : Nat) : Option Nat :=
  best s ((lineObjects s y).filter fun i => inColumns (obj s i) x && objColour s (obj s i) x y != 0)

/-- palette register `pal` maps colour number c to a shade -/
def shade (pal c : Nat) : Nat := (pal >>> (2 * c)) % 4

/-- shade (0 white … 3 black) of screen pixel (x,y), x < 160, y < 144 -/
def dmgPixel (s : Scene) (x y : Nat) : Nat :=
  let c := bgWinColour s x y
  let under := if lcdcBit s 0 then shade s.bgp.val c else 0
  match (if lcdcBit s 1 then topObject s x y else none) with
  | none => under
  | some i =>
    let o := obj s i
    if o.attr.testBit 7 ∧ c ≠ 0 then under
    else shade (if o.attr.testBit 4 then s.obp1.val else s.obp0.val) (objColour s o x y)

/-! ### the scene restrictions named by property C15, per screen line -/

/-- at most ten objects meet line y -/
def atMostTen (s : Scene) (y : Nat) : Prop :=
  ((List.range 40).filter fun i => onLine s (obj s i) y).length ≤ 10

/-- the objects that meet line y appear in OAM in non-decreasing X order -/
def orderedByX (s : Scene) (y : Nat) : Prop :=
  ∀ i j, i < j → j < 40 → onLine s (obj s i) y = true → onLine s (obj s j) y = true → (obj s i).x ≤ (obj s j).x

/-- LCD on, background on, 8x8 objects, window off or at WX ≥ 7 (WX > 166 simply hides it) -/
def regsInProperty (s : Scene) : Prop :=
  lcdcBit s 7 = true ∧ lcdcBit s 0 = true ∧ lcdcBit s 2 = false ∧ (lcdcBit s 5 = true → 7 ≤ s.wx.val)

instance (s : Scene) (y : Nat) : Decidable (atMostTen s y) := by unfold atMostTen; infer_instance
instance (s : Scene) : Decidable (regsInProperty s) := by unfold regsInProperty; infer_instance

/-- executable form of `orderedByX` (used by the driver; equivalence proved in Proofs/C15) -/
def orderedByXb (s : Scene) (y : Nat) : Bool :=
  (List.range 40).all fun j => (List.range j).all fun i =>
    !(onLine s (obj s i) y && onLine s (obj s j) y) || decide ((obj s i).x ≤ (obj s j).x)

end Tetro.Spec.Render
