/-
Documentation-shaped specification of the DMG joypad register (Pan Docs "Joypad Input"),
written independently of the code's representation: a set of held keys and the last
written select bits.
-/
namespace Tetro.Spec.Joyp

/-- the eight keys, numbered as in the emulator's API: Up Down Left Right A B Start Select -/
structure Held where
  up : Bool
  down : Bool
  left : Bool
  right : Bool
  a : Bool
  b : Bool
  start : Bool
  select : Bool
deriving DecidableEq, Repr

structure St where
  held : Held
  sel  : BitVec 8          -- last value written to JOYP
deriving DecidableEq, Repr

def init : St := { held := ⟨false, false, false, false, false, false, false, false⟩, sel := 0x0f }

def write (s : St) (v : BitVec 8) : St := { s with sel := v }

/-- pressing a direction releases its opposite -/
def press (h : Held) : Nat → Held
  | 0 => { h with up := true, down := false }
  | 1 => { h with down := true, up := false }
  | 2 => { h with left := true, right := false }
  | 3 => { h with right := true, left := false }
  | 4 => { h with a := true }
  | 5 => { h with b := true }
  | 6 => { h with start := true }
  | 7 => { h with select := true }
  | _ => h

def release (h : Held) : Nat → Held
  | 0 => { h with up := false }
  | 1 => { h with down := false }
  | 2 => { h with left := false }
  | 3 => { h with right := false }
  | 4 => { h with a := false }
  | 5 => { h with b := false }
  | 6 => { h with start := false }
  | 7 => { h with select := false }
  | _ => h

def button (s : St) (b : Nat) (pressed : Bool) : St :=
  { s with held := if pressed then press s.held b else release s.held b }

/-- line k of the low nibble reads 0 exactly when a held key of a selected group pulls it low:
    bit0 Right/A, bit1 Left/B, bit2 Up/Select, bit3 Down/Start -/
def lineLow (s : St) (k : Nat) : Bool :=
  let dirSel := s.sel.getLsbD 4 == false
  let btnSel := s.sel.getLsbD 5 == false
  match k with
  | 0 => (dirSel && s.held.right) || (btnSel && s.held.a)
  | 1 => (dirSel && s.held.left)  || (btnSel && s.held.b)
  | 2 => (dirSel && s.held.up)    || (btnSel && s.held.select)
  | 3 => (dirSel && s.held.down)  || (btnSel && s.held.start)
  | _ => false

/-- the value a read of JOYP returns: bits 6-7 one, bits 4-5 as written, bits 0-3 per `lineLow` -/
def read (s : St) : BitVec 8 :=
  BitVec.ofBoolListLE
    [!lineLow s 0, !lineLow s 1, !lineLow s 2, !lineLow s 3, s.sel.getLsbD 4, s.sel.getLsbD 5, true, true]

end Tetro.Spec.Joyp
