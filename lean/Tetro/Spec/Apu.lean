/-
Documentation-shaped specification of the DMG sound hardware as far as properties C18–C21 speak
about it (Pan Docs "Audio Registers" / "Audio details", gbdev wiki "Gameboy sound hardware").
Independent of the code model: registers are an abstract map from bus address to the last
written byte; channels are per-channel status/length machines driven by EVENTS; the mixer is a
sum over a list of channels; waveform periods are closed formulas.
-/
namespace Tetro.Spec.Apu

/-! ## C18 – register file -/

/-- DMG read-back OR-masks of the 20 sound registers NR10–NR51, by bus address -/
def maskTable : List (Nat × Nat) :=
  [(0xFF10, 0x80), (0xFF11, 0x3F), (0xFF12, 0x00), (0xFF13, 0xFF), (0xFF14, 0xBF),
   (0xFF16, 0x3F), (0xFF17, 0x00), (0xFF18, 0xFF), (0xFF19, 0xBF),
   (0xFF1A, 0x7F), (0xFF1B, 0xFF), (0xFF1C, 0x9F), (0xFF1D, 0xFF), (0xFF1E, 0xBF),
   (0xFF20, 0xFF), (0xFF21, 0x00), (0xFF22, 0x00), (0xFF23, 0xBF),
   (0xFF24, 0x00), (0xFF25, 0x00)]

def mask (addr : Nat) : Option Nat := maskTable.lookup addr

def NR52 : Nat := 0xFF26

/-- abstract register file: power flag and, for every register, the byte last written to it
    since sound was last powered off (0 if none: power-off clears the registers) -/
structure Regs where
  on : Bool
  val : Nat → Nat

/-- sound powered on, registers cleared -/
def Regs.init : Regs := ⟨true, fun _ => 0⟩

/-- a bus write: NR52 bit 7 switches power (off clears every register); while on a write to one of
    the 20 registers is remembered; while off it is ignored -/
def Regs.write (r : Regs) (addr v : Nat) : Regs :=
  if addr = NR52 then
    (if v % 256 < 128 then ⟨false, fun _ => 0⟩ else ⟨true, r.val⟩)
  else if r.on = true ∧ (mask addr).isSome = true then
    ⟨r.on, fun x => if x = addr then v % 256 else r.val x⟩
  else r

/-- a register reads as the last written value ORed with its mask -/
def Regs.read (r : Regs) (addr : Nat) : Option Nat := (mask addr).map (fun m => r.val addr ||| m)

/-- NR52 reads 0x70, the power bit and the four channel status bits -/
def nr52Value (on s1 s2 s3 s4 : Bool) : Nat :=
  0x70 ||| (if on then 0x80 else 0) ||| (if s4 then 8 else 0) ||| (if s3 then 4 else 0) |||
  (if s2 then 2 else 0) ||| (if s1 then 1 else 0)

/-! ## C21 – waveform frequencies (closed formulas of the documentation) -/

/-- channels 1/2: one duty step every 4·(2048−f) clocks -/
def squarePeriod (f : Nat) : Nat := 4 * (2048 - f)
/-- channel 3: one wave sample every 2·(2048−f) clocks -/
def wavePeriod (f : Nat) : Nat := 2 * (2048 - f)
/-- channel 4 divisor table: d = 8, 16, 32, 48, 64, 80, 96, 112 for r = 0–7 -/
def noiseDivisor (r : Nat) : Nat := [8, 16, 32, 48, 64, 80, 96, 112].getD r 0
/-- channel 4: the LFSR is clocked every d(r)·2^s clocks -/
def noisePeriod (r s : Nat) : Nat := noiseDivisor r * 2 ^ s

/-- the 15-bit noise generator: shift right, the XOR of the old bits 0 and 1 enters at bit 14 -/
def lfsr15 (x : Nat) : Nat := x / 2 + 16384 * ((x % 2 + x / 2 % 2) % 2)
/-- the 7-bit noise generator (NR43 bit 3): the same on 7 bits, the XOR enters at bit 6 -/
def lfsr7 (x : Nat) : Nat := x / 2 + 64 * ((x % 2 + x / 2 % 2) % 2)

/-! ## C20 – mixer and sample pacing -/

/-- a channel as one side of the mixer sees it: routed to this side by NR51, channel on, and the
    channel's DAC input as a numerator over 120 (square/noise: 15·bit·volume, wave: 8·sample) -/
structure MixIn where
  routed : Bool
  on : Bool
  num : Nat

/-- one output sample = `sideNum / 19200`: the routed, enabled channels are summed, divided by 4,
    scaled by (master volume)/8 and by the fixed factor 0.6 = 3/5  (120·4·8·5 = 19200) -/
def sideNum (chs : List MixIn) (vol : Nat) : Nat :=
  3 * ((chs.filter (fun c => c.routed && c.on)).map (fun c => c.num)).sum * vol

def sampleDen : Nat := 19200
/-- the largest numerator: three 4-bit-volume channels at 15·15, the wave at 8·15, master volume 7 -/
def maxNum : Nat := 3 * (225 + 225 + 120 + 225) * 7

/-- one sample for every 95 clocks: number of multiples of 95 among the clock-counter values
    t, t+1, …, t+n−1 -/
def samplesIn (t n : Nat) : Nat := (t + n + 94) / 95 - (t + 94) / 95

/-! ## C19 – channel status and length counters -/

/-- a length clock happens every 16384 clocks (256 Hz): the frame sequencer steps every 8192
    clocks and clocks the length counters on its even steps -/
def lenClockPeriod : Nat := 16384
def frameStepPeriod : Nat := 8192

/-- number of length clocks a channel loaded with length data `t` stays on; M = 64 (256 for channel 3) -/
def lengthClocksFor (M t : Nat) : Nat := M - t % M

/-- the documented per-channel status / length machine -/
structure Len where
  on : Bool        -- NR52 status bit
  enable : Bool    -- NRx4 bit 6
  count : Nat      -- remaining length clocks
deriving DecidableEq, Repr

/-- one length clock: an enabled, non-zero counter is decremented; reaching zero switches the channel off -/
def Len.clock (l : Len) : Len :=
  if l.enable = true ∧ l.count > 0 then ⟨l.on && decide (l.count ≠ 1), l.enable, l.count - 1⟩ else l

/-- k length clocks -/
def Len.clocks : Nat → Len → Len
  | 0, l => l
  | k + 1, l => Len.clocks k l.clock

/-- NRx4 write, documented: the extra length clock when length becomes enabled in the first half of
    a frame-sequencer period (the next step does not clock length) – it can switch the channel off
    unless the same write triggers; a trigger reloads an EXPIRED counter with M, less the extra clock
    again if length is enabled in the first half; the status bit after a trigger is the DAC state
    `dacOk` (for channel 1 together with "the sweep calculation did not overflow") -/
def Len.writeNRx4 (M : Nat) (l : Len) (le trig firstHalf dacOk : Bool) : Len :=
  let extra := !l.enable && le && decide (l.count > 0) && firstHalf
  let c1 := if extra then l.count - 1 else l.count
  let on1 := if extra then l.on && !(decide (c1 = 0) && !trig) else l.on
  if trig then ⟨dacOk, le, if c1 = 0 then (if le && firstHalf then M - 1 else M) else c1⟩
  else ⟨on1, le, c1⟩

/-- the corner the documentation and the property text leave open (DESIGN §8): a trigger in the first
    half with length ALREADY enabled and the counter exactly full -/
def Len.fullRetrigger (M : Nat) (l : Len) (le trig firstHalf : Bool) : Prop :=
  trig = true ∧ le = true ∧ firstHalf = true ∧ l.enable = true ∧ l.count = M

end Tetro.Spec.Apu
