import Tetro.Spec.Isa
/-
Instruction-level execution of the ISA spec (fetch, decode, execute, EI delay, halt bug) and the
abstraction from the model's state to the architectural state.
-/
namespace Tetro.Spec.Isa
open Tetro.Model.Cpu (Byte Word Flat Regs)

/-- architectural view of a model state (scratch registers u8a/u8b/m8a/m8b are not architectural) -/
def abs (r : Regs) (m : Flat) : St :=
  { a := r.a, b := r.b, c := r.c, d := r.d, e := r.e, h := r.h, l := r.l,
    zf := r.zf, nf := r.nf, hf := r.hf, cf := r.cf, sp := r.sp, pc := r.pc,
    halted := r.halted, haltbug := r.haltbug, stopped := r.stopped, eiPending := r.eiPending, bus := m }

/-- one instruction at an instruction boundary when no interrupt is dispatched and the CPU is running:
    a pending EI takes effect, the opcode is fetched (without advancing PC under the halt bug),
    decoded and executed.  `none` = one of the 11 undefined opcodes. -/
def stepInstr (s : St) : Option St :=
  let s0 := if s.eiPending then { s with eiPending := false, bus := { s.bus with ime := true } } else s
  let op := s0.rd s0.pc
  if op = 0xcb then
    let op2 := s0.rd (s0.pc + 1)
    some (exec (decodeCB op2.toNat) { s0 with pc := if s0.haltbug then s0.pc + 1 else s0.pc + 2, haltbug := false })
  else
    match decode op.toNat with
    | some i => some (exec i { s0 with pc := if s0.haltbug then s0.pc else s0.pc + 1, haltbug := false })
    | none => none

def St.same (x y : St) : Bool :=
  x.a == y.a && x.b == y.b && x.c == y.c && x.d == y.d && x.e == y.e && x.h == y.h && x.l == y.l &&
  x.zf == y.zf && x.nf == y.nf && x.hf == y.hf && x.cf == y.cf && x.sp == y.sp && x.pc == y.pc &&
  x.halted == y.halted && x.haltbug == y.haltbug && x.stopped == y.stopped && x.eiPending == y.eiPending &&
  x.bus.ime == y.bus.ime && x.bus.ie == y.bus.ie && x.bus.ifl == y.bus.ifl

end Tetro.Spec.Isa
