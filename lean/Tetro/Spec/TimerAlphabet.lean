/-
Vocabulary shared by the timer model and the timer specification: what a guest can write in one
machine cycle and what it can observe afterwards (core Lean only).
-/
namespace Tetro.Timer

/-- a write to one of the four timer registers (values are bytes; DIV ignores the value) -/
inductive Write where
  | div
  | tima (v : Nat)
  | tma (v : Nat)
  | tac (v : Nat)
deriving DecidableEq, Repr

/-- free alphabet: single events in any order (a harness can do several writes per cycle) -/
inductive Call where
  | tick
  | write (w : Write)
deriving DecidableEq, Repr

/-- the four registers as read in the next machine cycle, and the interrupt request of this one -/
structure Obs where
  div  : Nat
  tima : Nat
  tma  : Nat
  tac  : Nat
  irq  : Bool
deriving DecidableEq, Repr

end Tetro.Timer
