import Tetro.Model.Decoder
/-
Documentation-shaped DMG memory map (Pan Docs "Memory Map", "I/O Ranges"): which unit answers at each
address, written by REGION and by register table rather than as an ordered case list.
-/
namespace Tetro.Spec.MemMap
open Tetro.Model.Decoder (H)

/-- the hardware registers of a DMG that the emulator implements -/
def ioRegs : List (Nat × H) := [
  (0xff00, .joyp), (0xff01, .sb), (0xff02, .sc),
  (0xff04, .div), (0xff05, .tima), (0xff06, .tma), (0xff07, .tac), (0xff0f, .ifl),
  (0xff10, .nr10), (0xff11, .nr11), (0xff12, .nr12), (0xff13, .nr13), (0xff14, .nr14),
  (0xff16, .nr21), (0xff17, .nr22), (0xff18, .nr23), (0xff19, .nr24),
  (0xff1a, .nr30), (0xff1b, .nr31), (0xff1c, .nr32), (0xff1d, .nr33), (0xff1e, .nr34),
  (0xff20, .nr41), (0xff21, .nr42), (0xff22, .nr43), (0xff23, .nr44),
  (0xff24, .nr50), (0xff25, .nr51), (0xff26, .nr52),
  (0xff40, .lcdc), (0xff41, .stat), (0xff42, .scy), (0xff43, .scx), (0xff44, .ly), (0xff45, .lyc),
  (0xff46, .dma), (0xff47, .bgp), (0xff48, .obp0), (0xff49, .obp1), (0xff4a, .wy), (0xff4b, .wx)]

/-- the unit answering an access; `unmapped` stands for "reads FF / write ignored" -/
def regionOf (unmapped : H) (a : Nat) : H :=
  if a < 0x8000 then .mbc                         -- cartridge ROM / control registers
  else if a < 0xa000 then .vram
  else if a < 0xc000 then .mbc                    -- cartridge RAM
  else if a < 0xe000 then .wram
  else if a < 0xfe00 then .echo                   -- mirror of C000-DDFF
  else if a < 0xff00 then .oam                    -- OAM and the unusable area FEA0-FEFF
  else if a < 0xff80 then
    (if 0xff30 ≤ a ∧ a < 0xff40 then .wave
     else match ioRegs.find? (·.1 == a) with
       | some r => r.2
       | none => unmapped)
  else if a < 0xffff then .hram
  else if a = 0xffff then .ie
  else .panic

end Tetro.Spec.MemMap
