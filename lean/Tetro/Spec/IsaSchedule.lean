import Tetro.Spec.IsaRun
/-
The documented per-machine-cycle schedule of every instruction (Pan Docs / gbops timing, mooneye
"instruction timing" notes): which cycle fetches operands, which cycle performs each data access.
Expressed with the model's micro-operation vocabulary so that it can be compared with the tables
regenerated from dispatch.go (`c01_tables`) and executed (`c01_instr_effect`).  Cycle 1 of every
instruction overlaps the opcode fetch, so an instruction whose first documented action is a memory
access or an operand fetch that needs the opcode first starts with an idle cycle (`nop`).
-/
namespace Tetro.Spec.Isa
open Tetro.Model.Cpu (MicroOp R8 R16 Cond Tables)

def regOf : Reg → R8
  | .a => .a | .b => .b | .c => .c | .d => .d | .e => .e | .h => .h | .l => .l
def rpM : Rp → R16
  | .bc => .bc | .de => .de | .hl => .hl | .sp => .sp
def aluM : Alu → Tetro.Model.Cpu.AluOp
  | .add => .add | .adc => .adc | .sub => .sub | .sbc => .sbc | .and => .and | .xor => .xor | .or => .or | .cp => .cp
def rotM : Rot → Tetro.Model.Cpu.RotOp
  | .rlc => .rlc | .rrc => .rrc | .rl => .rl | .rr => .rr | .sla => .sla | .sra => .sra | .swap => .swap | .srl => .srl

def micro : Instr → List MicroOp
  | .nop => [.nop] | .stop => [.stop] | .halt => [.halt] | .di => [.di] | .ei => [.ei]
  | .ld (.r d) (.r s) =>
    if d = s then (if d = .b then [.mooneye] else [.nop]) else [.ld8 (regOf d) (regOf s)]
  | .ld (.r d) .hlm => [.nop, .ldRM (regOf d)]
  | .ld .hlm (.r s) => [.nop, .ldMR (regOf s)]
  | .ld .hlm .hlm => [.halt]
  | .ldN (.r d) => [.readParamA, .ld8 (regOf d) .u8a]
  | .ldN .hlm => [.readParamA, .nop, .ldMR .u8a]
  | .ldRpNN rp => [.readParamA, .readParamB, .ld16 (rpM rp)]
  | .ldNNSP => [.readParamA, .readParamB, .nop, .writeLowSP, .writeHighSP]
  | .ldSPHL => [.nop, .ldSPHL]
  | .ldHLSPe => [.readParamA, .nop, .ldHLSP]
  | .addSPe => [.nop, .readParamA, .addSP, .nop]
  | .ldAInd .bc => [.nop, .loadA .bc] | .ldAInd .de => [.nop, .loadA .de]
  | .ldAInd .hli => [.nop, .loadAHLI] | .ldAInd .hld => [.nop, .loadAHLD]
  | .ldAInd .ff00n => [.readParamA, .nop, .loadA .ff00u] | .ldAInd .ff00c => [.nop, .loadA .ff00c]
  | .ldAInd .nn => [.readParamA, .readParamB, .nop, .loadA .u16]
  | .ldIndA .bc => [.nop, .storeA .bc] | .ldIndA .de => [.nop, .storeA .de]
  | .ldIndA .hli => [.nop, .storeAHLI] | .ldIndA .hld => [.nop, .storeAHLD]
  | .ldIndA .ff00n => [.readParamA, .nop, .storeA .ff00u] | .ldIndA .ff00c => [.nop, .storeA .ff00c]
  | .ldIndA .nn => [.readParamA, .readParamB, .nop, .storeA .u16]
  | .push .bc => [.nop, .nop, .push .b, .push .c] | .push .de => [.nop, .nop, .push .d, .push .e]
  | .push .hl => [.nop, .nop, .push .h, .push .l] | .push .af => [.nop, .nop, .push .a, .push .f]
  | .pop .bc => [.nop, .pop .c, .pop .b] | .pop .de => [.nop, .pop .e, .pop .d]
  | .pop .hl => [.nop, .pop .l, .pop .h] | .pop .af => [.nop, .popF, .pop .a]
  | .alu op (.r s) => [.alu (aluM op) (.r (regOf s))]
  | .alu op .hlm => [.nop, .alu (aluM op) .m]
  | .aluN op => [.readParamA, .alu (aluM op) .u]
  | .inc (.r r) => [.inc8 (regOf r)] | .inc .hlm => [.nop, .ldRM .m8a, .incM]
  | .dec (.r r) => [.dec8 (regOf r)] | .dec .hlm => [.nop, .ldRM .m8a, .decM]
  | .inc16 rp => [.nop, .inc16 (rpM rp)] | .dec16 rp => [.nop, .dec16 (rpM rp)]
  | .addHL rp => [.nop, .addHL (rpM rp)]
  | .rlca => [.rlca] | .rrca => [.rrca] | .rla => [.rla] | .rra => [.rra]
  | .daa => [.daa] | .cpl => [.cpl] | .scf => [.scf] | .ccf => [.ccf]
  | .jp => [.nop, .readParamA, .readParamB, .jp] | .jpCC _ => [.nop, .readParamA, .readParamB, .jp]
  | .jpHL => [.jpHL]
  | .jr => [.nop, .readParamA, .jr] | .jrCC _ => [.nop, .readParamA, .jr]
  | .call => [.nop, .readParamA, .readParamB, .call, .push .m8b, .push .m8a]
  | .callCC _ => [.nop, .readParamA, .readParamB, .call, .push .m8b, .push .m8a]
  | .ret => [.nop, .pop .m8a, .pop .m8b, .ret]
  | .retCC _ => [.nop, .nop, .pop .m8a, .pop .m8b, .ret]
  | .reti => [.nop, .pop .m8a, .pop .m8b, .reti]
  | .rst t => [.nop, .rst t, .push .m8b, .push .m8a]
  | .rot op (.r r) => [.nop, .rot (rotM op) (regOf r)]
  | .rot op .hlm => [.nop, .nop, .ldRM .m8a, .rotM (rotM op)]
  | .bit n (.r r) => [.nop, .bit n (regOf r)] | .bit n .hlm => [.nop, .nop, .bitM n]
  | .res n (.r r) => [.nop, .res n (regOf r)] | .res n .hlm => [.nop, .nop, .ldRM .m8a, .resM n]
  | .set n (.r r) => [.nop, .set n (regOf r)] | .set n .hlm => [.nop, .nop, .ldRM .m8a, .setM n]

/-- flag test that makes a conditional instruction END EARLY (the condition is NOT met) -/
def notMet : CC → Cond
  | .nz => .zf | .z => .nzf | .nc => .cf | .c => .ncf

/-- (test, cycle count when not taken, cycle count when taken) of the conditional instructions -/
def earlyOf : Instr → Option (Cond × Nat × Nat)
  | .jrCC cc => some (notMet cc, 2, 3)
  | .jpCC cc => some (notMet cc, 3, 4)
  | .callCC cc => some (notMet cc, 3, 6)
  | .retCC cc => some (notMet cc, 2, 5)
  | _ => none

/-- the dispatch tables a faithful implementation of the documented schedule has -/
def specTables : Tables :=
  { normal := (List.range 256).map fun op => match decode op with | some i => micro i | none => [.fatal]
    prefixed := (List.range 256).map fun op => micro (decodeCB op)
    early := (List.range 256).filterMap fun op =>
      match decode op with
      | some i => (earlyOf i).map fun e => (op, e)
      | none => none
    veryShort := [.handleInterrupt]
    short := [.nop, .nop, .nop, .nop, .handleInterrupt]
    long := [.nop, .nop, .nop, .nop, .nop, .handleInterrupt] }

end Tetro.Spec.Isa
