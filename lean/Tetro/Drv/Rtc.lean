import Tetro.DriverUtil
import Tetro.Model.Cart
/- driver mode `rtc`: see go/harness/rtc.go for the protocol.
   reset | set s m h d carry halt ticks | tick n | inc | w <addr> <val> | r <addr> | get -/
namespace Tetro.Drv.Rtc
open Tetro.Drv Tetro.Model Tetro.Model.Cart

def modeName : String := "rtc"

/-- the 32 KiB MBC3+TIMER+RAM+BATT image of `reset` (contents irrelevant to this mode) -/
def image : Image :=
  { len := 0x8000,
    byte := fun i => if i = 0x147 then 0x10 else if i = 0x148 then 0x00 else if i = 0x149 then 0x03 else 0 }

def imageOf (typ ramSize : Nat) : Image :=
  { len := 0x8000,
    byte := fun i => if i = 0x147 then typ else if i = 0x148 then 0x00 else if i = 0x149 then ramSize else 0 }

def freshOf (img : Image) : Option Mbc :=
  match construct img with
  | some c => busWrite c 0x0000 0x0a
  | none => none

def fresh : Option Mbc := freshOf image

def getStr (r : Rtc.St) : String :=
  hexN 2 r.s ++ " " ++ hexN 2 r.m ++ " " ++ hexN 2 r.h ++ " " ++ hexN 4 r.d ++ " " ++ b01 r.carry ++ " " ++
    b01 r.halt ++ " " ++ toString r.ticks

def clock : Option Mbc → Option Rtc.St
  | some (.mbc3 m) => some m.rtc
  | _ => none

def withClock (s : Option Mbc) (f : Rtc.St → Rtc.St) : Option Mbc :=
  match s with
  | some (.mbc3 m) => some (.mbc3 { m with rtc := f m.rtc })
  | _ => s

def tickN : Nat → Mbc → Mbc
  | 0, c => c
  | n + 1, c => tickN n c.tick

def get (s : Option Mbc) : String :=
  match clock s with
  | some r => getStr r
  | none => "nocart"

def step (s : Option Mbc) (w : List String) : Option Mbc × String :=
  match w with
  | ["reset"] => (fresh, match fresh with | some _ => "ok" | none => "fail")
  | ["reset", t, ras] => match parseHex t, parseHex ras with
      | some t, some ras =>
        let f := freshOf (imageOf t ras)
        (f, match f with | some _ => "ok" | none => "fail")
      | _, _ => (s, "bad-op")
  | ["set", a, b, c, d, e, f, g] =>
    match a.toNat?, b.toNat?, c.toNat?, d.toNat?, e.toNat?, f.toNat?, g.toNat? with
    | some a, some b, some c, some d, some e, some f, some g =>
      let s' := withClock s fun r =>
        { r with s := a % 256, m := b % 256, h := c % 256, d := d % 65536, carry := e != 0, halt := f != 0, ticks := g }
      (s', get s')
    | _, _, _, _, _, _, _ => (s, "bad-op")
  | ["tick", n] => match n.toNat?, s with
    | some n, some c => let s' := some (tickN n c); (s', get s')
    | _, _ => (s, "bad-op")
  | ["inc"] => let s' := withClock s Rtc.increment; (s', get s')
  | ["get"] => (s, get s)
  | ["w", a, v] => match parseHex a, parseHex v, s with
    | some a, some v, some c =>
      (match busWrite c (a % 65536) (v % 256) with
       | some c' => (some c', "ok")
       | none => (s, "crash"))
    | _, _, _ => (s, "bad-op")
  | ["r", a] => match parseHex a, s with
    | some a, some c =>
      (match busRead c (a % 65536) with
       | some v => (s, hexN 2 v)
       | none => (s, "crash"))
    | _, _ => (s, "bad-op")
  | _ => (s, "bad-op")

def run (lines : Array String) : IO Unit := runMode lines 1 fresh step

end Tetro.Drv.Rtc
