import Tetro.DriverUtil
import Tetro.Model.Oam
/- driver mode `oam`: one `oam.OAM` object driven through its exported API.

ops (all numbers lowercase hex):
  reset                 o := New()
  set <320 hex chars>   VerifSetOAM
  fill <seed>           VerifSetOAM with the 160 bytes of `fillBytes seed` (LCG below)
  r <addr4>             Read          → value
  w <addr4> <val2>      Write
  pr <addr4>            PPURead       → value
  trig <addr4>          TriggerWriteCorruption
  cor                   Corrupt
  enter | exit          EnterMode2 | ExitMode2
  dma <val2>            WriteDMA
  rdma                  ReadDMA       → value
  tick <seed>           TickDMA(read) with read(a) = `srcByte seed a`
  dump                  → the 160 OAM bytes

output line:  <value | ok | 320 hex chars | crash> ; <dmaRunning> <dmaCycle4> <corrupt><read><write><doubleWrite> <checksum4>
A call that panics prints `crash`; a panic ends the machine, so both sides continue with a fresh
`New()` object after it. -/
namespace Tetro.Drv.Oam
open Tetro.Drv Tetro.Model

def modeName : String := "oam"

/-- 160 pseudo-random bytes: x ← (x·1103515245 + 12345) mod 2^31, byte = bits 16..23 -/
def fillBytes (seed : Nat) : Oam.Mem :=
  let rec go : Nat → Nat → Array Oam.Byte → Array Oam.Byte
    | 0, _, acc => acc
    | n + 1, x, acc =>
      let x' := (x * 1103515245 + 12345) % 2147483648
      go n x' (acc.push (BitVec.ofNat 8 (x' >>> 16)))
  let a := go 160 (seed % 2147483648) #[]
  Vector.ofFn fun (i : Fin 160) => a.getD i.val 0

/-- the byte the synthetic bus of seed `seed` returns for address `a` -/
def srcByte (seed : Nat) (a : Oam.Addr) : Oam.Byte :=
  BitVec.ofNat 8 ((((seed + 1) * 0x9E3779B1 + a.toNat * 0x85EBCA6B) % 4294967296) >>> 24)

def checksum (m : Oam.Mem) : Nat :=
  (Nat.fold 160 (fun i h acc => acc + (i + 1) * (m[i]'h).toNat) 0) % 65536

def flags (s : Oam.Oam) : String :=
  b01 s.dmaRunning ++ " " ++ hex4 s.dmaCycle ++ " " ++ b01 s.corrupt ++ b01 s.read ++ b01 s.write ++
    b01 s.doubleWrite ++ " " ++ hexN 4 (checksum s.oam)

def dumpHex (m : Oam.Mem) : String :=
  Nat.fold 160 (fun i h acc => acc ++ hex2 (m[i]'h)) ""

def parseBytes (s : String) : Option Oam.Mem :=
  if s.length ≠ 320 then none else
  let cs := s.toList.toArray
  let vals := (List.range 160).map fun i =>
    match hexVal (cs.getD (2 * i) '0'), hexVal (cs.getD (2 * i + 1) '0') with
    | some h, some l => some (BitVec.ofNat 8 (h * 16 + l))
    | _, _ => none
  if vals.all Option.isSome then
    let a := vals.toArray
    some (Vector.ofFn fun (i : Fin 160) => (a.getD i.val none).getD 0)
  else none

def ok (s : Oam.Oam) (o : String) : Oam.Oam × String := (s, o ++ " ; " ++ flags s)
def crash : Oam.Oam × String := (Oam.init, "crash")

def fin (r : Option Oam.Oam) : Oam.Oam × String :=
  match r with
  | some s => ok s "ok"
  | none => crash

def finV (r : Option (Oam.Oam × Oam.Byte)) : Oam.Oam × String :=
  match r with
  | some p => ok p.1 (hex2 p.2)
  | none => crash

def addr? (w : String) : Option Oam.Addr :=
  if w.length = 4 then (parseHex w).map (BitVec.ofNat 16) else none
def byte? (w : String) : Option Oam.Byte :=
  if w.length = 2 then (parseHex w).map (BitVec.ofNat 8) else none

def step (s : Oam.Oam) (w : List String) : Oam.Oam × String :=
  match w with
  | ["reset"] => ok Oam.init "ok"
  | ["set", h] => match parseBytes h with
      | some m => ok { s with oam := m } "ok"
      | none => (s, "bad-op")
  | ["fill", sd] => match parseHex sd with
      | some n => ok { s with oam := fillBytes n } "ok"
      | none => (s, "bad-op")
  | ["r", a] => match addr? a with
      | some a => finV (Oam.cpuRead s a)
      | none => (s, "bad-op")
  | ["w", a, v] => match addr? a, byte? v with
      | some a, some v => fin (Oam.cpuWrite s a v)
      | _, _ => (s, "bad-op")
  | ["pr", a] => match addr? a with
      | some a => finV (Oam.ppuRead s a)
      | none => (s, "bad-op")
  | ["trig", a] => match addr? a with
      | some a => fin (some (Oam.triggerWriteCorruption s a))
      | none => (s, "bad-op")
  | ["cor"] => fin (Oam.corruptStep s)
  | ["enter"] => fin (some (Oam.enterMode2 s))
  | ["exit"] => fin (some (Oam.exitMode2 s))
  | ["dma", v] => match byte? v with
      | some v => fin (some (Oam.writeDMA s v))
      | none => (s, "bad-op")
  | ["rdma"] => ok s (hex2 (Oam.readDMA s))
  | ["tick", sd] => match parseHex sd with
      | some n => fin (Oam.tickDMA s (srcByte n))
      | none => (s, "bad-op")
  | ["dump"] => ok s (dumpHex s.oam)
  | _ => (s, "bad-op")

def run (lines : Array String) : IO Unit := runMode lines 1 Oam.init step

end Tetro.Drv.Oam
