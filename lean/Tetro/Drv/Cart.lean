import Tetro.DriverUtil
import Tetro.Model.Cart
/- driver mode `cart`: see go/harness/cart.go for the protocol.
   reset <type> <romsize> <ramsize> [<len>] | w <addr> <val> | r <addr> | win | dump -/
namespace Tetro.Drv.Cart
open Tetro.Drv Tetro.Model Tetro.Model.Cart

def modeName : String := "cart"

/-- the byte both sides place at offset `o` of page `b` -/
def sig (b o : Nat) : Nat :=
  ((b % 256) * 7 + (b / 256) * (o % 5) * 17 + o * 13 + (o / 256) * 5 + 1) % 256

/-- the synthetic image of `reset` -/
def image (typ romSize ramSize len : Nat) : Image :=
  { len := len,
    byte := fun i =>
      if i = 0x147 then typ else if i = 0x148 then romSize else if i = 0x149 then ramSize
      else sig (i / 0x4000) (i % 0x4000) }

def fnv1a (data : List Nat) : UInt32 :=
  data.foldl (fun h b => (h ^^^ UInt32.ofNat b) * 16777619) 2166136261

def rd (c : Mbc) (a : Nat) : String :=
  match busRead c a with
  | some v => hexN 2 v
  | none => "crash"

def winAddrs : List Nat := [0x0000, 0x0001, 0x3fff, 0x4000, 0x4001, 0x7fff, 0xa000, 0xa001, 0xbfff]

/-- the same image with the pages from `erase` on erased (all FF) -/
def imageErased (typ romSize ramSize len erase : Nat) : Image :=
  { len := len,
    byte := fun i =>
      if i = 0x147 then (if erase = 0 then 0xff else typ) else if i = 0x148 then (if erase = 0 then 0xff else romSize)
      else if i = 0x149 then (if erase = 0 then 0xff else ramSize)
      else if i / 0x4000 ≥ erase then 0xff else sig (i / 0x4000) (i % 0x4000) }

/-- ... and, if `dup`, with every page repeating the header area 0104–0133 of page 0 -/
def imageVariant (typ romSize ramSize len erase : Nat) (dup : Bool) : Image :=
  let base := imageErased typ romSize ramSize len erase
  if !dup then base else
  { len := len,
    byte := fun i =>
      if i ≥ 0x4000 ∧ 0x104 ≤ i % 0x4000 ∧ i % 0x4000 < 0x134 ∧ (i / 0x4000) * 0x4000 + 0x134 ≤ len then base.byte (i % 0x4000)
      else base.byte i }

def doResetImg (img : Image) : Option Mbc × String :=
  match construct img with
  | some c => (some c, "ok")
  | none => (none, "fail")

def doReset (typ romSize ramSize len : Nat) : Option Mbc × String := doResetImg (image typ romSize ramSize len)

def step (s : Option Mbc) (w : List String) : Option Mbc × String :=
  match w with
  | ["reset", t, rs, ras] => match parseHex t, parseHex rs, parseHex ras with
      | some t, some rs, some ras => doReset t rs ras (0x4000 * (2 <<< rs))
      | _, _, _ => (s, "bad-op")
  | ["reset", t, rs, ras, len] => match parseHex t, parseHex rs, parseHex ras, parseHex len with
      | some t, some rs, some ras, some len => doReset t rs ras len
      | _, _, _, _ => (s, "bad-op")
  | ["reset", t, rs, ras, len, er] => match parseHex t, parseHex rs, parseHex ras, parseHex len, parseHex er with
      | some t, some rs, some ras, some len, some er => doResetImg (imageErased t rs ras len er)
      | _, _, _, _, _ => (s, "bad-op")
  | ["reset", t, rs, ras, len, er, dup] => match parseHex t, parseHex rs, parseHex ras, parseHex len, parseHex er with
      | some t, some rs, some ras, some len, some er => doResetImg (imageVariant t rs ras len er (dup == "1"))
      | _, _, _, _, _ => (s, "bad-op")
  | _ =>
    match s with
    | none => (s, "nocart")
    | some c =>
      match w with
      | ["w", a, v] => match parseHex a, parseHex v with
          | some a, some v =>
            (match busWrite c (a % 65536) (v % 256) with
             | some c' => (some c', "ok")
             | none => (s, "crash"))
          | _, _ => (s, "bad-op")
      | ["r", a] => match parseHex a with
          | some a => (s, rd c (a % 65536))
          | none => (s, "bad-op")
      | ["dma", _] => (s, "ok")     -- an OAM DMA elsewhere on the bus does not concern the cartridge
      | ["tm", n] => match n.toNat? with
          | some n => (some ((List.range n).foldl (fun (acc : Mbc) _ => acc.tick) c), "ok")
          | none => (s, "bad-op")
      | ["win"] => (s, " ".intercalate (winAddrs.map (rd c)))
      | ["dump"] =>
          let d := c.dump
          (s, hexN 8 d.length ++ " " ++ hexN 8 (fnv1a d).toNat)
      | _ => (s, "bad-op")

def run (lines : Array String) : IO Unit := runMode lines 1 none step

end Tetro.Drv.Cart
