import Tetro.DriverUtil
/- driver mode `multi` (C24 determinism, C25 instance independence, C26 frame loop).
The model of this mode is the theorem itself: the outputs of an emulator instance are a function of its
configuration and input schedule only (`Tetro.Model.World`), so every repeated / interleaved / concurrent /
hand-stepped run must reproduce the digest of the first solo run, which the ops file records as `expect`. -/
namespace Tetro.Drv.Multi
open Tetro.Drv

def modeName : String := "multi"

structure S where
  digest : List (String × String)
  audio  : List (String × Bool)

def look {α : Type} (xs : List (String × α)) (k : String) : Option α := (xs.find? (·.1 == k)).map (·.2)

def known (s : S) (ids : List String) : Bool := ids.all fun id => (look s.audio id).isSome

def step (s : S) (w : List String) : S × String :=
  match w with
  | ["reset"] => ({ digest := [], audio := [] }, "ok")
  | ["rom", id, _, _, aud] | ["rom", id, _, _, aud, _] => ({ s with audio := (id, aud == "1") :: s.audio }, "ok")
  | ["expect", id, _, d] => ({ s with digest := (id, d) :: s.digest }, "ok")
  | ["again", id, _] | ["sub", id, _] | ["manual", id, _] =>
    if !known s [id] then (s, "no-config") else
    (s, (look s.digest id).getD "no-expectation")
  | ["pair", a, b, _, _] | ["conc", a, b, _] =>
    if !known s [a, b] then (s, "no-config") else
    (s, (look s.digest a).getD "no-expectation" ++ " " ++ (look s.digest b).getD "no-expectation")
  | ["runclose", id, k] =>
    if !known s [id] then (s, "no-config") else
    (s, s!"frames={k} display-cleanups=1 speaker-cleanups={if (look s.audio id).getD false then "1" else "-1"}")
  | ["runcancel", id, _] | ["rundeadline", id, _] =>
    if !known s [id] then (s, "no-config") else (s, "extra-frames-le-1=1 display-cleanups=1")
  | ["tphase", id, _, _, _, _] => if !known s [id] then (s, "no-config") else (s, "same")
  | ["after", a, _, b, _] =>
    if !known s [a, b] then (s, "no-config") else (s, (look s.digest b).getD "no-expectation")
  | ["serlong", id, _] => if !known s [id] then (s, "no-config") else (s, "serial-complete=1 in-order=1")
  | ["serconc", a, b] => if !known s [a, b] then (s, "no-config") else (s, "a-own-bytes=1 b-own-bytes=1")
  | ["cfgs", id, _] => if !known s [id] then (s, "no-config") else (s, "same")
  | ["slowwriter", id, _, _, _] => if !known s [id] then (s, "no-config") else (s, "same")
  | ["runcancelw", id, _] => if !known s [id] then (s, "no-config") else (s, "whole-frames=1 display-cleanups=1")
  | _ => (s, "bad-op")

def run (lines : Array String) : IO Unit := runMode lines 1 { digest := [], audio := [] } step

end Tetro.Drv.Multi
