import Tetro.DriverUtil
import Tetro.Model.Timer
/-
driver mode `timer`.  ops:
  reset <counter-hex4>                       timer.New(); VerifSetCounter(counter)
  reset <counter-hex4> <tima> <tma> <tac>    timer.New(); WriteTAC; WriteTIMA; WriteTMA;
                                             VerifSetCounter(counter-4); EndMachineCycle()
                                             (a cycle boundary with the given registers and counter)
  t                                          EndMachineCycle
  wdiv | wtima <hex2> | wtma <hex2> | wtac <hex2>

output  `<spec-determined> ; <internal>`:
  reset          DIV TIMA TMA TAC IRQ ; COUNTER
  t  (guest)     DIV TIMA TMA TAC IRQ ; COUNTER
  t  (free)      DIV TMA TAC ; COUNTER TIMA IRQ
  w…             DIV TMA TAC ; COUNTER TIMA
A schedule is in "guest shape" as long as no machine cycle since the last reset contained more
than one write; `c12_refines` speaks about TIMA/IRQ after the ticks of such schedules only
(TIMA right after a write is not guest-observable), so only those go into the first part.
DIV/TMA/TAC are covered for every call sequence by `c12_regs_free`.
-/
namespace Tetro.Drv.Timer
open Tetro.Drv Tetro.Model Tetro.Timer

def modeName : String := "timer"

structure DS where
  t      : Timer.T
  writes : Nat     -- writes since the last tick
  free   : Bool    -- some cycle since the last reset had more than one write

def start : DS := { t := Timer.init, writes := 0, free := false }

def regs (t : Timer.T) : String :=
  hexN 2 (Timer.readDIV t) ++ " " ++ hexN 2 (Timer.readTMA t) ++ " " ++ hexN 2 (Timer.readTAC t)

def full (t : Timer.T) (irq : Bool) : String :=
  hexN 2 (Timer.readDIV t) ++ " " ++ hexN 2 (Timer.readTIMA t) ++ " " ++ hexN 2 (Timer.readTMA t)
    ++ " " ++ hexN 2 (Timer.readTAC t) ++ " " ++ b01 irq

def doWrite (d : DS) (w : Write) : DS × String :=
  let t' := Timer.applyWrite d.t w
  ({ t := t', writes := d.writes + 1, free := d.free || d.writes ≥ 1 },
   regs t' ++ " ; " ++ hexN 4 t'.counter ++ " " ++ hexN 2 (Timer.readTIMA t'))

def byte (s : String) : Option Nat :=
  match parseHex s with
  | some n => if n < 256 ∧ s.length ≤ 2 then some n else none
  | none => none

def word (s : String) : Option Nat :=
  match parseHex s with
  | some n => if n < 65536 ∧ s.length ≤ 4 then some n else none
  | none => none

def step (d : DS) (w : List String) : DS × String :=
  match w with
  | ["reset", c] => match word c with
      | some c =>
        let t := Timer.setCounter Timer.init c
        ({ t := t, writes := 0, free := false }, full t false ++ " ; " ++ hexN 4 t.counter)
      | none => (d, "bad-op")
  | ["reset", c, a, m, k] => match word c, byte a, byte m, byte k with
      | some c, some a, some m, some k =>
        let t0 := Timer.writeTMA (Timer.writeTIMA (Timer.writeTAC Timer.init k) a) m
        let t1 := Timer.setCounter t0 ((c + 65532) % 65536)
        let t := Timer.endCycle t1
        ({ t := t, writes := 0, free := false },
         full t (Timer.endCycleIrq t1) ++ " ; " ++ hexN 4 t.counter)
      | _, _, _, _ => (d, "bad-op")
  | ["t"] =>
      let t' := Timer.endCycle d.t
      let irq := Timer.endCycleIrq d.t
      let d' : DS := { t := t', writes := 0, free := d.free }
      if d.free then
        (d', regs t' ++ " ; " ++ hexN 4 t'.counter ++ " " ++ hexN 2 (Timer.readTIMA t') ++ " " ++ b01 irq)
      else
        (d', full t' irq ++ " ; " ++ hexN 4 t'.counter)
  | ["wdiv"] => doWrite d .div
  | ["wtima", v] => match byte v with
      | some v => doWrite d (.tima v)
      | none => (d, "bad-op")
  | ["wtma", v] => match byte v with
      | some v => doWrite d (.tma v)
      | none => (d, "bad-op")
  | ["wtac", v] => match byte v with
      | some v => doWrite d (.tac v)
      | none => (d, "bad-op")
  | _ => (d, "bad-op")

def run (lines : Array String) : IO Unit := runMode lines 1 start step

end Tetro.Drv.Timer
