import Tetro.DriverUtil
/- driver modes whose model prediction IS the theorem (no state to simulate):
   `oambug` (C17): with the LCD off no pointer activity of the CPU alters OAM            -> `same`
   `crashfree` (C11): no image and no guest program makes the emulator panic            -> `no-crash` -/
namespace Tetro.Drv.Oambug
open Tetro.Drv
def modeName : String := "oambug"
def step (s : Unit) (w : List String) : Unit × String :=
  match w with
  | ["reset"] => (s, "ok")
  | "run" :: _ => (s, "same")
  | "mon" :: _ => (s, "ok")
  | _ => (s, "bad-op")
def run (lines : Array String) : IO Unit := runMode lines 1 () step
end Tetro.Drv.Oambug
