import Tetro.DriverUtil
import Tetro.Model.Serial
/- driver mode `serial`: ops `reset <0|1>` | `w addr val` | `r addr` (FF01/FF02 only) | `log` -/
namespace Tetro.Drv.Serial
open Tetro.Drv Tetro.Model.Serial Tetro.Model.Decoder

def modeName : String := "serial"

def step (s : Serial) (w : List String) : Serial × String :=
  match w with
  | ["reset"] => (init false, "ok")
  | ["reset", wr] => (init (wr == "1"), "ok")
  | ["w", a, v] => match parseHex a, parseHex v with
      | some a, some v => (busWrite genWriteArms s a (BitVec.ofNat 8 v), "ok")
      | _, _ => (s, "bad-op")
  | ["r", a] => match parseHex a with
      | some a => (s, match route genReadArms a with
          | .sb => hex2 (readSB s) | .sc => hex2 (readSC s) | _ => "unmodelled")
      | none => (s, "bad-op")
  | ["log"] => (s, if s.writer then "[" ++ String.join (s.log.map hex2) ++ "]" else "none")
  | _ => (s, "bad-op")

def run (lines : Array String) : IO Unit := runMode lines 1 (init true) step

end Tetro.Drv.Serial
