import Tetro.DriverUtil
import Tetro.Spec.IsaRun
import Tetro.Spec.IsaBus
/- driver mode `cpuspec` (spec oracle): replays a `cpu` ops file on the CPU model over the flat bus AND on
the ISA spec; at every instruction boundary reached by `c` it prints `ok` if the architectural state and
the memory at every poked/peeked address agree with `stepInstr`, else `MISMATCH …`.  Used to validate the
spec executable against the model (and hence the code) and to search for failing inputs. -/
namespace Tetro.Drv.CpuSpec
open Tetro.Drv Tetro.Model.Cpu Tetro.Spec.Isa

def modeName : String := "cpuspec"

structure S where
  cpu : Cpu
  bus : Flat
  snap : Option St          -- architectural state at the last boundary (before the instruction)
  watch : List Word         -- addresses touched by poke/peek since reset
  hist : List Flat          -- bus at the start of every machine cycle of the instruction in flight (newest first)
  after : List Flat         -- bus after every machine cycle of the instruction in flight (newest first)
  poked : List Word         -- addresses poked while the instruction is in flight

def flat0 : Flat := { mem := fun _ => 0, ime := true, ie := 0, ifl := 1 }
def S.init : S := { cpu := Cpu.init, bus := flat0, snap := none, watch := [], hist := [], after := [], poked := [] }

def byteOf (s : String) : Option Byte := (parseHex s).map (BitVec.ofNat 8)
def wordOf (s : String) : Option Word := (parseHex s).map (BitVec.ofNat 16)

def showSt (x : St) : String :=
  s!"a={hex2 x.a} f={hex2 x.fByte} b={hex2 x.b} c={hex2 x.c} d={hex2 x.d} e={hex2 x.e} h={hex2 x.h} l={hex2 x.l} sp={hex4 x.sp} pc={hex4 x.pc} ime={b01 x.bus.ime} if={hex2 x.bus.ifl} halted={b01 x.halted}"

/-- is the model about to fetch a new instruction (boundary, running, no interrupt sequence)? -/
def willFetch (s : S) : Bool :=
  s.cpu.isFinished && !s.cpu.crashed && !s.cpu.regs.exited && !s.cpu.regs.halted && !s.cpu.regs.stopped &&
  !(pendingBits s.bus != 0 && (s.bus.ime || s.cpu.regs.halted))

/-- the instruction at the boundary state `st` and the state with PC advanced past the opcode -/
def fetchDecode (st : St) : Option (Instr × St) :=
  let s0 := if st.eiPending then { st with eiPending := false, bus := { st.bus with ime := true } } else st
  let op := s0.rd s0.pc
  if op = 0xcb then
    let op2 := s0.rd (s0.pc + 1)
    some (decodeCB op2.toNat, { s0 with pc := if s0.haltbug then s0.pc + 1 else s0.pc + 2, haltbug := false })
  else (decode op.toNat).map fun i => (i, { s0 with pc := if s0.haltbug then s0.pc else s0.pc + 1, haltbug := false })

/-- documented timing (C03): every data READ takes the value present in its documented machine cycle.
    `hist` = bus at the start of cycle 1, 2, … (oldest first).  Result: the expected architectural registers. -/
def timedExpect (st : St) (hist : List Flat) : Option St :=
  match fetchDecode st with
  | none => none
  | some (i, s1) =>
    let taken := (condOf i).all (·.holds s1)
    let plan := busPlan i taken
    let view : Flat := plan.foldl (fun (v : Flat) p =>
      match p.2.1 with
      | .rd =>
        let a := p.2.2.eval s1
        match hist[p.1 - 1]? with
        | some f =>
          if a = 0xff0f then { v with ifl := f.ifl } else if a = 0xffff then { v with ie := f.ie }
          else { v with mem := fun x => if x = a then f.read a else v.mem x }
        | none => v
      | .wr => v) s1.bus
    some (exec i { s1 with bus := view })

/-- documented timing of WRITES: an address written in documented cycle c (and not poked by the test) keeps
    its old value through cycle c-1 and holds its final value from cycle c on -/
def writesTimedOk (st : St) (after : List Flat) (final : Flat) (poked : List Word) : Bool :=
  match fetchDecode st with
  | none => true
  | some (i, s1) =>
    let taken := (condOf i).all (·.holds s1)
    (busPlan i taken).all fun p =>
      match p.2.1 with
      | .rd => true
      | .wr =>
        let a := p.2.2.eval s1
        if poked.contains a ∨ (busPlan i taken).any (fun q => q.1 ≠ p.1 ∧ q.2.1 = .wr ∧ q.2.2.eval s1 = a) then true else
        (List.range after.length).all fun k =>
          match after[k]? with
          | some f => if k + 1 < p.1 then f.read a == st.bus.read a else f.read a == final.read a
          | none => true

def sameRegs (x y : St) : Bool :=
  x.a == y.a && x.b == y.b && x.c == y.c && x.d == y.d && x.e == y.e && x.h == y.h && x.l == y.l &&
  x.zf == y.zf && x.nf == y.nf && x.hf == y.hf && x.cf == y.cf && x.sp == y.sp && x.pc == y.pc

def oneCycle (s : S) : S × String :=
  let s := if willFetch s then { s with snap := some (abs s.cpu.regs s.bus), hist := [], after := [], poked := [] } else s
  let s := { s with hist := s.bus :: s.hist }
  let r := cycle Tables.gen s.cpu s.bus
  let s' := { s with cpu := r.1, bus := r.2, after := r.2 :: s.after }
  if s'.cpu.isFinished then
    match s.snap with
    | some st =>
      let s'' := { s' with snap := none }
      if !s.poked.isEmpty then
        -- memory was changed between the cycles of this instruction: judge by the documented access cycles
        match timedExpect st s'.hist.reverse with
        | some want =>
          let got := abs s'.cpu.regs s'.bus
          if sameRegs want got then (s'', "ok")
          else (s'', s!"MISMATCH-TIMING pc={hex4 st.pc} op={hex2 (st.rd st.pc)} a data read did not take the value present in its documented cycle: documented: {showSt want} code: {showSt got}")
        | none => (s'', "-")
      else if !writesTimedOk st s'.after.reverse s'.bus s.poked then
        (s'', s!"MISMATCH-TIMING pc={hex4 st.pc} op={hex2 (st.rd st.pc)} a data write did not land in its documented cycle")
      else
      match stepInstr st with
      | some want =>
        let got := abs s'.cpu.regs s'.bus
        let memOk := s.watch.all fun a => want.rd a == got.rd a
        if want.same got && memOk then (s'', "ok")
        else (s'', s!"MISMATCH pc={hex4 st.pc} op={hex2 (st.rd st.pc)} documented: {showSt want} code: {showSt got} memory-agrees={b01 memOk}")
      | none => (s'', if s'.cpu.regs.exited then "ok" else "MISMATCH undefined-opcode")
    | none => (s', "-")
  else (s', "-")

def step (s : S) (w : List String) : S × String :=
  match w with
  | ["reset"] => (S.init, "-")
  | ["regs", a, b, c, d, e, f, h, l, sp, pc] =>
    match byteOf a, byteOf b, byteOf c, byteOf d, byteOf e, byteOf f, byteOf h, byteOf l, wordOf sp, wordOf pc with
    | some a, some b, some c, some d, some e, some f, some h, some l, some sp, some pc =>
      let r := { s.cpu.regs with a := a, b := b, c := c, d := d, e := e, f := f, h := h, l := l, sp := sp, pc := pc }
      ({ s with cpu := { s.cpu with regs := r }, watch := (sp - 1) :: (sp - 2) :: s.watch }, "-")
    | _, _, _, _, _, _, _, _, _, _ => (s, "bad-op")
  | ["fl", ha, hb, st, ei] =>
    let r := { s.cpu.regs with halted := ha != "0", haltbug := hb != "0", stopped := st != "0", eiPending := ei != "0" }
    ({ s with cpu := { s.cpu with regs := r } }, "-")
  | ["irq", ie, ifl, ime] =>
    match byteOf ie, byteOf ifl with
    | some ie, some ifl => ({ s with bus := { s.bus with ie := ie, ifl := ifl &&& 0x1f, ime := ime != "0" } }, "-")
    | _, _ => (s, "bad-op")
  | ["poke", a, v] =>
    match wordOf a, byteOf v with
    | some a, some v =>
      -- a poke in the middle of an instruction: remembered, the instruction is then judged by access timing
      ({ s with bus := s.bus.write a v, watch := a :: s.watch,
                poked := if s.cpu.isFinished then s.poked else a :: s.poked }, "-")
    | _, _ => (s, "bad-op")
  | ["peek", a] =>
    match wordOf a with
    | some a => ({ s with watch := a :: s.watch }, "-")
    | none => (s, "bad-op")
  | ["memsum"] => (s, "-")
  | ["input"] => ({ s with cpu := { s.cpu with regs := { s.cpu.regs with stopped := false } } }, "-")
  | ["c", n] =>
    match n.toNat? with
    | some n => Id.run do
      let mut st := s
      let mut out := "-"
      for _ in [0:n] do
        let r := oneCycle st
        st := r.1
        if r.2 != "-" then out := r.2
      return (st, out)
    | none => (s, "bad-op")
  | _ => (s, "bad-op")

def run (lines : Array String) : IO Unit := runMode lines 1 S.init step

end Tetro.Drv.CpuSpec
