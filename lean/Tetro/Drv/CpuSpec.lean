import Tetro.DriverUtil
import Tetro.Spec.IsaRun
/- driver mode `cpuspec` (spec oracle): replays a `cpu` ops file on the CPU model over the flat bus AND on
the ISA spec; at every instruction boundary reached by `c` it prints `ok` if the architectural state and
the memory at every poked/peeked address agree with `stepInstr`, else `MISMATCH …`.  Used to validate the
spec executable against the model (and hence the code) and to search for failing inputs. -/
namespace Tetro.Drv.CpuSpec
open Tetro.Drv Tetro.Model.Cpu Tetro.Spec.Isa

def modeName : String := "cpuspec"

structure S where
  cpu : Cpu
  bus : Flat
  snap : Option St          -- architectural state at the last boundary (before the instruction)
  watch : List Word         -- addresses touched by poke/peek since reset

def flat0 : Flat := { mem := fun _ => 0, ime := true, ie := 0, ifl := 1 }
def S.init : S := { cpu := Cpu.init, bus := flat0, snap := none, watch := [] }

def byteOf (s : String) : Option Byte := (parseHex s).map (BitVec.ofNat 8)
def wordOf (s : String) : Option Word := (parseHex s).map (BitVec.ofNat 16)

def showSt (x : St) : String :=
  s!"a={hex2 x.a} f={hex2 x.fByte} b={hex2 x.b} c={hex2 x.c} d={hex2 x.d} e={hex2 x.e} h={hex2 x.h} l={hex2 x.l} sp={hex4 x.sp} pc={hex4 x.pc} ime={b01 x.bus.ime} if={hex2 x.bus.ifl} halted={b01 x.halted}"

/-- is the model about to fetch a new instruction (boundary, running, no interrupt sequence)? -/
def willFetch (s : S) : Bool :=
  s.cpu.isFinished && !s.cpu.crashed && !s.cpu.regs.exited && !s.cpu.regs.halted && !s.cpu.regs.stopped &&
  !(pendingBits s.bus != 0 && (s.bus.ime || s.cpu.regs.halted))

def oneCycle (s : S) : S × String :=
  let s := if willFetch s then { s with snap := some (abs s.cpu.regs s.bus) } else s
  let r := cycle Tables.gen s.cpu s.bus
  let s' := { s with cpu := r.1, bus := r.2 }
  if s'.cpu.isFinished then
    match s.snap with
    | some st =>
      let s'' := { s' with snap := none }
      match stepInstr st with
      | some want =>
        let got := abs s'.cpu.regs s'.bus
        let memOk := s.watch.all fun a => want.rd a == got.rd a
        if want.same got && memOk then (s'', "ok")
        else (s'', s!"MISMATCH pc={hex4 st.pc} op={hex2 (st.rd st.pc)} documented: {showSt want} code: {showSt got} memory-agrees={b01 memOk}")
      | none => (s'', if s'.cpu.regs.exited then "ok" else "MISMATCH undefined-opcode")
    | none => (s', "-")
  else (s', "-")

def step (s : S) (w : List String) : S × String :=
  match w with
  | ["reset"] => (S.init, "-")
  | ["regs", a, b, c, d, e, f, h, l, sp, pc] =>
    match byteOf a, byteOf b, byteOf c, byteOf d, byteOf e, byteOf f, byteOf h, byteOf l, wordOf sp, wordOf pc with
    | some a, some b, some c, some d, some e, some f, some h, some l, some sp, some pc =>
      let r := { s.cpu.regs with a := a, b := b, c := c, d := d, e := e, f := f, h := h, l := l, sp := sp, pc := pc }
      ({ s with cpu := { s.cpu with regs := r }, watch := (sp - 1) :: (sp - 2) :: s.watch }, "-")
    | _, _, _, _, _, _, _, _, _, _ => (s, "bad-op")
  | ["fl", ha, hb, st, ei] =>
    let r := { s.cpu.regs with halted := ha != "0", haltbug := hb != "0", stopped := st != "0", eiPending := ei != "0" }
    ({ s with cpu := { s.cpu with regs := r } }, "-")
  | ["irq", ie, ifl, ime] =>
    match byteOf ie, byteOf ifl with
    | some ie, some ifl => ({ s with bus := { s.bus with ie := ie, ifl := ifl &&& 0x1f, ime := ime != "0" } }, "-")
    | _, _ => (s, "bad-op")
  | ["poke", a, v] =>
    match wordOf a, byteOf v with
    | some a, some v =>
      -- a poke in the middle of an instruction changes memory under the spec's feet: drop the snapshot
      ({ s with bus := s.bus.write a v, watch := a :: s.watch, snap := if s.cpu.isFinished then s.snap else none }, "-")
    | _, _ => (s, "bad-op")
  | ["peek", a] =>
    match wordOf a with
    | some a => ({ s with watch := a :: s.watch }, "-")
    | none => (s, "bad-op")
  | ["c", n] =>
    match n.toNat? with
    | some n => Id.run do
      let mut st := s
      let mut out := "-"
      for _ in [0:n] do
        let r := oneCycle st
        st := r.1
        if r.2 != "-" then out := r.2
      return (st, out)
    | none => (s, "bad-op")
  | _ => (s, "bad-op")

def run (lines : Array String) : IO Unit := runMode lines 1 S.init step

end Tetro.Drv.CpuSpec
