import Tetro.DriverUtil
import Tetro.Model.Render
import Tetro.Spec.Render
/- driver mode `scene` (C15).  Ops and outputs: see go/harness/scene.go.
   `render` runs the TICK-LEVEL code model (`Model.Render.run`, 17554 + 17556 calls from the state after
   `enable()`); `line y` prints, for a line inside the property's restrictions, the SPECIFICATION's pixels
   (`Spec.Render.dmgPixel`) before the ` ; ` and the model's frame after it, otherwise `- ; <model frame>`. -/
namespace Tetro.Drv.Scene
open Tetro.Drv Tetro.Model.Render

def modeName : String := "scene"

structure Raw where
  regs : Array Nat      -- lcdc scx scy wx wy bgp obp0 obp1
  vram : ByteArray      -- 0x2000
  oam  : ByteArray      -- 0xa0

def zeros (n : Nat) : ByteArray := ByteArray.mk (Array.replicate n 0)

def Raw.default : Raw :=
  { regs := #[0x91, 0, 0, 0, 0, 0xfc, 0xff, 0xff], vram := zeros 0x2000, oam := zeros 0xa0 }

def toByte (n : Nat) : Byte := ⟨n % 256, Nat.mod_lt _ (by decide)⟩

def Raw.toScene (r : Raw) : Scene :=
  { lcdc := toByte r.regs[0]!, scx := toByte r.regs[1]!, scy := toByte r.regs[2]!, wx := toByte r.regs[3]!,
    wy := toByte r.regs[4]!, bgp := toByte r.regs[5]!, obp0 := toByte r.regs[6]!, obp1 := toByte r.regs[7]!,
    vram := fun i => toByte (r.vram.get! i).toNat,
    oam := fun i => toByte (r.oam.get! i).toNat }

/-! ### the scene generator (must draw exactly the numbers of `genScene` in go/harness/scene.go) -/
abbrev G := StateM Nat

def nxt : G Nat := modifyGet fun s =>
  let s' := (s * 1664525 + 1013904223) % 4294967296
  (s' / 65536, s')
def below (n : Nat) : G Nat := do return (← nxt) % n
def gbyte : G Nat := do return (← nxt) % 256

def flagSet (flags bit : Nat) : Bool := (flags / bit) % 2 == 1

def genObjects (flags : Nat) : G (Array (Array Nat)) := do
  let band := flagSet flags 2 || flagSet flags 32
  let n ← if band then pure 40 else below 41
  let base := 8 + (← below 140)
  let mut objs : Array (Array Nat) := #[]
  for _ in [0:n] do
    let mut y := 0
    if band then
      y := base + (← below 14)
    else
      let r ← below 8
      if r == 0 then y := 1 + (← below 15)
      else if r == 1 then y := 145 + (← below 15)
      else if r == 2 then y ← gbyte
      else y := 16 + (← below 129)
    let mut x := 0
    let r ← below 8
    if r == 0 then x := 1 + (← below 7)
    else if r == 1 then x := 161 + (← below 7)
    else if r == 2 then x ← gbyte
    else x := 8 + (← below 153)
    let tile ← gbyte
    let attr ← gbyte
    objs := objs.push #[y, x, tile, attr]
  return objs

/-- stable insertion sort by X -/
def sortByX (objs : Array (Array Nat)) : Array (Array Nat) := Id.run do
  let mut a := objs
  for i in [1:a.size] do
    let o := a[i]!
    let mut j := i
    while j > 0 && (a[j-1]!)[1]! > o[1]! do
      a := a.set! j a[j-1]!
      j := j - 1
    a := a.set! j o
  return a

/-- hide (Y := 0) every object that would be the eleventh on some line -/
def tenPerLine (objs : Array (Array Nat)) : Array (Array Nat) := Id.run do
  let mut a := objs
  let mut cnt : Array Nat := Array.replicate 144 0
  for i in [0:a.size] do
    let y := (a[i]!)[0]!
    let mut full := false
    for l in [0:144] do
      if y ≤ l + 16 && l + 8 < y && cnt[l]! ≥ 10 then full := true
    if full then
      a := a.set! i ((a[i]!).set! 0 0)
    else
      for l in [0:144] do
        if y ≤ l + 16 && l + 8 < y then cnt := cnt.set! l (cnt[l]! + 1)
  return a

def genScene (flags : Nat) : G Raw := do
  let mut lcdc := 0x80
  if (← below 2) == 1 then lcdc := lcdc + 0x40
  if (← below 2) == 1 then lcdc := lcdc + 0x20
  if (← below 2) == 1 then lcdc := lcdc + 0x10
  if (← below 2) == 1 then lcdc := lcdc + 0x08
  if (← below 8) != 0 then lcdc := lcdc + 0x02
  if flagSet flags 8 then
    if (← below 2) == 1 then lcdc := lcdc + 0x01
  else lcdc := lcdc + 0x01
  if flagSet flags 16 then
    if (← below 2) == 1 then lcdc := lcdc + 0x04
  let mut scx := 0
  if (← below 4) != 0 then scx ← gbyte
  let mut scy := 0
  if (← below 4) != 0 then scy ← gbyte
  let mut wx := 0
  let r ← below 8
  if r == 0 then wx := 7
  else if r == 1 then wx := 166
  else if r == 2 then wx := 167 + (← below 89)
  else wx := 7 + (← below 160)
  if flagSet flags 4 then
    if (← below 2) == 1 then wx ← below 7
  let mut wy := 0
  let r ← below 8
  if r == 0 then wy := 0
  else if r == 1 then wy := 143
  else if r == 2 then wy := 144 + (← below 112)
  else wy ← below 144
  let bgp ← gbyte
  let obp0 ← gbyte
  let obp1 ← gbyte
  -- tile data
  let mut vram := zeros 0x2000
  for t in [0:384] do
    let k ← below 8
    if k < 2 then continue
    else if k == 2 then
      let c := 1 + (← below 3)
      for r in [0:8] do
        if c % 2 == 1 then vram := vram.set! (16*t + 2*r) 0xff
        if c / 2 == 1 then vram := vram.set! (16*t + 2*r + 1) 0xff
    else
      for j in [0:16] do
        vram := vram.set! (16*t + j) (← gbyte).toUInt8
  -- tile maps
  let few := (← below 4) == 0
  let mut pal : Array Nat := #[]
  for _ in [0:4] do pal := pal.push (← gbyte)
  for i in [0x1800:0x2000] do
    if few then vram := vram.set! i (pal[(← below 4)]!).toUInt8
    else vram := vram.set! i (← gbyte).toUInt8
  -- objects
  let mut objs ← genObjects flags
  if !flagSet flags 1 then objs := sortByX objs
  if !flagSet flags 2 then objs := tenPerLine objs
  let mut oam := zeros 0xa0
  for i in [0:objs.size] do
    for k in [0:4] do
      oam := oam.set! (4*i + k) ((objs[i]!)[k]!).toUInt8
  return { regs := #[lcdc, scx, scy, wx, wy, bgp, obp0, obp1], vram := vram, oam := oam }

def Raw.hash (r : Raw) : Nat := Id.run do
  let mut h := 0
  for b in r.regs do h := (h * 31 + b) % 4294967296
  for b in r.vram do h := (h * 31 + b.toNat) % 4294967296
  for b in r.oam do h := (h * 31 + b.toNat) % 4294967296
  return h

/-! ### state and ops -/
structure St where
  raw   : Raw
  frame : Option (Vector Nat (160 * 144))    -- result of `render`
  ps    : Option Tetro.Model.Render.PState := none   -- the PPU after `render` / `next` (kept for `next`)

def St.init : St := { raw := Raw.default, frame := none }

/-- pixel value 4 = never written by renderPixel (the Go frame is zero-initialised, which is no grey shade) -/
def blankFrame : Vector Nat (160 * 144) := Vector.replicate (160 * 144) 4

def renderScene (sc : Scene) : Option Tetro.Model.Render.PState :=
  Tetro.Model.Render.run sc (17554 + 17556) (afterEnable (Vector.replicate 40 false) blankFrame)

def frameHash (f : Vector Nat (160 * 144)) : Nat := Id.run do
  let mut h := 0
  for v in f.toArray do h := (h * 31 + v) % 4294967296
  return h

def packLine (px : List Nat) : String :=
  if px.any (· > 3) then "unwritten" else
  let rec go : List Nat → String → String
    | a :: b :: c :: d :: rest, acc => go rest (acc ++ hexN 2 (a * 64 + b * 16 + c * 4 + d))
    | _, acc => acc
  go px ""

def lineInProperty (sc : Scene) (y : Nat) : Bool :=
  decide (Spec.Render.regsInProperty sc) && decide (Spec.Render.atMostTen sc y) && Spec.Render.orderedByXb sc y

def parseHexBytes (s : String) : Option (List Nat) :=
  let cs := s.toList
  if cs.length % 2 != 0 || cs.isEmpty then none else
  let rec go : List Char → List Nat → Option (List Nat)
    | a :: b :: rest, acc => match hexVal a, hexVal b with
        | some x, some y => go rest ((x * 16 + y) :: acc)
        | _, _ => none
    | _, acc => some acc.reverse
  go cs []

def pokeBytes (arr : ByteArray) (off : Nat) (bs : List Nat) : ByteArray := Id.run do
  let mut a := arr
  let mut i := off
  for b in bs do
    a := a.set! i b.toUInt8
    i := i + 1
  return a

def step (st : St) (w : List String) : St × String :=
  match w with
  | ["reset"] => (St.init, "ok")
  | ["scene", seed, flags] => match parseHex seed, parseHex flags with
      | some sd, some fl =>
        let raw := (genScene fl).run' (sd % 4294967296) |>.run
        ({ st with raw := raw, frame := none }, "ok ; " ++ hexN 8 raw.hash)
      | _, _ => (st, "bad-op")
  | ["regs", a, b, c, d, e, f, g, h] =>
      match [a, b, c, d, e, f, g, h].mapM parseHex with
      | some vs => ({ st with raw := { st.raw with regs := (vs.map (· % 256)).toArray } }, "ok")
      | none => (st, "bad-op")
  | ["vram", addr, bytes] => match parseHex addr, parseHexBytes bytes with
      | some a, some bs =>
        if a ≥ 0x8000 && a + bs.length ≤ 0xa000 then
          ({ st with raw := { st.raw with vram := pokeBytes st.raw.vram (a - 0x8000) bs } }, "ok")
        else (st, "bad-op")
      | _, _ => (st, "bad-op")
  | ["oam", off, bytes] => match parseHex off, parseHexBytes bytes with
      | some a, some bs =>
        if a + bs.length ≤ 0xa0 then
          ({ st with raw := { st.raw with oam := pokeBytes st.raw.oam a bs } }, "ok")
        else (st, "bad-op")
      | _, _ => (st, "bad-op")
  | ["render"] => match renderScene st.raw.toScene with
      | some p => ({ st with frame := some p.frame, ps := some p }, "ok ; " ++ hexN 8 (frameHash p.frame))
      | none => ({ st with frame := none, ps := none }, "crash")
  | ["offon", ks] => match st.ps, ks.toNat? with
      | some p0, some k =>
        let sc := st.raw.toScene
        if !(Tetro.Model.Render.enabled sc) then (st, "none") else
        -- k more cycles, LCD off and on again (the per-object flags and the frame buffer survive), ONE frame
        match (Tetro.Model.Render.run sc k p0).bind fun p1 =>
              Tetro.Model.Render.run sc 17554 (afterEnable p1.overlaps p1.frame) with
        | some p => ({ st with frame := some p.frame, ps := some p }, "ok ; " ++ hexN 8 (frameHash p.frame))
        | none => ({ st with frame := none, ps := none }, "crash")
      | _, _ => (st, "none")
  | ["next"] => match st.ps with
      | none => (st, "none")
      | some p0 =>
        if !(Tetro.Model.Render.enabled st.raw.toScene) then (st, "none") else
        -- the scene was replaced at the frame boundary (LCD stays on): one more frame on the SAME PPU
        match Tetro.Model.Render.run st.raw.toScene 17556 p0 with
        | some p => ({ st with frame := some p.frame, ps := some p }, "ok ; " ++ hexN 8 (frameHash p.frame))
        | none => ({ st with frame := none, ps := none }, "crash")
  | ["line", ys] => match ys.toNat?, st.frame with
      | some y, some f =>
        if y < 144 then
          let sc := st.raw.toScene
          let model := packLine ((List.range 160).map fun x => f[y * 160 + x]?.getD 4)
          if lineInProperty sc y then
            (st, packLine ((List.range 160).map fun x => Spec.Render.dmgPixel sc x y) ++ " ; " ++ model)
          else (st, "- ; " ++ model)
        else (st, "none")
      | _, _ => (st, "none")
  | _ => (st, "bad-op")

def run (lines : Array String) : IO Unit := runMode lines 1 St.init step

end Tetro.Drv.Scene
