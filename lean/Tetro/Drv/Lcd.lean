import Tetro.DriverUtil
import Tetro.Spec.Lcd
import Tetro.Model.Lcd
/- driver mode `lcd`: ops `reset | t | lcdc <hex2> | stat <hex2> | lyc <hex2> | ly <hex2>`;
   output after each op:  `<LY> <STAT&3> <IF bits raised by the op> ; <STAT> <LCDC> <oam corrupt>`
   (`crash` if the modelled Go code panics; the state is then left unchanged) -/
namespace Tetro.Drv.Lcd
open Tetro.Drv Tetro.Model

def modeName : String := "lcd"

def render (p : Lcd.Ppu) (vbl stat : Bool) : String :=
  hexN 2 (Lcd.readLY p) ++ " " ++ toString (Lcd.readSTAT p % 4) ++ " " ++
    toString ((if vbl then 1 else 0) + (if stat then 2 else 0)) ++ " ; " ++
    hexN 2 (Lcd.readSTAT p) ++ " " ++ hexN 2 (Lcd.readLCDC p) ++ " " ++ b01 p.oamCorrupt

def apply (p : Lcd.Ppu) (op : Lcd.Op) : Lcd.Ppu × String :=
  match Lcd.step p op with
  | none => (p, "crash")
  | some r => (r.p, render r.p r.vbl r.stat)

def byteArg (v : String) : Option Nat :=
  match parseHex v with
  | some n => if n < 256 then some n else none
  | none => none

def step (p : Lcd.Ppu) (w : List String) : Lcd.Ppu × String :=
  match w with
  | ["reset"] => (Lcd.init, render Lcd.init false false)
  | ["t"] => apply p .tick
  | ["lcdc", v] => match byteArg v with
      | some n => apply p (.wLCDC n)
      | none => (p, "bad-op")
  | ["stat", v] => match byteArg v with
      | some n => apply p (.wSTAT n)
      | none => (p, "bad-op")
  | ["lyc", v] => match byteArg v with
      | some n => apply p (.wLYC n)
      | none => (p, "bad-op")
  | ["scx", _] => apply p (.wLYC p.lyc)      -- SCX is not part of the timing model: nothing changes
  | ["sprites", _] => apply p (.wLYC p.lyc)  -- nor are the contents of OAM
  | ["long", n] => match n.toNat? with
      -- a fresh LCD left on for n cycles: by c13_refines / c14_vblank_once the model equals the closed form for EVERY n,
      -- so the prediction is computed from the closed form (the state is left as after `reset`)
      | some n => (Lcd.init, s!"mismatches=0 first=- end={hexN 2 (Tetro.Spec.Lcd.lyAt n)}/{Tetro.Spec.Lcd.modeAt n}")
      | none => (p, "bad-op")
  | ["ly", v] => match byteArg v with
      | some n => apply p (.wLY n)
      | none => (p, "bad-op")
  | _ => (p, "bad-op")

def run (lines : Array String) : IO Unit := runMode lines 1 Lcd.init step

end Tetro.Drv.Lcd
