import Tetro.DriverUtil
import Tetro.Model.PlainBus
/- driver mode `cpu`: the CPU model on the `Plain` bus.
ops: reset | regs a b c d e f h l sp pc | fl halted haltbug stopped eipending | irq ie if ime
     | poke addr val | peek addr | c n | tab gen|...  ; output of `c`, `regs`, `fl`, `irq`, `reset`: full state -/
namespace Tetro.Drv.Cpu
open Tetro.Drv Tetro.Model.Cpu

def modeName : String := "cpu"

structure St where
  cpu : Cpu
  bus : Plain

def St.init : St := { cpu := Cpu.init, bus := Plain.init }

def render (s : St) : String :=
  let r := s.cpu.regs
  if s.cpu.crashed then "crash" else
  if r.exited then "exit" else
  s!"{hex2 r.a} {hex2 r.b} {hex2 r.c} {hex2 r.d} {hex2 r.e} {hex2 r.f} {hex2 r.h} {hex2 r.l} {hex4 r.sp} {hex4 r.pc} " ++
  s!"ime={b01 s.bus.ime} if={hex2 (s.bus.ifl ||| 0xe0)} ie={hex2 s.bus.ie} halted={b01 r.halted} bnd={b01 s.cpu.isFinished}" ++
  s!" ; {hex2 r.u8a} {hex2 r.u8b} {hex2 r.m8a} {hex2 r.m8b} cyc={s.cpu.cycle} hb={b01 r.haltbug} st={b01 r.stopped} ei={b01 r.eiPending}"

def byteOf (s : String) : Option Byte := (parseHex s).map (BitVec.ofNat 8)
def wordOf (s : String) : Option Word := (parseHex s).map (BitVec.ofNat 16)

def step (s : St) (w : List String) : St × String :=
  match w with
  | ["reset"] => (St.init, render St.init)
  | ["regs", a, b, c, d, e, f, h, l, sp, pc] =>
    match byteOf a, byteOf b, byteOf c, byteOf d, byteOf e, byteOf f, byteOf h, byteOf l, wordOf sp, wordOf pc with
    | some a, some b, some c, some d, some e, some f, some h, some l, some sp, some pc =>
      let r := { s.cpu.regs with a := a, b := b, c := c, d := d, e := e, f := f, h := h, l := l, sp := sp, pc := pc }
      let s' := { s with cpu := { s.cpu with regs := r } }
      (s', render s')
    | _, _, _, _, _, _, _, _, _, _ => (s, "bad-op")
  | ["fl", ha, hb, st, ei] =>
    let r := { s.cpu.regs with halted := ha != "0", haltbug := hb != "0", stopped := st != "0", eiPending := ei != "0" }
    let s' := { s with cpu := { s.cpu with regs := r } }
    (s', render s')
  | ["irq", ie, ifl, ime] =>
    match byteOf ie, byteOf ifl with
    | some ie, some ifl =>
      let s' := { s with bus := { s.bus with ie := ie, ifl := ifl &&& 0x1f, ime := ime != "0" } }
      (s', render s')
    | _, _ => (s, "bad-op")
  | ["poke", a, v] =>
    match wordOf a, byteOf v with
    | some a, some v => ({ s with bus := s.bus.write a v }, "ok")
    | _, _ => (s, "bad-op")
  | ["peek", a] =>
    match wordOf a with
    | some a => (s, hex2 (s.bus.read a))
    | none => (s, "bad-op")
  | ["memsum"] =>
    -- the same checksum the harness computes through Mapper.Read over VRAM, WRAM, OAM, HRAM
    let inRange (a : Nat) : Bool := (0x8000 ≤ a && a ≤ 0x9fff) || (0xc000 ≤ a && a ≤ 0xdfff) ||
      (0xfe00 ≤ a && a ≤ 0xfe9f) || (0xff80 ≤ a && a ≤ 0xfffe)
    let sum := s.bus.mem.fold (fun (acc : Nat) a v =>
      if inRange a && v != 0 then (acc + (a * 256 + v.toNat) * 2654435761) % 4294967296 else acc) 0
    (s, hexN 8 sum)
  | ["input"] =>
    let s' := { s with cpu := { s.cpu with regs := { s.cpu.regs with stopped := false } } }
    (s', render s')
  | ["c", n] =>
    match n.toNat? with
    | some n =>
      let r := cycles Tables.gen n s.cpu s.bus
      let s' : St := { cpu := r.1, bus := r.2 }
      (s', render s')
    | none => (s, "bad-op")
  | _ => (s, "bad-op")

def run (lines : Array String) : IO Unit := runMode lines 1 St.init step

end Tetro.Drv.Cpu
