import Tetro.DriverUtil
import Tetro.Model.Whole
import Tetro.Drv.Apu
/- driver mode `prog`: the WHOLE-MACHINE model (`Model.Whole`) co-simulated with the real emulator on ROM
   files and synthetic programs.  Protocol: see go/harness/prog.go.
     reset load <path relative to $VERIF_REPO/gameboy/testdata>  | reset synth <seed>
     btn <b> <0|1> | run <cycles> | st | fr -/
namespace Tetro.Drv.Prog
open Tetro.Drv Tetro.Model Tetro.Model.Whole

def modeName : String := "prog"

/-! ### checksums -/
def fnvStep (h : UInt32) (v : Nat) : UInt32 := (h ^^^ v.toUInt32) * 16777619
def fnv0 : UInt32 := 2166136261
def hex8 (h : UInt32) : String := hexN 8 h.toNat

def sumVec {n : Nat} (v : Vector Nat n) : UInt32 := v.foldl fnvStep fnv0
def sumOam (v : Oam.Mem) : UInt32 := v.foldl (fun h b => fnvStep h b.toNat) fnv0
def sumList (xs : List Nat) : UInt32 := xs.foldl fnvStep fnv0
/-- the first `k` entries (HRAM: FF80–FFFE are 0x7f of the 0x8f bytes of `zeroPage`) -/
def sumFirst {n : Nat} (v : Vector Nat n) (k : Nat) : UInt32 :=
  (List.range k).foldl (fun h i => fnvStep h (v[i]?.getD 0)) fnv0

/-! ### synthetic ROM (= synthRom of go/harness/multi.go) -/
def smNext (s : UInt64) : UInt64 × UInt64 :=
  let s := s + 0x9e3779b97f4a7c15
  let z := s
  let z := (z ^^^ (z >>> 30)) * 0xbf58476d1ce4e5b9
  let z := (z ^^^ (z >>> 27)) * 0x94d049bb133111eb
  (z ^^^ (z >>> 31), s)

def notOpcode (b : Nat) : Bool :=
  b == 0xcb || b == 0xd3 || b == 0xdb || b == 0xdd || b == 0xe3 || b == 0xe4 || b == 0xeb || b == 0xec ||
  b == 0xed || b == 0xf4 || b == 0xfc || b == 0xfd || b == 0x10

partial def synthByte (s : UInt64) : Nat × UInt64 :=
  let r := smNext s
  let b := (r.1 % 256).toNat
  if notOpcode b then synthByte r.2 else (b, r.2)

def synthRom (seed : Nat) : ByteArray := Id.run do
  let mut s : UInt64 := (seed * 77 + 5).toUInt64
  let mut out := ByteArray.emptyWithCapacity 0x8000
  for i in [0:0x8000] do
    let r := synthByte s
    s := r.2
    out := out.push (if i == 0x147 || i == 0x148 || i == 0x149 then 0 else r.1.toUInt8)
  return out

/-! ### explicit program image: `reset code <type2><romsize2><ramsize2> <addr4>:<hex> ...`
    0x8000 <<< romsize bytes; byte i is 0 below 0x4000 and `fillByte i` from 0x4000 on; then the header bytes
    0147-0149, then the segments in order. -/
def fillByte (i : Nat) : Nat := if i < 0x4000 then 0 else (i * 7 + (i >>> 14) * 13 + (i >>> 8)) % 256

def hexBytes (s : String) : Option (List Nat) :=
  let rec go : List Char → Option (List Nat)
    | [] => some []
    | [_] => none
    | a :: b :: rest => do
      let x ← hexVal a
      let y ← hexVal b
      let r ← go rest
      pure ((x * 16 + y) :: r)
  go s.toList

def codeRom (hdr : String) (segs : List String) : Option ByteArray := do
  let h ← hexBytes hdr
  match h with
  | [t, rs, ra] =>
    if rs > 3 then none else
    let size := 0x8000 <<< rs
    let mut out := ByteArray.emptyWithCapacity size
    for i in [0:size] do
      out := out.push (fillByte i).toUInt8
    out := out.set! 0x147 t.toUInt8
    out := out.set! 0x148 rs.toUInt8
    out := out.set! 0x149 ra.toUInt8
    for sg in segs do
      match sg.splitOn ":" with
      | [a, hx] =>
        let a ← parseHex a
        let bs ← hexBytes hx
        if a + bs.length > size then none
        let mut k := a
        for b in bs do
          out := out.set! k b.toUInt8
          k := k + 1
      | _ => none
    pure out
  | _ => none

def imageOf (bytes : ByteArray) : Cart.Image :=
  { len := bytes.size, byte := fun i => (bytes.get! i).toNat }

/-! ### cartridge RAM: the functional update chain is replaced by an (extensionally equal) table.
    The table is built by a definition of DATA type (so it is evaluated once, when `compactCart` runs);
    a `let` inside a function-valued definition would be re-evaluated at every call. -/
def ramTable (ram : Cart.Ram) (len : Nat) : Array Nat :=
  Array.ofFn (n := len * 0x2000) fun i => ram (i.val / 0x2000) (i.val % 0x2000)
def ramOf (arr : Array Nat) (len : Nat) (ram : Cart.Ram) : Cart.Ram :=
  fun b o => if b < len ∧ o < 0x2000 then arr[b * 0x2000 + o]! else ram b o

def cellTable (ram : Nat → Nat) : Array Nat := Array.ofFn (n := 512) fun i => ram i.val
def cellOf (arr : Array Nat) (ram : Nat → Nat) : Nat → Nat := fun o => if o < 512 then arr[o]! else ram o

def compactCart : Cart.Mbc → Cart.Mbc
  | .mbc1 m =>
    if m.ramEnabled then
      let arr := ramTable m.ram m.ramLen
      .mbc1 { m with ram := ramOf arr m.ramLen m.ram }
    else .mbc1 m
  | .mbc2 m =>
    if m.ramEnabled then
      let arr := cellTable m.ram
      .mbc2 { m with ram := cellOf arr m.ram }
    else .mbc2 m
  | .mbc3 m =>
    if m.ramEnabled then
      let arr := ramTable m.ram m.ramLen
      .mbc3 { m with ram := ramOf arr m.ramLen m.ram }
    else .mbc3 m
  | .mbc5 m =>
    if m.ramEnabled then
      let arr := ramTable m.ram m.ramLen
      .mbc5 { m with ram := ramOf arr m.ramLen m.ram }
    else .mbc5 m
  | c => c

def compact (w : Whole) : Whole :=
  { w with b := { w.b with m := { w.b.m with cart := compactCart w.b.m.cart } } }

/-! ### state -/
structure St where
  w   : Option Whole := none
  nS  : Nat := 0          -- samples taken so far (each side)
  ckL : UInt32 := 0
  ckR : UInt32 := 0

/-- fold the samples emitted since the last call into the running checksums (oldest first) -/
def drain (s : St) (w : Whole) : St :=
  let outs := w.b.apu.out.reverse
  let ckL := outs.foldl (fun h p => h * 16777619 + p.1.toUInt32 + 1) s.ckL
  let ckR := outs.foldl (fun h p => h * 16777619 + p.2.toUInt32 + 1) s.ckR
  { s with w := some { w with b := { w.b with apu := { w.b.apu with out := [] } } },
           nS := s.nS + outs.length, ckL := ckL, ckR := ckR }

def status (w : Whole) : Option String :=
  if w.b.dead || w.cpu.crashed then some "crash" else if w.cpu.regs.exited then some "exit" else none

def rtcStr (c : Cart.Mbc) : String :=
  match c with
  | .mbc3 m =>
    let r := m.rtc
    s!" rtc={hexN 2 r.s}{hexN 2 r.m}{hexN 2 r.h}{hexN 4 r.d}{b01 r.carry}{b01 r.halt}:{r.ticks}"
  | _ => ""

def oamFlags (o : Oam.Oam) : String :=
  b01 o.dmaRunning ++ hex4 o.dmaCycle ++ b01 o.corrupt ++ b01 o.read ++ b01 o.write ++ b01 o.doubleWrite

/-- value of an I/O register as `Mapper.Read` returns it (no side effect for these addresses) -/
def io (w : Whole) (a : Nat) : String :=
  match w.b.read? a with
  | some r => hexN 2 r.1
  | none => "xx"

def stLine (w : Whole) : String :=
  match status w with
  | some s => s
  | none =>
    let r := w.cpu.regs
    let m := w.b.m
    s!"{hex2 r.a} {hex2 r.b} {hex2 r.c} {hex2 r.d} {hex2 r.e} {hex2 r.f} {hex2 r.h} {hex2 r.l} {hex4 r.sp} {hex4 r.pc} " ++
    s!"ime={b01 m.intr.ime} if={io w 0xff0f} ie={io w 0xffff} halted={b01 r.halted} " ++
    s!"ly={io w 0xff44} stat={io w 0xff41} lcdc={io w 0xff40} div={io w 0xff04} tima={io w 0xff05} tma={io w 0xff06} tac={io w 0xff07} " ++
    s!"nr52={io w 0xff26} dma={io w 0xff46} joyp={io w 0xff00} " ++
    s!"wram={hex8 (sumVec m.wram)} hram={hex8 (sumFirst m.hram 0x7f)} vram={hex8 (sumVec m.vram)} oam={hex8 (sumOam m.oam.oam)}" ++
    s!" ; {hex2 r.u8a} {hex2 r.u8b} {hex2 r.m8a} {hex2 r.m8b} cyc={w.cpu.cycle} hb={b01 r.haltbug} st={b01 r.stopped} ei={b01 r.eiPending} " ++
    s!"bnd={b01 w.cpu.isFinished} ctr={hexN 4 m.timer.counter} oamf={oamFlags m.oam} apu={Tetro.Drv.Apu.internals w.b.apu}" ++ rtcStr m.cart

def frLine (s : St) (w : Whole) : String :=
  match status w with
  | some t => t
  | none =>
    let m := w.b.m
    let log := m.serial.log.map (·.toNat)
    s!"pix={hex8 (sumVec w.b.pix.frame)} cram={hex8 (sumList m.cart.dump)} serial={log.length}:{hex8 (sumList log)} " ++
    s!"samples={s.nS} {hex8 s.ckL} {hex8 s.ckR} dump=stable"

def romDir : IO String := do
  let r := (← IO.getEnv "VERIF_REPO").getD "/repo"
  return r ++ "/gameboy/testdata/"

def startFrom (bytes : ByteArray) : St × String :=
  match construct (imageOf bytes) true true with
  | some w => ({ w := some w }, "ok")
  | none => ({}, "construct-failed")

def step (s : St) (w : List String) : IO (St × String) := do
  match w with
  | ["reset", "load", path] =>
    let file := (← romDir) ++ path.replace "*" " "
    try
      let bytes ← IO.FS.readBinFile file
      return startFrom bytes
    catch _ => return ({}, "no-such-file")
  | ["reset", "synth", seed] =>
    match seed.toNat? with
    | some n => return startFrom (synthRom n)
    | none => return (s, "bad-op")
  | ["reset"] => return ({}, "ok")
  | "reset" :: "code" :: hdr :: segs =>
    match codeRom hdr segs with
    | some rom => return startFrom rom
    | none => return (s, "bad-op")
  | _ =>
    match s.w with
    | none => return (s, "nomachine")
    | some m =>
      match w with
      | ["btn", b, p] =>
        match b.toNat? with
        | some b => return ({ s with w := some (m.button b (p == "1")) }, "ok")
        | none => return (s, "bad-op")
      | ["run", n] =>
        match n.toNat? with
        | some n =>
          let s0 := { s with w := none }        -- the machine is owned by the run (updated in place)
          let m' := compact (Whole.run n m)
          let s' := drain s0 m'
          return (s', (status m').getD "ok")
        | none => return (s, "bad-op")
      | ["st"] => return (s, stLine m)
      | ["fr"] => return (s, frLine s m)
      | _ => return (s, "bad-op")

partial def run (lines : Array String) : IO Unit := do
  let out ← IO.getStdout
  let mut s : St := {}
  let mut buf : String := ""
  let mut n := 0
  for i in [1:lines.size] do
    let line := lines[i]!
    if line.isEmpty then continue
    let (s', o) ← step s (line.splitOn " ")
    s := s'
    buf := buf ++ o ++ "\n"
    n := n + 1
    if n % 256 == 0 then
      out.putStr buf
      buf := ""
  out.putStr buf
  out.flush

end Tetro.Drv.Prog
