import Tetro.DriverUtil
import Tetro.Model.Joyp
/- driver mode `joyp`: ops `reset | w <hex> | b <button> <0|1>`; output = JOYP read after the op -/
namespace Tetro.Drv.Joyp
open Tetro.Drv Tetro.Model

def modeName : String := "joyp"

def step (c : Joyp.Ctl) (w : List String) : Joyp.Ctl × String :=
  match w with
  | ["reset"] => (Joyp.init, hex2 (Joyp.read Joyp.init))
  | ["w", v] => match parseHex v with
      | some n => let c' := Joyp.write c (BitVec.ofNat 8 n); (c', hex2 (Joyp.read c'))
      | none => (c, "bad-op")
  | ["b", b, p] => match b.toNat?, p.toNat? with
      | some b, some p => let c' := Joyp.button c b (p != 0); (c', hex2 (Joyp.read c'))
      | _, _ => (c, "bad-op")
  | ["e", b, p] => match b.toNat?, p.toNat? with
      | some b, some p => (Joyp.button c b (p != 0), "ok")
      | _, _ => (c, "bad-op")
  | ["q", v] => match parseHex v with
      | some n => (Joyp.write c (BitVec.ofNat 8 n), "ok")
      | none => (c, "bad-op")
  | _ => (c, "bad-op")

def run (lines : Array String) : IO Unit := runMode lines 1 Joyp.init step

end Tetro.Drv.Joyp
