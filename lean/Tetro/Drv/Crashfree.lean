import Tetro.DriverUtil
namespace Tetro.Drv.Crashfree
open Tetro.Drv
def modeName : String := "crashfree"
def step (s : Unit) (w : List String) : Unit × String :=
  match w with
  | "reset" :: _ => (s, "no-crash")
  | "img" :: _ => (s, "no-crash")
  | "raw" :: _ => (s, "no-crash")
  | _ => (s, "bad-op")
def run (lines : Array String) : IO Unit := runMode lines 1 () step
end Tetro.Drv.Crashfree
