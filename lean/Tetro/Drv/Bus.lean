import Tetro.DriverUtil
import Tetro.Model.Machine
/- driver mode `bus` (C06, C07): the whole-machine bus model behind the REGENERATED address decoder.
   See go/harness/bus.go for the protocol:
   reset <type> <romsize> <ramsize> <lcd> | w <addr> <val> | r <addr> | snap | ls <addr> | tm | tp | tt |
   btn <b> <0|1> | cor | trg <addr> -/
namespace Tetro.Drv.Bus
open Tetro.Drv Tetro.Model Tetro.Model.Machine Tetro.Model.Decoder

def modeName : String := "bus"

/-- the byte both sides place at offset `o` of page `b` (= cartSig of go/harness/cart.go) -/
def sig (b o : Nat) : Nat :=
  ((b % 256) * 7 + (b / 256) * (o % 5) * 17 + o * 13 + (o / 256) * 5 + 1) % 256

def image (typ romSize ramSize len : Nat) : Cart.Image :=
  { len := len,
    byte := fun i =>
      if i = 0x147 then typ else if i = 0x148 then romSize else if i = 0x149 then ramSize
      else sig (i / 0x4000) (i % 0x4000) }

/-- `route` of the regenerated arms, tabulated once for the 65 536 addresses (same function, memoised) -/
def readTab : Array H := Array.ofFn (n := 65536) fun i => route Serial.genReadArms i.val
def writeTab : Array H := Array.ofFn (n := 65536) fun i => route Serial.genWriteArms i.val

def rH (a : Nat) : H := readTab.getD a (route Serial.genReadArms a)
def wH (a : Nat) : H := writeTab.getD a (route Serial.genWriteArms a)

/-- `busRead genReadArms`, a panicking read counted as 0x100 -/
def rd (m : Machine) (a : Nat) : Nat × Machine :=
  let h := rH a
  match readVal h m a with
  | some v => (v, readEff h m a)
  | none => (0x100, m)

def fnvStep (h : UInt32) (v : Nat) : UInt32 := (h ^^^ v.toUInt32) * 16777619
def fnv0 : UInt32 := 2166136261

/-- checksum loop over `n` consecutive addresses from `a` -/
def sumLoop (m : Machine) (a : Nat) (h : UInt32) : Nat → UInt32 × Machine
  | 0 => (h, m)
  | n + 1 =>
    let tag := rH a
    match readVal tag m a with
    | some v => sumLoop (readEff tag m a) (a + 1) (fnvStep h v) n
    | none => sumLoop m (a + 1) (fnvStep h 0x100) n

/-- checksum of the reads of `lo ..= hi` -/
def sumRange (m : Machine) (lo hi : Nat) : String × Machine :=
  let r := sumLoop m lo fnv0 (hi + 1 - lo)
  (hexN 8 r.1.toNat, r.2)

def sumList (m : Machine) (as : List Nat) : String × Machine := Id.run do
  let mut h := fnv0
  let mut s := m
  for a in as do
    let r := rd s a
    h := fnvStep h r.1
    s := r.2
  return (hexN 8 h.toNat, s)

def hexRange (m : Machine) (lo hi : Nat) : String × Machine := Id.run do
  let mut out := ""
  let mut s := m
  for a in [lo:hi+1] do
    let r := rd s a
    out := out ++ (if r.1 > 0xff then "xx" else hexN 2 r.1)
    s := r.2
  return (out, s)

def cartLo : List Nat := ((List.range 128).map (· * 0x101)) ++ [0x3fff, 0x4000, 0x7fff]
def cartHi : List Nat := ((List.range 127).map (0xa000 + · * 0x41)) ++ [0xbfff]

def oamFlags (m : Machine) : String :=
  b01 m.oam.dmaRunning ++ hex4 m.oam.dmaCycle ++ b01 m.oam.corrupt ++ b01 m.oam.read ++ b01 m.oam.write
    ++ b01 m.oam.doubleWrite

def isCart (a : Nat) : Bool := a < 0x8000 || (0xa000 ≤ a && a < 0xc000)
def isApu (a : Nat) : Bool := 0xff10 ≤ a && a < 0xff40

def snap (m : Machine) : String × Machine :=
  let on := m.ppu.enabled
  let (g1, m) := sumRange m 0x8000 0x9fff
  let (g2, m) := sumRange m 0xc000 0xfdff
  let (g3, m) := sumRange m 0xfe00 0xfeff
  let (i1, m) := hexRange m 0xff00 0xff0f
  let (i2, m) := hexRange m 0xff40 0xff4b
  let (g5, m) := sumRange m 0xff4c 0xff7f
  let (g4, m) := sumRange m 0xff80 0xffff
  let (c1, m) := sumList m cartLo
  let (c2, m) := sumList m cartHi
  let obs := " ".intercalate [g1, g2, g3, i1, i2, g5, g4]
  let internal := c1 ++ " " ++ c2 ++ " " ++ oamFlags m
  (if on then "- ; " ++ obs ++ " " ++ internal else obs ++ " ; " ++ internal, m)

def lightAddrs (a : Nat) : List Nat :=
  let xs := (List.range 16).map (0xff00 + ·) ++ (List.range 12).map (0xff40 + ·)
    ++ [(a + 0xffff) % 65536, a, (a + 1) % 65536, a ^^^ 0x2000]
    ++ (List.range 12).map fun i => (a * 0x9e37 + (i + 1) * 0x1235 + (i + 1) * (i + 1) * 0x0101) % 65536
  xs.filter fun b => !isApu b

def light (m : Machine) (a : Nat) : String × Machine := Id.run do
  let on := m.ppu.enabled
  let mut ho := fnv0
  let mut hi := fnv0
  let mut s := m
  for b in lightAddrs a do
    let r := rd s b
    if isCart b then hi := fnvStep hi r.1 else ho := fnvStep ho r.1
    s := r.2
  let so := hexN 8 ho.toNat
  let si := hexN 8 hi.toNat
  return (if on then "- ; " ++ so ++ " " ++ si else so ++ " ; " ++ si, s)

def doReset (typ rs ras : Nat) (lcd : String) : Option Machine × String :=
  if rs > 8 then (none, "fail") else
  match construct (image typ rs ras (0x4000 * (2 <<< rs))) false with
  | none => (none, "fail")
  | some m =>
    if lcd == "0" then
      match writeH (wH 0xff40) m 0xff40 0 with
      | some m' => (some m', "ok")
      | none => (none, "fail")
    else (some m, "ok")

def step (s : Option Machine) (w : List String) : Option Machine × String :=
  match w with
  | ["reset", t, rs, ras, lcd] => match parseHex t, parseHex rs, parseHex ras with
      | some t, some rs, some ras => doReset t rs ras lcd
      | _, _, _ => (s, "bad-op")
  | _ =>
    match s with
    | none => (s, "nomachine")
    | some m =>
      match w with
      | ["w", a, v] => match parseHex a, parseHex v with
          | some a, some v =>
            let a := a % 65536
            (match writeH (wH a) m a (v % 256) with
             | some m' => (some m', "ok")
             | none => (s, "crash"))
          | _, _ => (s, "bad-op")
      | ["r", a] => match parseHex a with
          | some a =>
            let a := a % 65536
            let h := rH a
            let pre := if m.ppu.enabled || isCart a || isApu a then "- ; " else ""
            (match readVal h m a with
             | some v => (some (readEff h m a), pre ++ hexN 2 v)
             | none => (s, pre ++ "crash"))
          | none => (s, "bad-op")
      | ["snap"] => let r := snap m; (some r.2, r.1)
      | ["ls", a] => match parseHex a with
          | some a => let r := light m (a % 65536); (some r.2, r.1)
          | none => (s, "bad-op")
      | ["tm"] => (match endMachineCycle Serial.genReadArms m with
          | some m' => (some m', "ok")
          | none => (s, "crash"))
      | ["tp"] => (match ppuTick m with
          | some m' => (some m', "ok")
          | none => (s, "crash"))
      | ["tt"] => (some (timerTick m), "ok ; irq=" ++ b01 (Timer.endCycleIrq m.timer))
      | ["btn", b, p] => (match b.toNat? with
          | some b => (some (button m b (p == "1")), "ok")
          | none => (s, "bad-op"))
      | ["cor"] => (match Oam.corruptStep m.oam with
          | some o => (some { m with oam := o }, "ok")
          | none => (s, "crash"))
      | ["trg", a] => match parseHex a with
          | some a => (some { m with oam := Oam.triggerWriteCorruption m.oam (BitVec.ofNat 16 a) }, "ok")
          | none => (s, "bad-op")
      | _ => (s, "bad-op")

def run (lines : Array String) : IO Unit := runMode lines 1 none step

end Tetro.Drv.Bus
