import Tetro.DriverUtil
import Tetro.Model.Apu
/- driver mode `apu` (C18–C21).  ops:
   reset <a>            a = bit0 left output attached, bit1 right output attached   → NR52
   w <addr4> <val2>     Mapper.Write, FF10–FF3F                                      → NR52 after the write
   r <addr4>            Mapper.Read,  FF10–FF3F                                      → value
   c <n>                n × EndMachineCycle → NR52 #left #right cksumL cksumR bad ; internals
   st                   → `st ; internals`
   wf                   → dutyIndex1 dutyIndex2 wavePosition lfsr
   m <ch> <k> <limit>   run machine cycles until ≥ k waveform steps of channel ch were seen
                        → first stepsAtFirst total steps   |  limit <steps>
   tk <hex>             set the clock counter (VerifSetTicks)                        → ok
   a crashed model (Go panic) prints `crash` -/
namespace Tetro.Drv.Apu
open Tetro.Drv Tetro.Model.Apu

def modeName : String := "apu"

def internals (a : Apu) : String :=
  hexN 16 a.ticks ++ " " ++ hexN 16 a.frameSeqTicks ++ " " ++ hexN 2 a.ch1.dutyIndex ++ " " ++
  hexN 2 a.ch2.dutyIndex ++ " " ++ hexN 2 a.ch3.position ++ " " ++ hexN 4 a.ch4.lfsr ++ " " ++
  hexN 2 a.ch1.length ++ " " ++ hexN 2 a.ch2.length ++ " " ++ hexN 4 a.ch3.length ++ " " ++
  hexN 2 a.ch4.length ++ " " ++ hexN 2 a.ch1.volume ++ " " ++ hexN 2 a.ch2.volume ++ " " ++
  hexN 2 a.ch4.volume ++ " " ++ hexN 4 a.ch1.frequency

def cksum (xs : List Nat) : Nat := xs.foldl (fun h n => (h * 16777619 + n + 1) % 4294967296) 0

def nr52 (a : Apu) : String := hexN 2 a.readNR52

def guardCrash (a : Apu) (s : String) : String := if a.crashed then "crash" else s

/-- waveform index of a channel and the modulus of its step counter (0 = "changed or not") -/
def wfIndex (a : Apu) (ch : Nat) : Nat :=
  match ch with
  | 1 => a.ch1.dutyIndex
  | 2 => a.ch2.dutyIndex
  | 3 => a.ch3.position
  | _ => a.ch4.lfsr

def wfDelta (ch old new : Nat) : Nat :=
  match ch with
  | 1 => (new + 8 - old % 8) % 8
  | 2 => (new + 8 - old % 8) % 8
  | 3 => (new + 32 - old % 32) % 32
  | _ => if new = old then 0 else 1

/-- measurement loop: fuel = remaining cycle budget -/
def measure (ch k : Nat) : Nat → Apu → (cyc steps : Nat) → (first : Option (Nat × Nat)) → Apu × String
  | 0, a, _, steps, _ => (a, s!"limit {steps}")
  | fuel + 1, a, cyc, steps, first =>
    let a' := a.endMachineCycle
    let d := wfDelta ch (wfIndex a ch) (wfIndex a' ch)
    let cyc := cyc + 1
    let steps := steps + d
    let first := match first with
      | none => if d > 0 then some (cyc, steps) else none
      | some f => some f
    if steps ≥ k then
      match first with
      | some (f, sf) => (a', s!"{f} {sf} {cyc} {steps}")
      | none => (a', s!"limit {steps}")
    else measure ch k fuel a' cyc steps first

def step (a : Apu) (w : List String) : Apu × String :=
  match w with
  | ["reset", x] => match x.toNat? with
      | some n => if n < 4 then
                    let a' := Apu.new (n % 2 = 1) (n / 2 = 1)
                    (a', guardCrash a' (nr52 a'))
                  else (a, "bad-op")
      | none => (a, "bad-op")
  | ["w", ad, v] => match parseHex ad, parseHex v with
      | some ad, some v =>
        if 0xFF10 ≤ ad ∧ ad < 0xFF40 ∧ v < 256 then
          let a' := a.write ad v
          (a', guardCrash a' (nr52 a'))
        else (a, "bad-op")
      | _, _ => (a, "bad-op")
  | ["r", ad] => match parseHex ad with
      | some ad =>
        if 0xFF10 ≤ ad ∧ ad < 0xFF40 then
          match a.read ad with
          | some v => (a, guardCrash a (hexN 2 v))
          | none => ({ a with crash := true }, "crash")
        else (a, "bad-op")
      | none => (a, "bad-op")
  | ["c", n] => match n.toNat? with
      | some n =>
        let a' := Apu.cycles n { a with out := [] }
        let outs := a'.out.reverse
        let o := nr52 a' ++ " " ++ toString outs.length ++ " " ++ toString outs.length ++ " " ++
                 hexN 8 (cksum (outs.map (·.1))) ++ " " ++ hexN 8 (cksum (outs.map (·.2))) ++ " 0 ; " ++ internals a'
        ({ a' with out := [] }, guardCrash a' o)
      | none => (a, "bad-op")
  | ["stall", n] => match n.toNat? with
      | some n =>
        -- a fresh sound unit with both outputs attached: a slow consumer changes nothing
        let b := Apu.cycles n (Apu.new true true)
        let outs := b.out.reverse
        (a, nr52 b ++ " " ++ toString outs.length ++ " " ++ toString outs.length ++ " " ++
            hexN 8 (cksum (outs.map (·.1))) ++ " " ++ hexN 8 (cksum (outs.map (·.2))))
      | none => (a, "bad-op")
  | ["st"] => (a, guardCrash a ("st ; " ++ internals a))
  | ["wf"] => (a, guardCrash a (hexN 2 a.ch1.dutyIndex ++ " " ++ hexN 2 a.ch2.dutyIndex ++ " " ++
                               hexN 2 a.ch3.position ++ " " ++ hexN 4 a.ch4.lfsr))
  | ["m", ch, k, lim] => match ch.toNat?, k.toNat?, lim.toNat? with
      | some ch, some k, some lim =>
        if 1 ≤ ch ∧ ch ≤ 4 then
          let (a', o) := measure ch k lim { a with out := [] } 0 0 none
          ({ a' with out := [] }, guardCrash a' o)
        else (a, "bad-op")
      | _, _, _ => (a, "bad-op")
  | ["tk", t] => match parseHex t with
      | some t => if t < two64 then ({ a with ticks := t }, "ok") else (a, "bad-op")
      | none => (a, "bad-op")
  | _ => (a, "bad-op")

def run (lines : Array String) : IO Unit := runMode lines 1 (Apu.new false false) step

end Tetro.Drv.Apu
