import Tetro.Model.Decoder
import Tetro.Model.Serial
import Tetro.Model.Joyp
import Tetro.Model.Timer
import Tetro.Model.Lcd
import Tetro.Model.Oam
import Tetro.Model.Cart
import Tetro.Spec.BusSpec
/-
The MACHINE BUS: model of gameboy/memory/mapper.go (`Mapper.Read`, `Mapper.Write`,
`Mapper.EndMachineCycle`), gameboy/interrupts/interrupts.go (IF / IE), the plain registers of
gameboy/ppu/registers.go (SCY SCX WY WX BGP OBP0 OBP1) and `ReadVideoRAM/WriteVideoRAM` of ppu.go,
COMPOSED with the component models that already exist (each tied to its Go file by its own
correspondence mode): Cart (mbc*.go, rtc.go), Joyp (controller.go), Serial, Timer, Lcd (LCDC STAT LY LYC
and the line/mode state machine), Oam (OAM bytes, DMA engine, OAM-bug flags).
Hand-written; tied to the code by the `bus` correspondence mode (go/harness/bus.go ↔ Drv/Bus.lean).

Conventions
* addresses and bytes on the bus are `Nat` (callers pass `a < 65536`, `v < 256`); values are converted at
  the boundary of the BitVec-valued components (Joyp, Serial, Oam).  `uint16` index arithmetic is
  `Oam.sub16` (wraps like Go).
* `internalRAM [0x2000]byte`, `zeroPage [0x8f]byte`, `videoRAM [0x2000]byte` are `Vector Nat n`; EVERY
  Go index expression is a checked access (`ldv`/`stv`): out of range → `none` = Go run-time panic.
* the decoder is a PARAMETER (`arms`): the driver runs the arms REGENERATED from mapper.go
  (`Serial.genReadArms/genWriteArms`), the theorems speak about `expectedReadArms/expectedWriteArms`;
  `c06_arms` (re-checked every run) says they are equal.
* `busRead` returns the value and the machine after the read (only `oam.Read` has a side effect: the
  OAM-bug "read" flag while the corruption window is open); `none` = Go panic.
* The APU is NOT modelled here yet: FF10–FF3F are routed to `ApuStub` (reads FF, ignores writes).
  To plug the real APU in: change the type of the field `apu`, and the two catch-all arms
  `| h => …` of `readVal` and `writeH` (plus `audio.EndMachineCycle` in the cycle schedule).
-/
namespace Tetro.Model.Machine
open Tetro.Model.Decoder
open Tetro.Model

/-! ### checked arrays -/

/-- `arr[i]` as an rvalue -/
def ldv {n : Nat} (m : Vector Nat n) (i : Nat) : Option Nat :=
  if h : i < n then some m[i] else none

/-- `arr[i] = v` -/
def stv {n : Nat} (m : Vector Nat n) (i v : Nat) : Option (Vector Nat n) :=
  if h : i < n then some (m.set i v h) else none

/-! ### interrupts.go (IF / IE registers and the request calls) -/

structure Intr where
  ime : Bool
  ie  : Nat      -- ieHighBits + the five enable flags = the byte last written
  ifl : Nat      -- the five request flags, bit k = source k
deriving DecidableEq, Repr

/-- `interrupts.New`: Enable(); WriteIE(0); WriteIF(1) -/
def Intr.init : Intr := { ime := true, ie := 0, ifl := 1 }

/-- `WriteIF`: only the five request flags are kept -/
def Intr.writeIF (i : Intr) (v : Nat) : Intr := { i with ifl := v % 32 }
/-- `ReadIF`: 0xe0 plus the five flags -/
def Intr.readIF (i : Intr) : Nat := 0xe0 + i.ifl
/-- `WriteIE`: high bits and the five enable flags (together: the whole byte) -/
def Intr.writeIE (i : Intr) (v : Nat) : Intr := { i with ie := v }
/-- `ReadIE` -/
def Intr.readIE (i : Intr) : Nat := i.ie
/-- `RequestVblank/Stat/Timer/Serial/Joypad` for source `k` when `b` -/
def Intr.request (i : Intr) (b : Bool) (k : Nat) : Intr :=
  if b then { i with ifl := i.ifl ||| (1 <<< k) } else i

/-! ### the plain PPU registers (registers.go) -/

/-- `bgpColour [4]uint8` etc. -/
structure Pal where
  c0 : Nat
  c1 : Nat
  c2 : Nat
  c3 : Nat
deriving DecidableEq, Repr

structure PpuRegs where
  scy  : Nat
  scx  : Nat
  wy   : Nat
  wx   : Nat
  bgp  : Pal
  obp0 : Pal
  obp1 : Pal
deriving DecidableEq, Repr

/-- `WriteBGP` -/
def palWrite (v : Nat) : Pal :=
  { c3 := (v >>> 6) &&& 0x03, c2 := (v >>> 4) &&& 0x03, c1 := (v >>> 2) &&& 0x03, c0 := v &&& 0x03 }
/-- `ReadBGP` (uint8 sum) -/
def palRead (p : Pal) : Nat :=
  ((p.c3 <<< 6) % 256 + (p.c2 <<< 4) % 256 + (p.c1 <<< 2) % 256 + p.c0) % 256
/-- `WriteOBP0/1`: colour 0 is never stored -/
def objPalWrite (p : Pal) (v : Nat) : Pal :=
  { p with c3 := (v >>> 6) &&& 0x03, c2 := (v >>> 4) &&& 0x03, c1 := (v >>> 2) &&& 0x03 }
/-- `ReadOBP0/1`: colour 0 is not added -/
def objPalRead (p : Pal) : Nat :=
  ((p.c3 <<< 6) % 256 + (p.c2 <<< 4) % 256 + (p.c1 <<< 2) % 256) % 256

def zeroPal : Pal := { c0 := 0, c1 := 0, c2 := 0, c3 := 0 }

/-- the registers after `ppu.New`: SCX SCY WX WY = 0, BGP = FC, OBP0 = OBP1 = FF -/
def PpuRegs.init : PpuRegs :=
  { scy := 0, scx := 0, wy := 0, wx := 0, bgp := palWrite 0xfc,
    obp0 := objPalWrite zeroPal 0xff, obp1 := objPalWrite zeroPal 0xff }

/-! ### APU placeholder -/

structure ApuStub where
  untouched : Unit := ()
deriving DecidableEq, Repr

def ApuStub.read (_ : ApuStub) (_ : H) (_ : Nat) : Option Nat := some 0xff
def ApuStub.write (s : ApuStub) (_ : H) (_ _ : Nat) : Option ApuStub := some s

/-! ### the machine -/

structure Machine where
  cart   : Cart.Mbc
  vram   : Vector Nat 0x2000       -- ppu.videoRAM
  wram   : Vector Nat 0x2000       -- Mapper.internalRAM
  hram   : Vector Nat 0x8f         -- Mapper.zeroPage
  intr   : Intr
  joyp   : Joyp.Ctl
  serial : Serial.Serial
  timer  : Timer.T
  ppu    : Lcd.Ppu
  regs   : PpuRegs
  oam    : Oam.Oam
  apu    : ApuStub

/-- `oam.EnterMode2` / `oam.ExitMode2` as called by `ppu.enable` / `ppu.disable` from `WriteLCDC`
    (same decision as `Lcd.lcdcSwitch`) -/
def oamAfterLcdc (p : Lcd.Ppu) (on : Bool) (o : Oam.Oam) : Oam.Oam :=
  if on = true ∧ p.enabled = false then Oam.enterMode2 o
  else if on = false ∧ p.enabled = true then Oam.exitMode2 o
  else o

/-- the machine as `gameboy.New` wires it (before the first cycle), for a constructed cartridge -/
def powerOn (cart : Cart.Mbc) (writer : Bool) : Machine :=
  { cart := cart,
    vram := Vector.replicate 0x2000 0, wram := Vector.replicate 0x2000 0, hram := Vector.replicate 0x8f 0,
    intr := Intr.init, joyp := Joyp.init, serial := Serial.init writer, timer := Timer.init,
    ppu := Lcd.init, regs := PpuRegs.init,
    oam := oamAfterLcdc Lcd.zero true Oam.init,      -- WriteLCDC(0x91) in ppu.New switches the LCD on
    apu := {} }

/-- `memory.New` + the other constructors; `none` = construction panics (malformed image) -/
def construct (img : Cart.Image) (writer : Bool) : Option Machine :=
  (Cart.construct img).map fun c => powerOn c writer

/-! ### Mapper.Read -/

/-- the value returned by the handler `h` of the `Read` switch -/
def readVal (h : H) (m : Machine) (a : Nat) : Option Nat :=
  match h with
  | .mbc   => m.cart.read a
  | .vram  => ldv m.vram (Oam.sub16 a 0x8000)
  | .wram  => ldv m.wram (Oam.sub16 a 0xc000)
  | .echo  => ldv m.wram (Oam.sub16 a 0xe000)
  | .oam   => (Oam.cpuRead m.oam (BitVec.ofNat 16 a)).map fun p => p.2.toNat
  | .joyp  => some (Joyp.read m.joyp).toNat
  | .sb    => some (Serial.readSB m.serial).toNat
  | .sc    => some (Serial.readSC m.serial).toNat
  | .div   => some (Timer.readDIV m.timer)
  | .tima  => some (Timer.readTIMA m.timer)
  | .tma   => some (Timer.readTMA m.timer)
  | .tac   => some (Timer.readTAC m.timer)
  | .ifl   => some m.intr.readIF
  | .ff    => some 0xff
  | .lcdc  => some (Lcd.readLCDC m.ppu)
  | .stat  => some (Lcd.readSTAT m.ppu)
  | .scy   => some m.regs.scy
  | .scx   => some m.regs.scx
  | .ly    => some (Lcd.readLY m.ppu)
  | .lyc   => some m.ppu.lyc
  | .dma   => some (Oam.readDMA m.oam).toNat
  | .bgp   => some (palRead m.regs.bgp)
  | .obp0  => some (objPalRead m.regs.obp0)
  | .obp1  => some (objPalRead m.regs.obp1)
  | .wy    => some m.regs.wy
  | .wx    => some m.regs.wx
  | .hram  => ldv m.hram (Oam.sub16 a 0xff80)
  | .ie    => some m.intr.readIE
  | .panic => none
  | .ignore => none          -- a write-only handler text in the read switch: not a known read
  | .unknown => none
  | h      => m.apu.read h a          -- NR10 … NR52, wave RAM

/-- the machine after the handler `h` of the `Read` switch ran (only `oam.Read` mutates) -/
def readEff (h : H) (m : Machine) (a : Nat) : Machine :=
  match h with
  | .oam => match Oam.cpuRead m.oam (BitVec.ofNat 16 a) with
            | some p => { m with oam := p.1 }
            | none => m
  | _ => m

/-- `Mapper.Read` -/
def busRead (arms : List Arm) (m : Machine) (a : Nat) : Option (Nat × Machine) :=
  (readVal (route arms a) m a).map fun v => (v, readEff (route arms a) m a)

/-- the value alone -/
def peek (arms : List Arm) (m : Machine) (a : Nat) : Option Nat := readVal (route arms a) m a

/-! ### Mapper.Write -/

/-- the handler `h` of the `Write` switch -/
def writeH (h : H) (m : Machine) (a v : Nat) : Option Machine :=
  match h with
  | .mbc   => (m.cart.write a v).map fun c => { m with cart := c }
  | .vram  => (stv m.vram (Oam.sub16 a 0x8000) v).map fun r => { m with vram := r }
  | .wram  => (stv m.wram (Oam.sub16 a 0xc000) v).map fun r => { m with wram := r }
  | .echo  => (stv m.wram (Oam.sub16 a 0xe000) v).map fun r => { m with wram := r }
  | .oam   => (Oam.cpuWrite m.oam (BitVec.ofNat 16 a) (BitVec.ofNat 8 v)).map fun o => { m with oam := o }
  | .joyp  => some { m with joyp := Joyp.write m.joyp (BitVec.ofNat 8 v) }
  | .sb    => some { m with serial := Serial.writeSB m.serial (BitVec.ofNat 8 v) }
  | .sc    => some m
  | .div   => some { m with timer := Timer.writeDIV m.timer }
  | .tima  => some { m with timer := Timer.writeTIMA m.timer v }
  | .tma   => some { m with timer := Timer.writeTMA m.timer v }
  | .tac   => some { m with timer := Timer.writeTAC m.timer v }
  | .ifl   => some { m with intr := m.intr.writeIF v }
  | .ignore => some m
  | .lcdc  => some { m with ppu := Lcd.wLCDC m.ppu v, oam := oamAfterLcdc m.ppu (v.testBit 7) m.oam }
  | .stat  => some { m with ppu := Lcd.wSTAT m.ppu v }
  | .scy   => some { m with regs := { m.regs with scy := v } }
  | .scx   => some { m with regs := { m.regs with scx := v } }
  | .ly    => some { m with ppu := Lcd.wLY m.ppu v }
  | .lyc   => some { m with ppu := Lcd.wLYC m.ppu v }
  | .dma   => some { m with oam := Oam.writeDMA m.oam (BitVec.ofNat 8 v) }
  | .bgp   => some { m with regs := { m.regs with bgp := palWrite v } }
  | .obp0  => some { m with regs := { m.regs with obp0 := objPalWrite m.regs.obp0 v } }
  | .obp1  => some { m with regs := { m.regs with obp1 := objPalWrite m.regs.obp1 v } }
  | .wy    => some { m with regs := { m.regs with wy := v } }
  | .wx    => some { m with regs := { m.regs with wx := v } }
  | .hram  => (stv m.hram (Oam.sub16 a 0xff80) v).map fun r => { m with hram := r }
  | .ie    => some { m with intr := m.intr.writeIE v }
  | .panic => none
  | .ff    => none           -- a read-only handler text in the write switch: not a known write
  | .unknown => none
  | h      => (m.apu.write h a v).map fun s => { m with apu := s }     -- NR10 … NR52, wave RAM

/-- `Mapper.Write` -/
def busWrite (arms : List Arm) (m : Machine) (a v : Nat) : Option Machine :=
  writeH (route arms a) m a v

/-! ### the per-cycle calls of `runFrame` that touch the bus state -/

/-- the address `TickDMA` reads through the bus in this cycle (if any) -/
def dmaReadAddr (o : Oam.Oam) : Option Nat :=
  if o.dmaRunning then
    if o.dmaCycle.toNat = 0 then none
    else if o.dmaCycle.toNat = 1 then some o.dmaBaseAddr.toNat
    else if o.dmaCycle.toNat = 161 then none
    else some (Oam.sub16 (Oam.add16 o.dmaBaseAddr.toNat o.dmaCycle.toNat) 1)
  else none

/-- `m.oam.TickDMA(m.Read)`: the (at most one) bus read of the cycle is done first, then the engine steps
    with that byte.  (In Go the store `m.oam[dmaCycle-2] = …` precedes the read; if it panics the outcome
    is `none` either way.) -/
def tickDMA (arms : List Arm) (m : Machine) : Option Machine :=
  match dmaReadAddr m.oam with
  | none => (Oam.tickDMA m.oam fun _ => 0).map fun o => { m with oam := o }
  | some a =>
    (busRead arms m a).bind fun r =>
      (Oam.tickDMA r.2.oam fun _ => BitVec.ofNat 8 r.1).map fun o => { r.2 with oam := o }

/-- `Mapper.EndMachineCycle`: `TickDMA(m.Read)`, then `rtc.tick()` -/
def endMachineCycle (arms : List Arm) (m : Machine) : Option Machine :=
  (tickDMA arms m).map fun m' => { m' with cart := m'.cart.tick }

/-- what `ppu.EndMachineCycle` does to the OAM unit when the LCD is on: `EnterMode2/ExitMode2` at the mode
    switch, and the `PPURead` calls of `checkOverlappingSprites` (mode 2) leave `ppuLastAccess` at the
    second sprite of the cycle (`0xfe00 + uint16(uint8(lx*2+1)*4)`).  NOT modelled: the `PPURead` calls of
    the pixel renderer in mode 3 (C15's model); they move `ppuLastAccess` while the corruption window is
    closed, which a machine that calls `oam.Corrupt()` right after every CPU access (as the CPU does) never
    observes – the `bus` mode keeps to that schedule in its LCD-on runs. -/
def oamAfterTick (p : Lcd.Ppu) (o : Oam.Oam) : Oam.Oam :=
  let c := Lcd.swCorrupt p.mode p.ticks o.corrupt
  if Lcd.nextMode p.mode p.ticks = 2 then
    { o with corrupt := c,
             ppuLastAccess := BitVec.ofNat 16 (0xfe00 + ((p.ticks % 114 * 2 + 1) % 256 * 4) % 256) }
  else { o with corrupt := c }

/-- `ppu.EndMachineCycle` (timing, requests, OAM-bug window; pixels are C15's); `none` = Go panic -/
def ppuTick (m : Machine) : Option Machine :=
  (Lcd.tick m.ppu).map fun r =>
    { m with ppu := r.p,
             intr := (m.intr.request r.vbl 0).request r.stat 1,
             oam := if m.ppu.enabled then oamAfterTick m.ppu m.oam else m.oam }

/-- `if timer.EndMachineCycle() { interrupts.RequestTimer() }` -/
def timerTick (m : Machine) : Machine :=
  { m with timer := Timer.endCycle m.timer,
           intr := m.intr.request (Timer.endCycleIrq m.timer) 2 }

/-- `controller.ButtonAction` -/
def button (m : Machine) (b : Nat) (pressed : Bool) : Machine :=
  { m with joyp := Joyp.button m.joyp b pressed }

/-! ### histories of bus accesses -/

open Tetro.Spec.BusSpec (BusOp)

/-- run a history; the values of the reads in order.  `none` as soon as one access panics -/
def runOps (ra wa : List Arm) (m : Machine) : List BusOp → Option (List Nat × Machine)
  | [] => some ([], m)
  | .rd a :: ops =>
    (busRead ra m a).bind fun r => (runOps ra wa r.2 ops).map fun q => (r.1 :: q.1, q.2)
  | .wr a v :: ops =>
    (busWrite wa m a v).bind fun m' => runOps ra wa m' ops

end Tetro.Model.Machine
