/-
Model of gameboy/oam/oam.go (hand-written, function for function; tied to the code by the `oam`
correspondence mode).

Conventions
* bytes are `BitVec 8`; the `uint16` FIELDS (`dmaCycle`, `dmaBaseAddr`, `ppuLastAccess`) and the
  address arguments are `BitVec 16`.  `uint16` ARITHMETIC (row / index computations) is done on
  `Nat` with an explicit `% 65536` after EVERY Go operation (`add16`, `sub16`, `mul16`), so Go's
  wrap-around is reproduced exactly and `omega` can reason about it; the 16-bit words that the
  corruption formulas combine bitwise are `BitVec 16`.
* the 160 OAM bytes are a `Vector (BitVec 8) 160`.  EVERY Go index expression `m.oam[i]` and slice
  expression `m.oam[lo:hi]` is a checked operation (`ld`, `st`, `copy`): out of range → `none`,
  which is the Go run-time panic (the driver prints `crash`).  Nothing is totalised.
* a method that mutates the receiver returns the new record; a method that also returns a value
  returns a pair (state, value).
* `copy(dst, src)` on overlapping slices of the same array has memmove semantics: all source
  bytes are read from the memory as it was before the call (`copyN`).
* the three row-corruption bodies (`writeCorruption`, `readCorruption`, `doubleWriteCorruption`)
  are textually identical in Go except for the row guard and the bitwise formula; the common
  statement sequence is `patchRow`, each Go function is still its own definition.
-/
namespace Tetro.Model.Oam

abbrev Byte := BitVec 8
abbrev Addr := BitVec 16
abbrev Mem := Vector Byte 160

/-! ### uint16 arithmetic on `Nat` (operands < 65536) -/
def add16 (a b : Nat) : Nat := (a + b) % 65536
def sub16 (a b : Nat) : Nat := (a + 65536 - b) % 65536
def mul16 (a b : Nat) : Nat := (a * b) % 65536

/-! ### checked array accesses -/

/-- `m.oam[i]` as an rvalue -/
def ld (m : Mem) (i : Nat) : Option Byte :=
  if h : i < 160 then some m[i] else none

/-- `m.oam[i] = v` -/
def st (m : Mem) (i : Nat) (v : Byte) : Option Mem :=
  if h : i < 160 then some (m.set i v h) else none

/-- memmove of `n` bytes from offset `s` to offset `d` (both ranges inside the array) -/
def copyN (m : Mem) (d s n : Nat) (hs : s + n ≤ 160) : Mem :=
  Vector.ofFn fun (i : Fin 160) =>
    if h : d ≤ i.val ∧ i.val < d + n then m[s + (i.val - d)]'(by omega) else m[i.val]

/-- `copy(m.oam[dlo:dhi], m.oam[slo:shi])`: both slice expressions are bounds-checked
    (`lo ≤ hi ≤ len`), then `min(len dst, len src)` bytes are moved. -/
def copy (m : Mem) (dlo dhi slo shi : Nat) : Option Mem :=
  if h : dlo ≤ dhi ∧ dhi ≤ 160 ∧ slo ≤ shi ∧ shi ≤ 160 then
    some (copyN m dlo slo (min (dhi - dlo) (shi - slo)) (by omega))
  else none

/-- `uint16(hi)<<8 + uint16(lo)` -/
def word (hi lo : Byte) : BitVec 16 := (hi.setWidth 16 <<< 8) + lo.setWidth 16
/-- `uint8(a >> 8)` -/
def hiByte (a : BitVec 16) : Byte := (a >>> 8).setWidth 8
/-- `uint8(a & 0xff)` -/
def loByte (a : BitVec 16) : Byte := (a &&& 0xff).setWidth 8

structure Oam where
  oam           : Mem
  dmaRunning    : Bool
  dmaCycle      : Addr
  dmaBaseAddr   : Addr
  dma           : Byte
  dmaRead       : Byte
  corrupt       : Bool
  ppuLastAccess : Addr
  read          : Bool
  write         : Bool
  doubleWrite   : Bool

/-- `oam.New` : the zero value -/
def init : Oam :=
  { oam := Vector.replicate 160 0, dmaRunning := false, dmaCycle := 0, dmaBaseAddr := 0, dma := 0,
    dmaRead := 0, corrupt := false, ppuLastAccess := 0, read := false, write := false,
    doubleWrite := false }

/-- `TriggerWriteCorruption` -/
def triggerWriteCorruption (s : Oam) (u16 : Addr) : Oam :=
  if !s.corrupt || u16.toNat < 0xfe00 || u16.toNat > 0xfeff then s
  else if s.write then { s with doubleWrite := true }
  else { s with write := true }

/-- `(m.ppuLastAccess - 0xfe00) / 8` -/
def rowOf (s : Oam) : Nat := sub16 s.ppuLastAccess.toNat 0xfe00 / 8

/-- the statement sequence shared by the three single-row corruptions, for the row starting at
    `rs`, with `f a b c` the bitwise formula:
    ```
    a := uint16(m.oam[rs])<<8 + uint16(m.oam[rs+1])
    b := uint16(m.oam[rs-8])<<8 + uint16(m.oam[rs-7])
    c := uint16(m.oam[rs-4])<<8 + uint16(m.oam[rs-3])
    a = f a b c
    m.oam[rs] = uint8(a >> 8); m.oam[rs+1] = uint8(a & 0xff)
    copy(m.oam[rs+2:rs+8], m.oam[rs-6:rs])
    ``` -/
def patchRow (f : BitVec 16 → BitVec 16 → BitVec 16 → BitVec 16) (m : Mem) (rs : Nat) : Option Mem := do
  let a0 ← ld m rs
  let a1 ← ld m (add16 rs 1)
  let b0 ← ld m (sub16 rs 8)
  let b1 ← ld m (sub16 rs 7)
  let c0 ← ld m (sub16 rs 4)
  let c1 ← ld m (sub16 rs 3)
  let a := f (word a0 a1) (word b0 b1) (word c0 c1)
  let m1 ← st m rs (hiByte a)
  let m2 ← st m1 (add16 rs 1) (loByte a)
  copy m2 (add16 rs 2) (add16 rs 8) (sub16 rs 6) rs

def fWrite (a b c : BitVec 16) : BitVec 16 := ((a ^^^ c) &&& (b ^^^ c)) ^^^ c
def fRead (a b c : BitVec 16) : BitVec 16 := b ||| (a &&& c)

/-- `writeCorruption` -/
def writeCorruption (s : Oam) : Option Oam :=
  let rowStart := mul16 (rowOf s) 8
  if rowStart = 0 then some s
  else (patchRow fWrite s.oam rowStart).map fun m => { s with oam := m }

/-- `readCorruption` -/
def readCorruption (s : Oam) : Option Oam :=
  let rowStart := mul16 (rowOf s) 8
  if rowStart = 0 then some s
  else (patchRow fRead s.oam rowStart).map fun m => { s with oam := m }

def fReadWrite (a b c d : BitVec 16) : BitVec 16 := (b &&& (a ||| c ||| d)) ||| (a &&& c &&& d)

/-- the memory part of `readWriteCorruption` for `rowStart = rs` -/
def patchReadWrite (m : Mem) (rs : Nat) : Option Mem := do
  let a0 ← ld m (sub16 rs 16)
  let a1 ← ld m (sub16 rs 15)
  let b0 ← ld m (sub16 rs 8)
  let b1 ← ld m (sub16 rs 7)
  let c0 ← ld m rs
  let c1 ← ld m (add16 rs 1)
  let d0 ← ld m (sub16 rs 4)
  let d1 ← ld m (sub16 rs 3)
  let b := fReadWrite (word a0 a1) (word b0 b1) (word c0 c1) (word d0 d1)
  let m1 ← st m (sub16 rs 8) (hiByte b)
  let m2 ← st m1 (sub16 rs 7) (loByte b)
  let m3 ← copy m2 rs (add16 rs 8) (sub16 rs 8) rs
  copy m3 (sub16 rs 16) (sub16 rs 8) (sub16 rs 8) rs

/-- `readWriteCorruption` -/
def readWriteCorruption (s : Oam) : Option Oam :=
  let row := rowOf s
  if row < 5 ∨ row = 19 then some s
  else (patchReadWrite s.oam (mul16 row 8)).map fun m => { s with oam := m }

/-- `doubleWriteCorruption` (current code: guard `row < 2`) -/
def doubleWriteCorruption (s : Oam) : Option Oam :=
  let row := rowOf s
  if row < 2 then some s
  else (patchRow fWrite s.oam (mul16 (sub16 row 1) 8)).map fun m => { s with oam := m }

/-- `doubleWriteCorruption` BEFORE fix 3b49160:
    `rowStart := (((m.ppuLastAccess - 0xfe00) / 8) - 1) * 8; if rowStart < 1 { return }`.
    Kept only to show what the fix repaired (`Proofs/C17Oam.lean`); not used by the model. -/
def doubleWriteCorruptionOld (s : Oam) : Option Oam :=
  let rowStart := mul16 (sub16 (rowOf s) 1) 8
  if rowStart < 1 then some s
  else (patchRow fWrite s.oam rowStart).map fun m => { s with oam := m }

/-- the `else` branch of `Corrupt`: `if m.doubleWrite {…}; if m.write {…}` -/
def corruptWrites (s : Oam) : Option Oam :=
  (if s.doubleWrite then doubleWriteCorruption s else some s).bind fun t =>
  if t.write then writeCorruption t else some t

/-- `Corrupt` -/
def corruptStep (s : Oam) : Option Oam :=
  if !s.read && !s.write then some s
  else
    (if s.read && s.write then readWriteCorruption s else some s).bind fun s1 =>
    (if s1.read then readCorruption s1 else corruptWrites s1).bind fun s2 =>
    some { s2 with read := false, write := false, doubleWrite := false }

/-- `EnterMode2` -/
def enterMode2 (s : Oam) : Oam := { s with corrupt := true }
/-- `ExitMode2` -/
def exitMode2 (s : Oam) : Oam := { s with corrupt := false }

/-- `Read`, called `cpuRead` here because `read` is a field (the flag is set before the index expression is evaluated, but a panic ends the
    machine, so only the non-crashing result carries a state) -/
def cpuRead (s : Oam) (addr : Addr) : Option (Oam × Byte) :=
  if s.dmaRunning then some (s, 0xff)
  else
    let s1 := if s.corrupt then { s with read := true } else s
    if addr.toNat ≥ 0xfea0 then some (s1, 0)
    else (ld s1.oam (sub16 addr.toNat 0xfe00)).map fun v => (s1, v)

/-- the flag update at the top of `Write` -/
def writeFlags (s : Oam) : Oam :=
  if s.corrupt then
    (if s.write then { s with doubleWrite := true } else { s with write := true })
  else s

/-- `Write` (called `cpuWrite` here because `write` is a field) -/
def cpuWrite (s : Oam) (addr : Addr) (value : Byte) : Option Oam :=
  let s1 := writeFlags s
  if addr.toNat < 0xfea0 then
    (st s1.oam (sub16 addr.toNat 0xfe00) value).map fun m => { s1 with oam := m }
  else some s1

/-- `PPURead` -/
def ppuRead (s : Oam) (addr : Addr) : Option (Oam × Byte) :=
  let s1 := { s with ppuLastAccess := addr }
  if s1.dmaRunning then some (s1, 0xff)
  else (ld s1.oam (sub16 addr.toNat 0xfe00)).map fun v => (s1, v)

/-- `m.dmaCycle++` -/
def incCycle (s : Oam) : Oam := { s with dmaCycle := BitVec.ofNat 16 (add16 s.dmaCycle.toNat 1) }

/-- `TickDMA(read)`; `rd` is the bus read function of THIS machine cycle -/
def tickDMA (s : Oam) (rd : Addr → Byte) : Option Oam :=
  if s.dmaRunning then
    if s.dmaCycle.toNat = 0 then some (incCycle s)
    else if s.dmaCycle.toNat = 1 then some (incCycle { s with dmaRead := rd s.dmaBaseAddr })
    else if s.dmaCycle.toNat = 161 then
      (st s.oam 159 s.dmaRead).map fun m => incCycle { s with oam := m, dmaRunning := false }
    else
      (st s.oam (sub16 s.dmaCycle.toNat 2) s.dmaRead).map fun m =>
        incCycle { s with oam := m,
                          dmaRead := rd (BitVec.ofNat 16
                            (sub16 (add16 s.dmaBaseAddr.toNat s.dmaCycle.toNat) 1)) }
  else some s

/-- `startDMA` -/
def startDMA (s : Oam) (value : Byte) : Oam :=
  let base := (value.toNat <<< 8) % 65536
  let base' := if base ≥ 0xe000 then sub16 base 0x2000 else base
  { s with dmaRunning := true, dmaCycle := 0, dmaBaseAddr := BitVec.ofNat 16 base' }

/-- `WriteDMA` -/
def writeDMA (s : Oam) (value : Byte) : Oam := startDMA { s with dma := value } value

/-- `ReadDMA` -/
def readDMA (s : Oam) : Byte := s.dma

/-! ### one record of all exported operations (used by the proofs about histories) -/
inductive Op where
  | read (a : Addr)
  | write (a : Addr) (v : Byte)
  | ppuRead (a : Addr)
  | trigger (a : Addr)
  | corrupt
  | enter
  | exit
  | writeDMA (v : Byte)
  | readDMA
  | tick (rd : Addr → Byte)

/-- state after one exported call (`none` = the call panicked) -/
def step (s : Oam) : Op → Option Oam
  | .read a => (cpuRead s a).map (·.1)
  | .write a v => cpuWrite s a v
  | .ppuRead a => (ppuRead s a).map (·.1)
  | .trigger a => some (triggerWriteCorruption s a)
  | .corrupt => corruptStep s
  | .enter => some (enterMode2 s)
  | .exit => some (exitMode2 s)
  | .writeDMA v => some (writeDMA s v)
  | .readDMA => some s
  | .tick rd => tickDMA s rd

/-- a history; stops with `none` at the first panic -/
def run (s : Oam) : List Op → Option Oam
  | [] => some s
  | op :: ops => (step s op).bind fun s' => run s' ops

/-- `n` consecutive `TickDMA` calls; call number `i` (1-based, counted from `t0+1`) sees the bus
    `bus i` – the memory may change from cycle to cycle -/
def runTicks (s : Oam) (bus : Nat → Addr → Byte) (t0 : Nat) : Nat → Option Oam
  | 0 => some s
  | n + 1 => (runTicks s bus t0 n).bind fun s' => tickDMA s' (bus (t0 + n + 1))

end Tetro.Model.Oam
