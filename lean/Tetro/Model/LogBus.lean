import Tetro.Model.CpuExec
import Tetro.Spec.IsaBus
/-
A recording bus: the flat bus of the ISA theorems wrapped so that every `read` and every `write` the CPU
model performs is appended to a log, in order, with its kind and address.  Everything else (OAM-bug
hooks, interrupt controller) is delegated to the flat bus and not logged.  Used by C03 to state in which
machine cycle each data access of an instruction happens.  The CPU model itself (`MicroOp.run`, `cycle`)
is generic in the bus, so this is the SAME code running on an instrumented memory.
-/
namespace Tetro.Model.Cpu
open Tetro.Spec.Isa (Kind)

structure LogBus where
  flat : Flat
  log  : List (Kind × Word)

instance : Bus LogBus where
  read m a := (m.flat.read a, { m with log := m.log ++ [(.rd, a)] })
  write m a v := { flat := m.flat.write a v, log := m.log ++ [(.wr, a)] }
  trigger m _ := m
  corrupt m := m
  ime m := m.flat.ime
  setIme m v := { m with flat := Bus.setIme m.flat v }
  ie m := m.flat.ie
  iflag m := m.flat.ifl
  clearIf m k := { m with flat := Bus.clearIf m.flat k }

end Tetro.Model.Cpu
