import Tetro.Model.CpuExec
import Std.Data.HashMap
/-
`Plain`: the executable bus used to co-simulate the CPU model against the real CPU + Mapper when
the guest stays inside the plain regions (all-zero 32 KiB ROM-only cartridge, VRAM with the LCD off,
WRAM + echo, OAM without DMA/OAM-bug, HRAM, IF, IE).  Other I/O registers are NOT modelled here (the
`cpu` harness mode never touches them); the whole-machine bus lives in Tetro.Model.Machine.
-/
namespace Tetro.Model.Cpu

structure Plain where
  mem : Std.HashMap Nat Byte      -- sparse, default 0
  ime : Bool
  ie  : Byte
  ifl : Byte

def Plain.init : Plain := { mem := {}, ime := true, ie := 0, ifl := 0x01 }

/-- canonical storage address (echo RAM folds onto WRAM) -/
def Plain.canon (a : Nat) : Nat := if 0xe000 ≤ a ∧ a < 0xfe00 then a - 0x2000 else a

def Plain.read (m : Plain) (a : Word) : Byte :=
  let n := a.toNat
  if n < 0x8000 then 0
  else if 0xa000 ≤ n ∧ n < 0xc000 then 0xff
  else if 0xfea0 ≤ n ∧ n < 0xff00 then 0
  else if n = 0xff0f then m.ifl ||| 0xe0
  else if n = 0xffff then m.ie
  else if 0xff00 ≤ n ∧ n < 0xff80 then 0xff
  else m.mem.getD (Plain.canon n) 0

def Plain.write (m : Plain) (a : Word) (v : Byte) : Plain :=
  let n := a.toNat
  if n < 0x8000 then m
  else if 0xa000 ≤ n ∧ n < 0xc000 then m
  else if 0xfea0 ≤ n ∧ n < 0xff00 then m
  else if n = 0xff0f then { m with ifl := v &&& 0x1f }
  else if n = 0xffff then { m with ie := v }
  else if 0xff00 ≤ n ∧ n < 0xff80 then m
  else { m with mem := m.mem.insert (Plain.canon n) v }

instance : Bus Plain where
  read m a := (m.read a, m)
  write := Plain.write
  trigger m _ := m
  corrupt m := m
  ime m := m.ime
  setIme m v := { m with ime := v }
  ie m := m.ie
  iflag m := m.ifl
  clearIf m k := { m with ifl := m.ifl &&& ~~~((1 : Byte) <<< k) }

end Tetro.Model.Cpu
