import Tetro.Model.Rtc
/-
Model of the cartridge side of gameboy/memory: mbc.go (`newMBC`, `prepareROM`, `prepareRAM`,
`none`), mbc1.go, mbc2.go, mbc3.go, mbc5.go and the cartridge routing of mapper.go
(`Mapper.Read/Write` for 0000-7FFF and A000-BFFF, `EndMachineCycle` → `rtc.tick`, `DumpRAM`).
Hand-written, function for function; tied to the code by the `cart` and `rtc` correspondence modes.

Representation
* Go integers are `Nat`; every truncation of the source is written out (`% 256` for a `uint8`
  conversion or `uint8` arithmetic, `% 65536` for `uint16`); masks are `&&&` as in the source.
* ROM pages `[][0x4000]byte` are a FUNCTION `page → offset → byte` plus the slice length
  `romLen`; the contents are a parameter of every theorem.  RAM banks `[][0x2000]byte` likewise
  (`ram`, `ramLen`), updated functionally.
* Every Go index expression and every `%` by a non-constant is a checked operation returning
  `Option` (`none` = the Go code panics = the driver prints `crash`); nothing is totalised.
* The `*rtc` shared between `Mapper` and `mbc3` is stored in the `Mbc3` record; for the other
  controllers the Mapper's clock is unobservable and is not modelled.
-/
namespace Tetro.Model.Cart

abbrev Rom := Nat → Nat → Nat      -- page → offset → byte
abbrev Ram := Nat → Nat → Nat      -- bank → offset → byte

/-- `a % n` for a non-constant `n`: Go panics on a zero divisor -/
def mod? (a n : Nat) : Option Nat := if n = 0 then none else some (a % n)

/-- `rom[b][o]` on a `[][0x4000]byte` of length `len` -/
def page? (rom : Rom) (len b o : Nat) : Option Nat :=
  if b < len ∧ o < 0x4000 then some (rom b o) else none

/-- `ram[b][o]` on a `[][0x2000]byte` of length `len` -/
def bank? (ram : Ram) (len b o : Nat) : Option Nat :=
  if b < len ∧ o < 0x2000 then some (ram b o) else none

def setRam (ram : Ram) (b o v : Nat) : Ram :=
  fun b' o' => if b' = b ∧ o' = o then v else ram b' o'

/-- `ram[b][o] = v` -/
def bankSet? (ram : Ram) (len b o v : Nat) : Option Ram :=
  if b < len ∧ o < 0x2000 then some (setRam ram b o v) else none

/-- the loop of `DumpRAM` of mbc1/mbc3/mbc5 (a `range` loop: no index expression) -/
def dumpBanks (ram : Ram) (len : Nat) : List Nat :=
  (List.range len).flatMap fun b => (List.range 0x2000).map fun o => ram b o

/-- `value&0x0f == 0x0a` -/
def enableBit (v : Nat) : Bool := (v &&& 0x0f) == 0x0a

/-! ### `none` (ROM only) -/

structure NoMbc where
  rom : Rom          -- the flat image, seen as pages: byte i = rom (i / 0x4000) (i % 0x4000)
  imgLen : Nat       -- len(romImage) in bytes

def NoMbc.read (m : NoMbc) (addr : Nat) : Option Nat :=
  if addr < 0x8000 then
    (if addr < m.imgLen then some (m.rom (addr / 0x4000) (addr % 0x4000)) else none)
  else some 0xff

def NoMbc.write (m : NoMbc) (_addr _v : Nat) : Option NoMbc := some m

/-! ### MBC1 -/

structure Mbc1 where
  rom : Rom
  romLen : Nat
  ram : Ram
  ramLen : Nat
  ramEnabled : Bool
  bank1 : Nat
  bank2 : Nat
  mode1 : Bool
  romBank0 : Nat
  romBank1 : Nat
  ramBank : Nat

/-- the "Update ROM bank 0" statement of `updateBanks` -/
def Mbc1.newRomBank0 (m : Mbc1) : Option Nat :=
  if m.mode1 then mod? ((m.bank2 <<< 5) % 256) (m.romLen % 256) else some 0

/-- the "Update RAM bank" statement -/
def Mbc1.newRamBank (m : Mbc1) : Option Nat :=
  if m.ramEnabled then
    (if m.mode1 then mod? m.bank2 (m.ramLen % 256) else some 0)
  else some m.ramBank

/-- `(*mbc1).updateBanks` -/
def Mbc1.updateBanks (m : Mbc1) : Option Mbc1 :=
  (Mbc1.newRomBank0 m).bind fun rb0 =>
  (mod? (m.bank1 ||| (m.bank2 <<< 5) % 256) (m.romLen % 256)).bind fun rb1 =>
  (Mbc1.newRamBank m).bind fun rk =>
  some { m with romBank0 := rb0, romBank1 := rb1, ramBank := rk }

/-- `newMBC1` -/
def Mbc1.new (rom : Rom) (romLen : Nat) (ram : Ram) (ramLen : Nat) : Option Mbc1 :=
  Mbc1.updateBanks
    { rom := rom, romLen := romLen, ram := ram, ramLen := ramLen, ramEnabled := false,
      bank1 := 1, bank2 := 0, mode1 := false, romBank0 := 0, romBank1 := 0, ramBank := 0 }

def Mbc1.read (m : Mbc1) (addr : Nat) : Option Nat :=
  if addr < 0x4000 then page? m.rom m.romLen m.romBank0 addr
  else if addr < 0x8000 then page? m.rom m.romLen m.romBank1 (addr - 0x4000)
  else if addr < 0xa000 then some 0xff
  else if addr < 0xc000 then
    (if m.ramEnabled then bank? m.ram m.ramLen m.ramBank (addr - 0xa000) else some 0xff)
  else some 0xff

/-- `m.bank1 = value & 0x1f; if m.bank1 == 0 { m.bank1++ }` -/
def Mbc1.bank1Of (v : Nat) : Nat := if v &&& 0x1f = 0 then (v &&& 0x1f) + 1 else v &&& 0x1f

def Mbc1.write (m : Mbc1) (addr v : Nat) : Option Mbc1 :=
  if addr < 0x2000 then Mbc1.updateBanks { m with ramEnabled := enableBit v }
  else if addr < 0x4000 then Mbc1.updateBanks { m with bank1 := Mbc1.bank1Of v }
  else if addr < 0x6000 then Mbc1.updateBanks { m with bank2 := v &&& 0x03 }
  else if addr < 0x8000 then Mbc1.updateBanks { m with mode1 := (v &&& 0x01) != 0 }
  else if addr < 0xa000 then some m
  else if addr < 0xc000 then
    (if m.ramEnabled then
      (bankSet? m.ram m.ramLen m.ramBank (addr - 0xa000) v).bind fun r => some { m with ram := r }
     else some m)
  else some m

/-! ### MBC2 -/

structure Mbc2 where
  rom : Rom
  romLen : Nat
  ram : Nat → Nat          -- `make([]byte, 512)`
  ramEnabled : Bool
  romBank : Nat

/-- `newMBC2` -/
def Mbc2.new (rom : Rom) (romLen : Nat) : Mbc2 :=
  { rom := rom, romLen := romLen, ram := fun _ => 0, ramEnabled := false, romBank := 1 }

/-- `m.ram[o]` on a 512-byte slice -/
def cell? (ram : Nat → Nat) (o : Nat) : Option Nat := if o < 512 then some (ram o) else none

def setCell (ram : Nat → Nat) (o v : Nat) : Nat → Nat := fun o' => if o' = o then v else ram o'

def cellSet? (ram : Nat → Nat) (o v : Nat) : Option (Nat → Nat) :=
  if o < 512 then some (setCell ram o v) else none

def Mbc2.read (m : Mbc2) (addr : Nat) : Option Nat :=
  if addr < 0x4000 then page? m.rom m.romLen 0 addr
  else if addr < 0x8000 then page? m.rom m.romLen m.romBank (addr - 0x4000)
  else if addr < 0xa000 then some 0xff
  else if addr < 0xc000 then
    (if m.ramEnabled then
      (cell? m.ram ((addr - 0xa000) % 0x0200)).bind fun b => some (b ||| 0xf0)
     else some 0xff)
  else some 0xff

/-- `value & 0x0f`, 0 → 1 -/
def Mbc2.bankOf (v : Nat) : Nat := if v &&& 0x0f = 0 then 0x01 else v &&& 0x0f

def Mbc2.write (m : Mbc2) (addr v : Nat) : Option Mbc2 :=
  if addr < 0x4000 then
    (if addr &&& 0x0100 = 0 then some { m with ramEnabled := enableBit v }
     else (mod? (Mbc2.bankOf v) m.romLen).bind fun b => some { m with romBank := b % 256 })
  else if addr < 0xa000 then some m
  else if addr < 0xc000 then
    (if m.ramEnabled then
      (cellSet? m.ram ((addr - 0xa000) % 0x0200) (v ||| 0xf0)).bind fun r => some { m with ram := r }
     else some m)
  else some m

/-- `DumpRAM` returns the 512-byte slice itself -/
def Mbc2.dump (m : Mbc2) : List Nat := (List.range 512).map m.ram

/-! ### MBC3 -/

structure Mbc3 where
  rom : Rom
  romLen : Nat
  ram : Ram
  ramLen : Nat
  ramEnabled : Bool
  romBank : Nat
  ramBank : Nat
  rtc : Rtc.St

/-- `newMBC3` (with the `newRTC()` of `memory.New`) -/
def Mbc3.new (rom : Rom) (romLen : Nat) (ram : Ram) (ramLen : Nat) : Mbc3 :=
  { rom := rom, romLen := romLen, ram := ram, ramLen := ramLen, ramEnabled := false,
    romBank := 1, ramBank := 0, rtc := Rtc.init }

def Mbc3.read (m : Mbc3) (addr : Nat) : Option Nat :=
  if addr < 0x4000 then page? m.rom m.romLen 0 addr
  else if addr < 0x8000 then page? m.rom m.romLen m.romBank (addr - 0x4000)
  else if addr < 0xa000 then some 0xff
  else if addr < 0xc000 then
    (if m.ramEnabled then
      (if m.ramBank ≥ 0x08 then some (Rtc.read m.rtc m.ramBank)
       else (mod? m.ramBank m.ramLen).bind fun b => bank? m.ram m.ramLen b (addr - 0xa000))
     else some 0xff)
  else some 0xff

/-- `value & 0x7f`, 0 → 1 -/
def Mbc3.bankOf (v : Nat) : Nat := if v &&& 0x7f = 0 then 0x01 else v &&& 0x7f

def Mbc3.write (m : Mbc3) (addr v : Nat) : Option Mbc3 :=
  if addr < 0x2000 then some { m with ramEnabled := enableBit v }
  else if addr < 0x4000 then
    (mod? (Mbc3.bankOf v) m.romLen).bind fun b => some { m with romBank := b % 256 }
  else if addr < 0x6000 then some { m with ramBank := v &&& 0x0f }
  else if addr < 0x8000 then
    (if v &&& 0x01 = 0 then some { m with rtc := Rtc.latchLow m.rtc }
     else some { m with rtc := Rtc.latchHigh m.rtc })
  else if addr < 0xa000 then some m
  else if addr < 0xc000 then
    (if m.ramEnabled then
      (if m.ramBank ≥ 0x08 then some { m with rtc := Rtc.write m.rtc m.ramBank v }
       else (mod? m.ramBank m.ramLen).bind fun b =>
            (bankSet? m.ram m.ramLen b (addr - 0xa000) v).bind fun r => some { m with ram := r })
     else some m)
  else some m

/-! ### MBC5 -/

structure Mbc5 where
  rom : Rom
  romLen : Nat
  ram : Ram
  ramLen : Nat
  ramEnabled : Bool
  romBank : Nat        -- uint16
  ramBank : Nat

/-- `newMBC5` -/
def Mbc5.new (rom : Rom) (romLen : Nat) (ram : Ram) (ramLen : Nat) : Mbc5 :=
  { rom := rom, romLen := romLen, ram := ram, ramLen := ramLen, ramEnabled := false,
    romBank := 1, ramBank := 0 }

def Mbc5.read (m : Mbc5) (addr : Nat) : Option Nat :=
  if addr < 0x4000 then page? m.rom m.romLen 0 addr
  else if addr < 0x8000 then page? m.rom m.romLen m.romBank (addr - 0x4000)
  else if addr < 0xa000 then some 0xff
  else if addr < 0xc000 then
    (if m.ramEnabled then bank? m.ram m.ramLen m.ramBank (addr - 0xa000) else some 0xff)
  else some 0xff

def Mbc5.write (m : Mbc5) (addr v : Nat) : Option Mbc5 :=
  if addr < 0x2000 then some { m with ramEnabled := enableBit v }
  else if addr < 0x3000 then
    -- m.romBank = m.romBank&0xff00 + uint16(value); m.romBank = uint16(int(m.romBank) % len(m.rom))
    (mod? (((m.romBank &&& 0xff00) + v) % 65536) m.romLen).bind fun b =>
      some { m with romBank := b % 65536 }
  else if addr < 0x4000 then
    -- m.romBank = uint16(value)<<8 + m.romBank&0x00ff; m.romBank = uint16(int(m.romBank) % len(m.rom))
    (mod? ((((v <<< 8) % 65536) + (m.romBank &&& 0x00ff)) % 65536) m.romLen).bind fun b =>
      some { m with romBank := b % 65536 }
  else if addr < 0x6000 then
    (mod? (v &&& 0x0f) (m.ramLen % 256)).bind fun b => some { m with ramBank := b }
  else if addr < 0xa000 then some m
  else if addr < 0xc000 then
    (if m.ramEnabled then
      (bankSet? m.ram m.ramLen m.ramBank (addr - 0xa000) v).bind fun r => some { m with ram := r }
     else some m)
  else some m

/-! ### the `mbc` interface and its construction -/

inductive Mbc where
  | none (m : NoMbc)
  | mbc1 (m : Mbc1)
  | mbc2 (m : Mbc2)
  | mbc3 (m : Mbc3)
  | mbc5 (m : Mbc5)

def Mbc.read : Mbc → Nat → Option Nat
  | .none m, a => m.read a
  | .mbc1 m, a => m.read a
  | .mbc2 m, a => m.read a
  | .mbc3 m, a => m.read a
  | .mbc5 m, a => m.read a

def Mbc.write : Mbc → Nat → Nat → Option Mbc
  | .none m, a, v => (m.write a v).map .none
  | .mbc1 m, a, v => (m.write a v).map .mbc1
  | .mbc2 m, a, v => (m.write a v).map .mbc2
  | .mbc3 m, a, v => (m.write a v).map .mbc3
  | .mbc5 m, a, v => (m.write a v).map .mbc5

def Mbc.dump : Mbc → List Nat
  | .none _ => []
  | .mbc1 m => dumpBanks m.ram m.ramLen
  | .mbc2 m => m.dump
  | .mbc3 m => dumpBanks m.ram m.ramLen
  | .mbc5 m => dumpBanks m.ram m.ramLen

/-- the `rtc.tick()` of `Mapper.EndMachineCycle` as far as the cartridge can observe it -/
def Mbc.tick : Mbc → Mbc
  | .mbc3 m => .mbc3 { m with rtc := Rtc.tick m.rtc }
  | c => c

/-- a ROM image: its length and its bytes (only `byte i` for `i < len` is meaningful) -/
structure Image where
  len : Nat
  byte : Nat → Nat

/-- the page copy of `prepareROM` -/
def pagesOf (img : Image) : Rom := fun b o => img.byte (b * 0x4000 + o)

/-- `0x02 << romSize` evaluated in a 64-bit Go `int`, as a value `pageCount` can be compared with:
    for `romSize ≥ 62` the result is negative (62) or zero (≥ 63) and equals no page count.
    Assumption: `len(rom)` fits a Go `int` (< 2^63), so a declared count ≥ 2^63 is unreachable too. -/
def declaredPages (romSize : Nat) : Option Nat :=
  if romSize < 62 then some (0x02 <<< romSize) else none

/-- `prepareROM`: the page count, or a panic -/
def prepareROM (romSize : Nat) (img : Image) : Option Nat :=
  if img.len % 0x4000 ≠ 0 then none
  else if declaredPages romSize = some (img.len / 0x4000) then some (img.len / 0x4000) else none

/-- `prepareRAM`: the number of 8 KiB banks (all filled with 0xff) -/
def prepareRAM (cartType ramSize : Nat) : Nat :=
  if cartType = 0x05 ∨ cartType = 0x06 then 1
  else if ramSize = 0x01 then 1
  else if ramSize = 0x02 then 1
  else if ramSize = 0x03 then 4
  else if ramSize = 0x04 then 16
  else if ramSize = 0x05 then 8
  else 1

def freshRam : Ram := fun _ _ => 0xff

/-- the cartridge-type switch of `newMBC` -/
def selectMbc (cartType : Nat) (img : Image) (romLen ramLen : Nat) : Option Mbc :=
  let rom := pagesOf img
  if cartType = 0x00 then some (.none { rom := rom, imgLen := img.len })
  else if cartType = 0x01 ∨ cartType = 0x02 ∨ cartType = 0x03 then
    (Mbc1.new rom romLen freshRam ramLen).map .mbc1
  else if cartType = 0x05 ∨ cartType = 0x06 then some (.mbc2 (Mbc2.new rom romLen))
  else if cartType = 0x0f ∨ cartType = 0x10 ∨ cartType = 0x11 ∨ cartType = 0x12 ∨ cartType = 0x13 then
    some (.mbc3 (Mbc3.new rom romLen freshRam ramLen))
  else if cartType = 0x19 ∨ cartType = 0x1a ∨ cartType = 0x1b ∨ cartType = 0x1c ∨ cartType = 0x1d
      ∨ cartType = 0x1e then
    some (.mbc5 (Mbc5.new rom romLen freshRam ramLen))
  else none

/-- `newMBC` (and hence `memory.New`): `none` = construction panics -/
def construct (img : Image) : Option Mbc :=
  if img.len < 0x014a then none
  else
    (prepareROM (img.byte 0x0148) img).bind fun romLen =>
      selectMbc (img.byte 0x0147) img romLen (prepareRAM (img.byte 0x0147) (img.byte 0x0149))

/-! ### the cartridge as the bus sees it (`Mapper.Read/Write/EndMachineCycle/DumpRAM`) -/

def cartAddr (a : Nat) : Bool := a < 0x8000 || (0xa000 ≤ a && a < 0xc000)

/-- `Mapper.Read` for an address routed to the cartridge -/
def busRead (c : Mbc) (a : Nat) : Option Nat := c.read a

/-- `Mapper.Write`: only 0000-7FFF and A000-BFFF reach the controller -/
def busWrite (c : Mbc) (a v : Nat) : Option Mbc := if cartAddr a then c.write a v else some c

inductive Op where
  | write (a : BitVec 16) (v : BitVec 8)
  | tick

def step (c : Mbc) : Op → Option Mbc
  | .write a v => busWrite c a.toNat v.toNat
  | .tick => some c.tick

/-- run a history; `none` as soon as one operation crashes -/
def run (c : Mbc) : List Op → Option Mbc
  | [] => some c
  | op :: ops => (step c op).bind fun c' => run c' ops

end Tetro.Model.Cart
