/-
Model of the pixel pipeline of gameboy/ppu (hand-written, tied to the code by the `scene`
correspondence mode):

  render.go     renderPixel, findWindowPixel, findBackgroundPixel, readTilePixel, patterns, grey
  ppu.go        EndMachineCycle (mode switch + per-tick work), checkOverlappingSprites,
                checkOverlappingSprite, `spriteOverlaps [40]bool`, `frame`
  registers.go  WriteLCDC bit decoding, WriteBGP / WriteOBP0 / WriteOBP1 colour arrays
  oam/oam.go    PPURead (assumption: no DMA is running, so it returns `oam[addr-0xfe00]`)

Number representation: a byte is `Fin 256`; Go `uint8`/`uint16` arithmetic is written on `Nat` with
explicit `% 256` / `% 65536` at exactly the places where Go wraps (`add8`, `sub8`, `mul8`); Go `int`
values (tile numbers, VRAM indices) are `Int`.  Every Go index expression is a checked read returning
`Option` (`none` = the Go code would panic; the driver prints `crash`).  Shades: the Go code stores
`grey[k]` (RGBA FF/AA/77/33); the model stores the index `k`.

Not modelled (outside C15): interrupt requests, the OAM-bug flags set by EnterMode2/ExitMode2 and by
`ppuLastAccess`, the LY=LYC coincidence flag, `debug` colours (the harness constructs the PPU with
debug=false, so `colours` is always `grey`).
-/
namespace Tetro.Model.Render

abbrev Byte := Fin 256

/-- The data a frame is composed from: the eight video registers, VRAM (index 0 = address 0x8000) and OAM.
    This type is the common input of the model and of the specification. -/
structure Scene where
  lcdc : Byte
  scx  : Byte
  scy  : Byte
  wx   : Byte
  wy   : Byte
  bgp  : Byte
  obp0 : Byte
  obp1 : Byte
  vram : Nat → Byte     -- meaningful below 0x2000
  oam  : Nat → Byte     -- meaningful below 0xa0

/-! ### uint8 arithmetic -/
def add8 (a b : Nat) : Nat := (a + b) % 256
def sub8 (a b : Nat) : Nat := (a + 256 - b % 256) % 256
def mul8 (a b : Nat) : Nat := (a * b) % 256
/-- Go `int(int8(b))` -/
def int8 (b : Nat) : Int := if b % 256 < 128 then (b % 256 : Nat) else ((b % 256 : Nat) : Int) - 256

/-! ### registers.go: WriteLCDC -/
def enabled        (s : Scene) : Bool := decide (s.lcdc.val &&& 0x80 > 0)
def highWindowMap  (s : Scene) : Bool := decide (s.lcdc.val &&& 0x40 > 0)
def windowEnabled  (s : Scene) : Bool := decide (s.lcdc.val &&& 0x20 > 0)
def lowTileData    (s : Scene) : Bool := decide (s.lcdc.val &&& 0x10 > 0)
def highBgMap      (s : Scene) : Bool := decide (s.lcdc.val &&& 0x08 > 0)
def spritesLarge   (s : Scene) : Bool := decide (s.lcdc.val &&& 0x04 > 0)   -- decoded, never used by the renderer
def spritesEnabled (s : Scene) : Bool := decide (s.lcdc.val &&& 0x02 > 0)
def bgEnabled      (s : Scene) : Bool := decide (s.lcdc.val &&& 0x01 > 0)

/-- WriteBGP: `bgpColour[k] = (value >> 2k) & 3` -/
def bgpColour (s : Scene) : List Nat :=
  [s.bgp.val &&& 3, (s.bgp.val >>> 2) &&& 3, (s.bgp.val >>> 4) &&& 3, (s.bgp.val >>> 6) &&& 3]
/-- WriteOBP0/1: entry 0 is never written and keeps its zero value -/
def obpColour (v : Byte) : List Nat :=
  [0, (v.val >>> 2) &&& 3, (v.val >>> 4) &&& 3, (v.val >>> 6) &&& 3]

/-! ### checked reads (every Go index expression) -/
/-- `ppu.videoRAM[i]` with an `int` index -/
def vramAt (s : Scene) (i : Int) : Option Nat :=
  if 0 ≤ i ∧ i < 0x2000 then some (s.vram i.toNat).val else none
/-- `oam.PPURead(0xfe00 + off)` = `m.oam[off]` (no DMA) -/
def oamAt (s : Scene) (off : Nat) : Option Nat :=
  if off < 0xa0 then some (s.oam off).val else none
/-- `patterns[i]` -/
def patternAt (i : Nat) : Option Nat := [0x80, 0x40, 0x20, 0x10, 0x08, 0x04, 0x02, 0x01][i]?
/-- `grey[k]`: the shade index itself, if it exists -/
def greyAt (k : Nat) : Option Nat := if k < 4 then some k else none

/-- the `switch` of readTilePixel (its `default: panic` arm is unreachable) -/
def planePixel (aset bset : Bool) : Nat :=
  match aset, bset with
  | false, false => 0
  | true,  false => 1
  | false, true  => 2
  | true,  true  => 3

/-- `readTilePixel(tileNumber int, tileOffsetX, tileOffsetY uint8)` -/
def readTilePixel (s : Scene) (tileNumber : Int) (ox oy : Nat) : Option Nat :=
  let startAddr : Int := tileNumber * 16
  (vramAt s (startAddr + (mul8 oy 2 : Nat))).bind fun a =>
  (vramAt s (startAddr + (mul8 oy 2 : Nat) + 1)).bind fun b =>
  (patternAt ox).bind fun p =>
  some (planePixel (decide (a &&& p > 0)) (decide (b &&& p > 0)))

/-- the `if ppu.lowTileData` of findWindowPixel / findBackgroundPixel -/
def tileNumberOf (s : Scene) (tileByte : Nat) : Int :=
  if lowTileData s then (tileByte : Int) else 256 + int8 tileByte

/-- common tail of findWindowPixel / findBackgroundPixel once the map offset and the map coordinates are known -/
def mapPixel (s : Scene) (offsetAddr : Nat) (px py : Nat) : Option Nat :=
  let tileX := px / 8
  let tileY := py / 8
  let tileAddr := (32 * tileY + tileX) % 65536
  (vramAt s (((offsetAddr + tileAddr) % 65536 : Nat) : Int)).bind fun tileByte =>
  readTilePixel s (tileNumberOf s tileByte) (px % 8) (py % 8)

/-- `findWindowPixel(x, y uint8)` -/
def findWindowPixel (s : Scene) (x y : Nat) : Option Nat :=
  mapPixel s (if highWindowMap s then 0x1c00 else 0x1800) x y

/-- `findBackgroundPixel(x, y uint8)` -/
def findBackgroundPixel (s : Scene) (x y : Nat) : Option Nat :=
  mapPixel s (if highBgMap s then 0x1c00 else 0x1800) (add8 x s.scx.val) (add8 y s.scy.val)

/-- the three locals of renderPixel that survive the object loop -/
structure ObjAcc where
  pixel  : Nat  := 0       -- spritePixel
  behind : Bool := false   -- spriteBehindBackground
  pal1   : Bool := false   -- useSpritePalette1
deriving DecidableEq, Repr

/-- body of the object loop for one candidate whose X range contains the pixel, after its four OAM bytes
    were read: OVERWRITES the two flags and the pixel (also when the pixel turns out transparent) -/
def objCandidateBody (s : Scene) (x y spriteX spriteY tileNumber attributes : Nat) : Option ObjAcc :=
  let tileOffsetX := sub8 x spriteX % 8
  let tileOffsetY := sub8 y spriteY % 8
  let flipY := decide (attributes &&& 0x40 > 0)
  let flipX := decide (attributes &&& 0x20 > 0)
  let tileOffsetX := if flipX then sub8 7 tileOffsetX else tileOffsetX
  let tileOffsetY := if flipY then sub8 7 tileOffsetY else tileOffsetY
  (readTilePixel s (tileNumber : Int) tileOffsetX tileOffsetY).bind fun p =>
  some { pixel := p, behind := decide (attributes &&& 0x80 > 0), pal1 := decide (attributes &&& 0x10 > 0) }

/-- the three remaining `PPURead`s of a candidate, then the body -/
def objCandidate (s : Scene) (sprite x y spriteX : Nat) : Option ObjAcc :=
  (oamAt s (sprite * 4)).bind fun spriteY =>
  (oamAt s (sprite * 4 + 2)).bind fun tileNumber =>
  (oamAt s (sprite * 4 + 3)).bind fun attributes =>
  objCandidateBody s x y spriteX spriteY tileNumber attributes

/-- `for sprite, overlaps := range ppu.spriteOverlaps { … }`; `ov i` is `spriteOverlaps[i]`,
    the list is the index sequence 0..39 (a `range` loop cannot index out of bounds) -/
def objLoop (s : Scene) (ov : Nat → Bool) (x y : Nat) : List Nat → ObjAcc → Option ObjAcc
  | [], acc => some acc
  | sprite :: rest, acc =>
    if !ov sprite then objLoop s ov x y rest acc else
    match oamAt s (sprite * 4 + 1) with
    | none => none
    | some spriteX =>
      if add8 x 8 ≥ spriteX ∧ x < spriteX then
        match objCandidate s sprite x y spriteX with
        | none => none
        | some acc' => if acc'.pixel > 0 then some acc' else objLoop s ov x y rest acc'
      else objLoop s ov x y rest acc

/-- `colours[ppu.obpNColour[spritePixel]]` -/
def objShade (s : Scene) (acc : ObjAcc) : Option Nat :=
  ((obpColour (if acc.pal1 then s.obp1 else s.obp0))[acc.pixel]?).bind greyAt

/-- `colours[ppu.bgpColour[pixel]]` -/
def bgShade (s : Scene) (pixel : Nat) : Option Nat :=
  ((bgpColour s)[pixel]?).bind greyAt

/-- the window test of renderPixel -/
def windowHit (s : Scene) (x y : Nat) : Bool :=
  windowEnabled s && decide (s.wx.val ≤ 166) && decide (s.wy.val ≤ 143) &&
    decide (x ≥ sub8 s.wx.val 7) && decide (y ≥ s.wy.val)

/-- window / background part of renderPixel: the colour number `pixel` -/
def bgWinPixel (s : Scene) (x y : Nat) : Option Nat :=
  if windowHit s x y then findWindowPixel s (sub8 x (sub8 s.wx.val 7)) (sub8 y s.wy.val)
  else if bgEnabled s then findBackgroundPixel s x y
  else some 0

/-- `renderPixel(x, y uint8)` for a given content of `spriteOverlaps`; result = shade written to frame[x,y] -/
def pixelWith (s : Scene) (ov : Nat → Bool) (x y : Nat) : Option Nat :=
  (if spritesEnabled s then objLoop s ov x y (List.range 40) {} else some {}).bind fun acc =>
  if spritesEnabled s ∧ acc.pixel > 0 ∧ acc.behind = false then objShade s acc
  else
    (bgWinPixel s x y).bind fun pixel =>
    if pixel = 0 ∧ acc.pixel ≠ 0 ∧ acc.behind = true then objShade s acc else bgShade s pixel

/-- `checkOverlappingSprite`: the comparison, in `int` space, for start row `startY` on line `ly` -/
def overlapTest (startY ly : Nat) : Bool :=
  decide ((ly : Int) + 16 ≥ (startY : Int)) && decide ((ly : Int) + 16 < (startY : Int) + 8)

/-- value `checkOverlappingSprite(i)` stores in `spriteOverlaps[i]` while `ppu.ly = ly` (i < 40) -/
def modelOverlaps (s : Scene) (ly : Nat) (i : Nat) : Bool := overlapTest (s.oam (i * 4)).val ly

/-- the pixel the code renders at (x,y) when `spriteOverlaps` was evaluated for line y -/
def modelPixel (s : Scene) (x y : Nat) : Option Nat := pixelWith s (modelOverlaps s y) x y

/-! ### line level: overlaps for `ly`, then the 160 pixels of the line -/
def renderLine (s : Scene) (ly : Nat) : List (Option Nat) :=
  (List.range 160).map fun x => pixelWith s (modelOverlaps s ly) x ly

/-! ### tick level: EndMachineCycle -/

structure PState where
  ticks     : Nat
  mode      : Nat
  ly        : Nat
  firstLine : Bool
  overlaps  : Vector Bool 40            -- spriteOverlaps
  frame     : Vector Nat (160 * 144)    -- shade index of pixel (x,y) at y*160+x
                                        -- (image.RGBA of 160x144; the harness maps RGBA back to the index)

/-- `frame.SetRGBA(x, y, c)`: silently ignores points outside the image rectangle -/
def setPix (f : Vector Nat (160 * 144)) (x y v : Nat) : Vector Nat (160 * 144) :=
  if x < 160 ∧ y < 144 then f.setIfInBounds (y * 160 + x) v else f

def getPix (f : Vector Nat (160 * 144)) (x y : Nat) : Option Nat :=
  if x < 160 ∧ y < 144 then f[y * 160 + x]? else none

def ovFun (v : Vector Bool 40) (i : Nat) : Bool := v[i]?.getD false   -- read inside a `range` loop, i < 40

/-- `checkOverlappingSprite(sprite uint8)` -/
def checkOverlappingSprite (s : Scene) (st : PState) (sprite : Nat) : Option PState :=
  (oamAt s (mul8 sprite 4)).bind fun startY =>
  if h : sprite < 40 then
    some { st with overlaps := st.overlaps.set sprite (overlapTest startY st.ly) h }
  else none   -- index out of range on `spriteOverlaps[sprite]`

/-- `checkOverlappingSprites(lx uint8)` -/
def checkOverlappingSprites (s : Scene) (st : PState) (lx : Nat) : Option PState :=
  (checkOverlappingSprite s st (mul8 lx 2)).bind fun st1 =>
  checkOverlappingSprite s st1 (add8 (mul8 lx 2) 1)

/-- `ppu.renderPixel(x, ppu.ly)` as a state update -/
def renderPixelSt (s : Scene) (st : PState) (x : Nat) : Option PState :=
  (pixelWith s (ovFun st.overlaps) x st.ly).bind fun v =>
  some { st with frame := setPix st.frame x st.ly v }

/-- first `switch ppu.mode` of EndMachineCycle: the new mode, `none` = `panic("unexpected mode…")` -/
def nextMode (mode ticks ly t : Nat) : Option Nat :=
  match mode with
  | 2 => some (if t = 20 then 3 else 2)
  | 3 => some (if t = 61 then 0 else 3)
  | 0 => some (if t = 0 then (if ly = 144 then 1 else 2) else 0)
  | 1 => some (if ticks = 0 then 2 else 1)
  | _ => none

/-- second `switch ppu.mode` of EndMachineCycle: the work of one tick -/
def tickWork (s : Scene) (st : PState) (t : Nat) : Option PState :=
  match st.mode with
  | 2 => checkOverlappingSprites s st t
  | 3 =>
    let lx := mul8 (sub8 t 20) 4
    if lx < 160 then
      (renderPixelSt s st lx).bind fun s1 =>
      (renderPixelSt s s1 (add8 lx 1)).bind fun s2 =>
      (renderPixelSt s s2 (add8 lx 2)).bind fun s3 =>
      renderPixelSt s s3 (add8 lx 3)
    else some st
  | 0 => if st.firstLine then some { st with ticks := st.ticks + 2, firstLine := false } else some st
  | 1 => some st
  | _ => none

/-- `EndMachineCycle()` with the scene held constant -/
def tick (s : Scene) (st : PState) : Option PState :=
  if !enabled s then some st else
  let ly := (st.ticks / 114) % 256
  let t := (st.ticks % 114) % 256
  (nextMode st.mode st.ticks ly t).bind fun m =>
  (tickWork s { st with ly := ly, mode := m } t).bind fun st' =>
  some { st' with ticks := if st'.ticks + 1 = 17556 then 0 else st'.ticks + 1 }

/-- n calls of EndMachineCycle -/
def run (s : Scene) : Nat → PState → Option PState
  | 0, st => some st
  | n + 1, st => (tick s st).bind (run s n)

/-- state right after `ppu.enable()` (LCD switched on): line 0, mode 2, short first line -/
def afterEnable (ov : Vector Bool 40) (fr : Vector Nat (160 * 144)) : PState :=
  { ticks := 0, mode := 2, ly := 0, firstLine := true, overlaps := ov, frame := fr }

end Tetro.Model.Render
