import Tetro.Model.Decoder
import Tetro.Gen.Decoder
/- Model of gameboy/serial/serial.go behind the address decoder of memory/mapper.go. -/
namespace Tetro.Model.Serial
open Tetro.Model.Decoder

structure Serial where
  writer : Bool              -- a writer is configured
  log    : List (BitVec 8)   -- bytes delivered to it, in order
deriving DecidableEq, Repr

def init (writer : Bool) : Serial := { writer := writer, log := [] }

/-- `WriteSB` -/
def writeSB (s : Serial) (v : BitVec 8) : Serial := if s.writer then { s with log := s.log ++ [v] } else s
/-- `ReadSB`, `ReadSC` -/
def readSB (_ : Serial) : BitVec 8 := 0xff
def readSC (_ : Serial) : BitVec 8 := 0xff

/-- a bus write as the mapper routes it (`arms` = write-side decoder) -/
def busWrite (arms : List Arm) (s : Serial) (a : Nat) (v : BitVec 8) : Serial :=
  if route arms a = .sb then writeSB s v else s

/-- the write-side decoder as mapper.go defines it now -/
def genWriteArms : List Arm := resolve parseWriteH Gen.Decoder.writeArms
def genReadArms : List Arm := resolve parseReadH Gen.Decoder.readArms

end Tetro.Model.Serial
