import Tetro.Model.Cpu
import Tetro.Gen.Dispatch
/-
Model of gameboy/cpu/execution.go: checkInterrupts, next, isFinished, ExecuteMachineCycle, over the
generic `Bus`.  The opcode tables are a parameter (`Tables`); `Tables.gen` resolves the tables
regenerated from dispatch.go.
-/
namespace Tetro.Model.Cpu

structure Tables where
  normal    : List (List MicroOp)
  prefixed  : List (List MicroOp)
  early     : List (Nat × Cond × Nat × Nat)
  veryShort : List MicroOp
  short     : List MicroOp
  long      : List MicroOp
deriving DecidableEq, Repr

def resolveEarly (xs : List (Nat × String × Nat × Nat)) : List (Nat × Cond × Nat × Nat) :=
  xs.filterMap fun x => (parseCond x.2.1).map fun c => (x.1, c, x.2.2.1, x.2.2.2)

/-- the tables as dispatch.go defines them now -/
def Tables.gen : Tables :=
  { normal := Gen.Dispatch.normal.map (·.map parse)
    prefixed := Gen.Dispatch.prefixed.map (·.map parse)
    early := resolveEarly Gen.Dispatch.early
    veryShort := Gen.Dispatch.veryShortInterrupt.map parse
    short := Gen.Dispatch.shortInterrupt.map parse
    long := Gen.Dispatch.longInterrupt.map parse }

def Tables.earlyOf (t : Tables) (op : Nat) : Option (Cond × Nat × Nat) :=
  (t.early.find? (·.1 == op)).map (·.2)

/-- CPU = registers + the instruction in flight -/
structure Cpu where
  regs    : Regs
  ops     : List MicroOp                 -- currentSubinstructions
  cycle   : Nat                          -- currentCycle
  early   : Option (Cond × Nat × Nat)    -- currentIsFinishedEarly
  crashed : Bool                         -- ExecuteMachineCycle indexed past the sub-instruction list
deriving DecidableEq, Repr

def Cpu.init : Cpu := { regs := Regs.init, ops := [], cycle := 0, early := none, crashed := false }

def Cpu.isFinished (c : Cpu) : Bool :=
  match c.early with
  | none => c.cycle == c.ops.length
  | some e => (c.cycle == e.2.1 && e.1.holds c.regs) || c.cycle == e.2.2

variable {M : Type} [Bus M]

/-- checkInterrupts: the interrupt sequence to run (if any) and the updated halted flag -/
def checkInterrupts (t : Tables) (r : Regs) (m : M) : Regs × Option (List MicroOp) :=
  if pendingBits m != 0 then
    if Bus.ime m then
      if r.halted then ({ r with halted := false }, some t.long) else (r, some t.short)
    else if r.halted then ({ r with halted := false }, some t.veryShort)
    else (r, none)
  else (r, none)

structure NextResult (M : Type) where
  cpu    : Cpu
  bus    : M
  halted : Bool

def fetch (t : Tables) (c : Cpu) (r : Regs) (m : M) : NextResult M :=
  let m1 := if r.eiPending then Bus.setIme m true else m
  let r1 := { r with eiPending := false }
  let op := Bus.read m1 r1.pc
  if op.1 == 0xcb then
    let pc1 := r1.pc + 1
    let op2 := Bus.read op.2 pc1
    let r2 := { r1 with u8a := 0, u8b := 0, m8a := 0, m8b := 0,
                        pc := if r1.haltbug then pc1 else pc1 + 1, haltbug := false }
    { cpu := { c with regs := r2, ops := t.prefixed.getD op2.1.toNat [], cycle := 0, early := none },
      bus := op2.2, halted := false }
  else
    let r2 := { r1 with u8a := 0, u8b := 0, m8a := 0, m8b := 0,
                        pc := if r1.haltbug then r1.pc else r1.pc + 1, haltbug := false }
    { cpu := { c with regs := r2, ops := t.normal.getD op.1.toNat [], cycle := 0,
                      early := t.earlyOf op.1.toNat },
      bus := op.2, halted := false }

def next (t : Tables) (c : Cpu) (m : M) : NextResult M :=
  let ci := checkInterrupts t c.regs m
  match ci.2 with
  | some seq => { cpu := { c with regs := ci.1, ops := seq, cycle := 0, early := none }, bus := m, halted := false }
  | none =>
    if c.regs.halted || c.regs.stopped then { cpu := c, bus := m, halted := true }
    else fetch t c c.regs m

/-- run the sub-instruction of the current cycle (index out of range = Go panic) -/
def stepSub (c : Cpu) (m : M) : Cpu × M :=
  match c.ops[c.cycle]? with
  | none => ({ c with crashed := true }, m)
  | some μ =>
    let s := μ.run c.regs m
    ({ c with regs := s.1, cycle := c.cycle + 1 }, Bus.corrupt s.2)

/-- ExecuteMachineCycle -/
def cycle (t : Tables) (c : Cpu) (m : M) : Cpu × M :=
  if c.crashed || c.regs.exited then (c, m)
  else if c.isFinished then
    let n := next t c m
    if n.halted then (n.cpu, n.bus) else stepSub n.cpu n.bus
  else stepSub c m

def cycles (t : Tables) : Nat → Cpu → M → Cpu × M
  | 0, c, m => (c, m)
  | n + 1, c, m => let s := cycle t c m; cycles t n s.1 s.2

/-! ### flat bus: plain 64 KiB memory with IF/IE and IME (the instance the ISA theorems use) -/

structure Flat where
  mem : Word → Byte
  ime : Bool
  ie  : Byte
  ifl : Byte

def Flat.read (m : Flat) (a : Word) : Byte :=
  if a = 0xff0f then m.ifl ||| 0xe0 else if a = 0xffff then m.ie else m.mem a

def Flat.write (m : Flat) (a : Word) (v : Byte) : Flat :=
  if a = 0xff0f then { m with ifl := v &&& 0x1f }
  else if a = 0xffff then { m with ie := v }
  else { m with mem := fun x => if x = a then v else m.mem x }

instance : Bus Flat where
  read m a := (m.read a, m)
  write := Flat.write
  trigger m _ := m
  corrupt m := m
  ime m := m.ime
  setIme m v := { m with ime := v }
  ie m := m.ie
  iflag m := m.ifl
  clearIf m k := { m with ifl := m.ifl &&& ~~~((1 : Byte) <<< k) }

end Tetro.Model.Cpu
