import Tetro.Model.ApuSquare
/-
Model of gameboy/audio/wave.go (channel 3) and the NR30–NR34 / wave-RAM handlers of
registers.go.  Same conventions as `ApuSquare.lean`.  The 16-byte wave RAM is a
`Vector Nat 16`; every Go index expression into it is a checked access: an index ≥ 16 (a Go
panic) sets the sticky flag `crash`, which the driver prints as `crash`.
-/
namespace Tetro.Model.Apu

abbrev WaveRam := Vector Nat 16

def ramGet (r : WaveRam) (i : Nat) : Nat := if h : i < 16 then r[i] else 0
def ramSet (r : WaveRam) (i v : Nat) : WaveRam := if h : i < 16 then r.set i v else r

structure Wave where
  length : Nat := 0          -- uint16
  outputLevel : Nat := 0
  frequency : Nat := 0       -- uint16
  lengthEnable : Bool := false
  waveram : WaveRam := Vector.replicate 16 0
  enabled : Bool := false
  dacEnabled : Bool := false
  timer : Nat := 0           -- uint16
  outputShift : Nat := 0
  position : Nat := 0
  lastAccessed : Nat := 0
  sampleBuffer : Nat := 0
  sampleTimer : Nat := 0
  triggered : Bool := false
  crash : Bool := false      -- a wave-RAM index was out of range (Go would have panicked)
deriving DecidableEq, Repr

namespace Wave

/-- `(2048 - w.frequency) * 2` in uint16 -/
def period (w : Wave) : Nat := (sub16 2048 w.frequency * 2) % 65536

/-- `corruptWaveRAM` -/
def corruptWaveRAM (w : Wave) : Wave :=
  let addr := (inc8 w.position) % 32 / 2
  let r := w.waveram
  if addr < 4 then
    { w with waveram := ramSet r 0 (ramGet r addr) }
  else if addr < 8 then
    { w with waveram := ramSet (ramSet (ramSet (ramSet r 0 (ramGet r 4)) 1 (ramGet r 5)) 2 (ramGet r 6)) 3 (ramGet r 7) }
  else if addr < 12 then
    { w with waveram := ramSet (ramSet (ramSet (ramSet r 0 (ramGet r 8)) 1 (ramGet r 9)) 2 (ramGet r 10)) 3 (ramGet r 11) }
  else
    { w with waveram := ramSet (ramSet (ramSet (ramSet r 0 (ramGet r 12)) 1 (ramGet r 13)) 2 (ramGet r 14)) 3 (ramGet r 15) }

/-- `wave.trigger` -/
def trigger (w : Wave) : Wave :=
  let w := if w.enabled then (if w.timer = 0 then w.corruptWaveRAM else w) else { w with triggered := true }
  let w := { w with enabled := true }
  let w := if w.length = 0 then { w with length := 256 } else w
  let w := { w with timer := w.period,
                    outputShift := if w.outputLevel = 0 then 4 else dec8 w.outputLevel,
                    position := 0 }
  if !w.dacEnabled then { w with enabled := false } else w

/-- the `if w.timer == 0 { … }` block of `tickTimer` -/
def advance (w : Wave) : Wave :=
  let pos := if inc8 w.position ≥ 32 then 0 else inc8 w.position
  let la := pos / 2
  let byte := ramGet w.waveram la
  { w with timer := w.period, position := pos, lastAccessed := la,
           sampleBuffer := if pos % 2 = 0 then byte / 16 else byte % 16,
           sampleTimer := 0,
           crash := w.crash || decide (16 ≤ la) }

/-- `wave.tickTimer` -/
def tickTimer (w : Wave) : Wave :=
  if !w.enabled then w else
  let w := if w.timer = 0 then w.advance else w
  { w with timer := dec16 w.timer, sampleTimer := inc8 w.sampleTimer }

/-- `wave.tickLength` (uint16 length) -/
def tickLength (w : Wave) : Wave :=
  if !w.lengthEnable then w else
  if w.length > 0 then
    let w := { w with length := dec16 w.length }
    if w.length = 0 then { w with enabled := false } else w
  else w

/-- `wave.takeSample` as the exact numerator over 120: `(buf>>shift)/15 = 8·(buf>>shift) / 120` -/
def sampleNum (w : Wave) : Nat :=
  if !w.enabled then 0 else 8 * (w.sampleBuffer >>> w.outputShift)

/-- `WriteNR30` -/
def writeNR30 (w : Wave) (v : Nat) : Wave :=
  let w := { w with dacEnabled := decide (v / 128 % 2 > 0) }
  if !w.dacEnabled then { w with enabled := false } else w

/-- `WriteNR31`: `256 - uint16(value)` -/
def writeNR31 (w : Wave) (v : Nat) : Wave := { w with length := sub16 256 v }

/-- `WriteNR32` -/
def writeNR32 (w : Wave) (v : Nat) : Wave := { w with outputLevel := v / 32 % 4 }

/-- `WriteNR33` -/
def writeNR33 (w : Wave) (v : Nat) : Wave := { w with frequency := w.frequency / 256 * 256 + v }

/-- `WriteNR34`; `fs` is `a.frameSeqTicks` -/
def writeNR34 (w : Wave) (fs : Nat) (v : Nat) : Wave :=
  let w := { w with frequency := w.frequency % 256 + (v % 8) * 256 }
  let trig : Bool := decide (v / 128 % 2 > 0)
  let le : Bool := decide (v / 64 % 2 > 0)
  let w := if !w.lengthEnable && le && decide (w.length > 0) && decide (fs % 2 = 1) then
      (let w : Wave := { w with length := dec16 w.length }
       if w.length = 0 ∧ trig = false then { w with enabled := false } else w)
    else w
  let w := if trig then
      (let w : Wave := w.trigger
       if le && decide (w.length = 256) && decide (fs % 2 = 1) then { w with length := dec16 w.length } else w)
    else w
  { w with lengthEnable := le }

/-- `WriteWaveRAM(addr, value)` with `i = addr - 0xff30` -/
def writeRam (w : Wave) (i v : Nat) : Wave :=
  if w.enabled then
    (if w.sampleTimer < 4 then
      { w with waveram := ramSet w.waveram w.lastAccessed v, crash := w.crash || decide (16 ≤ w.lastAccessed) }
     else w)
  else { w with waveram := ramSet w.waveram i v, crash := w.crash || decide (16 ≤ i) }

/-- `ReadWaveRAM(addr)` with `i = addr - 0xff30`; `none` = index panic -/
def readRam (w : Wave) (i : Nat) : Option Nat :=
  if w.enabled then
    (if w.sampleTimer < 4 then (if w.lastAccessed < 16 then some (ramGet w.waveram w.lastAccessed) else none)
     else some 0xff)
  else (if i < 16 then some (ramGet w.waveram i) else none)

end Wave
end Tetro.Model.Apu
