import Tetro.Model.ApuSquare
/-
Model of gameboy/audio/wave.go (channel 3) and the NR30–NR34 / wave-RAM handlers of
registers.go.  Same conventions as `ApuSquare.lean`.  The 16-byte wave RAM is a
`Vector Nat 16`; every Go index expression into it is a checked access: an index ≥ 16 (a Go
panic) sets the sticky flag `crash`, which the driver prints as `crash`.
-/
namespace Tetro.Model.Apu

abbrev WaveRam := Vector Nat 16

def ramGet (r : WaveRam) (i : Nat) : Nat := if h : i < 16 then r[i] else 0
def ramSet (r : WaveRam) (i v : Nat) : WaveRam := if h : i < 16 then r.set i v else r

structure Wave where
  length : Nat := 0          -- uint16
  outputLevel : Nat := 0
  frequency : Nat := 0       -- uint16
  lengthEnable : Bool := false
  waveram : WaveRam := Vector.replicate 16 0
  enabled : Bool := false
  dacEnabled : Bool := false
  timer : Nat := 0           -- uint16
  outputShift : Nat := 0
  position : Nat := 0
  lastAccessed : Nat := 0
  sampleBuffer : Nat := 0
  sampleTimer : Nat := 0
  triggered : Bool := false
  crash : Bool := false      -- a wave-RAM index was out of range (Go would have panicked)
deriving DecidableEq, Repr

/-- `(2048 - f) * 2` in uint16 -/
def wavePeriodOf (f : Nat) : Nat := (sub16 2048 f * 2) % 65536

/-- the four-byte copy of `corruptWaveRAM` from block `b` (4, 8 or 12) -/
def ramCopy4 (r : WaveRam) (b : Nat) : WaveRam :=
  ramSet (ramSet (ramSet (ramSet r 0 (ramGet r b)) 1 (ramGet r (b + 1))) 2 (ramGet r (b + 2))) 3 (ramGet r (b + 3))

/-- `corruptWaveRAM` on the RAM, `pos` = wave position -/
def corruptRam (r : WaveRam) (pos : Nat) : WaveRam :=
  if (inc8 pos) % 32 / 2 < 4 then ramSet r 0 (ramGet r ((inc8 pos) % 32 / 2))
  else if (inc8 pos) % 32 / 2 < 8 then ramCopy4 r 4
  else if (inc8 pos) % 32 / 2 < 12 then ramCopy4 r 8
  else ramCopy4 r 12

namespace Wave

def period (w : Wave) : Nat := wavePeriodOf w.frequency

/-- the first `if` of `wave.trigger`: corruption when re-triggered at the moment of a fetch, else
    the `triggered` flag -/
def trigHead (w : Wave) : Wave :=
  if w.enabled then
    (if w.timer = 0 then { w with waveram := corruptRam w.waveram w.position } else w)
  else { w with triggered := true }

/-- the rest of `wave.trigger` -/
def trigBody (w : Wave) : Wave :=
  { w with enabled := w.dacEnabled,
           length := if w.length = 0 then 256 else w.length,
           timer := w.period,
           outputShift := if w.outputLevel = 0 then 4 else dec8 w.outputLevel,
           position := 0 }

/-- `wave.trigger` -/
def trigger (w : Wave) : Wave := w.trigHead.trigBody

/-- next wave position -/
def nextPos (p : Nat) : Nat := if inc8 p ≥ 32 then 0 else inc8 p

/-- the nibble fetched for position `pos` -/
def fetch (r : WaveRam) (pos : Nat) : Nat :=
  if pos % 2 = 0 then ramGet r (pos / 2) / 16 else ramGet r (pos / 2) % 16

/-- `wave.tickTimer` -/
def tickTimer (w : Wave) : Wave :=
  if !w.enabled then w
  else if w.timer = 0 then
    { w with timer := dec16 w.period, position := nextPos w.position, lastAccessed := nextPos w.position / 2,
             sampleBuffer := fetch w.waveram (nextPos w.position),
             sampleTimer := 1,
             crash := w.crash || decide (16 ≤ nextPos w.position / 2) }
  else { w with timer := dec16 w.timer, sampleTimer := inc8 w.sampleTimer }

/-- `wave.tickLength` (uint16 length) -/
def tickLength (w : Wave) : Wave :=
  if !w.lengthEnable then w
  else if w.length > 0 then
    { w with length := dec16 w.length, enabled := w.enabled && decide (dec16 w.length ≠ 0) }
  else w

/-- `wave.takeSample` as the exact numerator over 120: `(buf>>shift)/15 = 8·(buf>>shift) / 120` -/
def sampleNum (w : Wave) : Nat :=
  if !w.enabled then 0 else 8 * (w.sampleBuffer >>> w.outputShift)

/-- `WriteNR30` -/
def writeNR30 (w : Wave) (v : Nat) : Wave :=
  { w with dacEnabled := decide (v / 128 % 2 > 0), enabled := w.enabled && decide (v / 128 % 2 > 0) }

/-- `WriteNR31`: `256 - uint16(value)` -/
def writeNR31 (w : Wave) (v : Nat) : Wave := { w with length := sub16 256 v }

/-- `WriteNR32` -/
def writeNR32 (w : Wave) (v : Nat) : Wave := { w with outputLevel := v / 32 % 4 }

/-- `WriteNR33` -/
def writeNR33 (w : Wave) (v : Nat) : Wave := { w with frequency := w.frequency / 256 * 256 + v }

def setFreqHi (w : Wave) (v : Nat) : Wave := { w with frequency := w.frequency % 256 + (v % 8) * 256 }

def extraLenClock (w : Wave) (fs : Nat) (le trig : Bool) : Wave :=
  if !w.lengthEnable && le && decide (w.length > 0) && decide (fs % 2 = 1) then
    { w with length := dec16 w.length, enabled := w.enabled && !(decide (dec16 w.length = 0) && !trig) }
  else w

def trigLenClock (w : Wave) (fs : Nat) (le : Bool) : Wave :=
  if le && decide (w.length = 256) && decide (fs % 2 = 1) then { w with length := dec16 w.length } else w

def trigPart (w : Wave) (fs : Nat) (le trig : Bool) : Wave :=
  if trig then w.trigger.trigLenClock fs le else w

def setLE (w : Wave) (le : Bool) : Wave := { w with lengthEnable := le }

/-- `WriteNR34`; `fs` is `a.frameSeqTicks` -/
def writeNR34 (w : Wave) (fs : Nat) (v : Nat) : Wave :=
  (((w.setFreqHi v).extraLenClock fs (leOf v) (trigOf v)).trigPart fs (leOf v) (trigOf v)).setLE (leOf v)

/-- `WriteWaveRAM(addr, value)` with `i = addr - 0xff30` -/
def writeRam (w : Wave) (i v : Nat) : Wave :=
  if w.enabled then
    (if w.sampleTimer < 4 then
      { w with waveram := ramSet w.waveram w.lastAccessed v, crash := w.crash || decide (16 ≤ w.lastAccessed) }
     else w)
  else { w with waveram := ramSet w.waveram i v, crash := w.crash || decide (16 ≤ i) }

/-- `ReadWaveRAM(addr)` with `i = addr - 0xff30`; `none` = index panic -/
def readRam (w : Wave) (i : Nat) : Option Nat :=
  if w.enabled then
    (if w.sampleTimer < 4 then (if w.lastAccessed < 16 then some (ramGet w.waveram w.lastAccessed) else none)
     else some 0xff)
  else (if i < 16 then some (ramGet w.waveram i) else none)

end Wave
end Tetro.Model.Apu
