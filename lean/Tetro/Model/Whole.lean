import Tetro.Model.Machine
import Tetro.Model.Apu
import Tetro.Model.Render
import Tetro.Model.CpuExec
/-
The WHOLE MACHINE: the composition of the component models as `gameboy.New` wires the components and
`runFrame` (gameboy/gameboy.go) schedules them.

  Board   = everything behind the CPU's bus: the machine bus model (`Machine`: cartridge, VRAM, WRAM, HRAM,
            IF/IE/IME, JOYP, serial, timer, LCD timing, PPU registers, OAM + DMA + OAM-bug flags), the APU model
            (`Apu.Apu`, plugged into the FF10–FF3F handlers that `Machine` leaves to a stub), the pixel
            pipeline state of `Render` (`spriteOverlaps`, `frame`) and the flag `crashed` (= a Go panic happened).
  Whole   = CPU model + Board.

`Machine` itself is unchanged (its `apu : ApuStub` field is simply not consulted: `Board.read?/write?` send the
handlers NR10 … NR52 and wave RAM – exactly the catch-all arms of `Machine.readVal` / `Machine.writeH` – to the
APU model, by the handler the REGENERATED decoder arms select).

`Whole.cycle` is the loop body of `runFrame`:
    cpu.ExecuteMachineCycle; ppu.EndMachineCycle; mapper.EndMachineCycle (TickDMA(m.Read), rtc.tick);
    audio.EndMachineCycle; if timer.EndMachineCycle() { interrupts.RequestTimer() }
`Whole.frame` = 17556 of them.

Go panics are `none` in every component; here the first one sets `crashed` and the machine stops (the rest of
the Go cycle does not run either).  `os.Exit` in `fatal` (undefined opcode) stops the machine inside the CPU
cycle: `cpu.regs.exited`.

Executable-speed notes (the driver is compiled).  Where the plain definition is slow in compiled code a second
definition is given and tied to it by a proved `@[csimp]` equation (the compiler then uses the second one;
theorems keep speaking about the first): the decoder arms are tabulated once (`rHfast`, `wHfast`); the write
handlers of the big arrays are restated with the record taken apart first (`writeT`, `Board.writeFast`), so
that the array is updated in place; `byteOfFast`, `palByteFast` avoid run-time `2 ^ n` / `<<<` (big-number
paths of the runtime).  The per-cycle `Board` steps take the record apart for the same reason.
-/
namespace Tetro.Model.Whole
open Tetro.Model Tetro.Model.Decoder Tetro.Model.Machine

/-! ### the decoder -/

/-- handler of a read of `a` by the regenerated arms of `Mapper.Read` -/
def rH (a : Nat) : H := route Serial.genReadArms a
/-- handler of a write to `a` by the regenerated arms of `Mapper.Write` -/
def wH (a : Nat) : H := route Serial.genWriteArms a

/-! compiled code looks the handler up in a table built once (`@[csimp]`: same function, proved) -/
def readTab : Array H := Array.ofFn (n := 65536) fun i => route Serial.genReadArms i.val
def writeTab : Array H := Array.ofFn (n := 65536) fun i => route Serial.genWriteArms i.val
def rHfast (a : Nat) : H := readTab.getD a (route Serial.genReadArms a)
def wHfast (a : Nat) : H := writeTab.getD a (route Serial.genWriteArms a)

@[csimp] theorem rH_impl : @rH = @rHfast := by
  funext a
  unfold rH rHfast readTab
  by_cases h : a < 65536
  · simp [Array.getD, h]
  · simp [Array.getD, h]

@[csimp] theorem wH_impl : @wH = @wHfast := by
  funext a
  unfold wH wHfast writeTab
  by_cases h : a < 65536
  · simp [Array.getD, h]
  · simp [Array.getD, h]

/-! ### the APU behind the decoder -/

/-- the address by which the APU model knows the register a handler stands for
    (`none`: not one of the handlers `Machine` leaves to the APU) -/
def apuAddr? (h : H) (a : Nat) : Option Nat :=
  match h with
  | .nr10 => some 0xFF10 | .nr11 => some 0xFF11 | .nr12 => some 0xFF12 | .nr13 => some 0xFF13
  | .nr14 => some 0xFF14 | .nr21 => some 0xFF16 | .nr22 => some 0xFF17 | .nr23 => some 0xFF18
  | .nr24 => some 0xFF19 | .nr30 => some 0xFF1A | .nr31 => some 0xFF1B | .nr32 => some 0xFF1C
  | .nr33 => some 0xFF1D | .nr34 => some 0xFF1E | .nr41 => some 0xFF20 | .nr42 => some 0xFF21
  | .nr43 => some 0xFF22 | .nr44 => some 0xFF23 | .nr50 => some 0xFF24 | .nr51 => some 0xFF25
  | .nr52 => some 0xFF26
  | .wave => some a
  | _ => none

/-! ### the board -/

structure Board where
  m       : Machine
  apu     : Apu.Apu
  pix     : Render.PState
  crashed : Bool

/-- shade value of a frame pixel that was never rendered (the zero RGBA of `image.NewRGBA`) -/
def unwritten : Nat := 4

/-- the pixel state of a fresh `ppu.New` -/
def pixInit : Render.PState :=
  { ticks := 0, mode := 2, ly := 0, firstLine := true,
    overlaps := Vector.replicate 40 false, frame := Vector.replicate (160 * 144) unwritten }

/-! #### Mapper.Read / Mapper.Write -/

/-- `Mapper.Read`; `none` = Go panic -/
def Board.read? (b : Board) (a : Nat) : Option (Nat × Board) :=
  match apuAddr? (rH a) a with
  | some ad => (b.apu.read ad).map fun v => (v, b)
  | none => (readVal (rH a) b.m a).map fun v => (v, { b with m := readEff (rH a) b.m a })

/-- `Mapper.Read`, a panic recorded in `crashed` -/
def Board.read (b : Board) (a : Nat) : Nat × Board :=
  match b.read? a with
  | some r => r
  | none => (0xff, { b with crashed := true })

/-- `Mapper.Write`; `none` = Go panic -/
def Board.write? (b : Board) (a v : Nat) : Option Board :=
  match apuAddr? (wH a) a with
  | some ad => some { b with apu := b.apu.write ad v }
  | none => (writeH (wH a) b.m a v).map fun m' => { b with m := m' }

/-- `Mapper.Write`, a panic recorded in `crashed` -/
def Board.write (b : Board) (a v : Nat) : Board :=
  match b.write? a v with
  | some b' => b'
  | none => { b with crashed := true }

/-! compiled code of `Board.write` (`@[csimp]`: same function, proved): the records are taken apart before a
    large array is touched, so that the array is updated in place -/

/-- outcome of a write handler that returns the machine in either case (so the caller never needs the
    old record again): `.ok` the machine after the write, `.error` = Go panic -/
abbrev WriteT := Except Machine Machine

/-- `Machine.writeH`, with the record taken apart before a large array is touched -/
def writeT (h : H) (m : Machine) (a v : Nat) : WriteT :=
  match h with
  | .wram =>
    match m with
    | { cart, vram, wram, hram, intr, joyp, serial, timer, ppu, regs, oam, apu } =>
      if hi : Oam.sub16 a 0xc000 < 0x2000 then
        .ok { cart, vram, wram := wram.set (Oam.sub16 a 0xc000) v hi, hram, intr, joyp, serial, timer, ppu, regs, oam, apu }
      else .error { cart, vram, wram, hram, intr, joyp, serial, timer, ppu, regs, oam, apu }
  | .echo =>
    match m with
    | { cart, vram, wram, hram, intr, joyp, serial, timer, ppu, regs, oam, apu } =>
      if hi : Oam.sub16 a 0xe000 < 0x2000 then
        .ok { cart, vram, wram := wram.set (Oam.sub16 a 0xe000) v hi, hram, intr, joyp, serial, timer, ppu, regs, oam, apu }
      else .error { cart, vram, wram, hram, intr, joyp, serial, timer, ppu, regs, oam, apu }
  | .vram =>
    match m with
    | { cart, vram, wram, hram, intr, joyp, serial, timer, ppu, regs, oam, apu } =>
      if hi : Oam.sub16 a 0x8000 < 0x2000 then
        .ok { cart, vram := vram.set (Oam.sub16 a 0x8000) v hi, wram, hram, intr, joyp, serial, timer, ppu, regs, oam, apu }
      else .error { cart, vram, wram, hram, intr, joyp, serial, timer, ppu, regs, oam, apu }
  | .hram =>
    match m with
    | { cart, vram, wram, hram, intr, joyp, serial, timer, ppu, regs, oam, apu } =>
      if hi : Oam.sub16 a 0xff80 < 0x8f then
        .ok { cart, vram, wram, hram := hram.set (Oam.sub16 a 0xff80) v hi, intr, joyp, serial, timer, ppu, regs, oam, apu }
      else .error { cart, vram, wram, hram, intr, joyp, serial, timer, ppu, regs, oam, apu }
  | h =>
    match writeH h m a v with
    | some m' => .ok m'
    | none => .error m

def Board.writeFast (b : Board) (a v : Nat) : Board :=
  match b with
  | { m, apu, pix, crashed } =>
    match apuAddr? (wH a) a with
    | some ad => { m, apu := apu.write ad v, pix, crashed }
    | none =>
      match writeT (wH a) m a v with
      | .ok m' => { m := m', apu, pix, crashed }
      | .error m' => { m := m', apu, pix, crashed := true }

private theorem stv_pos {n : Nat} (vec : Vector Nat n) (i v : Nat) (h : i < n) :
    stv vec i v = some (vec.set i v h) := by simp only [stv, dif_pos h]
private theorem stv_neg {n : Nat} (vec : Vector Nat n) (i v : Nat) (h : ¬ i < n) : stv vec i v = none := by
  simp only [stv, dif_neg h]

private theorem wT_wram (m : Machine) (a v : Nat) :
    writeT .wram m a v = match writeH .wram m a v with | some m' => .ok m' | none => .error m := by
  by_cases hi : Oam.sub16 a 0xc000 < 0x2000
  · have A : writeT .wram m a v = .ok { m with wram := m.wram.set (Oam.sub16 a 0xc000) v hi } := by
      cases m; simp only [writeT, dif_pos hi]
    have C : writeH .wram m a v = some { m with wram := m.wram.set (Oam.sub16 a 0xc000) v hi } := by
      simp only [writeH]; rw [stv_pos _ _ _ hi]; rfl
    rw [A, C]
  · have B : writeT .wram m a v = .error m := by cases m; simp only [writeT, dif_neg hi]
    have D : writeH .wram m a v = none := by simp only [writeH]; rw [stv_neg _ _ _ hi]; rfl
    rw [B, D]

private theorem wT_echo (m : Machine) (a v : Nat) :
    writeT .echo m a v = match writeH .echo m a v with | some m' => .ok m' | none => .error m := by
  by_cases hi : Oam.sub16 a 0xe000 < 0x2000
  · have A : writeT .echo m a v = .ok { m with wram := m.wram.set (Oam.sub16 a 0xe000) v hi } := by
      cases m; simp only [writeT, dif_pos hi]
    have C : writeH .echo m a v = some { m with wram := m.wram.set (Oam.sub16 a 0xe000) v hi } := by
      simp only [writeH]; rw [stv_pos _ _ _ hi]; rfl
    rw [A, C]
  · have B : writeT .echo m a v = .error m := by cases m; simp only [writeT, dif_neg hi]
    have D : writeH .echo m a v = none := by simp only [writeH]; rw [stv_neg _ _ _ hi]; rfl
    rw [B, D]

private theorem wT_vram (m : Machine) (a v : Nat) :
    writeT .vram m a v = match writeH .vram m a v with | some m' => .ok m' | none => .error m := by
  by_cases hi : Oam.sub16 a 0x8000 < 0x2000
  · have A : writeT .vram m a v = .ok { m with vram := m.vram.set (Oam.sub16 a 0x8000) v hi } := by
      cases m; simp only [writeT, dif_pos hi]
    have C : writeH .vram m a v = some { m with vram := m.vram.set (Oam.sub16 a 0x8000) v hi } := by
      simp only [writeH]; rw [stv_pos _ _ _ hi]; rfl
    rw [A, C]
  · have B : writeT .vram m a v = .error m := by cases m; simp only [writeT, dif_neg hi]
    have D : writeH .vram m a v = none := by simp only [writeH]; rw [stv_neg _ _ _ hi]; rfl
    rw [B, D]

private theorem wT_hram (m : Machine) (a v : Nat) :
    writeT .hram m a v = match writeH .hram m a v with | some m' => .ok m' | none => .error m := by
  by_cases hi : Oam.sub16 a 0xff80 < 0x8f
  · have A : writeT .hram m a v = .ok { m with hram := m.hram.set (Oam.sub16 a 0xff80) v hi } := by
      cases m; simp only [writeT, dif_pos hi]
    have C : writeH .hram m a v = some { m with hram := m.hram.set (Oam.sub16 a 0xff80) v hi } := by
      simp only [writeH]; rw [stv_pos _ _ _ hi]; rfl
    rw [A, C]
  · have B : writeT .hram m a v = .error m := by cases m; simp only [writeT, dif_neg hi]
    have D : writeH .hram m a v = none := by simp only [writeH]; rw [stv_neg _ _ _ hi]; rfl
    rw [B, D]

/-- `writeT` is `Machine.writeH` (the machine is handed back unchanged on a panic) -/
theorem writeT_eq (h : H) (m : Machine) (a v : Nat) :
    writeT h m a v = match writeH h m a v with
      | some m' => .ok m'
      | none => .error m := by
  cases h
  case wram => exact wT_wram m a v
  case echo => exact wT_echo m a v
  case vram => exact wT_vram m a v
  case hram => exact wT_hram m a v
  all_goals rfl

@[csimp] theorem Board.write_impl : @Board.write = @Board.writeFast := by
  funext b a v
  unfold Board.write Board.writeFast Board.write?
  generalize wH a = h
  cases hA : apuAddr? h a with
  | some ad => rfl
  | none =>
    simp only [writeT_eq]
    cases writeH h b.m a v <;> rfl

/-! #### what the CPU sees -/

def Board.setOam (b : Board) (o : Oam.Oam) : Board := { b with m := { b.m with oam := o } }
def Board.setIntr (b : Board) (i : Intr) : Board := { b with m := { b.m with intr := i } }

/-- `interrupts.ResetVblank/Stat/Timer/Serial/Joypad` for source `k` -/
def clearBit (ifl k : Nat) : Nat := if ifl.testBit k then ifl - 2 ^ k else ifl

/-- `cpu.oam.Corrupt()` after every micro-operation -/
def Board.corrupt (b : Board) : Board :=
  if !b.m.oam.read && !b.m.oam.write then b
  else match Oam.corruptStep b.m.oam with
    | some o => b.setOam o
    | none => { b with crashed := true }

/-- a bus value as the CPU's byte -/
def byteOf (n : Nat) : BitVec 8 := BitVec.ofNat 8 n
/-- compiled code of `byteOf`: without the run-time `2 ^ 8` -/
def byteOfFast (n : Nat) : BitVec 8 := BitVec.ofNatLT (n % 256) (Nat.mod_lt _ (by decide))
@[csimp] theorem byteOf_impl : @byteOf = @byteOfFast := by
  funext n; apply BitVec.eq_of_toNat_eq; simp [byteOf, byteOfFast]

instance : Cpu.Bus Board where
  read b a := let r := b.read a.toNat; (byteOf r.1, r.2)
  write b a v := b.write a.toNat v.toNat
  trigger b a := b.setOam (Oam.triggerWriteCorruption b.m.oam a)
  corrupt b := b.corrupt
  ime b := b.m.intr.ime
  setIme b v := b.setIntr { b.m.intr with ime := v }
  ie b := byteOf b.m.intr.ie
  iflag b := byteOf b.m.intr.ifl
  clearIf b k := b.setIntr { b.m.intr with ifl := clearBit b.m.intr.ifl k }

/-! #### the per-cycle calls of `runFrame` after the CPU -/

def toByte (n : Nat) : Render.Byte := ⟨n % 256, Nat.mod_lt _ (by decide)⟩

/-- `ReadBGP`, `ReadOBP0/1` -/
def palByte (p : Pal) : Nat := palRead p
def objPalByte (p : Pal) : Nat := objPalRead p
/-- compiled code: multiplications for the shifts (a run-time `<<<` goes through big-number arithmetic) -/
def palByteFast (p : Pal) : Nat := (p.c3 * 64 % 256 + p.c2 * 16 % 256 + p.c1 * 4 % 256 + p.c0) % 256
def objPalByteFast (p : Pal) : Nat := (p.c3 * 64 % 256 + p.c2 * 16 % 256 + p.c1 * 4 % 256) % 256
@[csimp] theorem palByte_impl : @palByte = @palByteFast := by
  funext p; unfold palByte palByteFast palRead; simp only [Nat.shiftLeft_eq]
@[csimp] theorem objPalByte_impl : @objPalByte = @objPalByteFast := by
  funext p; unfold objPalByte objPalByteFast objPalRead; simp only [Nat.shiftLeft_eq]

/-- what the pixel pipeline reads in this cycle: the video registers as they read back, VRAM, and OAM
    through `oam.PPURead` (0xff while a DMA transfer runs) -/
def sceneOf (m : Machine) : Render.Scene :=
  { lcdc := toByte (Lcd.readLCDC m.ppu), scx := toByte m.regs.scx, scy := toByte m.regs.scy,
    wx := toByte m.regs.wx, wy := toByte m.regs.wy, bgp := toByte (palByte m.regs.bgp),
    obp0 := toByte (objPalByte m.regs.obp0), obp1 := toByte (objPalByte m.regs.obp1),
    vram := fun i => toByte (m.vram[i]?.getD 0),
    oam := if m.oam.dmaRunning then fun _ => toByte 0xff else fun i => toByte (m.oam.oam[i]?.getD 0).toNat }

/-- the timing fields of the pixel state are those of the LCD model (one PPU, two models of it) -/
def syncPix (p : Lcd.Ppu) (st : Render.PState) : Render.PState :=
  { st with ticks := p.ticks, mode := p.mode, ly := p.ly, firstLine := p.firstLine }

/-- `ppu.EndMachineCycle`: the pixel work of `Render.tick` on the scene of this cycle, and the timing /
    interrupt requests / OAM-bug window of `Machine.ppuTick` -/
def Board.ppuStep (b : Board) : Board :=
  match b with
  | { m, apu, pix, crashed } =>
    match Render.tick (sceneOf m) (syncPix m.ppu pix) with
    | none => { m, apu, pix := pixInit, crashed := true }
    | some pix' =>
      match ppuTick m with
      | none => { m, apu, pix := pix', crashed := true }
      | some m' => { m := m', apu, pix := pix', crashed }

/-- `mapper.EndMachineCycle`: `oam.TickDMA(m.Read)`, `rtc.tick()`.  (A DMA source address is below E000,
    so the bus read it makes never reaches the APU handlers.) -/
def Board.dmaStep (b : Board) : Board :=
  match endMachineCycle Serial.genReadArms b.m with
  | some m' => { b with m := m' }
  | none => { b with crashed := true }

/-- `audio.EndMachineCycle` (the wave-RAM index panic of the APU model is its sticky flag) -/
def Board.apuStep (b : Board) : Board :=
  match b with
  | { m, apu, pix, crashed } =>
    { m, apu := apu.endMachineCycle, pix, crashed }

/-- `if timer.EndMachineCycle() { interrupts.RequestTimer() }` -/
def Board.timerStep (b : Board) : Board := { b with m := timerTick b.m }

/-- a Go panic ends the cycle -/
def Board.guard (f : Board → Board) (b : Board) : Board := if b.crashed then b else f b

/-- the four calls after `cpu.ExecuteMachineCycle`, in the order of `runFrame` -/
def Board.endCycle (b : Board) : Board :=
  Board.guard Board.timerStep (Board.guard Board.apuStep (Board.guard Board.dmaStep (Board.guard Board.ppuStep b)))

/-- `controller.ButtonAction` -/
def Board.button (b : Board) (k : Nat) (pressed : Bool) : Board := { b with m := Machine.button b.m k pressed }

/-- a Go panic happened somewhere on the board -/
def Board.dead (b : Board) : Bool := b.crashed || b.apu.crashed

/-! ### the whole machine -/

structure Whole where
  cpu : Cpu.Cpu
  b   : Board

/-- the emulator process is gone: Go panic, or `os.Exit` on an undefined opcode -/
def Whole.stopped (w : Whole) : Bool := w.b.dead || w.cpu.crashed || w.cpu.regs.exited

/-- the loop body of `runFrame` -/
def Whole.cycle (w : Whole) : Whole :=
  if w.stopped then w else
  match w with
  | { cpu, b } =>
    let s := Cpu.cycle Cpu.Tables.gen cpu b
    if s.1.regs.exited || s.1.crashed || s.2.dead then { cpu := s.1, b := s.2 }
    else { cpu := s.1, b := s.2.endCycle }

def Whole.run : Nat → Whole → Whole
  | 0, w => w
  | n + 1, w => Whole.run n w.cycle

/-- `runFrame` (without the display) -/
def Whole.frame (w : Whole) : Whole := Whole.run 17556 w

def Whole.button (w : Whole) (k : Nat) (pressed : Bool) : Whole := { w with b := w.b.button k pressed }

/-- `gameboy.New` for a constructed cartridge: `writer` = a serial writer is configured,
    `audio` = the two speaker channels are attached -/
def powerOn (cart : Cart.Mbc) (writer audio : Bool) : Whole :=
  { cpu := Cpu.Cpu.init,
    b := { m := Machine.powerOn cart writer, apu := Apu.Apu.new audio audio, pix := pixInit, crashed := false } }

/-- `gameboy.New`; `none` = construction panics (malformed image) -/
def construct (img : Cart.Image) (writer audio : Bool) : Option Whole :=
  (Cart.construct img).map fun c => powerOn c writer audio

end Tetro.Model.Whole
