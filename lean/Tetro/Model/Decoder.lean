/-
The address decoder of memory/mapper.go.  The ordered case arms are REGENERATED from the source
(`Tetro.Gen.Decoder`); here they are resolved to typed handlers and compared with the documented memory
map (`expectedReadArms` / `expectedWriteArms`, written from Pan Docs "Memory Map" and "I/O Ranges").
-/
namespace Tetro.Model.Decoder

/-- where an access is routed -/
inductive H
  | mbc
  | vram
  | wram
  | echo
  | oam
  | joyp
  | sb
  | sc
  | div
  | tima
  | tma
  | tac
  | ifl
  | nr10
  | nr11
  | nr12
  | nr13
  | nr14
  | nr21
  | nr22
  | nr23
  | nr24
  | nr30
  | nr31
  | nr32
  | nr33
  | nr34
  | nr41
  | nr42
  | nr43
  | nr44
  | nr50
  | nr51
  | nr52
  | ff
  | wave
  | lcdc
  | stat
  | scy
  | scx
  | ly
  | lyc
  | dma
  | bgp
  | obp0
  | obp1
  | wy
  | wx
  | hram
  | ie
  | panic
  | ignore
  | unknown
deriving DecidableEq, Repr

inductive Test | lt | eq | dflt
deriving DecidableEq, Repr

structure Arm where
  test : Test
  bound : Nat
  h : H
deriving DecidableEq, Repr

def parseTest : String → Test
  | "lt" => .lt | "eq" => .eq | _ => .dflt

/-- read-side handler texts -/
def parseReadH : String → H
  | "return m.mbc.Read(addr)" => .mbc
  | "return m.ppu.ReadVideoRAM(addr)" => .vram
  | "return m.internalRAM[addr-49152]" => .wram
  | "return m.internalRAM[addr-57344]" => .echo
  | "return m.oam.Read(addr)" => .oam
  | "return m.controller.ReadJOYP()" => .joyp
  | "return m.serial.ReadSB()" => .sb
  | "return m.serial.ReadSC()" => .sc
  | "return m.timer.ReadDIV()" => .div
  | "return m.timer.ReadTIMA()" => .tima
  | "return m.timer.ReadTMA()" => .tma
  | "return m.timer.ReadTAC()" => .tac
  | "return m.interrupts.ReadIF()" => .ifl
  | "return m.audio.ReadNR10()" => .nr10
  | "return m.audio.ReadNR11()" => .nr11
  | "return m.audio.ReadNR12()" => .nr12
  | "return m.audio.ReadNR13()" => .nr13
  | "return m.audio.ReadNR14()" => .nr14
  | "return m.audio.ReadNR21()" => .nr21
  | "return m.audio.ReadNR22()" => .nr22
  | "return m.audio.ReadNR23()" => .nr23
  | "return m.audio.ReadNR24()" => .nr24
  | "return m.audio.ReadNR30()" => .nr30
  | "return m.audio.ReadNR31()" => .nr31
  | "return m.audio.ReadNR32()" => .nr32
  | "return m.audio.ReadNR33()" => .nr33
  | "return m.audio.ReadNR34()" => .nr34
  | "return m.audio.ReadNR41()" => .nr41
  | "return m.audio.ReadNR42()" => .nr42
  | "return m.audio.ReadNR43()" => .nr43
  | "return m.audio.ReadNR44()" => .nr44
  | "return m.audio.ReadNR50()" => .nr50
  | "return m.audio.ReadNR51()" => .nr51
  | "return m.audio.ReadNR52()" => .nr52
  | "return 255" => .ff
  | "return m.audio.ReadWaveRAM(addr)" => .wave
  | "return m.ppu.ReadLCDC()" => .lcdc
  | "return m.ppu.ReadSTAT()" => .stat
  | "return m.ppu.ReadSCY()" => .scy
  | "return m.ppu.ReadSCX()" => .scx
  | "return m.ppu.ReadLY()" => .ly
  | "return m.ppu.ReadLYC()" => .lyc
  | "return m.oam.ReadDMA()" => .dma
  | "return m.ppu.ReadBGP()" => .bgp
  | "return m.ppu.ReadOBP0()" => .obp0
  | "return m.ppu.ReadOBP1()" => .obp1
  | "return m.ppu.ReadWY()" => .wy
  | "return m.ppu.ReadWX()" => .wx
  | "return m.zeroPage[addr-65408]" => .hram
  | "return m.interrupts.ReadIE()" => .ie
  | "panic" => .panic
  | _ => .unknown

/-- write-side handler texts -/
def parseWriteH : String → H
  | "m.mbc.Write(addr,value)" => .mbc
  | "m.ppu.WriteVideoRAM(addr,value)" => .vram
  | "m.internalRAM[addr-49152]=value" => .wram
  | "m.internalRAM[addr-57344]=value" => .echo
  | "m.oam.Write(addr,value)" => .oam
  | "m.controller.WriteJOYP(value)" => .joyp
  | "m.serial.WriteSB(value)" => .sb
  | "m.serial.WriteSC(value)" => .sc
  | "m.timer.WriteDIV(value)" => .div
  | "m.timer.WriteTIMA(value)" => .tima
  | "m.timer.WriteTMA(value)" => .tma
  | "m.timer.WriteTAC(value)" => .tac
  | "m.interrupts.WriteIF(value)" => .ifl
  | "m.audio.WriteNR10(value)" => .nr10
  | "m.audio.WriteNR11(value)" => .nr11
  | "m.audio.WriteNR12(value)" => .nr12
  | "m.audio.WriteNR13(value)" => .nr13
  | "m.audio.WriteNR14(value)" => .nr14
  | "m.audio.WriteNR21(value)" => .nr21
  | "m.audio.WriteNR22(value)" => .nr22
  | "m.audio.WriteNR23(value)" => .nr23
  | "m.audio.WriteNR24(value)" => .nr24
  | "m.audio.WriteNR30(value)" => .nr30
  | "m.audio.WriteNR31(value)" => .nr31
  | "m.audio.WriteNR32(value)" => .nr32
  | "m.audio.WriteNR33(value)" => .nr33
  | "m.audio.WriteNR34(value)" => .nr34
  | "m.audio.WriteNR41(value)" => .nr41
  | "m.audio.WriteNR42(value)" => .nr42
  | "m.audio.WriteNR43(value)" => .nr43
  | "m.audio.WriteNR44(value)" => .nr44
  | "m.audio.WriteNR50(value)" => .nr50
  | "m.audio.WriteNR51(value)" => .nr51
  | "m.audio.WriteNR52(value)" => .nr52
  | "ignore" => .ignore
  | "m.audio.WriteWaveRAM(addr,value)" => .wave
  | "m.ppu.WriteLCDC(value)" => .lcdc
  | "m.ppu.WriteSTAT(value)" => .stat
  | "m.ppu.WriteSCY(value)" => .scy
  | "m.ppu.WriteSCX(value)" => .scx
  | "m.ppu.WriteLY(value)" => .ly
  | "m.ppu.WriteLYC(value)" => .lyc
  | "m.oam.WriteDMA(value)" => .dma
  | "m.ppu.WriteBGP(value)" => .bgp
  | "m.ppu.WriteOBP0(value)" => .obp0
  | "m.ppu.WriteOBP1(value)" => .obp1
  | "m.ppu.WriteWY(value)" => .wy
  | "m.ppu.WriteWX(value)" => .wx
  | "m.zeroPage[addr-65408]=value" => .hram
  | "m.interrupts.WriteIE(value)" => .ie
  | "panic" => .panic
  | _ => .unknown

def resolve (ph : String → H) (xs : List (String × Nat × String)) : List Arm :=
  xs.map fun x => { test := parseTest x.1, bound := x.2.1, h := ph x.2.2 }

/-- the first arm whose test accepts the address (Go `switch` semantics) -/
def route (arms : List Arm) (addr : Nat) : H :=
  match arms with
  | [] => .unknown
  | a :: rest =>
    match a.test with
    | .lt => if addr < a.bound then a.h else route rest addr
    | .eq => if addr = a.bound then a.h else route rest addr
    | .dflt => a.h

/-- documented DMG memory map, read side, in decoding order -/
def expectedReadArms : List Arm := [
  ⟨.lt, 0x8000, .mbc⟩,
  ⟨.lt, 0xa000, .vram⟩,
  ⟨.lt, 0xc000, .mbc⟩,
  ⟨.lt, 0xe000, .wram⟩,
  ⟨.lt, 0xfe00, .echo⟩,
  ⟨.lt, 0xff00, .oam⟩,
  ⟨.eq, 0xff00, .joyp⟩,
  ⟨.eq, 0xff01, .sb⟩,
  ⟨.eq, 0xff02, .sc⟩,
  ⟨.eq, 0xff04, .div⟩,
  ⟨.eq, 0xff05, .tima⟩,
  ⟨.eq, 0xff06, .tma⟩,
  ⟨.eq, 0xff07, .tac⟩,
  ⟨.eq, 0xff0f, .ifl⟩,
  ⟨.eq, 0xff10, .nr10⟩,
  ⟨.eq, 0xff11, .nr11⟩,
  ⟨.eq, 0xff12, .nr12⟩,
  ⟨.eq, 0xff13, .nr13⟩,
  ⟨.eq, 0xff14, .nr14⟩,
  ⟨.eq, 0xff16, .nr21⟩,
  ⟨.eq, 0xff17, .nr22⟩,
  ⟨.eq, 0xff18, .nr23⟩,
  ⟨.eq, 0xff19, .nr24⟩,
  ⟨.eq, 0xff1a, .nr30⟩,
  ⟨.eq, 0xff1b, .nr31⟩,
  ⟨.eq, 0xff1c, .nr32⟩,
  ⟨.eq, 0xff1d, .nr33⟩,
  ⟨.eq, 0xff1e, .nr34⟩,
  ⟨.eq, 0xff20, .nr41⟩,
  ⟨.eq, 0xff21, .nr42⟩,
  ⟨.eq, 0xff22, .nr43⟩,
  ⟨.eq, 0xff23, .nr44⟩,
  ⟨.eq, 0xff24, .nr50⟩,
  ⟨.eq, 0xff25, .nr51⟩,
  ⟨.eq, 0xff26, .nr52⟩,
  ⟨.lt, 0xff30, .ff⟩,
  ⟨.lt, 0xff40, .wave⟩,
  ⟨.eq, 0xff40, .lcdc⟩,
  ⟨.eq, 0xff41, .stat⟩,
  ⟨.eq, 0xff42, .scy⟩,
  ⟨.eq, 0xff43, .scx⟩,
  ⟨.eq, 0xff44, .ly⟩,
  ⟨.eq, 0xff45, .lyc⟩,
  ⟨.eq, 0xff46, .dma⟩,
  ⟨.eq, 0xff47, .bgp⟩,
  ⟨.eq, 0xff48, .obp0⟩,
  ⟨.eq, 0xff49, .obp1⟩,
  ⟨.eq, 0xff4a, .wy⟩,
  ⟨.eq, 0xff4b, .wx⟩,
  ⟨.lt, 0xff80, .ff⟩,
  ⟨.lt, 0xffff, .hram⟩,
  ⟨.eq, 0xffff, .ie⟩,
  ⟨.dflt, 0x0000, .panic⟩
]

/-- documented DMG memory map, write side, in decoding order -/
def expectedWriteArms : List Arm := [
  ⟨.lt, 0x8000, .mbc⟩,
  ⟨.lt, 0xa000, .vram⟩,
  ⟨.lt, 0xc000, .mbc⟩,
  ⟨.lt, 0xe000, .wram⟩,
  ⟨.lt, 0xfe00, .echo⟩,
  ⟨.lt, 0xff00, .oam⟩,
  ⟨.eq, 0xff00, .joyp⟩,
  ⟨.eq, 0xff01, .sb⟩,
  ⟨.eq, 0xff02, .sc⟩,
  ⟨.eq, 0xff04, .div⟩,
  ⟨.eq, 0xff05, .tima⟩,
  ⟨.eq, 0xff06, .tma⟩,
  ⟨.eq, 0xff07, .tac⟩,
  ⟨.eq, 0xff0f, .ifl⟩,
  ⟨.eq, 0xff10, .nr10⟩,
  ⟨.eq, 0xff11, .nr11⟩,
  ⟨.eq, 0xff12, .nr12⟩,
  ⟨.eq, 0xff13, .nr13⟩,
  ⟨.eq, 0xff14, .nr14⟩,
  ⟨.eq, 0xff16, .nr21⟩,
  ⟨.eq, 0xff17, .nr22⟩,
  ⟨.eq, 0xff18, .nr23⟩,
  ⟨.eq, 0xff19, .nr24⟩,
  ⟨.eq, 0xff1a, .nr30⟩,
  ⟨.eq, 0xff1b, .nr31⟩,
  ⟨.eq, 0xff1c, .nr32⟩,
  ⟨.eq, 0xff1d, .nr33⟩,
  ⟨.eq, 0xff1e, .nr34⟩,
  ⟨.eq, 0xff20, .nr41⟩,
  ⟨.eq, 0xff21, .nr42⟩,
  ⟨.eq, 0xff22, .nr43⟩,
  ⟨.eq, 0xff23, .nr44⟩,
  ⟨.eq, 0xff24, .nr50⟩,
  ⟨.eq, 0xff25, .nr51⟩,
  ⟨.eq, 0xff26, .nr52⟩,
  ⟨.lt, 0xff30, .ignore⟩,
  ⟨.lt, 0xff40, .wave⟩,
  ⟨.eq, 0xff40, .lcdc⟩,
  ⟨.eq, 0xff41, .stat⟩,
  ⟨.eq, 0xff42, .scy⟩,
  ⟨.eq, 0xff43, .scx⟩,
  ⟨.eq, 0xff44, .ly⟩,
  ⟨.eq, 0xff45, .lyc⟩,
  ⟨.eq, 0xff46, .dma⟩,
  ⟨.eq, 0xff47, .bgp⟩,
  ⟨.eq, 0xff48, .obp0⟩,
  ⟨.eq, 0xff49, .obp1⟩,
  ⟨.eq, 0xff4a, .wy⟩,
  ⟨.eq, 0xff4b, .wx⟩,
  ⟨.lt, 0xff80, .ignore⟩,
  ⟨.lt, 0xffff, .hram⟩,
  ⟨.eq, 0xffff, .ie⟩,
  ⟨.dflt, 0x0000, .panic⟩
]

end Tetro.Model.Decoder
