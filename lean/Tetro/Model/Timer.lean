import Tetro.Spec.TimerAlphabet
/-
Model of gameboy/timer/timer.go AS IT IS NOW (after the `fix:` commit 73224bd), function for
function.  Hand-written; tied to the code by the `timer` correspondence mode.

Representation: Go `uint16`/`uint8` fields are `Nat` with an explicit `% 65536` / `% 256` at every
place where the Go arithmetic can wrap (`counter += 4`, `tima++`), so that `omega` can do the
arithmetic proofs.  All other fields only ever receive values that are already in range
(register writes are bytes; `reloadDelay` is 0, 1 or 2 and is only decremented when > 0).
Bit tests are written with `/` and `%`:  `x & (1<<k) > 0`  is  `x / 2^k % 2 = 1`,
`tac & 0x03` is `tac % 4`, `uint8(counter >> 8)` is `counter / 256` (counter < 65536).

`counterBitMasks[t.tac&0x03]` is the only index expression of the file; the index is `< 4` and the
slice literal has 4 elements, so it cannot panic (`maskBit` is total over `tac % 4`).
-/
namespace Tetro.Model.Timer
open Tetro.Timer (Write Obs Call)

structure T where
  counter     : Nat    -- uint16
  tac         : Nat    -- uint8
  tima        : Nat    -- uint8
  tma         : Nat    -- uint8
  lastEdgeSet : Bool
  reloadDelay : Nat    -- uint8
  reloading   : Bool
  interrupt   : Bool
deriving DecidableEq, Repr

/-- `timer.New` -/
def init : T :=
  { counter := 0xabcc, tac := 0, tima := 0, tma := 0, lastEdgeSet := false,
    reloadDelay := 0, reloading := false, interrupt := false }

/-- `counterBitMasks[i]` as the bit position: masks are 1<<9, 1<<3, 1<<5, 1<<7 -/
def maskBit (i : Nat) : Nat :=
  match i % 4 with
  | 0 => 9
  | 1 => 3
  | 2 => 5
  | _ => 7

/-- `t.counter & counterBitMasks[t.tac&0x03] > 0` -/
def counterBitSet (t : T) : Bool :=
  match t.tac % 4 with
  | 0 => t.counter / 512 % 2 == 1
  | 1 => t.counter / 8 % 2 == 1
  | 2 => t.counter / 32 % 2 == 1
  | _ => t.counter / 128 % 2 == 1

/-- `edgeSet` -/
def edgeSet (t : T) : Bool :=
  (t.tac / 4 % 2 == 1) && counterBitSet t

/-- `increment(reloadDelay)` -/
def increment (delay : Nat) (t : T) : T :=
  if (t.tima + 1) % 256 = 0 then
    { t with tima := 0, reloadDelay := delay, interrupt := true }
  else
    { t with tima := (t.tima + 1) % 256 }

/-- `checkFallingEdge` -/
def checkFallingEdge (t : T) : T :=
  if t.lastEdgeSet && !edgeSet t then increment 2 { t with lastEdgeSet := false } else t

/-- the `counter += 4` statement of `EndMachineCycle` -/
def advance (t : T) : T := { t with counter := (t.counter + 4) % 65536 }

/-- the `reloading = false; if reloadDelay > 0 {…}` block of `EndMachineCycle` -/
def reloadStep (t : T) : T :=
  if t.reloadDelay > 0 then
    if t.reloadDelay - 1 = 0 then
      { t with reloadDelay := 0, tima := t.tma, reloading := true }
    else
      { t with reloadDelay := t.reloadDelay - 1, reloading := false }
  else
    { t with reloading := false }

/-- the falling-edge check and `lastEdgeSet = edgeSet` at the end of `EndMachineCycle`;
    `before` is `edgeSetBefore` -/
def tickEdge (before : Bool) (t : T) : T :=
  if before && !edgeSet t then
    { increment 1 t with lastEdgeSet := edgeSet t }
  else
    { t with lastEdgeSet := edgeSet t }

/-- state of `EndMachineCycle` just before `interrupt` is read and cleared -/
def endCyclePre (t : T) : T := tickEdge (edgeSet t) (reloadStep (advance t))

/-- `EndMachineCycle`: the new state -/
def endCycle (t : T) : T := { endCyclePre t with interrupt := false }

/-- `EndMachineCycle`: the returned interrupt request -/
def endCycleIrq (t : T) : Bool := (endCyclePre t).interrupt

/-- `Reset` (= `WriteDIV`, which ignores its argument) -/
def reset (t : T) : T := checkFallingEdge { t with counter := 0 }

def writeDIV (t : T) : T := reset t

/-- `WriteTAC` -/
def writeTAC (t : T) (v : Nat) : T := checkFallingEdge { t with tac := v }

/-- `WriteTIMA` -/
def writeTIMA (t : T) (v : Nat) : T :=
  if !t.reloading then { t with tima := v, reloadDelay := 0 } else t

/-- `WriteTMA` -/
def writeTMA (t : T) (v : Nat) : T :=
  if t.reloading then { t with tma := v, tima := v } else { t with tma := v }

def readDIV (t : T) : Nat := t.counter / 256
/-- `tac | 0xf8` for a byte: the low three bits of `tac`, the upper five set -/
def readTAC (t : T) : Nat := t.tac % 8 + 0xf8
def readTIMA (t : T) : Nat := t.tima
def readTMA (t : T) : Nat := t.tma

/-- verification hook `VerifSetCounter` -/
def setCounter (t : T) (c : Nat) : T := { t with counter := c }

/-! ### operation alphabets -/

def applyWrite (t : T) : Write → T
  | .div => writeDIV t
  | .tima v => writeTIMA t v
  | .tma v => writeTMA t v
  | .tac v => writeTAC t v

/-- free alphabet: single API calls in any order (what the harness can do) -/
def call (t : T) : Call → T
  | .tick => endCycle t
  | .write w => applyWrite t w

def applyOpt (t : T) : Option Write → T
  | none => t
  | some w => applyWrite t w

/-- guest alphabet: one machine cycle = at most one bus write, then `EndMachineCycle` -/
def cycle (t : T) (w : Option Write) : T := endCycle (applyOpt t w)

/-- registers as read in the following machine cycle, and the IRQ returned by this cycle's tick -/
def cycleObs (t : T) (w : Option Write) : Obs :=
  { div := readDIV (cycle t w), tima := readTIMA (cycle t w), tma := readTMA (cycle t w),
    tac := readTAC (cycle t w), irq := endCycleIrq (applyOpt t w) }

/-- observation sequence of a guest schedule -/
def observe (t : T) : List (Option Write) → List Obs
  | [] => []
  | w :: ws => cycleObs t w :: observe (cycle t w) ws

def run (t : T) (ws : List (Option Write)) : T := ws.foldl cycle t

def runCalls (t : T) (cs : List Call) : T := cs.foldl call t

end Tetro.Model.Timer
