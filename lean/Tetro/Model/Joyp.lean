/-
Model of gameboy/controller/controller.go (hand-written, tied to the code by the `joyp`
correspondence mode).  uint8 fields are `BitVec 8`.
-/
namespace Tetro.Model.Joyp

structure Ctl where
  joyp : BitVec 8
  dir  : BitVec 8   -- directionInput
  btn  : BitVec 8   -- buttonInput
deriving DecidableEq, Repr

/-- `controller.New` -/
def init : Ctl := { joyp := 0x0f, dir := 0x0f, btn := 0x0f }

/-- `ReadJOYP` -/
def read (c : Ctl) : BitVec 8 :=
  let n0 : BitVec 8 := 0x0f
  let n1 := if c.joyp &&& 0x10 = 0 then n0 &&& c.dir else n0
  let n2 := if c.joyp &&& 0x20 = 0 then n1 &&& c.btn else n1
  (c.joyp &&& 0x30) ||| (n2 &&& 0x0f) ||| 0xc0

/-- `WriteJOYP` -/
def write (c : Ctl) (v : BitVec 8) : Ctl := { c with joyp := v }

/-- Button numbering follows the Go `iota`: Up Down Left Right A B Start Select = 0..7 -/
def button (c : Ctl) (b : Nat) (pressed : Bool) : Ctl :=
  match b with
  | 6 => if pressed then { c with btn := c.btn &&& ~~~0x8 } else { c with btn := c.btn ||| 0x8 }
  | 7 => if pressed then { c with btn := c.btn &&& ~~~0x4 } else { c with btn := c.btn ||| 0x4 }
  | 5 => if pressed then { c with btn := c.btn &&& ~~~0x2 } else { c with btn := c.btn ||| 0x2 }
  | 4 => if pressed then { c with btn := c.btn &&& ~~~0x1 } else { c with btn := c.btn ||| 0x1 }
  | 1 => if pressed then { c with dir := (c.dir &&& ~~~0x8) ||| 0x4 } else { c with dir := c.dir ||| 0x8 }
  | 0 => if pressed then { c with dir := (c.dir &&& ~~~0x4) ||| 0x8 } else { c with dir := c.dir ||| 0x4 }
  | 2 => if pressed then { c with dir := (c.dir &&& ~~~0x2) ||| 0x1 } else { c with dir := c.dir ||| 0x2 }
  | 3 => if pressed then { c with dir := (c.dir &&& ~~~0x1) ||| 0x2 } else { c with dir := c.dir ||| 0x1 }
  | _ => c

inductive Op where
  | write (v : BitVec 8)
  | button (b : Nat) (pressed : Bool)
deriving Repr

def step (c : Ctl) : Op → Ctl
  | .write v => write c v
  | .button b p => button c b p

def run (c : Ctl) (ops : List Op) : Ctl := ops.foldl step c

end Tetro.Model.Joyp
