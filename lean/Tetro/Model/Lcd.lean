/-
Model of the LCD timing / interrupt-request part of gameboy/ppu (hand-written, tied to the code by
the `lcd` correspondence mode):

  ppu.go        New, EndMachineCycle, enable, disable
  registers.go  WriteLCDC/ReadLCDC, WriteSTAT/ReadSTAT, WriteLY/ReadLY, WriteLYC
  oam.go        EnterMode2 / ExitMode2 (they only set / clear `corrupt`; mirrored as `oamCorrupt`)
  interrupts.go RequestVblank / RequestStat (mirrored as the two output bits of a tick)

Number representation: all fields are `Nat`; the places where Go truncates to uint8 are written
as explicit `% 256` (`ly = uint8(ticks/114)`, `lyc`, the sum in ReadSTAT).  `ticks` is a Go `int`.
Go panics are modelled explicitly: `tick` returns `none` where the Go code panics
  * `panic("unexpected mode during check/tick")`          (mode outside 0..3)
  * `ppu.spriteOverlaps[sprite]` / `oam[...]` index out of range in checkOverlappingSprites
    (mode 2 with ticksThisLine >= 20, i.e. sprite number >= 40).
Pixel rendering (renderPixel, the contents of spriteOverlaps) has no effect on the timing /
request state and is not modelled here (C15 models it).
-/
namespace Tetro.Model.Lcd

structure Ppu where
  enabled     : Bool
  ticks       : Nat
  mode        : Nat
  ly          : Nat
  lyc         : Nat
  firstLine   : Bool
  coincidence : Bool
  lycInt      : Bool   -- coincidenceInterrupt (STAT bit 6)
  oamInt      : Bool   -- oamInterrupt         (STAT bit 5)
  vblInt      : Bool   -- vblankInterrupt      (STAT bit 4)
  hblInt      : Bool   -- hlankInterrupt       (STAT bit 3)
  lcdcLow     : Nat    -- LCDC bits 0-6 (the seven rendering flags), kept for read-back
  oamCorrupt  : Bool   -- mirror of oam.OAM.corrupt
deriving DecidableEq, Repr

/-- the Go zero value `&PPU{}` together with a fresh `oam.New()` -/
def zero : Ppu :=
  { enabled := false, ticks := 0, mode := 0, ly := 0, lyc := 0, firstLine := false,
    coincidence := false, lycInt := false, oamInt := false, vblInt := false, hblInt := false,
    lcdcLow := 0, oamCorrupt := false }

/-- `ppu.enable` (calls `oam.EnterMode2`) -/
def enable (p : Ppu) : Ppu :=
  { p with enabled := true, firstLine := true, mode := 2, oamCorrupt := true }

/-- `ppu.disable` (calls `oam.ExitMode2` since fix 5cf1f5f) -/
def disable (p : Ppu) : Ppu :=
  { p with enabled := false, oamCorrupt := false, ly := 0, ticks := 0, mode := 0 }

/-- the enable/disable decision of `WriteLCDC` -/
def lcdcSwitch (p : Ppu) (on : Bool) : Ppu :=
  if on = true ∧ p.enabled = false then enable p
  else if on = false ∧ p.enabled = true then disable p
  else p

/-- `WriteLCDC` -/
def wLCDC (p : Ppu) (v : Nat) : Ppu :=
  { lcdcSwitch p (v.testBit 7) with lcdcLow := v % 128 }

/-- `WriteSTAT` -/
def wSTAT (p : Ppu) (v : Nat) : Ppu :=
  { p with lycInt := v.testBit 6, oamInt := v.testBit 5, vblInt := v.testBit 4, hblInt := v.testBit 3 }

/-- `WriteLYC` -/
def wLYC (p : Ppu) (v : Nat) : Ppu := { p with lyc := v % 256 }

/-- `WriteLY` (the written value is ignored) -/
def wLY (p : Ppu) (_v : Nat) : Ppu := { p with ly := 0 }

/-- `ReadLY` -/
def readLY (p : Ppu) : Nat := p.ly

/-- `ReadSTAT` (uint8 sum) -/
def readSTAT (p : Ppu) : Nat :=
  (128 + (if p.lycInt then 64 else 0) + (if p.oamInt then 32 else 0) + (if p.vblInt then 16 else 0)
    + (if p.hblInt then 8 else 0) + (if p.coincidence then 4 else 0) + p.mode) % 256

/-- `ReadLCDC` -/
def readLCDC (p : Ppu) : Nat := (if p.enabled then 128 else 0) + p.lcdcLow

/-- `ppu.New` as far as this model's state is concerned:
    WriteLCDC(0x91); WriteLY(0); WriteLYC(0); WriteSTAT(0) on the zero PPU -/
def init : Ppu := wSTAT (wLYC (wLY (wLCDC zero 0x91) 0) 0) 0

/-! ### EndMachineCycle.  `m` = mode before, `t` = ticks before; `ly = uint8(t/114)`,
    `ticksThisLine = uint8(t % 114)` (never truncated, < 114).  One helper per effect of the first
    `switch ppu.mode`, all with the same case skeleton as the Go switch (cases 2, 3, 0, 1). -/

/-- new mode -/
def nextMode (m t : Nat) : Nat :=
  if m = 2 then (if t % 114 = 20 then 3 else 2)
  else if m = 3 then (if t % 114 = 61 then 0 else 3)
  else if m = 0 then (if t % 114 = 0 then (if t / 114 % 256 = 144 then 1 else 2) else 0)
  else (if t = 0 then 2 else 1)

/-- does the mode switch call `RequestStat` -/
def swStat (m t : Nat) (hbl vbl oam : Bool) : Bool :=
  if m = 2 then false
  else if m = 3 then (if t % 114 = 61 then hbl else false)
  else if m = 0 then (if t % 114 = 0 then (if t / 114 % 256 = 144 then vbl else oam) else false)
  else (if t = 0 then oam else false)

/-- does the mode switch call `RequestVblank` -/
def swVbl (m t : Nat) : Bool :=
  if m = 2 then false
  else if m = 3 then false
  else if m = 0 then (if t % 114 = 0 then (if t / 114 % 256 = 144 then true else false) else false)
  else false

/-- `oam.corrupt` after the mode switch (ExitMode2 on 2→3, EnterMode2 on 0→2 and 1→2) -/
def swCorrupt (m t : Nat) (c : Bool) : Bool :=
  if m = 2 then (if t % 114 = 20 then false else c)
  else if m = 3 then c
  else if m = 0 then (if t % 114 = 0 then (if t / 114 % 256 = 144 then c else true) else c)
  else (if t = 0 then true else c)

/-- result of one machine cycle: new state and the two interrupt requests raised during it -/
structure TickRes where
  p    : Ppu
  vbl  : Bool
  stat : Bool
deriving DecidableEq, Repr

/-- the part of `EndMachineCycle` that runs when the LCD is on and no panic occurs -/
def tickOn (p : Ppu) : TickRes :=
  let mode := nextMode p.mode p.ticks
  let skip := mode = 0 ∧ p.firstLine = true
  let t2 := if skip then p.ticks + 2 else p.ticks
  { p := { p with
      ly := p.ticks / 114 % 256,
      mode := mode,
      oamCorrupt := swCorrupt p.mode p.ticks p.oamCorrupt,
      coincidence := if p.ticks % 114 = 0 then decide (p.ticks / 114 % 256 = p.lyc) else p.coincidence,
      ticks := if t2 + 1 = 17556 then 0 else t2 + 1,
      firstLine := if skip then false else p.firstLine },
    vbl := swVbl p.mode p.ticks,
    stat := swStat p.mode p.ticks p.hblInt p.vblInt p.oamInt
            || (decide (p.ticks % 114 = 0) && decide (p.ticks / 114 % 256 = p.lyc) && p.lycInt) }

/-- the Go code panics in this cycle -/
def tickPanics (p : Ppu) : Prop :=
  4 ≤ p.mode                                                -- default arm of the first switch
  ∨ (nextMode p.mode p.ticks = 2 ∧ 20 ≤ p.ticks % 114)      -- spriteOverlaps[40..] in mode 2
  ∨ 4 ≤ nextMode p.mode p.ticks                             -- default arm of the second switch

instance (p : Ppu) : Decidable (tickPanics p) := by unfold tickPanics; infer_instance

/-- `EndMachineCycle`; `none` = Go panic -/
def tick (p : Ppu) : Option TickRes :=
  if p.enabled = false then some { p := p, vbl := false, stat := false }
  else if tickPanics p then none
  else some (tickOn p)

inductive Op where
  | tick
  | wLCDC (v : Nat)
  | wSTAT (v : Nat)
  | wLYC (v : Nat)
  | wLY (v : Nat)
deriving DecidableEq, Repr

/-- one operation; register writes raise no request -/
def step (p : Ppu) : Op → Option TickRes
  | .tick => tick p
  | .wLCDC v => some { p := wLCDC p v, vbl := false, stat := false }
  | .wSTAT v => some { p := wSTAT p v, vbl := false, stat := false }
  | .wLYC v => some { p := wLYC p v, vbl := false, stat := false }
  | .wLY v => some { p := wLY p v, vbl := false, stat := false }

/-- a whole schedule; `none` as soon as one operation panics -/
def run (p : Ppu) : List Op → Option Ppu
  | [] => some p
  | op :: ops => match step p op with
    | none => none
    | some r => run r.p ops

end Tetro.Model.Lcd
