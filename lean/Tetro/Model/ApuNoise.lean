import Tetro.Model.ApuSquare
/-
Model of gameboy/audio/noise.go (channel 4) and the NR41–NR44 handlers of registers.go
(after the fix commit: `period()` = divisor·16 (8 if 0) << shift on a uint32 timer, 7-bit mode
REPLACES bit 6).  Same conventions as `ApuSquare.lean`; the LFSR is a Nat < 65536 handled with
Nat bit operations.
-/
namespace Tetro.Model.Apu

structure Noise where
  length : Nat := 0
  initialVolume : Nat := 0
  envelopeIncrease : Bool := false
  envelopeSweep : Nat := 0
  shift : Nat := 0
  lfsrWidth : Nat := 0
  divisor : Nat := 0
  lengthEnable : Bool := false
  enabled : Bool := false
  dacEnabled : Bool := false
  volume : Nat := 0
  timer : Nat := 0            -- uint32
  envelopeTimer : Nat := 0
  lfsr : Nat := 0             -- uint16
  triggered : Bool := false
deriving DecidableEq, Repr

namespace Noise

/-- `noise.period()` (uint32) -/
def period (n : Noise) : Nat :=
  let d := (n.divisor * 16) % 4294967296
  let d := if d = 0 then 8 else d
  (d <<< n.shift) % 4294967296

/-- one LFSR step exactly as in `tickTimer` (uint16 register) -/
def lfsrStep (width : Nat) (l : Nat) : Nat :=
  let b0 := l &&& 1
  let b1 := (l >>> 1) &&& 1
  let new := b0 ^^^ b1
  let l := l >>> 1
  let l := l ||| (new <<< 14)
  if width > 0 then ((l &&& 0xffbf) ||| (new <<< 6)) else l

/-- `noise.trigger` -/
def trigger (n : Noise) : Noise :=
  let n := { n with triggered := true, enabled := true }
  let n := if n.length = 0 then { n with length := 64 } else n
  let n := { n with timer := n.period, envelopeTimer := n.envelopeSweep }
  let n := if n.envelopeTimer = 0 then { n with envelopeTimer := 8 } else n
  let n := { n with volume := n.initialVolume, lfsr := 0xffff }
  if !n.dacEnabled then { n with enabled := false } else n

/-- `noise.tickTimer` -/
def tickTimer (n : Noise) : Noise :=
  let n := if n.timer = 0 then { n with timer := n.period, lfsr := lfsrStep n.lfsrWidth n.lfsr } else n
  { n with timer := dec32 n.timer }

/-- `noise.tickLength` -/
def tickLength (n : Noise) : Noise :=
  if !n.lengthEnable then n else
  if n.length > 0 then
    let n := { n with length := dec8 n.length }
    if n.length = 0 then { n with enabled := false } else n
  else n

/-- `noise.tickVolumeEnvelope` -/
def tickVolumeEnvelope (n : Noise) : Noise :=
  if n.envelopeSweep = 0 then n else
  let n := if n.envelopeTimer = 0 then
      (if n.envelopeIncrease then
        (if n.volume < 15 then { n with volume := inc8 n.volume, envelopeTimer := n.envelopeSweep } else n)
       else
        (if n.volume > 0 then { n with volume := dec8 n.volume, envelopeTimer := n.envelopeSweep } else n))
    else n
  { n with envelopeTimer := dec8 n.envelopeTimer }

/-- `noise.takeSample` as the exact numerator over 120: `(1 - lfsr&1)·volume/8` -/
def sampleNum (n : Noise) : Nat :=
  if !n.enabled || !n.dacEnabled then 0 else 15 * (1 - n.lfsr % 2) * n.volume

/-- `WriteNR41` -/
def writeNR41 (n : Noise) (v : Nat) : Noise := { n with length := 64 - v % 64 }

/-- `WriteNR42` -/
def writeNR42 (n : Noise) (v : Nat) : Noise :=
  let n := { n with initialVolume := v / 16, envelopeIncrease := decide (v / 8 % 2 > 0), envelopeSweep := v % 8 }
  let n := { n with dacEnabled := decide (n.initialVolume > 0) || n.envelopeIncrease }
  if !n.dacEnabled then { n with enabled := false } else n

/-- `WriteNR43` -/
def writeNR43 (n : Noise) (v : Nat) : Noise :=
  { n with shift := v / 16, lfsrWidth := v / 8 % 2, divisor := v % 8 }

/-- `WriteNR44`; `fs` is `a.frameSeqTicks` -/
def writeNR44 (n : Noise) (fs : Nat) (v : Nat) : Noise :=
  let trig : Bool := decide (v / 128 % 2 > 0)
  let le : Bool := decide (v / 64 % 2 > 0)
  let n := if !n.lengthEnable && le && decide (n.length > 0) && decide (fs % 2 = 1) then
      (let n : Noise := { n with length := dec8 n.length }
       if n.length = 0 ∧ trig = false then { n with enabled := false } else n)
    else n
  let n := if trig then
      (let n : Noise := n.trigger
       if le && decide (n.length = 64) && decide (fs % 2 = 1) then { n with length := dec8 n.length } else n)
    else n
  { n with lengthEnable := le }

end Noise
end Tetro.Model.Apu
