import Tetro.Model.ApuSquare
/-
Model of gameboy/audio/noise.go (channel 4) and the NR41–NR44 handlers of registers.go
(after the fix commit: `period()` = divisor·16 (8 if 0) << shift on a uint32 timer, 7-bit mode
REPLACES bit 6).  Same conventions as `ApuSquare.lean`; the LFSR is a Nat < 65536 handled with
Nat bit operations.
-/
namespace Tetro.Model.Apu

structure Noise where
  length : Nat := 0
  initialVolume : Nat := 0
  envelopeIncrease : Bool := false
  envelopeSweep : Nat := 0
  shift : Nat := 0
  lfsrWidth : Nat := 0
  divisor : Nat := 0
  lengthEnable : Bool := false
  enabled : Bool := false
  dacEnabled : Bool := false
  volume : Nat := 0
  timer : Nat := 0            -- uint32
  envelopeTimer : Nat := 0
  lfsr : Nat := 0             -- uint16
  triggered : Bool := false
deriving DecidableEq, Repr

/-- `noise.period()` (uint32) for divisor code `d` and clock shift `sh` -/
def noisePeriodOf (d sh : Nat) : Nat :=
  if (d * 16) % 4294967296 = 0 then (8 <<< sh) % 4294967296
  else (((d * 16) % 4294967296) <<< sh) % 4294967296
/-- compiled code of `noisePeriodOf` uses the constant `two32`; the definition is unchanged -/
def noisePeriodFast (d sh : Nat) : Nat :=
  if (d * 16) % two32 = 0 then (8 <<< sh) % two32 else (((d * 16) % two32) <<< sh) % two32
@[csimp] theorem noisePeriodOf_impl : @noisePeriodOf = @noisePeriodFast := by
  funext d sh; unfold noisePeriodOf noisePeriodFast two32; rfl

/-- one LFSR step exactly as in `tickTimer` (uint16 register) -/
def lfsrStep (width : Nat) (l : Nat) : Nat :=
  if width > 0 then
    (((l >>> 1) ||| (((l &&& 1) ^^^ ((l >>> 1) &&& 1)) <<< 14)) &&& 0xffbf) ||| (((l &&& 1) ^^^ ((l >>> 1) &&& 1)) <<< 6)
  else (l >>> 1) ||| (((l &&& 1) ^^^ ((l >>> 1) &&& 1)) <<< 14)

namespace Noise

def period (n : Noise) : Nat := noisePeriodOf n.divisor n.shift

/-- `noise.trigger` -/
def trigger (n : Noise) : Noise :=
  { n with triggered := true, enabled := n.dacEnabled,
           length := if n.length = 0 then 64 else n.length,
           timer := n.period,
           envelopeTimer := if n.envelopeSweep = 0 then 8 else n.envelopeSweep,
           volume := n.initialVolume, lfsr := 0xffff }

/-- `noise.tickTimer` -/
def tickTimer (n : Noise) : Noise :=
  if n.timer = 0 then { n with timer := dec32 n.period, lfsr := lfsrStep n.lfsrWidth n.lfsr }
  else { n with timer := dec32 n.timer }

/-- `noise.tickLength` -/
def tickLength (n : Noise) : Noise :=
  if !n.lengthEnable then n
  else if n.length > 0 then
    { n with length := dec8 n.length, enabled := n.enabled && decide (dec8 n.length ≠ 0) }
  else n

/-- `noise.tickVolumeEnvelope` -/
def tickVolumeEnvelope (n : Noise) : Noise :=
  if n.envelopeSweep = 0 then n
  else if n.envelopeTimer = 0 then
    (if n.envelopeIncrease then
      (if n.volume < 15 then { n with volume := inc8 n.volume, envelopeTimer := dec8 n.envelopeSweep }
       else { n with envelopeTimer := dec8 n.envelopeTimer })
     else
      (if n.volume > 0 then { n with volume := dec8 n.volume, envelopeTimer := dec8 n.envelopeSweep }
       else { n with envelopeTimer := dec8 n.envelopeTimer }))
  else { n with envelopeTimer := dec8 n.envelopeTimer }

/-- `noise.takeSample` as the exact numerator over 120: `(1 - lfsr&1)·volume/8` -/
def sampleNum (n : Noise) : Nat :=
  if !n.enabled || !n.dacEnabled then 0 else 15 * (1 - n.lfsr % 2) * n.volume

/-- `WriteNR41` -/
def writeNR41 (n : Noise) (v : Nat) : Noise := { n with length := 64 - v % 64 }

/-- `WriteNR42` -/
def writeNR42 (n : Noise) (v : Nat) : Noise :=
  { n with initialVolume := v / 16, envelopeIncrease := decide (v / 8 % 2 > 0), envelopeSweep := v % 8,
           dacEnabled := decide (v / 16 > 0) || decide (v / 8 % 2 > 0),
           enabled := n.enabled && (decide (v / 16 > 0) || decide (v / 8 % 2 > 0)) }

/-- `WriteNR43` -/
def writeNR43 (n : Noise) (v : Nat) : Noise :=
  { n with shift := v / 16, lfsrWidth := v / 8 % 2, divisor := v % 8 }

def extraLenClock (n : Noise) (fs : Nat) (le trig : Bool) : Noise :=
  if !n.lengthEnable && le && decide (n.length > 0) && decide (fs % 2 = 1) then
    { n with length := dec8 n.length, enabled := n.enabled && !(decide (dec8 n.length = 0) && !trig) }
  else n

def trigLenClock (n : Noise) (fs : Nat) (le : Bool) : Noise :=
  if le && decide (n.length = 64) && decide (fs % 2 = 1) then { n with length := dec8 n.length } else n

def trigPart (n : Noise) (fs : Nat) (le trig : Bool) : Noise :=
  if trig then n.trigger.trigLenClock fs le else n

def setLE (n : Noise) (le : Bool) : Noise := { n with lengthEnable := le }

/-- `WriteNR44`; `fs` is `a.frameSeqTicks` -/
def writeNR44 (n : Noise) (fs : Nat) (v : Nat) : Noise :=
  ((n.extraLenClock fs (leOf v) (trigOf v)).trigPart fs (leOf v) (trigOf v)).setLE (leOf v)

end Noise
end Tetro.Model.Apu
