/-
Model of gameboy/cpu (cpu.go, flags.go, instructions.go, execution.go), hand-written, function
for function.  uint8/uint16 are `BitVec 8`/`BitVec 16`.  The micro-operations run against a `Bus`
interface with two instances: `Flat` (plain 64 KiB memory + IME/IE/IF; used by the ISA theorems)
and the machine bus (used by co-simulation).  The opcode tables are NOT written here: they are
regenerated from dispatch.go into `Tetro.Gen.Dispatch` and resolved by `parse`.
-/
namespace Tetro.Model.Cpu

abbrev Byte := BitVec 8
abbrev Word := BitVec 16

/-- the bus as the CPU sees it: memory, the OAM-bug hooks and the interrupt controller -/
class Bus (M : Type) where
  read    : M → Word → Byte × M
  write   : M → Word → Byte → M
  trigger : M → Word → M            -- oam.TriggerWriteCorruption
  corrupt : M → M                   -- oam.Corrupt(), after every micro-operation
  ime     : M → Bool                -- interrupts.Enabled
  setIme  : M → Bool → M
  ie      : M → Byte                -- enabled sources, bits 0-4
  iflag   : M → Byte                -- requested sources, bits 0-4
  clearIf : M → Nat → M             -- interrupts.ResetX for source k

/-- storage cells the Go code passes by pointer -/
inductive R8 | a | b | c | d | e | h | l | f | u8a | u8b | m8a | m8b
deriving DecidableEq, Repr

inductive R16 | bc | de | hl | sp
deriving DecidableEq, Repr

inductive AluOp | add | adc | sub | sbc | and | xor | or | cp
deriving DecidableEq, Repr

inductive RotOp | rlc | rrc | rl | rr | sla | sra | swap | srl
deriving DecidableEq, Repr

/-- operand source of an 8-bit ALU helper: register, memory at HL (read in this cycle), immediate -/
inductive Src | r (r : R8) | m | u
deriving DecidableEq, Repr

/-- address expressions of the LD A,(..)/LD (..),A helpers -/
inductive Ind | bc | de | hl | ff00c | ff00u | u16
deriving DecidableEq, Repr

/-- condition methods used by isFinishedEarly -/
inductive Cond | zf | nzf | cf | ncf
deriving DecidableEq, Repr

inductive MicroOp
  | nop | readParamA | readParamB
  | ld8 (dst src : R8)                 -- ldAB … ldLU
  | ldRM (dst : R8)                    -- ldAHL … ldLHL, ldMHL (dst = m8a): dst := read(HL)
  | ldMR (src : R8)                    -- ldHLA … ldHLL, ldHLU8 (src = u8a): write(HL, src)
  | ld16 (dst : R16)                   -- ldBCU16 ldDEU16 ldHLU16 ldSPU16
  | ldSPHL | ldHLSP | addSP
  | loadA (i : Ind) | storeA (i : Ind) -- ldABC ldADE ldAHL? (no: that is ldRM) ldACX ldAUX ldAUX16 / ldBCA ldDEA ldCXA ldUXA ldUX16A
  | loadAHLI | loadAHLD | storeAHLI | storeAHLD
  | writeLowSP | writeHighSP
  | alu (op : AluOp) (s : Src)
  | inc8 (r : R8) | dec8 (r : R8) | incM | decM
  | inc16 (r : R16) | dec16 (r : R16)
  | addHL (r : R16)
  | rlca | rla | rrca | rra
  | rot (op : RotOp) (r : R8) | rotM (op : RotOp)
  | bit (n : Nat) (r : R8) | bitM (n : Nat)
  | res (n : Nat) (r : R8) | resM (n : Nat)
  | set (n : Nat) (r : R8) | setM (n : Nat)
  | jp | jpHL | jr | call | ret | reti | rst (a : Nat)
  | pop (r : R8) | popF | push (r : R8)
  | daa | cpl | scf | ccf
  | di | ei | halt | stop | mooneye
  | handleInterrupt
  | fatal
  | unknown
deriving DecidableEq, Repr

structure Regs where
  a : Byte
  b : Byte
  c : Byte
  d : Byte
  e : Byte
  f : Byte
  h : Byte
  l : Byte
  sp : Word
  pc : Word
  u8a : Byte
  u8b : Byte
  m8a : Byte
  m8b : Byte
  halted : Bool
  haltbug : Bool
  stopped : Bool
  eiPending : Bool
  mooneye : Bool
  exited : Bool      -- a `fatal` micro-operation ran (os.Exit)
deriving DecidableEq, Repr

/-- cpu.New -/
def Regs.init : Regs :=
  { a := 0x01, f := 0xb0, b := 0x00, c := 0x13, d := 0x00, e := 0xd8, h := 0x01, l := 0x4d,
    sp := 0xfffe, pc := 0x0100, u8a := 0, u8b := 0, m8a := 0, m8b := 0,
    halted := false, haltbug := false, stopped := false, eiPending := false, mooneye := false,
    exited := false }

def Regs.get (r : Regs) : R8 → Byte
  | .a => r.a | .b => r.b | .c => r.c | .d => r.d | .e => r.e | .f => r.f | .h => r.h | .l => r.l
  | .u8a => r.u8a | .u8b => r.u8b | .m8a => r.m8a | .m8b => r.m8b

def Regs.set (r : Regs) (k : R8) (v : Byte) : Regs :=
  match k with
  | .a => { r with a := v } | .b => { r with b := v } | .c => { r with c := v }
  | .d => { r with d := v } | .e => { r with e := v } | .f => { r with f := v }
  | .h => { r with h := v } | .l => { r with l := v }
  | .u8a => { r with u8a := v } | .u8b => { r with u8b := v }
  | .m8a => { r with m8a := v } | .m8b => { r with m8b := v }

def mk16 (hi lo : Byte) : Word := hi ++ lo
def hi8 (w : Word) : Byte := w.extractLsb' 8 8
def lo8 (w : Word) : Byte := w.extractLsb' 0 8

def Regs.bc (r : Regs) : Word := mk16 r.b r.c
def Regs.de (r : Regs) : Word := mk16 r.d r.e
def Regs.hl (r : Regs) : Word := mk16 r.h r.l
def Regs.u16 (r : Regs) : Word := mk16 r.u8b r.u8a

def Regs.get16 (r : Regs) : R16 → Word
  | .bc => r.bc | .de => r.de | .hl => r.hl | .sp => r.sp

def Regs.set16 (r : Regs) (k : R16) (w : Word) : Regs :=
  match k with
  | .bc => { r with b := hi8 w, c := lo8 w }
  | .de => { r with d := hi8 w, e := lo8 w }
  | .hl => { r with h := hi8 w, l := lo8 w }
  | .sp => { r with sp := w }

/-! ### flags.go -/
def zFlag : Byte := 0x80
def nFlag : Byte := 0x40
def hFlag : Byte := 0x20
def cFlag : Byte := 0x10

def setFlag (mask : Byte) (v : Bool) (f : Byte) : Byte := if v then f ||| mask else f &&& ~~~mask
def Regs.zf (r : Regs) : Bool := r.f &&& zFlag != 0
def Regs.nf (r : Regs) : Bool := r.f &&& nFlag != 0
def Regs.hf (r : Regs) : Bool := r.f &&& hFlag != 0
def Regs.cf (r : Regs) : Bool := r.f &&& cFlag != 0
def Regs.setZf (r : Regs) (v : Bool) : Regs := { r with f := setFlag zFlag v r.f }
def Regs.setNf (r : Regs) (v : Bool) : Regs := { r with f := setFlag nFlag v r.f }
def Regs.setHf (r : Regs) (v : Bool) : Regs := { r with f := setFlag hFlag v r.f }
def Regs.setCf (r : Regs) (v : Bool) : Regs := { r with f := setFlag cFlag v r.f }

/- `x & 0x0f` on an unsigned byte is `x % 16`: the helpers are written on `toNat` so that `omega` can reason about them -/
def hc8 (a b : Byte) : Bool := decide (a.toNat % 16 + b.toNat % 16 > 15)
def c8 (a b : Byte) : Bool := decide (a.toNat + b.toNat > 0xff)
def hc16 (a b : Word) : Bool := decide (a.toNat % 4096 + b.toNat % 4096 > 4095)
def c16 (a b : Word) : Bool := decide (a.toNat + b.toNat > 0xffff)
def hc8Sub (a b : Byte) : Bool := decide (a.toNat % 16 < b.toNat % 16)
def c8Sub (a b : Byte) : Bool := decide (a.toNat < b.toNat)

def Cond.holds (c : Cond) (r : Regs) : Bool :=
  match c with
  | .zf => r.zf | .nzf => !r.zf | .cf => r.cf | .ncf => !r.cf

/-! ### the ALU cores of instructions.go (pure register functions) -/

def adc (r : Regs) (u8 : Byte) : Regs :=
  let a := r.a
  let a1 := a + u8
  let hf := hc8 a u8
  let cf := c8 a u8
  let cin := r.cf
  let a2 := if cin then a1 + 1 else a1
  let hf2 := if cin then hf || decide (a2.toNat % 16 = 0) else hf
  let cf2 := if cin then cf || (a2 == 0) else cf
  ((({ r with a := a2 }.setZf (a2 == 0)).setNf false).setHf hf2).setCf cf2

def add (r : Regs) (u8 : Byte) : Regs :=
  let a := r.a
  let a1 := a + u8
  ((({ r with a := a1 }.setZf (a1 == 0)).setNf false).setHf (hc8 a u8)).setCf (c8 a u8)

def and (r : Regs) (u8 : Byte) : Regs :=
  let a1 := r.a &&& u8
  ((({ r with a := a1 }.setZf (a1 == 0)).setNf false).setHf true).setCf false

def cp (r : Regs) (u8 : Byte) : Regs :=
  (((r.setZf (r.a == u8)).setNf true).setHf (hc8Sub r.a u8)).setCf (c8Sub r.a u8)

def or (r : Regs) (u8 : Byte) : Regs :=
  let a1 := r.a ||| u8
  ((({ r with a := a1 }.setZf (a1 == 0)).setNf false).setHf false).setCf false

def xor (r : Regs) (u8 : Byte) : Regs :=
  let a1 := r.a ^^^ u8
  ((({ r with a := a1 }.setZf (a1 == 0)).setNf false).setHf false).setCf false

def sub (r : Regs) (u8 : Byte) : Regs :=
  let a := r.a
  let a1 := a - u8
  ((({ r with a := a1 }.setZf (a1 == 0)).setNf true).setHf (hc8Sub a u8)).setCf (c8Sub a u8)

def sbc (r : Regs) (u8 : Byte) : Regs :=
  let a := r.a
  let a1 := a - u8
  let hf := hc8Sub a u8
  let cf := c8Sub a u8
  let cin := r.cf
  let a2 := if cin then a1 - 1 else a1
  let hf2 := if cin then hf || decide (a2.toNat % 16 = 15) else hf
  let cf2 := if cin then cf || (a2 == 0xff) else cf
  ((({ r with a := a2 }.setZf (a2 == 0)).setNf true).setHf hf2).setCf cf2

def aluRun (op : AluOp) (r : Regs) (u8 : Byte) : Regs :=
  match op with
  | .add => add r u8 | .adc => adc r u8 | .sub => sub r u8 | .sbc => sbc r u8
  | .and => and r u8 | .xor => xor r u8 | .or => or r u8 | .cp => cp r u8

def daaF (r : Regs) : Regs :=
  if r.nf then
    let a1 := if r.hf then r.a - 0x06 else r.a
    let a2 := if r.cf then a1 - 0x60 else a1
    ({ r with a := a2 }.setZf (a2 == 0)).setHf false
  else
    let a := r.a
    let a1 := if r.hf || decide (a.toNat % 16 > 9) then a + 0x06 else a
    let adj := r.cf || decide (a.toNat / 16 > 9) || decide (a1.toNat / 16 > 9)
    let a2 := if adj then a1 + 0x60 else a1
    let r1 := { r with a := a2 }
    let r2 := if adj then r1.setCf true else r1
    (r2.setZf (a2 == 0)).setHf false

def inc (r : Regs) (k : R8) : Regs :=
  let old := r.get k
  let new := old + 1
  (((r.set k new).setZf (new == 0)).setNf false).setHf (hc8 old 1)

def dec (r : Regs) (k : R8) : Regs :=
  let old := r.get k
  let new := old - 1
  (((r.set k new).setZf (new == 0)).setNf true).setHf (hc8Sub old 1)

def addHLF (r : Regs) (u16 : Word) : Regs :=
  let hl := r.hl
  let new := hl + u16
  (({ r with h := hi8 new, l := lo8 new }.setNf false).setHf (hc16 hl u16)).setCf (c16 hl u16)

/-- sign extension of the operand byte -/
def sext (b : Byte) : Word := b.signExtend 16

def addSPF (r : Regs) : Regs :=
  let sp := r.sp
  let new := sp + sext r.u8a
  ((({ r with sp := new }.setZf false).setNf false).setHf
      (decide (sp.toNat % 16 + r.u8a.toNat % 16 > 15))).setCf
      (decide (sp.toNat % 256 + r.u8a.toNat > 255))

def ldHLSPF (r : Regs) : Regs :=
  let sp := r.sp
  let new := sp + sext r.u8a
  ((({ r with h := hi8 new, l := lo8 new }.setZf false).setNf false).setHf
      (decide (sp.toNat % 16 + r.u8a.toNat % 16 > 15))).setCf
      (decide (sp.toNat % 256 + r.u8a.toNat > 255))

def rotCore (op : RotOp) (cin : Bool) (v : Byte) : Byte × Bool :=
  match op with
  | .rlc => let cf := v.getLsbD 7; ((v <<< 1) ||| (if cf then 1 else 0), cf)
  | .rrc => let cf := v.getLsbD 0; ((v >>> 1) ||| (if cf then 0x80 else 0), cf)
  | .rl  => let cf := v.getLsbD 7; ((v <<< 1) ||| (if cin then 1 else 0), cf)
  | .rr  => let cf := v.getLsbD 0; ((v >>> 1) ||| (if cin then 0x80 else 0), cf)
  | .sla => (v <<< 1, v.getLsbD 7)
  | .sra => ((v >>> 1) ||| (if v.getLsbD 7 then 0x80 else 0), v.getLsbD 0)
  | .swap => ((v <<< 4) ||| (v >>> 4), false)
  | .srl => (v >>> 1, v.getLsbD 0)

def rotF (op : RotOp) (r : Regs) (k : R8) : Regs :=
  let res := rotCore op r.cf (r.get k)
  ((((r.set k res.1).setZf (res.1 == 0)).setNf false).setHf false).setCf res.2

def bitMask (n : Nat) : Byte := 1 <<< n

def bitTest (r : Regs) (n : Nat) (v : Byte) : Regs :=
  ((r.setZf (v &&& bitMask n == 0)).setNf false).setHf true

/-! ### micro-operations -/

variable {M : Type} [Bus M]

def readAt (m : M) (a : Word) : Byte × M := Bus.read m a

def incSP (r : Regs) (m : M) : Regs × M :=
  ({ r with sp := r.sp + 1 }, Bus.trigger m r.sp)

def decSP (r : Regs) (m : M) : Regs × M :=
  ({ r with sp := r.sp - 1 }, Bus.trigger m r.sp)

def inc16F (k : R16) (r : Regs) (m : M) : Regs × M :=
  (r.set16 k (r.get16 k + 1), Bus.trigger m (r.get16 k))

def dec16F (k : R16) (r : Regs) (m : M) : Regs × M :=
  (r.set16 k (r.get16 k - 1), Bus.trigger m (r.get16 k))

def Ind.addr (i : Ind) (r : Regs) : Word :=
  match i with
  | .bc => r.bc | .de => r.de | .hl => r.hl
  | .ff00c => 0xff00 + r.c.zeroExtend 16
  | .ff00u => 0xff00 + r.u8a.zeroExtend 16
  | .u16 => r.u16

def rstTo (r : Regs) (a : Word) : Regs :=
  { r with m8a := lo8 r.pc, m8b := hi8 r.pc, pc := a }

def pushCell (k : R8) (r : Regs) (m : M) : Regs × M :=
  let s := decSP r m
  (s.1, Bus.write s.2 s.1.sp (s.1.get k))

/-- highest-priority pending source (lowest set bit of IE ∧ IF ∧ 1F), as the switch in handleInterrupt -/
def pendingSource (p : Byte) : Option Nat :=
  if p.getLsbD 0 then some 0 else if p.getLsbD 1 then some 1 else if p.getLsbD 2 then some 2
  else if p.getLsbD 3 then some 3 else if p.getLsbD 4 then some 4 else none

def pendingBits (m : M) : Byte := Bus.ie m &&& Bus.iflag m &&& 0x1f

def handleInterruptF (r : Regs) (m : M) : Regs × M :=
  if Bus.ime m then
    let m1 := Bus.setIme m false
    let rm : Regs × M := match pendingSource (pendingBits m1) with
      | some k => (rstTo r (BitVec.ofNat 16 (0x40 + 8 * k)), Bus.clearIf m1 k)
      | none => (r, m1)
    let s1 := pushCell .m8b rm.1 rm.2
    pushCell .m8a s1.1 s1.2
  else (r, m)

def haltF (r : Regs) (m : M) : Regs :=
  if Bus.ime m then { r with halted := true }
  else if pendingBits m == 0 then { r with halted := true }
  else { r with haltbug := true }

def MicroOp.run (op : MicroOp) (r : Regs) (m : M) : Regs × M :=
  match op with
  | .nop => (r, m)
  | .readParamA => let v := readAt m r.pc; ({ r with u8a := v.1, pc := r.pc + 1 }, v.2)
  | .readParamB => let v := readAt m r.pc; ({ r with u8b := v.1, pc := r.pc + 1 }, v.2)
  | .ld8 dst src => (r.set dst (r.get src), m)
  | .ldRM dst => let v := readAt m r.hl; (r.set dst v.1, v.2)
  | .ldMR src => (r, Bus.write m r.hl (r.get src))
  | .ld16 dst => (r.set16 dst r.u16, m)
  | .ldSPHL => ({ r with sp := r.hl }, m)
  | .ldHLSP => (ldHLSPF r, m)
  | .addSP => (addSPF r, m)
  | .loadA i => let v := readAt m (i.addr r); ({ r with a := v.1 }, v.2)
  | .storeA i => (r, Bus.write m (i.addr r) r.a)
  | .loadAHLI => let v := readAt m r.hl; inc16F .hl { r with a := v.1 } v.2
  | .loadAHLD => let v := readAt m r.hl; dec16F .hl { r with a := v.1 } v.2
  | .storeAHLI => inc16F .hl r (Bus.write m r.hl r.a)
  | .storeAHLD => dec16F .hl r (Bus.write m r.hl r.a)
  | .writeLowSP => (r, Bus.write m r.u16 (lo8 r.sp))
  | .writeHighSP => (r, Bus.write m (r.u16 + 1) (hi8 r.sp))
  | .alu op (.r k) => (aluRun op r (r.get k), m)
  | .alu op .u => (aluRun op r r.u8a, m)
  | .alu op .m => let v := readAt m r.hl; (aluRun op r v.1, v.2)
  | .inc8 k => (inc r k, m)
  | .dec8 k => (dec r k, m)
  | .incM => let r1 := inc r .m8a; (r1, Bus.write m r1.hl r1.m8a)
  | .decM => let r1 := dec r .m8a; (r1, Bus.write m r1.hl r1.m8a)
  | .inc16 .sp => incSP r m
  | .dec16 .sp => decSP r m
  | .inc16 k => inc16F k r m
  | .dec16 k => dec16F k r m
  | .addHL k => (addHLF r (r.get16 k), m)
  | .rlca => ((rotF .rlc r .a).setZf false, m)
  | .rla => ((rotF .rl r .a).setZf false, m)
  | .rrca => ((rotF .rrc r .a).setZf false, m)
  | .rra => ((rotF .rr r .a).setZf false, m)
  | .rot op k => (rotF op r k, m)
  | .rotM op => let r1 := rotF op r .m8a; (r1, Bus.write m r1.hl r1.m8a)
  | .bit n k => (bitTest r n (r.get k), m)
  | .bitM n => let v := readAt m r.hl; (bitTest r n v.1, v.2)
  | .res n k => (r.set k (r.get k &&& ~~~bitMask n), m)
  | .resM n => let r1 := r.set .m8a (r.m8a &&& ~~~bitMask n); (r1, Bus.write m r1.hl r1.m8a)
  | .set n k => (r.set k (r.get k ||| bitMask n), m)
  | .setM n => let r1 := r.set .m8a (r.m8a ||| bitMask n); (r1, Bus.write m r1.hl r1.m8a)
  | .jp => ({ r with pc := r.u16 }, m)
  | .jpHL => ({ r with pc := r.hl }, m)
  | .jr => ({ r with pc := r.pc + sext r.u8a }, m)
  | .call => ({ r with m8a := lo8 r.pc, m8b := hi8 r.pc, pc := r.u16 }, m)
  | .ret => ({ r with pc := mk16 r.m8b r.m8a }, m)
  | .reti => ({ r with pc := mk16 r.m8b r.m8a }, Bus.setIme m true)
  | .rst a => (rstTo r (BitVec.ofNat 16 a), m)
  | .pop k => let v := readAt m r.sp; incSP (r.set k v.1) v.2
  | .popF => let v := readAt m r.sp; ({ r with f := v.1 &&& 0xf0, sp := r.sp + 1 }, Bus.trigger v.2 r.sp)
  | .push k => pushCell k r m
  | .daa => (daaF r, m)
  | .cpl => (({ r with a := ~~~r.a }.setNf true).setHf true, m)
  | .scf => (((r.setNf false).setHf false).setCf true, m)
  | .ccf => (((r.setNf false).setHf false).setCf (!r.cf), m)
  | .di => ({ r with eiPending := false }, Bus.setIme m false)
  | .ei => ({ r with eiPending := true }, m)
  | .halt => (haltF r m, m)
  | .stop => ({ r with stopped := true }, m)
  | .mooneye => ({ r with mooneye := true }, m)
  | .handleInterrupt => handleInterruptF r m
  | .fatal => ({ r with exited := true }, m)
  | .unknown => (r, m)

/-! ### resolving the regenerated helper names -/

def r8OfChar : Char → Option R8
  | 'A' => some .a | 'B' => some .b | 'C' => some .c | 'D' => some .d | 'E' => some .e
  | 'H' => some .h | 'L' => some .l | _ => none

def r8OfName : List Char → Option R8
  | ['a'] => some .a | ['b'] => some .b | ['c'] => some .c | ['d'] => some .d | ['e'] => some .e
  | ['f'] => some .f | ['h'] => some .h | ['l'] => some .l
  | ['m', '8', 'a'] => some .m8a | ['m', '8', 'b'] => some .m8b
  | _ => none

def srcOfChar : Char → Option Src
  | 'M' => some .m | 'U' => some .u
  | c => (r8OfChar c).map .r

def natOfDigits (cs : List Char) : Option Nat :=
  if cs.isEmpty then none else
  cs.foldl (fun acc c => match acc with
    | some n => if '0' ≤ c ∧ c ≤ '9' then some (n * 10 + (c.toNat - 48)) else none
    | none => none) (some 0)

def splitColon (cs : List Char) : List (List Char) :=
  let res := cs.foldr (fun c (acc : List Char × List (List Char)) =>
    if c = ':' then ([], acc.1 :: acc.2) else (c :: acc.1, acc.2)) ([], [])
  res.1 :: res.2

def aluOf (op : AluOp) (x : Char) : MicroOp :=
  match srcOfChar x with | some s => .alu op s | none => .unknown

def rotOf (op : RotOp) (x : Char) : MicroOp :=
  if x = 'M' then .rotM op else match r8OfChar x with | some k => .rot op k | none => .unknown

def parseSimple : List Char → MicroOp
  | ['n', 'o', 'p'] => .nop
  | ['r', 'e', 'a', 'd', 'P', 'a', 'r', 'a', 'm', 'A'] => .readParamA
  | ['r', 'e', 'a', 'd', 'P', 'a', 'r', 'a', 'm', 'B'] => .readParamB
  | ['a', 'd', 'd', 'H', 'L', 'B', 'C'] => .addHL .bc
  | ['a', 'd', 'd', 'H', 'L', 'D', 'E'] => .addHL .de
  | ['a', 'd', 'd', 'H', 'L', 'H', 'L'] => .addHL .hl
  | ['a', 'd', 'd', 'H', 'L', 'S', 'P'] => .addHL .sp
  | ['a', 'd', 'd', 'S', 'P'] => .addSP
  | ['a', 'd', 'c', x] => aluOf .adc x
  | ['a', 'd', 'd', x] => aluOf .add x
  | ['a', 'n', 'd', x] => aluOf .and x
  | ['s', 'u', 'b', x] => aluOf .sub x
  | ['s', 'b', 'c', x] => aluOf .sbc x
  | ['x', 'o', 'r', x] => aluOf .xor x
  | ['o', 'r', x] => aluOf .or x
  | ['c', 'p', 'l'] => .cpl
  | ['c', 'p', x] => aluOf .cp x
  | ['c', 'a', 'l', 'l'] => .call
  | ['c', 'c', 'f'] => .ccf
  | ['s', 'c', 'f'] => .scf
  | ['d', 'a', 'a'] => .daa
  | ['d', 'i'] => .di
  | ['e', 'i'] => .ei
  | ['h', 'a', 'l', 't'] => .halt
  | ['s', 't', 'o', 'p'] => .stop
  | ['m', 'o', 'o', 'n', 'e', 'y', 'e'] => .mooneye
  | ['f', 'a', 't', 'a', 'l'] => .fatal
  | ['h', 'a', 'n', 'd', 'l', 'e', 'I', 'n', 't', 'e', 'r', 'r', 'u', 'p', 't'] => .handleInterrupt
  | ['j', 'p'] => .jp
  | ['j', 'p', 'H', 'L'] => .jpHL
  | ['j', 'r'] => .jr
  | ['r', 'e', 't'] => .ret
  | ['r', 'e', 't', 'i'] => .reti
  | ['p', 'o', 'p', 'F'] => .popF
  | ['i', 'n', 'c', 'M'] => .incM
  | ['d', 'e', 'c', 'M'] => .decM
  | ['i', 'n', 'c', 'B', 'C'] => .inc16 .bc
  | ['i', 'n', 'c', 'D', 'E'] => .inc16 .de
  | ['i', 'n', 'c', 'H', 'L'] => .inc16 .hl
  | ['i', 'n', 'c', 'S', 'P'] => .inc16 .sp
  | ['d', 'e', 'c', 'B', 'C'] => .dec16 .bc
  | ['d', 'e', 'c', 'D', 'E'] => .dec16 .de
  | ['d', 'e', 'c', 'H', 'L'] => .dec16 .hl
  | ['d', 'e', 'c', 'S', 'P'] => .dec16 .sp
  | ['i', 'n', 'c', x] => match r8OfChar x with | some k => .inc8 k | none => .unknown
  | ['d', 'e', 'c', x] => match r8OfChar x with | some k => .dec8 k | none => .unknown
  | ['r', 'l', 'c', 'a'] => .rlca
  | ['r', 'l', 'a'] => .rla
  | ['r', 'r', 'c', 'a'] => .rrca
  | ['r', 'r', 'a'] => .rra
  | ['r', 'l', 'c', x] => rotOf .rlc x
  | ['r', 'r', 'c', x] => rotOf .rrc x
  | ['r', 'l', x] => rotOf .rl x
  | ['r', 'r', x] => rotOf .rr x
  | ['s', 'l', 'a', x] => rotOf .sla x
  | ['s', 'r', 'a', x] => rotOf .sra x
  | ['s', 'w', 'a', 'p', x] => rotOf .swap x
  | ['s', 'r', 'l', x] => rotOf .srl x
  | ['w', 'r', 'i', 't', 'e', 'L', 'o', 'w', 'S', 'P'] => .writeLowSP
  | ['w', 'r', 'i', 't', 'e', 'H', 'i', 'g', 'h', 'S', 'P'] => .writeHighSP
  | ['l', 'd', 'B', 'C', 'U', '1', '6'] => .ld16 .bc
  | ['l', 'd', 'D', 'E', 'U', '1', '6'] => .ld16 .de
  | ['l', 'd', 'H', 'L', 'U', '1', '6'] => .ld16 .hl
  | ['l', 'd', 'S', 'P', 'U', '1', '6'] => .ld16 .sp
  | ['l', 'd', 'S', 'P', 'H', 'L'] => .ldSPHL
  | ['l', 'd', 'H', 'L', 'S', 'P'] => .ldHLSP
  | ['l', 'd', 'H', 'L', 'U', '8'] => .ldMR .u8a
  | ['l', 'd', 'M', 'H', 'L'] => .ldRM .m8a
  | ['l', 'd', 'B', 'C', 'A'] => .storeA .bc
  | ['l', 'd', 'D', 'E', 'A'] => .storeA .de
  | ['l', 'd', 'A', 'B', 'C'] => .loadA .bc
  | ['l', 'd', 'A', 'D', 'E'] => .loadA .de
  | ['l', 'd', 'H', 'L', 'D', 'A'] => .storeAHLD
  | ['l', 'd', 'H', 'L', 'I', 'A'] => .storeAHLI
  | ['l', 'd', 'A', 'H', 'L', 'D'] => .loadAHLD
  | ['l', 'd', 'A', 'H', 'L', 'I'] => .loadAHLI
  | ['l', 'd', 'A', 'C', 'X'] => .loadA .ff00c
  | ['l', 'd', 'C', 'X', 'A'] => .storeA .ff00c
  | ['l', 'd', 'A', 'U', 'X'] => .loadA .ff00u
  | ['l', 'd', 'U', 'X', 'A'] => .storeA .ff00u
  | ['l', 'd', 'A', 'U', 'X', '1', '6'] => .loadA .u16
  | ['l', 'd', 'U', 'X', '1', '6', 'A'] => .storeA .u16
  | ['l', 'd', 'H', 'L', x] => match r8OfChar x with | some k => .ldMR k | none => .unknown
  | ['l', 'd', x, 'H', 'L'] => match r8OfChar x with | some k => .ldRM k | none => .unknown
  | ['l', 'd', x, 'U'] => match r8OfChar x with | some k => .ld8 k .u8a | none => .unknown
  | ['l', 'd', x, y] => match r8OfChar x, r8OfChar y with
      | some k, some j => .ld8 k j | _, _ => .unknown
  | _ => .unknown

def parseParts : List (List Char) → MicroOp
  | [n] => parseSimple n
  | [['p', 'o', 'p'], r] => match r8OfName r with | some k => .pop k | none => .unknown
  | [['p', 'u', 's', 'h'], r] => match r8OfName r with | some k => .push k | none => .unknown
  | [['r', 's', 't'], a] => match natOfDigits a with | some n => .rst n | none => .unknown
  | [['b', 'i', 't', 'M'], n] => match natOfDigits n with | some n => .bitM n | none => .unknown
  | [['r', 'e', 's', 'M'], n] => match natOfDigits n with | some n => .resM n | none => .unknown
  | [['s', 'e', 't', 'M'], n] => match natOfDigits n with | some n => .setM n | none => .unknown
  | [['b', 'i', 't'], n, r] => match natOfDigits n, r8OfName r with
      | some n, some k => .bit n k | _, _ => .unknown
  | [['r', 'e', 's'], n, r] => match natOfDigits n, r8OfName r with
      | some n, some k => .res n k | _, _ => .unknown
  | [['s', 'e', 't'], n, r] => match natOfDigits n, r8OfName r with
      | some n, some k => .set n k | _, _ => .unknown
  | _ => .unknown

/-- NOTE `ldHL` + register is ambiguous in the Go names only for `ldHLD`… : `ldHLD` is "write D to
    (HL)" (4 letters after `ld` are handled above: ldHLDA/ldHLIA), and `ldHL` itself (LD H,L) has two
    letters.  `ldHLx` (3 letters) is always a store to (HL); `ldxHL` always a load from (HL). -/
def parse (s : String) : MicroOp := parseParts (splitColon s.toList)

def parseCond (s : String) : Option Cond :=
  match s.toList with
  | ['z', 'f'] => some .zf | ['n', 'z', 'f'] => some .nzf
  | ['c', 'f'] => some .cf | ['n', 'c', 'f'] => some .ncf
  | _ => none

end Tetro.Model.Cpu
