/-
Model of gameboy/audio/square.go (channels 1 and 2, incl. the frequency sweep of channel 1)
and of the NR10–NR14 / NR21–NR24 write handlers of registers.go.  Hand-written, tied to
the code by the `apu` correspondence mode.

Representation: every Go integer field is a `Nat` and every Go arithmetic operation that can
wrap is written with its explicit modulus (`dec8`, `dec16`, `sub16`, `% 65536` …), so that the
arithmetic proofs are `omega` work.  Bit-field packing on DISJOINT bits is rendered
arithmetically:  `(f & 0x00ff) | uint16(v&7)<<8`  is  `f % 256 + (v % 8) * 256`,
`(v >> 4) & 7` is `v / 16 % 8`, `(v>>3)&1 > 0` is `v / 8 % 2 = 1`.  Written byte values
are `< 256` (the top-level `Apu.write` reduces them mod 256).
-/
namespace Tetro.Model.Apu

/-- uint8 `x--` -/
def dec8 (a : Nat) : Nat := (a + 255) % 256
/-- uint16 `x--` -/
def dec16 (a : Nat) : Nat := (a + 65535) % 65536
/-- uint32 `x--` -/
def dec32 (a : Nat) : Nat := (a + 4294967295) % 4294967296
/-- uint16 `a - b` -/
def sub16 (a b : Nat) : Nat := (a % 65536 + 65536 - b % 65536) % 65536
/-- uint8 `x++` -/
def inc8 (a : Nat) : Nat := (a + 1) % 256

/-- `square` (with the embedded `*sweep`; `hasSweep = false` is the nil pointer of channel 2) -/
structure Square where
  duty : Nat := 0
  length : Nat := 0
  initialVolume : Nat := 0
  envelopeIncrease : Bool := false
  envelopeSweep : Nat := 0
  frequency : Nat := 0
  lengthEnable : Bool := false
  hasSweep : Bool := false
  sweepPeriod : Nat := 0
  sweepIncrease : Bool := false
  sweepShift : Nat := 0
  sweepEnabled : Bool := false
  sweepDescending : Bool := false
  sweepTimer : Nat := 0
  shadowFrequency : Nat := 0
  enabled : Bool := false
  dacEnabled : Bool := false
  dutyIndex : Nat := 0
  volume : Nat := 0
  timer : Nat := 0
  envelopeTimer : Nat := 0
  triggered : Bool := false
deriving DecidableEq, Repr

namespace Square

/-- `(2048 - s.frequency) * 4` in uint16 -/
def period (s : Square) : Nat := (sub16 2048 s.frequency * 4) % 65536

/-- the value returned by `calculateFrequency` (uint16; `newFrequency = -newFrequency` wraps) -/
def calcValue (s : Square) : Nat :=
  let nf := s.shadowFrequency >>> s.sweepShift
  let nf := if !s.sweepIncrease then (65536 - nf) % 65536 else nf
  (s.shadowFrequency + nf) % 65536

/-- the side effects of `calculateFrequency` -/
def calcState (s : Square) : Square :=
  let v := s.calcValue
  let s := if !s.sweepIncrease then { s with sweepDescending := true } else s
  if v > 2047 then { s with enabled := false } else s

/-- the `if s.sweep != nil { … }` block of `trigger` -/
def triggerSweep (s : Square) : Square :=
  if !s.hasSweep then s else
  let s := { s with shadowFrequency := s.frequency, sweepTimer := s.sweepPeriod }
  let s := if s.sweepTimer = 0 then { s with sweepTimer := 8 } else s
  let s := { s with sweepEnabled := decide (s.sweepPeriod > 0) || decide (s.sweepShift > 0) }
  if s.sweepShift > 0 then s.calcState else s

/-- `square.trigger` -/
def trigger (s : Square) : Square :=
  let s := { s with triggered := true, enabled := true }
  let s := if s.length = 0 then { s with length := 64 } else s
  let s := { s with timer := s.period, envelopeTimer := s.envelopeSweep }
  let s := if s.envelopeTimer = 0 then { s with envelopeTimer := 8 } else s
  let s := { s with volume := s.initialVolume }
  let s := s.triggerSweep
  if !s.dacEnabled then { s with enabled := false } else s

/-- `square.tickTimer` -/
def tickTimer (s : Square) : Square :=
  let s := if s.timer = 0 then
      { s with timer := s.period, dutyIndex := if inc8 s.dutyIndex ≥ 8 then 0 else inc8 s.dutyIndex }
    else s
  { s with timer := dec16 s.timer }

/-- `square.tickLength` -/
def tickLength (s : Square) : Square :=
  if !s.lengthEnable then s else
  if s.length > 0 then
    let s := { s with length := dec8 s.length }
    if s.length = 0 then { s with enabled := false } else s
  else s

/-- `square.tickVolumeEnvelope` -/
def tickVolumeEnvelope (s : Square) : Square :=
  if s.envelopeSweep = 0 then s else
  let s := if s.envelopeTimer = 0 then
      (if s.envelopeIncrease then
        (if s.volume < 15 then { s with volume := inc8 s.volume, envelopeTimer := s.envelopeSweep } else s)
       else
        (if s.volume > 0 then { s with volume := dec8 s.volume, envelopeTimer := s.envelopeSweep } else s))
    else s
  { s with envelopeTimer := dec8 s.envelopeTimer }

/-- the `else` arm of `tickSweep` (period non-zero): calculate, maybe store and calculate again -/
def sweepStep (s : Square) : Square :=
  let nf := s.calcValue
  let s := s.calcState
  if nf < 2048 ∧ s.sweepShift > 0 then
    ({ s with frequency := nf, shadowFrequency := nf } : Square).calcState
  else s

/-- `square.tickSweep` -/
def tickSweep (s : Square) : Square :=
  if !s.sweepEnabled then s else
  let s := { s with sweepTimer := dec8 s.sweepTimer }
  if s.sweepTimer = 0 then
    let s := { s with sweepTimer := s.sweepPeriod }
    if s.sweepTimer = 0 then { s with sweepTimer := 8 } else s.sweepStep
  else s

/-- `waveduty[duty][dutyIndex]` (0 or 1); `none` is Go's index-out-of-range panic -/
def dutyWave (duty idx : Nat) : Option Nat :=
  match duty with
  | 0 => [0, 1, 1, 1, 1, 1, 1, 1][idx]?
  | 1 => [0, 0, 1, 1, 1, 1, 1, 1][idx]?
  | 2 => [0, 0, 0, 0, 1, 1, 1, 1][idx]?
  | 3 => [0, 0, 0, 0, 0, 0, 1, 1][idx]?
  | _ => none

/-- `square.takeSample` as the exact numerator over 120: `wave · volume/8 = 15·wave·volume / 120` -/
def sampleNum (s : Square) : Option Nat :=
  if !s.enabled || !s.dacEnabled then some 0 else
  match dutyWave s.duty s.dutyIndex with
  | some w => some (15 * w * s.volume)
  | none => none

/-- `WriteNR10` (power check done by the caller) -/
def writeNR10 (s : Square) (v : Nat) : Square :=
  let s := { s with sweepPeriod := v / 16 % 8, sweepIncrease := decide (v / 8 % 2 = 0), sweepShift := v % 8 }
  let s := if s.sweepIncrease && s.sweepDescending then { s with enabled := false } else s
  { s with sweepDescending := false }

/-- `WriteNR12` / `WriteNR22` -/
def writeNRx2 (s : Square) (v : Nat) : Square :=
  let s := { s with initialVolume := v / 16, envelopeIncrease := decide (v / 8 % 2 > 0), envelopeSweep := v % 8 }
  let s := { s with dacEnabled := decide (s.initialVolume > 0) || s.envelopeIncrease }
  if !s.dacEnabled then { s with enabled := false } else s

/-- `WriteNR13` (channel 1 also reloads the timer) -/
def writeNR13 (s : Square) (v : Nat) : Square :=
  let s := { s with frequency := s.frequency / 256 * 256 + v }
  { s with timer := s.period }

/-- `WriteNR23` -/
def writeNR23 (s : Square) (v : Nat) : Square :=
  { s with frequency := s.frequency / 256 * 256 + v }

/-- `WriteNR14` / `WriteNR24`; `fs` is `a.frameSeqTicks` -/
def writeNRx4 (s : Square) (fs : Nat) (v : Nat) : Square :=
  let s := { s with frequency := s.frequency % 256 + (v % 8) * 256 }
  let trig : Bool := decide (v / 128 % 2 > 0)
  let le : Bool := decide (v / 64 % 2 > 0)
  let s := if !s.lengthEnable && le && decide (s.length > 0) && decide (fs % 2 = 1) then
      (let s : Square := { s with length := dec8 s.length }
       if s.length = 0 ∧ trig = false then { s with enabled := false } else s)
    else s
  let s := if trig then
      (let s : Square := s.trigger
       if le && decide (s.length = 64) && decide (fs % 2 = 1) then { s with length := dec8 s.length } else s)
    else s
  { s with lengthEnable := le }

end Square
end Tetro.Model.Apu
