/-
Model of gameboy/audio/square.go (channels 1 and 2, incl. the frequency sweep of channel 1)
and of the NR10–NR14 / NR21–NR24 write handlers of registers.go.  Hand-written, tied to
the code by the `apu` correspondence mode.

Representation: every Go integer field is a `Nat` and every Go arithmetic operation that can
wrap is written with its explicit modulus (`dec8`, `dec16`, `sub16`, `% 65536` …), so that the
arithmetic proofs are `omega` work.  Bit-field packing on DISJOINT bits is rendered
arithmetically:  `(f & 0x00ff) | uint16(v&7)<<8`  is  `f % 256 + (v % 8) * 256`,
`(v >> 4) & 7` is `v / 16 % 8`, `(v>>3)&1 > 0` is `v / 8 % 2 > 0`.  Written byte values
are `< 256` (the top-level `Apu.write` reduces them mod 256).

Shape: each Go function is an if-tree whose leaves are ONE record update of the incoming state
(a Go statement sequence `x = e1; if c { y = e2 }` becomes `{ s with x := e1, y := if c … }`);
longer Go functions are compositions of such pieces (`trigger = dacGate ∘ triggerSweep ∘
trigBase`).  This keeps `simp`/`split` proofs small (DESIGN §13).
-/
namespace Tetro.Model.Apu

/-- uint8 `x--` -/
def dec8 (a : Nat) : Nat := (a + 255) % 256
/-- uint16 `x--` -/
def dec16 (a : Nat) : Nat := (a + 65535) % 65536
/-- uint32 `x--` -/
def dec32 (a : Nat) : Nat := (a + 4294967295) % 4294967296
/-- 2^32 as a constant that compiled code evaluates once (a literal ≥ 2^32 inside a function body is re-parsed
    from its decimal string at every call) -/
@[noinline] def two32 : Nat := 4294967296
/-- compiled code of `dec32` uses the constant; the definition (and every proof about it) is unchanged -/
def dec32Fast (a : Nat) : Nat := (a + (two32 - 1)) % two32
@[csimp] theorem dec32_impl : @dec32 = @dec32Fast := by
  funext a; simp [dec32, dec32Fast, two32]
/-- uint16 `a - b` -/
def sub16 (a b : Nat) : Nat := (a % 65536 + 65536 - b % 65536) % 65536
/-- uint8 `x++` -/
def inc8 (a : Nat) : Nat := (a + 1) % 256

/-- bit 7 of an NRx4 write: trigger -/
def trigOf (v : Nat) : Bool := decide (v / 128 % 2 > 0)
/-- bit 6 of an NRx4 write: length enable -/
def leOf (v : Nat) : Bool := decide (v / 64 % 2 > 0)

/-- `square` (with the embedded `*sweep`; `hasSweep = false` is the nil pointer of channel 2) -/
structure Square where
  duty : Nat := 0
  length : Nat := 0
  initialVolume : Nat := 0
  envelopeIncrease : Bool := false
  envelopeSweep : Nat := 0
  frequency : Nat := 0
  lengthEnable : Bool := false
  hasSweep : Bool := false
  sweepPeriod : Nat := 0
  sweepIncrease : Bool := false
  sweepShift : Nat := 0
  sweepEnabled : Bool := false
  sweepDescending : Bool := false
  sweepTimer : Nat := 0
  shadowFrequency : Nat := 0
  enabled : Bool := false
  dacEnabled : Bool := false
  dutyIndex : Nat := 0
  volume : Nat := 0
  timer : Nat := 0
  envelopeTimer : Nat := 0
  triggered : Bool := false
deriving DecidableEq, Repr

/-- `(2048 - f) * 4` in uint16 -/
def sqPeriodOf (f : Nat) : Nat := (sub16 2048 f * 4) % 65536

namespace Square

def period (s : Square) : Nat := sqPeriodOf s.frequency

/-- the value returned by `calculateFrequency` (uint16; `newFrequency = -newFrequency` wraps) -/
def calcValue (s : Square) : Nat :=
  if !s.sweepIncrease then (s.shadowFrequency + (65536 - (s.shadowFrequency >>> s.sweepShift)) % 65536) % 65536
  else (s.shadowFrequency + (s.shadowFrequency >>> s.sweepShift)) % 65536

/-- the side effects of `calculateFrequency` -/
def calcState (s : Square) : Square :=
  { s with sweepDescending := s.sweepDescending || !s.sweepIncrease,
           enabled := s.enabled && decide (s.calcValue ≤ 2047) }

/-- first statements of `trigger` (up to the volume reload) -/
def trigBase (s : Square) : Square :=
  { s with triggered := true, enabled := true,
           length := if s.length = 0 then 64 else s.length,
           timer := s.period,
           envelopeTimer := if s.envelopeSweep = 0 then 8 else s.envelopeSweep,
           volume := s.initialVolume }

/-- shadow copy, sweep timer reload and internal enable flag of the sweep block of `trigger` -/
def sweepReload (s : Square) : Square :=
  { s with shadowFrequency := s.frequency,
           sweepTimer := if s.sweepPeriod = 0 then 8 else s.sweepPeriod,
           sweepEnabled := decide (s.sweepPeriod > 0) || decide (s.sweepShift > 0) }

/-- the `if s.sweep != nil { … }` block of `trigger` -/
def triggerSweep (s : Square) : Square :=
  if !s.hasSweep then s
  else if s.sweepShift > 0 then s.sweepReload.calcState
  else s.sweepReload

/-- `if !s.dacEnabled { s.enabled = false }` -/
def dacGate (s : Square) : Square := { s with enabled := s.enabled && s.dacEnabled }

/-- `square.trigger` -/
def trigger (s : Square) : Square := s.trigBase.triggerSweep.dacGate

/-- `square.tickTimer` -/
def tickTimer (s : Square) : Square :=
  if s.timer = 0 then
    { s with timer := dec16 s.period, dutyIndex := if inc8 s.dutyIndex ≥ 8 then 0 else inc8 s.dutyIndex }
  else { s with timer := dec16 s.timer }

/-- `square.tickLength` -/
def tickLength (s : Square) : Square :=
  if !s.lengthEnable then s
  else if s.length > 0 then
    { s with length := dec8 s.length, enabled := s.enabled && decide (dec8 s.length ≠ 0) }
  else s

/-- `square.tickVolumeEnvelope` -/
def tickVolumeEnvelope (s : Square) : Square :=
  if s.envelopeSweep = 0 then s
  else if s.envelopeTimer = 0 then
    (if s.envelopeIncrease then
      (if s.volume < 15 then { s with volume := inc8 s.volume, envelopeTimer := dec8 s.envelopeSweep }
       else { s with envelopeTimer := dec8 s.envelopeTimer })
     else
      (if s.volume > 0 then { s with volume := dec8 s.volume, envelopeTimer := dec8 s.envelopeSweep }
       else { s with envelopeTimer := dec8 s.envelopeTimer }))
  else { s with envelopeTimer := dec8 s.envelopeTimer }

/-- `s.frequency = nf; s.shadowFrequency = nf` -/
def storeFreq (s : Square) (nf : Nat) : Square := { s with frequency := nf, shadowFrequency := nf }

/-- the `else` arm of `tickSweep` (period non-zero): calculate, maybe store and calculate again -/
def sweepStep (s : Square) : Square :=
  if s.calcValue < 2048 ∧ s.sweepShift > 0 then (s.calcState.storeFreq s.calcValue).calcState
  else s.calcState

/-- `square.tickSweep` -/
def tickSweep (s : Square) : Square :=
  if !s.sweepEnabled then s
  else if dec8 s.sweepTimer = 0 then
    (if s.sweepPeriod = 0 then { s with sweepTimer := 8 }
     else sweepStep { s with sweepTimer := s.sweepPeriod })
  else { s with sweepTimer := dec8 s.sweepTimer }

/-- `waveduty[duty][dutyIndex]` (0 or 1); `none` is Go's index-out-of-range panic -/
def dutyWave (duty idx : Nat) : Option Nat :=
  match duty with
  | 0 => [0, 1, 1, 1, 1, 1, 1, 1][idx]?
  | 1 => [0, 0, 1, 1, 1, 1, 1, 1][idx]?
  | 2 => [0, 0, 0, 0, 1, 1, 1, 1][idx]?
  | 3 => [0, 0, 0, 0, 0, 0, 1, 1][idx]?
  | _ => none

/-- `square.takeSample` as the exact numerator over 120: `wave · volume/8 = 15·wave·volume / 120` -/
def sampleNum (s : Square) : Option Nat :=
  if !s.enabled || !s.dacEnabled then some 0
  else (dutyWave s.duty s.dutyIndex).map (fun w => 15 * w * s.volume)

/-- `WriteNR10` (power check done by the caller) -/
def writeNR10 (s : Square) (v : Nat) : Square :=
  { s with sweepPeriod := v / 16 % 8, sweepIncrease := decide (v / 8 % 2 = 0), sweepShift := v % 8,
           enabled := s.enabled && !(decide (v / 8 % 2 = 0) && s.sweepDescending),
           sweepDescending := false }

/-- `WriteNR12` / `WriteNR22` -/
def writeNRx2 (s : Square) (v : Nat) : Square :=
  { s with initialVolume := v / 16, envelopeIncrease := decide (v / 8 % 2 > 0), envelopeSweep := v % 8,
           dacEnabled := decide (v / 16 > 0) || decide (v / 8 % 2 > 0),
           enabled := s.enabled && (decide (v / 16 > 0) || decide (v / 8 % 2 > 0)) }

/-- `WriteNR13` (channel 1 also reloads the timer) -/
def writeNR13 (s : Square) (v : Nat) : Square :=
  { s with frequency := s.frequency / 256 * 256 + v, timer := sqPeriodOf (s.frequency / 256 * 256 + v) }

/-- `WriteNR23` -/
def writeNR23 (s : Square) (v : Nat) : Square :=
  { s with frequency := s.frequency / 256 * 256 + v }

/-- frequency high bits of an NRx4 write -/
def setFreqHi (s : Square) (v : Nat) : Square := { s with frequency := s.frequency % 256 + (v % 8) * 256 }

/-- the extra length clock when length becomes enabled in the first half of a frame-sequencer period -/
def extraLenClock (s : Square) (fs : Nat) (le trig : Bool) : Square :=
  if !s.lengthEnable && le && decide (s.length > 0) && decide (fs % 2 = 1) then
    { s with length := dec8 s.length, enabled := s.enabled && !(decide (dec8 s.length = 0) && !trig) }
  else s

/-- the extra length clock of a trigger that reloaded the full length -/
def trigLenClock (s : Square) (fs : Nat) (le : Bool) : Square :=
  if le && decide (s.length = 64) && decide (fs % 2 = 1) then { s with length := dec8 s.length } else s

def trigPart (s : Square) (fs : Nat) (le trig : Bool) : Square :=
  if trig then s.trigger.trigLenClock fs le else s

def setLE (s : Square) (le : Bool) : Square := { s with lengthEnable := le }

/-- `WriteNR14` / `WriteNR24`; `fs` is `a.frameSeqTicks` -/
def writeNRx4 (s : Square) (fs : Nat) (v : Nat) : Square :=
  (((s.setFreqHi v).extraLenClock fs (leOf v) (trigOf v)).trigPart fs (leOf v) (trigOf v)).setLE (leOf v)

end Square
end Tetro.Model.Apu
