import Tetro.Model.ApuSquare
import Tetro.Model.ApuWave
import Tetro.Model.ApuNoise
/-
Model of gameboy/audio/audio.go (clocking, frame sequencer, sampler), channel.go (mixer) and
the NR50–NR52 / dispatch part of registers.go, plus the FF10–FF3F routing of
memory/mapper.go.  Same conventions as `ApuSquare.lean` (Nat fields, explicit moduli).

Samples.  `channel.go` computes in float32
    left = (Σ_routed wave_k) / 4 · (volumeLeft / 8 · 0.6)
with wave_sq = duty·volume/8, wave_3 = (buf>>shift)/15, wave_4 = (1-lfsr&1)·volume/8.  Over the
rationals this is  N / 19200  with  N = 3 · (Σ_routed num_k) · volumeLeft,
num_sq = 15·duty·volume, num_3 = 8·(buf>>shift), num_4 = 15·(1-lfsr&1)·volume  (120 = lcm(8,15),
19200 = 120·4·8·5).  The model emits the integer numerators N; float32 rounding is NOT modelled
(the harness compares `round(sample·19200)` and checks |sample·19200 − N| < 0.5).

The output channels `l`, `r` are the flags `hasL`, `hasR` (non-nil) and the list `out` of
emitted (left, right) numerators, newest first.
-/
namespace Tetro.Model.Apu

structure Control where
  on : Bool := false
  ch1Right : Bool := false
  ch2Right : Bool := false
  ch3Right : Bool := false
  ch4Right : Bool := false
  ch1Left : Bool := false
  ch2Left : Bool := false
  ch3Left : Bool := false
  ch4Left : Bool := false
  vinLeftEnable : Bool := false
  volumeLeft : Nat := 0
  vinRightEnable : Bool := false
  volumeRight : Nat := 0
deriving DecidableEq, Repr

structure Apu where
  hasL : Bool := false
  hasR : Bool := false
  ch1 : Square := { hasSweep := true, sweepIncrease := true }   -- &square{sweep: &sweep{sweepIncrease: true}} (fix 636f923)
  ch2 : Square := {}
  ch3 : Wave := {}
  ch4 : Noise := {}
  control : Control := {}
  ticks : Nat := 1            -- uint64
  frameSeqTicks : Nat := 0    -- uint64
  out : List (Nat × Nat) := []
  crash : Bool := false       -- `waveduty` index out of range (Go would have panicked)
deriving DecidableEq, Repr

def frameSeqPeriod : Nat := 4194304 / 512
def samplerPeriod : Nat := 4194304 / 44100
def two64 : Nat := 18446744073709551616

namespace Apu

def crashed (a : Apu) : Bool := a.crash || a.ch3.crash

/-! ### register writes (registers.go) -/

def writeNR10 (a : Apu) (v : Nat) : Apu := if !a.control.on then a else { a with ch1 := a.ch1.writeNR10 v }

/-- `WriteNR11` / `WriteNR21` on a square: duty only while on, length always -/
def sqWriteNRx1 (on : Bool) (s : Square) (v : Nat) : Square :=
  { s with duty := if on then v / 64 else s.duty, length := 64 - v % 64 }

def writeNR11 (a : Apu) (v : Nat) : Apu := { a with ch1 := sqWriteNRx1 a.control.on a.ch1 v }
def writeNR12 (a : Apu) (v : Nat) : Apu := if !a.control.on then a else { a with ch1 := a.ch1.writeNRx2 v }
def writeNR13 (a : Apu) (v : Nat) : Apu := if !a.control.on then a else { a with ch1 := a.ch1.writeNR13 v }
def writeNR14 (a : Apu) (v : Nat) : Apu :=
  if !a.control.on then a else { a with ch1 := a.ch1.writeNRx4 a.frameSeqTicks v }
def writeNR21 (a : Apu) (v : Nat) : Apu := { a with ch2 := sqWriteNRx1 a.control.on a.ch2 v }
def writeNR22 (a : Apu) (v : Nat) : Apu := if !a.control.on then a else { a with ch2 := a.ch2.writeNRx2 v }
def writeNR23 (a : Apu) (v : Nat) : Apu := if !a.control.on then a else { a with ch2 := a.ch2.writeNR23 v }
def writeNR24 (a : Apu) (v : Nat) : Apu :=
  if !a.control.on then a else { a with ch2 := a.ch2.writeNRx4 a.frameSeqTicks v }
def writeNR30 (a : Apu) (v : Nat) : Apu := if !a.control.on then a else { a with ch3 := a.ch3.writeNR30 v }
def writeNR31 (a : Apu) (v : Nat) : Apu := { a with ch3 := a.ch3.writeNR31 v }
def writeNR32 (a : Apu) (v : Nat) : Apu := if !a.control.on then a else { a with ch3 := a.ch3.writeNR32 v }
def writeNR33 (a : Apu) (v : Nat) : Apu := if !a.control.on then a else { a with ch3 := a.ch3.writeNR33 v }
def writeNR34 (a : Apu) (v : Nat) : Apu :=
  if !a.control.on then a else { a with ch3 := a.ch3.writeNR34 a.frameSeqTicks v }
def writeNR41 (a : Apu) (v : Nat) : Apu := { a with ch4 := a.ch4.writeNR41 v }
def writeNR42 (a : Apu) (v : Nat) : Apu := if !a.control.on then a else { a with ch4 := a.ch4.writeNR42 v }
def writeNR43 (a : Apu) (v : Nat) : Apu := if !a.control.on then a else { a with ch4 := a.ch4.writeNR43 v }
def writeNR44 (a : Apu) (v : Nat) : Apu :=
  if !a.control.on then a else { a with ch4 := a.ch4.writeNR44 a.frameSeqTicks v }

def ctlWriteNR50 (c : Control) (v : Nat) : Control :=
  { c with vinLeftEnable := decide (v / 128 % 2 > 0), volumeLeft := v / 16 % 8,
           vinRightEnable := decide (v / 8 % 2 > 0), volumeRight := v % 8 }

def writeNR50 (a : Apu) (v : Nat) : Apu := if !a.control.on then a else { a with control := ctlWriteNR50 a.control v }

def ctlWriteNR51 (c : Control) (v : Nat) : Control :=
  { c with ch4Left := decide (v / 128 % 2 > 0), ch3Left := decide (v / 64 % 2 > 0),
           ch2Left := decide (v / 32 % 2 > 0), ch1Left := decide (v / 16 % 2 > 0),
           ch4Right := decide (v / 8 % 2 > 0), ch3Right := decide (v / 4 % 2 > 0),
           ch2Right := decide (v / 2 % 2 > 0), ch1Right := decide (v % 2 > 0) }

def writeNR51 (a : Apu) (v : Nat) : Apu := if !a.control.on then a else { a with control := ctlWriteNR51 a.control v }

def setOn (a : Apu) (b : Bool) : Apu := { a with control := { a.control with on := b } }

def clearDuties (a : Apu) : Apu := { a with ch1 := { a.ch1 with duty := 0 }, ch2 := { a.ch2 with duty := 0 } }

/-- the power-off arm of `WriteNR52`: switch on, write 0 to the 16 registers, clear the duties, switch off -/
def powerOff (a : Apu) : Apu :=
  (((((((((((((((((((a.setOn true).writeNR10 0).writeNR12 0).writeNR13 0).writeNR14 0).writeNR22 0).writeNR23 0).writeNR24 0).writeNR30 0).writeNR32 0).writeNR33 0).writeNR34 0).writeNR42 0).writeNR43 0).writeNR44 0).writeNR50 0).writeNR51 0).clearDuties).setOn false)

/-- the power-on arm of `WriteNR52` -/
def powerOn (a : Apu) : Apu :=
  if !a.control.on then ({ a with frameSeqTicks := 0 } : Apu).setOn true else a.setOn true

/-- `WriteNR52` -/
def writeNR52 (a : Apu) (v : Nat) : Apu := if v / 128 = 0 then a.powerOff else a.powerOn

def writeWaveRAM (a : Apu) (i v : Nat) : Apu := { a with ch3 := a.ch3.writeRam i v }

/-- `Mapper.Write` restricted to FF10–FF3F (other addresses do not reach the APU); byte value `v < 256` -/
def writeB (a : Apu) (addr v : Nat) : Apu :=
  if addr = 0xFF10 then a.writeNR10 v
  else if addr = 0xFF11 then a.writeNR11 v
  else if addr = 0xFF12 then a.writeNR12 v
  else if addr = 0xFF13 then a.writeNR13 v
  else if addr = 0xFF14 then a.writeNR14 v
  else if addr = 0xFF16 then a.writeNR21 v
  else if addr = 0xFF17 then a.writeNR22 v
  else if addr = 0xFF18 then a.writeNR23 v
  else if addr = 0xFF19 then a.writeNR24 v
  else if addr = 0xFF1A then a.writeNR30 v
  else if addr = 0xFF1B then a.writeNR31 v
  else if addr = 0xFF1C then a.writeNR32 v
  else if addr = 0xFF1D then a.writeNR33 v
  else if addr = 0xFF1E then a.writeNR34 v
  else if addr = 0xFF20 then a.writeNR41 v
  else if addr = 0xFF21 then a.writeNR42 v
  else if addr = 0xFF22 then a.writeNR43 v
  else if addr = 0xFF23 then a.writeNR44 v
  else if addr = 0xFF24 then a.writeNR50 v
  else if addr = 0xFF25 then a.writeNR51 v
  else if addr = 0xFF26 then a.writeNR52 v
  else if addr < 0xFF30 then a
  else if addr < 0xFF40 then a.writeWaveRAM (addr - 0xFF30) v
  else a

def write (a : Apu) (addr v : Nat) : Apu := a.writeB addr (v % 256)

/-! ### register reads (all pure) -/

def bit (b : Bool) (w : Nat) : Nat := if b then w else 0

def readNR10 (a : Apu) : Nat :=
  if !a.ch1.sweepIncrease then ((0x80 ||| ((a.ch1.sweepPeriod <<< 4) % 256) ||| a.ch1.sweepShift) + 0x08) % 256
  else 0x80 ||| ((a.ch1.sweepPeriod <<< 4) % 256) ||| a.ch1.sweepShift
def sqReadNRx1 (s : Square) : Nat := 0x3f ||| ((s.duty <<< 6) % 256)
/-- `ReadNR12` / `ReadNR22` / `ReadNR42` from the three envelope fields -/
def envRead (iv : Nat) (inc : Bool) (es : Nat) : Nat :=
  if inc then ((((iv <<< 4) % 256) ||| es) + 0x08) % 256 else ((iv <<< 4) % 256) ||| es
def sqReadNRx2 (s : Square) : Nat := envRead s.initialVolume s.envelopeIncrease s.envelopeSweep
def readNR30 (a : Apu) : Nat := if a.ch3.dacEnabled then 0xff else 0x7f
def readNR32 (a : Apu) : Nat := 0x9f ||| ((a.ch3.outputLevel <<< 5) % 256)
def readNR42 (a : Apu) : Nat := envRead a.ch4.initialVolume a.ch4.envelopeIncrease a.ch4.envelopeSweep
def readNR43 (a : Apu) : Nat :=
  ((a.ch4.shift <<< 4) % 256) ||| ((a.ch4.lfsrWidth <<< 3) % 256) ||| a.ch4.divisor
def readNR50 (a : Apu) : Nat :=
  (((((a.control.volumeLeft <<< 4) % 256) ||| a.control.volumeRight) + bit a.control.vinLeftEnable 0x80) % 256
    + bit a.control.vinRightEnable 0x08) % 256
def readNR51 (a : Apu) : Nat :=
  (bit a.control.ch4Left 0x80 + bit a.control.ch3Left 0x40 + bit a.control.ch2Left 0x20 + bit a.control.ch1Left 0x10
   + bit a.control.ch4Right 0x08 + bit a.control.ch3Right 0x04 + bit a.control.ch2Right 0x02 + bit a.control.ch1Right 0x01) % 256
def readNR52 (a : Apu) : Nat :=
  (0x70 + bit a.control.on 0x80 + bit a.ch4.enabled 0x08 + bit a.ch3.enabled 0x04 + bit a.ch2.enabled 0x02
   + bit a.ch1.enabled 0x01) % 256
def lenRead (le : Bool) : Nat := if le then 0xff else 0xbf

/-- `Mapper.Read` restricted to FF10–FF3F; `none` = Go panic -/
def read (a : Apu) (addr : Nat) : Option Nat :=
  if addr = 0xFF10 then some a.readNR10
  else if addr = 0xFF11 then some (sqReadNRx1 a.ch1)
  else if addr = 0xFF12 then some (sqReadNRx2 a.ch1)
  else if addr = 0xFF13 then some 0xff
  else if addr = 0xFF14 then some (lenRead a.ch1.lengthEnable)
  else if addr = 0xFF16 then some (sqReadNRx1 a.ch2)
  else if addr = 0xFF17 then some (sqReadNRx2 a.ch2)
  else if addr = 0xFF18 then some 0xff
  else if addr = 0xFF19 then some (lenRead a.ch2.lengthEnable)
  else if addr = 0xFF1A then some a.readNR30
  else if addr = 0xFF1B then some 0xff
  else if addr = 0xFF1C then some a.readNR32
  else if addr = 0xFF1D then some 0xff
  else if addr = 0xFF1E then some (lenRead a.ch3.lengthEnable)
  else if addr = 0xFF20 then some 0xff
  else if addr = 0xFF21 then some a.readNR42
  else if addr = 0xFF22 then some a.readNR43
  else if addr = 0xFF23 then some (lenRead a.ch4.lengthEnable)
  else if addr = 0xFF24 then some a.readNR50
  else if addr = 0xFF25 then some a.readNR51
  else if addr = 0xFF26 then some a.readNR52
  else if addr < 0xFF30 then some 0xff
  else if addr < 0xFF40 then a.ch3.readRam (addr - 0xFF30)
  else some 0xff

/-! ### mixer (channel.go) -/

/-- one side of `takeSample`: the exact numerator over 19200 -/
def mixNum (r1 r2 r3 r4 : Bool) (w1 w2 w3 w4 vol : Nat) : Nat :=
  3 * (bit r1 w1 + bit r2 w2 + bit r3 w3 + bit r4 w4) * vol

def leftNum (c : Control) (w1 w2 w3 w4 : Nat) : Nat :=
  mixNum c.ch1Left c.ch2Left c.ch3Left c.ch4Left w1 w2 w3 w4 c.volumeLeft
def rightNum (c : Control) (w1 w2 w3 w4 : Nat) : Nat :=
  mixNum c.ch1Right c.ch2Right c.ch3Right c.ch4Right w1 w2 w3 w4 c.volumeRight

/-- the pair of numerators `takeSample` sends; `none` = `waveduty` index panic -/
def samplePair (a : Apu) : Option (Nat × Nat) :=
  match a.ch1.sampleNum, a.ch2.sampleNum with
  | some w1, some w2 =>
    some (leftNum a.control w1 w2 a.ch3.sampleNum a.ch4.sampleNum,
          rightNum a.control w1 w2 a.ch3.sampleNum a.ch4.sampleNum)
  | _, _ => none

/-- `takeSample` -/
def takeSample (a : Apu) : Apu :=
  if !a.control.on || !a.hasL || !a.hasR then a
  else match a.samplePair with
    | some p => { a with out := p :: a.out }
    | none => { a with crash := true }

/-! ### clocking (audio.go) -/

/-- `Audio.tickTimer` -/
def tickTimer (a : Apu) : Apu :=
  { a with ch1 := if !a.ch1.triggered then a.ch1.tickTimer else a.ch1,
           ch2 := if !a.ch2.triggered then a.ch2.tickTimer else a.ch2,
           ch3 := if !a.ch3.triggered then a.ch3.tickTimer else a.ch3,
           ch4 := if !a.ch4.triggered then a.ch4.tickTimer else a.ch4 }

/-- uint64 `a - b` -/
def sub64 (a b : Nat) : Nat := (a % two64 + two64 - b % two64) % two64

/-- length clocks of `tickFrameSequencer` -/
def lenPart (a : Apu) : Apu :=
  if a.frameSeqTicks % 2 = 0 then
    { a with ch1 := a.ch1.tickLength, ch2 := a.ch2.tickLength, ch3 := a.ch3.tickLength, ch4 := a.ch4.tickLength }
  else a

/-- envelope clocks of `tickFrameSequencer` -/
def envPart (a : Apu) : Apu :=
  if sub64 a.frameSeqTicks 7 % 8 = 0 then
    { a with ch1 := a.ch1.tickVolumeEnvelope, ch2 := a.ch2.tickVolumeEnvelope, ch4 := a.ch4.tickVolumeEnvelope }
  else a

/-- sweep clock of `tickFrameSequencer` -/
def sweepPart (a : Apu) : Apu :=
  if sub64 a.frameSeqTicks 2 % 4 = 0 then { a with ch1 := a.ch1.tickSweep } else a

def incFs (a : Apu) : Apu := { a with frameSeqTicks := (a.frameSeqTicks + 1) % two64 }

/-- `tickFrameSequencer` -/
def tickFrameSequencer (a : Apu) : Apu := a.lenPart.envPart.sweepPart.incFs

/-- `if a.frameSeqTicks >= 512 { a.frameSeqTicks = 0 }` -/
def wrapFs (a : Apu) : Apu := if a.frameSeqTicks ≥ 512 then { a with frameSeqTicks := 0 } else a

/-- the `if a.ticks%frameSeqPeriod == 0 { … }` block of `tickClock` -/
def frameSeqPart (a : Apu) : Apu :=
  if a.ticks % frameSeqPeriod = 0 then a.tickFrameSequencer.wrapFs else a

/-- the `if a.ticks%samplerPeriod == 0 { … }` block -/
def samplerPart (a : Apu) : Apu := if a.ticks % samplerPeriod = 0 then a.takeSample else a

def incTicks (a : Apu) : Apu := { a with ticks := (a.ticks + 1) % two64 }

/-- `tickClock` -/
def tickClock (a : Apu) : Apu := a.tickTimer.frameSeqPart.samplerPart.incTicks

def clearTriggered (a : Apu) : Apu :=
  { a with ch1 := { a.ch1 with triggered := false }, ch2 := { a.ch2 with triggered := false },
           ch3 := { a.ch3 with triggered := false }, ch4 := { a.ch4 with triggered := false } }

/-- `EndMachineCycle` -/
def endMachineCycle (a : Apu) : Apu :=
  a.tickClock.tickClock.tickClock.tickClock.clearTriggered

/-- n machine cycles -/
def cycles : Nat → Apu → Apu
  | 0, a => a
  | n + 1, a => cycles n a.endMachineCycle

/-- n clock cycles (used by the timing theorems) -/
def clocks : Nat → Apu → Apu
  | 0, a => a
  | n + 1, a => clocks n a.tickClock

/-- initial wave RAM of `audio.New` -/
def initWaveRam : WaveRam :=
  #v[0x84, 0x40, 0x43, 0xAA, 0x2D, 0x78, 0x92, 0x3C, 0x60, 0x59, 0x59, 0xB0, 0x34, 0xB8, 0x2E, 0xDA]

/-- `audio.New(l, r)`: the struct literal followed by the 18 register writes (most of which are
    ignored because `control.on` is still false – the code is modelled as it is) -/
def new0 (hasL hasR : Bool) : Apu :=
  { hasL := hasL, hasR := hasR, ch3 := { waveram := initWaveRam }, ticks := 1 }

def new (hasL hasR : Bool) : Apu :=
  ((((((((((((((((((new0 hasL hasR).writeNR10 0x80).writeNR11 0xbf).writeNR12 0xf3).writeNR13 0xff).writeNR14 0xbf).writeNR21 0x3f).writeNR23 0xff).writeNR24 0xbf).writeNR30 0x7f).writeNR31 0xff).writeNR32 0x9f).writeNR33 0xff).writeNR34 0xbf).writeNR41 0xff).writeNR44 0xbf).writeNR50 0x77).writeNR51 0xf3).writeNR52 0xf1

/-- the operations of a history: a bus write to FF10–FF3F or one machine cycle (reads are pure) -/
inductive Op where
  | write (addr v : Nat)
  | cycle
deriving DecidableEq, Repr

def step (a : Apu) : Op → Apu
  | .write ad v => a.write ad v
  | .cycle => a.endMachineCycle

def run (a : Apu) (ops : List Op) : Apu := ops.foldl step a

end Apu
end Tetro.Model.Apu
