/-
Model of gameboy/memory/rtc.go (hand-written, function for function; tied to the code by the
`rtc` correspondence mode).

Representation: every Go integer field is a `Nat` and every Go wrap-around is written out
(`% 256` for `uint8`, `% 65536` for `uint16`); bit masks are `&&&` as in the source.  `ticks` is a
Go `int`: the model uses `Nat` (assumption: the count is never negative and stays far below
2^63 – it is reset to 0 whenever it reaches 1048576 and by every seconds write).
Nothing in rtc.go can panic (no index, no division), so all functions are total.
-/
namespace Tetro.Model.Rtc

structure St where
  -- RTC registers
  s : Nat
  m : Nat
  h : Nat
  d : Nat
  carry : Bool
  halt : Bool
  -- latched RTC registers
  ls : Nat
  lm : Nat
  lh : Nat
  ld : Nat
  lcarry : Bool
  lhalt : Bool
  -- internal state
  ticks : Nat
  low : Bool

/-- `newRTC` : the Go zero value -/
def init : St :=
  { s := 0, m := 0, h := 0, d := 0, carry := false, halt := false,
    ls := 0, lm := 0, lh := 0, ld := 0, lcarry := false, lhalt := false, ticks := 0, low := false }

/-- the four masking assignments at the end of `increment` -/
def maskFields (r : St) : St :=
  { r with s := r.s &&& 0x3f, m := r.m &&& 0x3f, h := r.h &&& 0x1f, d := r.d &&& 0x01ff }

/-- the `Days` block of `increment` -/
def incDays (r : St) : St :=
  let d1 := (r.d + 1) % 65536
  if d1 = 512 then { r with d := 0, carry := true } else { r with d := d1 }

/-- the `Hours` block -/
def incHours (r : St) : St :=
  let h1 := (r.h + 1) % 256
  if h1 = 24 then incDays { r with h := 0 } else { r with h := h1 }

/-- the `Minutes` block -/
def incMinutes (r : St) : St :=
  let m1 := (r.m + 1) % 256
  if m1 = 60 then incHours { r with m := 0 } else { r with m := m1 }

/-- the `Seconds` block -/
def incSeconds (r : St) : St :=
  let s1 := (r.s + 1) % 256
  if s1 = 60 then incMinutes { r with s := 0 } else { r with s := s1 }

/-- `(*rtc).increment` -/
def increment (r : St) : St := maskFields (incSeconds r)

/-- `(*rtc).tick` -/
def tick (r : St) : St :=
  if r.halt then r
  else
    let t := r.ticks + 1
    if t = 1048576 then increment { r with ticks := 0 } else { r with ticks := t }

/-- `(*rtc).latchLow` -/
def latchLow (r : St) : St := { r with low := true }

/-- `(*rtc).latchHigh` -/
def latchHigh (r : St) : St :=
  if r.low then
    { r with ls := r.s, lm := r.m, lh := r.h, ld := r.d, lcarry := r.carry, lhalt := r.halt, low := false }
  else { r with low := false }

/-- `(*rtc).read` -/
def read (r : St) (ramBank : Nat) : Nat :=
  if ramBank = 0x08 then r.ls &&& 0x3f
  else if ramBank = 0x09 then r.lm &&& 0x3f
  else if ramBank = 0x0a then r.lh &&& 0x1f
  else if ramBank = 0x0b then r.ld % 256                       -- uint8(r.ld)
  else if ramBank = 0x0c then
    ((r.ld >>> 8) % 256 &&& 0x01) + (if r.lcarry then 0x80 else 0) + (if r.lhalt then 0x40 else 0)
  else 0xff

/-- `(*rtc).write` (value is a `uint8`) -/
def write (r : St) (ramBank : Nat) (value : Nat) : St :=
  if ramBank = 0x08 then { r with s := value &&& 0x3f, ticks := 0 }
  else if ramBank = 0x09 then { r with m := value &&& 0x3f }
  else if ramBank = 0x0a then { r with h := value &&& 0x1f }
  else if ramBank = 0x0b then { r with d := (r.d &&& 0x0100) ||| value }
  else if ramBank = 0x0c then
    { r with carry := decide ((value >>> 7) > 0),
             halt := decide (((value >>> 6) &&& 0x01) > 0),
             d := (((value &&& 0x01) <<< 8) % 65536) ||| (r.d &&& 0xff) }
  else r

/-- operations of the clock as the MBC3 and the machine-cycle loop issue them -/
inductive Op where
  | tick
  | latch (bit : Bool)                    -- write to 6000-7FFF: bit 0 of the value
  | write (sel : Nat) (v : BitVec 8)      -- write to A000-BFFF with RTC register `sel` selected
deriving Repr

def step (r : St) : Op → St
  | .tick => tick r
  | .latch b => if b then latchHigh r else latchLow r
  | .write sel v => write r sel v.toNat

def run (r : St) (ops : List Op) : St := ops.foldl step r

/-- n machine cycles -/
def tickN : Nat → St → St
  | 0, r => r
  | n + 1, r => tickN n (tick r)

/-- n one-second steps -/
def incrementN : Nat → St → St
  | 0, r => r
  | n + 1, r => incrementN n (increment r)

end Tetro.Model.Rtc
