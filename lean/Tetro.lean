import Tetro.Model.Joyp
import Tetro.Spec.Joyp
