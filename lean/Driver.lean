import Tetro.DriverUtil
import Tetro.Model.Joyp
/-
Line-protocol driver for the executable models (core-only, compiled as `tetro-model`).
usage: tetro-model <ops-file>     first line of the file: `mode <name>`
Every following line is one operation; the driver prints one output line per operation.
-/
open Tetro Tetro.Drv Tetro.Model

def joypStep (c : Joyp.Ctl) (w : List String) : Joyp.Ctl × String :=
  match w with
  | ["reset"] => (Joyp.init, hex2 (Joyp.read Joyp.init))
  | ["w", v] => match parseHex v with
      | some n => let c' := Joyp.write c (BitVec.ofNat 8 n); (c', hex2 (Joyp.read c'))
      | none => (c, "bad-op")
  | ["b", b, p] => match b.toNat?, p.toNat? with
      | some b, some p => let c' := Joyp.button c b (p != 0); (c', hex2 (Joyp.read c'))
      | _, _ => (c, "bad-op")
  | _ => (c, "bad-op")

def main (args : List String) : IO UInt32 := do
  match args with
  | [file] =>
    let lines ← IO.FS.lines file
    if lines.size == 0 then
      IO.eprintln "empty ops file"; return 2
    match (lines[0]!).splitOn " " with
    | ["mode", "joyp"] => runMode lines 1 Joyp.init joypStep; return 0
    | _ => IO.eprintln s!"unknown mode line: {lines[0]!}"; return 2
  | _ => IO.eprintln "usage: tetro-model <ops-file>"; return 2
